(* C08 - per-command statements: the span theorems of Proofs/C08_Spans.v
   composed with the operator theorems (d as the representative operator; c, y
   and the register variants share op_delete_span / op_yank_span). *)
From Coq Require Import ZArith List Bool Lia.
From PTK Require Import Lib.Sx Lib.Py Model.Document Model.BufferEdit Model.C02_DocQueries
  Model.C08_ViOps Model.C08_TextObjects
  Proofs.C02_Base Proofs.C02_Coords Proofs.C02_Words Proofs.C02_WordsExact Proofs.C02_Find Proofs.C02_FindExact
  Proofs.C02_Boundaries
  Proofs.BufferEditFacts Proofs.C08_ViFacts Proofs.C08_Spans.
Import ListNotations.
Open Scope Z_scope.

(* what "d removes exactly [a, e)" means *)
Definition removes (st : vst) (r : vres) (a e : Z) : Prop :=
  let t := btext (vbuf st) in
  r = (0, mkvst (mkbuf (firstn (Z.to_nat a) t ++ skipn (Z.to_nat e) t) a)
                (Some (mkcd (firstn (Z.to_nat (e - a)) (skipn (Z.to_nat a) t)) 0))
                (vreg st) (vins st)).

Definition colof (st : vst) (i : Z) : Z := snd (translate_index_to_position (bdoc (vbuf st)) i).

(* ---------------------------------------------------------------------- *)
(* Generic: delete with the four shapes of object *)

Lemma range_excl d s e :
  s < e ->
  operator_range d (mkto s e EXCL) =
  (s, if snd (translate_index_to_position d (e + dcur d)) =? 0 then e - 1 else e).
Proof.
  intros H. unfold operator_range, to_sorted. cbn [tstart tend ttype].
  destruct (s <? e) eqn:E; [|lia]. cbn [is_excl is_incl is_linew andb]. rewrite E. cbn [andb].
  destruct (snd (translate_index_to_position d (e + dcur d)) =? 0); reflexivity.
Qed.

Lemma range_excl_rev d s e :
  e < s ->
  operator_range d (mkto s e EXCL) =
  (e, if snd (translate_index_to_position d (s + dcur d)) =? 0 then s - 1 else s).
Proof.
  intros H. unfold operator_range, to_sorted. cbn [tstart tend ttype].
  destruct (s <? e) eqn:E; [lia|]. cbn [is_excl is_incl is_linew andb].
  destruct (e <? s) eqn:E2; [|lia]. cbn [andb].
  destruct (snd (translate_index_to_position d (s + dcur d)) =? 0); reflexivity.
Qed.

(* ---------------------------------------------------------------------- *)
(* [spans st o a e]: the range the operators use for the object o in state st
   is exactly the non-empty absolute span [a, e) inside the text.  Everything
   the character-wise operators do is a function of that span
   (spans_all_operators below); the per-command lemmas establish it for the
   object a text-object function returns. *)
Definition spans (st : vst) (o : tobj) (a e : Z) : Prop :=
  charwise (ttype o) /\
  bcur (vbuf st) + fst (operator_range (bdoc (vbuf st)) o) = a /\
  bcur (vbuf st) + snd (operator_range (bdoc (vbuf st)) o) = e /\
  0 <= a /\ a < e /\ e <= len (btext (vbuf st)).

Lemma spans_intro st o f t :
  let c := bcur (vbuf st) in
  charwise (ttype o) -> operator_range (bdoc (vbuf st)) o = (f, t) ->
  0 <= c + f -> f < t -> c + t <= len (btext (vbuf st)) ->
  spans st o (c + f) (c + t).
Proof.
  intros c Hc Hr H0 Hlt Hle. unfold spans. rewrite Hr. cbn [fst snd]. fold c.
  repeat split; try assumption; lia.
Qed.

Definition span_text (st : vst) (a e : Z) : str :=
  firstn (Z.to_nat (e - a)) (skipn (Z.to_nat a) (btext (vbuf st))).
Definition text_without (st : vst) (a e : Z) : str :=
  firstn (Z.to_nat a) (btext (vbuf st)) ++ skipn (Z.to_nat e) (btext (vbuf st)).

Lemma spans_removes st o ev a e : spans st o a e -> removes st (op_delete true false st o ev) a e.
Proof.
  intros (Hc & Ha & He & H0 & Hlt & Hle). unfold removes.
  pose proof (op_delete_span true st o ev Hc) as G. cbv zeta in G. rewrite Ha, He in G.
  exact (G H0 Hlt Hle).
Qed.

(* register yank (was missing next to op_yank_span) *)
Lemma op_yank_reg_span st o ev k :
  charwise (ttype o) ->
  let b := vbuf st in
  let a := bcur b + fst (operator_range (bdoc b) o) in
  let e := bcur b + snd (operator_range (bdoc b) o) in
  0 <= a -> a < e -> e <= len (btext b) ->
  nth_error (ekeys ev) 1 = Some k -> is_regname k = true ->
  op_yank_reg st o ev =
  (0, mkvst b (vclip st)
            (Some (k, mkcd (firstn (Z.to_nat (e - a)) (skipn (Z.to_nat a) (btext b))) 0)) (vins st)).
Proof.
  intros Hc b a e Ha Hae He Hk Hr. unfold op_yank_reg. rewrite Hk, Hr. fold b.
  rewrite (to_cut_charwise b o Hc) by assumption. fold a e.
  cbn [ctext]. rewrite c08_nonempty_len by (rewrite c08_len_mid; lia). reflexivity.
Qed.

(* ONE statement for every character-wise operator: once the object's span is
   [a, e), d / c remove exactly text[a:e], leave the cursor at a and store
   exactly text[a:e] (CHARACTERS) in the clipboard, c also enters insert
   mode; the register variants of d / c do the same into the typed register and
   leave the clipboard alone; y and its register variant store exactly text[a:e] and change neither text
   nor cursor; the case operators rewrite exactly text[a:e] in place. *)
Lemma spans_all_operators st o a e :
  spans st o a e ->
  (forall del ev,
     op_delete del false st o ev =
     (0, mkvst (mkbuf (text_without st a e) a) (Some (mkcd (span_text st a e) 0)) (vreg st)
               (if del then vins st else true))) /\
  (forall del ev k, nth_error (ekeys ev) 1 = Some k -> is_regname k = true ->
     op_delete del true st o ev =
     (0, mkvst (mkbuf (text_without st a e) a) (vclip st) (Some (k, mkcd (span_text st a e) 0))
               (if del then vins st else true))) /\
  (forall ev,
     op_yank st o ev = (0, mkvst (vbuf st) (Some (mkcd (span_text st a e) 0)) (vreg st) (vins st))) /\
  (forall ev k, nth_error (ekeys ev) 1 = Some k -> is_regname k = true ->
     op_yank_reg st o ev =
     (0, mkvst (vbuf st) (vclip st) (Some (k, mkcd (span_text st a e) 0)) (vins st))) /\
  (forall F ev, Inv (vbuf st) ->
     exists c',
       op_transform F st o ev =
       (0, with_buf st (mkbuf (firstn (Z.to_nat a) (btext (vbuf st)) ++ F (span_text st a e)
                               ++ skipn (Z.to_nat e) (btext (vbuf st))) c'))).
Proof.
  intros (Hc & Ha & He & H0 & Hlt & Hle). unfold span_text, text_without.
  split; [|split; [|split; [|split]]].
  - intros del ev. pose proof (op_delete_span del st o ev Hc) as G. cbv zeta in G.
    rewrite Ha, He in G. exact (G H0 Hlt Hle).
  - intros del ev k Hk Hr. pose proof (op_delete_span_reg del st o ev k Hc) as G. cbv zeta in G.
    rewrite Ha, He in G. exact (G H0 Hlt Hle Hk Hr).
  - intros ev. pose proof (op_yank_span st o ev Hc) as G. cbv zeta in G.
    rewrite Ha, He in G. exact (G H0 Hlt Hle).
  - intros ev k Hk Hr. pose proof (op_yank_reg_span st o ev k Hc) as G. cbv zeta in G.
    rewrite Ha, He in G. exact (G H0 Hlt Hle Hk Hr).
  - intros F ev Hi. pose proof (op_transform_frame F st o ev Hi) as G. cbv zeta in G.
    rewrite Ha, He in G. exact (G H0 Hlt Hle).
Qed.

(* ---------------------------------------------------------------------- *)
(* The shapes of object: where the span is *)

(* forward exclusive motion, far end not in column 0 *)
Lemma sp_forward st v :
  let c := bcur (vbuf st) in
  0 <= c -> 0 < v -> c + v <= len (btext (vbuf st)) -> colof st (c + v) <> 0 ->
  spans st (mk1 v) c (c + v).
Proof.
  intros c Hc Hv Hl Hcol.
  assert (Hr : operator_range (bdoc (vbuf st)) (mk1 v) = (0, v)).
  { unfold mk1. rewrite range_excl_rev by lia. unfold colof in Hcol.
    replace (v + dcur (bdoc (vbuf st))) with (c + v) by (cbn [bdoc dcur]; unfold c; lia).
    destruct (snd (translate_index_to_position (bdoc (vbuf st)) (c + v)) =? 0) eqn:E2; [lia|reflexivity]. }
  pose proof (spans_intro st (mk1 v) 0 v (or_introl eq_refl) Hr) as G. cbv zeta in G. fold c in G.
  replace (c + 0) with c in G by lia. apply G; lia.
Qed.

(* forward exclusive motion whose far end is the first column of a line: the
   line ending before it stays *)
Lemma sp_forward_col0 st v :
  let c := bcur (vbuf st) in
  0 <= c -> 1 < v -> c + v <= len (btext (vbuf st)) -> colof st (c + v) = 0 ->
  spans st (mk1 v) c (c + v - 1).
Proof.
  intros c Hc Hv Hl Hcol.
  assert (Hr : operator_range (bdoc (vbuf st)) (mk1 v) = (0, v - 1)).
  { unfold mk1. rewrite range_excl_rev by lia. unfold colof in Hcol.
    replace (v + dcur (bdoc (vbuf st))) with (c + v) by (cbn [bdoc dcur]; unfold c; lia).
    rewrite Hcol. reflexivity. }
  pose proof (spans_intro st (mk1 v) 0 (v - 1) (or_introl eq_refl) Hr) as G. cbv zeta in G. fold c in G.
  replace (c + 0) with c in G by lia. replace (c + (v - 1)) with (c + v - 1) in G by lia. apply G; lia.
Qed.

(* backward exclusive motion, cursor not in column 0 *)
Lemma sp_backward st v :
  let c := bcur (vbuf st) in
  v < 0 -> 0 <= c + v -> c <= len (btext (vbuf st)) -> colof st c <> 0 ->
  spans st (mk1 v) (c + v) c.
Proof.
  intros c Hv H0 Hl Hcol.
  assert (Hr : operator_range (bdoc (vbuf st)) (mk1 v) = (v, 0)).
  { unfold mk1. rewrite range_excl by lia. unfold colof in Hcol.
    replace (0 + dcur (bdoc (vbuf st))) with c by (cbn [bdoc dcur]; unfold c; lia).
    destruct (snd (translate_index_to_position (bdoc (vbuf st)) c) =? 0) eqn:E2; [lia|reflexivity]. }
  pose proof (spans_intro st (mk1 v) v 0 (or_introl eq_refl) Hr) as G. cbv zeta in G. fold c in G.
  replace (c + 0) with c in G by lia. apply G; lia.
Qed.

(* backward exclusive motion from the first column of a line: the line ending
   before the cursor stays (the column-0 rule looks at the larger end) *)
Lemma sp_backward_col0 st v :
  let c := bcur (vbuf st) in
  v < -1 -> 0 <= c + v -> c <= len (btext (vbuf st)) -> colof st c = 0 ->
  spans st (mk1 v) (c + v) (c - 1).
Proof.
  intros c Hv H0 Hl Hcol.
  assert (Hr : operator_range (bdoc (vbuf st)) (mk1 v) = (v, -1)).
  { unfold mk1. rewrite range_excl by lia. unfold colof in Hcol.
    replace (0 + dcur (bdoc (vbuf st))) with c by (cbn [bdoc dcur]; unfold c; lia).
    rewrite Hcol. reflexivity. }
  pose proof (spans_intro st (mk1 v) v (-1) (or_introl eq_refl) Hr) as G. cbv zeta in G. fold c in G.
  replace (c + -1) with (c - 1) in G by lia. apply G; lia.
Qed.

(* inclusive motion, forwards or backwards: from the nearer end through the
   character at the farther end *)
Lemma sp_inclusive st v :
  let c := bcur (vbuf st) in
  0 <= c + Z.min v 0 -> c + Z.max v 0 + 1 <= len (btext (vbuf st)) ->
  spans st (mkto v 0 INCL) (c + Z.min v 0) (c + Z.max v 0 + 1).
Proof.
  intros c H0 Hl.
  pose proof (operator_range_charwise (bdoc (vbuf st)) (mkto v 0 INCL) (or_intror eq_refl)) as (H1 & H2 & _).
  cbn [tstart tend ttype] in H1, H2. specialize (H2 eq_refl).
  destruct (operator_range (bdoc (vbuf st)) (mkto v 0 INCL)) as [f t] eqn:Er. cbn [fst snd] in H1, H2.
  pose proof (spans_intro st (mkto v 0 INCL) f t (or_intror eq_refl) Er) as G. cbv zeta in G. fold c in G.
  rewrite H1, H2 in G. replace (c + (Z.max v 0 + 1)) with (c + Z.max v 0 + 1) in G by lia.
  apply G; lia.
Qed.

(* two-ended exclusive object around the cursor, far end not in column 0 *)
Lemma sp_object st s e :
  let c := bcur (vbuf st) in
  s < e -> 0 <= c + s -> c + e <= len (btext (vbuf st)) -> colof st (c + e) <> 0 ->
  spans st (mkto s e EXCL) (c + s) (c + e).
Proof.
  intros c Hse H0 Hl Hcol.
  assert (Hr : operator_range (bdoc (vbuf st)) (mkto s e EXCL) = (s, e)).
  { rewrite range_excl by lia. unfold colof in Hcol.
    replace (e + dcur (bdoc (vbuf st))) with (c + e) by (cbn [bdoc dcur]; unfold c; lia).
    destruct (snd (translate_index_to_position (bdoc (vbuf st)) (c + e)) =? 0) eqn:E2; [lia|reflexivity]. }
  pose proof (spans_intro st (mkto s e EXCL) s e (or_introl eq_refl) Hr) as G. cbv zeta in G. fold c in G.
  apply G; lia.
Qed.

(* ... whose far end is the first column of a line: the line ending before it stays *)
Lemma sp_object_col0 st s e :
  let c := bcur (vbuf st) in
  s < e - 1 -> 0 <= c + s -> c + e <= len (btext (vbuf st)) -> colof st (c + e) = 0 ->
  spans st (mkto s e EXCL) (c + s) (c + e - 1).
Proof.
  intros c Hse H0 Hl Hcol.
  assert (Hr : operator_range (bdoc (vbuf st)) (mkto s e EXCL) = (s, e - 1)).
  { rewrite range_excl by lia. unfold colof in Hcol.
    replace (e + dcur (bdoc (vbuf st))) with (c + e) by (cbn [bdoc dcur]; unfold c; lia).
    rewrite Hcol. reflexivity. }
  pose proof (spans_intro st (mkto s e EXCL) s (e - 1) (or_introl eq_refl) Hr) as G. cbv zeta in G. fold c in G.
  replace (c + (e - 1)) with (c + e - 1) in G by lia. apply G; lia.
Qed.

(* the same for the representative operator d (the statements of round 4) *)
Lemma d_forward st ev v :
  let c := bcur (vbuf st) in
  0 <= c -> 0 < v -> c + v <= len (btext (vbuf st)) -> colof st (c + v) <> 0 ->
  removes st (op_delete true false st (mk1 v) ev) c (c + v).
Proof. intros c H1 H2 H3 H4. apply spans_removes. apply sp_forward; assumption. Qed.

Lemma d_forward_col0 st ev v :
  let c := bcur (vbuf st) in
  0 <= c -> 1 < v -> c + v <= len (btext (vbuf st)) -> colof st (c + v) = 0 ->
  removes st (op_delete true false st (mk1 v) ev) c (c + v - 1).
Proof. intros c H1 H2 H3 H4. apply spans_removes. apply sp_forward_col0; assumption. Qed.

Lemma d_backward st ev v :
  let c := bcur (vbuf st) in
  v < 0 -> 0 <= c + v -> c <= len (btext (vbuf st)) -> colof st c <> 0 ->
  removes st (op_delete true false st (mk1 v) ev) (c + v) c.
Proof. intros c H1 H2 H3 H4. apply spans_removes. apply sp_backward; assumption. Qed.

Lemma sp_inclusive_fwd st v :
  let c := bcur (vbuf st) in
  0 <= c -> 0 <= v -> c + v + 1 <= len (btext (vbuf st)) ->
  spans st (mkto v 0 INCL) c (c + v + 1).
Proof.
  intros c H1 H2 H3.
  pose proof (sp_inclusive st v) as G. cbv zeta in G. fold c in G.
  rewrite Z.min_r, Z.max_l in G by lia. replace (c + 0) with c in G by lia. apply G; lia.
Qed.

Lemma d_inclusive st ev v :
  let c := bcur (vbuf st) in
  0 <= c -> 0 <= v -> c + v + 1 <= len (btext (vbuf st)) ->
  removes st (op_delete true false st (mkto v 0 INCL) ev) c (c + v + 1).
Proof. intros c H1 H2 H3. apply spans_removes. apply sp_inclusive_fwd; assumption. Qed.

Lemma d_object st ev s e :
  let c := bcur (vbuf st) in
  s <= 0 -> 0 < e -> 0 <= c + s -> c + e <= len (btext (vbuf st)) -> colof st (c + e) <> 0 ->
  removes st (op_delete true false st (mkto s e EXCL) ev) (c + s) (c + e).
Proof. intros c H1 H2 H3 H4 H5. apply spans_removes. apply sp_object; try assumption; lia. Qed.

(* ---------------------------------------------------------------------- *)
(* Columns on the cursor line (from C02's coordinate lemmas) *)

Lemma c08_nth_error_skipn {T} (l : list T) : forall n j, nth_error (skipn n l) j = nth_error l (n + j).
Proof.
  induction l as [|x l IH]; intros n j.
  - rewrite skipn_nil. destruct j, n; reflexivity.
  - destruct n as [|n]; [reflexivity|]. cbn [skipn Nat.add nth_error]. apply IH.
Qed.

Lemma c08_nth_error_firstn {T} (l : list T) : forall n j,
  (j < n)%nat -> nth_error (firstn n l) j = nth_error l j.
Proof.
  induction l as [|x l IH]; intros n j H; [rewrite firstn_nil; reflexivity|].
  destruct n as [|n]; [lia|]. destruct j as [|j]; [reflexivity|].
  cbn [firstn nth_error]. apply IH. lia.
Qed.

Lemma c08_mem_Z_nth c (l : str) : forall j, nth_error l j = Some c -> mem_Z c l = true.
Proof.
  induction l as [|x l IH]; intros j H; [destruct j; discriminate|].
  destruct j as [|j]; cbn [nth_error] in H; cbn [mem_Z].
  - injection H as ->. rewrite Z.eqb_refl. reflexivity.
  - rewrite (IH j H). apply orb_true_r.
Qed.

(* a position after the cursor on the cursor line is not in column 0 *)
Lemma col_after_cursor d k :
  valid d -> 0 < k <= len (current_line_after_cursor d) ->
  snd (translate_index_to_position d (dcur d + k)) <> 0.
Proof.
  intros Hv Hk Hc0.
  destruct (C02c_line_parts d Hv) as (_ & Hno & _ & (q & Hq & _)).
  assert (Hlen : dcur d + k <= len (dtext d)).
  { pose proof (f_equal len Hq) as Hl. rewrite (ta_skipn d Hv), len_app, len_skipn in Hl.
    pose proof (len_nonneg q). destruct Hv. lia. }
  destruct (translate_index_to_position d (dcur d + k)) as [row col] eqn:E. cbn [snd] in Hc0. subst col.
  destruct Hv as [Hv0 Hv1].
  destruct (C02c_index_to_position_spec d (dcur d + k) row 0 ltac:(lia) E) as (_ & _ & _ & Hb & _).
  destruct Hb as [Hb|Hb]; [lia|].
  replace (Z.to_nat (dcur d + k - 0 - 1)) with (Z.to_nat (dcur d) + Z.to_nat (k - 1))%nat in Hb by lia.
  rewrite <- c08_nth_error_skipn in Hb. rewrite <- (ta_skipn d (conj Hv0 Hv1)), Hq in Hb.
  rewrite nth_error_app1 in Hb by (unfold len in Hk; lia).
  apply c08_mem_Z_nth in Hb. congruence.
Qed.

(* the cursor itself is not in column 0 when something precedes it on its line *)
Lemma col_of_cursor d :
  valid d -> 0 < len (current_line_before_cursor d) ->
  snd (translate_index_to_position d (dcur d)) <> 0.
Proof.
  intros Hv Hk Hc0.
  destruct (C02c_line_parts d Hv) as (Hno & _ & (p & Hp & _) & _).
  destruct (translate_index_to_position d (dcur d)) as [row col] eqn:E. cbn [snd] in Hc0. subst col.
  pose proof Hv as [Hv0 Hv1].
  assert (Hlen : len p + len (current_line_before_cursor d) = dcur d).
  { pose proof (f_equal len Hp) as Hl. rewrite (tb_firstn d Hv), len_app, len_firstn in Hl. lia. }
  destruct (C02c_index_to_position_spec d (dcur d) row 0 ltac:(lia) E) as (_ & _ & _ & Hb & _).
  destruct Hb as [Hb|Hb]; [pose proof (len_nonneg p); lia|].
  assert (Hb' : nth_error (text_before_cursor d) (Z.to_nat (dcur d - 0 - 1)) = Some NL).
  { pose proof (len_nonneg p). rewrite (tb_firstn d Hv). rewrite c08_nth_error_firstn by lia. exact Hb. }
  pose proof (len_nonneg p) as Hpn. rewrite Hp in Hb'. rewrite nth_error_app2 in Hb' by (unfold len in *; lia).
  apply c08_mem_Z_nth in Hb'. congruence.
Qed.

(* ---------------------------------------------------------------------- *)
(* Per-command statements.  st is any state whose buffer is the document d. *)

Definition at_doc (st : vst) (d : doc) : Prop := vbuf st = mkbuf (dtext d) (dcur d).

Lemma at_doc_cur st d : at_doc st d -> bcur (vbuf st) = dcur d.
Proof. intros H. rewrite H. reflexivity. Qed.
Lemma at_doc_text st d : at_doc st d -> btext (vbuf st) = dtext d.
Proof. intros H. rewrite H. reflexivity. Qed.

Lemma at_doc_bdoc st d : at_doc st d -> bdoc (vbuf st) = d.
Proof. intros H. rewrite H. destruct d; reflexivity. Qed.

(* d$ on a non-empty rest of line: exactly the rest of the cursor line goes *)
Lemma cmd_dollar st d n hc :
  at_doc st d -> valid d -> 0 < len (current_line_after_cursor d) ->
  exists o, text_object T_dollar d n hc = TO o false /\
    spans st o (dcur d) (dcur d + len (current_line_after_cursor d)).
Proof.
  intros Ha Hv Hk. destruct (span_dollar d n hc Hv) as (Ht & _ & _).
  set (k := len (current_line_after_cursor d)) in *.
  exists (mk1 k). split; [rewrite Ht; destruct (k =? 0) eqn:E; [lia|reflexivity]|].
  pose proof (col_after_cursor d k Hv ltac:(lia)) as Hcol.
  assert (Hlen : dcur d + k <= len (dtext d)).
  { destruct (C02c_line_parts d Hv) as (_ & _ & _ & (q & Hq & _)).
    pose proof (f_equal len Hq) as Hl. rewrite (ta_skipn d Hv), len_app, len_skipn in Hl.
    pose proof (len_nonneg q). destruct Hv. fold k in Hl. lia. }
  pose proof (sp_forward st k) as G. cbv zeta in G. rewrite ?(at_doc_cur st d Ha), ?(at_doc_text st d Ha) in G.
  apply G; try lia; [destruct Hv; lia|]. unfold colof. rewrite (at_doc_bdoc st d Ha). exact Hcol.
Qed.

(* d0 with something before the cursor on its line: exactly that goes *)
Lemma cmd_zero st d n hc :
  at_doc st d -> valid d -> 0 < len (current_line_before_cursor d) ->
  exists o, text_object T_zero d n hc = TO o false /\
    spans st o (dcur d - len (current_line_before_cursor d)) (dcur d).
Proof.
  intros Ha Hv Hk. destruct (span_zero d n hc Hv) as (Ht & _).
  set (k := len (current_line_before_cursor d)) in *.
  exists (mk1 (- k)). split; [rewrite Ht; destruct (k =? 0) eqn:E; [lia|reflexivity]|].
  pose proof (col_of_cursor d Hv Hk) as Hcol.
  assert (Hlen : k <= dcur d).
  { destruct (C02c_line_parts d Hv) as (_ & _ & (p & Hp & _) & _).
    pose proof (f_equal len Hp) as Hl. rewrite (tb_firstn d Hv), len_app, len_firstn in Hl.
    pose proof (len_nonneg p). destruct Hv. fold k in Hl. lia. }
  pose proof (sp_backward st (- k)) as G. cbv zeta in G. rewrite ?(at_doc_cur st d Ha), ?(at_doc_text st d Ha) in G.
  replace (dcur d - k) with (dcur d + - k) by lia.
  apply G; try lia; [destruct Hv; lia|]. unfold colof. rewrite (at_doc_bdoc st d Ha). exact Hcol.
Qed.

(* dw / dW: up to the count-th next word start j; when j is the first column
   of a line the line ending before it stays (and nothing happens if that line
   ending is all there is) *)
Lemma cmd_w st d n hc W l j :
  at_doc st d -> valid d -> 1 <= n ->
  enumerates (fun j => dcur d < j /\ word_start (word_cls W) (dtext d) j) l ->
  pick l n = Some j ->
  text_object (T_w W) d n hc = TO (mk1 (j - dcur d)) false /\
  (snd (translate_index_to_position d j) <> 0 ->
     spans st (mk1 (j - dcur d)) (dcur d) j) /\
  (snd (translate_index_to_position d j) = 0 -> dcur d + 1 < j ->
     spans st (mk1 (j - dcur d)) (dcur d) (j - 1)).
Proof.
  intros Ha Hv Hn Hl Hp. pose proof (span_w d n hc W l Hv Hn Hl) as Ht. rewrite Hp in Ht.
  split; [exact Ht|].
  assert (Hin : dcur d < j /\ j <= len (dtext d)).
  { assert (In j l) by (unfold pick in Hp; destruct (n <? 1); [discriminate|]; eapply nth_error_In; exact Hp).
    apply (proj2 Hl) in H. destruct H as [H1 [H2 _]]. apply clsat_nz_bounds in H2. lia. }
  destruct Hin as [Hin Hj].
  pose proof Hv as [Hv0 Hv1].
  split; intros Hc.
  - pose proof (sp_forward st (j - dcur d)) as G. cbv zeta in G. rewrite ?(at_doc_cur st d Ha), ?(at_doc_text st d Ha) in G.
    replace j with (dcur d + (j - dcur d)) at 2 by lia.
    apply G; try lia. unfold colof. rewrite (at_doc_bdoc st d Ha).
    replace (dcur d + (j - dcur d)) with j by lia. exact Hc.
  - intros Hgt.
    pose proof (sp_forward_col0 st (j - dcur d)) as G. cbv zeta in G. rewrite ?(at_doc_cur st d Ha), ?(at_doc_text st d Ha) in G.
    replace (j - 1) with (dcur d + (j - dcur d) - 1) by lia.
    apply G; try lia. unfold colof. rewrite (at_doc_bdoc st d Ha).
    replace (dcur d + (j - dcur d)) with j by lia. exact Hc.
Qed.

(* db / dB with the cursor not in column 0: back to the count-th previous word start *)
Lemma cmd_b st d n hc W l j :
  at_doc st d -> valid d -> 1 <= n ->
  enumerates (fun j => j < dcur d /\ word_start (word_cls W) (dtext d) j) l ->
  pick (rev l) n = Some j ->
  0 < len (current_line_before_cursor d) ->
  text_object (T_b W) d n hc = TO (mk1 (j - dcur d)) false /\
  spans st (mk1 (j - dcur d)) j (dcur d).
Proof.
  intros Ha Hv Hn Hl Hp Hk. pose proof (span_b d n hc W l Hv Hn Hl) as Ht. rewrite Hp in Ht.
  split; [exact Ht|].
  assert (Hin : j < dcur d /\ 0 <= j).
  { assert (In j l).
    { apply in_rev. unfold pick in Hp. destruct (n <? 1); [discriminate|]. eapply nth_error_In; exact Hp. }
    apply (proj2 Hl) in H. destruct H as [H1 H2]. apply word_start_nonneg in H2. lia. }
  destruct Hin as [Hin Hj].
  pose proof Hv as [Hv0 Hv1].
  pose proof (sp_backward st (j - dcur d)) as G. cbv zeta in G. rewrite ?(at_doc_cur st d Ha), ?(at_doc_text st d Ha) in G.
  replace j with (dcur d + (j - dcur d)) at 2 by lia.
  apply G; try lia. unfold colof. rewrite (at_doc_bdoc st d Ha). apply col_of_cursor; assumption.
Qed.

(* de / dE: through the last character of the count-th word end j *)
Lemma cmd_e st d n hc W l j :
  at_doc st d -> valid d -> 1 <= n ->
  enumerates (fun j => dcur d + 1 < j /\ word_end (word_cls W) (dtext d) j) l ->
  pick l n = Some j ->
  text_object (T_e W) d n hc = TO (mkto (j - 1 - dcur d) 0 INCL) false /\
  spans st (mkto (j - 1 - dcur d) 0 INCL) (dcur d) j.
Proof.
  intros Ha Hv Hn Hl Hp. pose proof (span_e d n hc W l Hv Hn Hl) as Ht. rewrite Hp in Ht.
  split; [exact Ht|].
  assert (Hin : dcur d + 1 < j /\ j <= len (dtext d)).
  { assert (In j l) by (unfold pick in Hp; destruct (n <? 1); [discriminate|]; eapply nth_error_In; exact Hp).
    apply (proj2 Hl) in H. destruct H as [H1 [H2 _]]. apply clsat_nz_bounds in H2. lia. }
  destruct Hin as [Hin Hj].
  pose proof Hv as [Hv0 Hv1].
  pose proof (sp_inclusive_fwd st (j - 1 - dcur d)) as G. cbv zeta in G. rewrite ?(at_doc_cur st d Ha), ?(at_doc_text st d Ha) in G.
  replace j with (dcur d + (j - 1 - dcur d) + 1) at 2 by lia.
  apply G; lia.
Qed.

(* dfx: through the count-th x after the cursor on the cursor line (p = its
   offset in the text after the character under the cursor) *)
Lemma cmd_f st d n hc ch l p :
  at_doc st d -> valid d ->
  greedy (occ ceq_exact [ch] (find_scanned d true false)) (fstep [ch]) 0 l ->
  0 < len (current_line_after_cursor d) -> nth_match l n = Some p ->
  text_object (T_f ch) d n hc = TO (mkto (p + 1) 0 INCL) false /\
  spans st (mkto (p + 1) 0 INCL) (dcur d) (dcur d + p + 2) /\
  nth_error (dtext d) (Z.to_nat (dcur d + p + 1)) = Some ch /\
  p + 2 <= len (current_line_after_cursor d).
Proof.
  intros Ha Hv G0 Hk Hp.
  (* p is a member of the greedy list: 0 <= p and ch occurs at offset p of the scanned text *)
  apply nth_match_in in Hp as Hin.
  assert (Hs : 0 <= fstep [ch]) by (unfold fstep; lia).
  destruct (greedy_members _ _ Hs _ _ G0 p Hin) as [Hp0 [Hocc Hfit]].
  assert (Hsc : find_scanned d true false = skipn 1 (current_line_after_cursor d)).
  { unfold find_scanned. rewrite slice_from_in_range by lia. reflexivity. }
  rewrite Hsc in Hocc, Hfit. rewrite len_skipn in Hfit. change (len [ch]) with 1 in Hfit.
  assert (Hp2 : p + 2 <= len (current_line_after_cursor d)) by lia.
  destruct (C02c_line_parts d Hv) as (_ & _ & _ & (q & Hq & _)).
  assert (Hlen : dcur d + len (current_line_after_cursor d) <= len (dtext d)).
  { pose proof (f_equal len Hq) as Hl. rewrite (ta_skipn d Hv), len_app, len_skipn in Hl.
    pose proof (len_nonneg q). destruct Hv. lia. }
  pose proof (span_f d n hc ch l G0) as Ht.
  destruct (len (current_line_after_cursor d) =? 0) eqn:E; [lia|]. rewrite Hp in Ht.
  destruct (p + 1 =? 0) eqn:E2; [lia|]. split; [exact Ht|].
  pose proof Hv as [Hv0 Hv1].
  split.
  { pose proof (sp_inclusive_fwd st (p + 1)) as G. cbv zeta in G. rewrite ?(at_doc_cur st d Ha), ?(at_doc_text st d Ha) in G.
    replace (dcur d + p + 2) with (dcur d + (p + 1) + 1) by lia. apply G; lia. }
  split; [|exact Hp2].
  (* the character there is ch *)
  destruct Hocc as [_ Hsw].
  destruct (skipn (Z.to_nat p) (skipn 1 (current_line_after_cursor d))) as [|x r] eqn:Es; [discriminate Hsw|].
  cbn [startswith_by] in Hsw. apply andb_prop in Hsw as [Hx _]. unfold ceq_exact in Hx.
  apply Z.eqb_eq in Hx. subst x.
  assert (H1 : nth_error (current_line_after_cursor d) (1 + Z.to_nat p) = Some ch).
  { rewrite <- c08_nth_error_skipn.
    pose proof (c08_nth_error_skipn (skipn 1 (current_line_after_cursor d)) (Z.to_nat p) 0) as H.
    rewrite Es in H. cbn [nth_error] in H. rewrite Nat.add_0_r in H. symmetry. exact H. }
  replace (Z.to_nat (dcur d + p + 1)) with (Z.to_nat (dcur d) + (1 + Z.to_nat p))%nat by lia.
  rewrite <- c08_nth_error_skipn, <- (ta_skipn d Hv), Hq.
  rewrite nth_error_app1 by (unfold len in Hp2; lia). exact H1.
Qed.


(* diw / diW on a word: exactly the maximal run of the cursor character's
   class goes (C02y_boundaries_is_run) *)
Lemma cmd_iw st d n hc W s e :
  at_doc st d -> valid d ->
  find_boundaries_of_current_word d W false false = (s, e) -> 0 < e ->
  text_object (T_word W false) d n hc = TO (mkto s e EXCL) false /\
  is_run (word_cls W) (dtext d) (dcur d + s) (dcur d + e) /\
  spans st (mkto s e EXCL) (dcur d + s) (dcur d + e).
Proof.
  intros Ha Hv Hb He.
  split.
  { cbn [text_object]. rewrite Hb. destruct (e =? 0) eqn:E; [lia|]. rewrite andb_false_r. reflexivity. }
  assert (Hne : (s, e) <> (0, 0)) by (intros H; injection H; lia).
  pose proof (C02y_boundaries_is_run d W s e Hv Hb Hne) as Hrun. split; [exact Hrun|].
  destruct (C02w_boundaries_in_bounds d W false false s e Hv Hb) as [[Hs0 Hs1] [He0 He1]].
  destruct Hrun as ([Hr0 _] & Hr1 & _).
  pose proof (sp_object st s e) as G. cbv zeta in G. rewrite ?(at_doc_cur st d Ha), ?(at_doc_text st d Ha) in G.
  apply G; try lia. unfold colof. rewrite (at_doc_bdoc st d Ha).
  apply col_after_cursor; [exact Hv|lia].
Qed.

(* ---------------------------------------------------------------------- *)
(* The round-4 statements for the representative operator d are instances *)

Lemma cmd_d_dollar st d n hc ev :
  at_doc st d -> valid d -> 0 < len (current_line_after_cursor d) ->
  exists o, text_object T_dollar d n hc = TO o false /\
    removes st (op_delete true false st o ev) (dcur d) (dcur d + len (current_line_after_cursor d)).
Proof.
  intros Ha Hv Hk. destruct (cmd_dollar st d n hc Ha Hv Hk) as (o & H1 & H2).
  exists o. split; [exact H1|apply spans_removes; exact H2].
Qed.

Lemma cmd_d_zero st d n hc ev :
  at_doc st d -> valid d -> 0 < len (current_line_before_cursor d) ->
  exists o, text_object T_zero d n hc = TO o false /\
    removes st (op_delete true false st o ev) (dcur d - len (current_line_before_cursor d)) (dcur d).
Proof.
  intros Ha Hv Hk. destruct (cmd_zero st d n hc Ha Hv Hk) as (o & H1 & H2).
  exists o. split; [exact H1|apply spans_removes; exact H2].
Qed.

Lemma cmd_d_w st d n hc W l j ev :
  at_doc st d -> valid d -> 1 <= n ->
  enumerates (fun j => dcur d < j /\ word_start (word_cls W) (dtext d) j) l ->
  pick l n = Some j ->
  text_object (T_w W) d n hc = TO (mk1 (j - dcur d)) false /\
  (snd (translate_index_to_position d j) <> 0 ->
     removes st (op_delete true false st (mk1 (j - dcur d)) ev) (dcur d) j) /\
  (snd (translate_index_to_position d j) = 0 -> dcur d + 1 < j ->
     removes st (op_delete true false st (mk1 (j - dcur d)) ev) (dcur d) (j - 1)).
Proof.
  intros Ha Hv Hn Hl Hp. destruct (cmd_w st d n hc W l j Ha Hv Hn Hl Hp) as (H1 & H2 & H3).
  split; [exact H1|]. split; [intros Hc|intros Hc Hg]; apply spans_removes; auto.
Qed.

Lemma cmd_d_b st d n hc W l j ev :
  at_doc st d -> valid d -> 1 <= n ->
  enumerates (fun j => j < dcur d /\ word_start (word_cls W) (dtext d) j) l ->
  pick (rev l) n = Some j ->
  0 < len (current_line_before_cursor d) ->
  text_object (T_b W) d n hc = TO (mk1 (j - dcur d)) false /\
  removes st (op_delete true false st (mk1 (j - dcur d)) ev) j (dcur d).
Proof.
  intros Ha Hv Hn Hl Hp Hk. destruct (cmd_b st d n hc W l j Ha Hv Hn Hl Hp Hk) as (H1 & H2).
  split; [exact H1|apply spans_removes; exact H2].
Qed.

Lemma cmd_d_e st d n hc W l j ev :
  at_doc st d -> valid d -> 1 <= n ->
  enumerates (fun j => dcur d + 1 < j /\ word_end (word_cls W) (dtext d) j) l ->
  pick l n = Some j ->
  text_object (T_e W) d n hc = TO (mkto (j - 1 - dcur d) 0 INCL) false /\
  removes st (op_delete true false st (mkto (j - 1 - dcur d) 0 INCL) ev) (dcur d) j.
Proof.
  intros Ha Hv Hn Hl Hp. destruct (cmd_e st d n hc W l j Ha Hv Hn Hl Hp) as (H1 & H2).
  split; [exact H1|apply spans_removes; exact H2].
Qed.

(* (round 6: the hypotheses 0 <= p and cursor + p + 2 <= len are gone - they
   follow from membership in the greedy list) *)
Lemma cmd_d_f st d n hc ch l p ev :
  at_doc st d -> valid d ->
  greedy (occ ceq_exact [ch] (find_scanned d true false)) (fstep [ch]) 0 l ->
  0 < len (current_line_after_cursor d) -> nth_match l n = Some p ->
  text_object (T_f ch) d n hc = TO (mkto (p + 1) 0 INCL) false /\
  removes st (op_delete true false st (mkto (p + 1) 0 INCL) ev) (dcur d) (dcur d + p + 2).
Proof.
  intros Ha Hv G0 Hk Hp. destruct (cmd_f st d n hc ch l p Ha Hv G0 Hk Hp) as (H1 & H2 & _).
  split; [exact H1|apply spans_removes; exact H2].
Qed.

Lemma cmd_d_iw st d n hc W s e ev :
  at_doc st d -> valid d ->
  find_boundaries_of_current_word d W false false = (s, e) -> 0 < e ->
  text_object (T_word W false) d n hc = TO (mkto s e EXCL) false /\
  is_run (word_cls W) (dtext d) (dcur d + s) (dcur d + e) /\
  removes st (op_delete true false st (mkto s e EXCL) ev) (dcur d + s) (dcur d + e).
Proof.
  intros Ha Hv Hb He. destruct (cmd_iw st d n hc W s e Ha Hv Hb He) as (H1 & H2 & H3).
  split; [exact H1|]. split; [exact H2|apply spans_removes; exact H3].
Qed.
