(* C11 - source <-> display column maps of TabsProcessor / BeforeInput /
   _MergedProcessor (Model/C11_CopyBody.v process_line). *)
From Coq Require Import ZArith List Bool Lia.
From PTK Require Import Lib.Sx Lib.Py Model.C11_Scroll Model.C11_CopyBody.
Import ListNotations.
Open Scope Z_scope.

(* strictly increasing, first element >= lo *)
Fixpoint incr_from (lo : Z) (m : list Z) : Prop :=
  match m with [] => True | p :: r => lo <= p /\ incr_from (p + 1) r end.

Lemma incr_from_weaken : forall m lo lo', lo' <= lo -> incr_from lo m -> incr_from lo' m.
Proof. destruct m as [|p r]; intros lo lo' H I; cbn in *; [exact I | split; [lia | tauto]]. Qed.

Lemma incr_nth_ge : forall m lo i v, incr_from lo m -> nth_error m i = Some v -> lo + Z.of_nat i <= v.
Proof.
  induction m as [|p r IH]; intros lo i v I Hn; [destruct i; discriminate|].
  destruct I as [I1 I2]. destruct i as [|i']; cbn [nth_error] in Hn.
  - inversion Hn; subst. cbn [Z.of_nat]. lia.
  - pose proof (IH (p + 1) i' v I2 Hn). lia.
Qed.

Lemma incr_nth_lt : forall m lo i j a b, incr_from lo m -> (i < j)%nat ->
  nth_error m i = Some a -> nth_error m j = Some b -> a < b.
Proof.
  induction m as [|p r IH]; intros lo i j a b I Hij Ha Hb; [destruct i; discriminate|].
  destruct I as [I1 I2]. destruct j as [|j']; [lia|]. cbn [nth_error] in Hb.
  destruct i as [|i']; cbn [nth_error] in Ha.
  - inversion Ha; subst. pose proof (incr_nth_ge r (a + 1) j' b I2 Hb). lia.
  - eapply (IH (p + 1) i' j'); eauto. lia.
Qed.

Lemma tabs_go_incr : forall tabstop c1 c2 line pos, 1 <= tabstop ->
  incr_from pos (snd (tabs_go tabstop c1 c2 line pos)) /\
  length (snd (tabs_go tabstop c1 c2 line pos)) = (length line + 2)%nat.
Proof.
  intros tabstop c1 c2. induction line as [|c r IH]; intros pos Ht; cbn [tabs_go].
  - cbn. split; [lia | reflexivity].
  - pose proof (Z.mod_pos_bound pos tabstop ltac:(lia)) as B.
    destruct (c =? 9).
    + set (count := if tabstop - pos mod tabstop =? 0 then tabstop else tabstop - pos mod tabstop).
      assert (Hc : 1 <= count) by (unfold count; destruct (_ =? 0); lia).
      destruct (IH (pos + count) Ht) as [I L].
      destruct (tabs_go tabstop c1 c2 r (pos + count)) as [t m]. cbn [snd] in *.
      split; [split; [lia | eapply incr_from_weaken; [|exact I]; lia] | cbn [length]; lia].
    + destruct (IH (pos + 1) Ht) as [I L].
      destruct (tabs_go tabstop c1 c2 r (pos + 1)) as [t m]. cbn [snd] in *.
      split; [split; [lia | exact I] | cbn [length]; lia].
Qed.

Lemma rev_find_none : forall m lo k v acc, incr_from lo m -> v < lo -> rev_find m k v acc = acc.
Proof.
  induction m as [|p r IH]; intros lo k v acc I Hv; cbn [rev_find]; [reflexivity|].
  destruct I as [I1 I2]. destruct (p =? v) eqn:E; [lia|]. apply (IH (p + 1)); [exact I2 | lia].
Qed.

Lemma rev_find_some : forall m lo k v acc i, incr_from lo m -> nth_error m i = Some v ->
  rev_find m k v acc = Some (k + Z.of_nat i).
Proof.
  induction m as [|p r IH]; intros lo k v acc i I Hn; [destruct i; discriminate|].
  destruct I as [I1 I2]. cbn [rev_find]. destruct i as [|i']; cbn [nth_error] in Hn.
  - inversion Hn; subst. rewrite Z.eqb_refl. rewrite (rev_find_none r (v + 1)) by (auto; lia).
    cbn [Z.of_nat]. now rewrite Z.add_0_r.
  - rewrite (IH (p + 1) (k + 1) v _ i' I2 Hn). f_equal. lia.
Qed.

Lemma tabs_roundtrip : forall m i d, incr_from 0 m -> 0 <= i -> map_get m i = Some d -> tabs_d2s m d = i.
Proof.
  intros m i d I Hi Hg. unfold map_get in Hg. destruct (i <? 0) eqn:E; [lia|].
  pose proof (incr_nth_ge m 0 _ d I Hg) as Hd.
  unfold tabs_d2s. cbn [tabs_d2s_loop]. destruct (d <? 0) eqn:E2; [lia|].
  rewrite (rev_find_some m 0 0 d None _ I Hg). lia.
Qed.

(* ---------------------------------------------------------------------- *)
Section ColMap.
  Variables (bflag : bool) (before : str) (tabstop c1 c2 lineno : Z) (line : str).
  Hypothesis Htab : 0 <= tabstop.
  Local Notation P := (process_line bflag before tabstop c1 c2 lineno line).

  Lemma shift_nonneg : 0 <= pl_shift P.
  Proof.
    unfold process_line, before_shift.
    destruct (tabstop =? 0); [|destruct (tabs_go _ _ _ _ _)]; cbn [pl_shift];
      destruct (bflag && (lineno =? 0)); try apply len_nonneg; lia.
  Qed.

  Lemma map_incr : forall m, pl_map P = Some m -> incr_from 0 m.
  Proof.
    unfold process_line. intros m Hm. destruct (tabstop =? 0) eqn:E; [discriminate|].
    match type of Hm with context [tabs_go ?a ?b ?c ?l ?p] =>
      pose proof (tabs_go_incr a b c l p ltac:(lia)) as [I _];
      destruct (tabs_go a b c l p) as [t m'] end.
    cbn [pl_map snd] in *. inversion Hm; subst. exact I.
  Qed.

  (* display_to_source (source_to_display i) = i *)
  Lemma colmap_inverse : forall i d, 0 <= i -> pl_s2d P i = Some d -> pl_d2s P d = i.
  Proof.
    intros i d Hi Hs. pose proof shift_nonneg as Hsh. unfold pl_s2d, pl_d2s in *.
    destruct (pl_map P) as [m|] eqn:Em.
    - rewrite (tabs_roundtrip m (i + pl_shift P) d); [lia | now apply map_incr | lia | exact Hs].
    - inversion Hs; subst. lia.
  Qed.

  (* strictly monotone *)
  Lemma colmap_monotone : forall i j a b, 0 <= i -> i < j ->
    pl_s2d P i = Some a -> pl_s2d P j = Some b -> a < b.
  Proof.
    intros i j a b Hi Hij Ha Hb. pose proof shift_nonneg as Hsh. unfold pl_s2d in *.
    destruct (pl_map P) as [m|] eqn:Em.
    - unfold map_get in *.
      destruct (i + pl_shift P <? 0) eqn:E1; [lia|]. destruct (j + pl_shift P <? 0) eqn:E2; [lia|].
      eapply (incr_nth_lt m 0); [now apply map_incr | | exact Ha | exact Hb]. lia.
    - inversion Ha; inversion Hb; subst. lia.
  Qed.

  (* defined on every cursor column of the line (0 .. len line, and one beyond) *)
  Lemma colmap_total : forall i, 0 <= i <= len line + 1 -> exists d, pl_s2d P i = Some d.
  Proof.
    intros i Hi. unfold pl_s2d, process_line.
    destruct (tabstop =? 0) eqn:E; cbn [pl_map pl_shift]; [eexists; reflexivity|].
    match goal with |- context [tabs_go ?a ?b ?c ?l ?p] =>
      pose proof (tabs_go_incr a b c l p ltac:(lia)) as [_ L];
      destruct (tabs_go a b c l p) as [t m'] end.
    cbn [pl_map pl_shift snd] in *. unfold map_get, before_shift.
    assert (Hlen : len (if bflag && (lineno =? 0) then before ++ line else line)
                   = len line + (if bflag && (lineno =? 0) then len before else 0)).
    { destruct (bflag && (lineno =? 0)); [rewrite len_app|]; lia. }
    pose proof (len_nonneg before) as Hb.
    set (sh := if bflag && (lineno =? 0) then len before else 0) in *.
    assert (0 <= sh) by (unfold sh; destruct (bflag && _); lia).
    destruct (i + sh <? 0) eqn:E2; [lia|].
    destruct (nth_error m' (Z.to_nat (i + sh))) as [d|] eqn:En; [eexists; reflexivity|].
    apply nth_error_None in En. unfold len in *. lia.
  Qed.
End ColMap.

(* ---------------------------------------------------------------------- *)
(* display -> source on EVERY display column: a column inside the image
   interval [m_i, m_(i+1)) of source column i maps back to i *)
Lemma rev_find_notin : forall m k x acc, (forall v, In v m -> v <> x) -> rev_find m k x acc = acc.
Proof.
  induction m as [|p r IH]; intros k x acc H; cbn [rev_find]; [reflexivity|].
  destruct (p =? x) eqn:E.
  - exfalso. apply (H p); [now left | lia].
  - apply IH. intros v Hv. apply H. now right.
Qed.

Lemma between_notin : forall m i a b x, incr_from 0 m ->
  nth_error m i = Some a -> nth_error m (S i) = Some b -> a < x < b ->
  forall v, In v m -> v <> x.
Proof.
  intros m i a b x I Ha Hb Hx v Hv Heq. subst v.
  destruct (In_nth_error _ _ Hv) as [j Hj].
  destruct (Nat.lt_trichotomy j i) as [H | [H | H]].
  - pose proof (incr_nth_lt m 0 j i x a I H Hj Ha). lia.
  - subst j. rewrite Ha in Hj. inversion Hj. lia.
  - destruct (Nat.eq_dec j (S i)) as [-> | Hne].
    + rewrite Hb in Hj. inversion Hj. lia.
    + pose proof (incr_nth_lt m 0 (S i) j b x I ltac:(lia) Hb Hj). lia.
Qed.

Lemma tabs_d2s_loop_interior : forall m i a b, incr_from 0 m ->
  nth_error m i = Some a -> nth_error m (S i) = Some b ->
  forall n d fuel, d = a + Z.of_nat n -> d < b -> (n < fuel)%nat ->
  tabs_d2s_loop fuel m d = Z.of_nat i.
Proof.
  intros m i a b I Ha Hb. pose proof (incr_nth_ge m 0 i a I Ha) as Ha0.
  induction n as [|n IH]; intros d fuel Hd Hlt Hfuel; (destruct fuel as [|f]; [lia|]); cbn [tabs_d2s_loop].
  - replace d with a by lia. destruct (a <? 0) eqn:E; [lia|].
    rewrite (rev_find_some m 0 0 a None i I Ha). lia.
  - destruct (d <? 0) eqn:E; [lia|].
    rewrite (rev_find_notin m 0 d None) by (apply (between_notin m i a b d I Ha Hb); lia).
    apply IH; lia.
Qed.

Lemma tabs_interior : forall m i a b d, incr_from 0 m ->
  nth_error m i = Some a -> nth_error m (S i) = Some b -> a <= d < b ->
  tabs_d2s m d = Z.of_nat i.
Proof.
  intros m i a b d I Ha Hb Hd. pose proof (incr_nth_ge m 0 i a I Ha) as Ha0.
  unfold tabs_d2s. apply (tabs_d2s_loop_interior m i a b I Ha Hb (Z.to_nat (d - a))); lia.
Qed.

(* the merged map (BeforeInput + TabsProcessor): every display column d in the
   image interval [s2d i, s2d (i+1)) of source column i >= 0 maps back to i *)
Lemma colmap_interior : forall bflag before tabstop c1 c2 lineno line,
  0 <= tabstop -> forall i a b d, 0 <= i ->
  pl_s2d (process_line bflag before tabstop c1 c2 lineno line) i = Some a ->
  pl_s2d (process_line bflag before tabstop c1 c2 lineno line) (i + 1) = Some b ->
  a <= d < b ->
  pl_d2s (process_line bflag before tabstop c1 c2 lineno line) d = i.
Proof.
  intros bflag before tabstop c1 c2 lineno line Htab i a b d Hi Ha Hb Hd.
  pose proof (shift_nonneg bflag before tabstop c1 c2 lineno line) as Hsh.
  unfold pl_s2d, pl_d2s in *.
  destruct (pl_map (process_line bflag before tabstop c1 c2 lineno line)) as [m|] eqn:Em.
  - pose proof (map_incr bflag before tabstop c1 c2 lineno line Htab m Em) as I.
    unfold map_get in Ha, Hb.
    set (sh := pl_shift (process_line bflag before tabstop c1 c2 lineno line)) in *.
    destruct (i + sh <? 0) eqn:E1; [lia|]. destruct (i + 1 + sh <? 0) eqn:E2; [lia|].
    replace (Z.to_nat (i + 1 + sh)) with (S (Z.to_nat (i + sh))) in Hb by lia.
    rewrite (tabs_interior m (Z.to_nat (i + sh)) a b d I Ha Hb Hd). lia.
  - inversion Ha; inversion Hb; subst. lia.
Qed.

(* the same, directly for the position_mappings TabsProcessor builds *)
Lemma tabs_processor_interior : forall tabstop c1 c2 line i a b d, 1 <= tabstop ->
  let m := snd (tabs_go tabstop c1 c2 line 0) in
  nth_error m i = Some a -> nth_error m (S i) = Some b -> a <= d < b ->
  tabs_d2s m d = Z.of_nat i.
Proof.
  intros tabstop c1 c2 line i a b d Ht m Ha Hb Hd.
  destruct (tabs_go_incr tabstop c1 c2 line 0 Ht) as [I _]. now apply (tabs_interior m i a b d I).
Qed.
