(* C02 - round 6: exact characterisations of the remaining queries
   (pattern= variants, empty_line_count_at_the_end, the character / boolean views). *)
From Coq Require Import ZArith List Bool Lia.
From PTK Require Import Lib.Sx Lib.Py Gen.Whitespace Model.Document Model.C02_DocQueries Model.C02_More
  Proofs.C02_Base Proofs.C02_Coords Proofs.C02_Lines Proofs.C02_Words Proofs.C02_WordsExact Proofs.C02_Boundaries.
Import ListNotations.
Open Scope Z_scope.

(* ---------------------------------------------------------------------- *)
(* pattern= *)

(* [s1]+|[s2]+ and [^s1]+ : the count-th start, counting backwards from the
   cursor, of a maximal run of one class of the pattern inside the text before
   the cursor; None iff there are fewer *)
Theorem start_of_previous_word_pattern_runs d count p :
  valid d -> 1 <= count -> (forall s1, p <> PStar s1) ->
  forall l, enumerates (fun j => j < dcur d /\ word_start (pat_cls p) (dtext d) j) l ->
    find_start_of_previous_word_pat d count p = option_map (fun j => j - dcur d) (pick (rev l) count).
Proof.
  intros Hv Hc Hp l Hl. unfold find_start_of_previous_word_pat.
  assert (Hi : pat_iter p (rev (text_before_cursor d)) = runs (pat_cls p) (rev (text_before_cursor d))).
  { destruct p as [s1 s2|s1|s1]; try reflexivity. exfalso. now apply (Hp s1). }
  rewrite Hi, (tb_firstn d Hv).
  rewrite (opt_snd_match (fun en => - en)). apply prev_beg_exact_core; [exact Hv|exact Hl].
Qed.

(* ^[s1]* (FuzzyCompleter's default pattern): one match, the maximal run of
   s1 characters that ends at the cursor (possibly empty) *)
Theorem start_of_previous_word_pattern_star d count s1 :
  let k := span_len (fun c => mem_Z c s1) (rev (text_before_cursor d)) in
  find_start_of_previous_word_pat d count (PStar s1) = (if count =? 1 then Some (- k) else None) /\
  0 <= k <= len (text_before_cursor d) /\
  (forall j : nat, Z.of_nat j < k ->
     exists x, nth_error (rev (text_before_cursor d)) j = Some x /\ mem_Z x s1 = true) /\
  (forall x, nth_error (rev (text_before_cursor d)) (Z.to_nat k) = Some x -> mem_Z x s1 = false).
Proof.
  cbv zeta. split; [|split; [|split]].
  - unfold find_start_of_previous_word_pat, pat_iter, nth_match.
    destruct (count =? 1) eqn:E.
    + apply Z.eqb_eq in E. subst count. reflexivity.
    + destruct (count <? 1) eqn:E1; [reflexivity|].
      apply Z.eqb_neq in E. apply Z.ltb_ge in E1.
      replace (Z.to_nat (count - 1)) with (S (Z.to_nat (count - 2))) by lia.
      cbn [nth_error]. destruct (Z.to_nat (count - 2)); reflexivity.
  - pose proof (Proofs.C02_Words.span_len_bounds (fun c => mem_Z c s1) (rev (text_before_cursor d))) as H.
    rewrite len_rev in H. exact H.
  - intros j Hj. exact (span_len_all _ _ j Hj).
  - intros x Hx. exact (span_len_stop _ _ x Hx).
Qed.

(* get_word_before_cursor(pattern=p): empty when the pattern has no match before
   the cursor, otherwise the characters from the start of the first match
   (counting backwards) to the cursor *)
Theorem word_before_cursor_pattern d p : valid d ->
  (find_start_of_previous_word_pat d 1 p = None /\ get_word_before_cursor_pat d p = []) \/
  (exists r, find_start_of_previous_word_pat d 1 p = Some r /\
     get_word_before_cursor_pat d p = slice_from (text_before_cursor d) (len (text_before_cursor d) + r)).
Proof.
  intros Hv. unfold get_word_before_cursor_pat, is_word_before_cursor_complete_pat.
  destruct (find_start_of_previous_word_pat d 1 p) as [r|]; [right|left].
  - exists r. split; reflexivity.
  - split; reflexivity.
Qed.

(* `assert not (WORD and pattern)` *)
Theorem word_and_pattern_asserts d count p :
  find_start_of_previous_word_wp d count true p = None /\ get_word_before_cursor_wp d true p = None /\
  find_start_of_previous_word_wp d count false p = Some (find_start_of_previous_word_pat d count p) /\
  get_word_before_cursor_wp d false p = Some (get_word_before_cursor_pat d p).
Proof. repeat split. Qed.

(* ---------------------------------------------------------------------- *)
(* empty_line_count_at_the_end *)

Lemma count_leading_spec (p : str -> bool) l :
  let n := count_leading p l in
  0 <= n <= len l /\
  (forall j : nat, Z.of_nat j < n -> p (nth j l []) = true) /\
  (n < len l -> p (nth (Z.to_nat n) l []) = false).
Proof.
  induction l as [|x r IH]; cbn [count_leading]; cbv zeta.
  - change (len (@nil str)) with 0. split; [lia|]. split; intros; lia.
  - rewrite len_cons. cbv zeta in IH. destruct IH as (Hb & Ht & Hf). destruct (p x) eqn:E.
    + split; [lia|]. split.
      * intros [|j] Hj; cbn [nth]; [exact E|]. apply Ht. lia.
      * intros Hn. replace (Z.to_nat (1 + count_leading p r)) with (S (Z.to_nat (count_leading p r))) by lia.
        cbn [nth]. apply Hf. lia.
    + split; [pose proof (len_nonneg r); lia|]. split; [intros; lia|].
      intros _. change (Z.to_nat 0) with 0%nat. cbn [nth]. exact E.
Qed.

(* exactly the number of trailing blank lines: the last n lines are blank and
   the line before them (if any) is not *)
Theorem empty_line_count_exact d :
  let n := empty_line_count_at_the_end d in
  0 <= n <= line_count d /\
  (forall j, line_count d - n <= j < line_count d ->
     blank_line (nth (Z.to_nat j) (lines d) []) = true) /\
  (n < line_count d ->
     blank_line (nth (Z.to_nat (line_count d - n - 1)) (lines d) []) = false).
Proof.
  cbv zeta. unfold empty_line_count_at_the_end, line_count.
  destruct (count_leading_spec blank_line (rev (lines d))) as (Hb & Ht & Hf).
  rewrite len_rev in Hb, Hf. set (n := count_leading blank_line (rev (lines d))) in *.
  set (ls := lines d) in *.
  assert (HL : len ls = Z.of_nat (length ls)) by reflexivity.
  split; [exact Hb|]. split.
  - intros j Hj.
    specialize (Ht (Z.to_nat (len ls - 1 - j)) ltac:(lia)).
    rewrite rev_nth in Ht by lia.
    replace (length ls - S (Z.to_nat (len ls - 1 - j)))%nat with (Z.to_nat j) in Ht by lia. exact Ht.
  - intros Hn. specialize (Hf Hn). rewrite rev_nth in Hf by lia.
    replace (length ls - S (Z.to_nat n))%nat with (Z.to_nat (len ls - n - 1)) in Hf by lia. exact Hf.
Qed.

(* ---------------------------------------------------------------------- *)
(* character / boolean views *)

Lemma count_char_zero_iff c s : count_char c s = 0 <-> mem_Z c s = false.
Proof.
  split; [|apply c02_count_char_none].
  induction s as [|x s IH]; cbn [count_char mem_Z]; [reflexivity|].
  pose proof (c02_count_char_nonneg c s) as Hn. destruct (x =? c); [lia|]. cbn [orb]. intros Hz. apply IH. lia.
Qed.

Lemma skipn_nth_cons {T} (s : list T) : forall n x, nth_error s n = Some x ->
  skipn n s = x :: skipn (S n) s.
Proof.
  induction s as [|y s IH]; intros [|n] x H; cbn [nth_error] in H; try discriminate.
  - apply some_inj in H. subst. reflexivity.
  - cbn [skipn]. now apply IH.
Qed.

Theorem views_chars d : valid d ->
  (dcur d < len (dtext d) -> current_char d = nth_error (dtext d) (Z.to_nat (dcur d))) /\
  (dcur d = len (dtext d) -> current_char d = None) /\
  (0 < dcur d -> char_before_cursor d = nth_error (dtext d) (Z.to_nat (dcur d - 1))) /\
  (is_cursor_at_the_end d = true <-> text_after_cursor d = []) /\
  (is_cursor_at_the_end_of_line d = true <-> current_line_after_cursor d = []) /\
  (on_first_line d = true <-> mem_Z NL (text_before_cursor d) = false) /\
  (on_last_line d = true <-> mem_Z NL (text_after_cursor d) = false).
Proof.
  intros Hv. pose proof Hv as [H0 H1].
  assert (Hend : dcur d = len (dtext d) -> current_char d = None).
  { intros E. unfold current_char, index. cbv zeta. destruct (dcur d <? 0) eqn:E1; [lia|].
    rewrite E1. cbn [orb]. destruct (len (dtext d) <=? dcur d) eqn:E2; [reflexivity|lia]. }
  assert (Hin : dcur d < len (dtext d) -> current_char d = nth_error (dtext d) (Z.to_nat (dcur d))).
  { intros Hlt. unfold current_char. apply index_in_range. lia. }
  split; [exact Hin|]. split; [exact Hend|]. split.
  { intros Hp. unfold char_before_cursor. apply index_in_range. lia. }
  split.
  { unfold is_cursor_at_the_end. pose proof (len_ta d Hv) as Hl. split.
    - intros E. apply Z.eqb_eq in E. destruct (text_after_cursor d) as [|x r]; [reflexivity|].
      rewrite len_cons in Hl. pose proof (len_nonneg r). lia.
    - intros E. rewrite E in Hl. change (len (@nil Z)) with 0 in Hl. apply Z.eqb_eq. lia. }
  split.
  { unfold is_cursor_at_the_end_of_line, current_line_after_cursor. rewrite (ta_skipn d Hv).
    destruct (Z_lt_dec (dcur d) (len (dtext d))) as [Hlt|Hge].
    - rewrite (Hin Hlt).
      destruct (nth_error (dtext d) (Z.to_nat (dcur d))) as [x|] eqn:En.
      + rewrite (skipn_nth_cons _ _ _ En). cbn [before_first]. destruct (x =? NL); split; intros H;
          try reflexivity; discriminate.
      + exfalso. apply nth_error_None in En. unfold len in Hlt. lia.
    - rewrite (Hend ltac:(lia)). rewrite skipn_all2 by (unfold len in *; lia). cbn [before_first].
      split; reflexivity. }
  destruct (C02c_cursor_row_col d Hv) as [Hr _].
  split.
  { unfold on_first_line. rewrite Hr, <- count_char_zero_iff. apply Z.eqb_eq. }
  { unfold on_last_line. rewrite Hr, C02c_line_count, <- (tb_ta d Hv), c02_count_char_app at 1.
    rewrite <- count_char_zero_iff. rewrite Z.eqb_eq. split; intros H; lia. }
Qed.

(* lines_from_current: the lines from the cursor row on; its head is the current line *)
Theorem lines_from_current_spec d : valid d ->
  lines_from_current d = skipn (Z.to_nat (cursor_position_row d)) (lines d) /\
  exists rest, lines_from_current d = current_line d :: rest.
Proof.
  intros Hv.
  destruct (C02c_cursor_row_col d Hv) as [Hr _].
  pose proof (c02_count_char_nonneg NL (text_before_cursor d)) as Hn0.
  assert (Hrow : 0 <= cursor_position_row d < line_count d).
  { rewrite Hr, C02c_line_count, <- (tb_ta d Hv), c02_count_char_app.
    pose proof (c02_count_char_nonneg NL (text_after_cursor d)). lia. }
  assert (Hs : lines_from_current d = skipn (Z.to_nat (cursor_position_row d)) (lines d)).
  { unfold lines_from_current, slice_from, slice. cbv zeta. unfold adj_index, line_count in *.
    destruct (cursor_position_row d <? 0) eqn:E; [lia|].
    rewrite Z.min_l by lia.
    destruct (cursor_position_row d <? len (lines d)) eqn:E2; [|lia].
    rewrite firstn_all2; [reflexivity|]. rewrite skipn_length. unfold len. lia. }
  split; [exact Hs|]. rewrite Hs.
  rewrite (C02c_current_line_nth d Hv).
  destruct (nth_error (lines d) (Z.to_nat (cursor_position_row d))) as [x|] eqn:En.
  - exists (skipn (S (Z.to_nat (cursor_position_row d))) (lines d)).
    rewrite (skipn_nth_cons _ _ _ En). f_equal. symmetry. now apply nth_error_nth.
  - exfalso. apply nth_error_None in En. unfold line_count, len in Hrow. lia.
Qed.
