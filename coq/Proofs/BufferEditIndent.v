(* transform_lines (used by indent/unindent): only the addressed rows change *)
From Coq Require Import ZArith List Bool Lia.
From PTK Require Import Lib.Sx Lib.Py Model.Document Model.BufferEdit Proofs.BufferEditFacts.
Import ListNotations.
Open Scope Z_scope.

Section TL.
Context {T : Type} (F : T -> T).

Lemma update_nth_app (p : list T) x q :
  update_nth (p ++ x :: q) (length p) F = p ++ F x :: q.
Proof. induction p as [|y p IH]; cbn [app length update_nth]; [reflexivity|now rewrite IH]. Qed.

Lemma firstn_S_app (p : list T) y q : firstn (S (length p)) (p ++ y :: q) = p ++ [y].
Proof. induction p as [|z p IH]; simpl; [reflexivity|now f_equal]. Qed.

Lemma firstn_exact_app (p q : list T) : firstn (length p) (p ++ q) = p.
Proof. induction p as [|z p IH]; simpl; [now destruct q|now f_equal]. Qed.

Lemma skipn_plus_app (p : list T) n l : skipn (length p + n) (p ++ l) = skipn n l.
Proof. induction p as [|z p IH]; simpl; [reflexivity|exact IH]. Qed.

Lemma upd_range k : forall a (ls : list T),
  (a + k <= length ls)%nat ->
  fold_left (fun l i => update_nth l i F) (seq a k) ls =
  firstn a ls ++ map F (firstn k (skipn a ls)) ++ skipn (a + k) ls.
Proof.
  induction k as [|k IH]; intros a ls H.
  - cbn [seq fold_left firstn map app]. rewrite Nat.add_0_r. now rewrite firstn_skipn.
  - cbn [seq fold_left].
    assert (Hs : exists p x q, ls = p ++ x :: q /\ length p = a).
    { exists (firstn a ls). destruct (skipn a ls) as [|x q] eqn:E.
      - assert (length (skipn a ls) = 0%nat) by now rewrite E. rewrite skipn_length in H0. lia.
      - exists x, q. split; [now rewrite <- E, firstn_skipn|]. rewrite firstn_length. lia. }
    destruct Hs as [p [x [q [-> Hp]]]]. subst a.
    rewrite update_nth_app.
    rewrite IH by (rewrite app_length in *; cbn [length] in *; lia).
    rewrite firstn_S_app.
    replace (S (length p)) with (length p + 1)%nat by lia.
    rewrite <- !Nat.add_assoc. rewrite !skipn_plus_app. rewrite firstn_exact_app.
    replace (skipn (length p) (p ++ x :: q)) with (x :: q).
    2:{ replace (length p) with (length p + 0)%nat by lia. now rewrite skipn_plus_app. }
    cbn [Nat.add skipn firstn map]. rewrite <- app_assoc. reflexivity.
Qed.

Lemma py_update_nat (l : list T) (j : nat) :
  (j < length l)%nat -> py_update l (Z.of_nat j) F = update_nth l j F.
Proof.
  intros H. unfold py_update, len.
  destruct (Z.of_nat j <? 0) eqn:E1; [lia|].
  destruct ((Z.of_nat j <? 0) || (Z.of_nat (length l) <=? Z.of_nat j)) eqn:E2; [lia|].
  now rewrite Nat2Z.id.
Qed.

Lemma range_from_seq k : forall a, range_from (Z.of_nat a) k = map Z.of_nat (seq a k).
Proof.
  induction k as [|k IH]; intros a; cbn [range_from seq map]; [reflexivity|].
  f_equal. rewrite <- IH. f_equal. lia.
Qed.

Lemma fold_py_update k : forall a (ls : list T),
  (a + k <= length ls)%nat ->
  fold_left (fun l i => py_update l i F) (map Z.of_nat (seq a k)) ls =
  fold_left (fun l i => update_nth l i F) (seq a k) ls.
Proof.
  induction k as [|k IH]; intros a ls H; cbn [seq map fold_left]; [reflexivity|].
  rewrite py_update_nat by lia.
  assert (Hl : length (update_nth ls a F) = length ls).
  { clear. revert a; induction ls as [|x ls IHl]; intros [|a]; cbn [update_nth length]; auto. }
  apply IH. rewrite Hl. lia.
Qed.
End TL.

(* Rows a..b-1 (clipped to the line count) are transformed; every other line
   is kept as it was, in place. *)
Lemma transform_lines_spec F text a b :
  0 <= a -> a <= b ->
  let ls := split_on NL text in
  let e := Z.min b (len ls) in
  a <= e ->
  transform_lines F text a b =
  join [NL] (firstn (Z.to_nat a) ls
             ++ map F (firstn (Z.to_nat (e - a)) (skipn (Z.to_nat a) ls))
             ++ skipn (Z.to_nat e) ls).
Proof.
  intros Ha Hab ls e Hae. unfold transform_lines. fold ls. f_equal.
  unfold eff_range. pose proof (len_nonneg ls).
  replace (Z.max a (- len ls)) with (Z.of_nat (Z.to_nat a)) by lia.
  fold e. rewrite range_from_seq.
  replace (Z.to_nat (e - Z.of_nat (Z.to_nat a))) with (Z.to_nat (e - a)) by lia.
  rewrite fold_py_update by (unfold len in *; lia).
  rewrite upd_range by (unfold len in *; lia).
  do 3 f_equal. lia.
Qed.

Lemma set_cursor_text b v : btext (set_cursor b v) = btext b.
Proof. reflexivity. Qed.

Lemma indent_text b a e c b' r :
  indent b a e c = Ok b' r ->
  btext b' = transform_lines (fun l => str_mul INDENT c ++ l) (btext b) a e.
Proof.
  unfold indent, set_document.
  match goal with |- context [if ?x then _ else _] => destruct x end; cbn [bind]; [discriminate|].
  intros H; injection H as <- _. reflexivity.
Qed.

Lemma unindent_text b a e c b' r :
  unindent b a e c = Ok b' r ->
  btext b' = transform_lines (unindent_line (str_mul INDENT c)) (btext b) a e.
Proof.
  unfold unindent, set_document.
  match goal with |- context [if ?x then _ else _] => destruct x end; cbn [bind]; [discriminate|].
  intros H; injection H as <- _. reflexivity.
Qed.
