(* C04 - composing the layers: dispatch over filter OBJECTS (heap ids, with
   the memo caches of Model/C04_Filters.v) is dispatch over their
   denotations, and denotations are stable under any further memoised
   construction. *)
From Coq Require Import ZArith List Bool Lia Arith.PeanoNat.
From PTK Require Import Lib.Sx Model.C04_KeyProc Model.C04_Filters Model.C04_Registry
                        Proofs.C04_KeyProcFacts Proofs.C04_RuleFacts Proofs.C04_FilterFacts.
Import ListNotations.

(* ---- the expression an object denotes *)
Definition and_list (l : list fexpr) : fexpr := fold_right FAnd FAlways l.
Definition or_list (l : list fexpr) : fexpr := fold_right FOr FNever l.

Definition reify_node (xs : list fexpr) (n : fnode) : fexpr :=
  match n with
  | NAlways => FAlways
  | NNever => FNever
  | NCond c => FCond c
  | NAnd l => and_list (map (fun i => nth i xs FNever) l)
  | NOr l => or_list (map (fun i => nth i xs FNever) l)
  | NNot f => FNot (nth f xs FNever)
  end.

Definition rstep_x (xs : list fexpr) (n : fnode) : list fexpr := xs ++ [reify_node xs n].
Definition reify_from (xs : list fexpr) (ns : list fnode) : list fexpr := fold_left rstep_x ns xs.
Definition reify_all (ns : list fnode) : list fexpr := reify_from [] ns.
Definition reify (h : heap) (i : nat) : fexpr := nth i (reify_all (nodes h)) FNever.

Lemma nth_map_feval e xs i : nth i (map (feval e) xs) false = feval e (nth i xs FNever).
Proof. change false with (feval e FNever). apply map_nth. Qed.

Lemma reify_node_eval e xs n : feval e (reify_node xs n) = eval_node (map (feval e) xs) e n.
Proof.
  destruct n; cbn [reify_node eval_node feval]; try reflexivity.
  - unfold and_list. induction l as [|i l IH]; [reflexivity|].
    cbn [map fold_right feval forallb]. rewrite IH, nth_map_feval. reflexivity.
  - unfold or_list. induction l as [|i l IH]; [reflexivity|].
    cbn [map fold_right feval existsb]. rewrite IH, nth_map_feval. reflexivity.
  - rewrite nth_map_feval. reflexivity.
Qed.

Lemma reify_from_eval e ns : forall xs, map (feval e) (reify_from xs ns) = ev e (map (feval e) xs) ns.
Proof.
  induction ns as [|n ns IH]; intros xs; [reflexivity|].
  unfold reify_from, ev in *. cbn [fold_left]. rewrite IH. unfold rstep_x, estep.
  rewrite map_app. cbn [map]. rewrite reify_node_eval. reflexivity.
Qed.

(* an object's value is the value of the expression it denotes *)
Lemma reify_value h e i : feval e (reify h i) = value h e i.
Proof.
  unfold reify, value. rewrite <- nth_map_feval. unfold reify_all. rewrite reify_from_eval. reflexivity.
Qed.

Lemma reify_from_prefix ns : forall xs, exists tl, reify_from xs ns = xs ++ tl.
Proof.
  induction ns as [|n ns IH]; intros xs; cbn.
  - exists []. rewrite app_nil_r. reflexivity.
  - destruct (IH (rstep_x xs n)) as [tl H]. unfold reify_from in *. rewrite H. unfold rstep_x.
    exists (reify_node xs n :: tl). rewrite <- app_assoc. reflexivity.
Qed.

Lemma reify_from_length ns : forall xs, length (reify_from xs ns) = (length xs + length ns)%nat.
Proof.
  induction ns as [|n ns IH]; intros xs; cbn; [lia|]. unfold reify_from in *. rewrite IH. unfold rstep_x.
  rewrite app_length. cbn. lia.
Qed.

(* what an object denotes does not change when the heap grows *)
Lemma reify_stable h h' extra i : nodes h' = nodes h ++ extra -> (i < len h)%nat -> reify h' i = reify h i.
Proof.
  intros E Hi. unfold reify, reify_all. rewrite E. unfold reify_from. rewrite fold_left_app.
  fold (reify_from [] (nodes h)). fold (reify_from (reify_from [] (nodes h)) extra).
  destruct (reify_from_prefix extra (reify_from [] (nodes h))) as [tl ->].
  apply app_nth1. rewrite reify_from_length. cbn. exact Hi.
Qed.

Lemma alloc_nodes h n : nodes (fst (alloc h n)) = nodes h ++ [n].
Proof. reflexivity. Qed.

Lemma fstep_nodes h o : exists extra, nodes (fst (fstep h o)) = nodes h ++ extra.
Proof.
  assert (SAME : exists extra, nodes h = nodes h ++ extra) by (exists []; rewrite app_nil_r; reflexivity).
  destruct o; cbn [fstep]; try (eexists; apply alloc_nodes).
  - unfold mk_and, create_and.
    destruct (node h f); try exact SAME; destruct (node h g); try exact SAME;
      destruct (lookup2 f g (andc h)); try exact SAME;
      (destruct (dedupe _) as [|x [|y l']]; cbn; [eexists; reflexivity|exact SAME|eexists; reflexivity]).
  - unfold mk_or, create_or.
    destruct (node h f); try exact SAME; destruct (node h g); try exact SAME;
      destruct (lookup2 f g (orc h)); try exact SAME;
      (destruct (dedupe _) as [|x [|y l']]; cbn; [eexists; reflexivity|exact SAME|eexists; reflexivity]).
  - unfold mk_not. destruct (node h f); try (eexists; apply alloc_nodes);
      destruct (lookup1 f (invc h)); try exact SAME; cbn; eexists; reflexivity.
Qed.

Lemma history_nodes ops : forall h, exists extra, nodes (fold_left fstep' ops h) = nodes h ++ extra.
Proof.
  induction ops as [|o ops IH]; intros h; cbn [fold_left].
  - exists []. rewrite app_nil_r. reflexivity.
  - destruct (IH (fstep' h o)) as [x1 H1]. rewrite H1. unfold fstep'. destruct (valid_op h o).
    + destruct (fstep_nodes h o) as [x0 H0]. rewrite H0. exists (x0 ++ x1). rewrite app_assoc. reflexivity.
    + exists x1. reflexivity.
Qed.

(* ---- bindings whose filters are objects *)
Record obinding : Type := mkobinding {
  okeys : list Z; ofilter : nat; oeager : nat; oglobal : bool; ohandler : Z; oacts : list action;
  omacro : bool; osave : Z
}.

Definition reify_b (h : heap) (ob : obinding) : binding :=
  mkbinding (okeys ob) (reify h (ofilter ob)) (reify h (oeager ob)) (oglobal ob) (ohandler ob) (oacts ob)
            (omacro ob) (osave ob).

(* Dispatch over filter objects with their caches: after ANY further history
   of memoised & | ~ constructions on the heap, the binding list the processor
   sees is literally the same, every send follows the documented rule, and
   "active" / "eager" are the objects' current values, which are the values
   they had before. *)
Theorem objects_dispatch h obs ops b e q d it :
  wf h -> (forall ob, In ob obs -> (ofilter ob < len h)%nat /\ (oeager ob < len h)%nat) ->
  let h' := fold_left fstep' ops h in
  let l := map (reify_b h') obs in
  l = map (reify_b h) obs /\
  pass_spec l (push b it) (is_flush it) e q d (send (index_from 0 l) b e q d it) /\
  forall ob, In ob obs ->
    feval e (bfilter (reify_b h' ob)) = value h' e (ofilter ob) /\
    feval e (beager (reify_b h' ob)) = value h' e (oeager ob) /\
    value h' e (ofilter ob) = value h e (ofilter ob) /\
    value h' e (oeager ob) = value h e (oeager ob).
Proof.
  intros W IDS h' l. destruct (history_nodes ops h) as [extra HN]. fold h' in HN.
  assert (SAME : forall ob, In ob obs -> reify_b h' ob = reify_b h ob).
  { intros ob Hob. destruct (IDS ob Hob) as [H1 H2]. unfold reify_b.
    rewrite (reify_stable h h' extra _ HN H1), (reify_stable h h' extra _ HN H2). reflexivity. }
  split; [apply map_ext_in; exact SAME|]. split; [apply send_refines_rule|].
  intros ob Hob. destruct (IDS ob Hob) as [H1 H2]. cbn [reify_b bfilter beager].
  rewrite !reify_value. split; [reflexivity|]. split; [reflexivity|].
  rewrite <- !reify_value, (reify_stable h h' extra _ HN H1), (reify_stable h h' extra _ HN H2). split; reflexivity.
Qed.

(* the object ConditionalKeyBindings builds with `self.filter & b.filter` denotes
   what the registry model's [cond_binding] writes, whatever the caches returned *)
Theorem cond_filter_object h cf bf e :
  wf h -> (cf < len h)%nat -> (bf < len h)%nat ->
  let '(h', r) := mk_and h cf bf in
  feval e (reify h' r) = feval e (FAnd (reify h cf) (reify h bf)) /\ wf h'.
Proof.
  intros W H1 H2. pose proof (mk_and_sound h cf bf W H1 H2) as S. destruct (mk_and h cf bf) as [h' r].
  destruct S as [W' [_ [_ HV]]]. cbn [fst snd] in *. split; [|exact W'].
  rewrite reify_value, HV. cbn [feval]. rewrite !reify_value. reflexivity.
Qed.

(* likewise the eager filter `to_filter(eager) | func.eager` that add() builds for a Binding object *)
Theorem or_filter_object h f g e :
  wf h -> (f < len h)%nat -> (g < len h)%nat ->
  let '(h', r) := mk_or h f g in
  feval e (reify h' r) = feval e (FOr (reify h f) (reify h g)) /\ wf h'.
Proof.
  intros W H1 H2. pose proof (mk_or_sound h f g W H1 H2) as S. destruct (mk_or h f g) as [h' r].
  destruct S as [W' [_ [_ HV]]]. cbn [fst snd] in *. split; [|exact W'].
  rewrite reify_value, HV. cbn [feval]. rewrite !reify_value. reflexivity.
Qed.
