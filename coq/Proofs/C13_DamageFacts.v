(* What exactly a torn write damages: the ONE extra string a cut file yields
   is a PREFIX of the entry that was being written; once something is appended
   after the torn tail it is such a prefix, possibly followed by one U+FFFD
   (cut inside a multi-byte character). *)
From Coq Require Import ZArith List Bool Lia.
From PTK Require Import Lib.Sx Lib.Py Model.C13_Utf8 Model.C13_HistFile Proofs.C13_Utf8Facts Proofs.C13_HistFileFacts.
Import ListNotations.
Open Scope Z_scope.

Definition spre (a b : str) : Prop := exists t, b = a ++ t.
Lemma spre_nil b : spre [] b. Proof. now exists b. Qed.
Lemma spre_app_l x a b : spre a b -> spre (x ++ a) (x ++ b).
Proof. intros [t ->]. exists t. now rewrite app_assoc. Qed.

Lemma slice_to_drop_last (x : str) (c : Z) : slice_to (x ++ [c]) (-1) = x.
Proof.
  unfold slice_to, slice, adj_index. rewrite len_app.
  change (len [c]) with 1. change (-1 <? 0) with true. cbv iota.
  pose proof (len_nonneg x) as Hx.
  rewrite Z.max_r by lia.
  destruct (0 <? -1 + (len x + 1)) eqn:E.
  - cbn [skipn Z.to_nat]. replace (-1 + (len x + 1) - 0) with (len x) by lia.
    unfold len. rewrite Nat2Z.id. rewrite firstn_app, Nat.sub_diag, firstn_all. cbn [firstn].
    apply app_nil_r.
  - assert (len x = 0) by lia. destruct x; [reflexivity|]. rewrite len_cons in *.
    pose proof (len_nonneg x). lia.
Qed.

Lemma slice_to_nil_m1 : slice_to (@nil Z) (-1) = [].
Proof. reflexivity. Qed.

(* a prefix of an encoding decodes to a prefix of the text, plus one U+FFFD
   when the cut is inside a character *)
Lemma enc_prefix_dec l : forall q0 x2,
  forallb is_scalar l = true -> utf8_enc_raw l = q0 ++ x2 ->
  exists l', (utf8_dec q0 = l' /\ spre l' l) \/ (exists c, utf8_dec q0 = l' ++ [REPL] /\ spre (l' ++ [c]) l).
Proof.
  induction l as [|c l IH]; intros q0 x2 Hs E.
  - cbn in E. symmetry in E. apply app_eq_nil in E as [-> _]. exists []. left. split; [reflexivity|apply spre_nil].
  - cbn [forallb] in Hs. apply andb_true_iff in Hs as [Hc Hl].
    cbn [utf8_enc_raw flat_map] in E. fold (utf8_enc_raw l) in E.
    apply app_eq_app in E as [y [[E1 E2]|[E1 E2]]].
    + (* q0 ends inside (or right after) the first character *)
      destruct y as [|b y].
      * rewrite app_nil_r in E1. subst q0. cbn [app] in E2.
        exists [c]. left. rewrite <- (app_nil_r (utf8_enc_cp c)), dec_enc_cp by exact Hc. cbn.
        split; [reflexivity|]. exists l. reflexivity.
      * destruct q0 as [|a q0].
        -- exists []. left. split; [reflexivity|apply spre_nil].
        -- exists []. right. exists c.
           destruct (torn_tail_dec c (a :: q0) (b :: y) 0 [] Hc E1) as [_ H]; [discriminate|discriminate|lia|].
           rewrite H. split; [reflexivity|]. exists l. reflexivity.
    + subst q0. destruct (IH y x2 Hl E2) as [l' [[Hd Hp]|[c' [Hd Hp]]]].
      * exists (c :: l'). left. rewrite dec_enc_cp by exact Hc. rewrite Hd. split; [reflexivity|].
        destruct Hp as [t ->]. exists t. reflexivity.
      * exists (c :: l'). right. exists c'. rewrite dec_enc_cp by exact Hc. rewrite Hd. split; [reflexivity|].
        destruct Hp as [t ->]. exists t. reflexivity.
Qed.

Definition joined (ls : list str) : str := concat (map (fun l => l ++ [NL]) ls).

(* the text of the '+' lines inside a prefix of a record's body *)
Definition body_text (q : bytes) : str := concat (map (fun lb => utf8_dec (tl lb)) (lines_of q)).

Definition cut_text (X J : str) : Prop :=
  exists t, (X = t /\ spre t J) \/ (exists c, X = t ++ [REPL] /\ spre (t ++ [c]) J).

Lemma body_prefix_text ls :
  Forall (fun l => forallb is_scalar l = true /\ nolf l) ls ->
  forall q q', q ++ q' = flat_map plus_line ls -> cut_text (body_text q) (joined ls).
Proof.
  induction ls as [|l ls IH]; intros H q q' E.
  - cbn [flat_map] in E. apply app_eq_nil in E as [-> _]. exists []. left. split; [reflexivity|apply spre_nil].
  - inversion H as [|? ? [Hl Hn] Hr]; subst. cbn [flat_map] in E. unfold plus_line at 1 in E.
    replace ((PLUS :: utf8_enc_raw l ++ [NL]) ++ flat_map plus_line ls)
      with ((PLUS :: utf8_enc_raw l) ++ NL :: flat_map plus_line ls) in E
      by (cbn [app]; rewrite <- !app_assoc; reflexivity).
    pose proof (plus_enc_nolf l Hl Hn) as Hx.
    unfold joined. cbn [map concat]. fold (joined ls).
    destruct (split_at_lf _ _ _ _ Hx E) as [[x2 Ex]|[q2 [Eq E2]]].
    + destruct q as [|b q0]; [exists []; left; split; [reflexivity|apply spre_nil]|].
      cbn [app] in Ex. injection Ex as <- Ex.
      assert (Hq : nolf (PLUS :: q0)).
      { intros [F|F]; [discriminate F|]. apply Hx. right. rewrite Ex. apply in_or_app. now left. }
      unfold body_text. rewrite lines_of_nolf by exact Hq. cbn [map concat tl]. rewrite app_nil_r.
      destruct (enc_prefix_dec l q0 x2 Hl Ex) as [l' [[Hd Hp]|[c [Hd Hp]]]].
      * exists l'. left. split; [exact Hd|]. destruct Hp as [t ->]. exists (t ++ [NL] ++ joined ls).
        now rewrite <- !app_assoc.
      * exists l'. right. exists c. split; [exact Hd|]. destruct Hp as [t ->]. exists (t ++ [NL] ++ joined ls).
        now rewrite <- !app_assoc.
    + subst q. unfold body_text. rewrite lines_of_app_lf by exact Hx. cbn [map concat tl app].
      rewrite dec_enc by exact Hl. rewrite dec_lf. fold (body_text q2).
      destruct (IH Hr q2 q' E2) as [t [[Hd Hp]|[c [Hd Hp]]]].
      * exists ((l ++ [NL]) ++ t). left. rewrite Hd. split; [reflexivity|]. now apply spre_app_l.
      * exists ((l ++ [NL]) ++ t). right. exists c. rewrite Hd. split; [apply app_assoc|].
        rewrite <- (app_assoc (l ++ [NL]) t [c]). now apply spre_app_l.
Qed.


Lemma spre_snoc_lf (t : str) (x : Z) : forall s, spre (t ++ [x]) (s ++ [NL]) -> spre t s.
Proof.
  induction t as [|a t IH]; intros s [u E]; [apply spre_nil|].
  destruct s as [|b s]; cbn [app] in E.
  - injection E as _ E. destruct t; discriminate E.
  - injection E as <- E. destruct (IH s) as [v ->]; [now exists u|]. exists v. reflexivity.
Qed.

Lemma joined_split s : joined (split_on NL s) = s ++ [NL].
Proof. unfold joined, split_on. rewrite split_aux_concat. reflexivity. Qed.

(* the string add() makes of the text read so far is a prefix of the entry *)
Lemma cut_text_prefix X s :
  cut_text X (s ++ [NL]) -> spre (slice_to X (-1)) s.
Proof.
  intros [t [[-> Hp]|[c [-> Hp]]]].
  - destruct t as [|z t0] using rev_ind; [apply spre_nil|].
    rewrite slice_to_drop_last. now apply (spre_snoc_lf t0 z).
  - rewrite slice_to_drop_last. now apply (spre_snoc_lf t c).
Qed.

Lemma rec_prefix_exact ts s q q' :
  nolf ts -> forallb is_scalar s = true -> q ++ q' = store_bytes ts s ->
  exists d, (forall st ln, load_loop (lines_of q) st ln = add st ln ++ d) /\
            (d = [] \/ exists s', d = [s'] /\ spre s' s).
Proof.
  intros Hts Hs E. rewrite store_bytes_eq in E.
  destruct q as [|b q1].
  { exists []. split; [|now left]. intros. cbn [lines_of load_loop]. now rewrite app_nil_r. }
  cbn [app] in E. injection E as -> E.
  pose proof (hashline_nolf ts Hts) as Hh.
  destruct (split_at_lf _ _ _ _ Hh E) as [[x2 Ex]|[q2 [Eq E2]]].
  - (* inside the "# timestamp" line: nothing is added *)
    assert (Hq1 : nolf q1) by (apply (nolf_prefix q1 x2); now rewrite <- Ex).
    exists []. split; [|now left]. intros st ln. cbn [lines_of]. rewrite Z.eqb_refl.
    rewrite loop_nonplus by exact nonplus_lf. rewrite lines_of_nolf by exact Hq1.
    destruct q1 as [|c q1'].
    + cbn [load_loop]. rewrite add_nil. now rewrite app_nil_r.
    + unfold hashline in Ex. cbn [app] in Ex. injection Ex as <- _.
      rewrite loop_nonplus by (apply nonplus_head; discriminate).
      cbn [load_loop]. rewrite !add_nil. now rewrite app_nil_r.
  - (* inside the '+' lines *)
    subst q1. unfold store_body in E2.
    pose proof (split_lines_ok s Hs) as Hls.
    destruct (body_prefix _ Hls q2 q' E2) as [H1 _].
    pose proof (body_prefix_text _ Hls q2 q' E2) as Hct. rewrite joined_split in Hct.
    apply cut_text_prefix in Hct. unfold body_text in Hct.
    assert (Hloop : forall st ln,
      load_loop (lines_of (NL :: hashline ts ++ NL :: q2)) st ln =
      add (add st ln) (map (fun lb => utf8_dec (tl lb)) (lines_of q2))).
    { intros st ln. cbn [lines_of]. rewrite Z.eqb_refl.
      rewrite loop_nonplus by exact nonplus_lf. rewrite lines_of_app_lf by exact Hh.
      rewrite loop_nonplus by (apply nonplus_head; discriminate). rewrite add_nil.
      rewrite <- (app_nil_r (lines_of q2)). rewrite loop_plus_then by exact H1.
      cbn [load_loop app]. rewrite app_nil_r. reflexivity. }
    destruct (map (fun lb => utf8_dec (tl lb)) (lines_of q2)) as [|l0 lr] eqn:Em.
    + exists []. split; [|now left]. intros st ln. rewrite Hloop. cbn [add]. now rewrite app_nil_r.
    + eexists [_]. split; [intros st ln; rewrite Hloop; reflexivity|]. right. eexists. split; [reflexivity|exact Hct].
Qed.

(* Cut the file at ANY byte: the k completed entries intact and in order, and
   the at most one extra string is a PREFIX of the entry number k+1, the one
   that was being written. *)
Theorem torn_damaged_prefix rs p sfx :
  Forall valid_rec rs -> p ++ sfx = file_of rs ->
  exists k d, complete_in rs p k /\ load_bytes p = d ++ rev (firstn k (map snd rs)) /\
    (d = [] \/ exists r s', nth_error rs k = Some r /\ d = [s'] /\ spre s' (snd r)).
Proof.
  intros H E. destruct (file_prefix rs p sfx E) as (k & q & Hk & Hp & Hq).
  pose proof (complete_in_of rs p k q Hk Hp Hq) as Hc.
  pose proof (Forall_firstn' _ _ k H) as Hv.
  exists k. destruct Hq as [->|(r & q' & Hn & Hs & Hne)].
  - exists []. rewrite app_nil_r in Hp. subst p. rewrite roundtrip by exact Hv. rewrite firstn_map. auto.
  - assert (Hr : valid_rec r).
    { apply nth_error_In in Hn. revert Hn. now apply Forall_forall. }
    destruct Hr as [Hts Hsc].
    destruct (rec_prefix_exact _ _ q q' Hts Hsc Hs) as (d & HX & Hd).
    exists d. split; [exact Hc|]. split.
    + subst p. unfold load_bytes. destruct (loop_file (firstn k rs) [] [] Hv) as (st' & ln' & HY & Hadd).
      rewrite HY, HX, Hadd. cbn [add app]. rewrite rev_app_distr, firstn_map.
      destruct Hd as [->|(s' & -> & _)]; reflexivity.
    + destruct Hd as [->|(s' & -> & Hp')]; [now left|]. right. exists r, s'. auto.
Qed.

(* ---- ... and once something is appended after the torn tail ----------------- *)
Lemma enc_prefix_dec_nl l : forall q0 x2,
  forallb is_scalar l = true -> utf8_enc_raw l = q0 ++ x2 ->
  utf8_dec (q0 ++ [NL]) = utf8_dec q0 ++ [NL].
Proof.
  induction l as [|c l IH]; intros q0 x2 Hs E.
  - cbn in E. symmetry in E. apply app_eq_nil in E as [-> _]. cbn [app]. now rewrite dec_lf.
  - cbn [forallb] in Hs. apply andb_true_iff in Hs as [Hc Hl].
    cbn [utf8_enc_raw flat_map] in E. fold (utf8_enc_raw l) in E.
    apply app_eq_app in E as [y [[E1 E2]|[E1 E2]]].
    + destruct y as [|b y].
      * rewrite app_nil_r in E1. subst q0. rewrite dec_enc_cp by exact Hc.
        assert (H1 : utf8_dec (utf8_enc_cp c) = [c]).
        { rewrite <- (app_nil_r (utf8_enc_cp c)). now rewrite dec_enc_cp by exact Hc. }
        rewrite H1, dec_lf. reflexivity.
      * destruct q0 as [|a q0]; [cbn [app]; now rewrite dec_lf|].
        destruct (torn_tail_dec c (a :: q0) (b :: y) NL [] Hc E1) as [H1 H2]; [discriminate|discriminate|unfold NL; lia|].
        rewrite H1, H2, dec_lf. reflexivity.
    + subst q0. rewrite <- app_assoc, !dec_enc_cp by exact Hc. rewrite (IH y x2 Hl E2). reflexivity.
Qed.

Definition nl_text (Xs : list str) (J : str) : Prop :=
  Xs = [] \/ exists t e c, concat Xs = t ++ e ++ [NL] /\ (e = [] \/ e = [REPL]) /\ spre (t ++ [c]) J.

Lemma spre_next (l' l rest : str) : spre l' l -> exists c, spre (l' ++ [c]) (l ++ NL :: rest).
Proof.
  intros [u ->]. destruct u as [|c u].
  - exists NL. exists rest. now rewrite app_nil_r, <- app_assoc.
  - exists c. exists (u ++ NL :: rest). now rewrite <- !app_assoc.
Qed.

Lemma body_prefix_nl ls :
  Forall (fun l => forallb is_scalar l = true /\ nolf l) ls ->
  forall q q', q ++ q' = flat_map plus_line ls ->
  exists Xs, (forall st ln, load_loop (lines_of (q ++ [NL])) st ln = add st (ln ++ Xs)) /\
             nl_text Xs (joined ls).
Proof.
  assert (Hnil : forall J, exists Xs, (forall st ln, load_loop (lines_of ([] ++ [NL])) st ln = add st (ln ++ Xs)) /\
                                 nl_text Xs J).
  { intros J. exists []. split; [|now left]. intros st ln. cbn [app lines_of]. rewrite Z.eqb_refl.
    rewrite loop_nonplus by exact nonplus_lf. cbn [load_loop]. now rewrite add_nil, app_nil_r. }
  induction ls as [|l ls IH]; intros H q q' E.
  - cbn [flat_map] in E. apply app_eq_nil in E as [-> _]. apply Hnil.
  - inversion H as [|? ? [Hl Hn] Hr]; subst. cbn [flat_map] in E. unfold plus_line at 1 in E.
    replace ((PLUS :: utf8_enc_raw l ++ [NL]) ++ flat_map plus_line ls)
      with ((PLUS :: utf8_enc_raw l) ++ NL :: flat_map plus_line ls) in E
      by (cbn [app]; rewrite <- !app_assoc; reflexivity).
    pose proof (plus_enc_nolf l Hl Hn) as Hx.
    unfold joined. cbn [map concat]. fold (joined ls).
    destruct (split_at_lf _ _ _ _ Hx E) as [[x2 Ex]|[q2 [Eq E2]]].
    + destruct q as [|b q0]; [apply Hnil|].
      cbn [app] in Ex. injection Ex as <- Ex.
      assert (Hq : nolf (PLUS :: q0)).
      { intros [F|F]; [discriminate F|]. apply Hx. right. rewrite Ex. apply in_or_app. now left. }
      exists [utf8_dec (q0 ++ [NL])]. split.
      * intros st ln. rewrite (lines_of_app_lf (PLUS :: q0) []) by exact Hq. cbn [lines_of app].
        rewrite loop_plus. reflexivity.
      * right. cbn [concat]. rewrite app_nil_r, (enc_prefix_dec_nl l q0 x2 Hl Ex).
        destruct (enc_prefix_dec l q0 x2 Hl Ex) as [l' [[Hd Hp]|[c [Hd Hp]]]].
        -- destruct (spre_next l' l (joined ls) Hp) as [c Hc]. exists l', [], c. rewrite Hd.
           split; [reflexivity|]. split; [now left|]. rewrite <- app_assoc. exact Hc.
        -- exists l', [REPL], c. rewrite Hd. split; [now rewrite <- app_assoc|]. split; [now right|].
           destruct Hp as [t ->]. exists (t ++ [NL] ++ joined ls). now rewrite <- !app_assoc.
    + subst q. destruct (IH Hr q2 q' E2) as (Xs & HX & HQ).
      exists ((l ++ [NL]) :: Xs). split.
      * intros st ln.
        replace (((PLUS :: utf8_enc_raw l) ++ NL :: q2) ++ [NL])
          with ((PLUS :: utf8_enc_raw l) ++ NL :: (q2 ++ [NL])) by (rewrite <- app_assoc; reflexivity).
        rewrite lines_of_app_lf by exact Hx. cbn [app]. rewrite loop_plus, dec_enc by exact Hl.
        rewrite dec_lf, HX, <- app_assoc. reflexivity.
      * right. cbn [concat]. destruct HQ as [->|(t & e & c & -> & He & Hp)].
        -- exists l, [], NL. cbn [concat]. rewrite app_nil_r. split; [reflexivity|]. split; [now left|].
           exists (joined ls). reflexivity.
        -- exists ((l ++ [NL]) ++ t), e, c. split; [now rewrite <- !app_assoc|]. split; [exact He|].
           rewrite <- (app_assoc (l ++ [NL]) t [c]). now apply spre_app_l.
Qed.

Lemma nl_text_prefix Xs s :
  nl_text Xs (s ++ [NL]) -> Xs <> [] ->
  exists s', spre s' s /\ (slice_to (concat Xs) (-1) = s' \/ slice_to (concat Xs) (-1) = s' ++ [REPL]).
Proof.
  intros [->|(t & e & c & -> & He & Hp)] Hne; [congruence|].
  exists t. split; [now apply (spre_snoc_lf t c)|].
  rewrite !app_assoc, slice_to_drop_last. destruct He as [->| ->]; [left; apply app_nil_r|now right].
Qed.

Lemma rec_prefix_exact_nl ts s q q' :
  nolf ts -> forallb is_scalar s = true -> q ++ q' = store_bytes ts s ->
  exists d, (forall st ln, load_loop (lines_of (q ++ [NL])) st ln = add st ln ++ d) /\
            (d = [] \/ exists s', spre s' s /\ (d = [s'] \/ d = [s' ++ [REPL]])).
Proof.
  intros Hts Hs E. rewrite store_bytes_eq in E.
  destruct q as [|b q1].
  { exists []. split; [|now left]. intros. cbn [app lines_of]. rewrite Z.eqb_refl.
    rewrite loop_nonplus by exact nonplus_lf. cbn [load_loop]. now rewrite add_nil, app_nil_r. }
  cbn [app] in E. injection E as -> E.
  pose proof (hashline_nolf ts Hts) as Hh.
  destruct (split_at_lf _ _ _ _ Hh E) as [[x2 Ex]|[q2 [Eq E2]]].
  - assert (Hq1 : nolf q1) by (apply (nolf_prefix q1 x2); now rewrite <- Ex).
    exists []. split; [|now left]. intros st ln. cbn [app lines_of]. rewrite Z.eqb_refl.
    rewrite loop_nonplus by exact nonplus_lf.
    rewrite (lines_of_app_lf q1 []) by exact Hq1. cbn [lines_of].
    destruct q1 as [|c q1'].
    + cbn [app]. rewrite loop_nonplus by exact nonplus_lf. cbn [load_loop]. rewrite !add_nil. now rewrite app_nil_r.
    + unfold hashline in Ex. cbn [app] in Ex. injection Ex as <- _.
      rewrite loop_nonplus by (cbn [app]; apply nonplus_head; discriminate).
      cbn [load_loop]. rewrite !add_nil. now rewrite app_nil_r.
  - subst q1. unfold store_body in E2.
    pose proof (split_lines_ok s Hs) as Hls.
    destruct (body_prefix_nl _ Hls q2 q' E2) as (Xs & HX & HQ). rewrite joined_split in HQ.
    assert (Hloop : forall st ln,
      load_loop (lines_of ((NL :: hashline ts ++ NL :: q2) ++ [NL])) st ln = add (add st ln) Xs).
    { intros st ln. cbn [app lines_of]. rewrite Z.eqb_refl.
      rewrite loop_nonplus by exact nonplus_lf. rewrite <- app_assoc. cbn [app].
      rewrite lines_of_app_lf by exact Hh.
      rewrite loop_nonplus by (apply nonplus_head; discriminate). rewrite add_nil.
      rewrite HX. reflexivity. }
    destruct Xs as [|x0 xr] eqn:EX.
    + exists []. split; [|now left]. intros st ln. rewrite Hloop. cbn [add]. now rewrite app_nil_r.
    + destruct (nl_text_prefix _ _ HQ) as (s' & Hp & Hsl); [discriminate|].
      exists [slice_to (concat (x0 :: xr)) (-1)]. split; [intros st ln; rewrite Hloop; reflexivity|].
      right. exists s'. split; [exact Hp|]. destruct Hsl as [->| ->]; auto.
Qed.

(* Cut at ANY byte, then complete records appended: the new entries first, the
   k completed entries intact and in order, and between them at most one
   string: a PREFIX of the entry that was being written, possibly followed by
   one U+FFFD (cut inside a multi-byte character). *)
Theorem torn_then_append_damaged rs rs2 p sfx :
  Forall valid_rec rs -> Forall valid_rec rs2 -> rs2 <> [] -> p ++ sfx = file_of rs ->
  exists k d, complete_in rs p k /\
    load_bytes (p ++ file_of rs2) = rev (map snd rs2) ++ d ++ rev (firstn k (map snd rs)) /\
    (d = [] \/ exists r s', nth_error rs k = Some r /\ spre s' (snd r) /\ (d = [s'] \/ d = [s' ++ [REPL]])).
Proof.
  intros H H2 Hne E. destruct (file_prefix rs p sfx E) as (k & q & Hk & Hp & Hq).
  pose proof (complete_in_of rs p k q Hk Hp Hq) as Hc.
  pose proof (Forall_firstn' _ _ k H) as Hv.
  rewrite append_after_any by assumption.
  exists k. destruct (loop_file (firstn k rs) [] [] Hv) as (st' & ln' & HY & Hadd).
  destruct Hq as [->|(r & q' & Hn & Hs & Hne')].
  - exists []. split; [exact Hc|]. split; [|now left]. rewrite app_nil_r in Hp. subst p.
    unfold load_bytes. rewrite HY. cbn [lines_of]. rewrite Z.eqb_refl. rewrite loop_nonplus by exact nonplus_lf.
    cbn [load_loop]. rewrite add_nil, Hadd. cbn [add app]. now rewrite firstn_map.
  - assert (Hr : valid_rec r).
    { apply nth_error_In in Hn. revert Hn. now apply Forall_forall. }
    destruct Hr as [Hts Hsc].
    destruct (rec_prefix_exact_nl _ _ q q' Hts Hsc Hs) as (d & HX & Hd).
    exists d. split; [exact Hc|]. split.
    + subst p. unfold load_bytes. rewrite <- app_assoc, HY, HX, Hadd. cbn [add app].
      rewrite rev_app_distr, firstn_map.
      destruct Hd as [->|(s' & _ & [->| ->])]; reflexivity.
    + destruct Hd as [->|(s' & Hp' & Hd)]; [now left|]. right. exists r, s'. auto.
Qed.
