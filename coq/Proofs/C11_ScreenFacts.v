(* C11 - statements about the WHOLE rendered screen (every entry of r_look =
   rowcol_to_yx read out for every cell of every line, the body grid r_grid, the
   row table r_vlook) and about whole HISTORIES of renders through one window
   whose configuration may change between renders. *)
From Coq Require Import ZArith List Bool Lia.
From PTK Require Import Lib.Sx Lib.Py Model.C11_Scroll Model.C11_CopyBody
     Proofs.C02_Coords
     Proofs.C11_ScrollFacts Proofs.C11_CopyFacts Proofs.C11_ColMapFacts Proofs.C11_SeqFacts
     Proofs.C11_RowsFacts Proofs.C11_VlFacts Proofs.C11_VarPrefixFacts Proofs.C11_RenderFacts
     Proofs.C11_DocFacts Proofs.C11_RenderWide.
Import ListNotations.
Open Scope Z_scope.

(* the content lines of the UIContent: processed document lines + trailing blank *)
Definition r_lines (g : cfg) (text : str) : list str :=
  map (fun p => pl_text p ++ [SP])
      (map_i (process_line (g_bflag g) (g_before g) (g_tabstop g) TABCH1 TABCH2) 0 (split_on NL text)).

Definition r_out (g : cfg) (Hh xpos ypos : Z) (text : str) (r : rendered) : cst :=
  copy_body (tab_sw g) (tab_dw g) (tab_disp g) (g_wrap g) (g_haspfx g) (cfg_pfx g)
            (r_bw r) Hh (xpos + r_mw r) ypos (r_lines g text) (r_st r).

(* what a successful render consists of *)
Lemma render_shape : forall g W Hh xpos ypos text cursor st r,
  render g W Hh xpos ypos text cursor st = Some r ->
  1 <= W /\ 1 <= Hh /\
  r_mw r = margin_width g (len (r_lines g text)) /\
  r_bw r = W - r_mw r - rmargin_width g /\
  0 <= fst (r_ui r) < len (r_lines g text) /\
  r_st r = (if g_wrap g then
              scroll_wrap (g_allow g)
                (fun l => height_for_line (tab_sw g) (g_haspfx g) (cfg_pfx g) (nth (Z.to_nat l) (r_lines g text) []) l (r_bw r) None)
                (fun s => height_for_line (tab_sw g) (g_haspfx g) (cfg_pfx g)
                            (nth (Z.to_nat (fst (r_ui r))) (r_lines g text) []) (fst (r_ui r)) (r_bw r) (Some s))
                (r_bw r) Hh (g_top g) (g_bottom g) (fst (r_ui r)) (snd (r_ui r)) (len (r_lines g text)) st
            else
              scroll_nowrap (g_allow g) (tab_sw g) (nth (Z.to_nat (fst (r_ui r))) (r_lines g text) [])
                (if g_haspfx g then strw (tab_sw g) (cfg_pfx g (fst (r_ui r)) 0) else 0)
                (r_bw r) Hh (g_top g) (g_bottom g) (g_left g) (g_right g)
                (fst (r_ui r)) (snd (r_ui r)) (len (r_lines g text)) st) /\
  r_look r = map_i (fun l (line : str) => map (fun c => alist_get (cr2 (r_out g Hh xpos ypos text r)) (l, c))
                                              (zrange 0 (length line))) 0 (r_lines g text) /\
  r_vlook r = map (fun y => zlist_get (cvl (r_out g Hh xpos ypos text r)) y) (zrange 0 (Z.to_nat (Hh + 1))) /\
  r_grid r = map (fun y => map (fun x => cstr (scr_get (cscr (r_out g Hh xpos ypos text r)) (y + ypos) (x + xpos + r_mw r)))
                               (zrange 0 (Z.to_nat (r_bw r))))
                 (zrange 0 (Z.to_nat Hh)).
Proof.
  intros g W Hh xpos ypos text cursor st r H. unfold render, render_gen in H.
  destruct ((W <=? 0) || (Hh <=? 0)) eqn:E0; [discriminate|].
  apply orb_false_elim in E0. destruct E0 as [E1 E2].
  fold (r_lines g text) in H.
  set (pls := map_i (process_line (g_bflag g) (g_before g) (g_tabstop g) TABCH1 TABCH2) 0 (split_on NL text)) in *.
  destruct (nth_error pls (Z.to_nat (cursor_row text cursor))) as [pl|] eqn:Epl; [|discriminate].
  destruct (pl_s2d pl (cursor_col text cursor)) as [ucol|] eqn:Eu; [|discriminate].
  assert (Hrow : 0 <= cursor_row text cursor < len (r_lines g text)).
  { split; [apply c02_count_char_nonneg|].
    assert (Hl : (Z.to_nat (cursor_row text cursor) < length pls)%nat) by (apply nth_error_Some; congruence).
    unfold r_lines, len. fold pls. rewrite map_length. lia. }
  inversion H; subst r; clear H. unfold r_out.
  cbn [r_mw r_bw r_ui r_st r_look r_vlook r_grid fst snd].
  replace (xpos + margin_width g (len (r_lines g text)))
    with (xpos + margin_width g (len (r_lines g text))) by reflexivity.
  repeat split; try lia; try reflexivity.
Qed.

(* the scroll state a render leaves behind keeps vertical_scroll >= 0 *)
Lemma render_vs_ge0 : forall g W Hh xpos ypos text cursor st r,
  render g W Hh xpos ypos text cursor st = Some r -> 0 <= vs st -> 0 <= vs (r_st r).
Proof.
  intros g W Hh xpos ypos text cursor st r H Hvs.
  destruct (render_shape _ _ _ _ _ _ _ _ _ H) as (_ & _ & _ & _ & Hrow & Hst & _).
  rewrite Hst. destruct (g_wrap g).
  - unfold scroll_wrap. now apply scroll_wrap_vs_ge0.
  - unfold scroll_nowrap. cbn [vs]. apply do_scroll_ge0.
Qed.

Lemma zrange_length : forall n a, length (zrange a n) = n.
Proof. induction n as [|n IH]; intros a; cbn [zrange length]; [reflexivity | now rewrite IH]. Qed.

(* reading r_look *)
Lemma look_read : forall (r2 : list ((Z * Z) * (Z * Z))) (lines : list str) l c rowl (p : Z * Z),
  nth_error (map_i (fun l (line : str) => map (fun c => alist_get r2 (l, c)) (zrange 0 (length line))) 0 lines) l
    = Some rowl ->
  nth_error rowl c = Some (Some p) ->
  exists line, nth_error lines l = Some line /\ (c < length line)%nat /\
               alist_get r2 (Z.of_nat l, Z.of_nat c) = Some p.
Proof.
  intros r2 lines l c rowl p H1 H2.
  assert (Hl : (l < length lines)%nat).
  { pose proof (proj1 (nth_error_Some _ l) ltac:(rewrite H1; discriminate)) as Hl0.
    now rewrite map_i_length in Hl0. }
  destruct (nth_error lines l) as [line|] eqn:El; [|apply nth_error_None in El; lia].
  rewrite (map_i_nth _ lines 0 l line El) in H1. inversion H1; subst rowl; clear H1.
  assert (Hc : (c < length line)%nat).
  { pose proof (proj1 (nth_error_Some _ c) ltac:(rewrite H2; discriminate)) as Hc0.
    now rewrite map_length, zrange_length in Hc0. }
  rewrite nth_zrange_map in H2 by exact Hc. injection H2 as H3.
  replace (0 + Z.of_nat c) with (Z.of_nat c) in H3 by lia.
  try replace (0 + Z.of_nat l) with (Z.of_nat l) in H3 by lia.
  exists line. split; [reflexivity|]. split; [exact Hc | exact H3].
Qed.

(* ---------------------------------------------------------------------- *)
(* The whole screen, width-1 characters, any configuration, any previous scroll
   state with vertical_scroll >= 0: EVERY entry of rowcol_to_yx that the render
   reads out (every cell of every content line) lies inside the window body, the
   body cell of r_grid there shows exactly that character of the content line,
   and the screen row is recorded for that line in visible_line_to_row_col. *)
Lemma render_screen : forall g W Hh xpos ypos text cursor st r,
  (forall c, tab_sw g c = 1 /\ tab_dw g c = 1) -> 0 <= vs st ->
  render g W Hh xpos ypos text cursor st = Some r ->
  (forall l, g_wrap g = false \/ g_haspfx g = false \/ len (cfg_pfx g l 0) <= r_bw r) ->
  forall l c rowl Y X,
    nth_error (r_look r) l = Some rowl -> nth_error rowl c = Some (Some (Y, X)) ->
    ypos <= Y < ypos + Hh /\ xpos + r_mw r <= X < xpos + r_mw r + r_bw r /\
    exists line ch rowg c0,
      nth_error (r_lines g text) l = Some line /\ nth_error line c = Some ch /\
      nth_error (r_grid r) (Z.to_nat (Y - ypos)) = Some rowg /\
      nth_error rowg (Z.to_nat (X - xpos - r_mw r)) = Some (tab_disp g ch) /\
      nth_error (r_vlook r) (Z.to_nat (Y - ypos)) = Some (Some (Z.of_nat l, c0)).
Proof.
  intros g W Hh xpos ypos text cursor st r Hn Hvs Hr Hfit l c rowl Y X H1 H2.
  destruct (render_shape _ _ _ _ _ _ _ _ _ Hr) as (HW & HH & Hmw & Hbw & Hrow & Hst & Hlook & Hvl & Hgrid).
  pose proof (render_vs_ge0 _ _ _ _ _ _ _ _ _ Hr Hvs) as Hvs'.
  rewrite Hlook in H1.
  destruct (look_read _ _ _ _ _ _ H1 H2) as (line & Hline & Hc & Hget).
  pose proof (registered_is_right (tab_sw g) (tab_dw g) (tab_disp g) (g_wrap g) (g_haspfx g) (cfg_pfx g)
                (r_bw r) Hh (xpos + r_mw r) ypos (r_lines g text) (r_st r)
                (fun c => proj2 (Hn c)) Hfit Hvs') as HR.
  cbv zeta in HR. fold (r_out g Hh xpos ypos text r) in HR.
  destruct (HR _ _ Hget) as ((HY & HX) & ch & Hch & Hcell). cbn [fst snd] in *.
  destruct Hch as (_ & _ & line' & Hl' & Hc'). cbn [fst snd] in Hl', Hc'.
  rewrite Nat2Z.id in Hl', Hc'. rewrite Hline in Hl'. inversion Hl'; subst line'.
  split; [exact HY|]. split; [lia|].
  destruct (registered_row_line (tab_sw g) (tab_dw g) (tab_disp g) (g_wrap g) (g_haspfx g) (cfg_pfx g)
              (r_bw r) Hh (xpos + r_mw r) ypos (r_lines g text) (r_st r) _ _ _ _ Hget) as [c0 Hc0].
  fold (r_out g Hh xpos ypos text r) in Hc0.
  destruct (grid_cell (cscr (r_out g Hh xpos ypos text r)) Hh (r_bw r) xpos ypos (r_mw r) (Y - ypos) (X - xpos - r_mw r)
              ltac:(lia) ltac:(lia)) as (rowg & G1 & G2).
  exists line, ch, rowg, c0. split; [exact Hline|]. split; [exact Hc'|].
  rewrite Hgrid. split; [exact G1|]. split.
  - rewrite G2. f_equal.
    replace (Y - ypos + ypos) with Y by lia. replace (X - xpos - r_mw r + xpos + r_mw r) with X by lia. exact Hcell.
  - rewrite Hvl. rewrite nth_zrange_map by lia.
    replace (0 + Z.of_nat (Z.to_nat (Y - ypos))) with (Y - ypos) by lia. now rewrite Hc0.
Qed.

(* ... and in terms of the DOCUMENT: for every source position (line l, column
   i) whose image column under the processors has a screen position, the body
   cell there shows the document character line_l[i] (the first tab cell under
   TabsProcessor). *)
Lemma render_screen_doc : forall g W Hh xpos ypos text cursor st r,
  (forall c, tab_sw g c = 1 /\ tab_dw g c = 1) -> 0 <= g_tabstop g -> 0 <= vs st ->
  render g W Hh xpos ypos text cursor st = Some r ->
  (forall l, g_wrap g = false \/ g_haspfx g = false \/ len (cfg_pfx g l 0) <= r_bw r) ->
  forall l i srcline ch ucol rowl Y X,
    nth_error (split_on NL text) l = Some srcline -> nth_error srcline i = Some ch ->
    pl_s2d (process_line (g_bflag g) (g_before g) (g_tabstop g) TABCH1 TABCH2 (Z.of_nat l) srcline) (Z.of_nat i)
      = Some ucol ->
    nth_error (r_look r) l = Some rowl -> nth_error rowl (Z.to_nat ucol) = Some (Some (Y, X)) ->
    ypos <= Y < ypos + Hh /\ xpos + r_mw r <= X < xpos + r_mw r + r_bw r /\
    exists rowg,
      nth_error (r_grid r) (Z.to_nat (Y - ypos)) = Some rowg /\
      nth_error rowg (Z.to_nat (X - xpos - r_mw r)) = Some (tab_disp g (shown (g_tabstop g) TABCH1 ch)).
Proof.
  intros g W Hh xpos ypos text cursor st r Hn Ht Hvs Hr Hfit l i srcline ch ucol rowl Y X Hsrc Hch Hu H1 H2.
  destruct (render_screen g W Hh xpos ypos text cursor st r Hn Hvs Hr Hfit l _ rowl Y X H1 H2)
    as (HY & HX & line & ch' & rowg & c0 & Hline & Hc' & G1 & G2 & _).
  split; [exact HY|]. split; [exact HX|]. exists rowg. split; [exact G1|].
  pose proof (map_i_nth (process_line (g_bflag g) (g_before g) (g_tabstop g) TABCH1 TABCH2) (split_on NL text) 0 l srcline Hsrc) as Hp.
  assert (Hq : nth_error (r_lines g text) l
               = Some (pl_text (process_line (g_bflag g) (g_before g) (g_tabstop g) TABCH1 TABCH2 (0 + Z.of_nat l) srcline) ++ [SP])).
  { unfold r_lines. exact (map_nth_error (fun p => pl_text p ++ [SP]) _ _ Hp). }
  rewrite Hq in Hline. inversion Hline; subst line; clear Hline.
  replace (0 + Z.of_nat l) with (Z.of_nat l) in Hc' by lia.
  destruct (process_line_char (g_bflag g) (g_before g) (g_tabstop g) TABCH1 TABCH2 (Z.of_nat l) srcline (Z.of_nat i) ucol Ht (Nat2Z.is_nonneg i) Hu) as [Hshow _].
  rewrite Nat2Z.id in Hshow. specialize (Hshow ch Hch).
  rewrite nth_error_app1 in Hc' by (apply nth_error_Some; congruence).
  rewrite Hshow in Hc'. inversion Hc'; subst ch'. exact G2.
Qed.

(* ---------------------------------------------------------------------- *)
(* Whole histories through ONE window: every state brings its own
   configuration (wrap mode, margins, offsets, prefixes, processors may all
   change between renders), window size, position, text and cursor; the scroll
   state left by one render is the previous state of the next. *)
Definition hstate : Type := cfg * (Z * Z * Z * Z) * (str * Z).

(* the quantifier of the property for one state: width-1 characters (or, without
   wrapping, wide characters), offsets
   >= 0, a cursor inside the text, a window that holds one character plus
   margins and line prefix *)
Definition state_in_scope (s : hstate) : Prop :=
  let '(g, (W, Hh, xpos, ypos), (text, cursor)) := s in
  ((forall c, tab_sw g c = 1 /\ tab_dw g c = 1) \/
   (* wide sub-domain: without wrapping, source width = display width >= 1 *)
   (g_wrap g = false /\ forall c, tab_sw g c = tab_dw g c /\ 1 <= tab_dw g c)) /\ 0 <= g_tabstop g /\
  (0 <= g_top g /\ 0 <= g_bottom g /\ 0 <= g_left g /\ 0 <= g_right g) /\
  1 <= Hh /\ 0 <= cursor <= len text /\
  (if g_wrap g then forall l k, epw (g_haspfx g) (cfg_pfx g) l k + 1 <= r_bwid g W text
   else 1 <= r_bwid g W text - (if g_haspfx g then strw (tab_sw g) (cfg_pfx g (r_row text cursor) 0) else 0)).

(* every render of the history succeeds and satisfies the conclusion of
   C11_render_wrap / C11_render_nowrap (cursor registered inside the body, on the
   cell showing the document character under the cursor, column maps consistent) *)
Fixpoint hist_ok (h : list hstate) (st : sstate) : Prop :=
  match h with
  | [] => True
  | (g, (W, Hh, xpos, ypos), (text, cursor)) :: rest =>
      render_conclusion g W Hh xpos ypos text cursor st /\
      match render g W Hh xpos ypos text cursor st with
      | Some r => hist_ok rest (r_st r)
      | None => False
      end
  end.

Lemma history_ok : forall h st, Forall state_in_scope h -> 0 <= vs st -> hist_ok h st.
Proof.
  induction h as [|[[g [[[W Hh] xpos] ypos]] [text cursor]] rest IH]; intros st Hall Hvs; [exact I|].
  inversion Hall as [|s0 r0 Hs Hrest]; subst. cbn [hist_ok].
  destruct Hs as (Hn & Ht & Ho & HH & Hc & Hfit).
  assert (HC : render_conclusion g W Hh xpos ypos text cursor st).
  { destruct Hn as [Hn | [Hnw Hwd]].
    - destruct (g_wrap g) eqn:Ew.
      + now apply render_wrap_cursor_doc.
      + now apply render_nowrap_cursor_doc.
    - rewrite Hnw in Hfit. now apply render_nowrap_wide_cursor_doc. }
  split; [exact HC|].
  destruct HC as (line & r & ucol & Y & X & rowg & _ & Hr & _).
  rewrite Hr. apply IH; [exact Hrest|]. exact (render_vs_ge0 _ _ _ _ _ _ _ _ _ Hr Hvs).
Qed.

(* non-vacuity: a history that switches wrap mode and adds a margin mid-way *)
Example history_example :
  let g1 := g_plain true [] in
  let g2 := g_plain false [] in
  let g3 := mkcfg true true false false 1 1 0 0 true [62; 32] [46; 32] false 4 false [] [] in
  let t := [97; 98; 99; 100; 101; 102; 103; 10; 104; 9; 105] in
  hist_ok [(g1, (3, 1, 0, 0), (t, 7)); (g2, (3, 1, 0, 0), (t, 6)); (g3, (8, 2, 1, 1), (t, 10)); (g1, (2, 2, 0, 0), (t, 11))]
          (mkss 0 0 0).
Proof.
  apply history_ok; [|cbn; lia].
  assert (N : forall tab, tab = [] -> forall c, tab_sw (g_plain true tab) c = 1 /\ tab_dw (g_plain true tab) c = 1)
    by (intros tab -> c; split; reflexivity).
  repeat constructor; try (left; intros c; split; reflexivity); cbn; try lia;
    try (intros; vm_compute; split; reflexivity); try (vm_compute; intuition discriminate).
  all: try (intros l k; unfold epw, cfg_pfx; cbn; destruct (k =? 0); vm_compute; intuition discriminate).
Qed.
