(* C19 - the SGR sequence emitted by _EscapeCodeCache at 24-bit depth, read by
   the CSI parser and _select_graphic_rendition, gives back the attributes -
   whatever the decoder state was before (the sequence starts with a reset). *)
From Coq Require Import ZArith List Bool Lia String.
From PTK Require Import Lib.Py Lib.C19_Str Gen.Whitespace Gen.C19_Palette
     Model.C19_Palette Model.C19_Style Model.C19_Sgr
     Proofs.C19_PaletteFacts Proofs.C19_StrFacts Proofs.C19_StyleFacts.
Import ListNotations.
Open Scope Z_scope.

Definition code_ok (n : Z) : Prop := 0 <= n <= 255.

(* ---------------------------------------------------------------------- *)
(* the CSI parameter tokenizer *)

Lemma csi_digits : forall ds r cur params st style acc,
  forallb is_digit ds = true ->
  parse_loop (ds ++ r) (InCsi cur params) st style acc =
  parse_loop r (InCsi (cur ++ ds) params) st style acc.
Proof.
  induction ds as [|d ds IH]; intros r cur params st style acc H.
  - rewrite app_nil_r. reflexivity.
  - cbn [forallb] in H. apply andb_prop in H. destruct H as [Hd Hds].
    cbn [app parse_loop]. rewrite Hd. rewrite (IH _ _ _ _ _ _ Hds).
    rewrite <- app_assoc. reflexivity.
Qed.

Lemma csi_codes : forall codes params rest st style acc,
  codes <> [] -> Forall code_ok codes ->
  parse_loop (join [59] (map str_of_int codes) ++ 109 :: rest) (InCsi [] params) st style acc =
  parse_loop rest Ground (select_graphic_rendition (params ++ codes) st)
             (create_style_string (select_graphic_rendition (params ++ codes) st)) acc.
Proof.
  induction codes as [|n codes IH]; intros params rest st style acc Hne Hok; [contradiction|].
  inversion Hok as [|? ? Hn Hrest]; subst.
  destruct (byte_prints n Hn) as (Hdig & Hint & _ & _).
  destruct codes as [|n2 codes'].
  - change (join [59] (map str_of_int [n])) with (str_of_int n).
    rewrite (csi_digits _ _ _ _ _ _ _ Hdig). cbn [app].
    cbn [parse_loop]. change (is_digit 109) with false. cbn iota.
    change (109 =? 59) with false. change (109 =? 109) with true. cbn iota.
    rewrite Hint. reflexivity.
  - change (join [59] (map str_of_int (n :: n2 :: codes')))
      with (str_of_int n ++ [59] ++ join [59] (map str_of_int (n2 :: codes'))).
    rewrite <- !app_assoc.
    rewrite (csi_digits _ _ _ _ _ _ _ Hdig). cbn [app].
    cbn [parse_loop]. change (is_digit 59) with false. cbn iota.
    change (59 =? 59) with true. cbn iota.
    rewrite Hint.
    rewrite (IH (params ++ [n]) rest st style acc ltac:(discriminate) Hrest).
    rewrite <- app_assoc. reflexivity.
Qed.

Lemma render_codes_eq : forall codes,
  render_codes codes = ESC :: 91 :: join [59] (map str_of_int (0 :: codes)) ++ [109].
Proof.
  intros [|c r].
  - vm_compute. reflexivity.
  - unfold render_codes.
    change (join [59] (map str_of_int (0 :: c :: r)))
      with (str_of_int 0 ++ [59] ++ join [59] (map str_of_int (c :: r))).
    change (str_of_int 0) with [48]. reflexivity.
Qed.

Lemma sgr_loop_reset : forall codes st, sgr_loop (0 :: codes) st = sgr_loop codes RESET.
Proof. intros. reflexivity. Qed.

Lemma parse_escape : forall codes rest st style acc,
  Forall code_ok codes ->
  parse_loop (render_codes codes ++ rest) Ground st style acc =
  parse_loop rest Ground (sgr_loop codes RESET) (create_style_string (sgr_loop codes RESET)) acc.
Proof.
  intros codes rest st style acc Hok. rewrite render_codes_eq.
  cbn [app]. cbn [parse_loop].
  change (ESC =? 1) with false. change (ESC =? ESC) with true. cbn iota.
  change (91 =? 91) with true. cbn iota.
  rewrite <- app_assoc. cbn [app].
  rewrite (csi_codes (0 :: codes) [] rest st style acc ltac:(discriminate)).
  - cbn [app]. change (select_graphic_rendition (0 :: codes) st) with (sgr_loop (0 :: codes) st).
    rewrite sgr_loop_reset. reflexivity.
  - constructor; [unfold code_ok; lia | exact Hok].
Qed.

(* ---------------------------------------------------------------------- *)
(* colours the 24-bit encoding can carry *)

Definition color_ok (c : option str) : bool :=
  match c with
  | None => true
  | Some s => is_nil s || str_eqb s s_default || mem_str s ansi_color_names || hex6_b s
  end.

(* what the decoder holds afterwards: nothing for ""/"default"/None, the
   name for an ANSI name, "#" + lower-case digits for a hexadecimal colour *)
Definition dec_color (c : option str) : option str :=
  match c with
  | None => None
  | Some s =>
      if is_nil s || str_eqb s s_default then None
      else if mem_str s ansi_color_names then Some s
      else Some (35 :: lower s)
  end.

Definition set_col (bg : bool) (v : option str) (s : sgr_state) : sgr_state :=
  match v with
  | None => s
  | Some x => if bg then st_bgcolor (Some x) s else st_color (Some x) s
  end.

(* table facts *)
Definition name_codes_ok (n : str) : bool :=
  negb (is_nil n) && negb (len n =? 6) &&
  match assoc n fg_ansi_colors, assoc n bg_ansi_colors with
  | Some f, Some b =>
      (0 <=? f) && (f <=? 255) && (0 <=? b) && (b <=? 255) &&
      match assocZ f ansi_fg_inv, assocZ b ansi_fg_inv, assocZ b ansi_bg_inv with
      | Some nf, None, Some nb => str_eqb nf n && str_eqb nb n
      | _, _, _ => false
      end
  | _, _ => false
  end.

Lemma name_codes_table : forallb name_codes_ok ansi_color_names = true.
Proof. vm_compute. reflexivity. Qed.

Lemma key_lengths_table :
  forallb (fun kv : str * Z => negb (len (fst kv) =? 6)) fg_ansi_colors = true /\
  forallb (fun kv : str * Z => negb (len (fst kv) =? 6)) bg_ansi_colors = true.
Proof. vm_compute. split; reflexivity. Qed.

Lemma str_eqb_len : forall a b, str_eqb a b = true -> len a = len b.
Proof. intros a b H. apply str_eqb_eq in H. subst. reflexivity. Qed.

Lemma assoc_len_none {V} : forall (l : list (str * V)) (k : str),
  forallb (fun kv : str * V => negb (len (fst kv) =? len k)) l = true -> assoc k l = None.
Proof.
  induction l as [|[k' v] r IH]; intros k H; [reflexivity|].
  cbn [forallb fst] in H. apply andb_prop in H. destruct H as [H1 H2].
  cbn [assoc]. destruct (str_eqb k k') eqn:E.
  - apply str_eqb_len in E. rewrite E, Z.eqb_refl in H1. discriminate.
  - apply IH. exact H2.
Qed.

Lemma default_not_coded : forall bg fgc bgc fa,
  get_codes 24 fgc bgc s_default bg fa = ([], fa).
Proof. intros [|] fgc bgc fa; vm_compute; reflexivity. Qed.

Lemma sgr_38_2 : forall r g b rest s,
  sgr_loop (38 :: 2 :: r :: g :: b :: rest) s = sgr_loop rest (st_color (Some (color_str r g b)) s).
Proof. intros. reflexivity. Qed.

Lemma sgr_48_2 : forall r g b rest s,
  sgr_loop (48 :: 2 :: r :: g :: b :: rest) s = sgr_loop rest (st_bgcolor (Some (color_str r g b)) s).
Proof. intros. reflexivity. Qed.

Lemma hex_byte : forall c1 c2 v1 v2,
  hexval c1 = Some v1 -> hexval c2 = Some v2 ->
  code_ok (v1 * 16 + v2) /\ hex02 (v1 * 16 + v2) = [lower_c c1; lower_c c2].
Proof.
  intros c1 c2 v1 v2 H1 H2.
  destruct (hexval_props _ _ H1) as (R1 & D1 & _).
  destruct (hexval_props _ _ H2) as (R2 & D2 & _).
  assert (Hok : code_ok (v1 * 16 + v2)) by (unfold code_ok; lia).
  split; [exact Hok|].
  destruct (byte_prints _ Hok) as (_ & _ & _ & Hh). rewrite Hh.
  replace ((v1 * 16 + v2) / 16) with v1 by (apply Z.div_unique with v2; lia).
  replace ((v1 * 16 + v2) mod 16) with v2 by (apply Z.mod_unique with v1; lia).
  rewrite D1, D2. reflexivity.
Qed.

Lemma get_codes_24 : forall bg fgc bgc c fa,
  color_ok c = true ->
  exists codes,
    get_codes 24 fgc bgc (or_empty c) bg fa = (codes, fa) /\ Forall code_ok codes /\
    forall rest s, sgr_loop (codes ++ rest) s = sgr_loop rest (set_col bg (dec_color c) s).
Proof.
  intros bg fgc bgc c fa Hok.
  destruct c as [s|]; [|exists []; split; [reflexivity|]; split; [constructor|]; intros; reflexivity].
  cbn [color_ok] in Hok. cbn [or_empty dec_color].
  destruct (is_nil s) eqn:Enil.
  { destruct s; [|discriminate]. exists []. split; [reflexivity|]. split; [constructor|]. intros; reflexivity. }
  destruct (str_eqb s s_default) eqn:Edef.
  { apply str_eqb_eq in Edef. subst s. exists []. cbn [orb].
    split; [apply default_not_coded|]. split; [constructor|]. intros; reflexivity. }
  cbn [orb] in Hok |- *.
  destruct (mem_str s ansi_color_names) eqn:Emem.
  - (* ANSI name *)
    apply mem_str_In in Emem.
    pose proof (proj1 (forallb_forall _ _) name_codes_table _ Emem) as Hn.
    unfold name_codes_ok in Hn.
    apply andb_prop in Hn. destruct Hn as [Hn Hcodes].
    destruct (assoc s fg_ansi_colors) as [f|] eqn:Ef; [|discriminate].
    destruct (assoc s bg_ansi_colors) as [b|] eqn:Eb; [|discriminate].
    apply andb_prop in Hcodes. destruct Hcodes as [Hr Hinv].
    repeat (apply andb_prop in Hr; destruct Hr as [Hr ?]).
    repeat match goal with H : (_ <=? _) = true |- _ => apply Z.leb_le in H end.
    destruct (assocZ f ansi_fg_inv) as [nf|] eqn:Eif; [|discriminate].
    destruct (assocZ b ansi_fg_inv) eqn:Eibf; [discriminate|].
    destruct (assocZ b ansi_bg_inv) as [nb|] eqn:Eib; [|discriminate].
    apply andb_prop in Hinv. destruct Hinv as [X1 X2].
    apply str_eqb_eq in X1, X2. subst nf nb.
    destruct bg.
    + exists [b]. split; [|split].
      * unfold get_codes. rewrite Enil. change (24 =? 1) with false. cbn [orb]. rewrite Eb. reflexivity.
      * constructor; [unfold code_ok; lia | constructor].
      * intros rest st. cbn [app sgr_loop]. rewrite Eibf, Eib. reflexivity.
    + exists [f]. split; [|split].
      * unfold get_codes. rewrite Enil. change (24 =? 1) with false. cbn [orb]. rewrite Ef. reflexivity.
      * constructor; [unfold code_ok; lia | constructor].
      * intros rest st. cbn [app sgr_loop]. rewrite Eif. reflexivity.
  - (* six hexadecimal digits *)
    cbn [orb] in Hok. unfold hex6_b in Hok. apply andb_prop in Hok. destruct Hok as [Hlen Hhex].
    apply Z.eqb_eq in Hlen.
    destruct s as [|c1 [|c2 [|c3 [|c4 [|c5 [|c6 [|c7 s']]]]]]];
      try (unfold len in Hlen; cbn [List.length] in Hlen; lia).
    cbn [forallb] in Hhex.
    repeat (apply andb_prop in Hhex; let H := fresh "Hx" in destruct Hhex as [H Hhex]).
    apply is_hex_b_val in Hx, Hx0, Hx1, Hx2, Hx3, Hx4.
    destruct Hx as [v1 V1], Hx0 as [v2 V2], Hx1 as [v3 V3], Hx2 as [v4 V4], Hx3 as [v5 V5], Hx4 as [v6 V6].
    pose proof (py_int16_hex6 _ _ _ _ _ _ _ _ _ _ _ _ V1 V2 V3 V4 V5 V6) as Hint.
    destruct (hex_byte _ _ _ _ V1 V2) as [OK1 HB1].
    destruct (hex_byte _ _ _ _ V3 V4) as [OK2 HB2].
    destruct (hex_byte _ _ _ _ V5 V6) as [OK3 HB3].
    assert (Hrgb : color_name_to_rgb [c1; c2; c3; c4; c5; c6] = Some (v1 * 16 + v2, v3 * 16 + v4, v5 * 16 + v6)).
    { unfold color_name_to_rgb. rewrite Hint.
      set (v := ((((v1 * 16 + v2) * 16 + v3) * 16 + v4) * 16 + v5) * 16 + v6).
      set (r := v1 * 16 + v2) in *. set (g := v3 * 16 + v4) in *. set (b := v5 * 16 + v6) in *.
      assert (Ev : v = r * 65536 + g * 256 + b) by (unfold v, r, g, b; lia).
      unfold code_ok in OK1, OK2, OK3.
      assert (E1 : (v / 65536) mod 256 = r).
      { replace (v / 65536) with r by (apply Z.div_unique with (g * 256 + b); lia).
        apply Z.mod_small. lia. }
      assert (E2 : (v / 256) mod 256 = g).
      { replace (v / 256) with (r * 256 + g) by (apply Z.div_unique with b; lia).
        symmetry. apply Z.mod_unique with r; lia. }
      assert (E3 : v mod 256 = b).
      { symmetry. apply Z.mod_unique with (r * 256 + g); lia. }
      rewrite E1, E2, E3. reflexivity. }
    set (r := v1 * 16 + v2) in *. set (g := v3 * 16 + v4) in *. set (b := v5 * 16 + v6) in *.
    destruct key_lengths_table as [KF KB].
    assert (Hdec : color_str r g b = 35 :: lower [c1; c2; c3; c4; c5; c6]).
    { unfold color_str. rewrite HB1, HB2, HB3. reflexivity. }
    destruct bg.
    + exists [48; 2; r; g; b]. split; [|split].
      * unfold get_codes. cbn [is_nil]. change (24 =? 1) with false. cbn [orb].
        rewrite (assoc_len_none bg_ansi_colors [c1; c2; c3; c4; c5; c6]) by exact KB.
        rewrite Hrgb. reflexivity.
      * repeat (apply Forall_cons; [first [assumption | unfold code_ok; lia]|]). apply Forall_nil.
      * intros rest st. cbn [app]. rewrite sgr_48_2, Hdec. reflexivity.
    + exists [38; 2; r; g; b]. split; [|split].
      * unfold get_codes. cbn [is_nil]. change (24 =? 1) with false. cbn [orb].
        rewrite (assoc_len_none fg_ansi_colors [c1; c2; c3; c4; c5; c6]) by exact KF.
        rewrite Hrgb. reflexivity.
      * repeat (apply Forall_cons; [first [assumption | unfold code_ok; lia]|]). apply Forall_nil.
      * intros rest st. cbn [app]. rewrite sgr_38_2, Hdec. reflexivity.
Qed.

(* ---------------------------------------------------------------------- *)
(* flags *)

Definition flag_codes (bold italic blink underline reverse hidden strike : bool) : list Z :=
  (if bold then [1] else []) ++ (if italic then [3] else []) ++ (if blink then [5] else [])
  ++ (if underline then [4] else []) ++ (if reverse then [7] else [])
  ++ (if hidden then [8] else []) ++ (if strike then [9] else []).

Lemma flag_codes_decode : forall x y b1 b2 b3 b4 b5 b6 b7,
  sgr_loop (flag_codes b1 b2 b3 b4 b5 b6 b7) (mkS x y false false false false false false false)
  = mkS x y b1 b4 b7 b2 b3 b5 b6.
Proof. intros x y [|] [|] [|] [|] [|] [|] [|]; reflexivity. Qed.

Lemma flag_codes_ok : forall b1 b2 b3 b4 b5 b6 b7, Forall code_ok (flag_codes b1 b2 b3 b4 b5 b6 b7).
Proof.
  intros [|] [|] [|] [|] [|] [|] [|]; unfold flag_codes; cbn [app];
    repeat constructor; unfold code_ok; lia.
Qed.

(* ---------------------------------------------------------------------- *)
(* the round trip *)

Definition rt_dom (a : attrs) : Prop :=
  color_ok (a_color a) = true /\ color_ok (a_bgcolor a) = true.

Definition state_of (a : attrs) : sgr_state :=
  mkS (dec_color (a_color a)) (dec_color (a_bgcolor a))
      (truthy (a_bold a)) (truthy (a_underline a)) (truthy (a_strike a)) (truthy (a_italic a))
      (truthy (a_blink a)) (truthy (a_reverse a)) (truthy (a_hidden a)).

Lemma sgr_codes_24 : forall a, rt_dom a ->
  Forall code_ok (sgr_codes 24 a) /\ sgr_loop (sgr_codes 24 a) RESET = state_of a.
Proof.
  intros a [Hfg Hbg].
  unfold sgr_codes, colors_to_code.
  destruct (get_codes_24 false (or_empty (a_color a)) (or_empty (a_bgcolor a)) (a_color a) [] Hfg)
    as (c1 & E1 & OK1 & D1).
  rewrite E1.
  destruct (get_codes_24 true (or_empty (a_color a)) (or_empty (a_bgcolor a)) (a_bgcolor a) [] Hbg)
    as (c2 & E2 & OK2 & D2).
  rewrite E2.
  fold (flag_codes (truthy (a_bold a)) (truthy (a_italic a)) (truthy (a_blink a))
                   (truthy (a_underline a)) (truthy (a_reverse a)) (truthy (a_hidden a))
                   (truthy (a_strike a))).
  split.
  - apply Forall_app. split; [apply Forall_app; split; assumption | apply flag_codes_ok].
  - rewrite <- app_assoc. rewrite D1, D2.
    assert (Es : set_col true (dec_color (a_bgcolor a)) (set_col false (dec_color (a_color a)) RESET)
                 = mkS (dec_color (a_color a)) (dec_color (a_bgcolor a)) false false false false false false false).
    { destruct (dec_color (a_color a)), (dec_color (a_bgcolor a)); reflexivity. }
    rewrite Es. rewrite flag_codes_decode. reflexivity.
Qed.

Theorem sgr_roundtrip_24_state : forall a rest st style acc,
  rt_dom a ->
  parse_loop (escape_code 24 a ++ rest) Ground st style acc =
  parse_loop rest Ground (state_of a) (create_style_string (state_of a)) acc.
Proof.
  intros a rest st style acc Hdom. unfold escape_code.
  destruct (sgr_codes_24 a Hdom) as [Hok Hst].
  rewrite (parse_escape _ rest st style acc Hok). rewrite Hst. reflexivity.
Qed.

Theorem sgr_roundtrip_24_fragment : forall a,
  rt_dom a ->
  ansi_fragments (escape_code 24 a ++ [120]) = Some [(create_style_string (state_of a), [120])].
Proof.
  intros a Hdom. unfold ansi_fragments. rewrite (sgr_roundtrip_24_state a [120] RESET [] [] Hdom).
  reflexivity.
Qed.

(* depth 1: no colour code is ever emitted *)
Theorem depth1_no_colour : forall fg bg, colors_to_code 1 fg bg = [].
Proof.
  intros fg bg. unfold colors_to_code, get_codes. change (1 =? 1) with true.
  rewrite !orb_true_r. reflexivity.
Qed.

(* non-vacuity *)
Example rt_dom_example :
  rt_dom (mkA (Some [70; 70; 48; 48; 97; 98]) (Some (97 :: 110 :: 115 :: 105 :: [114; 101; 100]))
              (Some true) None (Some false) (Some true) None None (Some true)).
Proof. vm_compute. split; reflexivity. Qed.

(* ---------------------------------------------------------------------- *)
(* the defect repaired by d87ad65: parse_color accepted "#" + any six
   characters, a colour outside the round-trip domain that the encoder drops;
   the current parse_color rejects it *)
Theorem parse_color_pinned_refuted :
  exists t c, parse_color_pinned t = Some c /\ color_ok (Some c) = false /\ parse_color t = None.
Proof.
  exists [35; 122; 122; 122; 122; 122; 122], [122; 122; 122; 122; 122; 122].
  vm_compute. repeat split; reflexivity.
Qed.
