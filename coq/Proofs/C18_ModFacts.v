(* C18 - facts about the % operator side (Model/C18_Mod.v). *)
From Coq Require Import ZArith List Bool Lia.
From PTK Require Import Lib.Sx Lib.Py Model.C18_Fragments Model.C18_Ansi Model.C18_Html Model.C18_Mod
  Proofs.C18_AnsiFacts Proofs.C18_HtmlFacts.
Import ListNotations.
Open Scope Z_scope.

Lemma map2_conv_id specs vals :
  length specs = length vals -> map2_conv (fun _ s => s) specs vals = vals.
Proof.
  revert vals. induction specs as [|sp r IH]; intros [|v vs] H; cbn in *; try reflexivity; try lia.
  f_equal. apply IH. lia.
Qed.

Lemma map2_conv_map conv (f : str -> str) specs vals :
  (forall sp s, conv sp (f s) = f (conv sp s)) ->
  map2_conv conv specs (map f vals) = map f (map2_conv conv specs vals).
Proof.
  intros H. revert vals. induction specs as [|sp r IH]; intros [|v vs]; cbn; try reflexivity.
  now rewrite H, IH.
Qed.

(* Whenever the conversions commute with escaping (%s; and, for ANSI, every
   conversion that works position by position, since ansi_escape maps
   characters one to one) the code as it is equals "escape each conversion's
   output". *)
Theorem html_mod_commuting conv parts specs vals :
  (forall sp s, conv sp (html_escape cfg_now s) = html_escape cfg_now (conv sp s)) ->
  html_mod_markup conv parts specs vals = html_mod_markup_spec conv parts specs vals.
Proof. intros H. unfold html_mod_markup, html_mod_markup_spec. now rewrite map2_conv_map. Qed.

Theorem ansi_mod_commuting conv parts specs vals :
  (forall sp s, conv sp (ansi_escape cfg_now s) = ansi_escape cfg_now (conv sp s)) ->
  ansi_mod_text conv parts specs vals = ansi_mod_text_spec conv parts specs vals.
Proof. intros H. unfold ansi_mod_text, ansi_mod_text_spec. now rewrite map2_conv_map. Qed.

(* plain %s *)
Corollary html_mod_plain parts specs vals :
  length specs = length vals ->
  html_mod_markup (fun _ s => s) parts specs vals = fill parts (map (html_escape cfg_now) vals).
Proof. intros H. unfold html_mod_markup. rewrite map2_conv_id; [reflexivity | rewrite map_length; exact H]. Qed.

(* truncation (%.Ns) and ansi_escape commute: ansi_escape is a map *)
Lemma ansi_escape_firstn n s : firstn n (ansi_escape cfg_now s) = ansi_escape cfg_now (firstn n s).
Proof.
  destruct (ansi_escape_safe_now s) as [-> _]. destruct (ansi_escape_safe_now (firstn n s)) as [-> _].
  apply firstn_map.
Qed.

(* The specification: the markup is the template with each conversion's
   OUTPUT escaped, i.e. an ordinary interpolation of those outputs - so every
   inertness theorem applies to it, whatever the conversions do. *)
Theorem html_mod_spec_is_interpolation conv parts specs vals :
  html_parse cfg_now (html_mod_markup_spec conv parts specs vals)
  = html_template cfg_now parts (map2_conv conv specs vals).
Proof. unfold html_mod_markup_spec, html_template. reflexivity. Qed.

(* the code as it is: '<b>%.3s</b>' % '&&&&' *)
Theorem html_mod_refuted :
  exists conv parts specs vals,
    html_parse cfg_now (html_mod_markup conv parts specs vals) = Err 2 /\
    html_parse cfg_now (html_mod_markup_spec conv parts specs vals)
    = Ok [mkfrag [99; 108; 97; 115; 115; 58; 98] [38; 38; 38] []].
Proof.
  exists (fun _ s => firstn 3 s), [[60; 98; 62]; [60; 47; 98; 62]], [0], [[38; 38; 38; 38]].
  split; vm_compute; reflexivity.
Qed.
