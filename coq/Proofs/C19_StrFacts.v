(* C19 - facts about the string/number primitives of Lib/C19_Str.v *)
From Coq Require Import ZArith List Bool Lia String.
From PTK Require Import Lib.Py Lib.C19_Str Gen.Whitespace Proofs.C19_PaletteFacts.
Import ListNotations.
Open Scope Z_scope.

(* ---- the fuel of [digits] always suffices ------------------------------ *)

Lemma digits_fuel_enough : forall base fuel n acc,
  2 <= base -> 0 <= n < 2 ^ (Z.of_nat fuel + 1) ->
  digits_fuel base (S fuel) n acc <> None.
Proof.
  intros base fuel. induction fuel as [|f IH]; intros n acc Hb Hn.
  - cbn [digits_fuel]. change (2 ^ (Z.of_nat 0 + 1)) with 2 in Hn.
    rewrite Z.div_small by lia. cbn. discriminate.
  - cbn [digits_fuel]. destruct (n / base =? 0) eqn:E; [discriminate|].
    apply IH; [exact Hb|]. split.
    + apply Z.div_pos; lia.
    + apply Z.div_lt_upper_bound; [lia|].
      replace (Z.of_nat (S f) + 1) with (Z.succ (Z.of_nat f + 1)) in Hn by lia.
      rewrite Z.pow_succ_r in Hn by lia.
      assert (0 < 2 ^ (Z.of_nat f + 1)) by (apply Z.pow_pos_nonneg; lia).
      nia.
Qed.

Theorem digits_never_out_of_fuel : forall base n,
  2 <= base -> 0 <= n -> digits base n <> None.
Proof.
  intros base n Hb Hn. unfold digits. apply digits_fuel_enough; [exact Hb|].
  split; [exact Hn|].
  rewrite Z2Nat.id by apply Z.log2_nonneg.
  destruct (Z.eq_dec n 0) as [->|Hne].
  - cbn. lia.
  - pose proof (Z.log2_spec n ltac:(lia)) as [_ H]. rewrite <- Z.add_1_r in H. exact H.
Qed.

(* ---- bytes print as ASCII digits that read back ------------------------ *)

Definition nonempty_b {T} (l : list T) : bool := match l with [] => false | _ => true end.

Definition zrange (n : nat) : list Z := map Z.of_nat (seq 0 n).

Lemma In_zrange : forall n x, 0 <= x < Z.of_nat n -> In x (zrange n).
Proof.
  intros n x H. unfold zrange. apply in_map_iff. exists (Z.to_nat x). split; [lia|].
  apply in_seq. lia.
Qed.

Definition byte_prints_ok (n : Z) : bool :=
  forallb is_digit (str_of_int n) && (csi_number (str_of_int n) =? n)
  && nonempty_b (str_of_int n)
  && str_eqb (hex02 n) [dchar (n / 16); dchar (n mod 16)].

Lemma bytes_print_ok_table : forallb byte_prints_ok (zrange 256) = true.
Proof. vm_compute. reflexivity. Qed.

Lemma byte_prints : forall n, 0 <= n <= 255 ->
  forallb is_digit (str_of_int n) = true /\ csi_number (str_of_int n) = n /\
  str_of_int n <> [] /\ hex02 n = [dchar (n / 16); dchar (n mod 16)].
Proof.
  intros n Hn.
  pose proof (proj1 (forallb_forall _ _) bytes_print_ok_table n (In_zrange 256 n ltac:(lia))) as H.
  unfold byte_prints_ok in H.
  repeat (apply andb_prop in H; destruct H as [H ?]).
  split; [exact H|]. split; [apply Z.eqb_eq; assumption|]. split.
  - intro E. rewrite E in *. discriminate.
  - apply str_eqb_eq. assumption.
Qed.

(* ---- hexadecimal digits ------------------------------------------------ *)

Lemma hexval_props : forall c v, hexval c = Some v ->
  0 <= v < 16 /\ dchar v = lower_c c /\
  int_space c = false /\ (c =? 43) = false /\ (c =? 45) = false /\ (c =? 95) = false /\
  (c =? 120) = false /\ (c =? 88) = false /\ (c =? 110) = false /\ is_space c = false /\
  (c =? 35) = false.
Proof.
  intros c v H. unfold hexval in H.
  assert (Hsp : forall c, 48 <= c <= 102 -> is_space c = false).
  { intros c0 Hc0. unfold is_space.
    assert (forallb (fun x => negb ((48 <=? x) && (x <=? 102))) py_isspace_table = true) as Ht
      by (vm_compute; reflexivity).
    destruct (mem_Z c0 py_isspace_table) eqn:E; [|reflexivity]. exfalso.
    revert E Ht. generalize py_isspace_table. induction l as [|x r IHl]; cbn [mem_Z forallb]; [discriminate|].
    intros E Ht. apply andb_prop in Ht. destruct Ht as [Hx Hr].
    apply orb_prop in E. destruct E as [E | E]; [|auto].
    apply Z.eqb_eq in E. subst x.
    assert (((48 <=? c0) && (c0 <=? 102)) = true) by (apply andb_true_intro; split; apply Z.leb_le; lia).
    rewrite H0 in Hx. discriminate. }
  unfold dchar, lower_c, int_space.
  destruct ((48 <=? c) && (c <=? 57)) eqn:E1.
  - apply andb_prop in E1. destruct E1 as [A B]. apply Z.leb_le in A, B. inversion H; subst.
    rewrite (Hsp c) by lia.
    destruct (c - 48 <? 10) eqn:X; [|lia].
    destruct ((65 <=? c) && (c <=? 90)) eqn:Y; [apply andb_prop in Y; destruct Y as [Y1 Y2]; apply Z.leb_le in Y1; lia|].
    repeat split; try lia;
      try (apply Z.eqb_neq; lia).
    all: try (apply orb_false_intro; [apply Z.eqb_neq; lia|]; apply andb_false_intro2; apply Z.leb_gt; lia).
  - destruct ((97 <=? c) && (c <=? 102)) eqn:E2.
    + apply andb_prop in E2. destruct E2 as [A B]. apply Z.leb_le in A, B. inversion H; subst.
      rewrite (Hsp c) by lia.
      destruct (c - 87 <? 10) eqn:X; [lia|].
      destruct ((65 <=? c) && (c <=? 90)) eqn:Y; [apply andb_prop in Y; destruct Y as [Y1 Y2]; apply Z.leb_le in Y2; lia|].
      repeat split; try lia; try (apply Z.eqb_neq; lia).
      all: try (apply orb_false_intro; [apply Z.eqb_neq; lia|]; apply andb_false_intro2; apply Z.leb_gt; lia).
    + destruct ((65 <=? c) && (c <=? 70)) eqn:E3; [|discriminate].
      apply andb_prop in E3. destruct E3 as [A B]. apply Z.leb_le in A, B. inversion H; subst.
      rewrite (Hsp c) by lia.
      destruct (c - 55 <? 10) eqn:X; [lia|].
      destruct ((65 <=? c) && (c <=? 90)) eqn:Y.
      * repeat split; try lia; try (apply Z.eqb_neq; lia).
        all: try (apply orb_false_intro; [apply Z.eqb_neq; lia|]; apply andb_false_intro2; apply Z.leb_gt; lia).
      * apply andb_false_elim in Y. destruct Y as [Y | Y]; apply Z.leb_gt in Y; lia.
Qed.

Lemma is_hex_b_val : forall c, is_hex_b c = true -> exists v, hexval c = Some v.
Proof. intros c H. unfold is_hex_b in H. destruct (hexval c); [eauto | discriminate]. Qed.

(* int(s, 16) of six hexadecimal digits *)
Lemma py_int16_hex6 : forall c1 c2 c3 c4 c5 c6 v1 v2 v3 v4 v5 v6,
  hexval c1 = Some v1 -> hexval c2 = Some v2 -> hexval c3 = Some v3 ->
  hexval c4 = Some v4 -> hexval c5 = Some v5 -> hexval c6 = Some v6 ->
  py_int16 [c1; c2; c3; c4; c5; c6] =
  Some (((((v1 * 16 + v2) * 16 + v3) * 16 + v4) * 16 + v5) * 16 + v6).
Proof.
  intros c1 c2 c3 c4 c5 c6 v1 v2 v3 v4 v5 v6 H1 H2 H3 H4 H5 H6.
  destruct (hexval_props _ _ H1) as (_ & _ & S1 & P1 & M1 & U1 & _).
  destruct (hexval_props _ _ H2) as (_ & _ & _ & _ & _ & _ & X2 & XX2 & _).
  unfold py_int16. cbn [lstrip_by]. rewrite S1.
  rewrite M1, P1. cbn [orb]. rewrite X2, XX2. cbn [orb]. rewrite andb_false_r.
  rewrite U1. cbn [scan_hex]. rewrite H1, H2, H3, H4, H5, H6.
  cbn [forallb]. change (0 + 1 + 1 + 1 + 1 + 1 + 1 =? 0) with false. cbn iota.
  f_equal. lia.
Qed.

(* ---- str.split() of blank-free words joined by one space -------------- *)

Definition no_space (w : str) : bool := forallb (fun c => negb (is_space c)) w.
Definition word_ok (w : str) : bool := nonempty_b w && no_space w.

Lemma is_space_32 : is_space 32 = true.
Proof. vm_compute. reflexivity. Qed.

Lemma split_ws_r_word : forall w rest inw ws,
  no_space w = true -> w <> [] ->
  split_ws_r rest = (inw, ws) ->
  split_ws_r (w ++ rest) =
  (true, if inw then match ws with w' :: ws' => (w ++ w') :: ws' | [] => [w] end else w :: ws).
Proof.
  induction w as [|c w IH]; intros rest inw ws Hns Hne Hr; [contradiction|].
  cbn [no_space forallb] in Hns. apply andb_prop in Hns. destruct Hns as [Hc Hw].
  apply negb_true_iff in Hc.
  cbn [app split_ws_r]. destruct w as [|c2 w'].
  - cbn [app]. rewrite Hr, Hc. destruct inw; [destruct ws|]; reflexivity.
  - rewrite (IH rest inw ws Hw ltac:(discriminate) Hr). rewrite Hc.
    destruct inw; [destruct ws|]; reflexivity.
Qed.

Lemma split_ws_join : forall ws, forallb word_ok ws = true -> split_ws (join [32] ws) = ws.
Proof.
  unfold split_ws.
  assert (G : forall ws, forallb word_ok ws = true ->
              split_ws_r (join [32] ws) = (nonempty_b ws, ws)).
  { induction ws as [|w r IH]; intros H; [reflexivity|].
    cbn [forallb] in H. apply andb_prop in H. destruct H as [Hw Hr].
    unfold word_ok in Hw. apply andb_prop in Hw. destruct Hw as [Hne Hns].
    assert (w <> []) by (destruct w; [discriminate | discriminate]).
    specialize (IH Hr). destruct r as [|w2 r'].
    - cbn [join]. rewrite <- (app_nil_r w) at 1.
      rewrite (split_ws_r_word w [] false [] Hns H eq_refl). reflexivity.
    - change (join [32] (w :: w2 :: r')) with (w ++ [32] ++ join [32] (w2 :: r')).
      assert (E : split_ws_r ([32] ++ join [32] (w2 :: r')) = (false, w2 :: r')).
      { cbn [app split_ws_r]. rewrite IH. rewrite is_space_32. reflexivity. }
      rewrite (split_ws_r_word w _ false (w2 :: r') Hns H E). reflexivity. }
  intros ws H. rewrite (G ws H). reflexivity.
Qed.
