(* C10, round 6: none of the remaining producers (full processor chain, margins,
   multi-column menu row) marks text "[ZeroWidthEscape]" by itself; with
   Proofs/C10_ProducerFacts.v: for what they produce every control character of
   the output stream is renderer generated and nothing is passed through raw. *)
From Coq Require Import ZArith List Bool Lia.
From PTK Require Import Lib.Sx Lib.Py Gen.C10_DisplayMappings Model.C10_Screen Model.C10_Producers
     Model.C10_Wire Model.C10_Print Model.C10_Procs
     Proofs.C10_TableFacts Proofs.C10_CopyFacts Proofs.C10_RenderFacts Proofs.C10_ProducerFacts.
Import ListNotations.
Open Scope Z_scope.

(* ------------------------------------------------------------ list plumbing *)

Lemma all_unmarked_app a b : all_unmarked a -> all_unmarked b -> all_unmarked (a ++ b).
Proof. intros Ha Hb. apply Forall_app. split; assumption. Qed.

Lemma firstn_In {T} (x : T) n l : In x (firstn n l) -> In x l.
Proof. intro H. rewrite <- (firstn_skipn n l). apply in_or_app. left. exact H. Qed.
Lemma skipn_In {T} (x : T) n l : In x (skipn n l) -> In x l.
Proof. intro H. rewrite <- (firstn_skipn n l). apply in_or_app. right. exact H. Qed.

Lemma all_unmarked_firstn n l : all_unmarked l -> all_unmarked (firstn n l).
Proof.
  intro H. unfold all_unmarked in *. rewrite Forall_forall in *. intros f Hf. apply H. eapply firstn_In. exact Hf.
Qed.
Lemma all_unmarked_skipn n l : all_unmarked l -> all_unmarked (skipn n l).
Proof.
  intro H. unfold all_unmarked in *. rewrite Forall_forall in *. intros f Hf. apply H. eapply skipn_In. exact Hf.
Qed.

Lemma index_unmarked (e : list frag) i f : all_unmarked e -> index e i = Some f -> unmarked f.
Proof.
  intros H E. unfold index in E. destruct (_ || _); [discriminate|].
  apply nth_error_In in E. unfold all_unmarked in H. rewrite Forall_forall in H. exact (H f E).
Qed.

Lemma single_unmarked st tx : unmarked_style st -> all_unmarked [(st, tx)].
Proof. intro H. constructor; [exact H | constructor]. Qed.

Lemma py_setitem_unmarked e i v : all_unmarked e -> unmarked v -> all_unmarked (py_setitem e i v).
Proof.
  intros He Hv. unfold py_setitem. apply all_unmarked_app; [apply all_unmarked_firstn; exact He|].
  apply all_unmarked_app; [|apply all_unmarked_skipn; exact He].
  apply explode_unmarked. constructor; [exact Hv | constructor].
Qed.

(* a suffix " class:x.." appended to an unmarked style *)
Definition sfx_ok (s : list Z) : Prop := exists r, s = 32 :: r /\ unmarked_style r.

Lemma sfx_join st s : unmarked_style st -> sfx_ok s -> unmarked_style (st ++ s).
Proof. intros H (r & E & Hr). subst s. apply style_join_unmarked; assumption. Qed.

Lemma sfx_mbc : sfx_ok S_MBC. Proof. eexists. split; [reflexivity | vm_compute; reflexivity]. Qed.
Lemma sfx_mbo : sfx_ok S_MBO. Proof. eexists. split; [reflexivity | vm_compute; reflexivity]. Qed.
Lemma sfx_multi : sfx_ok S_MULTI. Proof. eexists. split; [reflexivity | vm_compute; reflexivity]. Qed.
Lemma sfx_search (inc cur : bool) :
  sfx_ok (search_suffix (if cur then (if inc then S_INCSEARCH_CUR else S_SEARCH_CUR) else (if inc then S_INCSEARCH else S_SEARCH))).
Proof. destruct cur, inc; (eexists; split; [reflexivity | vm_compute; reflexivity]). Qed.

Lemma restyle_sfx_unmarked s : sfx_ok s -> forall fs i, all_unmarked fs -> all_unmarked (restyle_sfx i s fs).
Proof.
  intro Hs. induction fs as [|f r IH]; intros i H; cbn [restyle_sfx]; [constructor|].
  inversion H as [|? ? Hf Hr]; subst. destruct (i =? 0); constructor; try assumption.
  - unfold unmarked. cbn [fst]. apply sfx_join; assumption.
  - apply IH. exact Hr.
Qed.

Lemma restyle_range_unmarked s : sfx_ok s -> forall n i fs, all_unmarked fs -> all_unmarked (restyle_range n i s fs).
Proof.
  intro Hs. induction n as [|k IH]; intros i fs H; cbn [restyle_range]; [exact H|].
  apply IH. apply restyle_sfx_unmarked; assumption.
Qed.

Lemma search_apply_unmarked inc cc : forall ms e, all_unmarked e -> all_unmarked (search_apply inc ms cc e).
Proof.
  unfold search_apply. induction ms as [|m r IH]; intros e H; cbn [fold_left]; [exact H|].
  apply IH. apply restyle_range_unmarked; [|exact H].
  destruct cc as [c|]; [destruct ((fst m <=? c) && (c <? snd m)); [exact (sfx_search inc true) | exact (sfx_search inc false)]|].
  exact (sfx_search inc false).
Qed.

Lemma tabs_loop_unmarked ts c1 c2 st : unmarked_style st -> forall e i pos acc pm,
  all_unmarked e -> all_unmarked acc -> all_unmarked (fst (fst (tabs_loop ts c1 c2 st e i pos acc pm))).
Proof.
  intro Hs. induction e as [|f r IH]; intros i pos acc pm He Ha; cbn [tabs_loop]; [exact Ha|].
  inversion He as [|? ? Hf Hr]; subst. destruct (str_eqb (snd f) [9]).
  - apply IH; [exact Hr|]. apply all_unmarked_app; [exact Ha|].
    constructor; [exact Hs | constructor; [exact Hs | constructor]].
  - apply IH; [exact Hr|]. apply all_unmarked_app; [exact Ha | constructor; [exact Hf | constructor]].
Qed.

Lemma lead_idx_unmarked t : unmarked t -> forall n i e r, all_unmarked e -> lead_idx n i t e = Some r -> all_unmarked r.
Proof.
  intro Ht. induction n as [|k IH]; intros i e r He E; cbn [lead_idx] in E; [inversion E; subst; exact He|].
  destruct (index e i) as [f|]; [|discriminate].
  destruct (str_eqb (snd f) [32]); [|inversion E; subst; exact He].
  eapply IH; [|exact E]. apply py_setitem_unmarked; assumption.
Qed.

Lemma trail_apply_unmarked t e : unmarked t -> all_unmarked e -> all_unmarked (trail_apply t e).
Proof.
  intros Ht He. unfold trail_apply. apply all_unmarked_app; [apply all_unmarked_firstn; exact He|].
  unfold all_unmarked. rewrite Forall_forall. intros f Hf. apply in_flat_map in Hf. destruct Hf as (x & _ & Hf).
  assert (G : all_unmarked (explode [t])) by (apply explode_unmarked; constructor; [exact Ht | constructor]).
  unfold all_unmarked in G. rewrite Forall_forall in G. exact (G f Hf).
Qed.

(* ------------------------------------------------------------ processors *)

Fixpoint q_unmarked (q : proc2) : Prop :=
  match q with
  | QBase p => proc_unmarked p
  | QTabs _ _ _ st => unmarked_style st
  | QLeading st _ => unmarked_style st
  | QTrailing st _ => unmarked_style st
  | QAfter st b _ => unmarked_style st /\ all_unmarked b
  | QCond _ q' => q_unmarked q'
  | QDyn _ q' => q_unmarked q'
  | _ => True
  end.

Lemma bracket_fold_unmarked lineno s2d cur_col : forall ps acc r,
  (forall a, acc = Some a -> all_unmarked a) ->
  fold_left (fun (acc : option (list frag)) (rc : Z * Z) =>
        match acc with
        | None => None
        | Some fs1 =>
            if fst rc =? lineno then
              match s2d (snd rc) with
              | None => None
              | Some col =>
                  let e := explode fs1 in
                  match index e col with
                  | None => None
                  | Some f => Some (py_setitem e col (fst f ++ (if col =? cur_col then S_MBC else S_MBO), snd f))
                  end
              end
            else Some fs1
        end) ps acc = Some r -> all_unmarked r.
Proof.
  induction ps as [|rc ps IH]; intros acc r Ha E; cbn [fold_left] in E; [exact (Ha r E)|].
  eapply IH; [|exact E]. intros a Ea.
  destruct acc as [fs1|]; [|discriminate]. specialize (Ha fs1 eq_refl).
  destruct (fst rc =? lineno); [|inversion Ea; subst; exact Ha].
  destruct (s2d (snd rc)) as [col|]; [|discriminate].
  cbv zeta in Ea. destruct (index (explode fs1) col) as [f|] eqn:Ei; [|discriminate].
  inversion Ea; subst. apply py_setitem_unmarked; [apply explode_unmarked; exact Ha|].
  unfold unmarked. cbn [fst]. apply sfx_join.
  - exact (index_unmarked _ _ _ (explode_unmarked _ Ha) Ei).
  - destruct (col =? cur_col); [exact sfx_mbc | exact sfx_mbo].
Qed.

Lemma multi_fold_unmarked (s2d : s2d_t) : forall ps acc r,
  (forall a, acc = Some a -> all_unmarked a) ->
  fold_left (fun (acc : option (list frag)) (p : Z) =>
        match acc with
        | None => None
        | Some e1 =>
            match s2d p with
            | None => None
            | Some column =>
                match index e1 column with
                | None => Some (e1 ++ [(S_MULTI, [32])])
                | Some f => Some (py_setitem e1 column (fst f ++ S_MULTI, snd f))
                end
            end
        end) ps acc = Some r -> all_unmarked r.
Proof.
  induction ps as [|p ps IH]; intros acc r Ha E; cbn [fold_left] in E; [exact (Ha r E)|].
  eapply IH; [|exact E]. intros a Ea.
  destruct acc as [e1|]; [|discriminate]. specialize (Ha e1 eq_refl).
  destruct (s2d p) as [column|]; [|discriminate].
  destruct (index e1 column) as [f|] eqn:Ei; inversion Ea; subst.
  - apply py_setitem_unmarked; [exact Ha|]. unfold unmarked. cbn [fst]. apply sfx_join; [|exact sfx_multi].
    exact (index_unmarked _ _ _ Ha Ei).
  - apply all_unmarked_app; [exact Ha|]. apply single_unmarked. vm_compute. reflexivity.
Qed.

Lemma apply_q_unmarked : forall q lineno s2d fs r t,
  q_unmarked q -> all_unmarked fs -> apply_q q lineno s2d fs = Some (r, t) -> all_unmarked r.
Proof.
  induction q as [p|inc text given crow ccol done|ps ccol done|active rel|ts c1 c2 st|st ch|st ch|st b last|b q IH|b q IH];
    intros lineno s2d fs r t Hq Hf E; cbn [apply_q q_unmarked] in *.
  - (* QBase *)
    destruct p as [|ch|st b|st tx last|sel]; cbv beta iota in E.
    + inversion E; subst. exact Hf.
    + inversion E; subst. exact (apply_proc_unmarked (PPassword ch) lineno fs I Hf).
    + inversion E; subst. exact (apply_proc_unmarked (PBeforeInput st b) lineno fs Hq Hf).
    + inversion E; subst. exact (apply_proc_unmarked (PAppend st tx last) lineno fs Hq Hf).
    + destruct (sel lineno) as [[a b]|]; [|inversion E; subst; exact Hf].
      destruct (s2d a) as [a'|]; [|discriminate]. destruct (s2d b) as [b'|]; [|discriminate].
      inversion E; subst. exact (apply_proc_unmarked (PSelect (fun _ => Some (a', b'))) lineno fs I Hf).
  - (* QSearch *)
    destruct (nonempty text && negb done); [|inversion E; subst; exact Hf].
    cbv zeta in E. destruct (crow =? lineno).
    + destruct (s2d ccol) as [c|]; [|discriminate]. inversion E; subst.
      apply search_apply_unmarked, explode_unmarked. exact Hf.
    + inversion E; subst. apply search_apply_unmarked, explode_unmarked. exact Hf.
  - (* QBracket *)
    destruct done; [inversion E; subst; exact Hf|].
    cbv zeta in E.
    match type of E with match ?X with _ => _ end = _ => destruct X as [r0|] eqn:EF; [|discriminate] end.
    inversion E; subst. eapply bracket_fold_unmarked; [|exact EF].
    intros a Ea. inversion Ea; subst. exact Hf.
  - (* QMulti *)
    destruct active; [|inversion E; subst; exact Hf].
    cbv zeta in E.
    match type of E with match ?X with _ => _ end = _ => destruct X as [r0|] eqn:EF; [|discriminate] end.
    inversion E; subst. eapply multi_fold_unmarked; [|exact EF].
    intros a Ea. inversion Ea; subst. apply explode_unmarked. exact Hf.
  - (* QTabs *)
    destruct ((ts =? 0) && _); [discriminate|]. cbv zeta in E. inversion E; subst.
    apply tabs_loop_unmarked; [exact Hq | apply explode_unmarked; exact Hf | constructor].
  - (* QLeading *)
    destruct (negb (len fs =? 0) && _); [|inversion E; subst; exact Hf].
    destruct (lead_idx _ _ _ _) as [r0|] eqn:EL; [|discriminate]. inversion E; subst.
    eapply lead_idx_unmarked; [|apply explode_unmarked; exact Hf | exact EL]. exact Hq.
  - (* QTrailing *)
    match type of E with (if ?X then _ else _) = _ => destruct X end; inversion E; subst; [|exact Hf].
    apply trail_apply_unmarked; [exact Hq | apply explode_unmarked; exact Hf].
  - (* QAfter *)
    inversion E; subst. destruct (lineno =? last); [|exact Hf].
    destruct Hq as [Hs Hb]. apply all_unmarked_app; [exact Hf | apply with_style_unmarked; assumption].
  - destruct b; [eapply IH; eassumption | inversion E; subst; exact Hf].
  - destruct b; [eapply IH; eassumption | inversion E; subst; exact Hf].
Qed.

Lemma apply_qs_unmarked : forall qs lineno s2d tr fs r, Forall q_unmarked qs -> all_unmarked fs ->
  apply_qs qs lineno s2d tr fs = Some r -> all_unmarked (fst r).
Proof.
  induction qs as [|q qs IH]; intros lineno s2d tr fs r Hq Hf E; cbn [apply_qs] in E.
  - inversion E; subst. exact Hf.
  - inversion Hq as [|? ? H1 H2]; subst.
    destruct (apply_q q lineno s2d fs) as [[fs' t]|] eqn:EQ; [|discriminate].
    eapply IH; [exact H2 | | exact E]. eapply apply_q_unmarked; eassumption.
Qed.

Lemma mapi_opt_Forall {T U} (P : U -> Prop) (f : Z -> T -> option U) :
  (forall j x y, f j x = Some y -> P y) -> forall l i r, mapi_opt f i l = Some r -> Forall P r.
Proof.
  intro H. induction l as [|x l IH]; intros i r E; cbn [mapi_opt] in E; [inversion E; constructor|].
  destruct (f i x) as [y|] eqn:Ef; [|discriminate].
  destruct (mapi_opt f (i + 1) l) as [ys|] eqn:Em; [|discriminate].
  inversion E; subst. constructor; [exact (H _ _ _ Ef) | exact (IH _ _ Em)].
Qed.

Lemma buffer_lines2_unmarked lexstyle qs text ls : unmarked_style lexstyle -> Forall q_unmarked qs ->
  buffer_lines2 lexstyle qs text = Some ls -> Forall all_unmarked ls.
Proof.
  intros Hs Hq E. unfold buffer_lines2 in E. eapply mapi_opt_Forall; [|exact E].
  intros j line y Ey. cbv beta in Ey. unfold processed_line in Ey.
  destruct (apply_qs qs j s2d_id s2d_id [(lexstyle, line)]) as [r|] eqn:EA; [|discriminate].
  inversion Ey; subst. apply all_unmarked_app; [|apply single_unmarked; exact nil_unmarked].
  eapply apply_qs_unmarked; [exact Hq | apply single_unmarked; exact Hs | exact EA].
Qed.

Lemma buffer_content_lines lexstyle qs text crow ccol ls :
  buffer_content lexstyle qs text crow ccol = Some ls -> buffer_lines2 lexstyle qs text = Some ls.
Proof.
  unfold buffer_content. intro E.
  destruct (index (split_on 10 text) crow) as [line|]; [|discriminate].
  destruct (processed_line lexstyle qs crow line) as [r|]; [|discriminate].
  destruct (snd r ccol); [exact E | discriminate].
Qed.

(* ------------------------------------------------------------ margins, menu row *)

Lemma numbered_loop_unmarked rel width cur : forall disp last acc,
  all_unmarked acc -> all_unmarked (numbered_loop rel width cur disp last acc).
Proof.
  induction disp as [|lineno r IH]; intros last acc Ha; cbn [numbered_loop]; [exact Ha|].
  destruct (negb (opt_Z_eqb lineno last)).
  - destruct lineno as [n|].
    + destruct (n =? cur); apply IH; (apply all_unmarked_app; [|apply single_unmarked; exact nil_unmarked]);
        (apply all_unmarked_app; [exact Ha | apply single_unmarked; vm_compute; reflexivity]).
    + apply IH. apply all_unmarked_app; [exact Ha | apply single_unmarked; exact nil_unmarked].
  - apply IH. apply all_unmarked_app; [exact Ha | apply single_unmarked; exact nil_unmarked].
Qed.

Lemma numbered_margin_unmarked rel til width cur disp wh : all_unmarked (numbered_margin rel til width cur disp wh).
Proof.
  unfold numbered_margin. apply all_unmarked_app; [apply numbered_loop_unmarked; constructor|].
  destruct til; [|constructor]. unfold all_unmarked. rewrite Forall_forall. intros f Hf.
  apply in_flat_map in Hf. destruct Hf as (x & _ & [Hf|[]]). subst f. vm_compute. reflexivity.
Qed.

Lemma scrollbar_margin_unmarked arrows up down wh top h : all_unmarked (scrollbar_margin arrows up down wh top h).
Proof.
  unfold scrollbar_margin. apply all_unmarked_app; [|apply all_unmarked_app].
  - destruct arrows; [|constructor]. constructor; [vm_compute; reflexivity | apply single_unmarked; vm_compute; reflexivity].
  - unfold all_unmarked. rewrite Forall_forall. intros f Hf. apply in_flat_map in Hf. destruct Hf as (n & _ & Hf).
    cbv zeta in Hf. destruct Hf as [Hf|[Hf|[]]]; subst f; [|exact nil_unmarked].
    unfold unmarked. cbn [fst].
    destruct ((top <=? Z.of_nat n) && (Z.of_nat n <=? top + h));
      destruct ((top <=? Z.of_nat n + 1) && (Z.of_nat n + 1 <=? top + h)); vm_compute; reflexivity.
  - destruct arrows; [apply single_unmarked; vm_compute; reflexivity | constructor].
Qed.

Lemma prompt_margin_unmarked prompt conts : all_unmarked prompt -> Forall all_unmarked conts ->
  all_unmarked (prompt_margin prompt conts).
Proof.
  intros Hp Hc. unfold prompt_margin. apply all_unmarked_app; [exact Hp|].
  unfold all_unmarked. rewrite Forall_forall. intros f Hf. apply in_flat_map in Hf. destruct Hf as (c & Hc' & Hf).
  destruct Hf as [Hf|Hf]; [subst f; exact nil_unmarked|].
  rewrite Forall_forall in Hc. specialize (Hc c Hc'). unfold all_unmarked in Hc. rewrite Forall_forall in Hc. exact (Hc f Hf).
Qed.

Lemma margin_lines_unmarked fs : all_unmarked fs -> Forall all_unmarked (margin_lines fs).
Proof. intro H. apply ftc_lines_unmarked; [exact nil_unmarked | exact H]. Qed.

Definition mc_item_unmarked (it : mc_item) : Prop :=
  match it with
  | Some (disp, cst, sst, _) => all_unmarked disp /\ unmarked_style cst /\ unmarked_style sst
  | None => True
  end.

Lemma slice_Forall {T} (P : T -> Prop) (l : list T) lo hi : Forall P l -> Forall P (slice l lo hi).
Proof.
  intro H. unfold slice. destruct (_ <? _); [|constructor].
  rewrite Forall_forall in *. intros x Hx. apply H. eapply skipn_In. eapply firstn_In. exact Hx.
Qed.

Lemma mc_row_unmarked wc row scroll vis cw l r m : Forall mc_item_unmarked row ->
  all_unmarked (mc_row wc row scroll vis cw l r m).
Proof.
  intro H. unfold mc_row. apply with_style_unmarked; [vm_compute; reflexivity|].
  apply all_unmarked_app; [|apply all_unmarked_app; [|apply all_unmarked_app]].
  - destruct l; [apply single_unmarked; vm_compute; reflexivity|].
    destruct r; [apply single_unmarked; exact nil_unmarked | constructor].
  - assert (G : Forall mc_item_unmarked (slice_to (slice_from row scroll) vis)) by (apply slice_Forall, slice_Forall; exact H).
    unfold all_unmarked. rewrite Forall_forall in *. intros f Hf. apply in_flat_map in Hf. destruct Hf as (it & Hit & Hf).
    specialize (G it Hit). destruct it as [[[[disp cst] sst] cur]|].
    + destruct G as (G1 & G2 & G3). pose proof (menu_item_unmarked wc cst sst disp cur cw false G2 G3 G1) as M.
      unfold all_unmarked in M. rewrite Forall_forall in M. exact (M f Hf).
    + destruct Hf as [Hf|[]]. subst f. vm_compute. reflexivity.
  - destruct (l || r); [apply single_unmarked; vm_compute; reflexivity | constructor].
  - destruct r; [apply single_unmarked; vm_compute; reflexivity|].
    destruct l; [apply single_unmarked; vm_compute; reflexivity | constructor].
Qed.

(* ------------------------------------------------------------ through the renderer *)

(* any text in a BufferControl, through ANY chain of the modelled processors, when the chain
   does not raise: nothing is sent raw, every control character of the stream is the renderer's *)
Theorem plain_buffer2_stream wc sty g lexstyle qs text crow ccol ls app width ri x y last vis :
  wc_ascii wc -> unmarked_style lexstyle -> Forall q_unmarked qs ->
  buffer_content lexstyle qs text crow ccol = Some ls ->
  forall o c, In (o, c) (tagged_stream (rendered_tokens wc sty g None ls app width ri x y last vis)) ->
  (o = FromZWE -> False) /\ (is_control c = true -> o = FromRenderer).
Proof.
  intros Hw Hs Hq E. apply unmarked_lines_stream; [exact Hw | exact I |].
  eapply buffer_lines2_unmarked; [exact Hs | exact Hq | eapply buffer_content_lines; exact E].
Qed.

Theorem numbered_margin_stream wc sty g rel til w cur disp wh app width ri x y last vis :
  wc_ascii wc ->
  forall o c, In (o, c) (tagged_stream (rendered_tokens wc sty g None
        (margin_lines (numbered_margin rel til w cur disp wh)) app width ri x y last vis)) ->
  (o = FromZWE -> False) /\ (is_control c = true -> o = FromRenderer).
Proof.
  intro Hw. apply unmarked_lines_stream; [exact Hw | exact I | apply margin_lines_unmarked, numbered_margin_unmarked].
Qed.

Theorem scrollbar_margin_stream wc sty g arrows up down wh top h app width ri x y last vis :
  wc_ascii wc ->
  forall o c, In (o, c) (tagged_stream (rendered_tokens wc sty g None
        (margin_lines (scrollbar_margin arrows up down wh top h)) app width ri x y last vis)) ->
  (o = FromZWE -> False) /\ (is_control c = true -> o = FromRenderer).
Proof.
  intro Hw. apply unmarked_lines_stream; [exact Hw | exact I | apply margin_lines_unmarked, scrollbar_margin_unmarked].
Qed.

Theorem prompt_margin_stream wc sty g prompt conts app width ri x y last vis :
  wc_ascii wc -> all_unmarked prompt -> Forall all_unmarked conts ->
  forall o c, In (o, c) (tagged_stream (rendered_tokens wc sty g None
        (margin_lines (prompt_margin prompt conts)) app width ri x y last vis)) ->
  (o = FromZWE -> False) /\ (is_control c = true -> o = FromRenderer).
Proof.
  intros Hw Hp Hc. apply unmarked_lines_stream; [exact Hw | exact I | apply margin_lines_unmarked, prompt_margin_unmarked; assumption].
Qed.

Theorem mc_rows_stream wc sty g rows scroll vis cw l r mids app width ri x y last vis' :
  wc_ascii wc -> Forall (Forall mc_item_unmarked) rows ->
  forall o c, In (o, c) (tagged_stream (rendered_tokens wc sty g None
        (map (fun rm : list mc_item * bool => mc_row wc (fst rm) scroll vis cw l r (snd rm)) (combine rows mids))
        app width ri x y last vis')) ->
  (o = FromZWE -> False) /\ (is_control c = true -> o = FromRenderer).
Proof.
  intros Hw Hr. apply unmarked_lines_stream; [exact Hw | exact I |].
  rewrite Forall_forall. intros line Hl. apply in_map_iff in Hl. destruct Hl as ([row m] & E & Hin). subst line.
  apply mc_row_unmarked. cbn [fst]. apply in_combine_l in Hin. rewrite Forall_forall in Hr. exact (Hr row Hin).
Qed.

(* find_lit is what re.finditer(re.escape(p), s) yields: in-order, non-overlapping, each a real occurrence *)
Lemma find_lit_sound pat : forall s i skip a b, In (a, b) (find_lit pat s i skip) ->
  b = a + len pat /\ i <= a /\ exists pre post, pre ++ post = s /\ len pre = a - i /\ startswith post pat = true.
Proof.
  induction s as [|c s IH]; intros i skip a b Hin; cbn [find_lit] in Hin; [destruct Hin|].
  assert (Step : forall sk, In (a, b) (find_lit pat s (i + 1) sk) ->
            b = a + len pat /\ i <= a /\ exists pre post, pre ++ post = c :: s /\ len pre = a - i /\ startswith post pat = true).
  { intros sk H. destruct (IH _ _ _ _ H) as (E1 & E2 & pre & post & E3 & E4 & E5).
    split; [exact E1|]. split; [lia|]. exists (c :: pre), post. split; [cbn [app]; rewrite E3; reflexivity|].
    split; [|exact E5]. unfold len in *. cbn [length]. lia. }
  destruct skip as [|k]; [|exact (Step _ Hin)].
  destruct (startswith (c :: s) pat) eqn:Es; [|exact (Step _ Hin)].
  destruct Hin as [Hin|Hin]; [|exact (Step _ Hin)].
  inversion Hin; subst. split; [reflexivity|]. split; [lia|]. exists [], (c :: s).
  split; [reflexivity|]. split; [unfold len; cbn [length]; lia | exact Es].
Qed.

Lemma chain_example :
  buffer_content [] [QBase (PBeforeInput [] [([], [62; 32])]); QTabs 4 [124] [46] [116]; QSearch false [98] None 0 2 false]
                 [97; 9; 98] 0 2
  = Some [[([], [62]); ([], [32]); ([], [97]); ([116], [124]);
           (search_suffix S_SEARCH_CUR, [98]); ([], [32])]].
Proof. vm_compute. reflexivity. Qed.

(* ------------------------------------------------------------ _copy_body with vertical scroll *)

Lemma copy_body_v_ok wc g M pfx lines vs vs2 s :
  wc_ascii wc -> pfx_marked M pfx -> (forall l, In l lines -> frags_marked M l) ->
  screen_ok M s -> screen_ok M (copy_body_v wc g pfx lines vs vs2 s).
Proof.
  intros Hw Hp Hl [Hd Hz]. unfold copy_body_v, screen_ok. cbn [sdata szwe].
  apply (copy_lines_ok wc g M Hw pfx (skipn (Z.to_nat vs) lines) Hp); [|exact Hd | exact Hz].
  intros l Hin. apply Hl. eapply skipn_In. exact Hin.
Qed.

Definition rendered_screen_v wc g pfx lines vs vs2 (app : option (list Z)) : screen :=
  let scr0 := copy_body_v wc g pfx lines vs vs2 blank_screen in
  match app with Some a => append_style wc a scr0 | None => scr0 end.
Definition rendered_tokens_v wc sty g pfx lines vs vs2 app width ri x y last vis : list token :=
  rev (rout (output_screen_diff wc sty width (rendered_screen_v wc g pfx lines vs vs2 app) ri (mkrs x y last vis [] false))).

Lemma rendered_screen_v_ok wc g M pfx lines vs vs2 app :
  wc_ascii wc -> pfx_marked M pfx -> (forall l, In l lines -> frags_marked M l) ->
  screen_ok M (rendered_screen_v wc g pfx lines vs vs2 app).
Proof.
  intros Hw Hp Hl. unfold rendered_screen_v.
  pose proof (copy_body_v_ok wc g M pfx lines vs vs2 blank_screen Hw Hp Hl (blank_screen_ok M)) as H.
  destruct app; [apply append_style_ok|]; exact H.
Qed.

(* C10_tokens / C10_stream / C10_raw_only_marked for any vertical scroll offsets *)
Theorem vscroll_stream wc sty g M pfx lines vs vs2 app width ri x y last vis :
  wc_ascii wc -> pfx_marked M pfx -> (forall l, In l lines -> frags_marked M l) ->
  (forall o c, In (o, c) (tagged_stream (rendered_tokens_v wc sty g pfx lines vs vs2 app width ri x y last vis)) ->
     is_control c = true -> o = FromRenderer \/ o = FromZWE) /\
  (forall t, In t (rendered_tokens_v wc sty g pfx lines vs vs2 app width ri x y last vis) ->
     (torigin t = FromZWE -> tkind t = KRaw /\ concat_of M (ttext t)) /\
     (torigin t = FromCell -> tkind t = KWrite /\ control_free (ttext t) = true)).
Proof.
  intros Hw Hp Hl.
  destruct (rendered_screen_v_ok wc g M pfx lines vs vs2 app Hw Hp Hl) as [Hd Hz].
  assert (HT : Forall (tok_ok sty (zwe_texts (rendered_screen_v wc g pfx lines vs vs2 app)))
                      (rendered_tokens_v wc sty g pfx lines vs vs2 app width ri x y last vis)).
  { unfold rendered_tokens_v. apply Forall_rev. apply output_screen_diff_ok; [exact Hd | apply incl_refl | constructor]. }
  split; [eapply tagged_stream_control; exact HT|].
  intros t Ht. rewrite Forall_forall in HT. specialize (HT t Ht). unfold tok_ok in HT.
  destruct (torigin t) eqn:E.
  - split; [discriminate | intros _; exact HT].
  - split; discriminate.
  - split; [|discriminate]. intros _. destruct HT as [Hk H]. split; [exact Hk|]. apply (zwe_texts_ok M _ Hz). exact H.
Qed.
