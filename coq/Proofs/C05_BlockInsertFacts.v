(* C05: entering insert-multiple mode from a BLOCK selection leaves the
   multiple cursors sorted and inside the text (MWF), so the invariant theorem
   of the five editing handlers (C05_multicursor_inv) applies from there on. *)
From Coq Require Import ZArith List Bool Lia.
From PTK Require Import Lib.Sx Lib.Py Model.Document Model.BufferEdit Model.C08_ViOps Model.C05_Editor
  Model.C05_BlockInsert Proofs.C05_EditorFacts Proofs.C05_MultiCursor Proofs.C02_Base Proofs.C02_Coords.
Import ListNotations.
Open Scope Z_scope.

(* the end of a line lies before the start of every later line *)
Lemma starts_gap : forall ls pos (a b : nat),
  (a < b < length ls)%nat -> nth a (starts ls pos) 0 + len (nth a ls []) < nth b (starts ls pos) 0.
Proof.
  induction ls as [|l r IH]; intros pos a b [Hab Hb]; cbn [length] in Hb; [lia|].
  destruct b as [|b]; [lia|].
  destruct a as [|a]; cbn [starts nth].
  - destruct (starts_nth_bound r (pos + len l + 1) b ltac:(lia)) as [I1 _]. lia.
  - apply IH. lia.
Qed.

Definition T (d : doc) (l col : Z) : Z := translate_row_col_to_index d l col.
Definition start_of (d : doc) (l : Z) : Z := nth (Z.to_nat l) (starts (lines d) 0) 0.

Lemma T_row d l col : 0 <= l < line_count d ->
  start_of d l <= T d l col <= start_of d l + len (nth (Z.to_nat l) (lines d) []).
Proof.
  intros H. unfold T, start_of. rewrite C02c_row_col_to_index_row_valid by exact H.
  pose proof (len_nonneg (nth (Z.to_nat l) (lines d) [])). lia.
Qed.

Lemma start_next d l : 0 <= l -> l + 1 < line_count d ->
  start_of d l + len (nth (Z.to_nat l) (lines d) []) < start_of d (l + 1).
Proof.
  intros H0 H1. unfold start_of. apply starts_gap. unfold line_count, len in H1. lia.
Qed.

(* one position (or none) per row, each on its row *)
Lemma rows_sorted d (f : Z -> list Z) :
  (forall l p, In p (f l) -> exists col, f l = [T d l col]) ->
  forall k a lo, 0 <= a -> a + Z.of_nat k <= line_count d -> lo <= start_of d a ->
  msorted lo (flat_map f (range_from a k)) /\ upto (len (dtext d)) (flat_map f (range_from a k)).
Proof.
  intros Hf. induction k as [|k IH]; intros a lo Ha Hk Hlo; cbn [range_from flat_map].
  - split; [exact I|intros p []].
  - assert (Hrow : 0 <= a < line_count d) by lia.
    assert (Hnext : forall lo', lo' <= start_of d a + len (nth (Z.to_nat a) (lines d) []) ->
              msorted lo' (flat_map f (range_from (a + 1) k)) /\ upto (len (dtext d)) (flat_map f (range_from (a + 1) k))).
    { intros lo' Hlo'. destruct k as [|k'].
      - cbn [range_from flat_map]. split; [exact I|intros p []].
      - apply IH; [lia|lia|]. pose proof (start_next d a ltac:(lia) ltac:(lia)). lia. }
    destruct (f a) as [|p rest] eqn:Efa.
    + cbn [app]. apply Hnext. pose proof (len_nonneg (nth (Z.to_nat a) (lines d) [])). lia.
    + destruct (Hf a p ltac:(rewrite Efa; now left)) as [col Ec]. rewrite Efa in Ec. injection Ec as -> ->.
      cbn [app]. destruct (T_row d a col Hrow) as [B1 B2]. destruct (Hnext (T d a col) B2) as [S1 U1].
      split; [split; [lia|exact S1]|].
      intros q [<-|Hq]; [|now apply U1]. unfold T. apply C02c_row_col_to_index_bounds.
Qed.

Lemma map_flat_map {A B C} (g : B -> C) (f : A -> list B) l :
  map g (flat_map f l) = flat_map (fun x => map g (f x)) l.
Proof. induction l as [|x r IH]; cbn [flat_map map]; [reflexivity|]. now rewrite map_app, IH. Qed.

(* the positions of a BLOCK selection *)
Lemma block_positions_wf text c o (after : bool) :
  0 <= c <= len text -> 0 <= o <= len text ->
  let ps := map (fun r : Z * Z => if after then snd r else fst r) (selection_ranges text c o 2) in
  msorted 0 ps /\ upto (len text) ps.
Proof.
  intros Hc Ho. cbv zeta. unfold selection_ranges. change (2 =? 2) with true. cbv iota.
  set (d := mkdoc text c).
  destruct (translate_index_to_position d (Z.min c o)) as [fl fc0] eqn:E1.
  destruct (translate_index_to_position d (Z.max c o)) as [tl tc0] eqn:E2.
  assert (Hd : len (dtext d) = len text) by reflexivity.
  assert (Hmin : 0 <= Z.min c o <= len (dtext d)) by (rewrite Hd; lia).
  assert (Hmax : 0 <= Z.max c o <= len (dtext d)) by (rewrite Hd; lia).
  destruct (C02c_index_to_position_spec d (Z.min c o) fl fc0 Hmin E1) as (_ & _ & _ & _ & Hfl & _).
  destruct (C02c_index_to_position_spec d (Z.max c o) tl tc0 Hmax E2) as (_ & _ & _ & _ & Htl & _).
  rewrite map_flat_map.
  set (f := fun l : Z => map (fun r : Z * Z => if after then snd r else fst r) _).
  change (len text) with (len (dtext d)).
  apply (rows_sorted d f).
  - intros l p Hp. unfold f in *.
    destruct (Z.min fc0 tc0 <=? len (line_at d l)); cbn [map] in *; [|destruct Hp].
    destruct after; eexists; reflexivity.
  - lia.
  - lia.
  - unfold start_of. destruct (starts_nth_bound (lines d) 0 (Z.to_nat fl)) as [I1 _]; [unfold line_count, len in Hfl; lia|exact I1].
Qed.

Lemma enter_insert_multiple_wf after s o :
  EInv s -> esel s = Some (o, 2) ->
  exists s', insert_in_block_selection after s = EOk s' /\ MWF s' /\ EInv s' /\
             vmode s' = M_INSERT_MULTIPLE /\ esel s' = None /\ et s' = et s.
Proof.
  intros [HC HS] Hsel. unfold insert_in_block_selection, sel_ranges. rewrite Hsel.
  pose proof (block_positions_wf (et s) (ec s) o after HC (HS o 2 Hsel)) as W. cbv zeta in W.
  set (ps := map _ (selection_ranges (et s) (ec s) o 2)) in *.
  set (s1 := match ps with p :: _ => set_cursor s p | [] => s end).
  assert (H1 : EInv s1 /\ et s1 = et s).
  { unfold s1. destruct ps; [split; [split; assumption|reflexivity]|split; [apply set_cursor_inv, HS|apply set_cursor_text]]. }
  destruct H1 as [[HC1 HS1] Ht1].
  eexists. split; [reflexivity|].
  split; [|split; [|split; [reflexivity|split; [reflexivity|exact Ht1]]]].
  - unfold MWF. cbn. rewrite Ht1. exact W.
  - split; [exact HC1|]. intros a t E. discriminate.
Qed.

(* ... through _call_handler *)
Lemma call_block_insert_wf after s o :
  EInv s -> esel s = Some (o, 2) ->
  exists s', call_block_insert after s = EOk s' /\ MWF s' /\ EInv s' /\ vmode s' = M_INSERT_MULTIPLE.
Proof.
  intros H Hsel. destruct (enter_insert_multiple_wf after s o H Hsel) as (s1 & E & W & I & M & _ & _).
  unfold call_block_insert. rewrite E.
  destruct (fix_vi_text_mc s1) as [Ft Fm]. destruct (fix_vi_vi s1) as (Fv & _).
  pose proof (fix_vi_inv s1 I) as FI.
  pose proof (MWF_same s1 (fix_vi_cursor_position s1) Ft Fm W) as FW.
  set (s2 := fix_vi_cursor_position s1) in *.
  destruct (vtemp s && evi s2 && negb (vop s2)); eexists; (split; [reflexivity|]).
  - split; [apply (MWF_same s2); [reflexivity|reflexivity|exact FW]|].
    split; [now apply with_vi_inv|]. cbn [vmode with_vi]. congruence.
  - split; [exact FW|]. split; [exact FI|congruence].
Qed.

(* entering the mode and then any sequence of the five editing keys *)
Lemma enter_then_edit_wf after s o ks :
  EInv s -> esel s = Some (o, 2) ->
  (forall h a d, In (h, a, d) ks -> multi_handler h /\ (h = HViInsertMulti -> 1 <= len d)) ->
  MWF (fold_left mstep ks (eres_st (call_block_insert after s))).
Proof.
  intros H Hsel Hk. destruct (call_block_insert_wf after s o H Hsel) as (s' & E & W & _).
  rewrite E. cbn [eres_st]. now apply multi_steps_wf.
Qed.
