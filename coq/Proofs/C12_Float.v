(* C12 - take_using_weights compares `already_taken < i*weight/float(max_weight)`
   in binary64.  For 0 <= i*weight < 2^53 and 0 < max_weight < 2^53 that
   comparison is the exact one used by the model (Model eligible):
   taken * max_weight < i * weight.
   Python: int*int is exact; int/float converts the int (exact below 2^53)
   and divides with one correct rounding to nearest-even; int < float
   compares exactly.  Uses Flocq and the Coq reals (their standard axioms). *)
From Coq Require Import ZArith Reals Lia Lra List.
From Flocq Require Import Core Relative.
From PTK Require Import Lib.Sx Model.C12_Divide.
Open Scope R_scope.

Definition fexp64 := FLT_exp (-1074) 53.
Definition rnd64 (x : R) : R := round radix2 fexp64 ZnearestE x.

Local Instance prec53 : Prec_gt_0 53.
Proof. reflexivity. Qed.

Definition P53 : Z := 9007199254740992.

Lemma int_format : forall n, (Z.abs n < P53)%Z -> generic_format radix2 fexp64 (IZR n).
Proof.
  intros n Hn. apply generic_format_FLT.
  apply FLT_spec with (Float radix2 n 0).
  - unfold F2R. simpl. ring.
  - simpl. exact Hn.
  - simpl. lia.
Qed.

Theorem float_division_compare_exact : forall t a b : Z,
  (0 <= a < P53)%Z -> (0 < b < P53)%Z ->
  (IZR t < rnd64 (IZR a / IZR b) <-> (t * b < a)%Z).
Proof.
  intros t a b Ha Hb.
  assert (HB : 0 < IZR b) by (apply IZR_lt; lia).
  assert (HB1 : 1 <= IZR b) by (apply IZR_le; lia).
  assert (HA0 : 0 <= IZR a) by (apply IZR_le; lia).
  assert (HAP : IZR a <= IZR P53 - 1) by (rewrite <- minus_IZR; apply IZR_le; lia).
  assert (HBP : IZR b <= IZR P53 - 1) by (rewrite <- minus_IZR; apply IZR_le; lia).
  assert (HP : IZR P53 = 9007199254740992) by reflexivity.
  set (q := IZR a / IZR b).
  assert (Hq : q * IZR b = IZR a) by (unfold q; field; lra).
  assert (Hq0 : 0 <= q) by (unfold q; apply Rmult_le_pos; [lra|apply Rlt_le, Rinv_0_lt_compat; lra]).
  split.
  - (* float says less => exactly less *)
    intro Hlt. destruct (Z_lt_le_dec (t * b) a) as [|Hge]; [assumption|]. exfalso.
    assert (Ht0 : (0 <= t)%Z) by nia.
    set (t' := Z.min t (P53 - 1)).
    assert (Hfmt : generic_format radix2 fexp64 (IZR t')) by (apply int_format; unfold t'; lia).
    assert (Hqt : q <= IZR t').
    { assert (H1 : q <= IZR t).
      { assert (IZR a <= IZR t * IZR b) by (rewrite <- mult_IZR; apply IZR_le; lia).
        apply Rmult_le_reg_r with (IZR b); [lra|]. lra. }
      assert (H2 : q <= IZR P53 - 1).
      { apply Rmult_le_reg_r with (IZR b); [lra|]. rewrite Hq. nra. }
      unfold t'. destruct (Z.min_spec t (P53 - 1)) as [[_ ->]|[_ ->]]; [exact H1|]. rewrite minus_IZR. exact H2. }
    assert (Hr : rnd64 q <= IZR t') by (apply round_le_generic; [apply FLT_exp_valid; exact prec53|apply valid_rnd_N|exact Hfmt|exact Hqt]).
    assert (IZR t' <= IZR t) by (apply IZR_le; unfold t'; lia).
    lra.
  - (* exactly less => float says less *)
    intro Hlt.
    destruct (Z_lt_le_dec t 0) as [Hneg|Hpos].
    + assert (0 <= rnd64 q).
      { apply round_ge_generic; [apply FLT_exp_valid; exact prec53|apply valid_rnd_N|apply generic_format_0|exact Hq0]. }
      assert (IZR t < 0) by (apply IZR_lt; lia). lra.
    + assert (Ha1 : (1 <= a)%Z) by nia.
      assert (HtP : (t < P53)%Z) by nia.
      assert (Hfmt : generic_format radix2 fexp64 (IZR t)) by (apply int_format; lia).
      assert (Hgap : 1 <= (q - IZR t) * IZR b).
      { assert (IZR t * IZR b + 1 <= IZR a) by (rewrite <- mult_IZR, <- plus_IZR; apply IZR_le; lia).
        rewrite Rmult_minus_distr_r, Hq. lra. }
      assert (Htq : IZR t <= q).
      { apply Rmult_le_reg_r with (IZR b); [lra|]. rewrite Rmult_minus_distr_r in Hgap. lra. }
      assert (Hge : IZR t <= rnd64 q).
      { apply round_ge_generic; [apply FLT_exp_valid; exact prec53|apply valid_rnd_N|exact Hfmt|exact Htq]. }
      destruct (Rlt_le_dec (IZR t) (rnd64 q)) as [|Hle]; [assumption|]. exfalso.
      assert (Heq : rnd64 q = IZR t) by lra.
      (* relative error of the rounding *)
      assert (Hqpos : 0 < q).
      { apply Rmult_lt_reg_r with (IZR b); [lra|]. rewrite Hq. assert (1 <= IZR a) by (apply IZR_le; lia). lra. }
      assert (Hsmall : bpow radix2 (-1074 + 53 - 1) <= Rabs q).
      { rewrite Rabs_pos_eq by lra.
        apply Rle_trans with (bpow radix2 (-53)); [apply bpow_le; lia|].
        change (bpow radix2 (-53)) with (/ IZR P53).
        apply Rmult_le_reg_r with (IZR b); [lra|]. rewrite Hq.
        assert (1 <= IZR a) by (apply IZR_le; lia).
        assert (/ IZR P53 * IZR b <= 1); [|lra].
        apply Rmult_le_reg_l with (IZR P53); [lra|]. rewrite <- Rmult_assoc, Rinv_r by lra. lra. }
      pose proof (relative_error_N_FLT radix2 (-1074) 53 prec53 (fun x => negb (Z.even x)) q Hsmall) as Herr.
      fold fexp64 in Herr. change (round radix2 fexp64 (Znearest (fun x => negb (Z.even x))) q) with (rnd64 q) in Herr.
      rewrite Heq in Herr. rewrite (Rabs_pos_eq q) in Herr by lra.
      rewrite Rabs_minus_sym, Rabs_pos_eq in Herr by lra.
      assert (Hb52 : bpow radix2 (- (53) + 1) = / 4503599627370496) by reflexivity.
      rewrite Hb52 in Herr.
      assert (Hd : q - IZR t <= q / IZR P53) by (rewrite HP; lra).
      assert (H1 : (q - IZR t) * IZR b <= q / IZR P53 * IZR b) by (apply Rmult_le_compat_r; lra).
      replace (q / IZR P53 * IZR b) with (IZR a / IZR P53) in H1 by (rewrite <- Hq; field; lra).
      assert (IZR a / IZR P53 < 1).
      { apply Rmult_lt_reg_r with (IZR P53); [lra|]. unfold Rdiv. rewrite Rmult_assoc, Rinv_l by lra. lra. }
      lra.
Qed.

(* the generator's test as Python evaluates it = the model's [eligible] *)
Theorem eligible_is_float_test : forall g k,
  (0 <= g_i g * nth k (g_weights g) 0%Z < P53)%Z -> (0 < g_maxw g < P53)%Z ->
  (IZR (nth k (g_taken g) 0%Z) < rnd64 (IZR (g_i g * nth k (g_weights g) 0%Z) / IZR (g_maxw g))
   <-> eligible g k = true).
Proof.
  intros g k H1 H2. unfold eligible. rewrite Z.ltb_lt.
  apply float_division_compare_exact; assumption.
Qed.
