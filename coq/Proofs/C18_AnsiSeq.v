(* C18 - ANSI(s) is, fragment for fragment and style for style, the
   denotation of the token sequence of s (Model/C18_AnsiSeq.v): the parser
   state is threaded through ANY number of escape sequences. *)
From Coq Require Import ZArith List Bool Lia.
From PTK Require Import Lib.Sx Lib.Py Gen.C18_Tables Model.C18_Fragments Model.C18_Ansi Model.C18_AnsiGrammar
  Model.C18_AnsiSeq Proofs.C18_FragmentsFacts Proofs.C18_AnsiFacts Proofs.C18_AnsiStrip.
Import ListNotations.
Open Scope Z_scope.

(* the parser's style string is always the rendering of its SGR flags *)
Definition synced (st : pst) : Prop := p_style st = create_style_string (p_sgr st).

Lemma synced0 : synced pst0.
Proof. reflexivity. Qed.

(* ---------------------------------------------------------------------- *)
(* parameters, exactly *)

Lemma R_params_exact st : forall ps cur params,
  forallb pch ps = true ->
  exists cur' params',
    run cfg_now (with_mode st (Csi cur params)) ps = Ok (with_mode st (Csi cur' params'), []) /\
    params' ++ [conv cur'] = params ++ map conv (split_fields ps cur).
Proof.
  induction ps as [|c r IH]; intros cur params Hp.
  - exists cur, params. split; reflexivity.
  - cbn [forallb] in Hp. apply andb_true_iff in Hp. destruct Hp as [Hc Hr].
    destruct (is_ascii_digit c) eqn:Ed.
    + destruct (IH (cur ++ [c]) params Hr) as (cur' & params' & Hrun & Hh).
      exists cur', params'. split.
      * cbn [run]. rewrite (step_csi_digit st cur params c Ed).
        change (with_mode (with_mode st (Csi cur params)) (Csi (cur ++ [c]) params))
          with (with_mode st (Csi (cur ++ [c]) params)).
        rewrite Hrun. reflexivity.
      * rewrite Hh. cbn [split_fields].
        assert ((c =? 59) = false) as ->; [|reflexivity].
        apply Z.eqb_neq. intros ->. discriminate.
    + unfold pch in Hc. rewrite Ed in Hc. cbn [orb] in Hc. apply Z.eqb_eq in Hc. subst c.
      destruct (IH [] (params ++ [conv cur]) Hr) as (cur' & params' & Hrun & Hh).
      exists cur', params'. split.
      * cbn [run]. rewrite step_csi_semi.
        change (with_mode (with_mode st (Csi cur params)) (Csi [] (params ++ [conv cur])))
          with (with_mode st (Csi [] (params ++ [conv cur]))).
        rewrite Hrun. reflexivity.
      * rewrite Hh. cbn [split_fields]. change (59 =? 59) with true. cbn iota. cbn [map].
        now rewrite <- app_assoc.
Qed.

(* the final character of a control sequence *)
Definition csi_final (st : pst) (params : list Z) (fin : Z) : pst * list frag :=
  if fin =? 109 then
    (let g := select_graphic_rendition params (p_sgr st) in mkpst Ground (create_style_string g) g, [])
  else if fin =? 67 then (with_mode st Ground, spaces (p_style st) (Z.to_nat (hd 0 params)))
  else (with_mode st Ground, []).

Lemma R_final_exact st cur params fin :
  pch fin = false ->
  step cfg_now (with_mode st (Csi cur params)) fin = Ok (csi_final st (params ++ [conv cur]) fin).
Proof.
  intros Hp. unfold pch in Hp. apply orb_false_iff in Hp. destruct Hp as [Hd H59].
  unfold step, csi_final. cbn [p_mode with_mode]. unfold csi_isdigit, csi_int. cbn [cfg_ascii_digits cfg_now].
  rewrite Hd, H59. fold (conv cur).
  destruct (fin =? 109); [reflexivity|]. destruct (fin =? 67); reflexivity.
Qed.

Lemma R_csi_exact st e ps fin :
  p_mode st = Ground -> forallb pch ps = true -> pch fin = false ->
  run cfg_now st (csi_intro e ++ ps ++ [fin]) = Ok (csi_final st (csi_params ps) fin).
Proof.
  intros Hm Hps Hfin.
  destruct (R_params_exact st ps [] [] Hps) as (cur' & params' & Hrun & Hh).
  rewrite run_app, (R_intro st e Hm), run_app, Hrun. cbn [run].
  rewrite (R_final_exact st cur' params' fin Hfin), Hh. cbn [app].
  unfold csi_params. destruct (csi_final st (map conv (split_fields ps [])) fin). now rewrite app_nil_r.
Qed.

(* ... is what the token denotes *)
Lemma csi_final_sem st e ps fin :
  p_mode st = Ground -> synced st ->
  let r := csi_final st (csi_params ps) fin in
  p_mode (fst r) = Ground /\ synced (fst r) /\
  p_sgr (fst r) = tok_sgr (p_sgr st) (TCsi e ps fin) /\
  snd r = tok_out (p_sgr st) (TCsi e ps fin).
Proof.
  intros Hm Hs. unfold csi_final. cbn [tok_sgr tok_out]. cbn zeta.
  destruct (fin =? 109) eqn:E1.
  - assert (fin =? 67 = false) as -> by (apply Z.eqb_eq in E1; subst; reflexivity).
    cbn [fst snd p_mode p_sgr]. repeat split.
  - rewrite (with_mode_ground st Hm). cbn [fst snd]. rewrite <- Hs.
    destruct (fin =? 67); repeat split; assumption.
Qed.

(* ---------------------------------------------------------------------- *)
(* all tokens *)

Lemma run_tokens_sem : forall f s st,
  (length s <= f)%nat -> p_mode st = Ground -> synced st ->
  exists st', run cfg_now st s = Ok (st', sem (p_sgr st) (tokenize f s)).
Proof.
  induction f as [|f IH]; intros s st Hl Hm Hs.
  - destruct s; [|cbn in Hl; lia]. exists st. reflexivity.
  - destruct s as [|c r]; [exists st; reflexivity|]. cbn [length] in Hl. cbn [tokenize].
    destruct (c =? SOH) eqn:E1.
    { apply Z.eqb_eq in E1. subst c. destruct (break_at STX r) as [[b r']|] eqn:Eb.
      - pose proof (break_at_len _ _ _ _ Eb). destruct (break_at_some _ _ _ _ Eb) as [-> Hb].
        destruct (IH r' st ltac:(lia) Hm Hs) as (st' & Hrun).
        exists st'.
        replace (SOH :: b ++ STX :: r') with ((SOH :: b ++ [STX]) ++ r')
          by (cbn [app]; now rewrite <- app_assoc).
        rewrite run_app, (ansi_zero_width_region_now st b Hm Hb), Hrun. reflexivity.
      - destruct (R_tail_zw st r Hm (break_at_none _ _ Eb)) as [st' Hrun].
        exists st'. rewrite Hrun. reflexivity. }
    destruct (c =? ESC) eqn:E2.
    { apply Z.eqb_eq in E2. subst c. destruct r as [|x r1].
      - destruct (R_tail_esc st Hm) as [st' Hrun]. exists st'. rewrite Hrun. reflexivity.
      - destruct (x =? 91) eqn:E3.
        + apply Z.eqb_eq in E3. subst x.
          pose proof (span_app pch r1) as Hsp. pose proof (span_all pch r1) as Hall.
          destruct (snd (span pch r1)) as [|fin r2] eqn:Es.
          * rewrite app_nil_r in Hsp. rewrite Hsp in Hall.
            destruct (R_tail_csi st false r1 Hm Hall) as [st' Hrun].
            exists st'. change (ESC :: 91 :: r1) with (csi_intro false ++ r1). rewrite Hrun. reflexivity.
          * pose proof (span_stop pch r1 fin r2 Es) as Hfin.
            pose proof (span_snd_len pch r1) as Hlen. rewrite Es in Hlen. cbn [length] in *.
            pose proof (R_csi_exact st false (fst (span pch r1)) fin Hm Hall Hfin) as Hrun1.
            destruct (csi_final_sem st false (fst (span pch r1)) fin Hm Hs) as (Hm1 & Hs1 & Hg1 & Ho1).
            destruct (csi_final st (csi_params (fst (span pch r1))) fin) as [st1 o1]. cbn [fst snd] in *.
            destruct (IH r2 st1 ltac:(lia) Hm1 Hs1) as (st' & Hrun).
            exists st'.
            replace (ESC :: 91 :: r1) with ((csi_intro false ++ fst (span pch r1) ++ [fin]) ++ r2).
            -- rewrite run_app, Hrun1, Hrun. cbn [sem]. now rewrite Hg1, Ho1.
            -- rewrite <- Hsp at 2. cbn [csi_intro app]. now rewrite <- !app_assoc.
        + destruct (IH r1 st ltac:(cbn [length] in Hl; lia) Hm Hs) as (st' & Hrun).
          exists st'. change (ESC :: x :: r1) with ([ESC; x] ++ r1).
          rewrite run_app, (R_esc2 st x Hm E3), Hrun. reflexivity. }
    destruct (c =? CSI8) eqn:E4.
    { apply Z.eqb_eq in E4. subst c.
      pose proof (span_app pch r) as Hsp. pose proof (span_all pch r) as Hall.
      destruct (snd (span pch r)) as [|fin r2] eqn:Es.
      - rewrite app_nil_r in Hsp. rewrite Hsp in Hall.
        destruct (R_tail_csi st true r Hm Hall) as [st' Hrun].
        exists st'. change (CSI8 :: r) with (csi_intro true ++ r). rewrite Hrun. reflexivity.
      - pose proof (span_stop pch r fin r2 Es) as Hfin.
        pose proof (span_snd_len pch r) as Hlen. rewrite Es in Hlen. cbn [length] in *.
        pose proof (R_csi_exact st true (fst (span pch r)) fin Hm Hall Hfin) as Hrun1.
        destruct (csi_final_sem st true (fst (span pch r)) fin Hm Hs) as (Hm1 & Hs1 & Hg1 & Ho1).
        destruct (csi_final st (csi_params (fst (span pch r))) fin) as [st1 o1]. cbn [fst snd] in *.
        destruct (IH r2 st1 ltac:(lia) Hm1 Hs1) as (st' & Hrun).
        exists st'.
        replace (CSI8 :: r) with ((csi_intro true ++ fst (span pch r) ++ [fin]) ++ r2).
        + rewrite run_app, Hrun1, Hrun. cbn [sem]. now rewrite Hg1, Ho1.
        + rewrite <- Hsp at 2. cbn [csi_intro app]. now rewrite <- !app_assoc. }
    assert (Hi : is_intro c = false) by (unfold is_intro; now rewrite E2, E4, E1).
    destruct (IH r st ltac:(lia) Hm Hs) as (st' & Hrun).
    exists st'. cbn [run]. rewrite (step_ground_inert cfg_now st c Hm Hi), Hrun.
    cbn [sem tok_out tok_sgr app]. now rewrite <- Hs.
Qed.

(* ANSI(s) = the denotation of the token sequence of s: every fragment with
   its style, for every string s. *)
Theorem ansi_sequence s : ansi_parse cfg_now s = Ok (ansi_sem s).
Proof.
  destruct (run_tokens_sem (length s) s pst0 (le_n _) eq_refl synced0) as (st' & Hrun).
  unfold ansi_parse, ansi_sem, tokens. now rewrite Hrun.
Qed.

(* ---------------------------------------------------------------------- *)
(* the semantics is compositional: the state after a prefix of tokens is all
   that the rest depends on *)

Lemma sem_app g a b : sem g (a ++ b) = sem g a ++ sem (sgr_after g a) b.
Proof.
  revert g. induction a as [|t r IH]; intros g; [reflexivity|].
  cbn [app sem sgr_after]. now rewrite IH, app_assoc.
Qed.

(* tokens that are not SGR sequences (text, cursor-forward, ESC x, zero-width
   regions, unsupported sequences) never change the state *)
Definition is_sgr (t : token) : bool := match t with TCsi _ _ fin => fin =? 109 | _ => false end.

Lemma sgr_after_no_sgr g ts : forallb (fun t => negb (is_sgr t)) ts = true -> sgr_after g ts = g.
Proof.
  revert g. induction ts as [|t r IH]; intros g H; [reflexivity|].
  cbn [forallb] in H. apply andb_true_iff in H. destruct H as [Ht Hr].
  cbn [sgr_after]. assert (tok_sgr g t = g) as ->; [|now apply IH].
  destruct t; try reflexivity. cbn [is_sgr] in Ht. apply negb_true_iff in Ht. cbn [tok_sgr]. now rewrite Ht.
Qed.

(* so text after `SGR ; any number of non-SGR tokens` still carries the SGR's style,
   and cursor-forward after an SGR shows its spaces in that style *)
Corollary sem_style_persists g e ps mid c :
  forallb (fun t => negb (is_sgr t)) mid = true ->
  exists o, sem g (TCsi e ps 109 :: mid ++ [TChar c])
            = o ++ [mkfrag (create_style_string (select_graphic_rendition (csi_params ps) g)) [c] []].
Proof.
  intros H. cbn [sem tok_out tok_sgr]. change (109 =? 67) with false. change (109 =? 109) with true. cbn iota.
  rewrite sem_app, (sgr_after_no_sgr _ mid H). cbn [sem tok_out app]. eexists. reflexivity.
Qed.

Corollary sem_cuf_after_sgr g e1 ps1 e2 ps2 :
  sem g [TCsi e1 ps1 109; TCsi e2 ps2 67]
  = spaces (create_style_string (select_graphic_rendition (csi_params ps1) g)) (Z.to_nat (hd 0 (csi_params ps2))).
Proof.
  cbn [sem tok_out tok_sgr]. change (109 =? 67) with false. change (109 =? 109) with true.
  change (67 =? 67) with true. cbn iota. cbn [app]. now rewrite app_nil_r.
Qed.

(* ESC [ 1 ; 31 m a ESC [ 2 C ESC c b \x9b 0 m c: bold red 'a', two bold red
   spaces, ESC c dropped, bold red 'b', reset, plain 'c' *)
Example ansi_sequence_example :
  map (fun f => (fstyle f, ftext f))
      (ansi_sem [27; 91; 49; 59; 51; 49; 109; 97; 27; 91; 50; 67; 27; 99; 98; 155; 48; 109; 99])
  = let br := [97; 110; 115; 105; 114; 101; 100; 32; 98; 111; 108; 100] in
    [(br, [97]); (br, [32]); (br, [32]); (br, [98]); ([], [99])].
Proof. vm_compute. reflexivity. Qed.
