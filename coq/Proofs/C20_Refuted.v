(* C20 - schedules on which the faithful model violates the property text.
   Every witness is a list of labels each of which is enabled when taken. *)
From Coq Require Import ZArith List Bool.
From PTK Require Import Lib.Sx Model.C20_StdoutProxy Proofs.C20_Order.
Import ListNotations.
Open Scope Z_scope.

Definition ta : text := [97; 10].   (* "a\n" *)
Definition tb : text := [98; 10].   (* "b\n" *)
Definition batch : list label := [LFGet; LFNowait; LFChoose; LFDeliver].

(* start race: the flush thread reads "no application", the application
   starts and draws, the flush thread writes into the drawn prompt *)
Definition w_start : list label :=
  [LW 0 ta; LFGet; LFNowait; LFChoose; LAppStart; LFDeliver].

Lemma start_race : all_enabled (init true) w_start = true /\
  forallb ev_ok (out (run (init true) w_start)) = false /\
  brk_run (out (run (init true) w_start)) = None.
Proof. vm_compute. repeat split. Qed.

(* application in a non-default AppSession (repaired by acce0d8: the callback
   runs in a copy of the proxy creator's context): bracketed like in the
   default session *)
Definition w_ctx : list label := LW 0 ta :: batch ++ [LLoopStep].

Lemma ctx_bracketed : forallb no_lifecycle w_ctx = true /\
  all_enabled (init_running false) w_ctx = true /\
  forallb ev_ok (out (run (init_running false) w_ctx)) = true /\
  brk_run (out (run (init_running false) w_ctx)) = Some false /\
  out_text (run (init_running false) w_ctx) = ta.
Proof. vm_compute. repeat split. Qed.

(* exit while somebody else's in_terminal section is open (repaired by
   e58361b: in_terminal chains while an earlier section is pending, run_async
   waits until the chain is empty): the later text no longer overtakes *)
Definition w_exit : list label :=
  [LAppStart; LExtBegin; LW 0 ta] ++ batch ++ [LLoopStep; LAppExit; LW 0 tb] ++ batch ++
  [LLoopStep; LExtEnd; LWake 0; LWake 0; LAppStop].

Lemma exit_in_order : all_enabled (init true) w_exit = true /\
  stream w_exit = ta ++ tb /\ out_text (run (init true) w_exit) = ta ++ tb /\
  lost (run (init true) w_exit) = [] /\
  pipeline (run (init true) w_exit) = out_text (run (init true) w_exit).
Proof. vm_compute. repeat split. Qed.

(* stop race: the flush thread reads the loop of a running application, the
   application ends, the callback lands on a loop nobody runs; the next text
   overtakes it; when the loop is closed the text is gone.  The flush thread
   exits normally. *)
Definition w_stop : list label :=
  [LAppStart; LW 0 ta; LFGet; LFNowait; LFChoose; LAppExit; LAppStop; LFDeliver; LW 0 tb] ++ batch ++
  [LFlush 0; LClose; LFGet; LFGet; LLoopClose].

Lemma stop_race : all_enabled (init true) w_stop = true /\
  fth (px (run (init true) w_stop)) = FExit /\
  stream w_stop = ta ++ tb /\ out_text (run (init true) w_stop) = tb /\
  lost (run (init true) w_stop) = [ta].
Proof. vm_compute. repeat split. Qed.

(* same race, loop already closed when the flush thread calls
   call_soon_threadsafe (repaired by aa2fd63: RuntimeError is caught, the text
   is written directly): the flush thread lives on and delivers everything *)
Definition w_crash : list label :=
  [LAppStart; LW 0 ta; LFGet; LFNowait; LFChoose; LAppExit; LAppStop; LLoopClose; LFDeliver;
   LW 0 tb; LFlush 0; LClose; LFGet; LFNowait; LFNowait; LFNowait; LFChoose; LFDeliver].

Lemma closed_loop_ok : all_enabled (init true) w_crash = true /\
  fth (px (run (init true) w_crash)) = FExit /\
  out_text (run (init true) w_crash) = ta ++ tb /\ lost (run (init true) w_crash) = [] /\
  drained (run (init true) w_crash).
Proof. vm_compute. repeat split. Qed.

(* the hypotheses of the positive theorems are satisfiable: a complete run
   (two threads, partial lines, flush, close) that ends drained *)
Definition w_ok : list label :=
  [LW 0 [120]; LW 1 [121; 10; 122]; LW 0 [10]; LFGet; LFNowait] ++ List.tl batch ++ [LFlush 1; LClose; LFGet; LFGet].

Lemma ok_noapp : forallb no_lifecycle w_ok = true /\ all_enabled (init true) w_ok = true /\
  drained (run (init true) w_ok) /\ out_text (run (init true) w_ok) = [120; 121; 10; 122; 10].
Proof. vm_compute. repeat split. Qed.

Definition w_ok_running : list label :=
  [LW 0 [120]; LW 1 [121; 10; 122]; LW 0 [10]; LFGet; LFNowait] ++ List.tl batch ++ [LExtBegin; LLoopStep; LExtEnd; LWake 0; LRender].

Lemma ok_running : forallb no_lifecycle w_ok_running = true /\
  all_enabled (init_running true) w_ok_running = true /\
  drained (run (init_running true) w_ok_running) /\
  out_text (run (init_running true) w_ok_running) = [120; 121; 10; 122; 10].
Proof. vm_compute. repeat split. Qed.

(* outputs that answer cursor position requests: a print waits for the
   outstanding report before it erases; a render during that wait is harmless
   (the erase comes after it), and text printed after exit() queues behind the
   print that still waits *)
Definition w_cpr_exit : list label :=
  [LAppStart; LW 0 ta] ++ batch ++ [LLoopStep; LAppExit; LW 0 tb] ++ batch ++
  [LLoopStep; LCprTimeout; LWake 0; LAppStop].
Definition w_cpr_render : list label :=
  [LAppStart; LW 0 ta] ++ batch ++ [LLoopStep; LRender; LCprAnswer; LW 0 tb] ++ batch ++
  [LLoopStep; LRender; LCprTimeout].

Lemma cpr_examples :
  all_enabled (init2 true true) w_cpr_exit = true /\
  out_text (run (init2 true true) w_cpr_exit) = ta ++ tb /\
  all_enabled (init2 true true) w_cpr_render = true /\
  out_text (run (init2 true true) w_cpr_render) = ta ++ tb /\
  brk_run (out (run (init2 true true) w_cpr_render)) = Some false /\
  cprwait (cp (run (init2 true true) ([LAppStart; LW 0 ta] ++ batch ++ [LLoopStep]))) = true.
Proof. vm_compute. repeat split. Qed.

(* before aa2fd63: the same schedule kills the flush thread, and everything
   written afterwards stays in the queue *)
Lemma closed_loop_pinned :
  fth (px (run_pinned (init true) w_crash)) = FCrash /\
  out_text (run_pinned (init true) w_crash) = [] /\
  queue_text (px (run_pinned (init true) w_crash)) = tb.
Proof. vm_compute. repeat split. Qed.

(* The window between Application.exit() (is_done) and run_async resuming (_is_running still
   True): a print executed there is bracketed and followed by a normal render, but asks for no
   cursor position (the request is keyed on is_done, not on _is_running), so run_async can
   return at once; the same print before exit() leaves a request outstanding. *)
Definition w_window : list label :=
  [LAppStart; LCprAnswer; LW 0 ta] ++ batch ++ [LAppDone; LLoopStep; LAppExit; LAppStop].
Definition w_nowindow : list label :=
  [LAppStart; LCprAnswer; LW 0 ta] ++ batch ++ [LLoopStep; LAppExit; LAppStop].

Lemma window_example :
  all_enabled (init2 true true) w_window = true /\
  cprq (cp (run (init2 true true) w_window)) = O /\ app (en (run (init2 true true) w_window)) = false /\
  brk_run (out (run (init2 true true) w_window)) = Some false /\
  out_text (run (init2 true true) w_window) = ta /\
  (* before exit(): the request is made and run_async has to wait for it *)
  all_enabled (init2 true true) w_nowindow = false /\
  cprq (cp (run (init2 true true) w_nowindow)) = 1%nat /\ app (en (run (init2 true true) w_nowindow)) = true.
Proof. vm_compute. repeat split. Qed.
