(* C20 - schedules on which the faithful model violates the property text.
   Every witness is a list of labels each of which is enabled when taken. *)
From Coq Require Import ZArith List Bool.
From PTK Require Import Lib.Sx Model.C20_StdoutProxy Proofs.C20_Order.
Import ListNotations.
Open Scope Z_scope.

Definition ta : text := [97; 10].   (* "a\n" *)
Definition tb : text := [98; 10].   (* "b\n" *)
Definition batch : list label := [LFGet; LFNowait; LFChoose; LFDeliver].

(* start race: the flush thread reads "no application", the application
   starts and draws, the flush thread writes into the drawn prompt *)
Definition w_start : list label :=
  [LW 0 ta; LFGet; LFNowait; LFChoose; LAppStart; LFDeliver].

Lemma start_race : all_enabled (init true) w_start = true /\
  forallb ev_ok (out (run (init true) w_start)) = false /\
  brk_run (out (run (init true) w_start)) = None.
Proof. vm_compute. repeat split. Qed.

(* application in a non-default AppSession: the callback runs in the flush
   thread's (empty) context, in_terminal() sees no application *)
Definition w_ctx : list label := LW 0 ta :: batch ++ [LLoopStep].

Lemma ctx_unbracketed : forallb no_lifecycle w_ctx = true /\
  all_enabled (init_running false) w_ctx = true /\
  forallb ev_ok (out (run (init_running false) w_ctx)) = false /\
  brk_run (out (run (init_running false) w_ctx)) = None.
Proof. vm_compute. repeat split. Qed.

(* exit while somebody else's in_terminal section is open: the earlier text
   waits on the chain, the later one sees _is_running = False and is written
   at once *)
Definition w_exit : list label :=
  [LAppStart; LExtBegin; LW 0 ta] ++ batch ++ [LLoopStep; LAppExit; LW 0 tb] ++ batch ++
  [LLoopStep; LExtEnd; LWake 0; LAppStop].

Lemma exit_reorder : all_enabled (init true) w_exit = true /\
  stream w_exit = ta ++ tb /\ out_text (run (init true) w_exit) = tb ++ ta /\
  lost (run (init true) w_exit) = [] /\
  pipeline (run (init true) w_exit) = out_text (run (init true) w_exit).
Proof. vm_compute. repeat split. Qed.

(* stop race: the flush thread reads the loop of a running application, the
   application ends, the callback lands on a loop nobody runs; the next text
   overtakes it; when the loop is closed the text is gone.  The flush thread
   exits normally. *)
Definition w_stop : list label :=
  [LAppStart; LW 0 ta; LFGet; LFNowait; LFChoose; LAppExit; LAppStop; LFDeliver; LW 0 tb] ++ batch ++
  [LFlush 0; LClose; LFGet; LFGet; LLoopClose].

Lemma stop_race : all_enabled (init true) w_stop = true /\
  fth (px (run (init true) w_stop)) = FExit /\
  stream w_stop = ta ++ tb /\ out_text (run (init true) w_stop) = tb /\
  lost (run (init true) w_stop) = [ta].
Proof. vm_compute. repeat split. Qed.

(* same race, loop already closed when the flush thread calls
   call_soon_threadsafe: RuntimeError kills the flush thread; everything
   written afterwards stays in the queue *)
Definition w_crash : list label :=
  [LAppStart; LW 0 ta; LFGet; LFNowait; LFChoose; LAppExit; LAppStop; LLoopClose; LFDeliver;
   LW 0 tb; LFlush 0; LClose].

Lemma stop_crash : all_enabled (init true) w_crash = true /\
  fth (px (run (init true) w_crash)) = FCrash /\
  out_text (run (init true) w_crash) = [] /\
  queue (px (run (init true) w_crash)) = [ITxt tb; ITxt []; IDone].
Proof. vm_compute. repeat split. Qed.

(* a dead flush thread never takes anything from the queue again *)
Lemma crash_absorbing : forall l s, fth (px s) = FCrash ->
  fth (px (step s l)) = FCrash /\ exists q, queue (px (step s l)) = queue (px s) ++ q.
Proof.
  intros l s F. destruct l; cbn [step px].
  - unfold do_write. destruct (split_last d) as [[b a]|]; cbn [fth queue]; (split; [exact F|]).
    + eexists; reflexivity.
    + exists []. now rewrite app_nil_r.
  - cbn [do_flush fth queue]. split; [exact F|eexists; reflexivity].
  - cbn [do_close fth queue]. split; [exact F|eexists; reflexivity].
  - unfold do_fget. rewrite F. split; [exact F|exists []; now rewrite app_nil_r].
  - unfold do_fnowait. rewrite F. split; [exact F|exists []; now rewrite app_nil_r].
  - unfold do_fchoose. rewrite F. split; [exact F|exists []; now rewrite app_nil_r].
  - rewrite F. split; [exact F|exists []; now rewrite app_nil_r].
  - destruct (negb (app (en s)) && negb (running (en s))); (split; [exact F|exists []; now rewrite app_nil_r]).
  - destruct (app (en s) && running (en s)); (split; [exact F|exists []; now rewrite app_nil_r]).
  - destruct (app (en s) && negb (running (en s)) && fdone (ch s) (lastf (ch s))); (split; [exact F|exists []; now rewrite app_nil_r]).
  - destruct (negb (app (en s)) && negb (lclosed (en s))); (split; [exact F|exists []; now rewrite app_nil_r]).
  - destruct (lclosed (en s)); [split; [exact F|exists []; now rewrite app_nil_r]|].
    destruct (loopq (en s)); [split; [exact F|exists []; now rewrite app_nil_r]|].
    destruct (app (en s) && ctx (en s) && running (en s)); [destruct (submit _ _ _ _)|];
      (split; [exact F|exists []; now rewrite app_nil_r]).
  - destruct (app (en s) && running (en s) && _); (split; [exact F|exists []; now rewrite app_nil_r]).
  - destruct (app (en s) && running (en s)); [destruct (submit _ _ _ _)|];
      (split; [exact F|exists []; now rewrite app_nil_r]).
  - destruct (active (ch s)); (split; [exact F|exists []; now rewrite app_nil_r]).
  - destruct (nth_error (waitq (ch s)) i); [|split; [exact F|exists []; now rewrite app_nil_r]].
    destruct (fdone (ch s) (s_prev s0)); [destruct (start_sec _ _ _ _)|];
      (split; [exact F|exists []; now rewrite app_nil_r]).
Qed.

(* the hypotheses of the positive theorems are satisfiable: a complete run
   (two threads, partial lines, flush, close) that ends drained *)
Definition w_ok : list label :=
  [LW 0 [120]; LW 1 [121; 10; 122]; LW 0 [10]; LFGet; LFNowait] ++ List.tl batch ++ [LFlush 1; LClose; LFGet; LFGet].

Lemma ok_noapp : forallb no_lifecycle w_ok = true /\ all_enabled (init true) w_ok = true /\
  drained (run (init true) w_ok) /\ out_text (run (init true) w_ok) = [120; 121; 10; 122; 10].
Proof. vm_compute. repeat split. Qed.

Definition w_ok_running : list label :=
  [LW 0 [120]; LW 1 [121; 10; 122]; LW 0 [10]; LFGet; LFNowait] ++ List.tl batch ++ [LExtBegin; LLoopStep; LExtEnd; LWake 0; LRender].

Lemma ok_running : forallb no_lifecycle w_ok_running = true /\
  all_enabled (init_running true) w_ok_running = true /\
  drained (run (init_running true) w_ok_running) /\
  out_text (run (init_running true) w_ok_running) = [120; 121; 10; 122; 10].
Proof. vm_compute. repeat split. Qed.
