(* C09 round 6 - the span of a LINES selection (visual V and the LINEWISE text
   objects): Document.selection_ranges goes, through rfind / find of the line
   separator, from the start of the line holding the lower end to the separator
   that ends the line holding the upper end (or to the end of the text), and
   cut_selection returns exactly that span (less one trailing separator) and the
   text without it. *)
From Coq Require Import ZArith List Bool Lia PeanoNat.
From PTK Require Import Lib.Sx Lib.Py Model.Document Model.BufferEdit Proofs.BufferEditFacts
  Proofs.C02_Base Proofs.C02_Coords
  Model.C09_Kill Proofs.C09_KillFacts Proofs.C09_CutFacts.
Import ListNotations.
Open Scope Z_scope.

(* str.rfind(c): -1 when absent, else the last occurrence *)
Lemma rfind_char_from_spec c s : forall i best,
  (rfind_char_from c s i best = best /\ mem_Z c s = false) \/
  (exists j, 0 <= j < len s /\ rfind_char_from c s i best = i + j /\
             nth_error s (Z.to_nat j) = Some c /\ mem_Z c (skipn (Z.to_nat (j + 1)) s) = false).
Proof.
  induction s as [|x r IH]; intros i best; cbn [rfind_char_from mem_Z]; [left; now split|].
  rewrite len_cons. pose proof (len_nonneg r) as Hr.
  destruct (IH (i + 1) (if x =? c then i else best)) as [[E M]|(j & Hj & E & N & M)].
  - destruct (x =? c) eqn:Ex.
    + right. exists 0. split; [lia|]. split; [rewrite E; lia|]. apply Z.eqb_eq in Ex. subst x.
      split; [reflexivity|]. cbn [Z.to_nat skipn]. change (Z.to_nat (0 + 1)) with 1%nat. exact M.
    + left. split; [exact E|]. cbn [orb]. exact M.
  - right. exists (j + 1). split; [lia|]. split; [rewrite E; lia|].
    replace (Z.to_nat (j + 1)) with (S (Z.to_nat j)) by lia. split; [exact N|].
    replace (Z.to_nat (j + 1 + 1)) with (S (Z.to_nat (j + 1))) by lia. exact M.
Qed.

(* str.find(c): -1 when absent, else the first occurrence *)
Lemma find_char_from_full c s : forall i,
  (find_char_from c s i = -1 /\ mem_Z c s = false) \/
  (exists j, 0 <= j < len s /\ find_char_from c s i = i + j /\
             nth_error s (Z.to_nat j) = Some c /\ mem_Z c (firstn (Z.to_nat j) s) = false).
Proof.
  induction s as [|x r IH]; intros i; cbn [find_char_from mem_Z]; [left; now split|].
  rewrite len_cons. pose proof (len_nonneg r) as Hr.
  destruct (x =? c) eqn:Ex.
  - right. exists 0. split; [lia|]. split; [lia|]. apply Z.eqb_eq in Ex. subst x. now split.
  - destruct (IH (i + 1)) as [[E M]|(j & Hj & E & N & M)].
    + left. split; [exact E|exact M].
    + right. exists (j + 1). split; [lia|]. split; [rewrite E; lia|].
      replace (Z.to_nat (j + 1)) with (S (Z.to_nat j)) by lia. split; [exact N|].
      cbn [firstn mem_Z]. rewrite Ex. exact M.
Qed.

Lemma nth_error_skipn {T} (l : list T) a j : nth_error (skipn a l) j = nth_error l (a + j).
Proof. revert l; induction a as [|a IH]; intros [|x l]; cbn; try reflexivity; [now destruct j|apply IH]. Qed.

Lemma nth_error_firstn_lt {T} (l : list T) a j : (j < a)%nat -> nth_error (firstn a l) j = nth_error l j.
Proof.
  revert l j; induction a as [|a IH]; intros [|x l] [|j] H; cbn; try reflexivity; try lia.
  apply IH. lia.
Qed.

Lemma skipn_firstn_comm' {T} (l : list T) a b : skipn a (firstn (a + b) l) = firstn b (skipn a l).
Proof. revert l; induction a as [|a IH]; intros [|x l]; cbn; try reflexivity; [now rewrite firstn_nil|apply IH]. Qed.

(* The range of a LINES selection between lo <= hi *)
Lemma lines_selection_range t cur orig vi :
  0 <= cur <= len t -> 0 <= orig <= len t ->
  let lo := Z.min cur orig in
  let hi := Z.max cur orig in
  exists a e,
    selection_ranges (mkdoc t cur) (orig, LINES) vi = [(a, e + (if vi then 1 else 0))] /\
    0 <= a <= lo /\
    mem_Z NL (firstn (Z.to_nat (lo - a)) (skipn (Z.to_nat a) t)) = false /\
    (a = 0 \/ nth_error t (Z.to_nat (a - 1)) = Some NL) /\
    ((hi <= e < len t /\ nth_error t (Z.to_nat e) = Some NL /\
      mem_Z NL (firstn (Z.to_nat (e - hi)) (skipn (Z.to_nat hi) t)) = false) \/
     (e = len t - 1 /\ mem_Z NL (skipn (Z.to_nat hi) t) = false)).
Proof.
  intros Hc Ho lo hi. unfold selection_ranges. cbn [dcur dtext].
  change (LINES =? BLOCK) with false. change (LINES =? LINES) with true. cbv iota.
  fold lo. fold hi.
  assert (Hlo : 0 <= lo <= len t) by (unfold lo; lia).
  assert (Hhi : lo <= hi <= len t) by (unfold lo, hi; lia).
  eexists _, _. split; [reflexivity|].
  (* the start *)
  unfold rfind_char_upto. rewrite slice_to_in_range by lia.
  assert (Hlf : len (firstn (Z.to_nat lo) t) = lo) by (rewrite len_firstn; lia).
  assert (Hstart :
    let a := Z.max 0 (rfind_char_from NL (firstn (Z.to_nat lo) t) 0 (-1) + 1) in
    0 <= a <= lo /\ mem_Z NL (firstn (Z.to_nat (lo - a)) (skipn (Z.to_nat a) t)) = false /\
    (a = 0 \/ nth_error t (Z.to_nat (a - 1)) = Some NL)).
  { cbv zeta.
    destruct (rfind_char_from_spec NL (firstn (Z.to_nat lo) t) 0 (-1)) as [[E M]|(j & Hj & E & N & M)].
    - rewrite E. change (Z.max 0 (-1 + 1)) with 0. split; [lia|]. split; [|now left].
      cbn [Z.to_nat skipn]. now rewrite Z.sub_0_r.
    - rewrite E, Hlf in *. replace (Z.max 0 (0 + j + 1)) with (j + 1) by lia.
      split; [lia|]. split.
      + replace (Z.to_nat lo) with (Z.to_nat (j + 1) + Z.to_nat (lo - (j + 1)))%nat in M by lia.
        now rewrite skipn_firstn_comm' in M.
      + right. replace (j + 1 - 1) with j by lia.
        rewrite nth_error_firstn_lt in N by lia. exact N. }
  cbv zeta in Hstart. destruct Hstart as (S1 & S2 & S3).
  split; [exact S1|]. split; [exact S2|]. split; [exact S3|].
  (* the end *)
  unfold find_char_at, find_char, adj_index.
  destruct (hi <? 0) eqn:E0; [lia|].
  replace (Z.min hi (len t)) with hi by lia.
  rewrite slice_from_in_range by lia.
  assert (Hls : len (skipn (Z.to_nat hi) t) = len t - hi) by (rewrite len_skipn; lia).
  destruct (find_char_from_full NL (skipn (Z.to_nat hi) t) 0) as [[E M]|(j & Hj & E & N & M)].
  - rewrite E. cbn [Z.ltb Z.compare Z.leb]. right. split; [reflexivity|exact M].
  - rewrite E, Hls in *. destruct (0 + j <? 0) eqn:E1; [lia|].
    destruct (0 <=? hi + (0 + j)) eqn:E2; [|lia].
    left. split; [lia|]. split.
    + rewrite nth_error_skipn in N. replace (Z.to_nat (hi + (0 + j))) with (Z.to_nat hi + Z.to_nat j)%nat by lia. exact N.
    + replace (hi + (0 + j) - hi) with j by lia. exact M.
Qed.

(* Document.cut_selection for a LINES selection (Vi): with (a, e) the range above,
   the remaining text is the text without t[a .. e] and the data is t[a .. e] less
   one trailing separator, type LINES *)
Lemma cut_lines_vi t cur orig :
  0 <= cur <= len t -> 0 <= orig <= len t ->
  exists a e, selection_ranges (mkdoc t cur) (orig, LINES) true = [(a, e + 1)] /\
    0 <= a <= e + 1 /\ e + 1 <= len t /\
    let span := firstn (Z.to_nat (e + 1 - a)) (skipn (Z.to_nat a) t) in
    doc_cut_selection (mkdoc t cur) (orig, LINES) true =
    (mk_document (firstn (Z.to_nat a) t ++ skipn (Z.to_nat (e + 1)) t) a,
     mkclip (if ends_with_nl span then slice_to span (-1) else span) LINES).
Proof.
  intros Hc Ho.
  destruct (lines_selection_range t cur orig true Hc Ho) as (a & e & R & A1 & _ & _ & A4).
  cbv zeta in *.
  assert (Hb : 0 <= a <= e + 1 /\ e + 1 <= len t).
  { destruct A4 as [(B1 & _)|(B1 & _)]; lia. }
  exists a, e. split; [exact R|]. split; [apply Hb|]. split; [apply Hb|].
  unfold doc_cut_selection. rewrite R. cbn [dcur dtext cut_loop fst snd app].
  change (0 =? 0) with true. cbv iota.
  rewrite (slice2_in_range t 0 a) by lia. rewrite Z.sub_0_r. cbn [Z.to_nat skipn].
  rewrite (slice2_in_range t a (e + 1)) by lia.
  rewrite slice_from_in_range by lia.
  cbn [join]. change (LINES =? LINES) with true. cbn [andb]. reflexivity.
Qed.
