(* C03 - the four hand recognisers of Model/C03_Vt100Parser.v accept exactly the
   language of the regular expressions of /repo (ASTs regenerated from the
   pattern strings by re's own parser): for ALL strings, not only a scope. *)
From Coq Require Import ZArith List Bool Lia.
From PTK Require Import Lib.Sx Lib.Py Lib.C03_Str Lib.C03_Regex Gen.C03_AnsiSequences Gen.C03_Regexes
  Model.C03_Vt100Parser Model.C03_RegexMatch Proofs.C03_Lossless.
Import ListNotations.
Open Scope Z_scope.

(* ---------------------------------------------------------------------- *)
(* semantics: the language of a regular expression (whole-string match) *)

(* [cset_mem] is defined in Model/C03_RegexMatch.v *)

Inductive matches : re -> str -> Prop :=
| MEps : matches REps []
| MSet : forall s c, cset_mem s c = true -> matches (RSet s) [c]
| MCat : forall a b s1 s2, matches a s1 -> matches b s2 -> matches (RCat a b) (s1 ++ s2)
| MAltL : forall a b s, matches a s -> matches (RAlt a b) s
| MAltR : forall a b s, matches b s -> matches (RAlt a b) s
| MStar0 : forall a, matches (RStar a) []
| MStarS : forall a s1 s2, matches a s1 -> matches (RStar a) s2 -> matches (RStar a) (s1 ++ s2)
| MPlus : forall a s1 s2, matches a s1 -> matches (RStar a) s2 -> matches (RPlus a) (s1 ++ s2)
| MOpt0 : forall a, matches (ROpt a) []
| MOpt1 : forall a s, matches a s -> matches (ROpt a) s.

Lemma m_set_inv cs s : matches (RSet cs) s -> exists c, s = [c] /\ cset_mem cs c = true.
Proof. intros H. inversion H; subst. eauto. Qed.
Lemma m_chr c s : matches (RSet (CChr c)) s <-> s = [c].
Proof.
  split.
  - intros H. apply m_set_inv in H. destruct H as (x & -> & E). cbn [cset_mem] in E. apply Z.eqb_eq in E. now subst.
  - intros ->. apply MSet. cbn [cset_mem]. apply Z.eqb_refl.
Qed.
Lemma m_cat_inv a b s : matches (RCat a b) s -> exists s1 s2, s = s1 ++ s2 /\ matches a s1 /\ matches b s2.
Proof. intros H. inversion H; subst. eauto. Qed.
Lemma m_alt_inv a b s : matches (RAlt a b) s -> matches a s \/ matches b s.
Proof. intros H. inversion H; subst; auto. Qed.
Lemma m_opt_inv a s : matches (ROpt a) s -> s = [] \/ matches a s.
Proof. intros H. inversion H; subst; auto. Qed.

Lemma m_star_set cs s : matches (RStar (RSet cs)) s <-> forallb (cset_mem cs) s = true.
Proof.
  split.
  - intros H. remember (RStar (RSet cs)) as r eqn:Er. induction H; try discriminate Er.
    + reflexivity.
    + injection Er as ->. apply m_set_inv in H. destruct H as (c & -> & E).
      cbn [app forallb]. rewrite E. now apply IHmatches2.
  - induction s as [|c s IH]; intros H; [apply MStar0|].
    cbn [forallb] in H. apply andb_true_iff in H. destruct H as [H1 H2].
    change (c :: s) with ([c] ++ s). apply MStarS; [now apply MSet|now apply IH].
Qed.
Lemma m_plus_inv a s : matches (RPlus a) s -> exists s1 s2, s = s1 ++ s2 /\ matches a s1 /\ matches (RStar a) s2.
Proof. intros H. inversion H; subst. eauto. Qed.
Lemma m_plus_set cs s :
  matches (RPlus (RSet cs)) s <-> s <> [] /\ forallb (cset_mem cs) s = true.
Proof.
  split.
  - intros H. apply m_plus_inv in H. destruct H as (s1 & s2 & -> & H1 & H3).
    apply m_set_inv in H1. destruct H1 as (c & -> & E).
    apply m_star_set in H3. split; [discriminate|]. cbn [app forallb]. now rewrite E.
  - intros [Hne H]. destruct s as [|c s]; [congruence|].
    cbn [forallb] in H. apply andb_true_iff in H. destruct H as [H1 H2].
    change (c :: s) with ([c] ++ s). apply MPlus; [now apply MSet|now apply m_star_set].
Qed.

Definition DS : cset := CUnion CDigit (CChr 59).
Lemma DS_mem c : cset_mem DS c = is_ds c.
Proof. reflexivity. Qed.
Lemma forallb_DS s : forallb (cset_mem DS) s = forallb is_ds s.
Proof. reflexivity. Qed.

(* ---------------------------------------------------------------------- *)
(* the generated ASTs are the ones the proofs below are about *)

Definition esc_br (body : re) : re := RCat (RSet (CChr 27)) (RCat (RSet (CChr 91)) body).

Definition body_cpr : re :=
  RCat (RPlus (RSet CDigit)) (RCat (RSet (CChr 59)) (RCat (RPlus (RSet CDigit)) (RSet (CChr 82)))).
Definition body_mouse : re :=
  RAlt (RCat (ROpt (RSet (CChr 60))) (RCat (RPlus (RSet DS)) (RSet (CUnion (CChr 109) (CChr 77)))))
       (RCat (RSet (CChr 77)) (RCat (RSet CAny) (RCat (RSet CAny) (RSet CAny)))).
Definition body_cpr_prefix : re := RStar (RSet DS).
Definition body_mouse_prefix : re :=
  RAlt (RCat (ROpt (RSet (CChr 60))) (RStar (RSet DS)))
       (RCat (RSet (CChr 77)) (ROpt (RCat (RSet CAny) (ROpt (RSet CAny))))).

Lemma ast_cpr_ok : ast_cpr_response_re = esc_br body_cpr. Proof. reflexivity. Qed.
Lemma ast_mouse_ok : ast_mouse_event_re = esc_br body_mouse. Proof. reflexivity. Qed.
Lemma ast_cpr_prefix_ok : ast_cpr_response_prefix_re = esc_br body_cpr_prefix. Proof. reflexivity. Qed.
Lemma ast_mouse_prefix_ok : ast_mouse_event_prefix_re = esc_br body_mouse_prefix. Proof. reflexivity. Qed.

Lemma esc_br_matches body p :
  matches (esc_br body) p <-> exists r, strip_csi p = Some r /\ matches body r.
Proof.
  split.
  - intros H. apply m_cat_inv in H. destruct H as (s1 & s2 & -> & H1 & H2).
    apply m_chr in H1. subst. apply m_cat_inv in H2. destruct H2 as (s3 & r & -> & H3 & H4).
    apply m_chr in H3. subst. exists r. split; [reflexivity|exact H4].
  - intros (r & E & H). apply strip_csi_some in E. subst.
    change (27 :: 91 :: r) with ([27] ++ [91] ++ r). unfold esc_br.
    apply MCat; [now apply m_chr|]. apply MCat; [now apply m_chr|exact H].
Qed.

(* ---------------------------------------------------------------------- *)
(* greedy runs *)

Definition head_not (P : Z -> bool) (u : str) : Prop :=
  match u with [] => True | c :: _ => P c = false end.

Lemma skip_digits_split s :
  exists d, s = d ++ skip_digits s /\ forallb is_digit d = true /\ head_not is_digit (skip_digits s).
Proof.
  induction s as [|c s IH]; [exists []; repeat split|]. cbn [skip_digits].
  destruct (is_digit c) eqn:E.
  - destruct IH as (d & E1 & E2 & E3). exists (c :: d). repeat split; [cbn [app]; now rewrite <- E1| cbn [forallb]; now rewrite E|exact E3].
  - exists []. repeat split. exact E.
Qed.
Lemma skip_digits_app d u :
  forallb is_digit d = true -> head_not is_digit u -> skip_digits (d ++ u) = u.
Proof.
  induction d as [|c d IH]; intros H Hu.
  - cbn [app]. destruct u as [|x u]; [reflexivity|]. cbn [skip_digits]. unfold head_not in Hu. now rewrite Hu.
  - cbn [forallb] in H. apply andb_true_iff in H. destruct H as [H1 H2]. cbn [app skip_digits]. rewrite H1. now apply IH.
Qed.
Lemma skip_ds_split s :
  exists d, s = d ++ skip_ds s /\ forallb is_ds d = true /\ head_not is_ds (skip_ds s).
Proof.
  induction s as [|c s IH]; [exists []; repeat split|]. cbn [skip_ds].
  destruct (is_ds c) eqn:E.
  - destruct IH as (d & E1 & E2 & E3). exists (c :: d). repeat split; [cbn [app]; now rewrite <- E1| cbn [forallb]; now rewrite E|exact E3].
  - exists []. repeat split. exact E.
Qed.
Lemma skip_ds_app d u :
  forallb is_ds d = true -> head_not is_ds u -> skip_ds (d ++ u) = u.
Proof.
  induction d as [|c d IH]; intros H Hu.
  - cbn [app]. destruct u as [|x u]; [reflexivity|]. cbn [skip_ds]. unfold head_not in Hu. now rewrite Hu.
  - cbn [forallb] in H. apply andb_true_iff in H. destruct H as [H1 H2]. cbn [app skip_ds]. rewrite H1. now apply IH.
Qed.

Lemma digits1_some s u :
  digits1 s = Some u <->
  exists d, s = d ++ u /\ d <> [] /\ forallb is_digit d = true /\ head_not is_digit u.
Proof.
  split.
  - destruct s as [|c s]; cbn [digits1]; [discriminate|]. destruct (is_digit c) eqn:E; [|discriminate].
    intros H. injection H as <-. destruct (skip_digits_split s) as (d & E1 & E2 & E3).
    exists (c :: d). repeat split; [cbn [app]; now rewrite <- E1|discriminate|cbn [forallb]; now rewrite E|exact E3].
  - intros (d & -> & Hne & Hd & Hu). destruct d as [|c d]; [congruence|].
    cbn [forallb] in Hd. apply andb_true_iff in Hd. destruct Hd as [H1 H2].
    cbn [app digits1]. rewrite H1. now rewrite skip_digits_app.
Qed.

Lemma c_is_digit_59 : is_digit 59 = false. Proof. vm_compute. reflexivity. Qed.
Lemma c_is_digit_82 : is_digit 82 = false. Proof. vm_compute. reflexivity. Qed.
Lemma c_is_ds_60 : is_ds 60 = false. Proof. vm_compute. reflexivity. Qed.
Lemma c_is_ds_109 : is_ds 109 = false. Proof. vm_compute. reflexivity. Qed.
Lemma c_is_ds_77' : is_ds 77 = false. Proof. vm_compute. reflexivity. Qed.

(* ---------------------------------------------------------------------- *)
(* _cpr_response_re *)

Lemma cpr_body_equiv r :
  (match digits1 r with
   | Some (c :: r2) => (c =? 59) && match digits1 r2 with Some [x] => x =? 82 | _ => false end
   | _ => false
   end) = true <-> matches body_cpr r.
Proof.
  split.
  - destruct (digits1 r) as [[|c r2]|] eqn:E1; try discriminate.
    intros H. apply andb_true_iff in H. destruct H as [Hc H]. apply Z.eqb_eq in Hc. subst.
    destruct (digits1 r2) as [[|x [|y w]]|] eqn:E2; try discriminate. apply Z.eqb_eq in H. subst.
    apply digits1_some in E1. destruct E1 as (d1 & -> & N1 & D1 & _).
    apply digits1_some in E2. destruct E2 as (d2 & -> & N2 & D2 & _).
    unfold body_cpr. apply MCat; [apply m_plus_set; now split|].
    change (59 :: d2 ++ [82]) with ([59] ++ d2 ++ [82]).
    apply MCat; [now apply m_chr|]. apply MCat; [apply m_plus_set; now split|now apply m_chr].
  - intros H. unfold body_cpr in H.
    apply m_cat_inv in H. destruct H as (d1 & s & -> & H1 & H).
    apply m_cat_inv in H. destruct H as (s59 & s' & -> & H2 & H).
    apply m_cat_inv in H. destruct H as (d2 & s82 & -> & H3 & H4).
    apply m_chr in H2, H4. subst. apply m_plus_set in H1, H3. destruct H1 as [N1 D1], H3 as [N2 D2].
    cbn [cset_mem] in D1, D2.
    assert (E1 : digits1 (d1 ++ [59] ++ d2 ++ [82]) = Some (59 :: d2 ++ [82])).
    { apply digits1_some. exists d1. repeat split; auto; try exact c_is_digit_59. }
    rewrite E1. rewrite Z.eqb_refl. cbn [andb].
    assert (E2 : digits1 (d2 ++ [82]) = Some [82]).
    { apply digits1_some. exists d2. repeat split; auto; try exact c_is_digit_82. }
    rewrite E2. reflexivity.
Qed.

Lemma cpr_re_regex p : cpr_re p = true <-> matches ast_cpr_response_re p.
Proof.
  rewrite ast_cpr_ok, esc_br_matches. unfold cpr_re. split.
  - destruct (strip_csi p) as [r|]; [|discriminate]. intros H. exists r. split; [reflexivity|]. now apply cpr_body_equiv.
  - intros (r & -> & H). now apply cpr_body_equiv.
Qed.

(* ---------------------------------------------------------------------- *)
(* _cpr_response_prefix_re *)

Lemma cpr_prefix_re_regex p : cpr_prefix_re p = true <-> matches ast_cpr_response_prefix_re p.
Proof.
  rewrite ast_cpr_prefix_ok, esc_br_matches. unfold cpr_prefix_re, body_cpr_prefix. split.
  - destruct (strip_csi p) as [r|]; [|discriminate]. intros H. exists r. split; [reflexivity|]. now apply m_star_set.
  - intros (r & -> & H). now apply m_star_set in H.
Qed.

(* ---------------------------------------------------------------------- *)
(* <? : strip_lt *)

Lemma opt_lt_split (rest : re) (P : str -> Prop) r :
  (forall s, matches rest s <-> P s) ->
  (forall s, P (60 :: s) -> False) ->
  (matches (RCat (ROpt (RSet (CChr 60))) rest) r <-> P (strip_lt r)).
Proof.
  intros HP Hno. split.
  - intros H. apply m_cat_inv in H. destruct H as (s1 & s2 & -> & H1 & H2). apply HP in H2.
    apply m_opt_inv in H1. destruct H1 as [->|H1].
    + cbn [app]. unfold strip_lt. destruct s2 as [|c t]; [exact H2|].
      destruct (c =? 60) eqn:E; [|exact H2]. apply Z.eqb_eq in E. subst. exfalso. eapply Hno; eauto.
    + apply m_chr in H1. subst. cbn [app strip_lt]. exact H2.
  - intros H. unfold strip_lt in H. destruct r as [|c t].
    + change (@nil Z) with (@nil Z ++ []). apply MCat; [apply MOpt0|now apply HP].
    + destruct (c =? 60) eqn:E.
      * apply Z.eqb_eq in E. subst. change (60 :: t) with ([60] ++ t).
        apply MCat; [apply MOpt1; now apply m_chr|now apply HP].
      * change (c :: t) with ([] ++ c :: t). apply MCat; [apply MOpt0|now apply HP].
Qed.

(* ---------------------------------------------------------------------- *)
(* _mouse_event_prefix_re *)

Lemma any02 t :
  (Nat.leb (length t) 2 && forallb not_nl t) = true <->
  matches (ROpt (RCat (RSet CAny) (ROpt (RSet CAny)))) t.
Proof.
  split.
  - intros H. apply andb_true_iff in H. destruct H as [L N]. apply Nat.leb_le in L.
    destruct t as [|a [|b [|c t]]]; [apply MOpt0| | |cbn [length] in L; lia].
    + cbn [forallb] in N. rewrite andb_true_r in N. apply MOpt1. change [a] with ([a] ++ []).
      apply MCat; [now apply MSet|apply MOpt0].
    + cbn [forallb] in N. rewrite andb_true_r in N. apply andb_true_iff in N. destruct N as [N1 N2].
      apply MOpt1. change [a; b] with ([a] ++ [b]). apply MCat; [now apply MSet|apply MOpt1; now apply MSet].
  - intros H. apply m_opt_inv in H. destruct H as [->|H]; [reflexivity|].
    apply m_cat_inv in H. destruct H as (s1 & s2 & -> & H1 & H2).
    apply m_set_inv in H1. destruct H1 as (a & -> & Ea). cbn [cset_mem] in Ea.
    apply m_opt_inv in H2. destruct H2 as [->|H2].
    + cbn [app length forallb Nat.leb]. now rewrite Ea.
    + apply m_set_inv in H2. destruct H2 as (b & -> & Eb). cbn [cset_mem] in Eb.
      cbn [app length forallb Nat.leb]. now rewrite Ea, Eb.
Qed.

Lemma mouse_prefix_body_equiv r :
  (forallb is_ds (strip_lt r)
   || match r with m :: t => (m =? 77) && Nat.leb (length t) 2 && forallb not_nl t | [] => false end) = true
  <-> matches body_mouse_prefix r.
Proof.
  assert (A : matches (RCat (ROpt (RSet (CChr 60))) (RStar (RSet DS))) r <-> forallb is_ds (strip_lt r) = true).
  { apply (opt_lt_split (RStar (RSet DS)) (fun s => forallb is_ds s = true)).
    - intros s. apply m_star_set.
    - intros s H. cbn [forallb] in H. rewrite c_is_ds_60 in H. discriminate. }
  unfold body_mouse_prefix. split.
  - intros H. apply orb_true_iff in H. destruct H as [H|H]; [apply MAltL; now apply A|].
    destruct r as [|m t]; [discriminate|]. rewrite <- andb_assoc in H. apply andb_true_iff in H. destruct H as [Hm H].
    apply Z.eqb_eq in Hm. subst. apply MAltR. change (77 :: t) with ([77] ++ t).
    apply MCat; [now apply m_chr|now apply any02].
  - intros H. apply m_alt_inv in H. destruct H as [H|H]; apply orb_true_iff; [left; now apply A|right].
    apply m_cat_inv in H. destruct H as (s1 & t & -> & H1 & H2). apply m_chr in H1. subst.
    apply any02 in H2. cbn [app]. rewrite Z.eqb_refl. cbn [andb]. exact H2.
Qed.

Lemma mouse_prefix_re_regex p : mouse_prefix_re p = true <-> matches ast_mouse_event_prefix_re p.
Proof.
  rewrite ast_mouse_prefix_ok, esc_br_matches. unfold mouse_prefix_re. split.
  - destruct (strip_csi p) as [r|]; [|discriminate]. intros H. exists r. split; [reflexivity|]. now apply mouse_prefix_body_equiv.
  - intros (r & -> & H). now apply mouse_prefix_body_equiv.
Qed.

(* ---------------------------------------------------------------------- *)
(* _mouse_event_re *)

Definition sgr_tail (s : str) : bool :=
  match s with
  | c :: t => is_ds c && match skip_ds t with [x] => (x =? 109) || (x =? 77) | _ => false end
  | [] => false
  end.

Lemma sgr_tail_equiv s :
  sgr_tail s = true <-> matches (RCat (RPlus (RSet DS)) (RSet (CUnion (CChr 109) (CChr 77)))) s.
Proof.
  split.
  - destruct s as [|c t]; [discriminate|]. cbn [sgr_tail]. intros H. apply andb_true_iff in H. destruct H as [Hc H].
    destruct (skip_ds_split t) as (d & E1 & E2 & _).
    destruct (skip_ds t) as [|x [|y w]] eqn:Es; try discriminate.
    rewrite E1. change (c :: d ++ [x]) with ((c :: d) ++ [x]).
    apply MCat; [apply m_plus_set; split; [discriminate|cbn [forallb]; rewrite DS_mem, Hc; exact E2]|].
    apply MSet. exact H.
  - intros H. apply m_cat_inv in H. destruct H as (d & sx & -> & H1 & H2).
    apply m_plus_set in H1. destruct H1 as [N D]. rewrite forallb_DS in D.
    apply m_set_inv in H2. destruct H2 as (x & -> & Ex). cbn [cset_mem] in Ex.
    destruct d as [|c d]; [congruence|]. cbn [forallb] in D. apply andb_true_iff in D. destruct D as [D1 D2].
    cbn [app sgr_tail]. rewrite D1. cbn [andb].
    assert (Hx : is_ds x = false).
    { apply orb_true_iff in Ex. destruct Ex as [Ex|Ex]; apply Z.eqb_eq in Ex; subst; [exact c_is_ds_109|exact c_is_ds_77']. }
    rewrite skip_ds_app by (auto; exact Hx). exact Ex.
Qed.

Lemma mouse_body_equiv r :
  (sgr_tail (strip_lt r)
   || match r with [m; a; b; c] => (m =? 77) && not_nl a && not_nl b && not_nl c | _ => false end) = true
  <-> matches body_mouse r.
Proof.
  assert (A : matches (RCat (ROpt (RSet (CChr 60))) (RCat (RPlus (RSet DS)) (RSet (CUnion (CChr 109) (CChr 77))))) r
              <-> sgr_tail (strip_lt r) = true).
  { apply (opt_lt_split _ (fun s => sgr_tail s = true)).
    - intros s. symmetry. apply sgr_tail_equiv.
    - intros s H. cbn [sgr_tail] in H. rewrite c_is_ds_60 in H. discriminate. }
  unfold body_mouse. split.
  - intros H. apply orb_true_iff in H. destruct H as [H|H]; [apply MAltL; now apply A|].
    destruct r as [|m [|a [|b [|c [|d r']]]]]; try discriminate.
    apply andb_true_iff in H. destruct H as [H Hc]. apply andb_true_iff in H. destruct H as [H Hb].
    apply andb_true_iff in H. destruct H as [Hm Ha]. apply Z.eqb_eq in Hm. subst.
    apply MAltR. change [77; a; b; c] with ([77] ++ [a] ++ [b] ++ [c]).
    apply MCat; [now apply m_chr|]. apply MCat; [now apply MSet|]. apply MCat; now apply MSet.
  - intros H. apply m_alt_inv in H. destruct H as [H|H]; apply orb_true_iff; [left; now apply A|right].
    apply m_cat_inv in H. destruct H as (s1 & t & -> & H1 & H). apply m_chr in H1. subst.
    apply m_cat_inv in H. destruct H as (sa & t2 & -> & Ha & H). apply m_set_inv in Ha. destruct Ha as (a & -> & Ea).
    apply m_cat_inv in H. destruct H as (sb & sc & -> & Hb & Hc). apply m_set_inv in Hb, Hc.
    destruct Hb as (b & -> & Eb). destruct Hc as (c & -> & Ec). cbn [cset_mem] in Ea, Eb, Ec.
    cbn [app]. now rewrite Z.eqb_refl, Ea, Eb, Ec.
Qed.

Lemma mouse_re_regex p : mouse_re p = true <-> matches ast_mouse_event_re p.
Proof.
  rewrite ast_mouse_ok, esc_br_matches. unfold mouse_re. fold (sgr_tail). split.
  - destruct (strip_csi p) as [r|]; [|discriminate]. intros H. exists r. split; [reflexivity|]. now apply mouse_body_equiv.
  - intros (r & -> & H). now apply mouse_body_equiv.
Qed.
