(* C03 - the coroutine body [process]: every activation is a finite sequence of
   primitive emissions [prim] (a matched slice of the prefix, or one raw
   character), each strictly shortening the prefix.  Fuel, frame and
   final-state lemmas follow from that. *)
From Coq Require Import ZArith List Bool Lia.
From PTK Require Import Lib.Sx Lib.Py Lib.C03_Str Gen.C03_AnsiSequences Model.C03_Vt100Parser Proofs.C03_Table.
Import ListNotations.
Open Scope Z_scope.

(* ---------------------------------------------------------------------- *)
(* table-wide facts (recomputed when the table changes) *)

Definition table_wf_b : bool :=
  forallb (fun kv => negb (nilb (snd kv)) && negb (nilb (fst kv))) ansi_table
  && negb (key_CPRResponse =? key_BracketedPaste)
  && negb (key_Vt100MouseEvent =? key_BracketedPaste).
Lemma table_wf : table_wf_b = true.
Proof. vm_compute. reflexivity. Qed.

Lemma cpr_not_bp : (key_CPRResponse =? key_BracketedPaste) = false.
Proof. vm_compute. reflexivity. Qed.
Lemma mouse_not_bp : (key_Vt100MouseEvent =? key_BracketedPaste) = false.
Proof. vm_compute. reflexivity. Qed.

Lemma get_match_nil : get_match [] = None.
Proof. vm_compute. reflexivity. Qed.

Lemma lookup_In p t v : lookup p t = Some v -> In (p, v) t.
Proof.
  induction t as [|[k w] t IH]; cbn [lookup]; [discriminate|].
  destruct (str_eqb k p) eqn:E.
  - intros H. injection H as <-. apply str_eqb_eq in E. subst. now left.
  - intros H. right. now apply IH.
Qed.

Lemma get_match_cases p ks :
  get_match p = Some ks ->
  ks = [key_CPRResponse] \/ ks = [key_Vt100MouseEvent] \/ In (p, ks) ansi_table.
Proof.
  unfold get_match. destruct (cpr_re p); [intros H; injection H as <-; now left|].
  destruct (mouse_re p); [intros H; injection H as <-; right; now left|].
  intros H. right; right. now apply lookup_In.
Qed.

Lemma table_values_nonempty p ks : In (p, ks) ansi_table -> ks <> [] /\ p <> [].
Proof.
  intros HIn. pose proof table_wf as W. unfold table_wf_b in W.
  apply andb_true_iff in W; destruct W as [W _]. apply andb_true_iff in W; destruct W as [W _].
  pose proof (proj1 (forallb_forall _ _) W _ HIn) as H. cbn [fst snd] in H.
  apply andb_true_iff in H; destruct H as [H1 H2].
  split; intros ->; discriminate.
Qed.

Lemma get_match_nonempty p ks : get_match p = Some ks -> ks <> [] /\ p <> [].
Proof.
  intros H. split.
  - destruct (get_match_cases _ _ H) as [->|[->|HIn]]; try discriminate. now apply table_values_nonempty in HIn.
  - intros ->. rewrite get_match_nil in H. discriminate.
Qed.

Lemma get_match_bp p ks :
  get_match p = Some ks -> mem_Z key_BracketedPaste ks = true -> p = start_mark /\ ks = [key_BracketedPaste].
Proof.
  intros H HB. destruct (get_match_cases _ _ H) as [->|[->|HIn]].
  - cbn [mem_Z] in HB. rewrite cpr_not_bp in HB. discriminate.
  - cbn [mem_Z] in HB. rewrite mouse_not_bp in HB. discriminate.
  - destruct (table_paste_start _ _ HIn HB) as (A & B & _). now split.
Qed.

(* ---------------------------------------------------------------------- *)
(* _call_handler *)

Definition add_out (evs : list event) (st : pstate) : pstate :=
  mkst (prefix st) (in_paste st) (paste_buf st) (rev evs ++ rout st) (oof st).

Lemma call_handler_rest_nobp ks st :
  mem_Z key_BracketedPaste ks = false ->
  call_handler_rest ks st = add_out (map (fun x => (KKey x, [])) ks) st.
Proof.
  revert st. induction ks as [|k r IH]; intros st H.
  - destruct st; reflexivity.
  - cbn [mem_Z] in H. apply orb_false_iff in H. destruct H as [H1 H2].
    cbn [call_handler_rest]. rewrite IH by assumption.
    unfold call_handler1. rewrite H1. unfold add_out, push. cbn [prefix in_paste paste_buf rout oof map rev].
    rewrite <- app_assoc. reflexivity.
Qed.

Lemma call_handler_nobp ks data st :
  mem_Z key_BracketedPaste ks = false ->
  call_handler ks data st = add_out (expected_events data ks) st.
Proof.
  destruct ks as [|k r]; intros H.
  - destruct st; reflexivity.
  - cbn [mem_Z] in H. apply orb_false_iff in H. destruct H as [H1 H2].
    cbn [call_handler expected_events]. rewrite call_handler_rest_nobp by assumption.
    unfold call_handler1. rewrite H1. unfold add_out, push. cbn [prefix in_paste paste_buf rout oof map rev].
    rewrite <- app_assoc. reflexivity.
Qed.

Lemma call_handler_bp data st : call_handler [key_BracketedPaste] data st = enter_paste st.
Proof. cbn [call_handler call_handler_rest]. unfold call_handler1. now rewrite Z.eqb_refl. Qed.

(* frame: _call_handler never touches prefix / oof; the paste buffer is kept or emptied *)
Lemma call_handler1_frame k d st :
  prefix (call_handler1 k d st) = prefix st /\ oof (call_handler1 k d st) = oof st /\
  (paste_buf (call_handler1 k d st) = paste_buf st \/ paste_buf (call_handler1 k d st) = []).
Proof. unfold call_handler1. destruct (k =? key_BracketedPaste); cbn; auto. Qed.

Lemma call_handler_rest_frame ks st :
  prefix (call_handler_rest ks st) = prefix st /\ oof (call_handler_rest ks st) = oof st /\
  (paste_buf (call_handler_rest ks st) = paste_buf st \/ paste_buf (call_handler_rest ks st) = []).
Proof.
  revert st. induction ks as [|k r IH]; intros st; cbn [call_handler_rest]; [auto|].
  destruct (IH (call_handler1 k [] st)) as (A & B & C).
  destruct (call_handler1_frame k [] st) as (A1 & B1 & C1).
  rewrite A, B, A1, B1. repeat split. destruct C as [C|C]; [rewrite C; exact C1|now right].
Qed.

Lemma call_handler_frame ks d st :
  prefix (call_handler ks d st) = prefix st /\ oof (call_handler ks d st) = oof st /\
  (paste_buf (call_handler ks d st) = paste_buf st \/ paste_buf (call_handler ks d st) = []).
Proof.
  destruct ks as [|k r]; cbn [call_handler]; [auto|].
  destruct (call_handler_rest_frame r (call_handler1 k d st)) as (A & B & C).
  destruct (call_handler1_frame k d st) as (A1 & B1 & C1).
  rewrite A, B, A1, B1. repeat split. destruct C as [C|C]; [rewrite C; exact C1|now right].
Qed.

(* ---------------------------------------------------------------------- *)
(* primitive emissions *)

Inductive prim : pstate -> pstate -> Prop :=
| prim_match : forall st i ks,
    get_match (firstn i (prefix st)) = Some ks ->
    prim st (set_prefix (skipn i (prefix st)) (call_handler ks (firstn i (prefix st)) st))
| prim_raw : forall st c tl,
    prefix st = c :: tl ->
    prim st (set_prefix tl (push (KChar c, [c]) st)).

Inductive star : pstate -> pstate -> Prop :=
| star_refl : forall a, star a a
| star_step : forall a b c, prim a b -> star b c -> star a c.

Lemma star_trans a b c : star a b -> star b c -> star a c.
Proof. induction 1; [auto|]. intros H2. eapply star_step; eauto. Qed.
Lemma star_one a b : prim a b -> star a b.
Proof. intros H. eapply star_step; [exact H|apply star_refl]. Qed.

Lemma star_inv (P : pstate -> Prop) :
  (forall a b, P a -> prim a b -> P b) -> forall a b, star a b -> P a -> P b.
Proof. intros HP a b H. induction H; [auto|]. intros Ha. apply IHstar. eapply HP; eauto. Qed.

Lemma prim_shortens a b : prim a b -> (length (prefix b) < length (prefix a))%nat.
Proof.
  intros H. destruct H as [st i ks Hm|st c tl Hp].
  - cbn [set_prefix prefix].
    destruct (get_match_nonempty _ _ Hm) as [_ Hne].
    rewrite skipn_length.
    destruct i as [|i]; [cbn [firstn] in Hne; congruence|].
    destruct (prefix st) as [|x p]; [cbn [firstn] in Hne; congruence|]. cbn [length]. lia.
  - cbn [set_prefix prefix]. rewrite Hp. cbn [length]. lia.
Qed.

Lemma prim_oof a b : prim a b -> oof b = oof a.
Proof.
  intros H. destruct H as [st i ks Hm|st c tl Hp]; cbn [set_prefix oof push].
  - apply call_handler_frame.
  - reflexivity.
Qed.

Lemma prim_paste_buf a b : prim a b -> paste_buf b = paste_buf a \/ paste_buf b = [].
Proof.
  intros H. destruct H as [st i ks Hm|st c tl Hp]; cbn [set_prefix paste_buf push].
  - apply call_handler_frame.
  - now left.
Qed.

Lemma star_le a b : star a b -> (length (prefix b) <= length (prefix a))%nat.
Proof. induction 1; [lia|]. apply prim_shortens in H. lia. Qed.
Lemma star_oof a b : star a b -> oof b = oof a.
Proof. induction 1; [reflexivity|]. apply prim_oof in H. congruence. Qed.
Lemma star_paste_buf a b : star a b -> paste_buf b = paste_buf a \/ paste_buf b = [].
Proof.
  induction 1; [now left|]. apply prim_paste_buf in H.
  destruct IHstar as [E|E]; [rewrite E; exact H|now right].
Qed.

(* ---------------------------------------------------------------------- *)
(* the shift loop and the retry loop *)

Lemma match_loop_star i st found :
  star st (fst (match_loop i st found)) /\
  (if snd (match_loop i st found)
   then found = true \/ (length (prefix (fst (match_loop i st found))) < length (prefix st))%nat
   else fst (match_loop i st found) = st /\ found = false).
Proof.
  revert st found. induction i as [|i IH]; intros st found.
  - cbn [match_loop fst snd]. split; [apply star_refl|]. destruct found; auto.
  - cbn [match_loop]. destruct (get_match (firstn (S i) (prefix st))) as [ks|] eqn:Hm.
    + set (st' := set_prefix (skipn (S i) (prefix st)) (call_handler ks (firstn (S i) (prefix st)) st)).
      assert (Hp : prim st st') by (apply prim_match; exact Hm).
      destruct (IH st' true) as [A B]. split.
      * eapply star_step; eauto.
      * destruct (snd (match_loop i st' true)).
        -- right. apply star_le in A. apply prim_shortens in Hp. lia.
        -- destruct B; discriminate.
    + apply IH.
Qed.

Lemma no_match_step_star st :
  prefix st <> [] ->
  star st (no_match_step st) /\ (length (prefix (no_match_step st)) < length (prefix st))%nat.
Proof.
  intros Hne. unfold no_match_step.
  pose proof (match_loop_star (length (prefix st)) st false) as [A B].
  destruct (match_loop (length (prefix st)) st false) as [st1 found]. cbn [fst snd] in *.
  destruct found.
  - split; [exact A|]. destruct B as [B|B]; [discriminate|exact B].
  - destruct B as [-> _]. destruct (prefix st) as [|c tl] eqn:E; [congruence|].
    split.
    + apply star_one. now apply prim_raw.
    + cbn [set_prefix prefix length]. lia.
Qed.

Lemma process_star fuel fl st :
  (length (prefix st) <= fuel)%nat -> star st (process fuel fl st).
Proof.
  revert fl st. induction fuel as [|f IH]; intros fl st Hlen.
  - destruct (prefix st) eqn:E; [|cbn [length] in Hlen; lia].
    unfold process. rewrite E. apply star_refl.
  - cbn [process]. destruct (prefix st) as [|c tl] eqn:E; [apply star_refl|].
    destruct (fl || negb (is_prefix_longer (c :: tl))); [|apply star_refl].
    destruct (get_match (c :: tl)) as [ks|] eqn:Hm.
    + apply star_one.
      pose proof (prim_match st (length (prefix st)) ks) as P.
      rewrite firstn_all, skipn_all in P. rewrite E in P. now apply P.
    + assert (Hne : prefix st <> []) by (rewrite E; discriminate).
      destruct (no_match_step_star st Hne) as [A B].
      eapply star_trans; [exact A|]. apply IH. rewrite E in B. cbn [length] in *. lia.
Qed.

(* enough fuel: the out-of-fuel flag is never raised *)
Lemma process_oof fuel fl st :
  (length (prefix st) <= fuel)%nat -> oof (process fuel fl st) = oof st.
Proof. intros H. apply star_oof. now apply process_star. Qed.

(* what is left when the coroutine yields again: nothing, or something that
   may still grow into a longer sequence *)
Lemma process_final fuel fl st :
  (length (prefix st) <= fuel)%nat ->
  prefix (process fuel fl st) = [] \/ is_prefix_longer (prefix (process fuel fl st)) = true.
Proof.
  revert fl st. induction fuel as [|f IH]; intros fl st Hlen.
  - destruct (prefix st) eqn:E; [|cbn [length] in Hlen; lia].
    unfold process. rewrite E. now left.
  - cbn [process]. destruct (prefix st) as [|c tl] eqn:E; [now left|].
    destruct (fl || negb (is_prefix_longer (c :: tl))) eqn:C.
    + destruct (get_match (c :: tl)) as [ks|] eqn:Hm.
      * left. reflexivity.
      * assert (Hne : prefix st <> []) by (rewrite E; discriminate).
        destruct (no_match_step_star st Hne) as [A B].
        apply IH. rewrite E in B. cbn [length] in *. lia.
    + right. rewrite E. apply orb_false_iff in C. destruct C as [_ C]. now apply negb_false_iff in C.
Qed.

(* a flush pass leaves nothing (the flag is kept across retries) *)
Lemma process_flush_empties fuel st :
  (length (prefix st) <= fuel)%nat -> prefix (process fuel true st) = [].
Proof.
  revert st. induction fuel as [|f IH]; intros st Hlen.
  - destruct (prefix st) eqn:E; [|cbn [length] in Hlen; lia].
    unfold process. now rewrite E.
  - cbn [process]. destruct (prefix st) as [|c tl] eqn:E; [exact E|].
    cbn [orb]. destruct (get_match (c :: tl)) as [ks|] eqn:Hm.
    + reflexivity.
    + assert (Hne : prefix st <> []) by (rewrite E; discriminate).
      destruct (no_match_step_star st Hne) as [A B].
      apply IH. rewrite E in B. cbn [length] in *. lia.
Qed.

(* send / flush *)
Lemma send_char_star c st : star (set_prefix (prefix st ++ [c]) st) (send_char c st).
Proof.
  unfold send_char. apply process_star. cbn [set_prefix prefix]. rewrite app_length. cbn [length]. lia.
Qed.
Lemma flush_star st : star st (flush st).
Proof. unfold flush. now apply process_star. Qed.

Lemma send_char_oof c st : oof (send_char c st) = oof st.
Proof. rewrite (star_oof _ _ (send_char_star c st)). reflexivity. Qed.
Lemma flush_oof st : oof (flush st) = oof st.
Proof. apply (star_oof _ _ (flush_star st)). Qed.
Lemma send_char_paste_buf c st : paste_buf (send_char c st) = paste_buf st \/ paste_buf (send_char c st) = [].
Proof. apply (star_paste_buf _ _ (send_char_star c st)). Qed.
Lemma flush_paste_buf st : paste_buf (flush st) = paste_buf st \/ paste_buf (flush st) = [].
Proof. apply (star_paste_buf _ _ (flush_star st)). Qed.

Lemma send_char_final c st :
  prefix (send_char c st) = [] \/ is_prefix_longer (prefix (send_char c st)) = true.
Proof.
  unfold send_char. apply process_final. cbn [set_prefix prefix]. rewrite app_length. cbn [length]. lia.
Qed.
Lemma flush_final st :
  prefix (flush st) = [] \/ is_prefix_longer (prefix (flush st)) = true.
Proof. unfold flush. now apply process_final. Qed.
Lemma flush_empties st : prefix (flush st) = [].
Proof. unfold flush. now apply process_flush_empties. Qed.

(* C03_longest_first: the first key press of the shift loop carries the
   longest slice of the pending string that has a match. *)
Lemma match_loop_none i st found :
  (forall j, (1 <= j <= i)%nat -> get_match (firstn j (prefix st)) = None) ->
  match_loop i st found = (st, found).
Proof.
  revert st found. induction i as [|i IH]; intros st found H; [reflexivity|].
  cbn [match_loop]. rewrite (H (S i)) by lia. apply IH. intros j Hj. apply H. lia.
Qed.

Lemma match_loop_longest n i st ks :
  (i <= n)%nat ->
  (forall j, (i < j <= n)%nat -> get_match (firstn j (prefix st)) = None) ->
  get_match (firstn i (prefix st)) = Some ks ->
  (1 <= i)%nat ->
  match_loop n st false =
  match_loop (i - 1) (set_prefix (skipn i (prefix st)) (call_handler ks (firstn i (prefix st)) st)) true.
Proof.
  revert i st ks. induction n as [|n IH]; intros i st ks Hle Hnone Hm Hi; [lia|].
  destruct (Nat.eq_dec i (S n)) as [->|Hneq].
  - cbn [match_loop]. rewrite Hm. now rewrite Nat.sub_succ, Nat.sub_0_r.
  - cbn [match_loop]. rewrite (Hnone (S n)) by lia. apply IH; try lia; auto. intros j Hj. apply Hnone. lia.
Qed.
