(* C06 - one diff-render keeps terminal and renderer in sync (cells of
   display width 1).  The proof follows the code: move_cursor, output_char,
   the column loop (induction on the fuel = remaining columns), one row with
   its trailing trim, the row loop, then the epilogue. *)
From Coq Require Import ZArith List Bool Lia.
From PTK Require Import Lib.Sx Lib.Py Model.C06_Terminal Model.C06_Renderer Proofs.C06_TermFacts Proofs.C06_RowFacts.
Import ListNotations.
Open Scope Z_scope.

Section Diff.
Variable W : Z.
Variable tb : tabs.
Variable pvis : Z -> Z.
Hypothesis HW : 1 <= W.
(* attributes that has_style ignores do not render on a blank *)
Hypothesis Hpv : forall a, ahs tb a = false -> pvis (apen tb a) = pvis 0.

(* the pen a screen cell is displayed with: a blank in the default style
   "[transparent]" is an untouched cell, shown in the default attributes *)
Definition cpen (c : cell) : Z := if is_transp c then 0 else apen tb (sattr tb (st c)).

(* terminal cell [tc] displays screen cell [c] (modulo attributes invisible on a blank) *)
Definition shows (tc : tcell) (c : cell) : Prop :=
  tk tc = 0 /\ tg tc = ch c /\
  (if str_eqb (ch c) [32] then pvis (tp tc) = pvis (cpen c) else tp tc = cpen c).

Definition ncell (c : cell) : Prop := wd c = 1 /\ ch c <> [].
Definition nrow (r : row) : Prop := Forall (fun e => ncell (snd e)) r.
Definition nscreen (s : screen) : Prop := Forall (fun e => nrow (snd e)) (srows s).

Lemma ncell_dcell : ncell dcell.
Proof. split; [reflexivity|discriminate]. Qed.

Lemma rget_ncell : forall r c, nrow r -> ncell (rget r c).
Proof.
  induction r as [|[i v] r IH]; intros c H; cbn [rget]; [apply ncell_dcell|].
  inversion H; subst. destruct (i =? c); auto.
Qed.

Lemma sget_nrow : forall rows y, Forall (fun e => nrow (snd e)) rows -> nrow (sget rows y).
Proof.
  induction rows as [|[i r] rows IH]; intros y H; cbn [sget]; [constructor|].
  inversion H; subst. destruct (i =? y); auto.
Qed.

Lemma shows_same : forall tc a b, differs a b = false -> shows tc b -> shows tc a.
Proof.
  intros tc a b D (K & G & P). unfold differs in D. apply orb_false_iff in D. destruct D as [D1 D2].
  apply negb_false_iff in D1. apply negb_false_iff in D2. apply str_eqb_eq in D1. apply Z.eqb_eq in D2.
  unfold shows, cpen, is_transp in *. rewrite D1, D2. auto.
Qed.

(* ---- get_max_column_index ---- *)
Definition gmax0 (r : row) : Z :=
  fold_left (fun m e => if gcounts tb e then Z.max m (fst e) else m) r 0.

Lemma gmax_opt_fold : forall r mo,
  match mo with Some m => 0 <= m | None => True end ->
  match fold_left (fun m e => if gcounts tb e
                              then Some (match m with Some v => Z.max v (fst e) | None => fst e end)
                              else m) r mo with Some v => v | None => 0 end =
  fold_left (fun m e => if gcounts tb e then Z.max m (fst e) else m) r
            (match mo with Some m => m | None => 0 end).
Proof.
  induction r as [|e r IH]; intros mo M; cbn [fold_left]; [destruct mo; reflexivity|].
  destruct (gcounts tb e) eqn:G.
  - unfold gcounts in G. apply andb_true_iff in G. destruct G as [G0 _]. apply Z.leb_le in G0.
    rewrite IH; [|destruct mo; lia]. destruct mo as [m|]; cbn; [reflexivity|].
    rewrite Z.max_r by lia. reflexivity.
  - apply IH; assumption.
Qed.

Lemma gmax_eq0 : forall r, gmax tb r = gmax0 r.
Proof. intros r. unfold gmax, gmax_opt, gmax0. apply (gmax_opt_fold r None I). Qed.

Lemma gmax_fold_ge : forall r m,
  m <= fold_left (fun m e => if gcounts tb e then Z.max m (fst e) else m) r m.
Proof.
  induction r as [|e r IH]; intros m; cbn [fold_left]; [lia|].
  destruct (gcounts tb e); [specialize (IH (Z.max m (fst e))); lia | apply IH].
Qed.

(* a cell that shows as a blank in (visibly) default attributes *)
Definition blankish (c : cell) : Prop := ch c = [32] /\ pvis (cpen c) = pvis 0.

Lemma notcounts_blankish : forall c, counts tb c = false -> blankish c.
Proof.
  intros c C. unfold counts in C. apply orb_false_iff in C. destruct C as [C1 C2].
  apply negb_false_iff in C1. split; [apply str_eqb_eq; exact C1|].
  unfold cpen. destruct (is_transp c); [reflexivity|apply Hpv; exact C2].
Qed.

Lemma blankish_dcell : blankish dcell.
Proof. split; reflexivity. Qed.

(* get_max_column_index looks at explicit cells only: beyond it, a cell is
   either explicit and not counting, or absent (the default char) *)
Lemma gmax_fold_spec : forall r m x,
  0 <= x ->
  fold_left (fun m e => if gcounts tb e then Z.max m (fst e) else m) r m < x ->
  blankish (rget r x).
Proof.
  induction r as [|[i v] r IH]; intros m x Hx H; cbn [fold_left rget] in *.
  - apply blankish_dcell.
  - destruct (i =? x) eqn:E.
    + apply Z.eqb_eq in E; subst i. change (gcounts tb (x, v)) with ((0 <=? x) && counts tb v) in H.
      destruct (0 <=? x) eqn:E0; [|apply Z.leb_gt in E0; lia]. cbn [andb] in H.
      destruct (counts tb v) eqn:C; [|apply notcounts_blankish; exact C].
      cbn [fst] in H. pose proof (gmax_fold_ge r (Z.max m x)). lia.
    + eapply IH; eauto.
Qed.

(* columns are visited from 0 on, so only x >= 0 matters; cells at negative
   indices are never looked at and never counted *)
Lemma gmax_spec : forall r x, 0 <= x -> gmax tb r < x -> blankish (rget r x).
Proof. intros r x Hx H. rewrite (gmax_eq0 r) in H. eapply gmax_fold_spec; eauto. Qed.

Lemma gmax_nonneg : forall r, 0 <= gmax tb r.
Proof. intros r. rewrite (gmax_eq0 r). apply gmax_fold_ge. Qed.

Lemma notcounts_shows_blank : forall c p, blankish c -> pvis p = pvis 0 -> shows (blank p) c.
Proof.
  intros c p (E & Q) P. unfold shows, blank; cbn [tk tg tp]. rewrite E, str_eqb_refl.
  split; [reflexivity|]. split; [reflexivity|]. congruence.
Qed.

Lemma notcounts_shows_transfer : forall tc a b,
  blankish a -> blankish b -> shows tc b -> shows tc a.
Proof.
  intros tc a b (Ea & Qa) (Eb & Qb) (K & G & P). unfold shows in *.
  rewrite Eb, str_eqb_refl in P. rewrite Ea, str_eqb_refl.
  split; [exact K|]. split; [congruence|]. congruence.
Qed.

(* ---- invariants of the diff loop ---- *)
Definition CurOK (t : term) (pos : Z * Z) : Prop :=
  cy t = snd pos /\ cx t = Z.min (fst pos) (W - 1) /\ pend t = false /\
  0 <= fst pos <= W /\ 0 <= snd pos.
Definition PenOK (t : term) (ls : option Z) : Prop :=
  match ls with Some s => pen t = apen tb (sattr tb s) | None => True end.
Definition Inv (t : term) (pos : Z * Z) (ls : option Z) : Prop :=
  CurOK t pos /\ PenOK t ls /\ aw t = false.

Definition sbcp (t t' : term) : Prop :=
  tgrid t' = tgrid t /\ aw t' = aw t /\ cvis t' = cvis t /\ undef t' = undef t.

Lemma sbc_sbcp : forall t t', same_but_cursor t t' -> sbcp t t'.
Proof. unfold same_but_cursor, sbcp; intros t t' (A & B & C & D & E); auto. Qed.

Lemma sbcp_refl : forall t, sbcp t t.
Proof. unfold sbcp; auto. Qed.

Lemma sbcp_trans : forall a b c, sbcp a b -> sbcp b c -> sbcp a c.
Proof. unfold sbcp; intros a b c (A1&A2&A3&A4) (B1&B2&B3&B4). repeat split; congruence. Qed.

Lemma move_cursor_ok : forall t x y ls nx ny ls' ks,
  Inv t (x, y) ls -> 0 <= nx <= W - 1 -> 0 <= ny ->
  move_cursor W (x, y) ls (nx, ny) = (ls', ks) ->
  Inv (trun W t ks) (nx, ny) ls' /\ sbcp t (trun W t ks) /\ cx (trun W t ks) = nx /\
  (y < ny -> pen (trun W t ks) = 0 /\ ls' = None) /\
  (ny <= y -> pen (trun W t ks) = pen t /\ ls' = ls).
Proof.
  intros t x y ls nx ny ls' ks ((Cy & Cx & Cp & Cxr & Cyr) & PO & AW) Hnx Hny M.
  cbn [fst snd] in *. unfold move_cursor in M.
  destruct (y <? ny) eqn:E.
  - inversion M; subst ls' ks; clear M.
    rewrite trun_cons, trun_app.
    set (t1 := tstep W t (TSGR 0)).
    destruct (crlf_run W (Z.to_nat (ny - y)) t1 ltac:(lia)) as (S2 & X2 & Y2 & P2).
    set (t2 := trun W t1 (crlf (Z.to_nat (ny - y)))) in *.
    destruct (cuf_run0 W nx t2 Hnx X2 P2) as (S3 & X3 & Y3 & P3).
    set (t3 := trun W t2 (cuf nx)) in *.
    destruct S2 as (G2 & N2 & A2 & V2 & U2). destruct S3 as (G3 & N3 & A3 & V3 & U3).
    assert (N : pen t3 = 0) by (rewrite N3, N2; reflexivity).
    split; [|split; [|split; [|split]]].
    + split; [|split].
      * unfold CurOK; cbn [fst snd]. rewrite Y3, Y2, X3, P3. subst t1; cbn [tstep cy].
        split; [lia|]. split; [lia|]. split; [reflexivity|]. lia.
      * exact I.
      * rewrite A3, A2. exact AW.
    + unfold sbcp. rewrite G3, G2, A3, A2, V3, V2, U3, U2. subst t1; cbn; auto.
    + exact X3.
    + auto.
    + lia.
  - inversion M; subst ls' ks; clear M. rewrite trun_app.
    set (ka := if ny <? y then cuu (y - ny) else []).
    assert (SA : same_but_cursor t (trun W t ka) /\ cx (trun W t ka) = cx t /\ cy (trun W t ka) = ny
                 /\ pend (trun W t ka) = false).
    { subst ka. destruct (ny <? y) eqn:E2.
      - destruct (cuu_run W (y - ny) t ltac:(lia) Cp) as (S1 & X1 & Y1 & P1).
        split; [exact S1|]. split; [exact X1|]. split; [lia|exact P1].
      - cbn. split; [apply sbc_refl|]. split; [reflexivity|]. split; [lia|exact Cp]. }
    set (ta := trun W t ka) in *. destruct SA as (SA & XA & YA & PA).
    set (kb := if W - 1 <=? x then TCR :: cuf nx
               else if nx <? x then cub (x - nx) else if x <? nx then cuf (nx - x) else []).
    assert (SB : same_but_cursor ta (trun W ta kb) /\ cx (trun W ta kb) = nx /\ cy (trun W ta kb) = cy ta
                 /\ pend (trun W ta kb) = false).
    { subst kb. destruct (W - 1 <=? x) eqn:E1.
      - rewrite trun_cons. set (tc := tstep W ta TCR).
        destruct (cuf_run0 W nx tc Hnx ltac:(reflexivity) ltac:(reflexivity)) as (S1 & X1 & Y1 & P1).
        split; [|split; [exact X1|split; [exact Y1|exact P1]]].
        eapply sbc_trans; [|exact S1]. unfold same_but_cursor; subst tc; cbn; auto.
      - assert (CX : cx ta = x) by lia.
        destruct (nx <? x) eqn:E3.
        + destruct (cub_run W (x - nx) ta ltac:(lia) PA) as (S1 & X1 & Y1 & P1).
          split; [exact S1|]. split; [lia|]. split; [exact Y1|exact P1].
        + destruct (x <? nx) eqn:E4.
          * destruct (cuf_run W (nx - x) ta ltac:(lia) PA) as [(S1 & X1 & Y1 & P1)|(N0 & _)]; [|lia].
            split; [exact S1|]. split; [lia|]. split; [exact Y1|exact P1].
          * cbn. split; [apply sbc_refl|]. split; [lia|]. split; [reflexivity|exact PA]. }
    set (tf := trun W ta kb) in *. destruct SB as (SB & XB & YB & PB).
    pose proof (sbc_trans _ _ _ SA SB) as (G & N & A & V & U).
    split; [|split; [|split; [|split]]].
    + split; [|split].
      * unfold CurOK; cbn [fst snd]. split; [lia|]. split; [lia|]. split; [exact PB|]. lia.
      * unfold PenOK in *. destruct ls; auto. congruence.
      * congruence.
    + unfold sbcp; auto.
    + exact XB.
    + lia.
    + auto.
Qed.

Lemma move_cursor_run : forall b2 t x y ls nx ny ls' ks,
  Inv t (x, y) ls -> 0 <= nx -> 0 <= ny ->
  move_cursor W (x, y) ls (nx, ny) = (ls', ks) ->
  okrun (Z.max y ny) b2 W t ks.
Proof.
  intros b2 t x y ls nx ny ls' ks ((Cy & Cx & Cp & Cxr & Cyr) & PO & AW) Hnx Hny M.
  cbn [fst snd] in *. unfold move_cursor in M.
  destruct (y <? ny) eqn:E.
  - inversion M; subst ls' ks; clear M. cbn [okrun tstep cy is_write].
    split; [lia|]. split; [discriminate|].
    apply okrun_app. split.
    + apply okrun_crlf. cbn [cy]. lia.
    + apply okrun_nondesc; [apply nondesc_cuf| |lia].
      apply okrun_final with (b2 := b2); [cbn [cy]; lia|]. apply okrun_crlf. cbn [cy]. lia.
  - inversion M; subst ls' ks; clear M.
    apply okrun_nondesc; [|lia|lia].
    apply Forall_app. split.
    + destruct (ny <? y); [apply nondesc_cuu; lia|constructor].
    + destruct (W - 1 <=? x); [constructor; [exact I|apply nondesc_cuf]|].
      destruct (nx <? x); [apply nondesc_cub|]. destruct (x <? nx); [apply nondesc_cuf|constructor].
Qed.

Lemma put_narrow : forall t g,
  g <> [] -> pend t = false -> aw t = false -> tk (tgrid t (cy t) (cx t)) = 0 ->
  tgrid (tstep W t (TText g 1)) = upd (tgrid t) (cy t) (cx t) (mkcell g (pen t) 0) /\
  cx (tstep W t (TText g 1)) = Z.min (cx t + 1) (W - 1) /\
  cy (tstep W t (TText g 1)) = cy t /\ pen (tstep W t (TText g 1)) = pen t /\
  aw (tstep W t (TText g 1)) = false /\ pend (tstep W t (TText g 1)) = false /\
  cvis (tstep W t (TText g 1)) = cvis t /\ undef (tstep W t (TText g 1)) = undef t.
Proof.
  intros t g Hg Hp Ha Hk. unfold tstep. destruct g as [|g0 g']; [contradiction|].
  unfold put. change ((1 <? 1) || (2 <? 1)) with false. cbv iota.
  rewrite Hp, Ha. cbn [andb]. change (1 =? 2) with false. cbn [andb]. cbv iota.
  unfold boh. rewrite Hk. change (0 =? 1) with false. change (0 =? 2) with false. cbv iota.
  change (1 =? 1) with true. cbv iota.
  destruct (cx t + 1 <=? W - 1) eqn:E; cbn [tgrid cx cy pen aw pend cvis undef];
    repeat split; auto; lia.
Qed.

Lemma output_char_ok : forall t c y ls nc ls' ks,
  Inv t (c, y) ls -> 0 <= c <= W - 1 -> ncell nc -> tk (tgrid t y c) = 0 ->
  output_char tb ls nc = (ls', ks) ->
  Inv (trun W t ks) (c + 1, y) ls' /\ cvis (trun W t ks) = cvis t /\ undef (trun W t ks) = undef t /\
  tgrid (trun W t ks) = upd (tgrid t) y c (mkcell (ch nc) (apen tb (sattr tb (st nc))) 0).
Proof.
  intros t c y ls nc ls' ks ((Cy & Cx & Cp & Cxr & Cyr) & PO & AW) Hc (Hw & Hg) Hk O.
  set (cpen := fun c : cell => apen tb (sattr tb (st c))).
  change (apen tb (sattr tb (st nc))) with (cpen nc).
  cbn [fst snd] in *. assert (CX : cx t = c) by lia.
  unfold output_char in O. rewrite Hw in O.
  assert (FIN : forall t0, pend t0 = false -> aw t0 = false -> cx t0 = c -> cy t0 = y ->
            tgrid t0 = tgrid t -> pen t0 = cpen nc -> cvis t0 = cvis t -> undef t0 = undef t ->
            Inv (tstep W t0 (TText (ch nc) 1)) (c + 1, y) (Some (st nc)) /\
            cvis (tstep W t0 (TText (ch nc) 1)) = cvis t /\ undef (tstep W t0 (TText (ch nc) 1)) = undef t /\
            tgrid (tstep W t0 (TText (ch nc) 1)) = upd (tgrid t) y c (mkcell (ch nc) (cpen nc) 0)).
  { intros t0 P0 A0 X0 Y0 G0 N0 V0 U0.
    destruct (put_narrow t0 (ch nc) Hg P0 A0) as (G & X & Y & N & A & P & V & U).
    { rewrite G0, X0, Y0. exact Hk. }
    split; [|split; [|split]].
    - split; [|split]; [|unfold PenOK, cpen in *; congruence|exact A].
      unfold CurOK; cbn [fst snd]. split; [congruence|]. split; [lia|]. split; [exact P|]. lia.
    - congruence.
    - congruence.
    - rewrite G, G0, X0, Y0, N0. reflexivity. }
  destruct (match ls with Some s => s =? st nc | None => false end) eqn:SAME.
  - inversion O; subst ls' ks; clear O.
    destruct ls as [s|]; [|discriminate]. apply Z.eqb_eq in SAME. subst s.
    cbn [trun fold_left]. apply FIN; auto.
  - inversion O; subst ls' ks; clear O.
    destruct (ls_falsy ls || match ls with Some s => negb (sattr tb (st nc) =? sattr tb s) | None => true end) eqn:SET.
    + cbn [app trun fold_left]. apply FIN; cbn [tstep pend aw cx cy tgrid pen cvis undef]; auto.
    + cbn [app trun fold_left]. apply FIN; auto.
      apply orb_false_iff in SET. destruct SET as [_ S2].
      destruct ls as [s|]; [|discriminate]. apply negb_false_iff in S2. apply Z.eqb_eq in S2.
      unfold PenOK, cpen in *. congruence.
Qed.

(* drawing one cell: output_char, or the blank-in-default-attributes branch *)
Lemma draw_cell_ok : forall t c y ls nc ls' ks,
  Inv t (c, y) ls -> 0 <= c <= W - 1 -> ncell nc -> tk (tgrid t y c) = 0 ->
  (if is_transp nc then (@None Z, [TSGR 0; TText [32] 1]) else output_char tb ls nc) = (ls', ks) ->
  Inv (trun W t ks) (c + 1, y) ls' /\ cvis (trun W t ks) = cvis t /\ undef (trun W t ks) = undef t /\
  tgrid (trun W t ks) = upd (tgrid t) y c (mkcell (ch nc) (cpen nc) 0).
Proof.
  intros t c y ls nc ls' ks HI Hc Hn Hk O.
  destruct (is_transp nc) eqn:T.
  - inversion O; subst ls' ks; clear O.
    destruct HI as ((Cy & Cx & Cp & Cxr & Cyr) & PO & AW). cbn [fst snd] in *.
    assert (CX : cx t = c) by lia.
    unfold is_transp in T. apply andb_true_iff in T. destruct T as [T1 T2].
    pose proof (str_eqb_eq _ _ T1) as E.
    cbn [trun fold_left]. set (t0 := tstep W t (TSGR 0)).
    destruct (put_narrow t0 [32] ltac:(discriminate) Cp AW) as (G & X & Y & N & A & P & V & U).
    { subst t0; cbn [tstep tgrid cx cy]. rewrite CX, Cy. exact Hk. }
    split; [|split; [|split]].
    + split; [|split]; [|exact I|exact A].
      unfold CurOK; cbn [fst snd]. split; [rewrite Y; subst t0; cbn [tstep cy]; exact Cy|].
      split; [rewrite X; subst t0; cbn [tstep cx]; lia|]. split; [exact P|]. lia.
    + rewrite V. reflexivity.
    + rewrite U. reflexivity.
    + rewrite G. subst t0; cbn [tstep tgrid cx cy pen]. rewrite CX, Cy, E.
      unfold cpen, is_transp. rewrite E, str_eqb_refl, T2. reflexivity.
  - destruct (output_char_ok t c y ls nc ls' ks HI Hc Hn Hk O) as (I2 & V2 & U2 & G2).
    split; [exact I2|]. split; [exact V2|]. split; [exact U2|].
    rewrite G2. unfold cpen. rewrite T. reflexivity.
Qed.

Lemma draw_cell_run : forall b1 b2 t c y ls nc ls' ks,
  Inv t (c, y) ls -> y <= b1 -> y <= b2 ->
  (if is_transp nc then (@None Z, [TSGR 0; TText [32] 1]) else output_char tb ls nc) = (ls', ks) ->
  okrun b1 b2 W t ks.
Proof.
  intros b1 b2 t c y ls nc ls' ks ((Cy & Cx & Cp & Cxr & Cyr) & PO & AW) H1 H2 O.
  cbn [fst snd] in *.
  assert (ONE : forall t0 g w, cy t0 = y -> pend t0 = false -> okrun b1 b2 W t0 [TText g w]).
  { intros t0 g w Y0 P0. cbn [okrun]. rewrite text_cy by exact P0. split; [lia|]. split; [intros _; lia|exact I]. }
  assert (TWO : forall p g w, okrun b1 b2 W t [TSGR p; TText g w]).
  { intros p g w. cbn [okrun]. split; [cbn [tstep cy]; lia|]. split; [discriminate|].
    apply (ONE (tstep W t (TSGR p)) g w); cbn [tstep cy pend]; auto. }
  destruct (is_transp nc).
  - inversion O; subst. apply TWO.
  - unfold output_char in O.
    destruct (match ls with Some s => s =? st nc | None => false end).
    + inversion O; subst. apply ONE; auto.
    + inversion O; subst.
      destruct (ls_falsy ls || match ls with Some s => negb (sattr tb (st nc) =? sattr tb s) | None => true end);
        cbn [app]; [apply TWO|apply ONE; auto].
Qed.

Lemma upd_other : forall g y x v y' x', (y' <> y \/ x' <> x) -> upd g y x v y' x' = g y' x'.
Proof.
  intros. unfold upd. destruct ((y' =? y) && (x' =? x)) eqn:E; auto.
  apply andb_true_iff in E. destruct E as [E1 E2]. apply Z.eqb_eq in E1. apply Z.eqb_eq in E2. lia.
Qed.

Lemma upd_same : forall g y x v, upd g y x v y x = v.
Proof. intros. unfold upd. rewrite !Z.eqb_refl. reflexivity. Qed.

Lemma shows_written : forall c, shows (mkcell (ch c) (cpen c) 0) c.
Proof. intros c. unfold shows; cbn [tk tg tp]. destruct (str_eqb (ch c) [32]); auto. Qed.

(* the column loop of row y, from column c on *)
Lemma cols_ok : forall fuel y nr pr zw nmax c pos ls t pos' ls' ks,
  0 <= y -> nrow nr -> nmax <= W - 1 -> 0 <= c -> nmax + 1 - c <= Z.of_nat fuel ->
  Inv t pos ls ->
  (forall x, c <= x <= nmax -> shows (tgrid t y x) (rget pr x)) ->
  cols fuel tb W y nr pr zw nmax c pos ls = (pos', ls', ks) ->
  Inv (trun W t ks) pos' ls' /\ cvis (trun W t ks) = cvis t /\ undef (trun W t ks) = undef t /\
  (forall y' x, y' <> y \/ x < c \/ nmax < x -> tgrid (trun W t ks) y' x = tgrid t y' x) /\
  (forall x, c <= x <= nmax -> shows (tgrid (trun W t ks) y x) (rget nr x)) /\
  okrun (Z.max (snd pos) y) y W t ks.
Proof.
  induction fuel as [|f IH]; intros y nr pr zw nmax c pos ls t pos' ls' ks Hy Hn Hm Hc Hf HI HS C.
  - cbn [cols] in C. inversion C; subst. cbn [trun fold_left].
    split; [exact HI|]. split; [reflexivity|]. split; [reflexivity|]. split; [auto|].
    split; [intros x Hx; lia|exact I].
  - cbn [cols] in C. destruct (nmax <? c) eqn:E.
    + inversion C; subst. cbn [trun fold_left].
      split; [exact HI|]. split; [reflexivity|]. split; [reflexivity|]. split; [auto|].
      split; [intros x Hx; lia|exact I].
    + pose proof (rget_ncell nr c Hn) as (Hw & Hg).
      rewrite Hw in C. change (1 =? 0) with false in C. cbv iota in C.
      destruct (differs (rget nr c) (rget pr c)) eqn:D.
      * destruct pos as [px py].
        destruct (move_cursor W (px, py) ls (c, y)) as [ls1 k1] eqn:M.
        destruct (if is_transp (rget nr c) then (@None Z, [TSGR 0; TText [32] 1])
                  else output_char tb ls1 (rget nr c)) as [ls2 k3] eqn:O.
        destruct (cols f tb W y nr pr zw nmax (c + 1) (c + 1, y) ls2) as [[p2 l2] k4] eqn:C2.
        inversion C; subst pos' ls' ks; clear C.
        rewrite !trun_app.
        destruct (move_cursor_ok t px py ls c y ls1 k1 HI ltac:(lia) Hy M) as (I1 & (G1 & A1 & V1 & U1) & _).
        set (t1 := trun W t k1) in *. pose proof I1 as I1'.
        assert (Z1 : trun W t1 (match zget zw y c with Some i => [TRaw i] | None => [] end) = t1)
          by (destruct (zget zw y c); reflexivity).
        rewrite Z1.
        assert (K1 : tk (tgrid t1 y c) = 0) by (rewrite G1; apply (HS c); lia).
        destruct (draw_cell_ok t1 c y ls1 (rget nr c) ls2 k3 I1 ltac:(lia) (conj Hw Hg) K1 O)
          as (I2 & V2 & U2 & G2).
        set (t2 := trun W t1 k3) in *.
        assert (HS2 : forall x, c + 1 <= x <= nmax -> shows (tgrid t2 y x) (rget pr x)).
        { intros x Hx. rewrite G2, upd_other by lia. rewrite G1. apply HS. lia. }
        destruct (IH y nr pr zw nmax (c + 1) (c + 1, y) ls2 t2 p2 l2 k4 Hy Hn Hm ltac:(lia) ltac:(lia) I2 HS2 C2)
          as (I3 & V3 & U3 & G3 & S3 & O3).
        split; [exact I3|]. split; [congruence|]. split; [congruence|]. split; [|split].
        { intros y' x Hx. rewrite G3 by lia. rewrite G2, upd_other by lia. rewrite G1. reflexivity. }
        { intros x Hx. destruct (Z.eq_dec x c) as [->|Ne].
          - rewrite G3 by lia. rewrite G2, upd_same. apply shows_written.
          - apply S3. lia. }
        { cbn [fst snd] in *. destruct I1 as ((Cy1 & _) & _). cbn [snd] in Cy1.
          apply okrun_app. split; [eapply move_cursor_run; eauto; lia|]. fold t1.
          apply okrun_app. split.
          - destruct (zget zw y c); [|exact I]. cbn [okrun tstep cy is_write].
            split; [lia|]. split; [discriminate|exact I].
          - rewrite Z1. apply okrun_app. split.
            + eapply draw_cell_run; [exact (conj (conj Cy1 (proj2 (proj1 I1'))) (proj2 I1'))| | |exact O]; lia.
            + fold t2. eapply okrun_mono; [| |exact O3]; lia. }
      * assert (HS2 : forall x, c + 1 <= x <= nmax -> shows (tgrid t y x) (rget pr x))
          by (intros x Hx; apply HS; lia).
        destruct (IH y nr pr zw nmax (c + 1) pos ls t pos' ls' ks Hy Hn Hm ltac:(lia) ltac:(lia) HI HS2 C)
          as (I3 & V3 & U3 & G3 & S3 & O3).
        split; [exact I3|]. split; [exact V3|]. split; [exact U3|]. split; [|split].
        { intros y' x Hx. apply G3. lia. }
        { intros x Hx. destruct (Z.eq_dec x c) as [->|Ne].
          - rewrite G3 by lia. eapply shows_same; [exact D|]. apply HS. lia.
          - apply S3. lia. }
        { exact O3. }
Qed.

Definition scell (s : screen) (y x : Z) : cell := rget (sget (srows s) y) x.

Lemma Zmin_cases : forall a b, (Z.min a b = a /\ a <= b) \/ (Z.min a b = b /\ b <= a).
Proof. intros; lia. Qed.

(* one row: column loop, then the trailing trim *)
Lemma do_row_ok : forall y scr prev pos ls t pos' ls' ks,
  0 <= y -> nscreen scr -> Inv t pos ls ->
  (forall x, 0 <= x < W -> shows (tgrid t y x) (scell prev y x)) ->
  do_row tb W y scr prev pos ls = (pos', ls', ks) ->
  Inv (trun W t ks) pos' ls' /\ cvis (trun W t ks) = cvis t /\ undef (trun W t ks) = undef t /\
  (forall y' x, y' <> y -> tgrid (trun W t ks) y' x = tgrid t y' x) /\
  (forall x, 0 <= x < W -> shows (tgrid (trun W t ks) y x) (scell scr y x)) /\
  okrun (Z.max (snd pos) y) y W t ks.
Proof.
  intros y scr prev pos ls t pos' ls' ks Hy Hn HI HS R.
  unfold do_row in R.
  set (nr := sget (srows scr) y) in *. set (pr := sget (srows prev) y) in *.
  pose proof (gmax_nonneg nr) as Gn. pose proof (gmax_nonneg pr) as Gp.
  set (nmax := Z.min (W - 1) (gmax tb nr)) in *. set (pmax := Z.min (W - 1) (gmax tb pr)) in *.
  assert (Hnr : nrow nr) by (apply sget_nrow; exact Hn).
  destruct (cols (Z.to_nat (nmax + 1)) tb W y nr pr (szwe scr) nmax 0 pos ls) as [[pos1 ls1] k1] eqn:C.
  assert (N0 : 0 <= nmax <= W - 1) by (subst nmax; lia).
  assert (HS0 : forall x, 0 <= x <= nmax -> shows (tgrid t y x) (rget pr x)) by (intros x Hx; apply HS; lia).
  destruct (cols_ok (Z.to_nat (nmax + 1)) y nr pr (szwe scr) nmax 0 pos ls t pos1 ls1 k1 Hy Hnr ltac:(lia) ltac:(lia) ltac:(lia) HI HS0 C)
    as (I1 & V1 & U1 & G1 & S1 & O1).
  set (t1 := trun W t k1) in *.
  assert (P1 : snd pos1 <= Z.max (snd pos) y).
  { destruct I1 as ((C1 & _) & _). rewrite <- C1. apply okrun_final with (b2 := y); [|exact O1].
    destruct HI as ((C0 & _) & _). lia. }
  destruct (nmax <? pmax) eqn:E.
  - destruct pos1 as [p1x p1y].
    destruct (move_cursor W (p1x, p1y) ls1 (nmax + 1, y)) as [lsx k2] eqn:M.
    inversion R; subst pos' ls' ks; clear R.
    assert (P0 : pmax <= W - 1) by (subst pmax; lia).
    destruct (move_cursor_ok t1 p1x p1y ls1 (nmax + 1) y lsx k2 I1 ltac:(lia) Hy M)
      as (((Cy & Cx & Cp & Cxr & Cyr) & _ & AW2) & (G2 & A2 & V2 & U2) & X2 & _).
    rewrite !trun_app. fold t1. set (t2 := trun W t1 k2) in *. cbn [fst snd] in *.
    cbn [trun fold_left tstep].
    assert (K : tk (tgrid t2 y (nmax + 1)) = 0).
    { rewrite G2, G1 by lia. apply (HS (nmax + 1)). lia. }
    assert (GM : nmax = gmax tb nr) by (subst nmax; lia).
    split; [|split; [|split; [|split; [|split]]]]; cycle 5.
    { apply okrun_app. split; [exact O1|]. fold t1. apply okrun_app. split.
      - eapply okrun_mono; [| |eapply move_cursor_run with (b2 := y); [exact I1| | |exact M]; lia]; lia.
      - fold t2. cbn [okrun tstep cy is_write]. split; [lia|]. split; [discriminate|].
        split; [lia|]. split; [intros _; lia|exact I]. }
    + split; [|split]; [|exact I|exact AW2].
      unfold CurOK; cbn [cx cy pend fst snd]. split; [exact Cy|]. split; [exact Cx|]. split; [exact Cp|]. lia.
    + cbn [cvis]. congruence.
    + cbn [undef]. congruence.
    + intros y' x Hne. cbn [tgrid]. unfold erase_line; cbn [tgrid cx cy pen].
      rewrite Cy, X2, K. change (0 =? 2) with false. cbv iota.
      destruct ((y' =? y) && (nmax + 1 <=? x)) eqn:B.
      * apply andb_true_iff in B. destruct B as [B _]. apply Z.eqb_eq in B. lia.
      * rewrite G2. apply G1. auto.
    + intros x Hx. cbn [tgrid]. unfold erase_line; cbn [tgrid cx cy pen].
      rewrite Cy, X2, K. change (0 =? 2) with false. cbv iota. rewrite Z.eqb_refl. cbn [andb].
      destruct (nmax + 1 <=? x) eqn:B.
      * apply notcounts_shows_blank; [|reflexivity]. apply gmax_spec; [lia|]. change (gmax tb nr < x). lia.
      * rewrite G2. apply S1. lia.
  - inversion R; subst pos' ls' ks; clear R. fold t1.
    split; [exact I1|]. split; [exact V1|]. split; [exact U1|]. split; [|split]; cycle 2.
    { exact O1. }
    + intros y' x Hne. apply G1. auto.
    + intros x Hx. destruct (x <=? nmax) eqn:B.
      * apply S1. lia.
      * rewrite G1 by lia.
        assert (GM : nmax = gmax tb nr) by (subst nmax; lia).
        assert (GP : pmax = gmax tb pr) by (subst pmax nmax; lia).
        apply (notcounts_shows_transfer _ _ (rget pr x)).
        -- apply gmax_spec; [lia|]. change (gmax tb nr < x). lia.
        -- apply gmax_spec; [lia|]. lia.
        -- apply HS. lia.
Qed.

Lemma rows_loop_ok : forall n y scr prev pos ls t pos' ls' ks,
  0 <= y -> nscreen scr -> Inv t pos ls ->
  (forall y' x, y <= y' < y + Z.of_nat n -> 0 <= x < W -> shows (tgrid t y' x) (scell prev y' x)) ->
  rows_loop n tb W y scr prev pos ls = (pos', ls', ks) ->
  Inv (trun W t ks) pos' ls' /\ cvis (trun W t ks) = cvis t /\ undef (trun W t ks) = undef t /\
  (forall y' x, y' < y \/ y + Z.of_nat n <= y' -> tgrid (trun W t ks) y' x = tgrid t y' x) /\
  (forall y' x, y <= y' < y + Z.of_nat n -> 0 <= x < W -> shows (tgrid (trun W t ks) y' x) (scell scr y' x)) /\
  okrun (Z.max (snd pos) (y + Z.of_nat n - 1)) (y + Z.of_nat n - 1) W t ks.
Proof.
  induction n as [|n IH]; intros y scr prev pos ls t pos' ls' ks Hy Hn HI HS R.
  - cbn [rows_loop] in R. inversion R; subst. cbn [trun fold_left].
    split; [exact HI|]. split; [reflexivity|]. split; [reflexivity|]. split; [auto|].
    split; [intros; lia|exact I].
  - cbn [rows_loop] in R.
    destruct (do_row tb W y scr prev pos ls) as [[pos1 ls1] k1] eqn:D.
    destruct (rows_loop n tb W (y + 1) scr prev pos1 ls1) as [[pos2 ls2] k2] eqn:R2.
    inversion R; subst pos' ls' ks; clear R. rewrite trun_app.
    destruct (do_row_ok y scr prev pos ls t pos1 ls1 k1 Hy Hn HI ltac:(intros x Hx; apply HS; lia) D)
      as (I1 & V1 & U1 & G1 & S1 & O1).
    set (t1 := trun W t k1) in *.
    assert (HS1 : forall y' x, y + 1 <= y' < y + 1 + Z.of_nat n -> 0 <= x < W -> shows (tgrid t1 y' x) (scell prev y' x)).
    { intros y' x Hy' Hx. rewrite G1 by lia. apply HS; lia. }
    destruct (IH (y + 1) scr prev pos1 ls1 t1 pos2 ls2 k2 ltac:(lia) Hn I1 HS1 R2) as (I2 & V2 & U2 & G2 & S2 & O2).
    assert (P1 : snd pos1 <= Z.max (snd pos) y).
    { destruct I1 as ((C1 & _) & _). rewrite <- C1. apply okrun_final with (b2 := y); [|exact O1].
      destruct HI as ((C0 & _) & _). lia. }
    split; [exact I2|]. split; [congruence|]. split; [congruence|]. split; [|split].
    + intros y' x Hy'. rewrite G2 by lia. apply G1. lia.
    + intros y' x Hy' Hx. destruct (Z.eq_dec y' y) as [->|Ne].
      * rewrite G2 by lia. apply S1. exact Hx.
      * apply S2; lia.
    + apply okrun_app. split.
      * eapply okrun_mono; [| |exact O1]; lia.
      * fold t1. eapply okrun_mono; [| |exact O2]; lia.
Qed.

(* Screen.height may exceed the terminal height H (a float reaching below the
   last row): only rows < H are drawn.  The cursor is inside the terminal. *)
Definition wf_screen (H : Z) (s : screen) : Prop :=
  nscreen s /\ 0 <= sh s /\ (forall y, sh s <= y -> sget (srows s) y = []) /\
  0 <= scx s <= W - 1 /\ 0 <= scy s < Z.max H 1.

(* the part of the screen that fits the terminal *)
Definition vcell (H : Z) (s : screen) (y x : Z) : cell := if y <? H then scell s y x else dcell.

Definition Shows (H : Z) (t : term) (s : screen) : Prop :=
  forall y x, 0 <= y -> 0 <= x < W -> shows (tgrid t y x) (vcell H s y x).

Lemma shows_blank_dcell : shows (blank 0) dcell.
Proof.
  apply notcounts_shows_blank; [apply blankish_dcell|reflexivity].
Qed.

Lemma scell_beyond : forall H s y x, wf_screen H s -> sh s <= y -> scell s y x = dcell.
Proof. intros H s y x (_ & _ & E & _) Hy. unfold scell. rewrite E by exact Hy. reflexivity. Qed.

(* everything after the full-repaint decision *)
Lemma diff_body_ok : forall H fs done scr prev pos ls t pos' cv' ks,
  0 <= H -> wf_screen H scr -> wf_screen H prev -> Inv t pos ls -> Shows H t prev -> cvis t = false ->
  (done = true -> sh prev = 0 /\ pen t = 0) ->
  diff_body tb W H fs done scr prev pos ls (Some false) = (pos', cv', ks) ->
  let t' := trun W t ks in
  let cur_h := Z.min (sh scr) H in
  undef t' = undef t /\
  (done = false -> forall y x, Z.max (sh scr) (sh prev) <= y -> tgrid t' y x = tgrid t y x) /\
  okrun (Z.max (Z.max (snd pos) (Z.min (Z.max (sh scr) (sh prev)) H - 1)) (if done then cur_h else scy scr))
        (Z.min (Z.max (sh scr) (sh prev)) H - 1) W t ks /\
  (forall y x, y < 0 -> tgrid t' y x = tgrid t y x) /\
  pen t' = 0 /\ pend t' = false /\ aw t' = (done || negb fs) /\
  cvis t' = sshow scr /\ cv' = Some (sshow scr) /\
  cx t' = fst pos' /\ cy t' = snd pos' /\
  (done = false -> pos' = (scx scr, scy scr) /\ Shows H t' scr) /\
  (done = true -> pos' = (0, cur_h) /\
     (forall y x, 0 <= y < cur_h -> 0 <= x < W -> shows (tgrid t' y x) (scell scr y x)) /\
     (forall y x, cur_h <= y -> 0 <= x -> tgrid t' y x = blank 0)).
Proof.
  intros H fs done scr prev pos ls t pos' cv' ks HH Ws Wp HI HS CV HD D.
  pose proof Ws as (Ns & Hs & Es & Cxs & Cys). pose proof Wp as (_ & Hp & Ep & _).
  unfold diff_body in D.
  set (cur_h := Z.min (sh scr) H) in *.
  set (rc := Z.min (Z.max (sh scr) (sh prev)) H) in *.
  destruct (rows_loop (Z.to_nat rc) tb W 0 scr prev pos ls) as [[pos1 ls1] k1] eqn:R.
  destruct (rows_loop_ok (Z.to_nat rc) 0 scr prev pos ls t pos1 ls1 k1 ltac:(lia) Ns HI
              ltac:(intros y' x Hy' Hx; specialize (HS y' x ltac:(lia) Hx); unfold vcell in HS;
                    destruct (y' <? H) eqn:BH; [exact HS|subst rc; lia]) R) as (I1 & V1 & U1 & G1 & S1 & O1).
  set (t1 := trun W t k1) in *.
  assert (RC : rc <= H /\ (rc < H -> rc = Z.max (sh scr) (sh prev))) by (subst rc; lia).
  assert (SH1 : Shows H t1 scr).
  { intros y x Hy Hx. destruct (y <? rc) eqn:B.
    - unfold vcell. destruct (y <? H) eqn:BH; [|lia]. apply S1; lia.
    - rewrite G1 by lia. specialize (HS y x Hy Hx). unfold vcell in *.
      destruct (y <? H) eqn:BH; [|exact HS].
      rewrite (scell_beyond H scr) by (auto; lia).
      rewrite (scell_beyond H prev y x) in HS by (auto; lia). exact HS. }
  (* reserve vertical space *)
  set (mv := if sh prev <? cur_h
             then let '(l, t) := move_cursor W pos1 ls1 (0, cur_h - 1) in ((0, cur_h - 1), l, t)
             else (pos1, ls1, [])) in *.
  destruct mv as [[pos2 ls2] k2] eqn:MV.
  assert (RC0 : Z.of_nat (Z.to_nat rc) = rc) by (subst rc; lia).
  assert (CH : cur_h <= rc) by (subst cur_h rc; lia).
  assert (P1 : snd pos1 <= Z.max (snd pos) (rc - 1)).
  { destruct I1 as ((C1 & _) & _). rewrite <- C1. apply okrun_final with (b2 := rc - 1).
    - destruct HI as ((C0 & _) & _). lia.
    - eapply okrun_mono; [| |exact O1]; lia. }
  assert (M2 : (Inv (trun W t1 k2) pos2 ls2 /\ sbcp t1 (trun W t1 k2)) /\
               ((sh prev <? cur_h) = true -> pos2 = (0, cur_h - 1)) /\
               ((sh prev <? cur_h) = false -> k2 = []) /\
               okrun (Z.max (snd pos1) (cur_h - 1)) (rc - 1) W t1 k2 /\
               snd pos2 <= Z.max (snd pos1) (cur_h - 1)).
  { subst mv. destruct (sh prev <? cur_h) eqn:B.
    - destruct pos1 as [p1x p1y]. destruct (move_cursor W (p1x, p1y) ls1 (0, cur_h - 1)) as [l k] eqn:M.
      inversion MV; subst pos2 ls2 k2; clear MV.
      destruct (move_cursor_ok t1 p1x p1y ls1 0 (cur_h - 1) l k I1 ltac:(lia) ltac:(lia) M) as (I2 & SB & _).
      split; [auto|]. split; [reflexivity|]. split; [discriminate|]. split; [|cbn [snd]; lia].
      eapply move_cursor_run; [exact I1| | |exact M]; lia.
    - inversion MV; subst pos2 ls2 k2; clear MV. cbn [trun fold_left].
      split; [split; [exact I1|apply sbcp_refl]|]. split; [discriminate|]. split; [reflexivity|].
      split; [exact I|lia]. }
  destruct M2 as ((I2 & (G2 & A2 & V2 & U2)) & MVa & MVb & O2 & P2). set (t2 := trun W t1 k2) in *.
  assert (OK12 : forall tgt, okrun (Z.max (Z.max (snd pos) (rc - 1)) tgt) (rc - 1) W t (k1 ++ k2)).
  { intros tgt. apply okrun_app. split.
    - eapply okrun_mono; [| |exact O1]; lia.
    - eapply okrun_mono; [| |exact O2]; lia. }
  destruct I1 as (_ & _ & AW1).
  destruct pos2 as [p2x p2y].
  destruct done.
  - (* done *)
    destruct (move_cursor W (p2x, p2y) ls2 (0, cur_h)) as [l3 k3] eqn:M3.
    destruct (if sshow scr then show_cursor (Some false) else (Some false, [])) as [cvx k5] eqn:SC.
    cbn [orb] in D. inversion D; subst pos' cv' ks; clear D.
    destruct (move_cursor_ok t2 p2x p2y ls2 0 cur_h l3 k3 I2 ltac:(lia) ltac:(lia) M3)
      as (((Cy & Cx & Cp & _) & _ & AW3) & (G3 & A3 & V3 & U3) & X3 & PD & PS).
    cbn [fst snd] in *.
    assert (OKR : okrun (Z.max (Z.max (snd pos) (rc - 1)) cur_h) (rc - 1) W t
                    (k1 ++ k2 ++ (k3 ++ [TED]) ++ TAW true :: TSGR 0 :: k5)).
    { rewrite app_assoc. apply okrun_app. split; [apply OK12|].
      rewrite trun_app. fold t1. fold t2. apply okrun_app. split.
      - apply okrun_app. split.
        + eapply okrun_mono; [| |eapply move_cursor_run with (b2 := rc - 1); [exact I2| | |exact M3]; lia]; lia.
        + cbn [okrun tstep cy is_write]. split; [lia|]. split; [discriminate|exact I].
      - apply okrun_nondesc; [| |subst cur_h; lia].
        + destruct (sshow scr); cbn in SC; inversion SC; subst; repeat constructor.
        + rewrite trun_app. cbn [trun fold_left tstep cy]. lia. }
    destruct (HD eq_refl) as (P0 & PT).
    assert (PEN3 : pen (trun W t2 k3) = 0).
    { destruct (Z_lt_le_dec p2y cur_h) as [Lt|Le]; [apply PD; exact Lt|].
      destruct (PS Le) as (PS1 & _). rewrite PS1.
      destruct (sh prev <? cur_h) eqn:B.
      - specialize (MVa eq_refl). inversion MVa. lia.
      - assert (RCZ : Z.to_nat rc = 0%nat) by lia.
        rewrite RCZ in R. cbn [rows_loop] in R. inversion R. subst pos1 ls1 k1.
        subst t2 t1. rewrite (MVb eq_refl). cbn [trun fold_left]. exact PT. }
    rewrite !trun_app. fold t1. fold t2. set (t3 := trun W t2 k3) in *.
    assert (TAIL : forall tt, trun W tt (TAW true :: TSGR 0 :: k5) =
              mkterm (tgrid tt) (cx tt) (cy tt) 0 true (sshow scr || cvis tt) (pend tt) (undef tt) /\ cvx = Some (sshow scr)).
    { intros tt. destruct (sshow scr); cbn in SC; inversion SC; subst; cbn; auto. }
    destruct (TAIL (trun W t3 [TED])) as (TE & CVE). rewrite TE.
    cbn [trun fold_left tstep tgrid cx cy pen aw cvis pend undef orb].
    split; [congruence|]. split; [discriminate|]. split; [exact OKR|].
    split; [intros y x Hy; rewrite erase_down_above by lia; rewrite G3, G2; apply G1; lia|].
    split; [reflexivity|]. split; [exact Cp|]. split; [reflexivity|].
    split; [rewrite V3, V2, V1, CV; destruct (sshow scr); reflexivity|]. split; [exact CVE|].
    split; [exact X3|]. split; [exact Cy|]. split; [discriminate|].
    intros _. split; [reflexivity|]. split.
    + intros y x Hy Hx. unfold erase_down, erase_line.
      destruct (cy t3 <? y) eqn:B1; [lia|].
      destruct ((y =? cy t3) && (cx t3 <=? x)) eqn:B2.
      { apply andb_true_iff in B2. destruct B2 as [B2 _]. apply Z.eqb_eq in B2. lia. }
      assert (GG : forall g, (if tk (tgrid t3 (cy t3) (cx t3)) =? 2 then boh (tgrid t3) (cy t3) (cx t3) else tgrid t3) = g ->
                  g y x = tgrid t3 y x).
      { intros g <-. destruct (tk (tgrid t3 (cy t3) (cx t3)) =? 2); [|reflexivity].
        unfold boh. destruct (tk (tgrid t3 (cy t3) (cx t3)) =? 1); [apply upd_other; lia|].
        destruct (tk (tgrid t3 (cy t3) (cx t3)) =? 2); [apply upd_other; lia|reflexivity]. }
      rewrite (GG _ eq_refl). rewrite G3, G2. specialize (SH1 y x ltac:(lia) Hx). unfold vcell in SH1.
      destruct (y <? H) eqn:BH; [exact SH1|lia].
    + intros y x Hy Hx. unfold erase_down, erase_line. rewrite PEN3.
      destruct (cy t3 <? y) eqn:B1; [reflexivity|].
      assert (y = cy t3) by lia. subst y. rewrite Z.eqb_refl. rewrite X3.
      destruct (0 <=? x) eqn:B3; [reflexivity|lia].
  - (* not done *)
    destruct (move_cursor W (p2x, p2y) ls2 (scx scr, scy scr)) as [l3 k3] eqn:M3.
    destruct (if sshow scr then show_cursor (Some false) else (Some false, [])) as [cvx k5] eqn:SC.
    cbn [orb] in D. inversion D; subst pos' cv' ks; clear D.
    destruct (move_cursor_ok t2 p2x p2y ls2 (scx scr) (scy scr) l3 k3 I2 ltac:(lia) ltac:(lia) M3)
      as (((Cy & Cx & Cp & _) & _ & AW3) & (G3 & A3 & V3 & U3) & X3 & _).
    cbn [fst snd] in *.
    assert (OKR : okrun (Z.max (Z.max (snd pos) (rc - 1)) (scy scr)) (rc - 1) W t
                    (k1 ++ k2 ++ k3 ++ (if negb fs then [TAW true] else []) ++ TSGR 0 :: k5)).
    { rewrite app_assoc. apply okrun_app. split; [apply OK12|].
      rewrite trun_app. fold t1. fold t2. apply okrun_app. split.
      - eapply okrun_mono; [| |eapply move_cursor_run with (b2 := rc - 1); [exact I2| | |exact M3]; lia]; lia.
      - apply okrun_nondesc; [| |lia].
        + destruct (sshow scr); cbn in SC; inversion SC; subst; destruct fs; repeat constructor.
        + lia. }
    rewrite !trun_app. fold t1. fold t2. set (t3 := trun W t2 k3) in *.
    assert (TAIL : forall tt, trun W (trun W tt (if negb fs then [TAW true] else [])) (TSGR 0 :: k5) =
              mkterm (tgrid tt) (cx tt) (cy tt) 0 (if negb fs then true else aw tt) (sshow scr || cvis tt)
                     (pend tt) (undef tt) /\ cvx = Some (sshow scr)).
    { intros tt. destruct (sshow scr); cbn in SC; inversion SC; subst; destruct fs; cbn; destruct tt; auto. }
    destruct (TAIL t3) as (TE & CVE). rewrite TE.
    cbn [tgrid cx cy pen aw cvis pend undef].
    split; [congruence|].
    split; [intros _ y x Hy; rewrite G3, G2; apply G1; lia|].
    split; [exact OKR|].
    split; [intros y x Hy; rewrite G3, G2; apply G1; lia|].
    split; [reflexivity|]. split; [exact Cp|].
    split; [rewrite AW3; destruct fs; reflexivity|].
    split; [rewrite V3, V2, V1, CV; destruct (sshow scr); reflexivity|]. split; [exact CVE|].
    split; [exact X3|]. split; [exact Cy|]. split; [|discriminate].
    intros _. split; [reflexivity|].
    intros y x Hy Hx. cbn [tgrid]. rewrite G3, G2. apply SH1; auto.
Qed.

Definition cvrel (cv : option bool) (t : term) : Prop :=
  match cv with Some b => cvis t = b | None => True end.

Lemma wf_empty : forall H, 0 <= H -> wf_screen H empty_screen.
Proof.
  intros H HH. unfold wf_screen, empty_screen, nscreen; cbn [srows sh scx scy].
  split; [constructor|]. split; [lia|]. split; [reflexivity|]. lia.
Qed.

(* what a render establishes *)
Definition Rendered (H : Z) (fs done : bool) (scr : screen) (t : term) (pos : Z * Z) (cv : option bool) : Prop :=
  let cur_h := Z.min (sh scr) H in
  pen t = 0 /\ pend t = false /\ aw t = (done || negb fs) /\
  cvis t = sshow scr /\ cv = Some (sshow scr) /\ cx t = fst pos /\ cy t = snd pos /\
  (done = false -> pos = (scx scr, scy scr) /\ Shows H t scr) /\
  (done = true -> pos = (0, cur_h) /\
     (forall y x, 0 <= y < cur_h -> 0 <= x < W -> shows (tgrid t y x) (scell scr y x)) /\
     (forall y x, cur_h <= y -> 0 <= x -> tgrid t y x = blank 0)).

Lemma screen_diff_ok : forall H fs done scr prev pos prevW cv t pos' cv' ks,
  0 <= H -> wf_screen H scr ->
  cx t = fst pos -> cy t = snd pos -> 0 <= fst pos <= W - 1 -> 0 <= snd pos -> pend t = false ->
  cvrel cv t ->
  match prev with
  | None => True
  | Some p => wf_screen H p /\ Shows H t p /\ pen t = 0 /\ (fs = true -> aw t = false)
  end ->
  screen_diff tb W H fs done scr prev pos None prevW cv = (pos', cv', ks) ->
  undef (trun W t ks) = undef t /\ Rendered H fs done scr (trun W t ks) pos' cv' /\
  (forall p, prev = Some p -> done = false -> prevW = W ->
     forall y x, Z.max (sh scr) (sh p) <= y -> tgrid (trun W t ks) y x = tgrid t y x) /\
  (forall y x, y < 0 -> tgrid (trun W t ks) y x = tgrid t y x) /\
  (* rows visited / written: b bounds the cursor row throughout, the second bound the rows written *)
  (forall b, snd pos <= b -> (if done then Z.min (sh scr) H else scy scr) <= b ->
     Z.min (Z.max (sh scr) (match prev with Some p => sh p | None => 0 end)) H - 1 <= b -> 0 <= b ->
     okrun b (Z.min (Z.max (sh scr) (match prev with Some p => sh p | None => 0 end)) H - 1) W t ks).
Proof.
  intros H fs done scr prev pos prevW cv t pos' cv' ks HH Ws Cx Cy Cxr Cyr Cp CV HP D.
  unfold screen_diff in D.
  destruct (hide_cursor cv) as [cv1 k0] eqn:HC.
  destruct (if is_none prev then (@None Z, [TSGR 0]) else (@None Z, [])) as [ls1 k1] eqn:K1.
  set (k2 := if is_none prev || negb fs then [TAW false] else []) in *.
  (* state after the prologue *)
  assert (PRO : let ta := trun W t (k0 ++ k1 ++ k2) in
                tgrid ta = tgrid t /\ cx ta = cx t /\ cy ta = cy t /\ pend ta = false /\ undef ta = undef t /\
                cvis ta = false /\ cv1 = Some false /\ aw ta = false /\ pen ta = 0 /\ ls1 = None).
  { assert (HCV : cv1 = Some false /\ (forall tt, cvrel cv tt -> trun W tt k0 =
                    mkterm (tgrid tt) (cx tt) (cy tt) (pen tt) (aw tt) false (pend tt) (undef tt))).
    { unfold hide_cursor in HC. destruct cv as [[|]|]; inversion HC; subst; split; auto;
        intros tt R; destruct tt; cbn in *; try reflexivity. subst; reflexivity. }
    destruct HCV as (E1 & HK0). cbv zeta. rewrite !trun_app, (HK0 t CV).
    subst k2. destruct prev as [p|]; cbn [is_none orb] in *.
    - destruct HP as (_ & _ & PN & AWf). inversion K1; subst ls1 k1.
      destruct fs; cbn [negb trun fold_left tstep tgrid cx cy pen aw cvis pend undef].
      + repeat (split; [first [reflexivity|assumption|auto]|]). auto.
      + repeat (split; [first [reflexivity|assumption|auto]|]). auto.
    - inversion K1; subst ls1 k1.
      cbn [negb trun fold_left tstep tgrid cx cy pen aw cvis pend undef].
      repeat (split; [first [reflexivity|assumption|auto]|]). auto. }
  cbv zeta in PRO. destruct PRO as (Ga & Xa & Ya & Pa & Ua & Va & E1 & Aa & Na & El). subst cv1 ls1.
  set (ta := trun W t (k0 ++ k1 ++ k2)) in *.
  assert (Ia : Inv ta pos None).
  { split; [|split; [exact I|exact Aa]]. unfold CurOK. split; [congruence|]. split; [lia|]. split; [exact Pa|]. lia. }
  assert (OKP : forall b b2, snd pos <= b -> 0 <= b -> okrun b b2 W t (k0 ++ k1 ++ k2)).
  { intros b b2 Hb Hb0. apply okrun_nondesc; [|lia|exact Hb0].
    apply Forall_app. split; [|apply Forall_app; split].
    - unfold hide_cursor in HC. destruct cv as [[|]|]; inversion HC; subst; repeat constructor.
    - destruct (is_none prev); inversion K1; subst; repeat constructor.
    - subst k2. destruct (is_none prev || negb fs); repeat constructor. }
  assert (SHP : 0 <= match prev with Some p => sh p | None => 0 end).
  { destruct prev as [p|]; [|lia]. destruct HP as ((_ & Hp0 & _) & _). lia. }
  pose proof Ws as (_ & Hs0 & _).
  destruct (done || is_none prev || negb (prevW =? W)) eqn:FULL.
  - destruct pos as [px py].
    destruct (move_cursor W (px, py) None (0, 0)) as [lx k3] eqn:M.
    destruct (diff_body tb W H fs done scr empty_screen (0, 0) None (Some false)) as [[p3 c3] k4] eqn:DB.
    inversion D; subst pos' cv' ks; clear D.
    destruct (move_cursor_ok ta px py None 0 0 lx k3 Ia ltac:(lia) ltac:(lia) M)
      as (((Cyb & Cxb & Cpb & _) & _ & AWb) & (Gb & Ab & Vb & Ub) & Xb & _).
    cbn [fst snd] in *.
    replace (k0 ++ k1 ++ k2 ++ (k3 ++ [TSGR 0; TED]) ++ k4)
      with ((k0 ++ k1 ++ k2) ++ k3 ++ [TSGR 0; TED] ++ k4) by (rewrite <- !app_assoc; reflexivity).
    rewrite trun_app. fold ta. rewrite !trun_app. set (tb3 := trun W ta k3) in *.
    set (tc := trun W tb3 [TSGR 0; TED]).
    assert (TC : tgrid tc = erase_down (tstep W tb3 (TSGR 0)) /\ cx tc = 0 /\ cy tc = 0 /\ pen tc = 0 /\
                 aw tc = false /\ cvis tc = false /\ pend tc = false /\ undef tc = undef t).
    { subst tc. cbn [trun fold_left tstep tgrid cx cy pen aw cvis pend undef].
      repeat (split; [first [reflexivity|congruence]|]). congruence. }
    destruct TC as (Gc & Xc & Yc & Nc & Ac & Vc & Pc & Uc).
    assert (Ic : Inv tc (0, 0) None).
    { split; [|split; [exact I|exact Ac]]. unfold CurOK; cbn [fst snd]. split; [exact Yc|]. split; [lia|]. split; [exact Pc|]. lia. }
    assert (Sc : Shows H tc empty_screen).
    { intros y x Hy Hx. rewrite Gc. unfold erase_down, erase_line. cbn [tstep cx cy pen tgrid].
      rewrite Xb, Cyb.
      assert (VE : vcell H empty_screen y x = dcell) by (unfold vcell; destruct (y <? H); reflexivity).
      rewrite VE.
      destruct (0 <? y) eqn:B; [apply shows_blank_dcell|].
      assert (y = 0) by lia. subst y. rewrite Z.eqb_refl. destruct (0 <=? x) eqn:B2; [|lia].
      cbn [andb]. apply shows_blank_dcell. }
    pose proof (diff_body_ok H fs done scr empty_screen (0, 0) None tc p3 c3 k4 HH Ws (wf_empty H HH) Ic Sc Vc
                  ltac:(intros _; split; [reflexivity|exact Nc]) DB) as R.
    cbv zeta in R. destruct R as (U4 & _ & OKB & AB & R).
    split; [congruence|]. split; [unfold Rendered; exact R|]. split.
    { intros p EP ED EW. subst prev done prevW. cbn [is_none orb] in FULL. rewrite Z.eqb_refl in FULL. discriminate. }
    split.
    { intros y x Hy. rewrite AB by exact Hy. rewrite Gc. rewrite erase_down_above by (cbn [tstep cy]; lia).
      cbn [tstep tgrid]. rewrite Gb, Ga. reflexivity. }
    intros b B1 B2 B3 B0.
    replace (k0 ++ k1 ++ k2 ++ (k3 ++ [TSGR 0; TED]) ++ k4)
      with ((k0 ++ k1 ++ k2) ++ k3 ++ [TSGR 0; TED] ++ k4) by (rewrite <- !app_assoc; reflexivity).
    apply okrun_app. split; [apply OKP; auto|]. fold ta.
    apply okrun_app. split.
    { eapply okrun_mono; [| |eapply move_cursor_run; [exact Ia| | |exact M]; lia]; [lia|apply Z.le_refl]. }
    fold tb3. apply okrun_app. split.
    { apply okrun_nondesc; [repeat constructor|lia|exact B0]. }
    fold tc. cbn [sh empty_screen snd] in OKB. eapply okrun_mono; [| |exact OKB]; lia.
  - destruct prev as [p|]; [|rewrite orb_true_r in FULL; discriminate].
    cbn [is_none] in FULL. apply orb_false_iff in FULL. destruct FULL as [F1 _].
    apply orb_false_iff in F1. destruct F1 as [F1 _]. subst done.
    destruct HP as (Wp & Sp & _).
    destruct (diff_body tb W H fs false scr p pos None (Some false)) as [[p3 c3] k4] eqn:DB.
    inversion D; subst pos' cv' ks; clear D.
    replace (k0 ++ k1 ++ k2 ++ k4) with ((k0 ++ k1 ++ k2) ++ k4) by (rewrite <- !app_assoc; reflexivity).
    rewrite trun_app. fold ta.
    assert (Sa : Shows H ta p) by (intros y x Hy Hx; rewrite Ga; apply Sp; auto).
    pose proof (diff_body_ok H fs false scr p pos None ta p3 c3 k4 HH Ws Wp Ia Sa Va ltac:(discriminate) DB) as R.
    cbv zeta in R. destruct R as (U4 & FR & OKB & AB & R).
    split; [congruence|]. split; [unfold Rendered; exact R|]. split.
    { intros p' EP _ _ y x Hy. inversion EP; subst p'. rewrite (FR eq_refl y x Hy). rewrite Ga. reflexivity. }
    split.
    { intros y x Hy. rewrite AB by exact Hy. rewrite Ga. reflexivity. }
    intros b B1 B2 B3 B0.
    replace (k0 ++ k1 ++ k2 ++ k4) with ((k0 ++ k1 ++ k2) ++ k4) by (rewrite <- !app_assoc; reflexivity).
    apply okrun_app. split; [apply OKP; auto|]. fold ta.
    eapply okrun_mono; [| |exact OKB]; lia.
Qed.

End Diff.
