(* C06 - one diff-render keeps terminal and renderer in sync, for cells of
   display width 1 AND wide cells (width 2 followed by their "" shadow cell, not
   straddling the right edge).  The proof follows the code: move_cursor,
   output_char, the column loop (induction on the fuel = remaining columns; the
   invariant allows one "damaged" column at the loop position: the orphaned
   right half of a wide glyph the terminal blanked when its left half was
   overwritten), one row with its trailing trim, the row loop, then the epilogue. *)
From Coq Require Import ZArith List Bool Lia.
From PTK Require Import Lib.Sx Lib.Py Model.C06_Terminal Model.C06_Renderer Proofs.C06_TermFacts Proofs.C06_RowFacts.
Import ListNotations.
Open Scope Z_scope.

Lemma upd_other : forall g y x v y' x', (y' <> y \/ x' <> x) -> upd g y x v y' x' = g y' x'.
Proof.
  intros. unfold upd. destruct ((y' =? y) && (x' =? x)) eqn:E; auto.
  apply andb_true_iff in E. destruct E as [E1 E2]. apply Z.eqb_eq in E1. apply Z.eqb_eq in E2. lia.
Qed.

Lemma upd_same : forall g y x v, upd g y x v y x = v.
Proof. intros. unfold upd. rewrite !Z.eqb_refl. reflexivity. Qed.

(* the cell after the drawn glyph: blanked when the glyph's last column held the
   left half of a wide glyph whose right half is now an orphan *)
Definition dcond (g : grid) (y x w : Z) : bool :=
  if w =? 1 then tk (g y x) =? 1 else negb (tk (g y x) =? 1) && (tk (g y (x + 1)) =? 1).

Lemma put_ok : forall W t g w,
  g <> [] -> (w = 1 \/ w = 2) -> pend t = false -> aw t = false ->
  cx t + w <= W -> tk (tgrid t (cy t) (cx t)) <> 2 ->
  let t' := tstep W t (TText g w) in
  cx t' = Z.min (cx t + w) (W - 1) /\ cy t' = cy t /\ pen t' = pen t /\ aw t' = false /\ pend t' = false /\
  cvis t' = cvis t /\ undef t' = undef t /\
  (forall y' x', y' <> cy t \/ x' < cx t \/ cx t + w < x' -> tgrid t' y' x' = tgrid t y' x') /\
  tgrid t' (cy t) (cx t) = mkcell g (pen t) (if w =? 1 then 0 else 1) /\
  (w = 2 -> tgrid t' (cy t) (cx t + 1) = mkcell [] (pen t) 2) /\
  tgrid t' (cy t) (cx t + w) =
    (if dcond (tgrid t) (cy t) (cx t) w then mkcell [32] (tp (tgrid t (cy t) (cx t + w))) 0
     else tgrid t (cy t) (cx t + w)).
Proof.
  intros W t g w Hg Hw Hp Ha Hx Hk. cbv zeta. unfold tstep. destruct g as [|g0 g']; [contradiction|].
  set (gg := g0 :: g'). unfold put.
  assert (E1 : ((w <? 1) || (2 <? w)) = false) by (destruct Hw; subst; reflexivity).
  rewrite E1, Hp, Ha. cbn [andb].
  assert (E2 : ((w =? 2) && (W - 1 <=? cx t)) = false).
  { destruct Hw; subst; [reflexivity|]. cbn [andb Z.eqb]. apply Z.leb_gt. lia. }
  rewrite E2.
  set (y := cy t) in *. set (x := cx t) in *. set (G := tgrid t) in *.
  assert (K2 : (tk (G y x) =? 2) = false) by (apply Z.eqb_neq; exact Hk).
  destruct Hw as [-> | ->].
  - (* narrow *)
    change (1 =? 2) with false. change (1 =? 1) with true. cbv iota.
    assert (CUR : forall G4 : grid,
      cx (if x + 1 <=? W - 1 then mkterm G4 (x + 1) y (pen t) false (cvis t) false (undef t)
          else mkterm G4 (W - 1) y (pen t) false (cvis t) false (undef t)) = Z.min (x + 1) (W - 1)).
    { intros G4. destruct (x + 1 <=? W - 1) eqn:E; cbn [cx]; lia. }
    assert (GR : forall G4 : grid,
      tgrid (if x + 1 <=? W - 1 then mkterm G4 (x + 1) y (pen t) false (cvis t) false (undef t)
          else mkterm G4 (W - 1) y (pen t) false (cvis t) false (undef t)) = G4).
    { intros G4. destruct (x + 1 <=? W - 1); reflexivity. }
    split; [apply CUR|].
    split; [destruct (x + 1 <=? W - 1); reflexivity|]. split; [destruct (x + 1 <=? W - 1); reflexivity|].
    split; [destruct (x + 1 <=? W - 1); reflexivity|]. split; [destruct (x + 1 <=? W - 1); reflexivity|].
    split; [destruct (x + 1 <=? W - 1); reflexivity|]. split; [destruct (x + 1 <=? W - 1); reflexivity|].
    rewrite GR. unfold dcond. change (1 =? 1) with true. cbv iota.
    unfold boh. rewrite K2. destruct (tk (G y x) =? 1) eqn:K1.
    + split; [intros y' x' Hx'; rewrite !upd_other by lia; reflexivity|].
      split; [apply upd_same|]. split; [discriminate|].
      rewrite upd_other by lia. apply upd_same.
    + split; [intros y' x' Hx'; rewrite !upd_other by lia; reflexivity|].
      split; [apply upd_same|]. split; [discriminate|].
      rewrite upd_other by lia. reflexivity.
  - (* wide *)
    change (2 =? 2) with true. change (2 =? 1) with false. cbv iota.
    assert (GR : forall G4 : grid,
      tgrid (if x + 2 <=? W - 1 then mkterm G4 (x + 2) y (pen t) false (cvis t) false (undef t)
          else mkterm G4 (W - 1) y (pen t) false (cvis t) false (undef t)) = G4).
    { intros G4. destruct (x + 2 <=? W - 1); reflexivity. }
    split; [destruct (x + 2 <=? W - 1) eqn:E; cbn [cx]; lia|].
    split; [destruct (x + 2 <=? W - 1); reflexivity|]. split; [destruct (x + 2 <=? W - 1); reflexivity|].
    split; [destruct (x + 2 <=? W - 1); reflexivity|]. split; [destruct (x + 2 <=? W - 1); reflexivity|].
    split; [destruct (x + 2 <=? W - 1); reflexivity|]. split; [destruct (x + 2 <=? W - 1); reflexivity|].
    rewrite GR. unfold dcond. change (2 =? 1) with false. cbv iota.
    destruct (tk (G y x) =? 1) eqn:K1.
    + (* left half of an old wide glyph at x: x+1 blanked first *)
      assert (B1 : boh G y x = upd G y (x + 1) (mkcell [32] (tp (G y (x + 1))) 0))
        by (unfold boh; rewrite K1; reflexivity).
      rewrite B1.
      assert (B2 : forall g1 : grid, tk (g1 y (x + 1)) = 0 -> boh g1 y (x + 1) = g1)
        by (intros g1 E; unfold boh; rewrite E; reflexivity).
      rewrite B2 by (rewrite upd_same; reflexivity).
      cbn [negb andb].
      split; [intros y' x' Hx'; rewrite !upd_other by lia; reflexivity|].
      split; [rewrite upd_other by lia; apply upd_same|].
      split; [intros _; apply upd_same|].
      rewrite !upd_other by lia. reflexivity.
    + assert (B1 : boh G y x = G) by (unfold boh; rewrite K1, K2; reflexivity).
      rewrite B1. cbn [negb andb]. unfold boh. destruct (tk (G y (x + 1)) =? 1) eqn:K3.
      * split; [intros y' x' Hx'; rewrite !upd_other by lia; reflexivity|].
        split; [rewrite upd_other by lia; apply upd_same|].
        split; [intros _; apply upd_same|].
        rewrite !upd_other by lia. replace (x + 1 + 1) with (x + 2) by lia. apply upd_same.
      * destruct (tk (G y (x + 1)) =? 2) eqn:K4.
        -- split; [intros y' x' Hx'; rewrite !upd_other by lia; reflexivity|].
           split; [rewrite upd_other by lia; apply upd_same|].
           split; [intros _; apply upd_same|].
           rewrite !upd_other by lia. reflexivity.
        -- split; [intros y' x' Hx'; rewrite !upd_other by lia; reflexivity|].
           split; [rewrite upd_other by lia; apply upd_same|].
           split; [intros _; apply upd_same|].
           rewrite !upd_other by lia. reflexivity.
Qed.

Section Diff.
Variable W : Z.
Variable tb : tabs.
Variable pvis : Z -> Z.
(* display width of a cell text (wcwidth); the screens of a history agree on it *)
Variable wof : list Z -> Z.
Hypothesis HW : 1 <= W.
(* attributes that has_style ignores do not render on a blank *)
Hypothesis Hpv : forall a, ahs tb a = false -> pvis (apen tb a) = pvis 0.
Hypothesis Hw32 : wof [32] = 1.

(* the pen a screen cell is displayed with: a blank in the default style
   "[transparent]" is an untouched cell, shown in the default attributes *)
Definition cpen (c : cell) : Z := if is_transp c then 0 else apen tb (sattr tb (st c)).

(* terminal cell [tc] displays column x of the row [cf] (modulo attributes
   invisible on a blank): a narrow cell, the left half of a wide cell, or the
   right half ("shadow" cell, text "") carrying the pen of the wide cell *)
Definition showsx (tc : tcell) (cf : Z -> cell) (x : Z) : Prop :=
  if wd (cf x) =? 0 then tk tc = 2 /\ tg tc = [] /\ tp tc = cpen (cf (x - 1))
  else tk tc = (if wd (cf x) =? 2 then 1 else 0) /\ tg tc = ch (cf x) /\
       (if str_eqb (ch (cf x)) [32] then pvis (tp tc) = pvis (cpen (cf x)) else tp tc = cpen (cf x)).

(* well-formed column x of a row: narrow cell with a text; wide cell not
   straddling the right edge and followed by its shadow; shadow right after a
   wide cell.  Only the visible columns 0..W-1 are constrained. *)
Definition kind_ok (cf : Z -> cell) (x : Z) : Prop :=
  wd (cf x) = wof (ch (cf x)) /\
  ((wd (cf x) = 1 /\ ch (cf x) <> []) \/
   (wd (cf x) = 2 /\ ch (cf x) <> [] /\ x + 1 <= W - 1 /\ wd (cf (x + 1)) = 0) \/
   (wd (cf x) = 0 /\ ch (cf x) = [] /\ 1 <= x /\ wd (cf (x - 1)) = 2)).
Definition wrowf (cf : Z -> cell) : Prop := forall x, 0 <= x <= W - 1 -> kind_ok cf x.
Definition wrow (r : row) : Prop := wrowf (rget r).
Definition wscreen (s : screen) : Prop := forall y, wrow (sget (srows s) y).

Lemma wrowf_dcell : wrowf (fun _ => dcell).
Proof.
  intros x Hx. unfold kind_ok, dcell; cbn [wd ch]. split; [symmetry; exact Hw32|].
  left. split; [reflexivity|discriminate].
Qed.

Lemma wrow_nil : wrow [].
Proof. exact wrowf_dcell. Qed.

Lemma differs_false : forall a b, differs a b = false -> ch a = ch b /\ st a = st b.
Proof.
  intros a b D. unfold differs in D. apply orb_false_iff in D. destruct D as [D1 D2].
  apply negb_false_iff in D1. apply negb_false_iff in D2. apply str_eqb_eq in D1. apply Z.eqb_eq in D2. auto.
Qed.

Lemma cpen_eq : forall a b, ch a = ch b -> st a = st b -> cpen a = cpen b.
Proof. intros a b E1 E2. unfold cpen, is_transp. rewrite E1, E2. reflexivity. Qed.

(* a non-shadow column depends on its own cell only *)
Lemma showsx_ns : forall tc cf cf' x,
  wd (cf x) <> 0 -> ch (cf' x) = ch (cf x) -> st (cf' x) = st (cf x) -> wd (cf' x) = wd (cf x) ->
  showsx tc cf x -> showsx tc cf' x.
Proof.
  intros tc cf cf' x N E1 E2 E3 S. unfold showsx in *. rewrite E3.
  destruct (wd (cf x) =? 0) eqn:Z0; [apply Z.eqb_eq in Z0; contradiction|].
  rewrite E1, (cpen_eq (cf' x) (cf x) E1 E2). exact S.
Qed.

Lemma showsx_sh : forall tc cf cf' x,
  wd (cf x) = 0 -> wd (cf' x) = 0 -> cpen (cf' (x - 1)) = cpen (cf (x - 1)) ->
  showsx tc cf x -> showsx tc cf' x.
Proof.
  intros tc cf cf' x Z1 Z2 E S. unfold showsx in *. rewrite Z1 in S. rewrite Z2.
  change (0 =? 0) with true in *. cbv iota in *. rewrite E. exact S.
Qed.

Lemma showsx_ext : forall tc cf cf' x, cf' x = cf x -> cf' (x - 1) = cf (x - 1) -> showsx tc cf x -> showsx tc cf' x.
Proof. intros tc cf cf' x E1 E2 S. unfold showsx in *. rewrite E1, E2. exact S. Qed.

Lemma showsx_tk1 : forall tc cf x, showsx tc cf x -> tk tc = 1 -> wd (cf x) = 2.
Proof.
  intros tc cf x S K. unfold showsx in S. destruct (wd (cf x) =? 0); [destruct S as (S & _); lia|].
  destruct S as (S & _). destruct (wd (cf x) =? 2) eqn:E; [apply Z.eqb_eq in E; exact E|lia].
Qed.

Lemma showsx_wide : forall tc cf x, showsx tc cf x -> wd (cf x) = 2 -> tk tc = 1.
Proof.
  intros tc cf x S K. unfold showsx in S. rewrite K in S. change (2 =? 0) with false in S.
  change (2 =? 2) with true in S. cbv iota in S. tauto.
Qed.

Lemma showsx_ns_tk : forall tc cf x, showsx tc cf x -> wd (cf x) <> 0 -> tk tc <> 2.
Proof.
  intros tc cf x S N. unfold showsx in S.
  destruct (wd (cf x) =? 0) eqn:Z0; [apply Z.eqb_eq in Z0; contradiction|].
  destruct S as (S & _). destruct (wd (cf x) =? 2); lia.
Qed.

(* ---- get_max_column_index ---- *)
Definition gmax0 (r : row) : Z :=
  fold_left (fun m e => if gcounts tb e then Z.max m (fst e) else m) r 0.

Lemma gmax_opt_fold : forall r mo,
  match mo with Some m => 0 <= m | None => True end ->
  match fold_left (fun m e => if gcounts tb e
                              then Some (match m with Some v => Z.max v (fst e) | None => fst e end)
                              else m) r mo with Some v => v | None => 0 end =
  fold_left (fun m e => if gcounts tb e then Z.max m (fst e) else m) r
            (match mo with Some m => m | None => 0 end).
Proof.
  induction r as [|e r IH]; intros mo M; cbn [fold_left]; [destruct mo; reflexivity|].
  destruct (gcounts tb e) eqn:G.
  - unfold gcounts in G. apply andb_true_iff in G. destruct G as [G0 _]. apply Z.leb_le in G0.
    rewrite IH; [|destruct mo; lia]. destruct mo as [m|]; cbn; [reflexivity|].
    rewrite Z.max_r by lia. reflexivity.
  - apply IH; assumption.
Qed.

Lemma gmax_eq0 : forall r, gmax tb r = gmax0 r.
Proof. intros r. unfold gmax, gmax_opt, gmax0. apply (gmax_opt_fold r None I). Qed.

Lemma gmax_fold_ge : forall r m,
  m <= fold_left (fun m e => if gcounts tb e then Z.max m (fst e) else m) r m.
Proof.
  induction r as [|e r IH]; intros m; cbn [fold_left]; [lia|].
  destruct (gcounts tb e); [specialize (IH (Z.max m (fst e))); lia | apply IH].
Qed.

(* a cell that shows as a blank in (visibly) default attributes *)
Definition blankish (c : cell) : Prop := ch c = [32] /\ pvis (cpen c) = pvis 0.

Lemma notcounts_blankish : forall c, counts tb c = false -> blankish c.
Proof.
  intros c C. unfold counts in C. apply orb_false_iff in C. destruct C as [C1 C2].
  apply negb_false_iff in C1. split; [apply str_eqb_eq; exact C1|].
  unfold cpen. destruct (is_transp c); [reflexivity|apply Hpv; exact C2].
Qed.

Lemma blankish_dcell : blankish dcell.
Proof. split; reflexivity. Qed.

(* get_max_column_index looks at explicit cells only: beyond it, a cell is
   either explicit and not counting, or absent (the default char) *)
Lemma gmax_fold_spec : forall r m x,
  0 <= x ->
  fold_left (fun m e => if gcounts tb e then Z.max m (fst e) else m) r m < x ->
  blankish (rget r x).
Proof.
  induction r as [|[i v] r IH]; intros m x Hx H; cbn [fold_left rget] in *.
  - apply blankish_dcell.
  - destruct (i =? x) eqn:E.
    + apply Z.eqb_eq in E; subst i. change (gcounts tb (x, v)) with ((0 <=? x) && counts tb v) in H.
      destruct (0 <=? x) eqn:E0; [|apply Z.leb_gt in E0; lia]. cbn [andb] in H.
      destruct (counts tb v) eqn:C; [|apply notcounts_blankish; exact C].
      cbn [fst] in H. pose proof (gmax_fold_ge r (Z.max m x)). lia.
    + eapply IH; eauto.
Qed.

(* columns are visited from 0 on, so only x >= 0 matters; cells at negative
   indices are never looked at and never counted *)
Lemma gmax_spec : forall r x, 0 <= x -> gmax tb r < x -> blankish (rget r x).
Proof. intros r x Hx H. rewrite (gmax_eq0 r) in H. eapply gmax_fold_spec; eauto. Qed.

Lemma gmax_nonneg : forall r, 0 <= gmax tb r.
Proof. intros r. rewrite (gmax_eq0 r). apply gmax_fold_ge. Qed.

Lemma blankish_wd : forall cf x, kind_ok cf x -> blankish (cf x) -> wd (cf x) = 1.
Proof. intros cf x (K & _) (E & _). rewrite K, E. exact Hw32. Qed.

Lemma notcounts_shows_blank : forall cf x p,
  blankish (cf x) -> wd (cf x) = 1 -> pvis p = pvis 0 -> showsx (blank p) cf x.
Proof.
  intros cf x p (E & Q) Wd P. unfold showsx, blank; cbn [tk tg tp]. rewrite Wd, E.
  change (1 =? 0) with false. change (1 =? 2) with false. cbv iota. rewrite str_eqb_refl.
  split; [reflexivity|]. split; [reflexivity|]. congruence.
Qed.

Lemma notcounts_shows_transfer : forall tc cf cf' x,
  blankish (cf x) -> blankish (cf' x) -> wd (cf x) = 1 -> wd (cf' x) = 1 ->
  showsx tc cf' x -> showsx tc cf x.
Proof.
  intros tc cf cf' x (Ea & Qa) (Eb & Qb) Wa Wb S. unfold showsx in *. rewrite Wb in S. rewrite Wa.
  change (1 =? 0) with false in *. change (1 =? 2) with false in *. cbv iota in *.
  rewrite Eb, str_eqb_refl in S. rewrite Ea, str_eqb_refl.
  destruct S as (K & G & P). split; [exact K|]. split; [congruence|]. congruence.
Qed.

(* ---- invariants of the diff loop ---- *)
Definition CurOK (t : term) (pos : Z * Z) : Prop :=
  cy t = snd pos /\ cx t = Z.min (fst pos) (W - 1) /\ pend t = false /\
  0 <= fst pos <= W /\ 0 <= snd pos.
Definition PenOK (t : term) (ls : option Z) : Prop :=
  match ls with Some s => pen t = apen tb (sattr tb s) | None => True end.
Definition Inv (t : term) (pos : Z * Z) (ls : option Z) : Prop :=
  CurOK t pos /\ PenOK t ls /\ aw t = false.

Definition sbcp (t t' : term) : Prop :=
  tgrid t' = tgrid t /\ aw t' = aw t /\ cvis t' = cvis t /\ undef t' = undef t.

Lemma sbc_sbcp : forall t t', same_but_cursor t t' -> sbcp t t'.
Proof. unfold same_but_cursor, sbcp; intros t t' (A & B & C & D & E); auto. Qed.

Lemma sbcp_refl : forall t, sbcp t t.
Proof. unfold sbcp; auto. Qed.

Lemma sbcp_trans : forall a b c, sbcp a b -> sbcp b c -> sbcp a c.
Proof. unfold sbcp; intros a b c (A1&A2&A3&A4) (B1&B2&B3&B4). repeat split; congruence. Qed.

Lemma move_cursor_ok : forall t x y ls nx ny ls' ks,
  Inv t (x, y) ls -> 0 <= nx <= W - 1 -> 0 <= ny ->
  move_cursor W (x, y) ls (nx, ny) = (ls', ks) ->
  Inv (trun W t ks) (nx, ny) ls' /\ sbcp t (trun W t ks) /\ cx (trun W t ks) = nx /\
  (y < ny -> pen (trun W t ks) = 0 /\ ls' = None) /\
  (ny <= y -> pen (trun W t ks) = pen t /\ ls' = ls).
Proof.
  intros t x y ls nx ny ls' ks ((Cy & Cx & Cp & Cxr & Cyr) & PO & AW) Hnx Hny M.
  cbn [fst snd] in *. unfold move_cursor in M.
  destruct (y <? ny) eqn:E.
  - inversion M; subst ls' ks; clear M.
    rewrite trun_cons, trun_app.
    set (t1 := tstep W t (TSGR 0)).
    destruct (crlf_run W (Z.to_nat (ny - y)) t1 ltac:(lia)) as (S2 & X2 & Y2 & P2).
    set (t2 := trun W t1 (crlf (Z.to_nat (ny - y)))) in *.
    destruct (cuf_run0 W nx t2 Hnx X2 P2) as (S3 & X3 & Y3 & P3).
    set (t3 := trun W t2 (cuf nx)) in *.
    destruct S2 as (G2 & N2 & A2 & V2 & U2). destruct S3 as (G3 & N3 & A3 & V3 & U3).
    assert (N : pen t3 = 0) by (rewrite N3, N2; reflexivity).
    split; [|split; [|split; [|split]]].
    + split; [|split].
      * unfold CurOK; cbn [fst snd]. rewrite Y3, Y2, X3, P3. subst t1; cbn [tstep cy].
        split; [lia|]. split; [lia|]. split; [reflexivity|]. lia.
      * exact I.
      * rewrite A3, A2. exact AW.
    + unfold sbcp. rewrite G3, G2, A3, A2, V3, V2, U3, U2. subst t1; cbn; auto.
    + exact X3.
    + auto.
    + lia.
  - inversion M; subst ls' ks; clear M. rewrite trun_app.
    set (ka := if ny <? y then cuu (y - ny) else []).
    assert (SA : same_but_cursor t (trun W t ka) /\ cx (trun W t ka) = cx t /\ cy (trun W t ka) = ny
                 /\ pend (trun W t ka) = false).
    { subst ka. destruct (ny <? y) eqn:E2.
      - destruct (cuu_run W (y - ny) t ltac:(lia) Cp) as (S1 & X1 & Y1 & P1).
        split; [exact S1|]. split; [exact X1|]. split; [lia|exact P1].
      - cbn. split; [apply sbc_refl|]. split; [reflexivity|]. split; [lia|exact Cp]. }
    set (ta := trun W t ka) in *. destruct SA as (SA & XA & YA & PA).
    set (kb := if W - 1 <=? x then TCR :: cuf nx
               else if nx <? x then cub (x - nx) else if x <? nx then cuf (nx - x) else []).
    assert (SB : same_but_cursor ta (trun W ta kb) /\ cx (trun W ta kb) = nx /\ cy (trun W ta kb) = cy ta
                 /\ pend (trun W ta kb) = false).
    { subst kb. destruct (W - 1 <=? x) eqn:E1.
      - rewrite trun_cons. set (tc := tstep W ta TCR).
        destruct (cuf_run0 W nx tc Hnx ltac:(reflexivity) ltac:(reflexivity)) as (S1 & X1 & Y1 & P1).
        split; [|split; [exact X1|split; [exact Y1|exact P1]]].
        eapply sbc_trans; [|exact S1]. unfold same_but_cursor; subst tc; cbn; auto.
      - assert (CX : cx ta = x) by lia.
        destruct (nx <? x) eqn:E3.
        + destruct (cub_run W (x - nx) ta ltac:(lia) PA) as (S1 & X1 & Y1 & P1).
          split; [exact S1|]. split; [lia|]. split; [exact Y1|exact P1].
        + destruct (x <? nx) eqn:E4.
          * destruct (cuf_run W (nx - x) ta ltac:(lia) PA) as [(S1 & X1 & Y1 & P1)|(N0 & _)]; [|lia].
            split; [exact S1|]. split; [lia|]. split; [exact Y1|exact P1].
          * cbn. split; [apply sbc_refl|]. split; [lia|]. split; [reflexivity|exact PA]. }
    set (tf := trun W ta kb) in *. destruct SB as (SB & XB & YB & PB).
    pose proof (sbc_trans _ _ _ SA SB) as (G & N & A & V & U).
    split; [|split; [|split; [|split]]].
    + split; [|split].
      * unfold CurOK; cbn [fst snd]. split; [lia|]. split; [lia|]. split; [exact PB|]. lia.
      * unfold PenOK in *. destruct ls; auto. congruence.
      * congruence.
    + unfold sbcp; auto.
    + exact XB.
    + lia.
    + auto.
Qed.

Lemma move_cursor_run : forall b2 t x y ls nx ny ls' ks,
  Inv t (x, y) ls -> 0 <= nx -> 0 <= ny ->
  move_cursor W (x, y) ls (nx, ny) = (ls', ks) ->
  okrun (Z.max y ny) b2 W t ks.
Proof.
  intros b2 t x y ls nx ny ls' ks ((Cy & Cx & Cp & Cxr & Cyr) & PO & AW) Hnx Hny M.
  cbn [fst snd] in *. unfold move_cursor in M.
  destruct (y <? ny) eqn:E.
  - inversion M; subst ls' ks; clear M. cbn [okrun tstep cy is_write].
    split; [lia|]. split; [discriminate|].
    apply okrun_app. split.
    + apply okrun_crlf. cbn [cy]. lia.
    + apply okrun_nondesc; [apply nondesc_cuf| |lia].
      apply okrun_final with (b2 := b2); [cbn [cy]; lia|]. apply okrun_crlf. cbn [cy]. lia.
  - inversion M; subst ls' ks; clear M.
    apply okrun_nondesc; [|lia|lia].
    apply Forall_app. split.
    + destruct (ny <? y); [apply nondesc_cuu; lia|constructor].
    + destruct (W - 1 <=? x); [constructor; [exact I|apply nondesc_cuf]|].
      destruct (nx <? x); [apply nondesc_cub|]. destruct (x <? nx); [apply nondesc_cuf|constructor].
Qed.

(* what drawing a glyph of width w at column c of row y does to the grid *)
Definition DrawnAt (t t' : term) (y c w : Z) (g : list Z) (p : Z) : Prop :=
  (forall y' x', y' <> y \/ x' < c \/ c + w < x' -> tgrid t' y' x' = tgrid t y' x') /\
  tgrid t' y c = mkcell g p (if w =? 1 then 0 else 1) /\
  (w = 2 -> tgrid t' y (c + 1) = mkcell [] p 2) /\
  tgrid t' y (c + w) = (if dcond (tgrid t) y c w then mkcell [32] (tp (tgrid t y (c + w))) 0
                        else tgrid t y (c + w)).

Lemma text_ok : forall t0 t c y g w p ls,
  g <> [] -> (w = 1 \/ w = 2) -> 0 <= c -> 0 <= y -> c + w <= W -> tk (tgrid t y c) <> 2 ->
  pend t0 = false -> aw t0 = false -> cx t0 = c -> cy t0 = y -> tgrid t0 = tgrid t -> pen t0 = p ->
  (match ls with Some s => p = apen tb (sattr tb s) | None => True end) ->
  let t' := tstep W t0 (TText g w) in
  Inv t' (c + w, y) ls /\ cvis t' = cvis t0 /\ undef t' = undef t0 /\ DrawnAt t t' y c w g p.
Proof.
  intros t0 t c y g w p ls Hg Hw Hc Hy Hcw Hk P0 A0 X0 Y0 G0 N0 HL. cbv zeta.
  destruct (put_ok W t0 g w Hg Hw P0 A0 ltac:(lia)) as (X & Y & N & A & P & V & U & F1 & F2 & F3 & F4).
  { rewrite G0, X0, Y0. exact Hk. }
  rewrite X0, Y0, G0, N0 in *.
  split; [|split; [exact V|split; [exact U|]]].
  - split; [|split]; [|unfold PenOK; destruct ls; congruence|exact A].
    unfold CurOK; cbn [fst snd]. split; [exact Y|]. split; [exact X|]. split; [exact P|]. lia.
  - unfold DrawnAt. split; [exact F1|]. split; [exact F2|]. split; [exact F3|exact F4].
Qed.

Lemma output_char_ok : forall t c y ls nc ls' ks,
  Inv t (c, y) ls -> 0 <= c -> (wd nc = 1 \/ wd nc = 2) -> c + wd nc <= W -> ch nc <> [] ->
  tk (tgrid t y c) <> 2 ->
  output_char tb ls nc = (ls', ks) ->
  Inv (trun W t ks) (c + wd nc, y) ls' /\ cvis (trun W t ks) = cvis t /\ undef (trun W t ks) = undef t /\
  DrawnAt t (trun W t ks) y c (wd nc) (ch nc) (apen tb (sattr tb (st nc))).
Proof.
  intros t c y ls nc ls' ks ((Cy & Cx & Cp & Cxr & Cyr) & PO & AW) Hc Hw Hcw Hg Hk O.
  cbn [fst snd] in *. assert (CX : cx t = c) by lia.
  unfold output_char in O.
  destruct (match ls with Some s => s =? st nc | None => false end) eqn:SAME.
  - inversion O; subst ls' ks; clear O.
    destruct ls as [s|]; [|discriminate]. apply Z.eqb_eq in SAME. subst s.
    cbn [trun fold_left].
    apply (text_ok t t c y (ch nc) (wd nc) (apen tb (sattr tb (st nc))) (Some (st nc))); auto.
  - inversion O; subst ls' ks; clear O.
    destruct (ls_falsy ls || match ls with Some s => negb (sattr tb (st nc) =? sattr tb s) | None => true end) eqn:SET.
    + cbn [app trun fold_left].
      apply (text_ok (tstep W t (TSGR (apen tb (sattr tb (st nc))))) t c y (ch nc) (wd nc) _ (Some (st nc)));
        cbn [tstep pend aw cx cy tgrid pen cvis undef]; auto.
    + cbn [app trun fold_left].
      apply (text_ok t t c y (ch nc) (wd nc) (apen tb (sattr tb (st nc))) (Some (st nc))); auto.
      apply orb_false_iff in SET. destruct SET as [_ S2].
      destruct ls as [s|]; [|discriminate]. apply negb_false_iff in S2. apply Z.eqb_eq in S2.
      unfold PenOK in PO. congruence.
Qed.

(* drawing one cell: output_char, or the blank-in-default-attributes branch *)
Lemma draw_cell_ok : forall t c y ls nc ls' ks,
  Inv t (c, y) ls -> 0 <= c -> (wd nc = 1 \/ wd nc = 2) -> c + wd nc <= W -> ch nc <> [] ->
  wd nc = wof (ch nc) -> tk (tgrid t y c) <> 2 ->
  (if is_transp nc then (@None Z, [TSGR 0; TText [32] 1]) else output_char tb ls nc) = (ls', ks) ->
  Inv (trun W t ks) (c + wd nc, y) ls' /\ cvis (trun W t ks) = cvis t /\ undef (trun W t ks) = undef t /\
  DrawnAt t (trun W t ks) y c (wd nc) (ch nc) (cpen nc).
Proof.
  intros t c y ls nc ls' ks HI Hc Hw Hcw Hg Hwof Hk O.
  destruct (is_transp nc) eqn:T.
  - inversion O; subst ls' ks; clear O.
    destruct HI as ((Cy & Cx & Cp & Cxr & Cyr) & PO & AW). cbn [fst snd] in *.
    assert (CX : cx t = c) by lia.
    pose proof T as T'. unfold is_transp in T'. apply andb_true_iff in T'. destruct T' as [T1 T2].
    pose proof (str_eqb_eq _ _ T1) as E.
    assert (W1 : wd nc = 1) by (rewrite Hwof, E; exact Hw32).
    cbn [trun fold_left]. rewrite W1 in *. rewrite E. unfold cpen. rewrite T.
    apply (text_ok (tstep W t (TSGR 0)) t c y [32] 1 0 None);
      cbn [tstep pend aw cx cy tgrid pen cvis undef]; auto. discriminate.
  - destruct (output_char_ok t c y ls nc ls' ks HI Hc Hw Hcw Hg Hk O) as (I2 & V2 & U2 & G2).
    split; [exact I2|]. split; [exact V2|]. split; [exact U2|].
    unfold cpen. rewrite T. exact G2.
Qed.

Lemma draw_cell_run : forall b1 b2 t c y ls nc ls' ks,
  Inv t (c, y) ls -> y <= b1 -> y <= b2 ->
  (if is_transp nc then (@None Z, [TSGR 0; TText [32] 1]) else output_char tb ls nc) = (ls', ks) ->
  okrun b1 b2 W t ks.
Proof.
  intros b1 b2 t c y ls nc ls' ks ((Cy & Cx & Cp & Cxr & Cyr) & PO & AW) H1 H2 O.
  cbn [fst snd] in *.
  assert (ONE : forall t0 g w, cy t0 = y -> pend t0 = false -> okrun b1 b2 W t0 [TText g w]).
  { intros t0 g w Y0 P0. cbn [okrun]. rewrite text_cy by exact P0. split; [lia|]. split; [intros _; lia|exact I]. }
  assert (TWO : forall p g w, okrun b1 b2 W t [TSGR p; TText g w]).
  { intros p g w. cbn [okrun]. split; [cbn [tstep cy]; lia|]. split; [discriminate|].
    apply (ONE (tstep W t (TSGR p)) g w); cbn [tstep cy pend]; auto. }
  destruct (is_transp nc).
  - inversion O; subst. apply TWO.
  - unfold output_char in O.
    destruct (match ls with Some s => s =? st nc | None => false end).
    + inversion O; subst. apply ONE; auto.
    + inversion O; subst.
      destruct (ls_falsy ls || match ls with Some s => negb (sattr tb (st nc) =? sattr tb s) | None => true end);
        cbn [app]; [apply TWO|apply ONE; auto].
Qed.

(* ---- the column loop ---- *)
(* the not-yet-visited part of row y (columns >= c) still shows the previous
   row [pr], except that column c itself may be "damaged": it held the right
   half of a wide glyph whose left half has just been overwritten (the terminal
   blanked it); the loop is then certain to redraw it *)
Definition AtC (t : term) (y : Z) (pr : Z -> cell) (c : Z) : Prop :=
  (showsx (tgrid t y c) pr c /\ wd (pr c) <> 0) \/ (tk (tgrid t y c) = 0 /\ wd (pr c) = 0).
Definition Rest (t : term) (y : Z) (pr : Z -> cell) (c : Z) : Prop :=
  (forall x, c < x <= W - 1 -> showsx (tgrid t y x) pr x) /\ (c <= W - 1 -> AtC t y pr c).

Lemma AtC_tk : forall t y pr c, AtC t y pr c -> tk (tgrid t y c) <> 2.
Proof. intros t y pr c [(S & N)|(K & _)]; [eapply showsx_ns_tk; eauto|lia]. Qed.

Lemma AtC_tk1 : forall t y pr c, AtC t y pr c -> tk (tgrid t y c) = 1 -> wd (pr c) = 2.
Proof. intros t y pr c [(S & N)|(K & _)] E; [eapply showsx_tk1; eauto|lia]. Qed.

Lemma kind_shadow : forall cf x, kind_ok cf x -> wd (cf x) = 0 -> 1 <= x /\ wd (cf (x - 1)) = 2.
Proof. intros cf x (_ & [(A & _)|[(A & _)|(_ & _ & B & C)]]) Z0; lia. Qed.

Lemma kind_wide : forall cf x, kind_ok cf x -> wd (cf x) = 2 -> x + 1 <= W - 1 /\ wd (cf (x + 1)) = 0.
Proof. intros cf x (_ & [(A & _)|[(_ & _ & B & C)|(A & _)]]) Z0; lia. Qed.

Lemma rest_after_draw : forall t t1 t2 y c w pr g p,
  wrowf pr -> 0 <= c -> (w = 1 \/ w = 2) -> c + w <= W ->
  tgrid t1 = tgrid t -> Rest t y pr c -> DrawnAt t1 t2 y c w g p -> Rest t2 y pr (c + w).
Proof.
  intros t t1 t2 y c w pr g p Wp Hc Hw Hcw G1 (R1 & R2) (D1 & D2 & D3 & D4).
  rewrite G1 in *. specialize (R2 ltac:(lia)).
  split.
  - intros x Hx. rewrite D1 by lia. apply R1. lia.
  - intros Hle. unfold AtC. rewrite D4.
    destruct (Z.eq_dec (wd (pr (c + w))) 0) as [Z0|NZ].
    + (* the previous row has a shadow at c+w: it is damaged now *)
      right. split; [|exact Z0].
      destruct (kind_shadow pr (c + w) (Wp (c + w) ltac:(lia)) Z0) as (_ & WD).
      assert (DC : dcond (tgrid t) y c w = true).
      { unfold dcond. destruct Hw as [-> | ->].
        - change (1 =? 1) with true. cbv iota. replace (c + 1 - 1) with c in WD by lia.
          destruct R2 as [(S & _)|(_ & Z1)]; [|lia]. rewrite (showsx_wide _ _ _ S WD). reflexivity.
        - change (2 =? 1) with false. cbv iota. replace (c + 2 - 1) with (c + 1) in WD by lia.
          rewrite (showsx_wide _ _ _ (R1 (c + 1) ltac:(lia)) WD). rewrite andb_true_r.
          destruct (tk (tgrid t y c) =? 1) eqn:K1; [|reflexivity]. apply Z.eqb_eq in K1.
          pose proof (AtC_tk1 t y pr c R2 K1) as W2.
          destruct (kind_wide pr c (Wp c ltac:(lia)) W2) as (_ & Z1). lia. }
      rewrite DC. reflexivity.
    + left. split; [|exact NZ].
      assert (DC : dcond (tgrid t) y c w = false).
      { unfold dcond. destruct Hw as [-> | ->].
        - change (1 =? 1) with true. cbv iota.
          destruct (tk (tgrid t y c) =? 1) eqn:K1; [|reflexivity]. apply Z.eqb_eq in K1.
          pose proof (AtC_tk1 t y pr c R2 K1) as W2.
          destruct (kind_wide pr c (Wp c ltac:(lia)) W2) as (_ & Z1). contradiction.
        - change (2 =? 1) with false. cbv iota.
          destruct (tk (tgrid t y (c + 1)) =? 1) eqn:K1; [|apply andb_false_r]. apply Z.eqb_eq in K1.
          pose proof (showsx_tk1 _ _ _ (R1 (c + 1) ltac:(lia)) K1) as W2.
          destruct (kind_wide pr (c + 1) (Wp (c + 1) ltac:(lia)) W2) as (_ & Z1).
          replace (c + 1 + 1) with (c + 2) in Z1 by lia. contradiction. }
      rewrite DC. apply R1. lia.
Qed.

Lemma rest_after_skip : forall t y c w pr,
  wrowf pr -> 0 <= c -> wd (pr c) = w -> (w = 1 \/ w = 2) -> c + w <= W ->
  Rest t y pr c -> Rest t y pr (c + w).
Proof.
  intros t y c w pr Wp Hc Hwd Hw Hcw (R1 & R2).
  split; [intros x Hx; apply R1; lia|]. intros Hle. left. split; [apply R1; lia|].
  intros Z0. destruct (kind_shadow pr (c + w) (Wp (c + w) ltac:(lia)) Z0) as (_ & WD).
  destruct Hw as [-> | ->].
  - replace (c + 1 - 1) with c in WD by lia. lia.
  - replace (c + 2 - 1) with (c + 1) in WD by lia.
    destruct (kind_wide pr c (Wp c ltac:(lia)) Hwd) as (_ & Z1). lia.
Qed.

Lemma showsx_written : forall cf x, (wd (cf x) = 1 \/ wd (cf x) = 2) ->
  showsx (mkcell (ch (cf x)) (cpen (cf x)) (if wd (cf x) =? 1 then 0 else 1)) cf x.
Proof.
  intros cf x N. unfold showsx; cbn [tk tg tp].
  destruct N as [E|E]; rewrite E; cbn [Z.eqb Pos.eqb];
    (split; [reflexivity|split; [reflexivity|destruct (str_eqb (ch (cf x)) [32]); reflexivity]]).
Qed.

Lemma cols_ok : forall fuel y nr pr zw nmax c pos ls t pos' ls' ks,
  0 <= y -> wrow nr -> wrow pr -> nmax <= W - 1 -> 0 <= c <= nmax + 1 -> nmax + 1 - c <= Z.of_nat fuel ->
  (0 <= nmax -> wd (rget nr nmax) <> 2) ->
  (c = 0 \/ wd (rget nr (c - 1)) <> 2) ->
  Inv t pos ls -> Rest t y (rget pr) c ->
  cols fuel tb W y nr pr zw nmax c pos ls = (pos', ls', ks) ->
  Inv (trun W t ks) pos' ls' /\ cvis (trun W t ks) = cvis t /\ undef (trun W t ks) = undef t /\
  (forall y' x, y' <> y \/ x < c -> tgrid (trun W t ks) y' x = tgrid t y' x) /\
  (forall x, c <= x <= nmax -> showsx (tgrid (trun W t ks) y x) (rget nr) x) /\
  Rest (trun W t ks) y (rget pr) (nmax + 1) /\
  okrun (Z.max (snd pos) y) y W t ks.
Proof.
  induction fuel as [|f IH]; intros y nr pr zw nmax c pos ls t pos' ls' ks Hy Hn Hp Hm Hc Hf Hlast Hnsh HI HR C.
  - cbn [cols] in C. inversion C; subst. cbn [trun fold_left].
    assert (c = nmax + 1) by lia. subst c.
    split; [exact HI|]. split; [reflexivity|]. split; [reflexivity|]. split; [auto|].
    split; [intros x Hx; lia|]. split; [exact HR|exact I].
  - cbn [cols] in C. destruct (nmax <? c) eqn:E.
    + inversion C; subst. cbn [trun fold_left].
      assert (c = nmax + 1) by lia. subst c.
      split; [exact HI|]. split; [reflexivity|]. split; [reflexivity|]. split; [auto|].
      split; [intros x Hx; lia|]. split; [exact HR|exact I].
    + assert (Hc' : 0 <= c <= nmax) by lia.
      pose proof (Hn c ltac:(lia)) as KN. pose proof (Hp c ltac:(lia)) as KP.
      set (nc := rget nr c) in *. set (w := wd nc) in *.
      assert (NSH : w <> 0).
      { intros Z0. destruct (kind_shadow (rget nr) c KN Z0) as (C1 & C2). destruct Hnsh; [lia|contradiction]. }
      assert (Hw : w = 1 \/ w = 2).
      { destruct KN as (_ & [(A & _)|[(A & _)|(A & _)]]); fold nc in A; fold w in A; auto. contradiction. }
      assert (Hg : ch nc <> []).
      { destruct KN as (_ & [(_ & A)|[(_ & A & _)|(A & _)]]); auto. }
      assert (Hwof : wd nc = wof (ch nc)) by (destruct KN as (A & _); exact A).
      assert (Hcw : c + w <= nmax + 1).
      { destruct Hw as [E1|E2]; [lia|].
        destruct (Z.eq_dec c nmax) as [->|Ne]; [|lia]. exfalso. apply (Hlast ltac:(lia)). exact E2. }
      assert (CW : (if w =? 0 then 1 else w) = w) by (destruct Hw as [-> | ->]; reflexivity).
      rewrite CW in C.
      assert (Hnsh2 : c + w = 0 \/ wd (rget nr (c + w - 1)) <> 2).
      { right. destruct Hw as [E1|E2].
        - rewrite E1. replace (c + 1 - 1) with c by lia. fold nc. fold w. lia.
        - rewrite E2. replace (c + 2 - 1) with (c + 1) by lia.
          destruct (kind_wide (rget nr) c KN E2) as (_ & Z1). lia. }
      pose proof HR as (R1 & R2). specialize (R2 ltac:(lia)).
      destruct (differs nc (rget pr c)) eqn:D.
      * destruct pos as [px py].
        destruct (move_cursor W (px, py) ls (c, y)) as [ls1 k1] eqn:M.
        destruct (if is_transp nc then (@None Z, [TSGR 0; TText [32] 1])
                  else output_char tb ls1 nc) as [ls2 k3] eqn:O.
        destruct (cols f tb W y nr pr zw nmax (c + w) (c + w, y) ls2) as [[p2 l2] k4] eqn:C2.
        inversion C; subst pos' ls' ks; clear C.
        rewrite !trun_app.
        destruct (move_cursor_ok t px py ls c y ls1 k1 HI ltac:(lia) Hy M) as (I1 & (G1 & A1 & V1 & U1) & _).
        set (t1 := trun W t k1) in *. pose proof I1 as I1'.
        assert (Z1 : trun W t1 (match zget zw y c with Some i => [TRaw i] | None => [] end) = t1)
          by (destruct (zget zw y c); reflexivity).
        rewrite Z1.
        assert (K1 : tk (tgrid t1 y c) <> 2) by (rewrite G1; eapply AtC_tk; exact R2).
        destruct (draw_cell_ok t1 c y ls1 nc ls2 k3 I1 ltac:(lia) Hw ltac:(fold w; lia) Hg Hwof K1 O)
          as (I2 & V2 & U2 & DA).
        fold w in I2, DA.
        set (t2 := trun W t1 k3) in *.
        pose proof (rest_after_draw t t1 t2 y c w (rget pr) (ch nc) (cpen nc) Hp ltac:(lia) Hw ltac:(lia) G1 HR DA) as HR2.
        destruct (IH y nr pr zw nmax (c + w) (c + w, y) ls2 t2 p2 l2 k4 Hy Hn Hp Hm ltac:(lia) ltac:(lia) Hlast Hnsh2 I2 HR2 C2)
          as (I3 & V3 & U3 & G3 & S3 & R3 & O3).
        destruct DA as (D1 & D2 & D3 & D4).
        split; [exact I3|]. split; [congruence|]. split; [congruence|]. split; [|split; [|split]].
        { intros y' x Hx. rewrite G3 by lia. rewrite D1 by lia. rewrite G1. reflexivity. }
        { intros x Hx. destruct (Z.eq_dec x c) as [->|Ne].
          - rewrite G3 by lia. rewrite D2. apply showsx_written. exact Hw.
          - destruct (Z_lt_le_dec x (c + w)) as [Lt|Ge]; [|apply S3; lia].
            assert (w = 2 /\ x = c + 1) by lia. destruct H as (E2 & ->).
            rewrite G3 by lia. rewrite (D3 E2).
            destruct (kind_wide (rget nr) c KN E2) as (_ & Z0).
            unfold showsx. rewrite Z0. change (0 =? 0) with true. cbv iota. cbn [tk tg tp].
            replace (c + 1 - 1) with c by lia. auto. }
        { exact R3. }
        { cbn [fst snd] in *. destruct I1 as ((Cy1 & _) & _). cbn [snd] in Cy1.
          apply okrun_app. split; [apply (move_cursor_run y t px py ls c y ls1 k1); [exact HI| | |exact M]; lia|]. fold t1.
          apply okrun_app. split.
          - destruct (zget zw y c); [|exact I]. cbn [okrun tstep cy is_write].
            split; [lia|]. split; [discriminate|exact I].
          - rewrite Z1. apply okrun_app. split.
            + eapply draw_cell_run; [exact (conj (conj Cy1 (proj2 (proj1 I1'))) (proj2 I1'))| | |exact O]; lia.
            + fold t2. eapply okrun_mono; [| |exact O3]; lia. }
      * destruct (differs_false _ _ D) as (E1 & E2).
        assert (WP : wd (rget pr c) = w).
        { destruct KP as (A & _). rewrite A, <- E1. symmetry. exact Hwof. }
        assert (SC : showsx (tgrid t y c) (rget pr) c) by (destruct R2 as [(S & _)|(_ & Z0)]; [exact S|lia]).
        pose proof (rest_after_skip t y c w (rget pr) Hp ltac:(lia) WP Hw ltac:(lia) HR) as HR2.
        destruct (IH y nr pr zw nmax (c + w) pos ls t pos' ls' ks Hy Hn Hp Hm ltac:(lia) ltac:(lia) Hlast Hnsh2 HI HR2 C)
          as (I3 & V3 & U3 & G3 & S3 & R3 & O3).
        split; [exact I3|]. split; [exact V3|]. split; [exact U3|]. split; [|split; [|split]].
        { intros y' x Hx. apply G3. lia. }
        { intros x Hx. destruct (Z.eq_dec x c) as [->|Ne].
          - rewrite G3 by lia. apply (showsx_ns _ (rget pr)); auto; try lia.
          - destruct (Z_lt_le_dec x (c + w)) as [Lt|Ge]; [|apply S3; lia].
            assert (w = 2 /\ x = c + 1) by lia. destruct H as (W2 & ->).
            rewrite G3 by lia.
            destruct (kind_wide (rget nr) c KN W2) as (_ & Z0).
            destruct (kind_wide (rget pr) c KP ltac:(lia)) as (_ & Z0').
            apply (showsx_sh _ (rget pr)); auto; [|apply R1; lia].
            replace (c + 1 - 1) with c by lia. apply cpen_eq; auto. }
        { exact R3. }
        { exact O3. }
Qed.

Definition scell (s : screen) (y x : Z) : cell := rget (sget (srows s) y) x.

Lemma Zmin_cases : forall a b, (Z.min a b = a /\ a <= b) \/ (Z.min a b = b /\ b <= a).
Proof. intros; lia. Qed.

(* the last counting column never holds the left half of a wide cell: its
   shadow would count too *)
Lemma nmax_not_wide : forall r, wrow r ->
  wd (rget r (Z.min (W - 1) (gmax tb r))) <> 2.
Proof.
  intros r Hr E. pose proof (gmax_nonneg r) as G.
  set (n := Z.min (W - 1) (gmax tb r)) in *.
  destruct (kind_wide (rget r) n (Hr n ltac:(subst n; lia)) E) as (Le & Z0).
  assert (GM : gmax tb r < n + 1) by (subst n; lia).
  destruct (gmax_spec r (n + 1) ltac:(lia) GM) as (B & _).
  pose proof (blankish_wd (rget r) (n + 1) (Hr (n + 1) ltac:(lia)) (gmax_spec r (n + 1) ltac:(lia) GM)). lia.
Qed.

(* one row: column loop, then the trailing trim *)
Lemma do_row_ok : forall y scr prev pos ls t pos' ls' ks,
  0 <= y -> wscreen scr -> wscreen prev -> Inv t pos ls ->
  (forall x, 0 <= x < W -> showsx (tgrid t y x) (scell prev y) x) ->
  do_row tb W y scr prev pos ls = (pos', ls', ks) ->
  Inv (trun W t ks) pos' ls' /\ cvis (trun W t ks) = cvis t /\ undef (trun W t ks) = undef t /\
  (forall y' x, y' <> y -> tgrid (trun W t ks) y' x = tgrid t y' x) /\
  (forall x, 0 <= x < W -> showsx (tgrid (trun W t ks) y x) (scell scr y) x) /\
  okrun (Z.max (snd pos) y) y W t ks.
Proof.
  intros y scr prev pos ls t pos' ls' ks Hy Hn Hpv' HI HS R.
  unfold do_row in R.
  set (nr := sget (srows scr) y) in *. set (pr := sget (srows prev) y) in *.
  change (scell prev y) with (fun x => rget pr x) in HS. change (scell scr y) with (fun x => rget nr x).
  pose proof (gmax_nonneg nr) as Gn. pose proof (gmax_nonneg pr) as Gp.
  pose proof (nmax_not_wide nr (Hn y)) as NW.
  set (nmax := Z.min (W - 1) (gmax tb nr)) in *. set (pmax := Z.min (W - 1) (gmax tb pr)) in *.
  assert (Hnr : wrow nr) by (apply Hn). assert (Hpr : wrow pr) by (apply Hpv').
  destruct (cols (Z.to_nat (nmax + 1)) tb W y nr pr (szwe scr) nmax 0 pos ls) as [[pos1 ls1] k1] eqn:C.
  assert (N0 : 0 <= nmax <= W - 1) by (subst nmax; lia).
  assert (HR0 : Rest t y (rget pr) 0).
  { split; [intros x Hx; apply (HS x); lia|]. intros _. left. split; [apply (HS 0); lia|].
    intros Z0. destruct (kind_shadow (rget pr) 0 (Hpr 0 ltac:(lia)) Z0). lia. }
  destruct (cols_ok (Z.to_nat (nmax + 1)) y nr pr (szwe scr) nmax 0 pos ls t pos1 ls1 k1 Hy Hnr Hpr
              ltac:(lia) ltac:(lia) ltac:(lia) ltac:(intros _; exact NW) ltac:(left; reflexivity) HI HR0 C)
    as (I1 & V1 & U1 & G1 & S1 & (R1a & R1b) & O1).
  set (t1 := trun W t k1) in *.
  assert (P1 : snd pos1 <= Z.max (snd pos) y).
  { destruct I1 as ((C1 & _) & _). rewrite <- C1. apply okrun_final with (b2 := y); [|exact O1].
    destruct HI as ((C0 & _) & _). lia. }
  assert (BL : forall r x, wrow r -> 0 <= x <= W - 1 -> gmax tb r < x -> blankish (rget r x) /\ wd (rget r x) = 1).
  { intros r x Hr Hx Hg. pose proof (gmax_spec r x ltac:(lia) Hg) as B. split; [exact B|].
    apply blankish_wd; [apply Hr; lia|exact B]. }
  destruct (nmax <? pmax) eqn:E.
  - destruct pos1 as [p1x p1y].
    destruct (move_cursor W (p1x, p1y) ls1 (nmax + 1, y)) as [lsx k2] eqn:M.
    inversion R; subst pos' ls' ks; clear R.
    assert (P0 : pmax <= W - 1) by (subst pmax; lia).
    destruct (move_cursor_ok t1 p1x p1y ls1 (nmax + 1) y lsx k2 I1 ltac:(lia) Hy M)
      as (((Cy & Cx & Cp & Cxr & Cyr) & _ & AW2) & (G2 & A2 & V2 & U2) & X2 & _).
    rewrite !trun_app. fold t1. set (t2 := trun W t1 k2) in *. cbn [fst snd] in *.
    cbn [trun fold_left tstep].
    assert (K : (tk (tgrid t2 y (nmax + 1)) =? 2) = false).
    { apply Z.eqb_neq. rewrite G2. eapply AtC_tk. apply R1b. lia. }
    assert (GM : nmax = gmax tb nr) by (subst nmax; lia).
    split; [|split; [|split; [|split; [|split]]]]; cycle 5.
    { apply okrun_app. split; [exact O1|]. fold t1. apply okrun_app. split.
      - eapply okrun_mono; [| |eapply move_cursor_run with (b2 := y); [exact I1| | |exact M]; lia]; lia.
      - fold t2. cbn [okrun tstep cy is_write]. split; [lia|]. split; [discriminate|].
        split; [lia|]. split; [intros _; lia|exact I]. }
    + split; [|split]; [|exact I|exact AW2].
      unfold CurOK; cbn [cx cy pend fst snd]. split; [exact Cy|]. split; [exact Cx|]. split; [exact Cp|]. lia.
    + cbn [cvis]. congruence.
    + cbn [undef]. congruence.
    + intros y' x Hne. cbn [tgrid]. unfold erase_line; cbn [tgrid cx cy pen].
      rewrite Cy, X2, K.
      destruct ((y' =? y) && (nmax + 1 <=? x)) eqn:B.
      * apply andb_true_iff in B. destruct B as [B _]. apply Z.eqb_eq in B. lia.
      * rewrite G2. apply G1. auto.
    + intros x Hx. cbn [tgrid]. unfold erase_line; cbn [tgrid cx cy pen].
      rewrite Cy, X2, K. rewrite Z.eqb_refl. cbn [andb].
      destruct (nmax + 1 <=? x) eqn:B.
      * destruct (BL nr x Hnr ltac:(lia) ltac:(lia)) as (B1 & B2).
        apply (notcounts_shows_blank (fun x => rget nr x)); auto.
      * rewrite G2. apply S1. lia.
  - inversion R; subst pos' ls' ks; clear R. fold t1.
    split; [exact I1|]. split; [exact V1|]. split; [exact U1|]. split; [|split]; cycle 2.
    { exact O1. }
    + intros y' x Hne. apply G1. auto.
    + intros x Hx. destruct (x <=? nmax) eqn:B.
      * apply S1. lia.
      * assert (GM : nmax = gmax tb nr) by (subst nmax; lia).
        assert (GP : pmax = gmax tb pr) by (subst pmax nmax; lia).
        destruct (BL nr x Hnr ltac:(lia) ltac:(lia)) as (B1 & B2).
        destruct (BL pr x Hpr ltac:(lia) ltac:(lia)) as (B3 & B4).
        apply (notcounts_shows_transfer _ (fun x => rget nr x) (fun x => rget pr x)); auto.
        destruct (Z.eq_dec x (nmax + 1)) as [->|Ne]; [|apply R1a; lia].
        destruct (R1b ltac:(lia)) as [(S & _)|(_ & Z0)]; [exact S|lia].
Qed.

Lemma rows_loop_ok : forall n y scr prev pos ls t pos' ls' ks,
  0 <= y -> wscreen scr -> wscreen prev -> Inv t pos ls ->
  (forall y' x, y <= y' < y + Z.of_nat n -> 0 <= x < W -> showsx (tgrid t y' x) (scell prev y') x) ->
  rows_loop n tb W y scr prev pos ls = (pos', ls', ks) ->
  Inv (trun W t ks) pos' ls' /\ cvis (trun W t ks) = cvis t /\ undef (trun W t ks) = undef t /\
  (forall y' x, y' < y \/ y + Z.of_nat n <= y' -> tgrid (trun W t ks) y' x = tgrid t y' x) /\
  (forall y' x, y <= y' < y + Z.of_nat n -> 0 <= x < W -> showsx (tgrid (trun W t ks) y' x) (scell scr y') x) /\
  okrun (Z.max (snd pos) (y + Z.of_nat n - 1)) (y + Z.of_nat n - 1) W t ks.
Proof.
  induction n as [|n IH]; intros y scr prev pos ls t pos' ls' ks Hy Hn Hp HI HS R.
  - cbn [rows_loop] in R. inversion R; subst. cbn [trun fold_left].
    split; [exact HI|]. split; [reflexivity|]. split; [reflexivity|]. split; [auto|].
    split; [intros; lia|exact I].
  - cbn [rows_loop] in R.
    destruct (do_row tb W y scr prev pos ls) as [[pos1 ls1] k1] eqn:D.
    destruct (rows_loop n tb W (y + 1) scr prev pos1 ls1) as [[pos2 ls2] k2] eqn:R2.
    inversion R; subst pos' ls' ks; clear R. rewrite trun_app.
    destruct (do_row_ok y scr prev pos ls t pos1 ls1 k1 Hy Hn Hp HI ltac:(intros x Hx; apply HS; lia) D)
      as (I1 & V1 & U1 & G1 & S1 & O1).
    set (t1 := trun W t k1) in *.
    assert (HS1 : forall y' x, y + 1 <= y' < y + 1 + Z.of_nat n -> 0 <= x < W -> showsx (tgrid t1 y' x) (scell prev y') x).
    { intros y' x Hy' Hx. rewrite G1 by lia. apply HS; lia. }
    destruct (IH (y + 1) scr prev pos1 ls1 t1 pos2 ls2 k2 ltac:(lia) Hn Hp I1 HS1 R2) as (I2 & V2 & U2 & G2 & S2 & O2).
    assert (P1 : snd pos1 <= Z.max (snd pos) y).
    { destruct I1 as ((C1 & _) & _). rewrite <- C1. apply okrun_final with (b2 := y); [|exact O1].
      destruct HI as ((C0 & _) & _). lia. }
    split; [exact I2|]. split; [congruence|]. split; [congruence|]. split; [|split].
    + intros y' x Hy'. rewrite G2 by lia. apply G1. lia.
    + intros y' x Hy' Hx. destruct (Z.eq_dec y' y) as [->|Ne].
      * rewrite G2 by lia. apply S1. exact Hx.
      * apply S2; lia.
    + apply okrun_app. split.
      * eapply okrun_mono; [| |exact O1]; lia.
      * fold t1. eapply okrun_mono; [| |exact O2]; lia.
Qed.

(* Screen.height may exceed the terminal height H (a float reaching below the
   last row): only rows < H are drawn.  The cursor is inside the terminal. *)
Definition wf_screen (H : Z) (s : screen) : Prop :=
  wscreen s /\ 0 <= sh s /\ (forall y, sh s <= y -> sget (srows s) y = []) /\
  0 <= scx s <= W - 1 /\ 0 <= scy s < Z.max H 1.

(* the part of the screen that fits the terminal *)
Definition vcell (H : Z) (s : screen) (y x : Z) : cell := if y <? H then scell s y x else dcell.

Definition Shows (H : Z) (t : term) (s : screen) : Prop :=
  forall y x, 0 <= y -> 0 <= x < W -> showsx (tgrid t y x) (vcell H s y) x.

Lemma shows_blank_dcell : forall x, showsx (blank 0) (fun _ => dcell) x.
Proof.
  intros x. apply (notcounts_shows_blank (fun _ => dcell)); [apply blankish_dcell|reflexivity|reflexivity].
Qed.

Lemma vcell_lt : forall H s y x, y < H -> vcell H s y x = scell s y x.
Proof. intros H s y x L. unfold vcell. destruct (y <? H) eqn:E; [reflexivity|lia]. Qed.

Lemma vcell_ge : forall H s y x, H <= y -> vcell H s y x = dcell.
Proof. intros H s y x L. unfold vcell. destruct (y <? H) eqn:E; [lia|reflexivity]. Qed.

Lemma vcell_empty : forall H y x, vcell H empty_screen y x = dcell.
Proof. intros H y x. unfold vcell. destruct (y <? H); reflexivity. Qed.

Lemma showsx_vs : forall H s tc y x, y < H -> showsx tc (vcell H s y) x <-> showsx tc (scell s y) x.
Proof.
  intros H s tc y x L. split; intros S.
  - apply (showsx_ext _ (vcell H s y)); [symmetry; apply vcell_lt; exact L|symmetry; apply vcell_lt; exact L|exact S].
  - apply (showsx_ext _ (scell s y)); [apply vcell_lt; exact L|apply vcell_lt; exact L|exact S].
Qed.

Lemma scell_beyond : forall H s y x, wf_screen H s -> sh s <= y -> scell s y x = dcell.
Proof. intros H s y x (_ & _ & E & _) Hy. unfold scell. rewrite E by exact Hy. reflexivity. Qed.

(* everything after the full-repaint decision *)
Lemma diff_body_ok : forall H fs done scr prev pos ls t pos' cv' ks,
  0 <= H -> wf_screen H scr -> wf_screen H prev -> Inv t pos ls -> Shows H t prev -> cvis t = false ->
  (done = true -> sh prev = 0 /\ pen t = 0) ->
  diff_body tb W H fs done scr prev pos ls (Some false) = (pos', cv', ks) ->
  let t' := trun W t ks in
  let cur_h := Z.min (sh scr) H in
  undef t' = undef t /\
  (done = false -> forall y x, Z.max (sh scr) (sh prev) <= y -> tgrid t' y x = tgrid t y x) /\
  okrun (Z.max (Z.max (snd pos) (Z.min (Z.max (sh scr) (sh prev)) H - 1)) (if done then cur_h else scy scr))
        (Z.min (Z.max (sh scr) (sh prev)) H - 1) W t ks /\
  (forall y x, y < 0 -> tgrid t' y x = tgrid t y x) /\
  pen t' = 0 /\ pend t' = false /\ aw t' = (done || negb fs) /\
  cvis t' = sshow scr /\ cv' = Some (sshow scr) /\
  cx t' = fst pos' /\ cy t' = snd pos' /\
  (done = false -> pos' = (scx scr, scy scr) /\ Shows H t' scr) /\
  (done = true -> pos' = (0, cur_h) /\
     (forall y x, 0 <= y < cur_h -> 0 <= x < W -> showsx (tgrid t' y x) (scell scr y) x) /\
     (forall y x, cur_h <= y -> 0 <= x -> tgrid t' y x = blank 0)).
Proof.
  intros H fs done scr prev pos ls t pos' cv' ks HH Ws Wp HI HS CV HD D.
  pose proof Ws as (Ns & Hs & Es & Cxs & Cys). pose proof Wp as (Np & Hp & Ep & _).
  unfold diff_body in D.
  set (cur_h := Z.min (sh scr) H) in *.
  set (rc := Z.min (Z.max (sh scr) (sh prev)) H) in *.
  destruct (rows_loop (Z.to_nat rc) tb W 0 scr prev pos ls) as [[pos1 ls1] k1] eqn:R.
  destruct (rows_loop_ok (Z.to_nat rc) 0 scr prev pos ls t pos1 ls1 k1 ltac:(lia) Ns Np HI
              ltac:(intros y' x Hy' Hx; specialize (HS y' x ltac:(lia) Hx);
                    apply (showsx_vs H prev) in HS; [exact HS|subst rc; lia]) R) as (I1 & V1 & U1 & G1 & S1 & O1).
  set (t1 := trun W t k1) in *.
  assert (RC : rc <= H /\ (rc < H -> rc = Z.max (sh scr) (sh prev))) by (subst rc; lia).
  assert (SH1 : Shows H t1 scr).
  { intros y x Hy Hx. destruct (y <? rc) eqn:B.
    - apply (showsx_vs H scr); [lia|]. apply S1; lia.
    - rewrite G1 by lia. specialize (HS y x Hy Hx).
      assert (VE : forall x', vcell H scr y x' = vcell H prev y x').
      { intros x'. unfold vcell. destruct (y <? H) eqn:BH; [|reflexivity].
        rewrite (scell_beyond H scr) by (auto; lia). rewrite (scell_beyond H prev) by (auto; lia). reflexivity. }
      apply (showsx_ext _ (vcell H prev y)); [apply VE|apply VE|exact HS]. }
  (* reserve vertical space *)
  set (mv := if sh prev <? cur_h
             then let '(l, t) := move_cursor W pos1 ls1 (0, cur_h - 1) in ((0, cur_h - 1), l, t)
             else (pos1, ls1, [])) in *.
  destruct mv as [[pos2 ls2] k2] eqn:MV.
  assert (RC0 : Z.of_nat (Z.to_nat rc) = rc) by (subst rc; lia).
  assert (CH : cur_h <= rc) by (subst cur_h rc; lia).
  assert (P1 : snd pos1 <= Z.max (snd pos) (rc - 1)).
  { destruct I1 as ((C1 & _) & _). rewrite <- C1. apply okrun_final with (b2 := rc - 1).
    - destruct HI as ((C0 & _) & _). lia.
    - eapply okrun_mono; [| |exact O1]; lia. }
  assert (M2 : (Inv (trun W t1 k2) pos2 ls2 /\ sbcp t1 (trun W t1 k2)) /\
               ((sh prev <? cur_h) = true -> pos2 = (0, cur_h - 1)) /\
               ((sh prev <? cur_h) = false -> k2 = []) /\
               okrun (Z.max (snd pos1) (cur_h - 1)) (rc - 1) W t1 k2 /\
               snd pos2 <= Z.max (snd pos1) (cur_h - 1)).
  { subst mv. destruct (sh prev <? cur_h) eqn:B.
    - destruct pos1 as [p1x p1y]. destruct (move_cursor W (p1x, p1y) ls1 (0, cur_h - 1)) as [l k] eqn:M.
      inversion MV; subst pos2 ls2 k2; clear MV.
      destruct (move_cursor_ok t1 p1x p1y ls1 0 (cur_h - 1) l k I1 ltac:(lia) ltac:(lia) M) as (I2 & SB & _).
      split; [auto|]. split; [reflexivity|]. split; [discriminate|]. split; [|cbn [snd]; lia].
      eapply move_cursor_run; [exact I1| | |exact M]; lia.
    - inversion MV; subst pos2 ls2 k2; clear MV. cbn [trun fold_left].
      split; [split; [exact I1|apply sbcp_refl]|]. split; [discriminate|]. split; [reflexivity|].
      split; [exact I|lia]. }
  destruct M2 as ((I2 & (G2 & A2 & V2 & U2)) & MVa & MVb & O2 & P2). set (t2 := trun W t1 k2) in *.
  assert (OK12 : forall tgt, okrun (Z.max (Z.max (snd pos) (rc - 1)) tgt) (rc - 1) W t (k1 ++ k2)).
  { intros tgt. apply okrun_app. split.
    - eapply okrun_mono; [| |exact O1]; lia.
    - eapply okrun_mono; [| |exact O2]; lia. }
  destruct I1 as (_ & _ & AW1).
  destruct pos2 as [p2x p2y].
  destruct done.
  - (* done *)
    destruct (move_cursor W (p2x, p2y) ls2 (0, cur_h)) as [l3 k3] eqn:M3.
    destruct (if sshow scr then show_cursor (Some false) else (Some false, [])) as [cvx k5] eqn:SC.
    cbn [orb] in D. inversion D; subst pos' cv' ks; clear D.
    destruct (move_cursor_ok t2 p2x p2y ls2 0 cur_h l3 k3 I2 ltac:(lia) ltac:(lia) M3)
      as (((Cy & Cx & Cp & _) & _ & AW3) & (G3 & A3 & V3 & U3) & X3 & PD & PS).
    cbn [fst snd] in *.
    assert (OKR : okrun (Z.max (Z.max (snd pos) (rc - 1)) cur_h) (rc - 1) W t
                    (k1 ++ k2 ++ (k3 ++ [TED]) ++ TAW true :: TSGR 0 :: k5)).
    { rewrite app_assoc. apply okrun_app. split; [apply OK12|].
      rewrite trun_app. fold t1. fold t2. apply okrun_app. split.
      - apply okrun_app. split.
        + eapply okrun_mono; [| |eapply move_cursor_run with (b2 := rc - 1); [exact I2| | |exact M3]; lia]; lia.
        + cbn [okrun tstep cy is_write]. split; [lia|]. split; [discriminate|exact I].
      - apply okrun_nondesc; [| |subst cur_h; lia].
        + destruct (sshow scr); cbn in SC; inversion SC; subst; repeat constructor.
        + rewrite trun_app. cbn [trun fold_left tstep cy]. lia. }
    destruct (HD eq_refl) as (P0 & PT).
    assert (PEN3 : pen (trun W t2 k3) = 0).
    { destruct (Z_lt_le_dec p2y cur_h) as [Lt|Le]; [apply PD; exact Lt|].
      destruct (PS Le) as (PS1 & _). rewrite PS1.
      destruct (sh prev <? cur_h) eqn:B.
      - specialize (MVa eq_refl). inversion MVa. lia.
      - assert (RCZ : Z.to_nat rc = 0%nat) by lia.
        rewrite RCZ in R. cbn [rows_loop] in R. inversion R. subst pos1 ls1 k1.
        subst t2 t1. rewrite (MVb eq_refl). cbn [trun fold_left]. exact PT. }
    rewrite !trun_app. fold t1. fold t2. set (t3 := trun W t2 k3) in *.
    assert (TAIL : forall tt, trun W tt (TAW true :: TSGR 0 :: k5) =
              mkterm (tgrid tt) (cx tt) (cy tt) 0 true (sshow scr || cvis tt) (pend tt) (undef tt) /\ cvx = Some (sshow scr)).
    { intros tt. destruct (sshow scr); cbn in SC; inversion SC; subst; cbn; auto. }
    destruct (TAIL (trun W t3 [TED])) as (TE & CVE). rewrite TE.
    cbn [trun fold_left tstep tgrid cx cy pen aw cvis pend undef orb].
    split; [congruence|]. split; [discriminate|]. split; [exact OKR|].
    split; [intros y x Hy; rewrite erase_down_above by lia; rewrite G3, G2; apply G1; lia|].
    split; [reflexivity|]. split; [exact Cp|]. split; [reflexivity|].
    split; [rewrite V3, V2, V1, CV; destruct (sshow scr); reflexivity|]. split; [exact CVE|].
    split; [exact X3|]. split; [exact Cy|]. split; [discriminate|].
    intros _. split; [reflexivity|]. split.
    + intros y x Hy Hx. unfold erase_down, erase_line.
      destruct (cy t3 <? y) eqn:B1; [lia|].
      destruct ((y =? cy t3) && (cx t3 <=? x)) eqn:B2.
      { apply andb_true_iff in B2. destruct B2 as [B2 _]. apply Z.eqb_eq in B2. lia. }
      assert (GG : forall g, (if tk (tgrid t3 (cy t3) (cx t3)) =? 2 then boh (tgrid t3) (cy t3) (cx t3) else tgrid t3) = g ->
                  g y x = tgrid t3 y x).
      { intros g <-. destruct (tk (tgrid t3 (cy t3) (cx t3)) =? 2); [|reflexivity].
        unfold boh. destruct (tk (tgrid t3 (cy t3) (cx t3)) =? 1); [apply upd_other; lia|].
        destruct (tk (tgrid t3 (cy t3) (cx t3)) =? 2); [apply upd_other; lia|reflexivity]. }
      rewrite (GG _ eq_refl). rewrite G3, G2. specialize (SH1 y x ltac:(lia) Hx).
      apply (showsx_vs H scr) in SH1; [exact SH1|lia].
    + intros y x Hy Hx. unfold erase_down, erase_line. rewrite PEN3.
      destruct (cy t3 <? y) eqn:B1; [reflexivity|].
      assert (y = cy t3) by lia. subst y. rewrite Z.eqb_refl. rewrite X3.
      destruct (0 <=? x) eqn:B3; [reflexivity|lia].
  - (* not done *)
    destruct (move_cursor W (p2x, p2y) ls2 (scx scr, scy scr)) as [l3 k3] eqn:M3.
    destruct (if sshow scr then show_cursor (Some false) else (Some false, [])) as [cvx k5] eqn:SC.
    cbn [orb] in D. inversion D; subst pos' cv' ks; clear D.
    destruct (move_cursor_ok t2 p2x p2y ls2 (scx scr) (scy scr) l3 k3 I2 ltac:(lia) ltac:(lia) M3)
      as (((Cy & Cx & Cp & _) & _ & AW3) & (G3 & A3 & V3 & U3) & X3 & _).
    cbn [fst snd] in *.
    assert (OKR : okrun (Z.max (Z.max (snd pos) (rc - 1)) (scy scr)) (rc - 1) W t
                    (k1 ++ k2 ++ k3 ++ (if negb fs then [TAW true] else []) ++ TSGR 0 :: k5)).
    { rewrite app_assoc. apply okrun_app. split; [apply OK12|].
      rewrite trun_app. fold t1. fold t2. apply okrun_app. split.
      - eapply okrun_mono; [| |eapply move_cursor_run with (b2 := rc - 1); [exact I2| | |exact M3]; lia]; lia.
      - apply okrun_nondesc; [| |lia].
        + destruct (sshow scr); cbn in SC; inversion SC; subst; destruct fs; repeat constructor.
        + lia. }
    rewrite !trun_app. fold t1. fold t2. set (t3 := trun W t2 k3) in *.
    assert (TAIL : forall tt, trun W (trun W tt (if negb fs then [TAW true] else [])) (TSGR 0 :: k5) =
              mkterm (tgrid tt) (cx tt) (cy tt) 0 (if negb fs then true else aw tt) (sshow scr || cvis tt)
                     (pend tt) (undef tt) /\ cvx = Some (sshow scr)).
    { intros tt. destruct (sshow scr); cbn in SC; inversion SC; subst; destruct fs; cbn; destruct tt; auto. }
    destruct (TAIL t3) as (TE & CVE). rewrite TE.
    cbn [tgrid cx cy pen aw cvis pend undef].
    split; [congruence|].
    split; [intros _ y x Hy; rewrite G3, G2; apply G1; lia|].
    split; [exact OKR|].
    split; [intros y x Hy; rewrite G3, G2; apply G1; lia|].
    split; [reflexivity|]. split; [exact Cp|].
    split; [rewrite AW3; destruct fs; reflexivity|].
    split; [rewrite V3, V2, V1, CV; destruct (sshow scr); reflexivity|]. split; [exact CVE|].
    split; [exact X3|]. split; [exact Cy|]. split; [|discriminate].
    intros _. split; [reflexivity|].
    intros y x Hy Hx. cbn [tgrid]. rewrite G3, G2. apply SH1; auto.
Qed.

Definition cvrel (cv : option bool) (t : term) : Prop :=
  match cv with Some b => cvis t = b | None => True end.

Lemma wf_empty : forall H, 0 <= H -> wf_screen H empty_screen.
Proof.
  intros H HH. unfold wf_screen, empty_screen; cbn [srows sh scx scy].
  split; [intros y; apply wrow_nil|]. split; [lia|]. split; [reflexivity|]. lia.
Qed.

(* what a render establishes *)
Definition Rendered (H : Z) (fs done : bool) (scr : screen) (t : term) (pos : Z * Z) (cv : option bool) : Prop :=
  let cur_h := Z.min (sh scr) H in
  pen t = 0 /\ pend t = false /\ aw t = (done || negb fs) /\
  cvis t = sshow scr /\ cv = Some (sshow scr) /\ cx t = fst pos /\ cy t = snd pos /\
  (done = false -> pos = (scx scr, scy scr) /\ Shows H t scr) /\
  (done = true -> pos = (0, cur_h) /\
     (forall y x, 0 <= y < cur_h -> 0 <= x < W -> showsx (tgrid t y x) (scell scr y) x) /\
     (forall y x, cur_h <= y -> 0 <= x -> tgrid t y x = blank 0)).

Lemma screen_diff_ok : forall H fs done scr prev pos prevW cv t pos' cv' ks,
  0 <= H -> wf_screen H scr ->
  cx t = fst pos -> cy t = snd pos -> 0 <= fst pos <= W - 1 -> 0 <= snd pos -> pend t = false ->
  cvrel cv t ->
  match prev with
  | None => True
  | Some p => wf_screen H p /\ Shows H t p /\ pen t = 0 /\ (fs = true -> aw t = false)
  end ->
  screen_diff tb W H fs done scr prev pos None prevW cv = (pos', cv', ks) ->
  undef (trun W t ks) = undef t /\ Rendered H fs done scr (trun W t ks) pos' cv' /\
  (forall p, prev = Some p -> done = false -> prevW = W ->
     forall y x, Z.max (sh scr) (sh p) <= y -> tgrid (trun W t ks) y x = tgrid t y x) /\
  (forall y x, y < 0 -> tgrid (trun W t ks) y x = tgrid t y x) /\
  (* rows visited / written: b bounds the cursor row throughout, the second bound the rows written *)
  (forall b, snd pos <= b -> (if done then Z.min (sh scr) H else scy scr) <= b ->
     Z.min (Z.max (sh scr) (match prev with Some p => sh p | None => 0 end)) H - 1 <= b -> 0 <= b ->
     okrun b (Z.min (Z.max (sh scr) (match prev with Some p => sh p | None => 0 end)) H - 1) W t ks).
Proof.
  intros H fs done scr prev pos prevW cv t pos' cv' ks HH Ws Cx Cy Cxr Cyr Cp CV HP D.
  unfold screen_diff in D.
  destruct (hide_cursor cv) as [cv1 k0] eqn:HC.
  destruct (if is_none prev then (@None Z, [TSGR 0]) else (@None Z, [])) as [ls1 k1] eqn:K1.
  set (k2 := if is_none prev || negb fs then [TAW false] else []) in *.
  (* state after the prologue *)
  assert (PRO : let ta := trun W t (k0 ++ k1 ++ k2) in
                tgrid ta = tgrid t /\ cx ta = cx t /\ cy ta = cy t /\ pend ta = false /\ undef ta = undef t /\
                cvis ta = false /\ cv1 = Some false /\ aw ta = false /\ pen ta = 0 /\ ls1 = None).
  { assert (HCV : cv1 = Some false /\ (forall tt, cvrel cv tt -> trun W tt k0 =
                    mkterm (tgrid tt) (cx tt) (cy tt) (pen tt) (aw tt) false (pend tt) (undef tt))).
    { unfold hide_cursor in HC. destruct cv as [[|]|]; inversion HC; subst; split; auto;
        intros tt R; destruct tt; cbn in *; try reflexivity. subst; reflexivity. }
    destruct HCV as (E1 & HK0). cbv zeta. rewrite !trun_app, (HK0 t CV).
    subst k2. destruct prev as [p|]; cbn [is_none orb] in *.
    - destruct HP as (_ & _ & PN & AWf). inversion K1; subst ls1 k1.
      destruct fs; cbn [negb trun fold_left tstep tgrid cx cy pen aw cvis pend undef].
      + repeat (split; [first [reflexivity|assumption|auto]|]). auto.
      + repeat (split; [first [reflexivity|assumption|auto]|]). auto.
    - inversion K1; subst ls1 k1.
      cbn [negb trun fold_left tstep tgrid cx cy pen aw cvis pend undef].
      repeat (split; [first [reflexivity|assumption|auto]|]). auto. }
  cbv zeta in PRO. destruct PRO as (Ga & Xa & Ya & Pa & Ua & Va & E1 & Aa & Na & El). subst cv1 ls1.
  set (ta := trun W t (k0 ++ k1 ++ k2)) in *.
  assert (Ia : Inv ta pos None).
  { split; [|split; [exact I|exact Aa]]. unfold CurOK. split; [congruence|]. split; [lia|]. split; [exact Pa|]. lia. }
  assert (OKP : forall b b2, snd pos <= b -> 0 <= b -> okrun b b2 W t (k0 ++ k1 ++ k2)).
  { intros b b2 Hb Hb0. apply okrun_nondesc; [|lia|exact Hb0].
    apply Forall_app. split; [|apply Forall_app; split].
    - unfold hide_cursor in HC. destruct cv as [[|]|]; inversion HC; subst; repeat constructor.
    - destruct (is_none prev); inversion K1; subst; repeat constructor.
    - subst k2. destruct (is_none prev || negb fs); repeat constructor. }
  assert (SHP : 0 <= match prev with Some p => sh p | None => 0 end).
  { destruct prev as [p|]; [|lia]. destruct HP as ((_ & Hp0 & _) & _). lia. }
  pose proof Ws as (_ & Hs0 & _).
  destruct (done || is_none prev || negb (prevW =? W)) eqn:FULL.
  - destruct pos as [px py].
    destruct (move_cursor W (px, py) None (0, 0)) as [lx k3] eqn:M.
    destruct (diff_body tb W H fs done scr empty_screen (0, 0) None (Some false)) as [[p3 c3] k4] eqn:DB.
    inversion D; subst pos' cv' ks; clear D.
    destruct (move_cursor_ok ta px py None 0 0 lx k3 Ia ltac:(lia) ltac:(lia) M)
      as (((Cyb & Cxb & Cpb & _) & _ & AWb) & (Gb & Ab & Vb & Ub) & Xb & _).
    cbn [fst snd] in *.
    replace (k0 ++ k1 ++ k2 ++ (k3 ++ [TSGR 0; TED]) ++ k4)
      with ((k0 ++ k1 ++ k2) ++ k3 ++ [TSGR 0; TED] ++ k4) by (rewrite <- !app_assoc; reflexivity).
    rewrite trun_app. fold ta. rewrite !trun_app. set (tb3 := trun W ta k3) in *.
    set (tc := trun W tb3 [TSGR 0; TED]).
    assert (TC : tgrid tc = erase_down (tstep W tb3 (TSGR 0)) /\ cx tc = 0 /\ cy tc = 0 /\ pen tc = 0 /\
                 aw tc = false /\ cvis tc = false /\ pend tc = false /\ undef tc = undef t).
    { subst tc. cbn [trun fold_left tstep tgrid cx cy pen aw cvis pend undef].
      repeat (split; [first [reflexivity|congruence]|]). congruence. }
    destruct TC as (Gc & Xc & Yc & Nc & Ac & Vc & Pc & Uc).
    assert (Ic : Inv tc (0, 0) None).
    { split; [|split; [exact I|exact Ac]]. unfold CurOK; cbn [fst snd]. split; [exact Yc|]. split; [lia|]. split; [exact Pc|]. lia. }
    assert (Sc : Shows H tc empty_screen).
    { intros y x Hy Hx. rewrite Gc. unfold erase_down, erase_line. cbn [tstep cx cy pen tgrid].
      rewrite Xb, Cyb.
      apply (showsx_ext _ (fun _ => dcell)); [apply vcell_empty|apply vcell_empty|].
      destruct (0 <? y) eqn:B; [apply shows_blank_dcell|].
      assert (y = 0) by lia. subst y. rewrite Z.eqb_refl. destruct (0 <=? x) eqn:B2; [|lia].
      cbn [andb]. apply shows_blank_dcell. }
    pose proof (diff_body_ok H fs done scr empty_screen (0, 0) None tc p3 c3 k4 HH Ws (wf_empty H HH) Ic Sc Vc
                  ltac:(intros _; split; [reflexivity|exact Nc]) DB) as R.
    cbv zeta in R. destruct R as (U4 & _ & OKB & AB & R).
    split; [congruence|]. split; [unfold Rendered; exact R|]. split.
    { intros p EP ED EW. subst prev done prevW. cbn [is_none orb] in FULL. rewrite Z.eqb_refl in FULL. discriminate. }
    split.
    { intros y x Hy. rewrite AB by exact Hy. rewrite Gc. rewrite erase_down_above by (cbn [tstep cy]; lia).
      cbn [tstep tgrid]. rewrite Gb, Ga. reflexivity. }
    intros b B1 B2 B3 B0.
    replace (k0 ++ k1 ++ k2 ++ (k3 ++ [TSGR 0; TED]) ++ k4)
      with ((k0 ++ k1 ++ k2) ++ k3 ++ [TSGR 0; TED] ++ k4) by (rewrite <- !app_assoc; reflexivity).
    apply okrun_app. split; [apply OKP; auto|]. fold ta.
    apply okrun_app. split.
    { eapply okrun_mono; [| |eapply move_cursor_run; [exact Ia| | |exact M]; lia]; [lia|apply Z.le_refl]. }
    fold tb3. apply okrun_app. split.
    { apply okrun_nondesc; [repeat constructor|lia|exact B0]. }
    fold tc. cbn [sh empty_screen snd] in OKB. eapply okrun_mono; [| |exact OKB]; lia.
  - destruct prev as [p|]; [|rewrite orb_true_r in FULL; discriminate].
    cbn [is_none] in FULL. apply orb_false_iff in FULL. destruct FULL as [F1 _].
    apply orb_false_iff in F1. destruct F1 as [F1 _]. subst done.
    destruct HP as (Wp & Sp & _).
    destruct (diff_body tb W H fs false scr p pos None (Some false)) as [[p3 c3] k4] eqn:DB.
    inversion D; subst pos' cv' ks; clear D.
    replace (k0 ++ k1 ++ k2 ++ k4) with ((k0 ++ k1 ++ k2) ++ k4) by (rewrite <- !app_assoc; reflexivity).
    rewrite trun_app. fold ta.
    assert (Sa : Shows H ta p) by (intros y x Hy Hx; rewrite Ga; apply Sp; auto).
    pose proof (diff_body_ok H fs false scr p pos None ta p3 c3 k4 HH Ws Wp Ia Sa Va ltac:(discriminate) DB) as R.
    cbv zeta in R. destruct R as (U4 & FR & OKB & AB & R).
    split; [congruence|]. split; [unfold Rendered; exact R|]. split.
    { intros p' EP _ _ y x Hy. inversion EP; subst p'. rewrite (FR eq_refl y x Hy). rewrite Ga. reflexivity. }
    split.
    { intros y x Hy. rewrite AB by exact Hy. rewrite Ga. reflexivity. }
    intros b B1 B2 B3 B0.
    replace (k0 ++ k1 ++ k2 ++ k4) with ((k0 ++ k1 ++ k2) ++ k4) by (rewrite <- !app_assoc; reflexivity).
    apply okrun_app. split; [apply OKP; auto|]. fold ta.
    eapply okrun_mono; [| |exact OKB]; lia.
Qed.

End Diff.
