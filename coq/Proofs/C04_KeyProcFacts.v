(* C04 - facts about the key processor model (Model/C04_KeyProc.v). *)
From Coq Require Import ZArith List Bool Lia Sorting.Sorted Arith.PeanoNat.
From PTK Require Import Lib.Sx Model.C04_KeyProc.
Import ListNotations.
Open Scope Z_scope.

(* ------------------------------------------------------------ list helpers *)
Lemma last_opt_app {T} (l : list T) (x : T) : last_opt (l ++ [x]) = Some x.
Proof.
  induction l as [|a l IH]; [reflexivity|].
  cbn [app last_opt]. destruct (l ++ [x]) eqn:E.
  - destruct l; discriminate.
  - exact IH.
Qed.

Lemma last_opt_none {T} (l : list T) : last_opt l = None <-> l = [].
Proof.
  split; [|intros ->; reflexivity].
  induction l as [|a l IH]; [reflexivity|].
  cbn [last_opt]. destruct l; [discriminate|]. intros H. specialize (IH H). discriminate.
Qed.

Lemma last_opt_in {T} (l : list T) (x : T) : last_opt l = Some x -> In x l.
Proof.
  induction l as [|a l IH]; [discriminate|].
  cbn [last_opt]. destruct l.
  - intros [= ->]. left; reflexivity.
  - intros H. right. exact (IH H).
Qed.

Lemma last_opt_map {T U} (f : T -> U) (l : list T) :
  last_opt (map f l) = option_map f (last_opt l).
Proof.
  induction l as [|a l IH]; [reflexivity|].
  cbn [map last_opt]. destruct l; [reflexivity|]. exact IH.
Qed.

Lemma filter_map_comm {T U} (f : T -> U) (P : U -> bool) (l : list T) :
  filter P (map f l) = map f (filter (fun x => P (f x)) l).
Proof.
  induction l as [|a l IH]; [reflexivity|].
  cbn [map filter]. destruct (P (f a)); cbn [map]; rewrite IH; reflexivity.
Qed.

Lemma filter_filter_aux {T} (P R : T -> bool) (l : list T) :
  filter P (filter R l) = filter (fun x => P x && R x) l.
Proof.
  induction l as [|a l IH]; [reflexivity|].
  cbn [filter]. destruct (R a); cbn [filter]; rewrite IH; [|rewrite andb_false_r; reflexivity].
  rewrite andb_true_r. reflexivity.
Qed.

Lemma SSorted_filter {T} (R : T -> T -> Prop) (P : T -> bool) (l : list T) :
  StronglySorted R l -> StronglySorted R (filter P l).
Proof.
  induction 1 as [|a l SS IH FA]; [constructor|].
  cbn [filter]. destruct (P a); [|exact IH].
  constructor; [exact IH|].
  rewrite Forall_forall in *. intros x Hx. apply filter_In in Hx. apply FA. tauto.
Qed.

Lemma SSorted_last {T} (R : T -> T -> Prop) (l : list T) (m : T) :
  StronglySorted R l -> last_opt l = Some m -> forall y, In y l -> y = m \/ R y m.
Proof.
  induction 1 as [|a l SS IH FA]; [discriminate|].
  cbn [last_opt]. destruct l as [|b l'].
  - intros [= ->] y [->|[]]. left; reflexivity.
  - intros H y [->|Hy].
    + right. rewrite Forall_forall in FA. apply FA. exact (last_opt_in _ _ H).
    + exact (IH H y Hy).
Qed.

(* ------------------------------------------------------- sort and matching *)
Definition idx (x : Z * ib) : nat := fst (snd x).

(* more wildcards first; among equals, registration order *)
Definition lt2 (x y : Z * ib) : Prop :=
  fst x > fst y \/ (fst x = fst y /\ (idx x < idx y)%nat).

Lemma ins_desc_in x s y : In y (ins_desc x s) <-> y = x \/ In y s.
Proof.
  induction s as [|a s IH]; cbn [ins_desc].
  - cbn. intuition.
  - destruct (fst x <? fst a); cbn [In]; [rewrite IH|]; intuition.
Qed.

Lemma sort_desc_in l y : In y (sort_desc l) <-> In y l.
Proof.
  induction l as [|a l IH]; [reflexivity|].
  unfold sort_desc in *. cbn [fold_right]. rewrite ins_desc_in, IH. cbn. intuition.
Qed.

Lemma ins_desc_sorted x s :
  StronglySorted lt2 s -> (forall y, In y s -> (idx x < idx y)%nat) ->
  StronglySorted lt2 (ins_desc x s).
Proof.
  induction 1 as [|a s SS IH FA]; intros Hidx; cbn [ins_desc].
  - constructor; constructor.
  - destruct (fst x <? fst a) eqn:E.
    + apply Z.ltb_lt in E. constructor.
      * apply IH. intros y Hy. apply Hidx. right; exact Hy.
      * rewrite Forall_forall in *. intros y Hy. apply ins_desc_in in Hy. destruct Hy as [->|Hy].
        -- left. lia.
        -- exact (FA y Hy).
    + apply Z.ltb_ge in E. constructor; [constructor; assumption|].
      rewrite Forall_forall in *. intros y [<-|Hy].
      * destruct (Z.eq_dec (fst x) (fst a)) as [Q|Q].
        -- right. split; [exact Q|]. apply Hidx. left; reflexivity.
        -- left. lia.
      * specialize (FA y Hy). assert (Hi : (idx x < idx y)%nat) by (apply Hidx; right; exact Hy).
        destruct FA as [G|[G1 G2]].
        -- left. lia.
        -- destruct (Z.eq_dec (fst x) (fst y)) as [Q|Q]; [right; split; assumption|left; lia].
Qed.

Lemma sort_desc_sorted l :
  StronglySorted (fun x y => (idx x < idx y)%nat) l -> StronglySorted lt2 (sort_desc l).
Proof.
  induction 1 as [|a l SS IH FA]; [constructor|].
  unfold sort_desc in *. cbn [fold_right]. apply ins_desc_sorted; [exact IH|].
  intros y Hy. apply (sort_desc_in l y) in Hy. rewrite Forall_forall in FA. exact (FA y Hy).
Qed.

Lemma index_from_in n l i b : In (i, b) (index_from n l) <-> (n <= i)%nat /\ nth_error l (i - n) = Some b.
Proof.
  revert n. induction l as [|a l IH]; intros n; cbn [index_from In].
  - split; [tauto|]. intros [_ H]. destruct (i - n)%nat; discriminate.
  - rewrite IH. split.
    + intros [[= <- <-]|[H1 H2]].
      * split; [lia|]. rewrite Nat.sub_diag. reflexivity.
      * split; [lia|]. replace (i - n)%nat with (S (i - S n)) by lia. exact H2.
    + intros [H1 H2]. destruct (Nat.eq_dec i n) as [->|Q].
      * left. rewrite Nat.sub_diag in H2. cbn in H2. congruence.
      * right. split; [lia|]. replace (i - n)%nat with (S (i - S n)) in H2 by lia. exact H2.
Qed.

Lemma index_from_sorted n l : StronglySorted (fun x y : ib => (fst x < fst y)%nat) (index_from n l).
Proof.
  revert n. induction l as [|a l IH]; intros n; cbn [index_from]; constructor; [apply IH|].
  rewrite Forall_forall. intros [i b] H. apply index_from_in in H. cbn. lia.
Qed.

Lemma candidates_in bs ks c m :
  In (c, m) (candidates bs ks) <-> In m bs /\ exact (snd m) ks = true /\ c = any_count (bkeys (snd m)) ks.
Proof.
  induction bs as [|a bs IH]; cbn [candidates In]; [tauto|].
  destruct (exact (snd a) ks) eqn:E; cbn [In]; rewrite IH.
  - split.
    + intros [[= <- <-]|H]; [tauto|]. tauto.
    + intros [[->|H] [H2 ->]]; [left; reflexivity|right; tauto].
  - split; [tauto|]. intros [[->|H] [H2 H3]]; [congruence|tauto].
Qed.

Lemma candidates_sorted bs ks :
  StronglySorted (fun x y : ib => (fst x < fst y)%nat) bs ->
  StronglySorted (fun x y => (idx x < idx y)%nat) (candidates bs ks).
Proof.
  induction 1 as [|a bs SS IH FA]; cbn [candidates]; [constructor|].
  destruct (exact (snd a) ks); [|exact IH]. constructor; [exact IH|].
  rewrite Forall_forall in *. intros [c m] H. apply candidates_in in H. unfold idx; cbn. apply FA. tauto.
Qed.

(* wildcards of a binding *)
Fixpoint count_any (bks : list Z) : Z :=
  match bks with [] => 0 | b :: r => (if b =? ANY then 1 else 0) + count_any r end.
Definition wild (b : binding) : Z := count_any (bkeys b).

Lemma any_count_exact bks ks : length ks = length bks -> any_count bks ks = count_any bks.
Proof.
  revert ks. induction bks as [|b r IH]; intros [|k kr] H; try discriminate; [reflexivity|].
  cbn [any_count count_any]. rewrite IH; [reflexivity|]. cbn in H. lia.
Qed.

Lemma exact_len b ks : exact b ks = true -> length ks = length (bkeys b).
Proof. unfold exact. intros H. apply andb_prop in H. destruct H as [H _]. apply Nat.eqb_eq in H. exact H. Qed.

(* The pick: the last element of the (filtered) lookup result. *)
Section Pick.
  Variable l : list binding.
  Variable e : env.
  Variable ks : list Z.
  Variable Q : ib -> bool.      (* an additional selection (eager), or everything *)

  Definition Sel (i : nat) (b : binding) : Prop :=
    nth_error l i = Some b /\ exact b ks = true /\ feval e (bfilter b) = true /\ Q (i, b) = true.

  Definition Best (i : nat) (b : binding) : Prop :=
    Sel i b /\
    forall j b', Sel j b' -> wild b < wild b' \/ (wild b = wild b' /\ (j <= i)%nat).

  Lemma sel_in_matches i b :
    In (i, b) (filter Q (get_matches (index_from 0 l) e ks)) <-> Sel i b.
  Proof.
    unfold get_matches, get_for_keys, Sel.
    rewrite filter_In, filter_In, in_map_iff. split.
    - intros [[[[c m] [H1 H2]] H3] H4]. cbn in H1. subst m.
      apply sort_desc_in, candidates_in in H2. destruct H2 as [H2 [H5 _]].
      apply index_from_in in H2. rewrite Nat.sub_0_r in H2. cbn in H5. unfold active in H3. cbn in H3. tauto.
    - intros [H1 [H2 [H3 H4]]]. split; [split|]; [|exact H3|exact H4].
      exists (any_count (bkeys b) ks, (i, b)). split; [reflexivity|].
      apply sort_desc_in, candidates_in. cbn. split; [|tauto].
      apply index_from_in. rewrite Nat.sub_0_r. split; [lia|exact H1].
  Qed.

  Lemma pick_best i b :
    last_opt (filter Q (get_matches (index_from 0 l) e ks)) = Some (i, b) -> Best i b.
  Proof.
    intros H. split; [apply sel_in_matches; exact (last_opt_in _ _ H)|].
    intros j b' HS. apply sel_in_matches in HS.
    unfold get_matches, get_for_keys in *.
    rewrite filter_map_comm, filter_map_comm in H, HS. rewrite filter_filter_aux in H, HS. cbv beta in H, HS.
    rewrite last_opt_map in H. rewrite in_map_iff in HS.
    destruct HS as [[c' m'] [E1 HS]]. cbn in E1. subst m'.
    destruct (last_opt _) as [[c m]|] eqn:EL in H; [|discriminate]. cbn in H. injection H as ->.
    assert (SSo : StronglySorted lt2 (sort_desc (candidates (index_from 0 l) ks)))
      by (apply sort_desc_sorted, candidates_sorted, index_from_sorted).
    apply (SSorted_filter lt2 (fun x => Q (snd x) && active e (snd x))) in SSo.
    pose proof (last_opt_in _ _ EL) as Hm.
    apply filter_In in Hm. destruct Hm as [Hm _]. apply sort_desc_in, candidates_in in Hm.
    pose proof HS as HS'. apply filter_In in HS'. destruct HS' as [HS' _]. apply sort_desc_in, candidates_in in HS'.
    cbn in Hm, HS'. destruct Hm as [_ [X1 ->]]. destruct HS' as [_ [X2 ->]].
    rewrite (any_count_exact _ _ (exact_len _ _ X1)) in *. rewrite (any_count_exact _ _ (exact_len _ _ X2)) in *.
    destruct (SSorted_last lt2 _ _ SSo EL _ HS) as [E|[G|[G1 G2]]].
    - injection E as E1 E2 E3. subst. right. split; [reflexivity|lia].
    - left. cbn in G. unfold wild. lia.
    - right. cbn in G1. unfold idx in G2. cbn in G2. unfold wild. split; [lia|lia].
  Qed.

  Lemma pick_none :
    last_opt (filter Q (get_matches (index_from 0 l) e ks)) = None <-> (forall i b, ~ Sel i b).
  Proof.
    rewrite last_opt_none. split.
    - intros H i b HS. apply sel_in_matches in HS. rewrite H in HS. exact HS.
    - intros H. destruct (filter Q _) as [|[i b] r] eqn:E; [reflexivity|].
      exfalso. apply (H i b). apply sel_in_matches. rewrite E. left; reflexivity.
  Qed.
End Pick.

(* ------------------------------------------------------------ conservation *)
Definition ev_keys (ev : event) : list Z :=
  match ev with EInvoke _ ks => ks | EDrop k => [k] | ERaised lb _ => lb end.
Definition evs_keys (evs : list event) : list Z := flat_map ev_keys evs.
Definition item_keys (it : item) : list Z := match it with IKey k => [k] | IFlush => [] end.
Definition items_keys (its : list item) : list Z := flat_map item_keys its.

Lemma evs_keys_app a b : evs_keys (a ++ b) = evs_keys a ++ evs_keys b.
Proof. unfold evs_keys. apply flat_map_app. Qed.

Lemma scan_range bs e b n i m : scan bs e b n = Some (i, m) -> (1 <= i <= n)%nat.
Proof.
  induction n as [|n IH]; cbn [scan]; [discriminate|].
  destruct (last_opt _); [intros [= <- <-]; lia|]. intros H. specialize (IH H). lia.
Qed.

Definition conserved (b : list Z) (r : lres) : Prop :=
  match r with
  | LDone b' _ _ evs => b = evs_keys evs ++ b'
  | LRaised _ evs => b = evs_keys evs
  | LFuel => True
  end.

Lemma conserved_lcons ev b r : conserved b r -> conserved (ev_keys ev ++ b) (lcons ev r).
Proof.
  destruct r as [b' e q evs|e evs|]; cbn; intros H; try exact I; rewrite H.
  - rewrite app_assoc. reflexivity.
  - reflexivity.
Qed.

Lemma loop_conserved fuel bs : forall b flush e q, conserved b (loop fuel bs b flush e q).
Proof.
  induction fuel as [|fuel IH]; intros b flush e q; cbn [loop]; [exact I|].
  destruct b as [|k b0]; [reflexivity|].
  set (b := k :: b0).
  destruct (match filter (eager e) (get_matches bs e b) with [] => _ | _ :: _ => false end); [reflexivity|].
  destruct (last_opt _) as [m|].
  - destruct (run_actions _ e q) as [[e' q'] r]. destruct r; cbn; rewrite ?app_nil_r; reflexivity.
  - destruct (scan bs e b (length b)) as [[i m]|] eqn:ES.
    + destruct (run_actions _ e q) as [[e' q'] r]. destruct r.
      * cbn. rewrite app_nil_r. symmetry. apply firstn_skipn.
      * rewrite <- (firstn_skipn i b) at 1.
        apply (conserved_lcons (EInvoke (fst m) (firstn i b))). apply IH.
    + apply (conserved_lcons (EDrop k) b0). apply IH.
Qed.

Lemma loop_fuel fuel bs : forall b flush e q, (length b < fuel)%nat -> loop fuel bs b flush e q <> LFuel.
Proof.
  induction fuel as [|fuel IH]; intros b flush e q HL; [lia|]. cbn [loop].
  destruct b as [|k b0]; [discriminate|].
  set (b := k :: b0) in *.
  destruct (match filter (eager e) (get_matches bs e b) with [] => _ | _ :: _ => false end); [discriminate|].
  destruct (last_opt _) as [m|].
  - destruct (run_actions _ e q) as [[e' q'] r]. destruct r; discriminate.
  - destruct (scan bs e b (length b)) as [[i m]|] eqn:ES.
    + destruct (run_actions _ e q) as [[e' q'] r]. destruct r; [discriminate|].
      apply scan_range in ES.
      assert (HH : (length (skipn i b) < fuel)%nat) by (rewrite skipn_length; lia).
      specialize (IH (skipn i b) false e' q' HH). destruct (loop fuel bs (skipn i b) false e' q'); cbn; congruence.
    + assert (HH : (length b0 < fuel)%nat) by (cbn in HL; lia).
      specialize (IH b0 false e q HH). cbn [tl b]. destruct (loop fuel bs b0 false e q); cbn; congruence.
Qed.

Lemma send_fuel bs b e q it : send bs b e q it <> LFuel.
Proof. unfold send. apply loop_fuel. lia. Qed.

Lemma send_conserved bs b e q it : conserved (b ++ item_keys it) (send bs b e q it).
Proof.
  unfold send. replace (b ++ item_keys it) with (push b it); [apply loop_conserved|].
  destruct it; cbn; [reflexivity|rewrite app_nil_r; reflexivity].
Qed.

(* every key popped from the queue is in exactly one invocation, dropped,
   discarded by the reset after an exception, or still in key_buffer - in order *)
Lemma process_keys_conserved fuel bs : forall s,
  let '(s', evs, pop, stt) := process_keys fuel bs s in
  buf s ++ items_keys pop = evs_keys evs ++ buf s'.
Proof.
  induction fuel as [|fuel IH]; intros s; cbn [process_keys].
  - destruct (queue s); cbn; rewrite app_nil_r; reflexivity.
  - destruct (queue s) as [|it q]; [cbn; rewrite app_nil_r; reflexivity|].
    pose proof (send_conserved bs (buf s) (cenv s) q it) as HC.
    destruct (send bs (buf s) (cenv s) q it) as [b e q' evs|e evs|].
    + specialize (IH (mkst b q' e)). destruct (process_keys fuel bs (mkst b q' e)) as [[[s' evs'] pop] stt].
      cbn in HC, IH. cbn [items_keys flat_map]. rewrite evs_keys_app, app_assoc, HC, <- !app_assoc.
      f_equal. exact IH.
    + cbn in HC. cbn. rewrite !app_nil_r. exact HC.
    + cbn. rewrite app_nil_r. reflexivity.
Qed.

(* the queue side, when no handler feeds keys *)
Definition feeds (a : action) : bool := match a with AFeed _ _ => true | _ => false end.
Definition no_feed (bs : list ib) : Prop :=
  forall m, In m bs -> forallb (fun a => negb (feeds a)) (bacts (snd m)) = true.

Lemma run_actions_no_feed acts e q :
  forallb (fun a => negb (feeds a)) acts = true -> snd (fst (run_actions acts e q)) = q.
Proof.
  revert e. induction acts as [|a acts IH]; intros e H; [reflexivity|].
  cbn in H. apply andb_prop in H. destruct H as [H1 H2].
  destruct a; cbn [run_actions]; [apply IH; exact H2|reflexivity|discriminate].
Qed.

Lemma get_matches_in bs e ks m : In m (get_matches bs e ks) -> In m bs.
Proof.
  unfold get_matches, get_for_keys. intros H. apply filter_In in H. destruct H as [H _].
  apply in_map_iff in H. destruct H as [[c m'] [E H]]. cbn in E. subst m'.
  apply sort_desc_in, candidates_in in H. tauto.
Qed.

Lemma scan_in bs e b n i m : scan bs e b n = Some (i, m) -> In m bs.
Proof.
  induction n as [|n IH]; cbn [scan]; [discriminate|].
  destruct (last_opt _) eqn:EL; [|exact IH].
  intros [= <- <-]. apply last_opt_in in EL. exact (get_matches_in _ _ _ _ EL).
Qed.

Definition queue_kept (q : list item) (r : lres) : Prop :=
  match r with
  | LDone _ _ q' _ => q' = q
  | LRaised _ evs => exists evs0 lb, evs = evs0 ++ [ERaised lb q]
  | LFuel => True
  end.

Lemma queue_kept_lcons ev q r : queue_kept q r -> queue_kept q (lcons ev r).
Proof.
  destruct r as [b' e q' evs|e evs|]; cbn; try tauto.
  intros [evs0 [lb ->]]. exists (ev :: evs0), lb. reflexivity.
Qed.

Lemma loop_queue_kept fuel bs : no_feed bs -> forall b flush e q, queue_kept q (loop fuel bs b flush e q).
Proof.
  intros NF. induction fuel as [|fuel IH]; intros b flush e q; cbn [loop]; [exact I|].
  destruct b as [|k b0]; [reflexivity|].
  set (b := k :: b0).
  destruct (match filter (eager e) (get_matches bs e b) with [] => _ | _ :: _ => false end); [reflexivity|].
  destruct (last_opt _) as [m|] eqn:EL.
  - assert (Hm : In m bs).
    { apply last_opt_in in EL. destruct (filter (eager e) (get_matches bs e b)) eqn:EF.
      - exact (get_matches_in _ _ _ _ EL).
      - rewrite <- EF in EL. apply filter_In in EL. exact (get_matches_in _ _ _ _ (proj1 EL)). }
    pose proof (run_actions_no_feed _ e q (NF m Hm)) as HQ.
    destruct (run_actions _ e q) as [[e' q'] r]. cbn in HQ. subst q'. destruct r; cbn; [|reflexivity].
    exists [EInvoke (fst m) b], []. reflexivity.
  - destruct (scan bs e b (length b)) as [[i m]|] eqn:ES.
    + pose proof (run_actions_no_feed _ e q (NF m (scan_in _ _ _ _ _ _ ES))) as HQ.
      destruct (run_actions _ e q) as [[e' q'] r]. cbn in HQ. subst q'. destruct r.
      * cbn. exists [EInvoke (fst m) (firstn i b)], (skipn i b). reflexivity.
      * apply queue_kept_lcons, IH.
    + apply queue_kept_lcons, IH.
Qed.

Lemma process_keys_queue fuel bs : no_feed bs -> forall s,
  let '(s', evs, pop, stt) := process_keys fuel bs s in
  match stt with
  | SRaised => exists evs0 lb lq, evs = evs0 ++ [ERaised lb lq] /\ queue s = pop ++ lq
  | _ => queue s = pop ++ queue s'
  end.
Proof.
  intros NF. induction fuel as [|fuel IH]; intros s; cbn [process_keys].
  - destruct (queue s) eqn:EQ; cbn; rewrite ?EQ; reflexivity.
  - destruct (queue s) as [|it q] eqn:EQ; [cbn; rewrite ?EQ; reflexivity|].
    pose proof (loop_queue_kept (S (length (push (buf s) it))) bs NF (push (buf s) it) (is_flush it) (cenv s) q) as HK.
    unfold send. destruct (loop _ bs _ _ _ q) as [b e q' evs|e evs|].
    + cbn in HK. subst q'. specialize (IH (mkst b q e)).
      destruct (process_keys fuel bs (mkst b q e)) as [[[s' evs'] pop] stt]. cbn [queue] in IH.
      destruct stt.
      * rewrite IH. reflexivity.
      * destruct IH as [evs0 [lb [lq [-> ->]]]]. exists (evs ++ evs0), lb, lq. rewrite app_assoc. split; reflexivity.
      * rewrite IH. reflexivity.
    + cbn in HK. destruct HK as [evs0 [lb ->]]. exists evs0, lb, q. split; reflexivity.
    + rewrite EQ. reflexivity.
Qed.

(* an exception leaves the processor reset *)
Lemma process_keys_raised fuel bs : forall s s' evs pop,
  process_keys fuel bs s = (s', evs, pop, SRaised) ->
  s' = mkst [] [] (cenv s') /\
  exists evs0 i ks lb lq, evs = evs0 ++ [EInvoke i ks; ERaised lb lq].
Proof.
  induction fuel as [|fuel IH]; intros s s' evs pop; cbn [process_keys].
  - destruct (queue s); discriminate.
  - destruct (queue s) as [|it q]; [discriminate|].
    destruct (send bs (buf s) (cenv s) q it) as [b e q' evs1|e evs1|] eqn:ES.
    + destruct (process_keys fuel bs (mkst b q' e)) as [[[s1 evs'] pop1] stt] eqn:EP.
      intros [= <- <- <- ->]. destruct (IH _ _ _ _ EP) as [H1 [evs0 [i [ks [lb [lq ->]]]]]].
      split; [exact H1|]. exists (evs1 ++ evs0), i, ks, lb, lq. rewrite app_assoc. reflexivity.
    + intros [= <- <- <-]. split; [reflexivity|].
      clear IH. unfold send in ES.
      remember (S (length (push (buf s) it))) as fu eqn:Efu. clear Efu. revert ES.
      generalize (push (buf s) it) (is_flush it) (cenv s) q e evs1.
      induction fu as [|fu IHf]; intros b fl e0 q0 e1 evs; cbn [loop]; [discriminate|].
      destruct b as [|k b0]; [discriminate|].
      set (bb := k :: b0).
      destruct (match filter (eager e0) (get_matches bs e0 bb) with [] => _ | _ :: _ => false end); [discriminate|].
      destruct (last_opt _) as [m|].
      * destruct (run_actions _ e0 q0) as [[e' q'] r]. destruct r; [|discriminate].
        intros [= <- <-]. exists [], (fst m), bb, [], q'. reflexivity.
      * destruct (scan bs e0 bb (length bb)) as [[i m]|].
        -- destruct (run_actions _ e0 q0) as [[e' q'] r]. destruct r.
           ++ intros [= <- <-]. exists [], (fst m), (firstn i bb), (skipn i bb), q'. reflexivity.
           ++ destruct (loop fu bs (skipn i bb) false e' q') as [| e2 evs2 |] eqn:EL; cbn; try discriminate.
              intros [= <- <-]. destruct (IHf _ _ _ _ _ _ EL) as [evs0 [i' [ks [lb [lq ->]]]]].
              exists (EInvoke (fst m) (firstn i bb) :: evs0), i', ks, lb, lq. reflexivity.
        -- destruct (loop fu bs (tl bb) false e0 q0) as [| e2 evs2 |] eqn:EL; cbn; try discriminate.
           intros [= <- <-]. destruct (IHf _ _ _ _ _ _ EL) as [evs0 [i' [ks [lb [lq ->]]]]].
           exists (EDrop (hd 0 bb) :: evs0), i', ks, lb, lq. reflexivity.
    + discriminate.
Qed.

(* the result does not depend on the fuel once the run finishes *)
Lemma process_keys_fuel_mono fuel bs : forall s r fuel',
  process_keys fuel bs s = r -> snd r <> SFuel -> (fuel <= fuel')%nat -> process_keys fuel' bs s = r.
Proof.
  induction fuel as [|fuel IH]; intros s r fuel' H NF LE.
  - cbn [process_keys] in H. destruct fuel'; cbn [process_keys]; destruct (queue s); try exact H; subst r; cbn in NF; congruence.
  - destruct fuel' as [|fuel']; [lia|]. cbn [process_keys] in *.
    destruct (queue s) as [|it q]; [exact H|].
    destruct (send bs (buf s) (cenv s) q it) as [b e q' evs|e evs|]; [|exact H|exact H].
    destruct (process_keys fuel bs (mkst b q' e)) as [[[s1 evs'] pop1] stt] eqn:EP.
    assert (NF' : stt <> SFuel) by (subst r; exact NF).
    rewrite (IH _ _ fuel' EP NF' ltac:(lia)). exact H.
Qed.

(* without feeding handlers, one unit of fuel per queued item suffices *)
Lemma process_keys_fuel_nofeed fuel bs : no_feed bs -> forall s,
  (length (queue s) <= fuel)%nat -> snd (process_keys fuel bs s) <> SFuel.
Proof.
  intros NF. induction fuel as [|fuel IH]; intros s HL; cbn [process_keys].
  - destruct (queue s); [discriminate|cbn in HL; lia].
  - destruct (queue s) as [|it q] eqn:EQ; [discriminate|].
    pose proof (loop_queue_kept (S (length (push (buf s) it))) bs NF (push (buf s) it) (is_flush it) (cenv s) q) as HK.
    pose proof (send_fuel bs (buf s) (cenv s) q it) as HF.
    unfold send in *. destruct (loop _ bs _ _ _ q) as [b e q' evs|e evs|]; [|discriminate|congruence].
    cbn in HK. subst q'. specialize (IH (mkst b q e)). cbn [queue] in IH.
    destruct (process_keys fuel bs (mkst b q e)) as [[[s1 evs'] pop1] stt]. cbn in *. apply IH. lia.
Qed.
