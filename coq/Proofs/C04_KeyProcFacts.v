(* C04 - facts about the key processor model (Model/C04_KeyProc.v). *)
From Coq Require Import ZArith List Bool Lia Sorting.Sorted Arith.PeanoNat.
From PTK Require Import Lib.Sx Model.C04_KeyProc.
Import ListNotations.
Open Scope Z_scope.

(* ------------------------------------------------------------ list helpers *)
Lemma last_opt_app {T} (l : list T) (x : T) : last_opt (l ++ [x]) = Some x.
Proof.
  induction l as [|a l IH]; [reflexivity|].
  cbn [app last_opt]. destruct (l ++ [x]) eqn:E.
  - destruct l; discriminate.
  - exact IH.
Qed.

Lemma last_opt_none {T} (l : list T) : last_opt l = None <-> l = [].
Proof.
  split; [|intros ->; reflexivity].
  induction l as [|a l IH]; [reflexivity|].
  cbn [last_opt]. destruct l; [discriminate|]. intros H. specialize (IH H). discriminate.
Qed.

Lemma last_opt_in {T} (l : list T) (x : T) : last_opt l = Some x -> In x l.
Proof.
  induction l as [|a l IH]; [discriminate|].
  cbn [last_opt]. destruct l.
  - intros [= ->]. left; reflexivity.
  - intros H. right. exact (IH H).
Qed.

Lemma last_opt_map {T U} (f : T -> U) (l : list T) :
  last_opt (map f l) = option_map f (last_opt l).
Proof.
  induction l as [|a l IH]; [reflexivity|].
  cbn [map last_opt]. destruct l; [reflexivity|]. exact IH.
Qed.

Lemma filter_map_comm {T U} (f : T -> U) (P : U -> bool) (l : list T) :
  filter P (map f l) = map f (filter (fun x => P (f x)) l).
Proof.
  induction l as [|a l IH]; [reflexivity|].
  cbn [map filter]. destruct (P (f a)); cbn [map]; rewrite IH; reflexivity.
Qed.

Lemma filter_filter_aux {T} (P R : T -> bool) (l : list T) :
  filter P (filter R l) = filter (fun x => P x && R x) l.
Proof.
  induction l as [|a l IH]; [reflexivity|].
  cbn [filter]. destruct (R a); cbn [filter]; rewrite IH; [|rewrite andb_false_r; reflexivity].
  rewrite andb_true_r. reflexivity.
Qed.

Lemma SSorted_filter {T} (R : T -> T -> Prop) (P : T -> bool) (l : list T) :
  StronglySorted R l -> StronglySorted R (filter P l).
Proof.
  induction 1 as [|a l SS IH FA]; [constructor|].
  cbn [filter]. destruct (P a); [|exact IH].
  constructor; [exact IH|].
  rewrite Forall_forall in *. intros x Hx. apply filter_In in Hx. apply FA. tauto.
Qed.

Lemma SSorted_last {T} (R : T -> T -> Prop) (l : list T) (m : T) :
  StronglySorted R l -> last_opt l = Some m -> forall y, In y l -> y = m \/ R y m.
Proof.
  induction 1 as [|a l SS IH FA]; [discriminate|].
  cbn [last_opt]. destruct l as [|b l'].
  - intros [= ->] y [->|[]]. left; reflexivity.
  - intros H y [->|Hy].
    + right. rewrite Forall_forall in FA. apply FA. exact (last_opt_in _ _ H).
    + exact (IH H y Hy).
Qed.

(* ------------------------------------------------------- sort and matching *)
Definition idx (x : Z * ib) : nat := fst (snd x).

(* more wildcards first; among equals, registration order *)
Definition lt2 (x y : Z * ib) : Prop :=
  fst x > fst y \/ (fst x = fst y /\ (idx x < idx y)%nat).

Lemma ins_desc_in x s y : In y (ins_desc x s) <-> y = x \/ In y s.
Proof.
  induction s as [|a s IH]; cbn [ins_desc].
  - cbn. intuition.
  - destruct (fst x <? fst a); cbn [In]; [rewrite IH|]; intuition.
Qed.

Lemma sort_desc_in l y : In y (sort_desc l) <-> In y l.
Proof.
  induction l as [|a l IH]; [reflexivity|].
  unfold sort_desc in *. cbn [fold_right]. rewrite ins_desc_in, IH. cbn. intuition.
Qed.

Lemma ins_desc_sorted x s :
  StronglySorted lt2 s -> (forall y, In y s -> (idx x < idx y)%nat) ->
  StronglySorted lt2 (ins_desc x s).
Proof.
  induction 1 as [|a s SS IH FA]; intros Hidx; cbn [ins_desc].
  - constructor; constructor.
  - destruct (fst x <? fst a) eqn:E.
    + apply Z.ltb_lt in E. constructor.
      * apply IH. intros y Hy. apply Hidx. right; exact Hy.
      * rewrite Forall_forall in *. intros y Hy. apply ins_desc_in in Hy. destruct Hy as [->|Hy].
        -- left. lia.
        -- exact (FA y Hy).
    + apply Z.ltb_ge in E. constructor; [constructor; assumption|].
      rewrite Forall_forall in *. intros y [<-|Hy].
      * destruct (Z.eq_dec (fst x) (fst a)) as [Q|Q].
        -- right. split; [exact Q|]. apply Hidx. left; reflexivity.
        -- left. lia.
      * specialize (FA y Hy). assert (Hi : (idx x < idx y)%nat) by (apply Hidx; right; exact Hy).
        destruct FA as [G|[G1 G2]].
        -- left. lia.
        -- destruct (Z.eq_dec (fst x) (fst y)) as [Q|Q]; [right; split; assumption|left; lia].
Qed.

Lemma sort_desc_sorted l :
  StronglySorted (fun x y => (idx x < idx y)%nat) l -> StronglySorted lt2 (sort_desc l).
Proof.
  induction 1 as [|a l SS IH FA]; [constructor|].
  unfold sort_desc in *. cbn [fold_right]. apply ins_desc_sorted; [exact IH|].
  intros y Hy. apply (sort_desc_in l y) in Hy. rewrite Forall_forall in FA. exact (FA y Hy).
Qed.

Lemma index_from_in n l i b : In (i, b) (index_from n l) <-> (n <= i)%nat /\ nth_error l (i - n) = Some b.
Proof.
  revert n. induction l as [|a l IH]; intros n; cbn [index_from In].
  - split; [tauto|]. intros [_ H]. destruct (i - n)%nat; discriminate.
  - rewrite IH. split.
    + intros [[= <- <-]|[H1 H2]].
      * split; [lia|]. rewrite Nat.sub_diag. reflexivity.
      * split; [lia|]. replace (i - n)%nat with (S (i - S n)) by lia. exact H2.
    + intros [H1 H2]. destruct (Nat.eq_dec i n) as [->|Q].
      * left. rewrite Nat.sub_diag in H2. cbn in H2. congruence.
      * right. split; [lia|]. replace (i - n)%nat with (S (i - S n)) in H2 by lia. exact H2.
Qed.

Lemma index_from_sorted n l : StronglySorted (fun x y : ib => (fst x < fst y)%nat) (index_from n l).
Proof.
  revert n. induction l as [|a l IH]; intros n; cbn [index_from]; constructor; [apply IH|].
  rewrite Forall_forall. intros [i b] H. apply index_from_in in H. cbn. lia.
Qed.

Lemma candidates_in bs ks c m :
  In (c, m) (candidates bs ks) <-> In m bs /\ exact (snd m) ks = true /\ c = any_count (bkeys (snd m)) ks.
Proof.
  induction bs as [|a bs IH]; cbn [candidates In]; [tauto|].
  destruct (exact (snd a) ks) eqn:E; cbn [In]; rewrite IH.
  - split.
    + intros [[= <- <-]|H]; [tauto|]. tauto.
    + intros [[->|H] [H2 ->]]; [left; reflexivity|right; tauto].
  - split; [tauto|]. intros [[->|H] [H2 H3]]; [congruence|tauto].
Qed.

Lemma candidates_sorted bs ks :
  StronglySorted (fun x y : ib => (fst x < fst y)%nat) bs ->
  StronglySorted (fun x y => (idx x < idx y)%nat) (candidates bs ks).
Proof.
  induction 1 as [|a bs SS IH FA]; cbn [candidates]; [constructor|].
  destruct (exact (snd a) ks); [|exact IH]. constructor; [exact IH|].
  rewrite Forall_forall in *. intros [c m] H. apply candidates_in in H. unfold idx; cbn. apply FA. tauto.
Qed.

(* wildcards of a binding *)
Fixpoint count_any (bks : list Z) : Z :=
  match bks with [] => 0 | b :: r => (if b =? ANY then 1 else 0) + count_any r end.
Definition wild (b : binding) : Z := count_any (bkeys b).

Lemma any_count_exact bks ks : length ks = length bks -> any_count bks ks = count_any bks.
Proof.
  revert ks. induction bks as [|b r IH]; intros [|k kr] H; try discriminate; [reflexivity|].
  cbn [any_count count_any]. rewrite IH; [reflexivity|]. cbn in H. lia.
Qed.

Lemma exact_len b ks : exact b ks = true -> length ks = length (bkeys b).
Proof. unfold exact. intros H. apply andb_prop in H. destruct H as [H _]. apply Nat.eqb_eq in H. exact H. Qed.

(* The pick: the last element of the (filtered) lookup result. *)
Section Pick.
  Variable l : list binding.
  Variable e : env.
  Variable ks : list Z.
  Variable Q : ib -> bool.      (* an additional selection (eager), or everything *)

  Definition Sel (i : nat) (b : binding) : Prop :=
    nth_error l i = Some b /\ exact b ks = true /\ feval e (bfilter b) = true /\ Q (i, b) = true.

  Definition Best (i : nat) (b : binding) : Prop :=
    Sel i b /\
    forall j b', Sel j b' -> wild b < wild b' \/ (wild b = wild b' /\ (j <= i)%nat).

  Lemma sel_in_matches i b :
    In (i, b) (filter Q (get_matches (index_from 0 l) e ks)) <-> Sel i b.
  Proof.
    unfold get_matches, get_for_keys, Sel.
    rewrite filter_In, filter_In, in_map_iff. split.
    - intros [[[[c m] [H1 H2]] H3] H4]. cbn in H1. subst m.
      apply sort_desc_in, candidates_in in H2. destruct H2 as [H2 [H5 _]].
      apply index_from_in in H2. rewrite Nat.sub_0_r in H2. cbn in H5. unfold active in H3. cbn in H3. tauto.
    - intros [H1 [H2 [H3 H4]]]. split; [split|]; [|exact H3|exact H4].
      exists (any_count (bkeys b) ks, (i, b)). split; [reflexivity|].
      apply sort_desc_in, candidates_in. cbn. split; [|tauto].
      apply index_from_in. rewrite Nat.sub_0_r. split; [lia|exact H1].
  Qed.

  Lemma pick_best i b :
    last_opt (filter Q (get_matches (index_from 0 l) e ks)) = Some (i, b) -> Best i b.
  Proof.
    intros H. split; [apply sel_in_matches; exact (last_opt_in _ _ H)|].
    intros j b' HS. apply sel_in_matches in HS.
    unfold get_matches, get_for_keys in *.
    rewrite filter_map_comm, filter_map_comm in H, HS. rewrite filter_filter_aux in H, HS. cbv beta in H, HS.
    rewrite last_opt_map in H. rewrite in_map_iff in HS.
    destruct HS as [[c' m'] [E1 HS]]. cbn in E1. subst m'.
    destruct (last_opt _) as [[c m]|] eqn:EL in H; [|discriminate]. cbn in H. injection H as ->.
    assert (SSo : StronglySorted lt2 (sort_desc (candidates (index_from 0 l) ks)))
      by (apply sort_desc_sorted, candidates_sorted, index_from_sorted).
    apply (SSorted_filter lt2 (fun x => Q (snd x) && active e (snd x))) in SSo.
    pose proof (last_opt_in _ _ EL) as Hm.
    apply filter_In in Hm. destruct Hm as [Hm _]. apply sort_desc_in, candidates_in in Hm.
    pose proof HS as HS'. apply filter_In in HS'. destruct HS' as [HS' _]. apply sort_desc_in, candidates_in in HS'.
    cbn in Hm, HS'. destruct Hm as [_ [X1 ->]]. destruct HS' as [_ [X2 ->]].
    rewrite (any_count_exact _ _ (exact_len _ _ X1)) in *. rewrite (any_count_exact _ _ (exact_len _ _ X2)) in *.
    destruct (SSorted_last lt2 _ _ SSo EL _ HS) as [E|[G|[G1 G2]]].
    - injection E as E1 E2 E3. subst. right. split; [reflexivity|lia].
    - left. cbn in G. unfold wild. lia.
    - right. cbn in G1. unfold idx in G2. cbn in G2. unfold wild. split; [lia|lia].
  Qed.

  Lemma pick_none :
    last_opt (filter Q (get_matches (index_from 0 l) e ks)) = None <-> (forall i b, ~ Sel i b).
  Proof.
    rewrite last_opt_none. split.
    - intros H i b HS. apply sel_in_matches in HS. rewrite H in HS. exact HS.
    - intros H. destruct (filter Q _) as [|[i b] r] eqn:E; [reflexivity|].
      exfalso. apply (H i b). apply sel_in_matches. rewrite E. left; reflexivity.
  Qed.
End Pick.

(* ------------------------------------------------------------ conservation *)
(* keys an event accounts for: delivered, dropped, discarded by the reset, or
   handed back to the input queue *)
Definition ev_keys (ev : event) : list Z :=
  match ev with
  | EInvoke _ ks => ks | EDrop k => [k] | ERaised lb _ => lb | EBack ks => ks
  | EPop _ => [] | EFed _ _ => [] | ETake => [] | ECpr _ => []
  end.
Definition evs_keys (evs : list event) : list Z := flat_map ev_keys evs.
Definition item_keys (it : item) : list Z := match it with IKey k => [k] | IFlush => [] end.
Definition items_keys (its : list item) : list Z := flat_map item_keys its.

Lemma evs_keys_app a b : evs_keys (a ++ b) = evs_keys a ++ evs_keys b.
Proof. unfold evs_keys. apply flat_map_app. Qed.

Lemma items_keys_app a b : items_keys (a ++ b) = items_keys a ++ items_keys b.
Proof. unfold items_keys. apply flat_map_app. Qed.

Lemma items_keys_map_IKey ks : items_keys (map IKey ks) = ks.
Proof. unfold items_keys. induction ks as [|k ks IH]; [reflexivity|]. cbn. f_equal. exact IH. Qed.

Definition quiet (evs : list event) : Prop := evs_keys evs = [].

Lemma run_actions_quiet acts : forall e q d, quiet (hevs (run_actions acts e q d)).
Proof.
  induction acts as [|a acts IH]; intros e q d; [reflexivity|].
  destruct a; cbn [run_actions]; try apply IH; try reflexivity.
  - destruct d; [reflexivity|apply IH].
  - destruct (has_next q d); [reflexivity|apply IH].
Qed.

Lemma scan_range bs e b n i m : scan bs e b n = Some (i, m) -> (1 <= i <= n)%nat.
Proof.
  induction n as [|n IH]; cbn [scan]; [discriminate|].
  destruct (last_opt _); [intros [= <- <-]; lia|]. intros H. specialize (IH H). lia.
Qed.

Definition conserved (b : list Z) (r : lres) : Prop :=
  match r with
  | LDone b' _ _ _ evs => b = evs_keys evs ++ b'
  | LRaised _ _ evs => b = evs_keys evs
  | LFuel => True
  end.

Lemma conserved_lapp pre b r : conserved b r -> conserved (evs_keys pre ++ b) (lapp pre r).
Proof.
  destruct r as [b' e q d evs|e d evs|]; cbn; intros H; try exact I; rewrite H, evs_keys_app.
  - rewrite app_assoc. reflexivity.
  - reflexivity.
Qed.

Lemma conserved_hand_back rest e q : conserved rest (hand_back rest e q).
Proof. cbn. rewrite !app_nil_r. reflexivity. Qed.

Lemma invoke_keys i ks evs : quiet evs -> evs_keys (EInvoke i ks :: evs) = ks.
Proof. intros H. cbn. unfold quiet, evs_keys in H. rewrite H, app_nil_r. reflexivity. Qed.

Lemma loop_conserved fuel bs : forall b flush e q d, conserved b (loop fuel bs b flush e q d).
Proof.
  induction fuel as [|fuel IH]; intros b flush e q d; cbn [loop]; [exact I|].
  destruct b as [|k b0]; [reflexivity|].
  set (b := k :: b0).
  destruct (match filter (eager e) (get_matches bs e b) with [] => _ | _ :: _ => false end); [reflexivity|].
  destruct (last_opt _) as [m|].
  - pose proof (run_actions_quiet (bacts (snd m)) e q d) as Q. destruct (hraised _).
    + cbn [conserved]. change (EInvoke (fst m) b :: ?x ++ ?y) with ((EInvoke (fst m) b :: x) ++ y).
      rewrite evs_keys_app, (invoke_keys _ _ _ Q). cbn. rewrite app_nil_r. reflexivity.
    + cbn [conserved]. rewrite (invoke_keys _ _ _ Q), app_nil_r. reflexivity.
  - destruct (scan bs e b (length b)) as [[i m]|] eqn:ES.
    + pose proof (run_actions_quiet (bacts (snd m)) e q d) as Q. destruct (hraised _).
      * cbn [conserved]. change (EInvoke (fst m) ?z :: ?x ++ ?y) with ((EInvoke (fst m) z :: x) ++ y).
        rewrite evs_keys_app, (invoke_keys _ _ _ Q). cbn. rewrite app_nil_r. symmetry. apply firstn_skipn.
      * pose proof (conserved_lapp (EInvoke (fst m) (firstn i b) :: hevs (run_actions (bacts (snd m)) e q d)) (skipn i b)) as X.
        rewrite (invoke_keys _ _ _ Q), firstn_skipn in X. apply X.
        destruct (hdone _); [apply conserved_hand_back|apply IH].
    + change b with (evs_keys [EDrop k] ++ b0). apply conserved_lapp.
      destruct d; [apply conserved_hand_back|apply IH].
Qed.

Lemma loop_fuel fuel bs : forall b flush e q d, (length b < fuel)%nat -> loop fuel bs b flush e q d <> LFuel.
Proof.
  induction fuel as [|fuel IH]; intros b flush e q d HL; [lia|]. cbn [loop].
  destruct b as [|k b0]; [discriminate|].
  set (b := k :: b0) in *.
  destruct (match filter (eager e) (get_matches bs e b) with [] => _ | _ :: _ => false end); [discriminate|].
  destruct (last_opt _) as [m|].
  - destruct (hraised _); discriminate.
  - destruct (scan bs e b (length b)) as [[i m]|] eqn:ES.
    + destruct (hraised _); [discriminate|]. apply scan_range in ES.
      destruct (hdone _); [discriminate|].
      assert (HH : (length (skipn i b) < fuel)%nat) by (rewrite skipn_length; lia).
      specialize (IH (skipn i b) false (he (run_actions (bacts (snd m)) e q d)) (hq (run_actions (bacts (snd m)) e q d)) false HH).
      destruct (loop fuel bs (skipn i b) false _ _ false); cbn; congruence.
    + destruct d; [discriminate|].
      assert (HH : (length b0 < fuel)%nat) by (cbn in HL; lia).
      specialize (IH b0 false e q false HH). cbn [tl b]. destruct (loop fuel bs b0 false e q false); cbn; congruence.
Qed.

Lemma send_fuel bs b e q d it : send bs b e q d it <> LFuel.
Proof. unfold send. apply loop_fuel. lia. Qed.

Lemma send_conserved bs b e q d it : conserved (b ++ item_keys it) (send bs b e q d it).
Proof.
  unfold send. replace (b ++ item_keys it) with (push b it); [apply loop_conserved|].
  destruct it; cbn; [reflexivity|rewrite app_nil_r; reflexivity].
Qed.

Lemma evs_keys_cons x l : evs_keys (x :: l) = ev_keys x ++ evs_keys l.
Proof. reflexivity. Qed.

(* ---- process_keys: what comes next *)
Lemma next_item_cases s it q pev : next_item s = Some (it, q, pev) ->
  (sdone s = false /\ queue s = it :: q /\ pev = EPop it) \/
  (sdone s = true /\ it = IKey CPR /\ pev = ETake /\ remove_first_cpr (queue s) = Some q).
Proof.
  unfold next_item. destruct (sdone s).
  - destruct (remove_first_cpr (queue s)) eqn:E; [|discriminate]. intros [= <- <- <-]. right. auto.
  - destruct (queue s); [discriminate|]. intros [= <- <- <-]. left. auto.
Qed.

(* typed keys: cursor position reports are answers of the terminal, not keys *)
Definition typed (l : list Z) : list Z := filter (fun k => negb (k =? CPR)) l.

Lemma typed_app a b : typed (a ++ b) = typed a ++ typed b.
Proof. unfold typed. apply filter_app. Qed.

Lemma typed_cpr_item it : is_cpr it = true -> typed (item_keys it) = [].
Proof. destruct it as [k|]; cbn; [|reflexivity]. intros ->. reflexivity. Qed.

Lemma remove_first_cpr_typed q : forall q', remove_first_cpr q = Some q' ->
  typed (items_keys q') = typed (items_keys q) /\ length q = S (length q').
Proof.
  induction q as [|it q IH]; intros q'; cbn [remove_first_cpr]; [discriminate|].
  destruct (is_cpr it) eqn:EC.
  - intros [= <-]. change (items_keys (it :: q)) with (item_keys it ++ items_keys q).
    rewrite typed_app, (typed_cpr_item _ EC). split; reflexivity.
  - destruct (remove_first_cpr q) as [r|]; [|discriminate]. intros [= <-]. destruct (IH r eq_refl) as [H1 H2].
    change (items_keys (it :: ?x)) with (item_keys it ++ items_keys x). rewrite !typed_app, H1. cbn. split; [reflexivity|lia].
Qed.

Lemma cpr_step_conserved bs s q : let '(s1, evs, raised) := cpr_step bs s q in buf s = evs_keys evs ++ buf s1.
Proof.
  unfold cpr_step. destruct (cpr_binding bs (cenv s)) as [m|]; [|reflexivity].
  pose proof (run_actions_quiet (bacts (snd m)) (cenv s) q (sdone s)) as Q. destruct (hraised _); cbn [buf].
  - change (ECpr (fst m) :: ?x ++ ?y) with ((ECpr (fst m) :: x) ++ y). rewrite evs_keys_app.
    change (evs_keys (ECpr (fst m) :: ?x)) with (evs_keys x). unfold quiet in Q. rewrite Q. cbn. rewrite !app_nil_r. reflexivity.
  - change (evs_keys (ECpr (fst m) :: ?x)) with (evs_keys x). unfold quiet in Q. rewrite Q. reflexivity.
Qed.

(* every typed key taken from the queue is in exactly one invocation, dropped,
   discarded by the reset after an exception, handed back to the queue, or
   still in key_buffer - in order; cursor position reports are not part of it *)
Lemma process_keys_conserved fuel bs : forall s,
  let '(s', evs, pop, stt) := process_keys fuel bs s in
  typed (buf s ++ items_keys pop) = typed (evs_keys evs ++ buf s').
Proof.
  induction fuel as [|fuel IH]; intros s; cbn [process_keys].
  - destruct (next_item s) as [[[it q] pev]|]; cbn; rewrite app_nil_r; reflexivity.
  - destruct (next_item s) as [[[it q] pev]|] eqn:EN; [|cbn; rewrite app_nil_r; reflexivity].
    assert (PEV : ev_keys pev = []) by (destruct (next_item_cases _ _ _ _ EN) as [[_ [_ ->]]|[_ [_ [-> _]]]]; reflexivity).
    destruct (is_cpr it) eqn:EC.
    + pose proof (cpr_step_conserved bs s q) as HC. destruct (cpr_step bs s q) as [[s1 evs] raised]. destruct raised.
      * change (items_keys [it]) with (item_keys it ++ []). rewrite evs_keys_cons, PEV. cbn [app].
        rewrite !typed_app, (typed_cpr_item _ EC), HC, typed_app. cbn. rewrite !app_nil_r. reflexivity.
      * specialize (IH s1). destruct (process_keys fuel bs s1) as [[[s' evs'] pop] stt].
        change (items_keys (it :: pop)) with (item_keys it ++ items_keys pop).
        rewrite evs_keys_cons, PEV, evs_keys_app. cbn [app]. rewrite !typed_app in *. rewrite (typed_cpr_item _ EC). cbn [app].
        rewrite HC, typed_app, <- !app_assoc. f_equal. exact IH.
    + destruct (next_item_cases _ _ _ _ EN) as [[SD [EQ ->]]|[_ [-> _]]]; [|discriminate].
      pose proof (send_conserved bs (buf s) (cenv s) q (sdone s) it) as HC.
      destruct (send bs (buf s) (cenv s) q (sdone s) it) as [b e q' d evs|e d evs|].
      * specialize (IH (mkst b q' e d (upd_prev (sprev s) evs))).
        destruct (process_keys fuel bs _) as [[[s' evs'] pop] stt].
        cbn in HC, IH. change (items_keys (it :: pop)) with (item_keys it ++ items_keys pop).
        rewrite evs_keys_cons. cbn [ev_keys app].
        rewrite evs_keys_app, app_assoc, HC, <- !app_assoc. rewrite !typed_app in *. f_equal. exact IH.
      * cbn in HC. change (items_keys [it]) with (item_keys it ++ []). rewrite evs_keys_cons. cbn [ev_keys app].
        rewrite !app_nil_r, HC. reflexivity.
      * cbn. rewrite app_nil_r. reflexivity.
Qed.

(* ------------------------------------------------------------ the input queue *)
(* What may happen to input_queue, replayed over the trace: a pop takes the
   front item; a handler's feed_multiple puts its items in front or at the
   back, in order; the is_done hand-back puts the pending keys in front, in
   order; the reset after an exception empties it. *)
Inductive replays : list item -> list event -> list item -> Prop :=
| RP_nil q : replays q [] q
| RP_pop it q evs q' : replays q evs q' -> replays (it :: q) (EPop it :: evs) q'
| RP_fed (f : bool) its q evs q' : replays (if f then its ++ q else q ++ its) evs q' -> replays q (EFed f its :: evs) q'
| RP_back ks q evs q' : replays (map IKey ks ++ q) evs q' -> replays q (EBack ks :: evs) q'
| RP_raised lb q evs q' : replays [] evs q' -> replays q (ERaised lb q :: evs) q'
| RP_invoke i ks q evs q' : replays q evs q' -> replays q (EInvoke i ks :: evs) q'
| RP_drop k q evs q' : replays q evs q' -> replays q (EDrop k :: evs) q'
| RP_take q q1 evs q' : remove_first_cpr q = Some q1 -> replays q1 evs q' -> replays q (ETake :: evs) q'
| RP_cpr i q evs q' : replays q evs q' -> replays q (ECpr i :: evs) q'.

Lemma replays_app q1 e1 q2 e2 q3 : replays q1 e1 q2 -> replays q2 e2 q3 -> replays q1 (e1 ++ e2) q3.
Proof. induction 1; intros H2; cbn; [exact H2|..]; econstructor; eauto. Qed.

Lemma run_actions_replays acts : forall e q d,
  replays q (hevs (run_actions acts e q d)) (hq (run_actions acts e q d)).
Proof.
  induction acts as [|a acts IH]; intros e q d; [constructor|].
  destruct a; cbn [run_actions]; try apply IH; try constructor.
  - cbn [hevs hq]. apply IH.
  - destruct d; [constructor|apply IH].
  - destruct (has_next q d); [constructor|apply IH].
Qed.

Definition queue_replayed (q : list item) (r : lres) : Prop :=
  match r with
  | LDone _ _ q' _ evs => replays q evs q'
  | LRaised _ _ evs => replays q evs []
  | LFuel => True
  end.

Lemma queue_replayed_lapp q pre q1 r : replays q pre q1 -> queue_replayed q1 r -> queue_replayed q (lapp pre r).
Proof. destruct r; cbn; intros H1 H2; try exact I; eapply replays_app; eauto. Qed.

Lemma loop_replays fuel bs : forall b flush e q d, queue_replayed q (loop fuel bs b flush e q d).
Proof.
  induction fuel as [|fuel IH]; intros b flush e q d; cbn [loop]; [exact I|].
  destruct b as [|k b0]; [constructor|].
  set (b := k :: b0).
  destruct (match filter (eager e) (get_matches bs e b) with [] => _ | _ :: _ => false end); [constructor|].
  destruct (last_opt _) as [m|].
  - pose proof (run_actions_replays (bacts (snd m)) e q d) as R. destruct (hraised _); cbn [queue_replayed].
    + constructor. eapply replays_app; [exact R|]. repeat constructor.
    + constructor. exact R.
  - destruct (scan bs e b (length b)) as [[i m]|].
    + pose proof (run_actions_replays (bacts (snd m)) e q d) as R. destruct (hraised _).
      * cbn [queue_replayed]. constructor. eapply replays_app; [exact R|]. repeat constructor.
      * eapply queue_replayed_lapp; [constructor; exact R|].
        destruct (hdone _); [cbn; repeat constructor|apply IH].
    + eapply (queue_replayed_lapp q [EDrop k] q); [repeat constructor|].
      destruct d; [cbn; repeat constructor|apply IH].
Qed.

Lemma cpr_step_replays bs s q : let '(s1, evs, raised) := cpr_step bs s q in replays q evs (queue s1).
Proof.
  unfold cpr_step. destruct (cpr_binding bs (cenv s)) as [m|]; [|constructor].
  pose proof (run_actions_replays (bacts (snd m)) (cenv s) q (sdone s)) as R. destruct (hraised _); cbn [queue].
  - constructor. eapply replays_app; [exact R|]. repeat constructor.
  - constructor. exact R.
Qed.

(* the whole run, handlers that feed (first or last) included *)
Lemma process_keys_replays fuel bs : forall s,
  let '(s', evs, pop, stt) := process_keys fuel bs s in replays (queue s) evs (queue s').
Proof.
  induction fuel as [|fuel IH]; intros s; cbn [process_keys].
  - destruct (next_item s) as [[[it q] pev]|]; constructor.
  - destruct (next_item s) as [[[it q] pev]|] eqn:EN; [|constructor].
    assert (PEV : forall evs q', replays q evs q' -> replays (queue s) (pev :: evs) q').
    { intros evs q' H. destruct (next_item_cases _ _ _ _ EN) as [[_ [-> ->]]|[_ [_ [-> ER]]]].
      - constructor. exact H.
      - econstructor; eauto. }
    destruct (is_cpr it).
    + pose proof (cpr_step_replays bs s q) as HK. destruct (cpr_step bs s q) as [[s1 evs] raised]. destruct raised.
      * apply PEV. exact HK.
      * specialize (IH s1). destruct (process_keys fuel bs s1) as [[[s' evs'] pop] stt].
        apply PEV. eapply replays_app; eauto.
    + pose proof (loop_replays (S (length (push (buf s) it))) bs (push (buf s) it) (is_flush it) (cenv s) q (sdone s)) as HK.
      unfold send. destruct (loop _ bs _ _ _ q (sdone s)) as [b e q' d evs|e d evs|].
      * specialize (IH (mkst b q' e d (upd_prev (sprev s) evs))). destruct (process_keys fuel bs _) as [[[s' evs'] pop] stt].
        cbn in HK, IH. apply PEV. eapply replays_app; eauto.
      * cbn in HK. apply PEV. exact HK.
      * constructor.
Qed.

Fixpoint pops (evs : list event) : list item :=
  match evs with [] => [] | EPop it :: r => it :: pops r | ETake :: r => IKey CPR :: pops r | _ :: r => pops r end.

Lemma pops_app a b : pops (a ++ b) = pops a ++ pops b.
Proof. induction a as [|x a IH]; [reflexivity|]. destruct x; cbn; rewrite IH; reflexivity. Qed.

Lemma run_actions_no_pop acts : forall e q d, pops (hevs (run_actions acts e q d)) = [].
Proof.
  induction acts as [|a acts IH]; intros e q d; [reflexivity|].
  destruct a; cbn [run_actions]; try apply IH; try reflexivity.
  - destruct d; [reflexivity|apply IH].
  - destruct (has_next q d); [reflexivity|apply IH].
Qed.

Definition no_pop (r : lres) : Prop :=
  match r with LDone _ _ _ _ evs | LRaised _ _ evs => pops evs = [] | LFuel => True end.

Lemma no_pop_lapp pre r : pops pre = [] -> no_pop r -> no_pop (lapp pre r).
Proof. destruct r; cbn; intros H1 H2; try exact I; rewrite pops_app, H1, H2; reflexivity. Qed.

Lemma loop_no_pop fuel bs : forall b flush e q d, no_pop (loop fuel bs b flush e q d).
Proof.
  induction fuel as [|fuel IH]; intros b flush e q d; cbn [loop]; [exact I|].
  destruct b as [|k b0]; [reflexivity|].
  set (b := k :: b0).
  destruct (match filter (eager e) (get_matches bs e b) with [] => _ | _ :: _ => false end); [reflexivity|].
  destruct (last_opt _) as [m|].
  - pose proof (run_actions_no_pop (bacts (snd m)) e q d) as R. destruct (hraised _); cbn [no_pop pops].
    + rewrite pops_app, R. reflexivity.
    + exact R.
  - destruct (scan bs e b (length b)) as [[i m]|].
    + pose proof (run_actions_no_pop (bacts (snd m)) e q d) as R. destruct (hraised _).
      * cbn [no_pop pops]. rewrite pops_app, R. reflexivity.
      * apply no_pop_lapp; [exact R|]. destruct (hdone _); [reflexivity|apply IH].
    + apply no_pop_lapp; [reflexivity|]. destruct d; [reflexivity|apply IH].
Qed.

Lemma cpr_step_no_pop bs s q : pops (snd (fst (cpr_step bs s q))) = [].
Proof.
  unfold cpr_step. destruct (cpr_binding bs (cenv s)) as [m|]; [|reflexivity].
  pose proof (run_actions_no_pop (bacts (snd m)) (cenv s) q (sdone s)) as R. destruct (hraised _); cbn [fst snd pops].
  - rewrite pops_app, R. reflexivity.
  - exact R.
Qed.

(* the popped list is the pops of the trace *)
Lemma process_keys_pops fuel bs : forall s,
  let '(s', evs, pop, stt) := process_keys fuel bs s in pops evs = pop.
Proof.
  induction fuel as [|fuel IH]; intros s; cbn [process_keys].
  - destruct (next_item s) as [[[it q] pev]|]; reflexivity.
  - destruct (next_item s) as [[[it q] pev]|] eqn:EN; [|reflexivity].
    assert (PEV : forall evs, pops (pev :: evs) = it :: pops evs).
    { intros evs. destruct (next_item_cases _ _ _ _ EN) as [[_ [_ ->]]|[_ [-> [-> _]]]]; reflexivity. }
    destruct (is_cpr it).
    + pose proof (cpr_step_no_pop bs s q) as HK. destruct (cpr_step bs s q) as [[s1 evs] raised]. cbn in HK. destruct raised.
      * rewrite PEV, HK. reflexivity.
      * specialize (IH s1). destruct (process_keys fuel bs s1) as [[[s' evs'] pop] stt]. rewrite PEV, pops_app, HK, IH. reflexivity.
    + pose proof (loop_no_pop (S (length (push (buf s) it))) bs (push (buf s) it) (is_flush it) (cenv s) q (sdone s)) as HK.
      unfold send. destruct (loop _ bs _ _ _ q (sdone s)) as [b e q' d evs|e d evs|].
      * specialize (IH (mkst b q' e d (upd_prev (sprev s) evs))). destruct (process_keys fuel bs _) as [[[s' evs'] pop] stt].
        cbn in HK. rewrite PEV, pops_app, HK, IH. reflexivity.
      * cbn in HK. rewrite PEV, HK. reflexivity.
      * reflexivity.
Qed.

(* ------------------------------------------------------------ undelivered keys stay in input order *)
(* keys that reached a handler or were dropped *)
Definition ev_gone (ev : event) : list Z :=
  match ev with EInvoke _ ks => ks | EDrop k => [k] | _ => [] end.
Definition evs_gone (evs : list event) : list Z := flat_map ev_gone evs.

Lemma evs_gone_app a b : evs_gone (a ++ b) = evs_gone a ++ evs_gone b.
Proof. unfold evs_gone. apply flat_map_app. Qed.

Definition feeds (a : action) : bool := match a with AFeed _ _ => true | _ => false end.
Definition no_feed (bs : list ib) : Prop :=
  forall m, In m bs -> forallb (fun a => negb (feeds a)) (bacts (snd m)) = true.

Lemma run_actions_no_feed acts : forall e q d,
  forallb (fun a => negb (feeds a)) acts = true ->
  hq (run_actions acts e q d) = q /\ hevs (run_actions acts e q d) = [].
Proof.
  induction acts as [|a acts IH]; intros e q d H; [split; reflexivity|].
  cbn in H. apply andb_prop in H. destruct H as [H1 H2].
  destruct a; cbn [run_actions]; try (apply IH; exact H2); try (split; reflexivity); try discriminate.
  - destruct d; [split; reflexivity|apply IH; exact H2].
  - destruct (has_next q d); [split; reflexivity|apply IH; exact H2].
Qed.

Lemma get_matches_in bs e ks m : In m (get_matches bs e ks) -> In m bs.
Proof.
  unfold get_matches, get_for_keys. intros H. apply filter_In in H. destruct H as [H _].
  apply in_map_iff in H. destruct H as [[c m'] [E H]]. cbn in E. subst m'.
  apply sort_desc_in, candidates_in in H. tauto.
Qed.

Lemma scan_in bs e b n i m : scan bs e b n = Some (i, m) -> In m bs.
Proof.
  induction n as [|n IH]; cbn [scan]; [discriminate|].
  destruct (last_opt _) eqn:EL; [|exact IH].
  intros [= <- <-]. apply last_opt_in in EL. exact (get_matches_in _ _ _ _ EL).
Qed.

(* pending keys followed by the queued keys, before = gone ++ the same, after:
   nothing is reordered, also across the is_done hand-back *)
Definition in_order (b : list Z) (q : list item) (r : lres) : Prop :=
  match r with
  | LDone b' _ q' _ evs => b ++ items_keys q = evs_gone evs ++ b' ++ items_keys q'
  | LRaised _ _ evs => exists evs0 lb, evs = evs0 ++ [ERaised lb q] /\ b = evs_gone evs0 ++ lb
  | LFuel => True
  end.

Lemma in_order_lapp pre b q r : in_order b q r -> (forall lb lq, ~ In (ERaised lb lq) pre) ->
  in_order (evs_gone pre ++ b) q (lapp pre r).
Proof.
  destruct r as [b' e q' d evs|e d evs|]; cbn; intros H NR; try exact I.
  - rewrite evs_gone_app, <- !app_assoc. f_equal. exact H.
  - destruct H as [evs0 [lb [-> ->]]]. exists (pre ++ evs0), lb. rewrite evs_gone_app, !app_assoc. split; reflexivity.
Qed.

Lemma loop_in_order fuel bs : no_feed bs -> forall b flush e q d, in_order b q (loop fuel bs b flush e q d).
Proof.
  intros NF. induction fuel as [|fuel IH]; intros b flush e q d; cbn [loop]; [exact I|].
  destruct b as [|k b0]; [reflexivity|].
  set (b := k :: b0).
  destruct (match filter (eager e) (get_matches bs e b) with [] => _ | _ :: _ => false end); [reflexivity|].
  destruct (last_opt _) as [m|] eqn:EL.
  - assert (Hm : In m bs).
    { apply last_opt_in in EL. destruct (filter (eager e) (get_matches bs e b)) eqn:EF.
      - exact (get_matches_in _ _ _ _ EL).
      - rewrite <- EF in EL. apply filter_In in EL. exact (get_matches_in _ _ _ _ (proj1 EL)). }
    destruct (run_actions_no_feed _ e q d (NF m Hm)) as [HQ HE]. rewrite HQ, HE.
    destruct (hraised _); cbn [in_order app].
    + exists [EInvoke (fst m) b], []. split; [reflexivity|]. cbn. rewrite !app_nil_r. reflexivity.
    + cbn. rewrite app_nil_r. reflexivity.
  - destruct (scan bs e b (length b)) as [[i m]|] eqn:ES.
    + destruct (run_actions_no_feed _ e q d (NF m (scan_in _ _ _ _ _ _ ES))) as [HQ HE]. rewrite HQ, HE.
      destruct (hraised _).
      * cbn [in_order app]. exists [EInvoke (fst m) (firstn i b)], (skipn i b). split; [reflexivity|].
        cbn. rewrite app_nil_r. symmetry. apply firstn_skipn.
      * pose proof (in_order_lapp [EInvoke (fst m) (firstn i b)] (skipn i b) q) as X.
        cbn [evs_gone flat_map ev_gone] in X. rewrite app_nil_r, firstn_skipn in X.
        apply X; [|intros lb lq [H|[]]; discriminate].
        destruct (hdone _); [|apply IH]. cbn. rewrite items_keys_app, items_keys_map_IKey. reflexivity.
    + change b with (evs_gone [EDrop k] ++ b0). apply in_order_lapp; [|intros lb lq [H|[]]; discriminate].
      destruct d; [|apply IH]. cbn. rewrite items_keys_app, items_keys_map_IKey. reflexivity.
Qed.

Lemma cpr_binding_in bs e m : cpr_binding bs e = Some m -> In m bs.
Proof.
  unfold cpr_binding. intros H. apply find_some in H. destruct H as [H _]. apply in_rev in H.
  unfold get_for_keys in H. apply in_map_iff in H. destruct H as [[c m'] [E H]]. cbn in E. subst m'.
  apply sort_desc_in, candidates_in in H. tauto.
Qed.

Lemma process_keys_in_order fuel bs : no_feed bs -> forall s,
  let '(s', evs, pop, stt) := process_keys fuel bs s in
  match stt with
  | SRaised => True
  | _ => typed (buf s ++ items_keys (queue s)) = typed (evs_gone evs ++ buf s' ++ items_keys (queue s'))
  end.
Proof.
  intros NF. induction fuel as [|fuel IH]; intros s; cbn [process_keys].
  - destruct (next_item s) as [[[it q] pev]|]; reflexivity.
  - destruct (next_item s) as [[[it q] pev]|] eqn:EN; [|reflexivity].
    assert (PEV : forall evs, evs_gone (pev :: evs) = evs_gone evs).
    { intros evs. destruct (next_item_cases _ _ _ _ EN) as [[_ [_ ->]]|[_ [_ [-> _]]]]; reflexivity. }
    destruct (is_cpr it) eqn:EC.
    + assert (TQ : typed (items_keys (queue s)) = typed (items_keys q)).
      { destruct (next_item_cases _ _ _ _ EN) as [[_ [-> _]]|[_ [_ [_ ER]]]].
        - change (items_keys (it :: q)) with (item_keys it ++ items_keys q). rewrite typed_app, (typed_cpr_item _ EC). reflexivity.
        - symmetry. exact (proj1 (remove_first_cpr_typed _ _ ER)). }
      unfold cpr_step. destruct (cpr_binding bs (cenv s)) as [m|] eqn:EB.
      * destruct (run_actions_no_feed _ (cenv s) q (sdone s) (NF m (cpr_binding_in _ _ _ EB))) as [HQ HE].
        rewrite HQ, HE. destruct (hraised _); [exact I|].
        specialize (IH (mkst (buf s) q (he (run_actions (bacts (snd m)) (cenv s) q (sdone s)))
                             (hdone (run_actions (bacts (snd m)) (cenv s) q (sdone s))) (sprev s))).
        destruct (process_keys fuel bs _) as [[[s' evs'] pop] stt]. cbn [buf queue] in IH.
        destruct stt; try exact I; (rewrite PEV; cbn [app evs_gone flat_map ev_gone]; fold (evs_gone evs');
          rewrite <- IH, !typed_app, TQ; reflexivity).
      * specialize (IH (mkst (buf s) q (cenv s) (sdone s) (sprev s))).
        destruct (process_keys fuel bs _) as [[[s' evs'] pop] stt]. cbn [buf queue] in IH.
        destruct stt; try exact I; (rewrite PEV; cbn [app]; rewrite <- IH, !typed_app, TQ; reflexivity).
    + destruct (next_item_cases _ _ _ _ EN) as [[SD [EQ ->]]|[_ [-> _]]]; [|discriminate].
      pose proof (loop_in_order (S (length (push (buf s) it))) bs NF (push (buf s) it) (is_flush it) (cenv s) q (sdone s)) as HK.
      unfold send. destruct (loop _ bs _ _ _ q (sdone s)) as [b e q' d evs|e d evs|].
      * specialize (IH (mkst b q' e d (upd_prev (sprev s) evs))). destruct (process_keys fuel bs _) as [[[s' evs'] pop] stt].
        cbn [in_order buf queue] in HK, IH.
        assert (E1 : buf s ++ items_keys (queue s) = evs_gone evs ++ (b ++ items_keys q')).
        { rewrite <- HK, EQ. destruct it; cbn; rewrite <- ?app_assoc; reflexivity. }
        destruct stt; try exact I;
          (rewrite E1, PEV, evs_gone_app, <- app_assoc, typed_app, IH, <- typed_app; reflexivity).
      * exact I.
      * reflexivity.
Qed.

(* ------------------------------------------------------------ exceptions *)
Definition ends_raised (r : lres) : Prop :=
  match r with
  | LRaised _ _ evs => exists evs0 lb lq, evs = evs0 ++ [ERaised lb lq] /\ exists i ks, In (EInvoke i ks) evs0
  | _ => True
  end.

Lemma ends_raised_lapp pre r : ends_raised r -> ends_raised (lapp pre r).
Proof.
  destruct r as [| e d evs |]; cbn; try tauto.
  intros [evs0 [lb [lq [-> [i [ks H]]]]]]. exists (pre ++ evs0), lb, lq. rewrite app_assoc. split; [reflexivity|].
  exists i, ks. apply in_or_app. right. exact H.
Qed.

Lemma loop_ends_raised fuel bs : forall b flush e q d, ends_raised (loop fuel bs b flush e q d).
Proof.
  induction fuel as [|fuel IH]; intros b flush e q d; cbn [loop]; [exact I|].
  destruct b as [|k b0]; [exact I|].
  set (b := k :: b0).
  destruct (match filter (eager e) (get_matches bs e b) with [] => _ | _ :: _ => false end); [exact I|].
  destruct (last_opt _) as [m|].
  - destruct (hraised _); [|exact I]. cbn. eexists (EInvoke (fst m) b :: _), [], _. split; [reflexivity|].
    exists (fst m), b. left; reflexivity.
  - destruct (scan bs e b (length b)) as [[i m]|].
    + destruct (hraised _).
      * cbn. eexists (EInvoke (fst m) (firstn i b) :: _), _, _. split; [reflexivity|].
        exists (fst m), (firstn i b). left; reflexivity.
      * apply ends_raised_lapp. destruct (hdone _); [exact I|apply IH].
    + apply ends_raised_lapp. destruct d; [exact I|apply IH].
Qed.

(* an exception leaves the processor reset *)
Lemma process_keys_raised fuel bs : forall s s' evs pop,
  process_keys fuel bs s = (s', evs, pop, SRaised) ->
  s' = mkst [] [] (cenv s') (sdone s') None /\
  exists evs0 lb lq, evs = evs0 ++ [ERaised lb lq] /\ exists i, (exists ks, In (EInvoke i ks) evs0) \/ In (ECpr i) evs0.
Proof.
  induction fuel as [|fuel IH]; intros s s' evs pop; cbn [process_keys].
  - destruct (next_item s) as [[[it q] pev]|]; discriminate.
  - destruct (next_item s) as [[[it q] pev]|] eqn:EN; [|discriminate].
    destruct (is_cpr it).
    + unfold cpr_step. destruct (cpr_binding bs (cenv s)) as [m|].
      * destruct (hraised _) eqn:RA.
        -- intros [= <- <- <-]. split; [reflexivity|]. eexists (pev :: ECpr (fst m) :: _), _, _. split; [reflexivity|].
           exists (fst m). right. right. left. reflexivity.
        -- destruct (process_keys fuel bs _) as [[[s1 evs'] pop1] stt] eqn:EP. intros [= <- <- <- ->].
           destruct (IH _ _ _ _ EP) as [H1 [evs0 [lb [lq [-> [i HI]]]]]]. split; [exact H1|].
           eexists (pev :: (ECpr (fst m) :: _) ++ evs0), lb, lq. split; [cbn; rewrite app_assoc; reflexivity|].
           exists i. destruct HI as [[ks HI]|HI]; [left; exists ks|right]; right; apply in_or_app; right; exact HI.
      * destruct (process_keys fuel bs _) as [[[s1 evs'] pop1] stt] eqn:EP. intros [= <- <- <- ->].
        destruct (IH _ _ _ _ EP) as [H1 [evs0 [lb [lq [-> [i HI]]]]]]. split; [exact H1|].
        exists (pev :: evs0), lb, lq. split; [reflexivity|].
        exists i. destruct HI as [[ks HI]|HI]; [left; exists ks|right]; right; exact HI.
    + pose proof (loop_ends_raised (S (length (push (buf s) it))) bs (push (buf s) it) (is_flush it) (cenv s) q (sdone s)) as HK.
      unfold send. destruct (loop _ bs _ _ _ q (sdone s)) as [b e q' d evs1|e d evs1|].
      * destruct (process_keys fuel bs _) as [[[s1 evs'] pop1] stt] eqn:EP.
        intros [= <- <- <- ->]. destruct (IH _ _ _ _ EP) as [H1 [evs0 [lb [lq [-> [i HI]]]]]].
        split; [exact H1|]. exists (pev :: evs1 ++ evs0), lb, lq. split; [cbn; rewrite app_assoc; reflexivity|].
        exists i. destruct HI as [[ks HI]|HI]; [left; exists ks|right]; right; apply in_or_app; right; exact HI.
      * intros [= <- <- <-]. split; [reflexivity|]. cbn in HK. destruct HK as [evs0 [lb [lq [-> [i [ks HI]]]]]].
        exists (pev :: evs0), lb, lq. split; [reflexivity|]. exists i. left. exists ks. right. exact HI.
      * discriminate.
Qed.

(* the application being finished stops the run: only cursor position reports are still taken *)
Lemma process_keys_done fuel bs s :
  sdone s = true -> remove_first_cpr (queue s) = None -> process_keys fuel bs s = (s, [], [], SDone).
Proof. intros H1 H2. destruct fuel; cbn [process_keys]; unfold next_item; rewrite H1, H2; reflexivity. Qed.

(* the result does not depend on the fuel once the run finishes *)
Lemma process_keys_fuel_mono fuel bs : forall s r fuel',
  process_keys fuel bs s = r -> snd r <> SFuel -> (fuel <= fuel')%nat -> process_keys fuel' bs s = r.
Proof.
  induction fuel as [|fuel IH]; intros s r fuel' H NF LE.
  - cbn [process_keys] in H. destruct fuel'; cbn [process_keys]; destruct (next_item s) as [[[it q] pev]|]; try exact H;
      subst r; cbn in NF; congruence.
  - destruct fuel' as [|fuel']; [lia|]. cbn [process_keys] in *.
    destruct (next_item s) as [[[it q] pev]|]; [|exact H]. destruct (is_cpr it).
    + destruct (cpr_step bs s q) as [[s1 evs] raised]. destruct raised; [exact H|].
      destruct (process_keys fuel bs s1) as [[[s2 evs'] pop1] stt] eqn:EP.
      assert (NF' : stt <> SFuel) by (subst r; exact NF).
      rewrite (IH _ _ fuel' EP NF' ltac:(lia)). exact H.
    + destruct (send bs (buf s) (cenv s) q (sdone s) it) as [b e q' d evs|e d evs|]; [|exact H|exact H].
      destruct (process_keys fuel bs _) as [[[s1 evs'] pop1] stt] eqn:EP.
      assert (NF' : stt <> SFuel) by (subst r; exact NF).
      rewrite (IH _ _ fuel' EP NF' ltac:(lia)). exact H.
Qed.

(* with handlers that only flip conditions or raise, one unit of fuel per queued item suffices *)
Definition plain_act (a : action) : bool := match a with AFlip _ | ARaise => true | _ => false end.
Definition plain (bs : list ib) : Prop := forall m, In m bs -> forallb plain_act (bacts (snd m)) = true.

Lemma run_actions_plain acts : forall e q d, forallb plain_act acts = true ->
  hq (run_actions acts e q d) = q /\ hdone (run_actions acts e q d) = d.
Proof.
  induction acts as [|a acts IH]; intros e q d H; [split; reflexivity|].
  cbn in H. apply andb_prop in H. destruct H as [H1 H2].
  destruct a; cbn [run_actions]; try discriminate; [apply IH; exact H2|split; reflexivity].
Qed.

Lemma loop_plain fuel bs : plain bs -> forall b flush e q,
  match loop fuel bs b flush e q false with
  | LDone _ _ q' d' _ => q' = q /\ d' = false
  | _ => True
  end.
Proof.
  intros NF. induction fuel as [|fuel IH]; intros b flush e q; cbn [loop]; [exact I|].
  destruct b as [|k b0]; [split; reflexivity|].
  set (b := k :: b0).
  destruct (match filter (eager e) (get_matches bs e b) with [] => _ | _ :: _ => false end); [split; reflexivity|].
  destruct (last_opt _) as [m|] eqn:EL.
  - assert (Hm : In m bs).
    { apply last_opt_in in EL. destruct (filter (eager e) (get_matches bs e b)) eqn:EF.
      - exact (get_matches_in _ _ _ _ EL).
      - rewrite <- EF in EL. apply filter_In in EL. exact (get_matches_in _ _ _ _ (proj1 EL)). }
    destruct (run_actions_plain _ e q false (NF m Hm)) as [HQ HD].
    destruct (hraised _); [exact I|]. split; assumption.
  - destruct (scan bs e b (length b)) as [[i m]|] eqn:ES.
    + destruct (run_actions_plain _ e q false (NF m (scan_in _ _ _ _ _ _ ES))) as [HQ HD]. rewrite HQ, HD.
      destruct (hraised _); [exact I|].
      specialize (IH (skipn i b) false (he (run_actions (bacts (snd m)) e q false)) q).
      destruct (loop fuel bs (skipn i b) false _ q false); cbn; auto.
    + specialize (IH (tl b) false e q). destruct (loop fuel bs (tl b) false e q false); cbn; auto.
Qed.

Lemma process_keys_fuel_plain fuel bs : plain bs -> forall s,
  sdone s = false -> (length (queue s) <= fuel)%nat -> snd (process_keys fuel bs s) <> SFuel.
Proof.
  intros NF. induction fuel as [|fuel IH]; intros s SD HL; cbn [process_keys]; unfold next_item; rewrite SD.
  - destruct (queue s); [discriminate|cbn in HL; lia].
  - destruct (queue s) as [|it q] eqn:EQ; [discriminate|]. destruct (is_cpr it).
    + unfold cpr_step. destruct (cpr_binding bs (cenv s)) as [m|] eqn:EB.
      * destruct (run_actions_plain _ (cenv s) q (sdone s) (NF m (cpr_binding_in _ _ _ EB))) as [HQ HD].
        rewrite HQ, HD, SD. destruct (hraised _); [discriminate|].
        specialize (IH (mkst (buf s) q (he (run_actions (bacts (snd m)) (cenv s) q false)) false (sprev s)) eq_refl).
        cbn [queue] in IH. destruct (process_keys fuel bs _) as [[[s1 evs'] pop1] stt]. cbn in *. apply IH. lia.
      * rewrite SD. specialize (IH (mkst (buf s) q (cenv s) false (sprev s)) eq_refl).
        cbn [queue] in IH. destruct (process_keys fuel bs _) as [[[s1 evs'] pop1] stt]. cbn in *. apply IH. lia.
    + pose proof (loop_plain (S (length (push (buf s) it))) bs NF (push (buf s) it) (is_flush it) (cenv s) q) as HK.
      pose proof (send_fuel bs (buf s) (cenv s) q false it) as HF.
      unfold send in *. destruct (loop _ bs _ _ _ q false) as [b e q' d evs|e d evs|]; [|discriminate|congruence].
      destruct HK as [-> ->].
      specialize (IH (mkst b q e false (upd_prev (sprev s) evs)) eq_refl). cbn [queue] in IH.
      destruct (process_keys fuel bs _) as [[[s1 evs'] pop1] stt]. cbn in *. apply IH. lia.
Qed.

(* ------------------------------------------------------------ cursor position reports *)
Lemma find_rev_last {T} (P : T -> bool) (l : list T) : find P (rev l) = last_opt (filter P l).
Proof.
  induction l as [|a l IH] using rev_ind; [reflexivity|].
  rewrite rev_app_distr. cbn [rev app find]. rewrite filter_app. cbn [filter].
  destruct (P a); [rewrite last_opt_app; reflexivity|]. rewrite app_nil_r. exact IH.
Qed.

Definition cpr_only (m : ib) : bool := cpr_keys (bkeys (snd m)).

(* which binding receives a report: never a wildcard binding; among the active
   bindings whose keys are exactly (CPRResponse,), the last registered *)
Lemma cpr_binding_best l e i b :
  cpr_binding (index_from 0 l) e = Some (i, b) -> Best l e [CPR] cpr_only i b.
Proof.
  unfold cpr_binding. rewrite find_rev_last. intros H. apply pick_best.
  unfold get_matches. rewrite filter_filter_aux. exact H.
Qed.

(* Delivering a report (the handler not raising) leaves the key buffer and the
   previous-key bookkeeping alone, consumes no typed key, and changes the
   input queue only by what the handler itself feeds. *)
Lemma cpr_step_frame bs s q s1 evs :
  cpr_step bs s q = (s1, evs, false) ->
  buf s1 = buf s /\ sprev s1 = sprev s /\ evs_keys evs = [] /\ replays q evs (queue s1).
Proof.
  intros H. pose proof (cpr_step_conserved bs s q) as HC. pose proof (cpr_step_replays bs s q) as HR.
  rewrite H in HC, HR. unfold cpr_step in H.
  destruct (cpr_binding bs (cenv s)) as [m|].
  - pose proof (run_actions_quiet (bacts (snd m)) (cenv s) q (sdone s)) as Q.
    destruct (hraised _); [discriminate|]. injection H as <- <-. cbn [buf sprev].
    split; [reflexivity|]. split; [reflexivity|]. split; [exact Q|exact HR].
  - injection H as <- <-. cbn. split; [reflexivity|]. split; [reflexivity|]. split; [reflexivity|constructor].
Qed.

(* ---- a handler that calls process_keys() itself (round 6) *)
Lemma reentry_noop acts e q d : has_next q d = false ->
  run_actions (AProcess :: acts) e q d = run_actions acts e q d.
Proof. intros H. cbn [run_actions]. rewrite H. reflexivity. Qed.

(* with an item to take, the inner call raises out of the handler whatever the handler would have done next;
   conditions and is_done are as they were, no key event is produced, the whole queue is what the reset discards *)
Lemma reentry_raises acts e q d : has_next q d = true ->
  run_actions (AProcess :: acts) e q d = mkhres e q d [] true.
Proof. intros H. cbn [run_actions]. rewrite H. reflexivity. Qed.
