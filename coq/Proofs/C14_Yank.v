(* The yank-nth-arg / yank-last-arg layer (Model/C14_Layer.v): the commands read
   the history and never alter it; the base projection of the layer is the base
   model (simulation), so every theorem about [hs] transfers. *)
From Coq Require Import ZArith List Bool Lia.
From PTK Require Import Lib.Sx Lib.Py Model.Document Model.BufferEdit Model.C14_HistoryNav Model.C14_Layer
  Proofs.C14_Facts Proofs.C14_Nav Proofs.C14_Accept Proofs.C14_Mixed Proofs.C14_Threaded Proofs.C14_AnyKind
  Proofs.C14_Whole.
Import ListNotations.
Open Scope Z_scope.

(* get_strings() may load the history: the stored entries and everything of the
   buffer stay *)
Definition occ_sto (s s' : hs) : Prop :=
  sto (store s') = sto (store s) /\ th s' = th s /\ wi s' = wi s /\
  length (wl s') = length (wl s) /\
  (forall j, j <> Z.to_nat (wi s) -> nth_error (wl s') j = nth_error (wl s) j).

Lemma occ_sto_refl s : occ_sto s s.
Proof. unfold occ_sto. repeat split; auto. Qed.

Lemma occ_sto_trans a b c : occ_sto a b -> occ_sto b c -> occ_sto a c.
Proof.
  intros (S1 & T1 & W1 & L1 & O1) (S2 & T2 & W2 & L2 & O2). unfold occ_sto.
  repeat split; try congruence. intros j Hj. rewrite O2 by (rewrite W1; exact Hj). apply O1, Hj.
Qed.

Lemma of_res_th c s r : th (snd (fst (of_res c s r))) = th s.
Proof. destruct r; cbn [of_res ok fst snd]; [apply write_back_th | reflexivity]. Qed.

Lemma of_res_occ c s r : Inv s -> occ_sto s (snd (fst (of_res c s r))).
Proof.
  intros HI. destruct (of_res_spec c s r HI) as (S & _ & _ & W & L & O).
  unfold occ_sto. rewrite S, of_res_th. repeat split; auto.
Qed.

Lemma of_res_inv c s r : Inv s -> Inv (snd (fst (of_res c s r))).
Proof. intros HI. destruct r; cbn [of_res ok fst snd]; [apply write_back_inv, HI | exact HI]. Qed.

Lemma load_occ s : occ_sto s (set_store s (hist_for_get s)).
Proof. unfold occ_sto; proj. rewrite hist_for_get_sto. repeat split; auto. Qed.

Lemma load_inv s : Inv s -> Inv (set_store s (hist_for_get s)).
Proof. unfold Inv; proj. auto. Qed.

(* yank-nth-arg / yank-last-arg with ANY argument (negative, out of range, none)
   and ANY yank state: total, the stored history, the kind of History object,
   the working index and every entry but the displayed one are unchanged *)
Theorem yank_reads_only c x n last :
  Inv (xb x) ->
  let x' := yank_nth_arg c x n last in
  occ_sto (xb x) (xb x') /\ Inv (xb x').
Proof.
  intros HI. unfold yank_nth_arg. cbv zeta.
  set (s0 := set_store (xb x) (hist_for_get (xb x))).
  assert (O0 : occ_sto (xb x) s0) by apply load_occ.
  assert (I0 : Inv s0) by (apply load_inv, HI).
  destruct (len (rev (ls (hist_for_get (xb x)))) =? 0); [cbn [xb]; auto|].
  destruct (match xy x with Some st => st | None => (0, if last then -1 else 1, []) end) as [[pos n0] prev].
  cbn [xb].
  set (s1 := match prev with [] => s0 | _ => _ end).
  assert (O1 : occ_sto s0 s1 /\ Inv s1).
  { unfold s1. destruct prev; [split; [apply occ_sto_refl | exact I0]|].
    split; [apply of_res_occ, I0 | apply of_res_inv, I0]. }
  destruct O1 as (O1 & I1).
  split; [|apply of_res_inv, I1].
  eapply occ_sto_trans; [exact O0|]. eapply occ_sto_trans; [exact O1 | apply of_res_occ, I1].
Qed.

(* ---------------------------------------------------------------------- *)
(* Simulation: on base operations the layer's base state is the base model *)
Theorem layer_simulation c x o : xb (xstep_state c x (XBase o)) = step_state c (xb x) o.
Proof.
  unfold xstep_state, xstep, xstep_core, xpost, step_state, step.
  destruct (step_core c (xb x) o) as [[st s1] r]. reflexivity.
Qed.

Definition base_ops (ops : list op) : list xop := map XBase ops.

Theorem layer_simulation_steps c ops : forall x, xb (xsteps c x (base_ops ops)) = steps c (xb x) ops.
Proof.
  induction ops as [|o r IH]; intros x; cbn [base_ops map xsteps steps fold_left]; [reflexivity|].
  fold (base_ops r). fold (xsteps c (xstep_state c x (XBase o)) (base_ops r)).
  fold (steps c (step_state c (xb x) o) r). rewrite IH, layer_simulation. reflexivity.
Qed.

(* ---------------------------------------------------------------------- *)
(* The whole stored history over sessions that also use the yank commands: they
   contribute nothing to the log *)
Definition xadded (c : cfg) (x : xs) (o : xop) : list str :=
  match o with XBase b => added c (xb x) b | XYank _ _ => [] end.

Fixpoint xlog (c : cfg) (x : xs) (ops : list xop) : list str :=
  match ops with
  | [] => []
  | o :: r => xadded c x o ++ xlog c (xstep_state c x o) r
  end.

Lemma xstep_inv c x o : Inv (xb x) -> Inv (xb (xstep_state c x o)).
Proof.
  intros HI. destruct o as [b|n last].
  - rewrite layer_simulation. apply step_inv, HI.
  - unfold xstep_state, xstep, xstep_core, xpost. cbn [fst snd xb].
    apply flush_inv, consume_inv. apply (yank_reads_only c x n last HI).
Qed.

Lemma xstep_sto c x o :
  Inv (xb x) -> sto (store (xb (xstep_state c x o))) = sto (store (xb x)) ++ xadded c x o.
Proof.
  intros HI. destruct o as [b|n last]; cbn [xadded].
  - rewrite layer_simulation. apply step_sto.
  - unfold xstep_state, xstep, xstep_core, xpost. cbn [fst snd xb].
    destruct (post_spec c (xb (yank_nth_arg c x n last))) as (E & _). unfold post in E. rewrite E.
    destruct (yank_reads_only c x n last HI) as ((S & _) & _). rewrite S, app_nil_r. reflexivity.
Qed.

Theorem xsteps_sto c ops : forall x,
  Inv (xb x) -> sto (store (xb (xsteps c x ops))) = sto (store (xb x)) ++ xlog c x ops.
Proof.
  induction ops as [|o r IH]; intros x HI; cbn [xsteps fold_left xlog]; [rewrite app_nil_r; reflexivity|].
  fold (xsteps c (xstep_state c x o) r).
  rewrite IH by (apply xstep_inv, HI). rewrite xstep_sto by exact HI. rewrite app_assoc. reflexivity.
Qed.

(* the word picker is total and only ever returns a word of the line or "" *)
Lemma take_space_app r : fst (take_space r) ++ snd (take_space r) = r.
Proof.
  induction r as [|c r IH]; cbn [take_space]; [reflexivity|].
  destruct (re_space c); [|reflexivity]. destruct (take_space r) as [a b]. cbn [fst snd app] in *. rewrite IH. reflexivity.
Qed.
