(* C08 (round 6) - intended spans for the remaining text objects and motions:
   every exclusive motion (the column-0 rule in both directions, which covers
   db from the first column, { } | ^ ...), every two-ended exclusive object,
   aw / aW, the bracket objects i( a( ... (any pair l <> r), ge / gE, { } and
   ap - each as [spans], i.e. for every character-wise operator at once
   (Proofs/C08_Commands.v: spans_all_operators). *)
From Coq Require Import ZArith List Bool Lia.
From PTK Require Import Lib.Sx Lib.Py Model.Document Model.BufferEdit Model.C02_DocQueries
  Model.C08_ViOps Model.C08_TextObjects
  Proofs.C02_Base Proofs.C02_Coords Proofs.C02_Words Proofs.C02_WordsExact Proofs.C02_WordsExactEnd
  Proofs.C02_Boundaries Proofs.C02_Brackets Proofs.C02_Lines Proofs.C02_Paragraphs
  Proofs.BufferEditFacts Proofs.C08_ViFacts Proofs.C08_Spans Proofs.C08_Commands Proofs.C08_LineNumbers.
Import ListNotations.
Open Scope Z_scope.

Definition col (d : doc) (i : Z) : Z := snd (translate_index_to_position d i).

Lemma colof_at_doc st d i : at_doc st d -> colof st i = col d i.
Proof. intros Ha. unfold colof, col. rewrite (at_doc_bdoc st d Ha). reflexivity. Qed.

(* ---------------------------------------------------------------------- *)
(* Any exclusive motion TextObject(v): the span lies between the cursor and
   the target; when the larger end is the first column of a line the line
   ending before it stays (the "column-0 rule" of operator_range) *)
Lemma cmd_excl_motion st d v :
  at_doc st d -> valid d -> 0 <= dcur d + v <= len (dtext d) -> v <> 0 ->
  let a := Z.min (dcur d) (dcur d + v) in
  let e := Z.max (dcur d) (dcur d + v) in
  (col d e <> 0 -> spans st (mk1 v) a e) /\
  (col d e = 0 -> a < e - 1 -> spans st (mk1 v) a (e - 1)).
Proof.
  intros Ha [Hv0 Hv1] Hb Hne a e. subst a e.
  destruct (Z_lt_le_dec 0 v) as [Hpos|Hneg].
  - rewrite Z.min_l, Z.max_r by lia. split; intros Hc.
    + pose proof (sp_forward st v) as G. cbv zeta in G.
      rewrite ?(at_doc_cur st d Ha), ?(at_doc_text st d Ha) in G. apply G; try lia.
      rewrite (colof_at_doc st d _ Ha). exact Hc.
    + intros Hlt. pose proof (sp_forward_col0 st v) as G. cbv zeta in G.
      rewrite ?(at_doc_cur st d Ha), ?(at_doc_text st d Ha) in G. apply G; try lia.
      rewrite (colof_at_doc st d _ Ha). exact Hc.
  - rewrite Z.min_r, Z.max_l by lia. split; intros Hc.
    + pose proof (sp_backward st v) as G. cbv zeta in G.
      rewrite ?(at_doc_cur st d Ha), ?(at_doc_text st d Ha) in G. apply G; try lia.
      rewrite (colof_at_doc st d _ Ha). exact Hc.
    + intros Hlt. pose proof (sp_backward_col0 st v) as G. cbv zeta in G.
      rewrite ?(at_doc_cur st d Ha), ?(at_doc_text st d Ha) in G. apply G; try lia.
      rewrite (colof_at_doc st d _ Ha). exact Hc.
Qed.

(* Any two-ended exclusive object TextObject(s, e), s < e *)
Lemma cmd_excl_object st d s e :
  at_doc st d -> s < e -> 0 <= dcur d + s -> dcur d + e <= len (dtext d) ->
  (col d (dcur d + e) <> 0 -> spans st (mkto s e EXCL) (dcur d + s) (dcur d + e)) /\
  (col d (dcur d + e) = 0 -> s < e - 1 -> spans st (mkto s e EXCL) (dcur d + s) (dcur d + e - 1)).
Proof.
  intros Ha Hse H0 Hl. split; intros Hc.
  - pose proof (sp_object st s e) as G. cbv zeta in G.
    rewrite ?(at_doc_cur st d Ha), ?(at_doc_text st d Ha) in G. apply G; try lia.
    rewrite (colof_at_doc st d _ Ha). exact Hc.
  - intros Hlt. pose proof (sp_object_col0 st s e) as G. cbv zeta in G.
    rewrite ?(at_doc_cur st d Ha), ?(at_doc_text st d Ha) in G. apply G; try lia.
    rewrite (colof_at_doc st d _ Ha). exact Hc.
Qed.

(* db / dB from the first column of a line: back to the count-th previous word
   start, the line ending before the cursor stays *)
Lemma cmd_b_col0 st d n hc W l j :
  at_doc st d -> valid d -> 1 <= n ->
  enumerates (fun j => j < dcur d /\ word_start (word_cls W) (dtext d) j) l ->
  pick (rev l) n = Some j ->
  col d (dcur d) = 0 -> j < dcur d - 1 ->
  text_object (T_b W) d n hc = TO (mk1 (j - dcur d)) false /\
  spans st (mk1 (j - dcur d)) j (dcur d - 1).
Proof.
  intros Ha Hv Hn Hl Hp Hc Hlt. pose proof (span_b d n hc W l Hv Hn Hl) as Ht. rewrite Hp in Ht.
  split; [exact Ht|].
  assert (Hj : 0 <= j).
  { assert (In j l).
    { apply in_rev. unfold pick in Hp. destruct (n <? 1); [discriminate|]. eapply nth_error_In; exact Hp. }
    apply (proj2 Hl) in H. destruct H as [_ H2]. apply word_start_nonneg in H2. exact H2. }
  pose proof Hv as [Hv0 Hv1].
  destruct (cmd_excl_motion st d (j - dcur d) Ha Hv ltac:(lia) ltac:(lia)) as [_ G].
  rewrite Z.min_r, Z.max_l in G by lia. replace (dcur d + (j - dcur d)) with j in G by lia.
  apply G; [exact Hc|lia].
Qed.

(* ---------------------------------------------------------------------- *)
(* aw / aW on a word: the maximal run of the cursor character's class plus the
   blanks that follow it on the line *)
Lemma cmd_aw st d n hc W s e :
  at_doc st d -> valid d ->
  find_boundaries_of_current_word d W false true = (s, e) -> 0 < e ->
  text_object (T_word W true) d n hc = TO (mkto s e EXCL) false /\
  spans st (mkto s e EXCL) (dcur d + s) (dcur d + e) /\
  exists e0, 0 < e0 <= e /\
    is_run (word_cls W) (dtext d) (dcur d + s) (dcur d + e0) /\
    (forall j, dcur d + e0 <= j < dcur d + e ->
       exists x, nth_error (dtext d) (Z.to_nat j) = Some x /\ re_space x = true /\ x <> NL) /\
    (forall x, index (dtext d) (dcur d + e) = Some x -> re_space x = false \/ x = NL).
Proof.
  intros Ha Hv Hb He.
  split.
  { cbn [text_object]. rewrite Hb. destruct (e =? 0) eqn:E; [lia|]. rewrite andb_false_r. reflexivity. }
  destruct (C02w_boundaries_in_bounds d W false true s e Hv Hb) as [[Hs0 Hs1] [He0 He1]].
  destruct (C02c_line_parts d Hv) as (_ & _ & (p & Hp & _) & (q & Hq & _)).
  assert (Hlo : 0 <= dcur d + s).
  { pose proof (f_equal len Hp) as Hl. rewrite (tb_firstn d Hv), len_app, len_firstn in Hl.
    pose proof (len_nonneg p). destruct Hv. lia. }
  assert (Hhi : dcur d + e <= len (dtext d)).
  { pose proof (f_equal len Hq) as Hl. rewrite (ta_skipn d Hv), len_app, len_skipn in Hl.
    pose proof (len_nonneg q). destruct Hv. lia. }
  split.
  { destruct (cmd_excl_object st d s e Ha ltac:(lia) Hlo Hhi) as [G _]. apply G.
    apply col_after_cursor; [exact Hv|lia]. }
  destruct (C02y_boundaries_trailing_ws d W false s e Hv Hb) as (e0 & Hb0 & Hle & Hbl & Hz & Hstop).
  exists e0.
  destruct (C02w_boundaries_in_bounds d W false false s e0 Hv Hb0) as [_ [He00 _]].
  assert (Hpos : 0 < e0) by (destruct (Z.eq_dec e0 0) as [E|E]; [specialize (Hz E); lia|lia]).
  split; [lia|]. split.
  { apply (C02y_boundaries_is_run d W s e0 Hv Hb0). intros H; injection H; lia. }
  split; [exact Hbl|]. intros x Hx. apply (Hstop x Hx). lia.
Qed.

(* ---------------------------------------------------------------------- *)
(* Bracket objects, any pair of distinct characters (l, r) with r not a line
   ending: s' / e' are the offsets of the enclosing l / r
   (find_enclosing_bracket_left / _right; C02's enclosing_*_spec say they
   are the nearest unbalanced ones).
   a( = from the opening through the closing bracket;
   i( = strictly between them (with the column-0 rule at the far end). *)
Lemma cmd_bracket st d n hc l r (inner : bool) s' e' :
  at_doc st d -> valid d -> (l =? r) = false -> r <> NL ->
  find_enclosing_bracket_left d l r None = Some s' ->
  find_enclosing_bracket_right d l r None = Some e' ->
  let off := if inner then 0 else 1 in
  text_object (T_ci l r inner) d n hc =
    TO (mkto (s' + 1 - off) (e' + off) EXCL) (e' + off =? s' + 1 - off) /\
  s' <= 0 <= e' /\
  nth_error (dtext d) (Z.to_nat (dcur d + s')) = Some l /\
  nth_error (dtext d) (Z.to_nat (dcur d + e')) = Some r /\
  (inner = false ->
     spans st (mkto s' (e' + 1) EXCL) (dcur d + s') (dcur d + e' + 1)) /\
  (inner = true -> s' + 1 < e' -> col d (dcur d + e') <> 0 ->
     spans st (mkto (s' + 1) e' EXCL) (dcur d + s' + 1) (dcur d + e')) /\
  (inner = true -> s' + 1 < e' - 1 -> col d (dcur d + e') = 0 ->
     spans st (mkto (s' + 1) e' EXCL) (dcur d + s' + 1) (dcur d + e' - 1)).
Proof.
  intros Ha Hv Hlr Hnl Hs He off.
  destruct (enclosing_left_spec d l r None s' Hv Hs) as (Hs0 & Hs1 & Hs2 & Hs3 & _).
  destruct (enclosing_right_spec d l r None e' Hv He) as (He0 & He1 & He2 & _).
  split.
  { cbn [text_object]. rewrite Hlr, Hs, He. reflexivity. }
  split; [lia|]. split; [exact Hs3|]. split; [exact He2|].
  split; [|split].
  - intros _.
    destruct (cmd_excl_object st d s' (e' + 1) Ha ltac:(lia) Hs1 ltac:(lia)) as [G _].
    replace (dcur d + (e' + 1)) with (dcur d + e' + 1) in G by lia. apply G.
    intros Hc. apply col0_after_nl in Hc; [|lia].
    replace (dcur d + e' + 1 - 1) with (dcur d + e') in Hc by lia. congruence.
  - intros _ Hlt Hc.
    destruct (cmd_excl_object st d (s' + 1) e' Ha Hlt ltac:(lia) ltac:(lia)) as [G _].
    replace (dcur d + (s' + 1)) with (dcur d + s' + 1) in G by lia. apply G. exact Hc.
  - intros _ Hlt Hc.
    destruct (cmd_excl_object st d (s' + 1) e' Ha ltac:(lia) ltac:(lia) ltac:(lia)) as [_ G].
    replace (dcur d + (s' + 1)) with (dcur d + s' + 1) in G by lia. apply G; [exact Hc|exact Hlt].
Qed.

(* ---------------------------------------------------------------------- *)
(* ge / gE (cursor not at the end of the text): inclusive, from the last
   character of the count-th word that ends at or before the cursor (nearest
   first) through the character under the cursor; fails when there are fewer *)
Lemma cmd_ge st d n hc W l :
  at_doc st d -> valid d -> 1 <= n -> dcur d < len (dtext d) ->
  enumerates (fun j => j <= dcur d /\ word_end (word_cls W) (dtext d) j) l ->
  match pick (rev l) n with
  | Some j =>
      text_object (T_ge W) d n hc = TO (mkto (j - 1 - dcur d) 0 INCL) false /\
      spans st (mkto (j - 1 - dcur d) 0 INCL) (j - 1) (dcur d + 1)
  | None => text_object (T_ge W) d n hc = TO (mkto 0 0 INCL) true
  end.
Proof.
  intros Ha Hv Hn Hlt Hl.
  pose proof (C02x_previous_word_ending_exact d n W Hv Hn) as X. cbv zeta in X.
  destruct (dcur d =? len (dtext d)) eqn:E; [lia|].
  assert (Hl' : enumerates (fun j => j <= dcur d - 0 /\ word_end (word_cls W) (dtext d) j) l).
  { apply (enumerates_ext _ _ l) with (2 := Hl).
    intros j. split; intros [H1 H2]; (split; [lia|exact H2]). }
  specialize (X l Hl'). cbn [text_object]. rewrite X.
  destruct (pick (rev l) n) as [j|] eqn:Ep; cbn [option_map]; [|reflexivity].
  assert (Hj : 1 <= j <= dcur d).
  { assert (In j l).
    { apply in_rev. unfold pick in Ep. destruct (n <? 1); [discriminate|]. eapply nth_error_In; exact Ep. }
    apply (proj2 Hl) in H. destruct H as [H1 H2]. apply word_end_pos in H2. lia. }
  replace (j + 0 - dcur d - 1) with (j - 1 - dcur d) by lia.
  split; [reflexivity|].
  pose proof (sp_inclusive st (j - 1 - dcur d)) as G. cbv zeta in G.
  rewrite ?(at_doc_cur st d Ha), ?(at_doc_text st d Ha) in G.
  rewrite Z.min_l, Z.max_r in G by lia.
  replace (dcur d + (j - 1 - dcur d)) with (j - 1) in G by lia.
  replace (dcur d + 0 + 1) with (dcur d + 1) in G by lia.
  apply G; lia.
Qed.

(* ---------------------------------------------------------------------- *)
(* { and }: exclusive motions to where start_of_paragraph / end_of_paragraph
   lead (C02p_*_lands: the count-th blank line before / after the cursor line,
   else the start / end of the text) *)
Lemma cmd_lbrace st d n hc v :
  at_doc st d -> valid d -> start_of_paragraph d n true = Some v ->
  text_object T_lbrace d n hc = excl0 v /\ v <= 0 /\ 0 <= dcur d + v /\
  (v < 0 -> col d (dcur d) <> 0 -> spans st (mk1 v) (dcur d + v) (dcur d)) /\
  (v < -1 -> col d (dcur d) = 0 -> spans st (mk1 v) (dcur d + v) (dcur d - 1)).
Proof.
  intros Ha Hv Hs. destruct (start_of_paragraph_in_bounds d n true v Hv Hs) as [Hb Hle].
  split; [cbn [text_object]; rewrite Hs; reflexivity|]. split; [exact Hle|]. split; [lia|].
  split.
  - intros Hlt Hc. destruct (cmd_excl_motion st d v Ha Hv Hb ltac:(lia)) as [G _].
    rewrite Z.min_r, Z.max_l in G by lia. apply G. exact Hc.
  - intros Hlt Hc. destruct (cmd_excl_motion st d v Ha Hv Hb ltac:(lia)) as [_ G].
    rewrite Z.min_r, Z.max_l in G by lia. apply G; [exact Hc|lia].
Qed.

Lemma cmd_rbrace st d n hc v :
  at_doc st d -> valid d -> end_of_paragraph d n true = Some v ->
  text_object T_rbrace d n hc = excl0 v /\ 0 <= v /\ dcur d + v <= len (dtext d) /\
  (0 < v -> col d (dcur d + v) <> 0 -> spans st (mk1 v) (dcur d) (dcur d + v)) /\
  (1 < v -> col d (dcur d + v) = 0 -> spans st (mk1 v) (dcur d) (dcur d + v - 1)).
Proof.
  intros Ha Hv Hs. destruct (end_of_paragraph_in_bounds d n true v Hv Hs) as [Hb Hle].
  split; [cbn [text_object]; rewrite Hs; reflexivity|]. split; [exact Hle|]. split; [lia|].
  split.
  - intros Hlt Hc. destruct (cmd_excl_motion st d v Ha Hv Hb ltac:(lia)) as [G _].
    rewrite Z.min_l, Z.max_r in G by lia. apply G. exact Hc.
  - intros Hlt Hc. destruct (cmd_excl_motion st d v Ha Hv Hb ltac:(lia)) as [_ G].
    rewrite Z.min_l, Z.max_r in G by lia. apply G; [exact Hc|lia].
Qed.

(* ap: from the start of the paragraph (count 1) to the end of the count-th one *)
Lemma cmd_ap st d n hc s e :
  at_doc st d -> valid d ->
  start_of_paragraph d 1 false = Some s -> end_of_paragraph d n false = Some e ->
  text_object T_ap d n hc = TO (mkto s e EXCL) (s =? e) /\ s <= 0 <= e /\
  (s < e -> col d (dcur d + e) <> 0 -> spans st (mkto s e EXCL) (dcur d + s) (dcur d + e)) /\
  (s < e - 1 -> col d (dcur d + e) = 0 -> spans st (mkto s e EXCL) (dcur d + s) (dcur d + e - 1)).
Proof.
  intros Ha Hv Hs He.
  destruct (start_of_paragraph_in_bounds d 1 false s Hv Hs) as [Hsb Hsle].
  destruct (end_of_paragraph_in_bounds d n false e Hv He) as [Heb Hele].
  split; [cbn [text_object]; rewrite Hs, He; reflexivity|]. split; [lia|]. split.
  - intros Hlt Hc. destruct (cmd_excl_object st d s e Ha Hlt ltac:(lia) ltac:(lia)) as [G _]. apply G. exact Hc.
  - intros Hlt Hc. destruct (cmd_excl_object st d s e Ha ltac:(lia) ltac:(lia) ltac:(lia)) as [_ G].
    apply G; [exact Hc|exact Hlt].
Qed.
