(* C11 - wrapping with VARIABLE-width line prefixes (prompt + continuation
   prefixes of different widths, per line and per wrap count), width-1
   characters: where copy_line puts each character, how many rows a line uses,
   exactness of get_height_for_line, and the cursor theorem. *)
From Coq Require Import ZArith List Bool Lia.
From PTK Require Import Lib.Sx Lib.Py Model.C11_Scroll Model.C11_CopyBody
     Proofs.C11_ScrollFacts Proofs.C11_CopyFacts Proofs.C11_LiveFacts Proofs.C11_WrapFacts
     Proofs.C11_SeqFacts.
Import ListNotations.
Open Scope Z_scope.

Section Var.
  Variables (sw dw : Z -> Z) (disp : Z -> str).
  Variables (haspfx : bool) (pfx : Z -> Z -> str).
  Variables (width height xpos ypos : Z).
  Hypothesis Hdw : forall c, dw c = 1.

  (* width of the prefix of row k of line l *)
  Definition epw (l k : Z) : Z := if haspfx then len (pfx l k) else 0.
  (* every prefix leaves at least one cell *)
  Hypothesis Hfit : forall l k, epw l k + 1 <= width.

  Lemma epw_nonneg : forall l k, 0 <= epw l k.
  Proof. intros. unfold epw. destruct haspfx; [apply len_nonneg | lia]. Qed.

  (* cells of line l that fit on its rows 0 .. k-1 *)
  Fixpoint capsum (l : Z) (k : nat) : Z :=
    match k with O => 0 | S j => capsum l j + (width - epw l (Z.of_nat j)) end.

  Lemma capsum_step : forall l k, capsum l k + 1 <= capsum l (S k).
  Proof. intros. cbn [capsum]. pose proof (Hfit l (Z.of_nat k)). lia. Qed.

  Lemma capsum_mono : forall l a b, (a <= b)%nat -> capsum l a <= capsum l b.
  Proof.
    intros l a b H. induction H as [|b' _ IH]; [lia|]. pose proof (capsum_step l b'). lia.
  Qed.

  Lemma capsum_nonneg : forall l k, 0 <= capsum l k.
  Proof. intros. pose proof (capsum_mono l O k ltac:(lia)). cbn [capsum] in *. lia. Qed.

  Lemma capsum_ge : forall l k, Z.of_nat k <= capsum l k.
  Proof. induction k as [|k IH]; [cbn; lia|]. pose proof (capsum_step l k). lia. Qed.

  (* the row of a column is unique *)
  Lemma row_unique : forall l v a b,
    capsum l a <= v < capsum l (S a) -> capsum l b <= v < capsum l (S b) -> a = b.
  Proof.
    intros l v a b Ha Hb.
    destruct (Nat.lt_trichotomy a b) as [H | [H | H]]; [|exact H|].
    - pose proof (capsum_mono l (S a) b ltac:(lia)). lia.
    - pose proof (capsum_mono l (S b) a ltac:(lia)). lia.
  Qed.

  Lemma row_exists : forall l v, 0 <= v -> exists k, capsum l k <= v < capsum l (S k).
  Proof.
    intros l v Hv.
    assert (G : forall m n, (n + m = S (Z.to_nat v))%nat -> capsum l n <= v ->
                exists k, capsum l k <= v < capsum l (S k)).
    { induction m as [|m IH]; intros n Hn Hc.
      - pose proof (capsum_ge l n). lia.
      - destruct (Z_lt_le_dec v (capsum l (S n))) as [Hlt | Hge]; [exists n; lia|].
        apply (IH (S n)); [lia | exact Hge]. }
    apply (G (S (Z.to_nat v)) O); [lia | cbn; lia].
  Qed.

  Local Notation put' := (put sw dw disp width xpos ypos).
  Local Notation copy_plain' := (copy_plain sw dw disp true width height xpos ypos).
  Local Notation copy_input' := (copy_input sw dw disp true haspfx pfx width height xpos ypos).
  Local Notation copy_line' := (copy_line sw dw disp true haspfx pfx width height xpos ypos).
  Local Notation copy_lines' := (copy_lines sw dw disp true haspfx pfx width height xpos ypos).

  Definition after_wrap_v (l wc : Z) (s : cst) : cst :=
    if haspfx then copy_plain' (pfx l wc) l (wrap_row l s) else wrap_row l s.

  Lemma after_wrap_v_state : forall l wc s,
    cx (after_wrap_v l wc s) = epw l wc /\ cy (after_wrap_v l wc s) = cy s + 1 /\
    cr2 (after_wrap_v l wc s) = cr2 s.
  Proof.
    intros l wc s. unfold after_wrap_v, epw. pose proof (Hfit l wc) as Hf. unfold epw in Hf.
    destruct haspfx eqn:E.
    - destruct (copy_plain_cy sw dw disp true width height xpos ypos Hdw (pfx l wc) l (wrap_row l s)) as (A & B & _).
      { right. cbn [wrap_row cx]. lia. }
      destruct (copy_plain_adv sw dw disp true width height xpos ypos Hdw (pfx l wc) l (wrap_row l s)) as (_ & _ & C).
      rewrite A, B, C. cbn [wrap_row cx cy cr2]. repeat split; lia.
    - cbn [wrap_row cx cy cr2]. repeat split; lia.
  Qed.

  Lemma put_cr2_other_v : forall isin l kc c s key,
    isin = false \/ key <> (l, kc) ->
    alist_get (cr2 (put' isin l kc c s)) key = alist_get (cr2 s) key.
  Proof.
    intros isin l kc c s key H. rewrite (put_narrow sw dw disp width xpos ypos Hdw).
    destruct (_ && _); cbn [cr2]; [|reflexivity].
    destruct isin; [|reflexivity]. destruct H as [H | H]; [discriminate|].
    cbn [alist_get]. destruct (pos_eqb (l, kc) key) eqn:E; [|reflexivity].
    apply pos_eqb_eq in E. congruence.
  Qed.

  Lemma copy_input_keys_v : forall cs l col wc s key,
    fst key <> l \/ snd key < col ->
    alist_get (cr2 (copy_input' cs l col 0 wc s)) key = alist_get (cr2 s) key.
  Proof.
    induction cs as [|c r IH]; intros l col wc s key Hk; cbn [copy_input]; [reflexivity|].
    assert (Hne : key <> (l, col + 0)).
    { intros ->. cbn [fst snd] in Hk. lia. }
    destruct (true && _).
    - fold (after_wrap_v l (wc + 1) s).
      destruct (after_wrap_v_state l (wc + 1) s) as (_ & _ & C).
      destruct (height <=? _); [now rewrite C|].
      rewrite IH by (destruct Hk; [now left | right; lia]).
      rewrite put_cr2_other_v by (now right). now rewrite C.
    - rewrite IH by (destruct Hk; [now left | right; lia]).
      now rewrite put_cr2_other_v by (now right).
  Qed.

  Local Notation pcx := (put_cx sw dw disp width xpos ypos Hdw).
  Local Notation pcy := (put_cy sw dw disp width xpos ypos Hdw).

  (* where each character of the line is registered: on row k' of the line iff
     capsum k' <= column < capsum (k' + 1) *)
  Lemma copy_input_reg_v : forall cs l col k s y0,
    epw l (Z.of_nat k) <= cx s <= width ->
    col = capsum l k + (cx s - epw l (Z.of_nat k)) ->
    cy s = y0 + Z.of_nat k -> cy s < height ->
    forall i c, nth_error cs i = Some c ->
    forall k', capsum l k' <= col + Z.of_nat i < capsum l (S k') ->
      0 <= y0 + Z.of_nat k' < height ->
      alist_get (cr2 (copy_input' cs l col 0 (Z.of_nat k) s)) (l, col + Z.of_nat i)
      = Some (y0 + Z.of_nat k' + ypos, epw l (Z.of_nat k') + (col + Z.of_nat i - capsum l k') + xpos).
  Proof.
    induction cs as [|c0 r IH]; intros l col k s y0 Hx Hlin Hy Hh i c Hn k' Hk' Hrow; [destruct i; discriminate|].
    cbn [copy_input]. rewrite Hdw.
    pose proof (epw_nonneg l (Z.of_nat k)) as Hp0.
    destruct (true && (width <? cx s + 1)) eqn:Ew; cbn [andb] in Ew.
    - (* wrap: this character starts row k + 1 *)
      assert (Hxw : cx s = width) by lia.
      replace (Z.of_nat k + 1) with (Z.of_nat (S k)) by lia.
      fold (after_wrap_v l (Z.of_nat (S k)) s).
      destruct (after_wrap_v_state l (Z.of_nat (S k)) s) as (A & B & C).
      assert (Hcol : col = capsum l (S k)) by (cbn [capsum]; lia).
      assert (Hge : (S k <= k')%nat).
      { destruct (le_lt_dec (S k) k') as [H|H]; [exact H|].
        pose proof (capsum_mono l (S k') (S k) ltac:(lia)). lia. }
      pose proof (Hfit l (Z.of_nat (S k))) as HfS. pose proof (epw_nonneg l (Z.of_nat (S k))) as HpS.
      destruct (height <=? cy (after_wrap_v l (Z.of_nat (S k)) s)) eqn:Eh; [lia|].
      destruct i as [|i'].
      + inversion Hn; subst c0; clear Hn. change (Z.of_nat 0) with 0 in *. rewrite Z.add_0_r in *.
        assert (k' = S k) by (apply (row_unique l col); [exact Hk' | pose proof (capsum_step l (S k)); lia]).
        subst k'.
        rewrite copy_input_keys_v by (right; cbn [snd]; lia).
        rewrite (put_narrow sw dw disp width xpos ypos Hdw). rewrite A, B.
        destruct ((0 <=? epw l (Z.of_nat (S k))) && (0 <=? cy s + 1) && (epw l (Z.of_nat (S k)) <? width)) eqn:Ec; [|lia].
        cbn [cr2 alist_get]. rewrite pos_eqb_refl. do 2 f_equal; lia.
      + cbn [nth_error] in Hn.
        replace (col + 0 + Z.of_nat (S i')) with (col + 1 + Z.of_nat i') in * by lia.
        replace (col + Z.of_nat (S i')) with (col + 1 + Z.of_nat i') in * by lia.
        apply (IH l (col + 1) (S k) _ y0) with (c := c); try assumption; rewrite ?pcx, ?pcy; try lia.
    - (* same row *)
      assert (Hxw : cx s < width) by lia.
      assert (Hin : capsum l k <= col < capsum l (S k)) by (cbn [capsum]; lia).
      destruct i as [|i'].
      + inversion Hn; subst c0; clear Hn. change (Z.of_nat 0) with 0 in *. rewrite Z.add_0_r in *.
        assert (k' = k) by (apply (row_unique l col); assumption). subst k'.
        rewrite copy_input_keys_v by (right; cbn [snd]; lia).
        rewrite (put_narrow sw dw disp width xpos ypos Hdw).
        destruct ((0 <=? cx s) && (0 <=? cy s) && (cx s <? width)) eqn:Ec; [|lia].
        cbn [cr2 alist_get]. rewrite pos_eqb_refl. do 2 f_equal; lia.
      + cbn [nth_error] in Hn.
        replace (col + Z.of_nat (S i')) with (col + 1 + Z.of_nat i') in * by lia.
        apply (IH l (col + 1) k _ y0) with (c := c); try assumption; rewrite ?pcx, ?pcy; try lia.
  Qed.

  (* a line whose rows all lie above the window bottom is copied to its end *)
  Lemma copy_input_end_v : forall cs l col k s y0,
    epw l (Z.of_nat k) <= cx s <= width ->
    col = capsum l k + (cx s - epw l (Z.of_nat k)) ->
    cy s = y0 + Z.of_nat k -> cy s < height ->
    (forall k', capsum l k' <= col + len cs - 1 -> y0 + Z.of_nat k' < height) ->
    let s' := copy_input' cs l col 0 (Z.of_nat k) s in
    exists ke, cy s' = y0 + Z.of_nat ke /\ epw l (Z.of_nat ke) <= cx s' <= width /\
               col + len cs = capsum l ke + (cx s' - epw l (Z.of_nat ke)) /\
               (cs <> [] -> epw l (Z.of_nat ke) < cx s').
  Proof.
    induction cs as [|c0 r IH]; intros l col k s y0 Hx Hlin Hy Hh Hrows.
    - cbn [copy_input]. rewrite len_nil. exists k. repeat split; try lia. intros H; now elim H.
    - rewrite len_cons in *. pose proof (len_nonneg r) as Hr.
      cbn [copy_input]. rewrite Hdw.
      destruct (true && (width <? cx s + 1)) eqn:Ew; cbn [andb] in Ew.
      + replace (Z.of_nat k + 1) with (Z.of_nat (S k)) by lia.
        fold (after_wrap_v l (Z.of_nat (S k)) s).
        destruct (after_wrap_v_state l (Z.of_nat (S k)) s) as (A & B & C).
        assert (Hcol : col = capsum l (S k)) by (cbn [capsum]; lia).
        pose proof (Hrows (S k) ltac:(lia)) as HrowS.
        pose proof (Hfit l (Z.of_nat (S k))) as HfS. pose proof (epw_nonneg l (Z.of_nat (S k))) as HpS.
        destruct (height <=? cy (after_wrap_v l (Z.of_nat (S k)) s)) eqn:Eh; [lia|].
        destruct (IH l (col + 1) (S k) (put' true l (col + 0) c0 (after_wrap_v l (Z.of_nat (S k)) s)) y0)
          as (ke & E1 & E2 & E3 & E4); rewrite ?pcx, ?pcy; try lia.
        { intros k' Hk'. apply Hrows. lia. }
        exists ke. cbv zeta. repeat split; try lia. intros _.
        destruct r as [|c1 r']; [|apply E4; discriminate].
        cbn [copy_input] in *. rewrite pcx, pcy in *. rewrite len_nil in *.
        assert (ke = S k) by lia. subst ke. lia.
      + pose proof (epw_nonneg l (Z.of_nat k)) as Hp0.
        destruct (IH l (col + 1) k (put' true l (col + 0) c0 s) y0)
          as (ke & E1 & E2 & E3 & E4); rewrite ?pcx, ?pcy; try lia.
        { intros k' Hk'. apply Hrows. lia. }
        exists ke. cbv zeta. repeat split; try lia. intros _.
        destruct r as [|c1 r']; [|apply E4; discriminate].
        cbn [copy_input] in *. rewrite pcx, pcy in *. rewrite len_nil in *.
        assert (ke = k) by lia. subst ke. lia.
  Qed.

  (* ------------------------------------------------------------------ *)
  Definition line_start_v (l : Z) (s : cst) : cst :=
    if haspfx then copy_plain' (pfx l 0) l s else s.

  Lemma line_start_v_state : forall l s, cx s = 0 ->
    cx (line_start_v l s) = epw l 0 /\ cy (line_start_v l s) = cy s /\ cr2 (line_start_v l s) = cr2 s.
  Proof.
    intros l s Hx. unfold line_start_v, epw. pose proof (Hfit l 0) as Hf. unfold epw in Hf.
    destruct haspfx eqn:E; [|repeat split; lia].
    destruct (copy_plain_cy sw dw disp true width height xpos ypos Hdw (pfx l 0) l s) as (A & B & _); [right; lia|].
    destruct (copy_plain_adv sw dw disp true width height xpos ypos Hdw (pfx l 0) l s) as (_ & _ & C).
    rewrite A, B, C. repeat split; lia.
  Qed.

  Lemma copy_line_unfold_v : forall line l s,
    copy_line' 0 line l s = copy_input' line l 0 0 (Z.of_nat 0) (line_start_v l s).
  Proof. intros. unfold copy_line, line_start_v. reflexivity. Qed.

  Lemma copy_line_reg_v : forall line l s i c k',
    cx s = 0 -> cy s < height -> nth_error line i = Some c ->
    capsum l k' <= Z.of_nat i < capsum l (S k') -> 0 <= cy s + Z.of_nat k' < height ->
    alist_get (cr2 (copy_line' 0 line l s)) (l, Z.of_nat i)
    = Some (cy s + Z.of_nat k' + ypos, epw l (Z.of_nat k') + (Z.of_nat i - capsum l k') + xpos).
  Proof.
    intros line l s i c k' Hx Hy Hn Hk' Hrow. rewrite copy_line_unfold_v.
    destruct (line_start_v_state l s Hx) as (A & B & C).
    pose proof (Hfit l 0) as Hf0.
    assert (H1 : epw l (Z.of_nat 0) <= cx (line_start_v l s) <= width) by (rewrite A; cbn [Z.of_nat]; lia).
    assert (H2 : 0 = capsum l 0 + (cx (line_start_v l s) - epw l (Z.of_nat 0))) by (rewrite A; cbn [capsum Z.of_nat]; lia).
    assert (H3 : cy (line_start_v l s) = cy s + Z.of_nat 0) by (rewrite B; cbn [Z.of_nat]; lia).
    assert (H4 : cy (line_start_v l s) < height) by (rewrite B; lia).
    pose proof (copy_input_reg_v line l 0 0 (line_start_v l s) (cy s) H1 H2 H3 H4 i c Hn k') as H.
    rewrite !Z.add_0_l in H. apply H; assumption.
  Qed.

  Lemma copy_line_keys_v : forall line l s key, fst key <> l ->
    alist_get (cr2 (copy_line' 0 line l s)) key = alist_get (cr2 s) key.
  Proof.
    intros line l s key Hk. rewrite copy_line_unfold_v.
    rewrite copy_input_keys_v by (now left).
    unfold line_start_v. destruct haspfx; [|reflexivity].
    now destruct (copy_plain_adv sw dw disp true width height xpos ypos Hdw (pfx l 0) l s) as (_ & _ & ->).
  Qed.

  (* [r] rows: capsum (r-1) < len <= capsum r *)
  Lemma copy_line_end_v : forall line l s r,
    cx s = 0 -> cy s < height -> (1 <= r)%nat ->
    capsum l (r - 1) < len line <= capsum l r ->
    cy s + Z.of_nat (r - 1) < height ->
    cy (copy_line' 0 line l s) = cy s + Z.of_nat (r - 1).
  Proof.
    intros line l s r Hx Hy Hr Hlen Hfits. rewrite copy_line_unfold_v.
    destruct (line_start_v_state l s Hx) as (A & B & C).
    pose proof (Hfit l 0) as Hf0. pose proof (capsum_nonneg l (r - 1)) as Hc0.
    assert (Hne : line <> []) by (intros ->; rewrite len_nil in Hlen; lia).
    assert (H1 : epw l (Z.of_nat 0) <= cx (line_start_v l s) <= width) by (rewrite A; cbn [Z.of_nat]; lia).
    assert (H2 : 0 = capsum l 0 + (cx (line_start_v l s) - epw l (Z.of_nat 0))) by (rewrite A; cbn [capsum Z.of_nat]; lia).
    assert (H3 : cy (line_start_v l s) = cy s + Z.of_nat 0) by (rewrite B; cbn [Z.of_nat]; lia).
    assert (H4 : cy (line_start_v l s) < height) by (rewrite B; lia).
    assert (H5 : forall k', capsum l k' <= 0 + len line - 1 -> cy s + Z.of_nat k' < height).
    { intros k' Hk'. assert ((k' <= r - 1)%nat); [|lia].
      destruct (le_lt_dec k' (r - 1)) as [H|H]; [exact H|].
      pose proof (capsum_mono l r k' ltac:(lia)). lia. }
    destruct (copy_input_end_v line l 0 0 (line_start_v l s) (cy s) H1 H2 H3 H4 H5) as (ke & E1 & E2 & E3 & E4).
    specialize (E4 Hne). rewrite E1.
    assert (ke = (r - 1)%nat); [|subst; reflexivity].
    apply (row_unique l (len line - 1)).
    - cbn [capsum]. pose proof (Hfit l (Z.of_nat ke)). lia.
    - replace (S (r - 1)) with r by lia. lia.
  Qed.

  Lemma copy_lines_keys_v : forall rest lineno s key, fst key < lineno ->
    alist_get (cr2 (copy_lines' 0 rest lineno s)) key = alist_get (cr2 s) key.
  Proof.
    induction rest as [|ln r IH]; intros lineno s key Hk; cbn [copy_lines]; [reflexivity|].
    destruct (cy s <? height); [|reflexivity].
    rewrite IH by lia. cbn [cr2]. rewrite copy_line_keys_v; [reflexivity | lia].
  Qed.

  (* [R l] = number of rows of line l *)
  Definition rows_rel (l : Z) (n : Z) (h : Z) : Prop :=
    exists r, (1 <= r)%nat /\ h = Z.of_nat r /\ capsum l (r - 1) < n <= capsum l r.

  Lemma copy_lines_reg_v : forall (R : Z -> Z), (forall l, 0 <= R l) ->
    forall rest lineno s j line i c k',
    0 <= lineno ->
    (forall k ln, nth_error rest k = Some ln -> rows_rel (lineno + Z.of_nat k) (len ln) (R (lineno + Z.of_nat k))) ->
    nth_error rest j = Some line -> nth_error line i = Some c ->
    capsum (lineno + Z.of_nat j) k' <= Z.of_nat i < capsum (lineno + Z.of_nat j) (S k') ->
    0 <= cy s + sumH R lineno (Z.to_nat (lineno + Z.of_nat j)) + Z.of_nat k' < height ->
    alist_get (cr2 (copy_lines' 0 rest lineno s)) (lineno + Z.of_nat j, Z.of_nat i)
    = Some (cy s + sumH R lineno (Z.to_nat (lineno + Z.of_nat j)) + Z.of_nat k' + ypos,
            epw (lineno + Z.of_nat j) (Z.of_nat k') + (Z.of_nat i - capsum (lineno + Z.of_nat j) k') + xpos).
  Proof.
    intros R HR. induction rest as [|ln0 r IH]; intros lineno s j line i c k' Hl HRr Hj Hi Hk' Hrow;
      [destruct j; discriminate|].
    destruct j as [|j'].
    - cbn [nth_error] in Hj. inversion Hj; subst ln0; clear Hj.
      change (Z.of_nat 0) with 0 in *. rewrite Z.add_0_r in *.
      rewrite sumH_empty in * by lia. rewrite Z.add_0_r in *.
      cbn [copy_lines]. destruct (cy s <? height) eqn:Ey; [|lia].
      rewrite copy_lines_keys_v by (cbn [fst]; lia). cbn [cr2].
      rewrite (copy_line_reg_v line lineno _ i c k'); cbn [cx cy]; try reflexivity; try assumption; lia.
    - cbn [nth_error] in Hj.
      destruct (HRr O ln0 eq_refl) as (r0 & Hr0 & HR0 & Hlen0).
      change (Z.of_nat 0) with 0 in *. rewrite Z.add_0_r in *.
      assert (Hstep : sumH R lineno (Z.to_nat (lineno + Z.of_nat (S j')))
                      = R lineno + sumH R (lineno + 1) (Z.to_nat (lineno + 1 + Z.of_nat j'))).
      { rewrite sumH_step by lia. f_equal. f_equal. lia. }
      rewrite Hstep in *.
      pose proof (sumH_nonneg R (lineno + 1) (Z.to_nat (lineno + 1 + Z.of_nat j')) HR) as Hnn.
      cbn [copy_lines]. destruct (cy s <? height) eqn:Ey; [|lia].
      set (s0 := mkcst 0 (cy s) (cscr s) (cr2 s) ((cy s, (lineno, 0)) :: cvl s)).
      assert (Hend : cy (copy_line' 0 ln0 lineno s0) = cy s + Z.of_nat (r0 - 1)).
      { apply (copy_line_end_v ln0 lineno s0 r0); unfold s0; cbn [cx cy]; try lia. }
      replace (lineno + Z.of_nat (S j')) with (lineno + 1 + Z.of_nat j') in * by lia.
      rewrite (IH (lineno + 1) _ j' line i c k'); cbn [cy]; try rewrite Hend; try assumption; try lia.
      + do 2 f_equal. lia.
      + intros k ln Hk. specialize (HRr (S k) ln Hk).
        replace (lineno + 1 + Z.of_nat k) with (lineno + Z.of_nat (S k)) by lia. exact HRr.
  Qed.
End Var.

(* ---------------------------------------------------------------------- *)
(* get_height_for_line is exact for width-1 characters and ANY prefixes that
   leave a cell: it returns the r with capsum (r-1) < n <= capsum r *)
Section VarHeight.
  Variables (sw : Z -> Z) (haspfx : bool) (pfx : Z -> Z -> str) (width : Z).
  Hypothesis Hsw : forall c, sw c = 1.
  Hypothesis Hfit : forall l k, epw haspfx pfx l k + 1 <= width.

  Local Notation epw' := (epw haspfx pfx).
  Local Notation capsum' := (capsum haspfx pfx width).
  Local Notation rows_rel' := (rows_rel haspfx pfx width).

  Lemma hfl_loop_var : haspfx = true -> forall l n fuel hn,
    (1 <= hn)%nat -> capsum' l (hn - 1) < n ->
    (Z.to_nat (n - capsum' l (hn - 1)) < fuel)%nat ->
    rows_rel' l n (hfl_loop fuel (fun k => strw sw (pfx l k)) width (Z.of_nat hn)
                            (n - capsum' l (hn - 1) + epw' l (Z.of_nat (hn - 1)))).
  Proof.
    intros Hhas l n. induction fuel as [|f IH]; intros hn Hhn Hlt Hfuel; [lia|].
    assert (Hcs : capsum' l hn = capsum' l (hn - 1) + (width - epw' l (Z.of_nat (hn - 1)))).
    { replace hn with (S (hn - 1)) at 1 by lia. reflexivity. }
    pose proof (Hfit l (Z.of_nat (hn - 1))) as Hfp.
    cbn [hfl_loop].
    destruct (width <? n - capsum' l (hn - 1) + epw' l (Z.of_nat (hn - 1))) eqn:E.
    - replace (Z.of_nat hn + 1 - 1) with (Z.of_nat hn) by lia.
      assert (Epw : strw sw (pfx l (Z.of_nat hn)) = epw' l (Z.of_nat hn)).
      { unfold epw. rewrite Hhas. now apply strw_narrow. }
      rewrite Epw. pose proof (Hfit l (Z.of_nat hn)) as Hf.
      destruct (width <=? epw' l (Z.of_nat hn)) eqn:E2; [lia|].
      replace (Z.of_nat hn + 1) with (Z.of_nat (S hn)) by lia.
      replace (n - capsum' l (hn - 1) + epw' l (Z.of_nat (hn - 1)) - width + epw' l (Z.of_nat hn))
        with (n - capsum' l (S hn - 1) + epw' l (Z.of_nat (S hn - 1))).
      2:{ replace (S hn - 1)%nat with hn by lia. lia. }
      apply IH; replace (S hn - 1)%nat with hn by lia; lia.
    - exists hn. split; [exact Hhn|]. split; [reflexivity|]. lia.
  Qed.

  Lemma capsum_nopfx : haspfx = false -> forall l k, capsum' l k = Z.of_nat k * width.
  Proof.
    intros Hno l. induction k as [|k IH]; [reflexivity|].
    cbn [capsum]. rewrite IH. unfold epw. rewrite Hno. lia.
  Qed.

  Lemma height_for_line_var : forall line l stop,
    let n := len (match stop with None => line | Some s => slice_to line s end) in
    1 <= n -> rows_rel' l n (height_for_line sw haspfx pfx line l width stop).
  Proof.
    intros line l stop n Hn. unfold height_for_line.
    pose proof (Hfit l 0) as Hf0. pose proof (epw_nonneg haspfx pfx l 0) as Hp0.
    destruct (width =? 0) eqn:E0; [lia|].
    fold n. rewrite !strw_narrow by exact Hsw. fold n.
    destruct (Bool.bool_dec haspfx true) as [Hhas | Hno].
    - assert (Epw : len (pfx l 0) = epw' l 0) by (unfold epw; now rewrite Hhas).
      rewrite Epw.
      pose proof (hfl_loop_var Hhas l n (S (Z.to_nat (n + epw' l 0))) 1 ltac:(lia)) as H.
      cbn [Nat.sub capsum] in H. change (Z.of_nat 1) with 1 in H. change (Z.of_nat 0) with 0 in H.
      rewrite Z.sub_0_r in H. specialize (H ltac:(lia) ltac:(lia)).
      revert H. generalize (hfl_loop (S (Z.to_nat (n + epw' l 0))) (fun k : Z => strw sw (pfx l k)) width 1 (n + epw' l 0)).
      intros h H. rewrite Hhas at 2. exact H.
    - apply Bool.not_true_is_false in Hno.
      assert (G : forall h, rows_rel' l n (Z.max 1 (if n mod width =? 0 then n / width else n / width + 1)) ->
                  rows_rel' l n (if haspfx then h else Z.max 1 (if n mod width =? 0 then n / width else n / width + 1))).
      { intros h H. rewrite Hno at 2. exact H. }
      apply G. clear G.
      rewrite ceil_rows by lia. unfold rowsZ. destruct (n <=? 0) eqn:E; [lia|].
      pose proof (Z.div_mod (n - 1) width ltac:(lia)) as Em.
      pose proof (Z.mod_pos_bound (n - 1) width ltac:(lia)) as Bm.
      pose proof (Z.div_pos (n - 1) width ltac:(lia) ltac:(lia)) as Q.
      exists (Z.to_nat ((n - 1) / width + 1)). split; [lia|]. split; [lia|].
      rewrite !(capsum_nopfx Hno).
      replace (Z.of_nat (Z.to_nat ((n - 1) / width + 1) - 1)) with ((n - 1) / width) by lia.
      rewrite Z2Nat.id by lia. nia.
  Qed.
End VarHeight.

(* ---------------------------------------------------------------------- *)
Section VarTop.
  Variables (sw dw : Z -> Z) (disp : Z -> str).
  Variables (haspfx : bool) (pfx : Z -> Z -> str).
  Variables (width height xpos ypos top bottom : Z).
  Variables (lines : list str) (cyr cxc : Z) (st : sstate) (allow : bool).

  Hypothesis Hsw : forall c, sw c = 1.
  Hypothesis Hdw : forall c, dw c = 1.
  Hypothesis Hfit : forall l k, epw haspfx pfx l k + 1 <= width.
  Hypothesis Hh : 1 <= height.
  Hypothesis Htop : 0 <= top.
  Hypothesis Hbottom : 0 <= bottom.
  Hypothesis Hvs : 0 <= vs st.
  Hypothesis Hlines : forall ln, In ln lines -> 1 <= len ln.
  Hypothesis Hcy : 0 <= cyr < len lines.
  Hypothesis Hcx : 0 <= cxc < len (line_of lines cyr).

  Local Notation epw' := (epw haspfx pfx).
  Local Notation capsum' := (capsum haspfx pfx width).
  Local Notation Hf' := (Hf sw haspfx pfx width lines).
  Local Notation tbh' := (tbh sw haspfx pfx width lines cyr).

  Definition st_v : sstate :=
    scroll_wrap allow Hf' tbh' width height top bottom cyr cxc (len lines) st.
  Definition out_v : cst := copy_body sw dw disp true haspfx pfx width height xpos ypos lines st_v.

  Lemma Hf_pos_v : forall l, 0 <= Hf' l.
  Proof.
    intros l. unfold Hf. destruct (Z_le_gt_dec 1 (len (line_of lines l))) as [H|H].
    - destruct (height_for_line_var sw haspfx pfx width Hsw Hfit (line_of lines l) l None H) as (r & _ & -> & _). lia.
    - (* empty text: both paths give 1 *)
      pose proof (len_nonneg (line_of lines l)) as Hn. assert (E : len (line_of lines l) = 0) by lia.
      unfold height_for_line. pose proof (Hfit l 0). pose proof (epw_nonneg haspfx pfx l 0).
      destruct (width =? 0) eqn:E0; [unfold BIG; lia|].
      rewrite !strw_narrow by exact Hsw.
      replace (len (line_of lines l)) with 0 by lia.
      destruct (Bool.bool_dec haspfx true) as [Hhas | Hno].
      + pose proof (Hfit l 0) as Hf0. unfold epw in Hf0. rewrite Hhas in Hf0. rewrite Hhas.
        cbn [hfl_loop]. destruct (width <? 0 + len (pfx l 0)) eqn:E1; lia.
      + apply Bool.not_true_is_false in Hno. rewrite Hno.
        rewrite Z.mod_0_l, Z.div_0_l by lia. change (0 =? 0) with true. cbv iota. lia.
  Qed.

  Lemma line_of_nth_v : forall l, 0 <= l < len lines ->
    nth_error lines (Z.to_nat l) = Some (line_of lines l) /\ 1 <= len (line_of lines l).
  Proof.
    intros l Hl. unfold line_of. unfold len in Hl.
    assert (E : nth_error lines (Z.to_nat l) = Some (nth (Z.to_nat l) lines [])) by (apply nth_error_nth'; lia).
    split; [exact E|]. apply Hlines. eapply nth_error_In; eauto.
  Qed.

  Lemma rest_rows_v : forall v, 0 <= v -> forall k ln,
    nth_error (skipn (Z.to_nat v) lines) k = Some ln ->
    rows_rel haspfx pfx width (v + Z.of_nat k) (len ln) (Hf' (v + Z.of_nat k)).
  Proof.
    intros v Hv k ln Hn. rewrite nth_error_skipn in Hn.
    assert (Hr : 0 <= v + Z.of_nat k < len lines).
    { unfold len. pose proof (proj1 (nth_error_Some lines (Z.to_nat v + k)%nat) ltac:(congruence)). lia. }
    destruct (line_of_nth_v _ Hr) as [E1 E2].
    replace (Z.to_nat (v + Z.of_nat k)) with (Z.to_nat v + k)%nat in E1 by lia.
    rewrite E1 in Hn. inversion Hn; subst ln. unfold Hf.
    exact (height_for_line_var sw haspfx pfx width Hsw Hfit _ _ None E2).
  Qed.

  (* kc = the row of the cursor inside its line *)
  Variable kc : nat.
  Hypothesis Hkc : capsum' cyr kc <= cxc < capsum' cyr (S kc).

  Theorem wrap_varprefix_registered :
    let y := sumH Hf' (vs st_v) (Z.to_nat cyr) - vs2 st_v + Z.of_nat kc in
    let x := epw' cyr (Z.of_nat kc) + (cxc - capsum' cyr kc) in
    0 <= y < height /\ 0 <= x < width /\ 0 <= vs st_v /\
    alist_get (cr2 out_v) (cyr, cxc) = Some (y + ypos, x + xpos).
  Proof.
    cbv zeta.
    destruct (line_of_nth_v cyr Hcy) as [Eline Hlen].
    pose proof (epw_nonneg haspfx pfx cyr (Z.of_nat kc)) as Hp0.
    pose proof (Hfit cyr (Z.of_nat kc)) as HfK.
    assert (Hx : 0 <= epw' cyr (Z.of_nat kc) + (cxc - capsum' cyr kc) < width).
    { cbn [capsum] in Hkc. lia. }
    (* the cursor row lies inside the cursor line *)
    destruct (height_for_line_var sw haspfx pfx width Hsw Hfit (line_of lines cyr) cyr None Hlen)
      as (rc & Hrc1 & Hrc & Hrcl). fold (Hf' cyr) in Hrc.
    assert (Hkrc : (kc < rc)%nat).
    { destruct (le_lt_dec rc kc) as [H|H]; [|exact H].
      pose proof (capsum_mono haspfx pfx width Hfit cyr rc kc H). lia. }
    (* the slice estimate up to and including the cursor cell is kc + 1 *)
    assert (Htb : tbh' (cxc + 1) = Z.of_nat kc + 1).
    { unfold tbh.
      assert (Hs : 1 <= len (slice_to (line_of lines cyr) (cxc + 1))) by (rewrite len_slice_to; lia).
      destruct (height_for_line_var sw haspfx pfx width Hsw Hfit (line_of lines cyr) cyr (Some (cxc + 1)) Hs)
        as (r & Hr1 & -> & Hrl). rewrite len_slice_to in Hrl by lia.
      assert (kc = (r - 1)%nat); [|lia].
      apply (row_unique haspfx pfx width Hfit cyr cxc); [exact Hkc|].
      replace (S (r - 1)) with r by lia. lia. }
    assert (Hvs' : 0 <= vs st_v) by (unfold st_v, scroll_wrap; apply scroll_wrap_vs_ge0; assumption).
    assert (Hkey : forall v y0,
      0 <= v <= cyr -> vs st_v = v -> vs2 st_v = - y0 -> hs st_v = 0 ->
      0 <= y0 + sumH Hf' v (Z.to_nat cyr) + Z.of_nat kc < height ->
      alist_get (cr2 out_v) (cyr, cxc)
      = Some (y0 + sumH Hf' v (Z.to_nat cyr) + Z.of_nat kc + ypos,
              epw' cyr (Z.of_nat kc) + (cxc - capsum' cyr kc) + xpos)).
    { intros v y0 Hv E1 E2 E3 Hr. unfold out_v, copy_body. rewrite E1, E2, E3, Z.opp_involutive.
      pose proof (copy_lines_reg_v sw dw disp haspfx pfx width height xpos ypos Hdw Hfit
                    Hf' Hf_pos_v (skipn (Z.to_nat v) lines) v (mkcst 0 y0 [] [] [])
                    (Z.to_nat (cyr - v)) (line_of lines cyr) (Z.to_nat cxc)) as HR.
      cbn [cy] in HR. rewrite !Z2Nat.id in HR by lia.
      replace (v + (cyr - v)) with cyr in HR by lia.
      destruct (nth_error (line_of lines cyr) (Z.to_nat cxc)) as [c|] eqn:Ec.
      2:{ apply nth_error_None in Ec. unfold len in Hcx. lia. }
      apply (HR c kc); try assumption; try lia.
      - now apply rest_rows_v.
      - rewrite nth_error_skipn. replace (Z.to_nat v + Z.to_nat (cyr - v))%nat with (Z.to_nat cyr) by lia. exact Eline.
      - reflexivity. }
    destruct (height - top <? Hf' cyr) eqn:Ecase.
    - destruct (scroll_wrap_tall Hf' tbh' width height top bottom cyr cxc (len lines) ltac:(pose proof (Hfit 0 0); pose proof (epw_nonneg haspfx pfx 0 0); lia)
                  true allow st Hh ltac:(lia)) as (E1 & E3 & E20 & Eup & Elow).
      change (scroll_wrap_gen true allow Hf' tbh' width height top bottom cyr cxc (len lines) st) with st_v in *.
      cbv iota in Eup, Elow. rewrite Htb in Eup, Elow.
      pose proof (Eup (Z.of_nat kc) ltac:(lia) ltac:(lia)) as Hr1.
      pose proof (Elow (Z.of_nat kc) ltac:(lia)) as Hr2.
      rewrite E1. rewrite (sumH_empty Hf' cyr (Z.to_nat cyr)) by lia.
      split; [lia|]. split; [exact Hx|]. split; [lia|].
      rewrite (Hkey cyr (- vs2 st_v)); try lia.
      + rewrite (sumH_empty Hf' cyr (Z.to_nat cyr)) by lia. do 2 f_equal. lia.
      + rewrite (sumH_empty Hf' cyr (Z.to_nat cyr)) by lia. lia.
    - destruct (scroll_wrap_fits Hf' tbh' width height top bottom cyr cxc (len lines)
                  Hf_pos_v ltac:(pose proof (Hfit 0 0); pose proof (epw_nonneg haspfx pfx 0 0); lia) Hcy Htop Hbottom true allow st ltac:(lia)) as (E2 & E3 & E0 & E1 & Efit).
      change (scroll_wrap_gen true allow Hf' tbh' width height top bottom cyr cxc (len lines) st) with st_v in *.
      specialize (E0 Hvs).
      replace (Z.to_nat (cyr + 1)) with (S (Z.to_nat cyr)) in Efit by lia.
      rewrite sumH_succ in Efit by lia. rewrite Z2Nat.id in Efit by lia.
      pose proof (sumH_nonneg Hf' (vs st_v) (Z.to_nat cyr) Hf_pos_v) as Hnn.
      rewrite E2. split; [lia|]. split; [exact Hx|]. split; [exact Hvs'|].
      rewrite (Hkey (vs st_v) 0); try lia.
      do 2 f_equal. lia.
  Qed.
End VarTop.
