(* C08 - line_lo / line_hi (the span of a linewise cut) are boundaries of
   whole lines: a line ending (or the text boundary) sits right before
   line_lo and right before line_hi, and there is no line ending between
   line_lo and the range start, nor between the range end and line_hi - 1. *)
From Coq Require Import ZArith List Bool Lia.
From PTK Require Import Lib.Sx Lib.Py Model.Document Model.BufferEdit Model.C08_ViOps
  Proofs.C08_ViFacts Proofs.C08_Lines.
Import ListNotations.
Open Scope Z_scope.

Lemma c08_mem_Z_app c a b : mem_Z c (a ++ b) = mem_Z c a || mem_Z c b.
Proof. induction a as [|x a IH]; cbn [app mem_Z]; [reflexivity|]. rewrite IH. apply orb_assoc. Qed.

Lemma c08_mem_Z_rev c s : mem_Z c (rev s) = mem_Z c s.
Proof.
  induction s as [|x s IH]; [reflexivity|]. cbn [rev mem_Z].
  rewrite c08_mem_Z_app, IH. cbn [mem_Z]. rewrite orb_false_r. apply orb_comm.
Qed.

(* the first occurrence splits the list *)
Lemma find_char_from_split c s : forall i,
  0 <= i ->
  (find_char_from c s i = -1 /\ mem_Z c s = false) \/
  (exists a b, s = a ++ c :: b /\ mem_Z c a = false /\ find_char_from c s i = i + len a).
Proof.
  induction s as [|x s IH]; intros i Hi; cbn [find_char_from mem_Z].
  - left. split; reflexivity.
  - destruct (x =? c) eqn:E.
    + right. exists [], s. assert (x = c) by lia. subst x.
      split; [reflexivity|]. split; [reflexivity|]. change (len (@nil Z)) with 0. lia.
    + cbn [orb]. destruct (IH (i + 1) ltac:(lia)) as [[H1 H2]|(a & b & H1 & H2 & H3)].
      * left. split; assumption.
      * right. exists (x :: a), b. rewrite H1. split; [reflexivity|].
        split; [cbn [mem_Z]; rewrite E; exact H2|]. rewrite <- H1, H3, len_cons. lia.
Qed.

Lemma find_char_split c s :
  (find_char c s = -1 /\ mem_Z c s = false) \/
  (exists a b, s = a ++ c :: b /\ mem_Z c a = false /\ find_char c s = len a).
Proof.
  unfold find_char. destruct (find_char_from_split c s 0 ltac:(lia)) as [H|(a & b & H1 & H2 & H3)];
    [left; exact H|right]. exists a, b. split; [exact H1|]. split; [exact H2|lia].
Qed.

Lemma c08_firstn_app_exact {T} (a b : list T) : firstn (length a) (a ++ b) = a.
Proof. rewrite firstn_app, Nat.sub_diag, firstn_all. cbn [firstn]. apply app_nil_r. Qed.

Lemma c08_skipn_app_exact {T} (a b : list T) : skipn (length a) (a ++ b) = b.
Proof. rewrite skipn_app, Nat.sub_diag, skipn_all. reflexivity. Qed.

Lemma c08_firstn_firstn_le {T} (s : list T) (n m : nat) :
  (n <= m)%nat -> firstn n (firstn m s) = firstn n s.
Proof. intros H. rewrite firstn_firstn. f_equal. lia. Qed.

(* line_hi *)
Lemma line_hi_whole text hi :
  0 <= hi <= len text ->
  let b := line_hi text hi in
  (b = len text /\ mem_Z NL (skipn (Z.to_nat hi) text) = false) \/
  (exists p, firstn (Z.to_nat b) text = p ++ [NL] /\
             mem_Z NL (firstn (Z.to_nat (b - 1 - hi)) (skipn (Z.to_nat hi) text)) = false).
Proof.
  intros H b. unfold b, line_hi, find_char_at.
  rewrite slice_from_in_range by lia.
  unfold adj_index. destruct (hi <? 0) eqn:E0; [lia|]. rewrite Z.min_l by lia.
  set (rest := skipn (Z.to_nat hi) text).
  destruct (find_char_split NL rest) as [[Hq Hm]|(a & r & Hs & Hm & Hq)]; rewrite Hq.
  - left. change (-1 <? 0) with true. cbv iota. change (0 <=? -1) with false. cbv iota.
    split; [lia|exact Hm].
  - right. pose proof (len_nonneg a) as Ha.
    destruct (len a <? 0) eqn:E1; [lia|]. destruct (0 <=? hi + len a) eqn:E2; [|lia].
    assert (Ht : text = firstn (Z.to_nat hi) text ++ a ++ NL :: r).
    { rewrite <- Hs. unfold rest. symmetry. apply firstn_skipn. }
    assert (Hlh : length (firstn (Z.to_nat hi) text) = Z.to_nat hi).
    { rewrite firstn_length. unfold len in H. lia. }
    exists (firstn (Z.to_nat hi) text ++ a). split.
    + rewrite Ht at 1.
      replace (Z.to_nat (hi + len a + 1))
        with (length ((firstn (Z.to_nat hi) text ++ a) ++ [NL])).
      * replace (firstn (Z.to_nat hi) text ++ a ++ NL :: r)
          with (((firstn (Z.to_nat hi) text ++ a) ++ [NL]) ++ r)
          by (rewrite <- !app_assoc; reflexivity).
        apply c08_firstn_app_exact.
      * rewrite !app_length, Hlh. cbn [length]. unfold len. lia.
    + replace (hi + len a + 1 - 1 - hi) with (len a) by lia.
      rewrite Hs. unfold len. rewrite Nat2Z.id. rewrite c08_firstn_app_exact. exact Hm.
Qed.

(* line_lo *)
Lemma line_lo_whole text lo :
  0 <= lo <= len text ->
  let a := line_lo text lo in
  (a = 0 \/ exists p, firstn (Z.to_nat a) text = p ++ [NL]) /\
  mem_Z NL (firstn (Z.to_nat (lo - a)) (skipn (Z.to_nat a) text)) = false.
Proof.
  intros H a. unfold a, line_lo, rfind_char_to.
  rewrite slice_to_in_range by lia.
  set (pre := firstn (Z.to_nat lo) text).
  assert (Hl : len pre = lo) by (apply c08_len_firstn_le; lia).
  rewrite Hl.
  destruct (find_char_split NL (rev pre)) as [[Hq Hm]|(x & r & Hs & Hm & Hq)]; rewrite Hq.
  - change (-1 <? 0) with true. cbv iota. change (Z.max 0 (-1 + 1)) with 0.
    split; [left; reflexivity|]. rewrite Z.sub_0_r. change (Z.to_nat 0) with O. cbn [skipn].
    fold pre. rewrite <- (c08_mem_Z_rev NL pre). exact Hm.
  - pose proof (len_nonneg x) as Hx.
    destruct (len x <? 0) eqn:E1; [lia|].
    assert (Hp : pre = rev r ++ [NL] ++ rev x).
    { rewrite <- (rev_involutive pre), Hs, rev_app_distr. cbn [rev]. rewrite <- app_assoc. reflexivity. }
    assert (Hlx : len x < lo).
    { rewrite <- Hl, Hp, !len_app, !len_rev. change (len [NL]) with 1. pose proof (len_nonneg r). lia. }
    replace (Z.max 0 (lo - 1 - len x + 1)) with (lo - len x) by lia.
    assert (Hlen1 : length (rev r ++ [NL]) = Z.to_nat (lo - len x)).
    { assert (Hll : len (rev r ++ [NL]) = lo - len x).
      { rewrite <- Hl, Hp, !len_app, !len_rev. change (len [NL]) with 1. lia. }
      unfold len in *. lia. }
    assert (Hpre2 : pre = (rev r ++ [NL]) ++ rev x) by (rewrite Hp, <- app_assoc; reflexivity).
    assert (Hfa : firstn (Z.to_nat (lo - len x)) text = rev r ++ [NL]).
    { rewrite <- (c08_firstn_firstn_le text (Z.to_nat (lo - len x)) (Z.to_nat lo)) by lia.
      fold pre. rewrite Hpre2, <- Hlen1. apply c08_firstn_app_exact. }
    split; [right; exists (rev r); exact Hfa|].
    replace (lo - (lo - len x)) with (len x) by lia.
    (* skipn a text begins with rev x *)
    assert (Hsk : firstn (Z.to_nat (len x)) (skipn (Z.to_nat (lo - len x)) text) = rev x).
    { assert (Ht : text = pre ++ skipn (Z.to_nat lo) text) by (symmetry; apply firstn_skipn).
      rewrite Ht, Hpre2, <- app_assoc, <- Hlen1, c08_skipn_app_exact.
      replace (Z.to_nat (len x)) with (length (rev x)) by (rewrite rev_length; unfold len; lia).
      apply c08_firstn_app_exact. }
    rewrite Hsk, c08_mem_Z_rev. exact Hm.
Qed.
