(* C09 - facts about the kill ring (InMemoryClipboard): set_data keeps the newest
   entry first and drops only what exceeds max_size; rotate is a cyclic shift:
   it permutes the ring, k rotations expose entry k mod n, n rotations are the
   identity. *)
From Coq Require Import ZArith List Bool Lia Permutation PeanoNat.
From PTK Require Import Lib.Sx Lib.Py Model.Document Model.BufferEdit Model.C09_Kill.
Import ListNotations.
Open Scope Z_scope.

Lemma ring_get_set r d : ring_get (ring_set r d) = d.
Proof. reflexivity. Qed.

Lemma ring_set_length r d : (length (ring_set r d) <= MAX_SIZE)%nat.
Proof. unfold ring_set. rewrite firstn_length. apply Nat.le_min_l. Qed.

Lemma ring_set_not_full r d : (length r < MAX_SIZE)%nat -> ring_set r d = d :: r.
Proof. intros H. unfold ring_set. apply firstn_all2. cbn [length]. lia. Qed.

(* whatever the size: the new ring is the new entry followed by a prefix of the old ring *)
Lemma ring_set_prefix r d : exists k, ring_set r d = d :: firstn k r.
Proof. exists (pred MAX_SIZE). reflexivity. Qed.

Lemma In_firstn {T} (x : T) k l : In x (firstn k l) -> In x l.
Proof.
  revert k; induction l as [|a l IH]; intros [|k] H; cbn [firstn] in H; try contradiction.
  destruct H as [->|H]; [now left|right; eauto].
Qed.

Lemma ring_set_keeps r d x :
  In x (ring_set r d) -> x = d \/ In x r.
Proof.
  destruct (ring_set_prefix r d) as [k ->]. intros [<-|H]; [now left|right].
  revert H. apply In_firstn.
Qed.

Lemma ring_rotate_perm r : Permutation (ring_rotate r) r.
Proof.
  destruct r as [|d r]; cbn [ring_rotate]; [constructor|].
  apply Permutation_sym, Permutation_cons_append.
Qed.

Lemma ring_rotate_length r : length (ring_rotate r) = length r.
Proof. apply Permutation_length, ring_rotate_perm. Qed.

Fixpoint rotate_n (k : nat) (r : list clip) : list clip :=
  match k with O => r | S k' => ring_rotate (rotate_n k' r) end.

Lemma rotate_n_length k r : length (rotate_n k r) = length r.
Proof. induction k; cbn [rotate_n]; [reflexivity|]. now rewrite ring_rotate_length. Qed.

Lemma rotate_n_perm k r : Permutation (rotate_n k r) r.
Proof.
  induction k; cbn [rotate_n]; [apply Permutation_refl|].
  eapply Permutation_trans; [apply ring_rotate_perm|exact IHk].
Qed.

Lemma skipn_firstn_step {T} (r : list T) k :
  (k < length r)%nat ->
  exists y, skipn k r = y :: skipn (S k) r /\ firstn (S k) r = firstn k r ++ [y].
Proof.
  revert k. induction r as [|x r IH]; intros k Hk; [cbn in Hk; lia|].
  destruct k as [|k].
  - exists x. split; reflexivity.
  - cbn [length] in Hk. destruct (IH k) as [y [H1 H2]]; [lia|].
    exists y. split.
    + exact H1.
    + change (x :: firstn (S k) r = x :: firstn k r ++ [y]). now rewrite H2.
Qed.

Lemma rotate_skip_first (r : list clip) k :
  (k < length r)%nat ->
  ring_rotate (skipn k r ++ firstn k r) = skipn (S k) r ++ firstn (S k) r.
Proof.
  intros Hk. destruct (skipn_firstn_step r k Hk) as [y [H1 H2]].
  rewrite H1, H2. cbn [app ring_rotate]. now rewrite app_assoc.
Qed.

Lemma rotate_n_spec (r : list clip) k :
  (k <= length r)%nat -> rotate_n k r = skipn k r ++ firstn k r.
Proof.
  induction k as [|k IH]; intros Hk.
  - cbn. now rewrite app_nil_r.
  - cbn [rotate_n]. rewrite IH by lia. apply rotate_skip_first. lia.
Qed.

(* n rotations of an n-ring are the identity *)
Lemma rotate_n_full r : rotate_n (length r) r = r.
Proof.
  rewrite rotate_n_spec by lia. rewrite skipn_all, firstn_all. reflexivity.
Qed.

Lemma rotate_n_add a b r : rotate_n (a + b) r = rotate_n a (rotate_n b r).
Proof. induction a; cbn [rotate_n Nat.add]; [reflexivity|]. now rewrite IHa. Qed.

Lemma rotate_n_mul_full q r : rotate_n (q * length r) r = r.
Proof.
  induction q as [|q IH]; cbn [Nat.mul]; [reflexivity|].
  rewrite rotate_n_add. rewrite IH. apply rotate_n_full.
Qed.

Lemma rotate_n_mod k r : r <> [] -> rotate_n k r = rotate_n (k mod length r) r.
Proof.
  intros Hr. assert (Hn : length r <> O) by (destruct r; [congruence|discriminate]).
  rewrite (Nat.div_mod k (length r) Hn) at 1.
  rewrite Nat.add_comm, rotate_n_add. rewrite Nat.mul_comm, rotate_n_mul_full. reflexivity.
Qed.

(* after k rotations the head is entry k mod n *)
Lemma rotate_n_head k r d0 :
  r <> [] -> ring_get (rotate_n k r) = nth (k mod length r) r d0.
Proof.
  intros Hr. assert (Hn : length r <> O) by (destruct r; [congruence|discriminate]).
  rewrite (rotate_n_mod k r Hr).
  pose proof (Nat.mod_upper_bound k (length r) Hn) as Hlt.
  set (j := (k mod length r)%nat) in *.
  rewrite rotate_n_spec by lia.
  destruct (skipn j r) as [|y l] eqn:E.
  - exfalso. assert (Hl : length (skipn j r) = (length r - j)%nat) by apply skipn_length.
    rewrite E in Hl. cbn in Hl. lia.
  - cbn [app ring_get].
    assert (Hn' : nth j r d0 = nth j (firstn j r ++ skipn j r) d0) by now rewrite firstn_skipn.
    rewrite Hn'. rewrite app_nth2; rewrite firstn_length, Nat.min_l by lia; [|lia].
    rewrite Nat.sub_diag, E. reflexivity.
Qed.
