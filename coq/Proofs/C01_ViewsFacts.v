(* Facts about Model/C01_Views.v: the stored state (working lines, index,
   cursor, document cache, line cache) refines the (text, cursor) pair the
   edit operations are proved about; the caches stay coherent; an edit writes
   the current working line and nothing else; every view shows that text. *)
From Coq Require Import ZArith List Bool Lia.
From PTK Require Import Lib.Sx Lib.Py Model.Document Model.BufferEdit Model.C02_DocQueries
  Model.C01_CaseWord Model.C01_Views Proofs.BufferEditFacts Proofs.BufferEditIndent
  Proofs.C01_CaseWordFacts Proofs.C01_Audit.
Import ListNotations.
Open Scope Z_scope.

Lemma str_eqb_true : forall a b, str_eqb a b = true -> a = b.
Proof.
  induction a as [|x a IH]; intros [|y b] H; cbn [str_eqb] in H; try discriminate; [reflexivity|].
  apply andb_prop in H as [H1 H2]. apply Z.eqb_eq in H1. subst. f_equal. now apply IH.
Qed.

Lemma key_eqb_true a b : key_eqb a b = true -> a = b.
Proof.
  destruct a as [t c], b as [t' c']. unfold key_eqb; cbn [fst snd]. intros H.
  apply andb_prop in H as [H1 H2]. apply str_eqb_true in H1. apply Z.eqb_eq in H2. now subst.
Qed.

(* ---------------------------------------------------------------------- *)
(* Coherence of the two caches *)
Definition dc_entry_ok (e : dkey * doc) : Prop := snd e = mkdoc (fst (fst e)) (snd (fst e)).
Definition dc_ok (dc : list (dkey * doc)) : Prop := Forall dc_entry_ok dc.
Definition lc_entry_ok (e : str * list str) : Prop := snd e = split_on NL (fst e).
Definition lc_ok (lc : list (str * list str)) : Prop := Forall lc_entry_ok lc.

Definition li_entry_ok (e : str * list Z) : Prop := snd e = line_start_indexes (mkdoc (fst e) 0).
Definition li_ok (li : list (str * list Z)) : Prop := Forall li_entry_ok li.

Lemma dc_find_ok k dc d : dc_ok dc -> dc_find k dc = Some d -> d = mkdoc (fst k) (snd k).
Proof.
  induction 1 as [|[k' d'] r He Hr IH]; cbn [dc_find]; [discriminate|].
  destruct (key_eqb k k') eqn:E.
  - intros X; injection X as <-. apply key_eqb_true in E. subst k'. exact He.
  - exact IH.
Qed.

Lemma len_tl_le {T} (l : list T) : len (tl l) <= len l.
Proof. destruct l; cbn [tl]; [lia|]. rewrite len_cons. lia. Qed.

Lemma dc_get_ok k dc :
  dc_ok dc -> len dc <= DC_SIZE + 1 ->
  fst (dc_get k dc) = mkdoc (fst k) (snd k) /\
  dc_ok (snd (dc_get k dc)) /\ len (snd (dc_get k dc)) <= DC_SIZE + 1.
Proof.
  intros Hok Hn. unfold dc_get. destruct (dc_find k dc) as [d|] eqn:E; cbn [fst snd].
  - split; [exact (dc_find_ok k dc d Hok E)|]. split; assumption.
  - split; [reflexivity|]. split.
    + apply Forall_app. split.
      * destruct (DC_SIZE <? len dc); [|exact Hok].
        destruct dc as [|e r]; [exact Hok|]. now inversion Hok.
      * constructor; [reflexivity|constructor].
    + rewrite len_app. change (len [(k, mkdoc (fst k) (snd k))]) with 1.
      destruct (DC_SIZE <? len dc) eqn:E2.
      * destruct dc as [|e r]; cbn [tl]; [cbn in *; lia|]. rewrite len_cons in *. lia.
      * lia.
Qed.

Lemma dc_touch_ok ks : forall dc,
  dc_ok dc -> len dc <= DC_SIZE + 1 ->
  let dc' := fold_left (fun dc k => snd (dc_get k dc)) ks dc in
  dc_ok dc' /\ len dc' <= DC_SIZE + 1.
Proof.
  induction ks as [|k ks IH]; intros dc H1 H2; cbn [fold_left]; [now split|].
  destruct (dc_get_ok k dc H1 H2) as (_ & A & B). now apply IH.
Qed.

Lemma lc_find_ok t lc ls : lc_ok lc -> lc_find t lc = Some ls -> ls = split_on NL t.
Proof.
  induction 1 as [|[t' l'] r He Hr IH]; cbn [lc_find]; [discriminate|].
  destruct (str_eqb t t') eqn:E.
  - intros X; injection X as <-. apply str_eqb_true in E. subst t'. exact He.
  - exact IH.
Qed.

Lemma li_find_ok t li ix : li_ok li -> li_find t li = Some ix -> ix = line_start_indexes (mkdoc t 0).
Proof.
  induction 1 as [|[t' l'] r He Hr IH]; cbn [li_find]; [discriminate|].
  destruct (str_eqb t t') eqn:E.
  - intros X; injection X as <-. apply str_eqb_true in E. subst t'. exact He.
  - exact IH.
Qed.

(* ---------------------------------------------------------------------- *)
(* working_lines[working_index] = value *)
Section Upd.
Context {T : Type}.

Lemma update_nth_length (f : T -> T) : forall (l : list T) n, length (update_nth l n f) = length l.
Proof. induction l as [|x l IH]; intros [|n]; cbn [update_nth length]; auto. Qed.

Lemma update_nth_same (f : T -> T) : forall (l : list T) n x,
  nth_error l n = Some x -> nth_error (update_nth l n f) n = Some (f x).
Proof.
  induction l as [|y l IH]; intros [|n] x H; cbn in *; try discriminate.
  - now injection H as ->.
  - now apply IH.
Qed.

Lemma update_nth_other (f : T -> T) : forall (l : list T) n m,
  n <> m -> nth_error (update_nth l n f) m = nth_error l m.
Proof.
  induction l as [|y l IH]; intros [|n] [|m] H; cbn [update_nth nth_error]; try reflexivity.
  - congruence.
  - apply IH. congruence.
Qed.
End Upd.

Lemma index_in_range {T} (l : list T) i : 0 <= i < len l -> index l i = nth_error l (Z.to_nat i).
Proof.
  intros H. unfold index. destruct (i <? 0) eqn:E; [lia|].
  destruct ((i <? 0) || (len l <=? i)) eqn:E2; [lia|]. reflexivity.
Qed.

Lemma py_update_in_range {T} (l : list T) i f :
  0 <= i < len l -> py_update l i f = update_nth l (Z.to_nat i) f.
Proof.
  intros H. unfold py_update. destruct (i <? 0) eqn:E; [lia|].
  destruct ((i <? 0) || (len l <=? i)) eqn:E2; [lia|]. reflexivity.
Qed.

Lemma py_update_len {T} (l : list T) i f : len (py_update l i f) = len l.
Proof.
  unfold py_update. destruct ((_ <? 0) || _); [reflexivity|].
  unfold len. now rewrite update_nth_length.
Qed.

Lemma index_py_update_same {T} (l : list T) i (v : T) :
  0 <= i < len l -> index (py_update l i (fun _ => v)) i = Some v.
Proof.
  intros H. rewrite index_in_range by (rewrite py_update_len; exact H).
  rewrite py_update_in_range by exact H.
  destruct (nth_error l (Z.to_nat i)) as [x|] eqn:E.
  - exact (update_nth_same (fun _ => v) l _ x E).
  - apply nth_error_None in E. unfold len in H. lia.
Qed.

Lemma index_py_update_other {T} (l : list T) i j f :
  0 <= i < len l -> 0 <= j < len l -> i <> j -> index (py_update l i f) j = index l j.
Proof.
  intros Hi Hj Hne. rewrite !index_in_range by (try rewrite py_update_len; assumption).
  rewrite py_update_in_range by exact Hi. apply update_nth_other. lia.
Qed.

(* ---------------------------------------------------------------------- *)
(* The invariant of the stored state *)
Record WInv (w : wbuf) : Prop := {
  wi_idx : 0 <= widx w < len (wlines w);
  wi_cur : 0 <= wcur w <= len (w_text w);
  wi_dc : dc_ok (wdc w);
  wi_dcn : len (wdc w) <= DC_SIZE + 1;
  wi_lc : lc_ok (wlc w);
  wi_li : li_ok (wli w)
}.

Lemma winv_abs w : WInv w -> Inv (w_abs w).
Proof. intros H. unfold Inv, w_abs; cbn [btext bcur]. apply H. Qed.

Lemma w_text_commit w b : 0 <= widx w < len (wlines w) -> w_text (w_commit w b) = btext b.
Proof.
  intros H. unfold w_text, w_commit; cbn [wlines widx].
  now rewrite index_py_update_same.
Qed.

Lemma w_touch_fields w ks :
  wlines (w_touch w ks) = wlines w /\ widx (w_touch w ks) = widx w /\
  wcur (w_touch w ks) = wcur w /\ wlc (w_touch w ks) = wlc w.
Proof. repeat split. Qed.

(* The stored state after a step shows exactly the (text, cursor) the edit
   operation of Model/BufferEdit.v / C01_CaseWord.v produces. *)
Lemma wstep_refines w x :
  WInv w -> w_abs (snd (wstep w (WX x))) = res_buf (xstep (w_abs w) x).
Proof.
  intros H. cbn [wstep snd]. unfold w_abs at 1.
  rewrite w_text_commit by (cbn [w_touch wlines widx]; apply H).
  cbn [w_commit wcur]. now destruct (res_buf (xstep (w_abs w) x)).
Qed.

Lemma wstep_status w x :
  fst (wstep w (WX x)) =
  match xstep (w_abs w) x with Ok _ ret => (0, ret) | Err c _ => (c, []) end.
Proof. reflexivity. Qed.

Lemma wstep_inv w o : WInv w -> WInv (snd (wstep w o)).
Proof.
  intros H. destruct o as [x|i].
  - pose proof (wstep_refines w x H) as R.
    pose proof (xstep_inv (w_abs w) x (winv_abs w H)) as I. rewrite <- R in I.
    cbn [wstep snd] in *.
    destruct (dc_touch_ok (touches (w_abs w) x) (wdc w) (wi_dc w H) (wi_dcn w H)) as [A B].
    constructor; cbn [w_commit w_touch wlines widx wcur wdc wlc wli].
    + rewrite py_update_len. apply H.
    + exact I.
    + exact A.
    + exact B.
    + apply H.
    + apply H.
  - cbn [wstep snd]. unfold w_go_to_history.
    destruct ((0 <=? i) && (i <? len (wlines w))) eqn:E; [|exact H].
    apply andb_prop in E as [E1 E2].
    set (w1 := if widx w =? i then w else _).
    assert (H1 : 0 <= widx w1 < len (wlines w1) /\ dc_ok (wdc w1) /\ len (wdc w1) <= DC_SIZE + 1
                 /\ lc_ok (wlc w1) /\ li_ok (wli w1)).
    { unfold w1. destruct (widx w =? i); [repeat split; apply H|].
      unfold w_set_cursor; cbn [wlines widx wdc wlc wli]. repeat split; try apply H; lia. }
    destruct H1 as (A & B & C & D & D2).
    constructor; unfold w_set_cursor; cbn [wlines widx wcur wdc wlc wli]; try assumption.
    pose proof (set_cursor_inv (w_abs w1) (len (w_text w1))) as I.
    unfold Inv in I. cbn [btext] in I.
    replace (btext (set_cursor (w_abs w1) (len (w_text w1)))) with (w_text w1) in I by reflexivity.
    unfold w_text at 2 3; cbn [wlines widx]. exact I.
Qed.

Definition wsteps (w : wbuf) (ops : list wop) : wbuf :=
  fold_left (fun w o => snd (wstep w o)) ops w.

Lemma wsteps_inv ops : forall w, WInv w -> WInv (wsteps w ops).
Proof.
  induction ops as [|o ops IH]; intros w H; cbn [wsteps fold_left]; [exact H|].
  apply IH, wstep_inv, H.
Qed.

(* A freshly constructed Buffer (reset): empty caches. *)
Lemma winv_initial ls i c :
  0 <= i < len ls -> 0 <= c <= len (w_text (mkw ls i c [] [] [])) -> WInv (mkw ls i c [] [] []).
Proof. intros A B. constructor; cbn [wlines widx wcur wdc wlc wli]; try assumption; try constructor. cbn. lia. Qed.

(* ---------------------------------------------------------------------- *)
(* Frame: an edit writes the current working line only *)
Lemma wstep_frame w x :
  WInv w ->
  let w' := snd (wstep w (WX x)) in
  widx w' = widx w /\ len (wlines w') = len (wlines w) /\
  forall j, 0 <= j < len (wlines w) -> j <> widx w -> index (wlines w') j = index (wlines w) j.
Proof.
  intros H w'. unfold w'. cbn [wstep snd w_commit w_touch wlines widx].
  split; [reflexivity|]. split; [apply py_update_len|].
  intros j Hj Hne. apply index_py_update_other; [apply H|exact Hj|congruence].
Qed.

(* ... and moving through the working lines edits none of them *)
Lemma w_goto_frame w i : wlines (snd (wstep w (WGoto i))) = wlines w.
Proof.
  cbn [wstep snd]. unfold w_go_to_history.
  destruct ((0 <=? i) && (i <? len (wlines w))); [|reflexivity].
  unfold w_set_cursor; cbn [wlines]. destruct (widx w =? i); reflexivity.
Qed.

Lemma w_goto_index w i :
  widx (snd (wstep w (WGoto i))) = if (0 <=? i) && (i <? len (wlines w)) then i else widx w.
Proof.
  cbn [wstep snd]. unfold w_go_to_history.
  destruct ((0 <=? i) && (i <? len (wlines w))); [|reflexivity].
  unfold w_set_cursor; cbn [widx]. destruct (widx w =? i) eqn:E; [now apply Z.eqb_eq in E|reflexivity].
Qed.

(* ---------------------------------------------------------------------- *)
(* "The text seen through every view of the buffer is the same": the
   Document handed out by the cache, its cached lines and its cached
   line-start table are those of the current working line, in every
   invariant state. *)
Lemma w_document_ok w :
  WInv w ->
  fst (w_document w) = mkdoc (w_text w) (wcur w) /\
  wlines (snd (w_document w)) = wlines w /\ widx (snd (w_document w)) = widx w /\
  wcur (snd (w_document w)) = wcur w /\ WInv (snd (w_document w)).
Proof.
  intros H. unfold w_document.
  destruct (dc_get_ok (w_text w, wcur w) (wdc w) (wi_dc w H) (wi_dcn w H)) as (A & B & C).
  destruct (dc_get (w_text w, wcur w) (wdc w)) as [d dc]. cbn [fst snd] in *.
  repeat split; try assumption; cbn [wlines widx wcur wdc wlc wli]; try apply H; assumption.
Qed.

Lemma w_doc_lines_ok d w :
  WInv w ->
  fst (w_doc_lines d w) = split_on NL (dtext d) /\
  wlines (snd (w_doc_lines d w)) = wlines w /\ widx (snd (w_doc_lines d w)) = widx w /\
  wcur (snd (w_doc_lines d w)) = wcur w /\ WInv (snd (w_doc_lines d w)).
Proof.
  intros H. unfold w_doc_lines. destruct (lc_find (dtext d) (wlc w)) as [ls|] eqn:E; cbn [fst snd].
  - pose proof (lc_find_ok _ _ _ (wi_lc w H) E). repeat split; try assumption; apply H.
  - repeat split; cbn [wlines widx wcur wdc wlc wli]; try apply H.
    constructor; [reflexivity|apply H].
Qed.

Lemma w_doc_line_indexes_ok d w :
  WInv w ->
  fst (w_doc_line_indexes d w) = line_start_indexes d /\
  wlines (snd (w_doc_line_indexes d w)) = wlines w /\
  widx (snd (w_doc_line_indexes d w)) = widx w /\
  wcur (snd (w_doc_line_indexes d w)) = wcur w /\ WInv (snd (w_doc_line_indexes d w)).
Proof.
  intros H. unfold w_doc_line_indexes.
  destruct (li_find (dtext d) (wli w)) as [ix|] eqn:E; cbn [fst snd].
  - pose proof (li_find_ok _ _ _ (wi_li w H) E) as X. repeat split; try assumption; apply H.
  - destruct (w_doc_lines_ok d w H) as (A & B & C & D & I).
    destruct (w_doc_lines d w) as [ls w1]. cbn [fst snd] in *. subst ls.
    split; [reflexivity|]. cbn [wlines widx wcur wdc wlc wli].
    split; [exact B|]. split; [exact C|]. split; [exact D|].
    destruct I as [I1 I2 I3 I4 I5 I6].
    constructor; cbn [wlines widx wcur wdc wlc wli]; try assumption.
    constructor; [reflexivity|exact I6].
Qed.

Lemma w_observe_views w :
  WInv w ->
  let '((d, ls, ix), w') := w_observe w in
  d = mkdoc (w_text w) (wcur w) /\ ls = split_on NL (w_text w) /\
  ix = line_start_indexes (mkdoc (w_text w) (wcur w)) /\
  join [NL] ls = w_text w /\
  text_before_cursor d ++ text_after_cursor d = w_text w /\
  wlines w' = wlines w /\ widx w' = widx w /\ wcur w' = wcur w /\ WInv w'.
Proof.
  intros H. unfold w_observe.
  destruct (w_document_ok w H) as (A & A1 & A2 & A3 & AI).
  destruct (w_document w) as [d w1]. cbn [fst snd] in *.
  destruct (w_doc_lines_ok d w1 AI) as (B & B1 & B2 & B3 & BI).
  destruct (w_doc_lines d w1) as [ls w2]. cbn [fst snd] in *.
  destruct (w_doc_line_indexes_ok d w2 BI) as (C & C1 & C2 & C3 & CI).
  destruct (w_doc_line_indexes d w2) as [ix w3]. cbn [fst snd] in *.
  pose proof (views_agree (w_abs w) (winv_abs w H)) as (V1 & V2 & _).
  unfold lines, bdoc, w_abs in V2; cbn [btext bcur dtext] in V2.
  subst d. cbn [dtext] in *. subst ls ix.
  split; [reflexivity|]. split; [reflexivity|]. split; [reflexivity|]. split; [exact V2|].
  split; [exact V1|]. split; [congruence|]. split; [congruence|]. split; [congruence|exact CI].
Qed.

(* after every finite sequence of operations on a fresh buffer *)
Lemma w_views_after_history ops w :
  WInv w ->
  let w1 := wsteps w ops in
  let '((d, ls, ix), _) := w_observe w1 in
  dtext d = w_text w1 /\ dcur d = wcur w1 /\ join [NL] ls = w_text w1 /\
  ix = line_start_indexes (mkdoc (w_text w1) (wcur w1)) /\
  text_before_cursor d ++ text_after_cursor d = w_text w1 /\
  0 <= wcur w1 <= len (w_text w1).
Proof.
  intros H w1. pose proof (wsteps_inv ops w H) as H1. fold w1 in H1.
  pose proof (w_observe_views w1 H1) as V.
  destruct (w_observe w1) as [[[d ls] ix] w2].
  destruct V as (A & B & C & D & E & _). subst d.
  repeat split; try assumption; apply H1.
Qed.
