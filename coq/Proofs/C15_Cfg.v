(* C15 - no transition writes the configuration. *)
From Coq Require Import ZArith List Bool Lia.
From PTK Require Import Lib.Sx Lib.Py Model.C15_Async Proofs.C15_Base Proofs.C15_User.
Import ListNotations.
Open Scope Z_scope.

Ltac brk :=
  repeat match goal with
         | |- context [match ?x with _ => _ end] => destruct x
         end; simp; auto.

Lemma cfg_text_changed s : cfg (text_changed s) = cfg s.
Proof. unfold text_changed. brk. Qed.

Lemma cfg_cursor_changed s : cfg (cursor_changed s) = cfg s.
Proof. unfold cursor_changed. destruct (vst s =? 1); reflexivity. Qed.

Lemma cfg_set_document s d : cfg (set_document s d) = cfg s.
Proof.
  unfold set_document.
  destruct (negb (str_eqb (dtext d) (text s))); destruct (negb (Z.max 0 (dcur d) =? cur s));
    rewrite ?cfg_cursor_changed, ?cfg_text_changed; reflexivity.
Qed.

Lemma cfg_insert_text s d s' e : insert_text s d = (s', e) -> cfg s' = cfg s.
Proof.
  unfold insert_text. intros H.
  destruct (len (slice_to (text s) (cur s) ++ d ++ slice_from (text s) (cur s)) <? cur s + len d);
    [inversion H; reflexivity|].
  inversion H; subst. destruct (cwt (cfg s)); destruct (hsug (cfg s)); simp; apply cfg_set_document.
Qed.

Lemma cfg_delete_before s n s' e : delete_before s n = (s', e) -> cfg s' = cfg s.
Proof.
  unfold delete_before. intros H.
  repeat match type of H with
         | context [if ?x then _ else _] => destruct x
         end; inversion H; subst; auto using cfg_set_document.
Qed.

Lemma cfg_move_cursor s p : cfg (move_cursor s p) = cfg s.
Proof.
  unfold move_cursor. match goal with |- context [if ?c then s else _] => destruct c end; [reflexivity|].
  rewrite cfg_cursor_changed. reflexivity.
Qed.

Lemma cfg_set_text s v : cfg (set_text s v) = cfg s.
Proof.
  unfold set_text. destruct (len v <? cur s); destruct (str_eqb v _); simp;
    rewrite ?cfg_text_changed; simp; rewrite ?cfg_move_cursor; reflexivity.
Qed.

Lemma cfg_validate_sync s ok epos sc : cfg (validate_sync s ok epos sc) = cfg s.
Proof.
  unfold validate_sync. destruct (vst s =? 0); [|reflexivity].
  destruct (hval (cfg s) && negb ok); [|reflexivity]. destruct sc; simp; rewrite ?cfg_move_cursor; reflexivity.
Qed.

Lemma cfg_gtc s i s' e : go_to_completion s i = (s', e) -> cfg s' = cfg s.
Proof.
  unfold go_to_completion. intros H.
  destruct (cst s) as [cs|]; [|inversion H; reflexivity].
  destruct (go_to_index cs i) as [cs1|]; [|inversion H; reflexivity].
  destruct (ntp cs1) as [[t p]|]; [|inversion H; reflexivity].
  destruct (len t <? p); inversion H; subst; simp; [reflexivity|].
  rewrite cfg_set_document. reflexivity.
Qed.

Lemma cfg_complete_next s c w s' e : complete_next s c w = (s', e) -> cfg s' = cfg s.
Proof.
  unfold complete_next. intros H.
  destruct (cst s) as [cs|]; [|inversion H; reflexivity].
  destruct (cs_idx cs) as [i|]; [|eapply cfg_gtc; eauto].
  destruct (i =? len (cs_comps cs) - 1); [destruct w; [inversion H; reflexivity|]|]; eapply cfg_gtc; eauto.
Qed.

Lemma cfg_complete_prev s c w s' e : complete_prev s c w = (s', e) -> cfg s' = cfg s.
Proof.
  unfold complete_prev. intros H.
  destruct (cst s) as [cs|]; [|inversion H; reflexivity].
  destruct (cs_idx cs) as [i|]; [|eapply cfg_gtc; eauto].
  destruct (i =? 0); [destruct w; [inversion H; reflexivity|]|]; eapply cfg_gtc; eauto.
Qed.

Lemma cfg_cancel s s' e : cancel_completion s = (s', e) -> cfg s' = cfg s.
Proof.
  unfold cancel_completion. intros H.
  destruct (cst s) as [cs|]; [|inversion H; reflexivity].
  destruct (go_to_completion s None) as [s1 e1] eqn:Eg. apply cfg_gtc in Eg.
  destruct (e1 =? 0); inversion H; subst; simp; auto.
Qed.

Lemma cfg_completer_body s f : cfg (completer_body s f) = cfg s.
Proof. unfold completer_body. brk. Qed.

Lemma cfg_start_task s t : cfg (start_task s t) = cfg s.
Proof.
  destruct t; cbn [start_task]; unfold validator_body, suggester_body.
  - destruct (crun s); [reflexivity|]. rewrite cfg_completer_body. reflexivity.
  - brk.
  - brk.
Qed.

Lemma cfg_start_nth s i : cfg (start_nth s i) = cfg s.
Proof. unfold start_nth. destruct (get_nth (pending s) i); [|reflexivity]. rewrite cfg_start_task. reflexivity. Qed.

Lemma cfg_tick_n n : forall s, cfg (tick_n n s) = cfg s.
Proof. induction n as [|n IH]; intros s; cbn [tick_n]; [reflexivity|]. rewrite IH. apply cfg_start_nth. Qed.

Lemma cfg_cpost s k co s' e : cpost s k co = (s', e) -> cfg s' = cfg s.
Proof.
  unfold cpost. intros H.
  set (s0 := set_ccos s (remove_nth (ccos s) k)) in *.
  assert (H0 : cfg s0 = cfg s) by reflexivity.
  destruct (attached s0 co).
  - destruct (cst s0) as [cs|]; [|inversion H; subst; simp; auto].
    match type of H with context [set_cst s0 (Some ?c)] => set (cs1 := c) in * end.
    set (s1 := set_cst s0 (Some cs1)) in *.
    assert (H1 : cfg s1 = cfg s) by exact H0.
    assert (G : forall i s2 e2, go_to_completion s1 i = (s2, e2) -> cfg (set_crun s2 false) = cfg s).
    { intros i s2 e2 Hg. apply cfg_gtc in Hg. simp. congruence. }
    destruct (cs_idx cs1); [inversion H; subst; simp; auto|].
    destruct (cs_comps cs1) as [|c0 r0]; [inversion H; subst; simp; auto|].
    destruct (cc_flag co =? 1).
    { destruct (go_to_completion s1 (Some 0)) eqn:Hg. inversion H; subst. eapply G; eauto. }
    destruct (cc_flag co =? 2).
    { destruct (go_to_completion s1 (Some (len (c0 :: r0) - 1))) eqn:Hg. inversion H; subst. eapply G; eauto. }
    destruct (cc_flag co =? 3); [|inversion H; subst; simp; auto].
    destruct (common_suffix (cc_doc co) (c0 :: r0)) as [|x cm].
    { destruct (len (c0 :: r0) =? 1); [|inversion H; subst; simp; auto].
      destruct (go_to_completion s1 (Some 0)) eqn:Hg. inversion H; subst. eapply G; eauto. }
    destruct (insert_text s1 (x :: cm)) as [s2 e2] eqn:Hi. apply cfg_insert_text in Hi.
    destruct (e2 =? 0); [|inversion H; subst; simp; congruence].
    destruct (1 <? len (c0 :: r0)); inversion H; subst; unfold set_completions; simp; congruence.
  - destruct (str_eqb (tbc (cur_doc s0)) (tbc (cc_doc co))); [inversion H; subst; simp; auto|].
    destruct (startswith (tbc (cur_doc s0)) (tbc (cc_doc co))); inversion H; subst; simp; auto.
    rewrite cfg_completer_body. exact H0.
Qed.

Lemma cfg_step s l : cfg (apply s l) = cfg s.
Proof.
  unfold apply. destruct (step s l) as [s' e] eqn:E. cbn [fst]. destruct l; cbn [step] in E.
  - eapply cfg_insert_text; eauto.
  - eapply cfg_delete_before; eauto.
  - inversion E; subst. apply cfg_move_cursor.
  - eapply cfg_complete_next; eauto.
  - eapply cfg_complete_prev; eauto.
  - eapply cfg_cancel; eauto.
  - inversion E; subst. reflexivity.
  - inversion E; subst. apply cfg_start_nth.
  - inversion E; subst. unfold tick. apply cfg_tick_n.
  - unfold cyield in E. destruct (0 <? st); [inversion E; reflexivity|].
    destruct (get_nth (ccos s) k) as [co|]; [|inversion E; reflexivity].
    destruct (attached s co); [|eapply cfg_cpost; eauto].
    destruct (cst s) as [cs|]; [|inversion E; reflexivity].
    match type of E with context [cpost ?s1 _ _] => set (sa := s1) in * end.
    destruct (maxn (cfg s) <=? _); [|inversion E; subst; reflexivity].
    apply cfg_cpost in E. exact E.
  - unfold cend in E. destruct (get_nth (ccos s) k); [eapply cfg_cpost; eauto|inversion E; reflexivity].
  - unfold vreturn in E. destruct (get_nth (vcos s) k); [|inversion E; reflexivity].
    destruct (doc_eqb (cur_doc s) d); [inversion E; reflexivity|].
    destruct (vst s =? 0); inversion E; reflexivity.
  - unfold sreturn in E. destruct (get_nth (scos s) k); [|inversion E; reflexivity].
    destruct (doc_eqb _ d); inversion E; subst; [reflexivity|].
    unfold suggester_body. brk.
  - unfold install_menu in E. apply cfg_gtc in E. exact E.
  - inversion E; subst. unfold delete_fwd. destruct (cur s <? len (text s)); [apply cfg_set_text|reflexivity].
  - inversion E; subst. apply cfg_set_text.
  - unfold swap_chars in E. destruct (2 <=? cur s); [|inversion E; reflexivity].
    destruct (index (text s) (cur s - 2)); [|inversion E; reflexivity].
    destruct (index (text s) (cur s - 1)); inversion E; subst; [apply cfg_set_text|reflexivity].
  - inversion E; subst. apply cfg_validate_sync.
  - unfold reset_buf in E. destruct ((len t <? p) || (p <? 0)); inversion E; subst; reflexivity.
  - inversion E; subst. unfold validate_and_handle, reset_buf.
    destruct ((vst (validate_sync s ok epos true) =? 1) && negb keep); [|apply cfg_validate_sync].
    destruct ((len [] <? 0) || (0 <? 0)); cbn [fst]; simp; apply cfg_validate_sync.
  - unfold hist_step, install_menu in E. apply cfg_gtc in E. exact E.
Qed.

Lemma cfg_run ls : forall s, cfg (run s ls) = cfg s.
Proof.
  induction ls as [|l r IH]; intros s; cbn [run fold_left]; [reflexivity|].
  unfold run in IH. rewrite IH. apply cfg_step.
Qed.
