(* Back k / forward k UNDER PREFIX SEARCH: with enable_history_search on, k
   steps back (k not exceeding the number of earlier entries that start with
   the prefix) and k steps forward return to the same entry and text, for
   either kind of History object. *)
From Coq Require Import ZArith List Bool Lia.
From PTK Require Import Lib.Sx Lib.Py Model.Document Model.BufferEdit Model.C14_HistoryNav
  Proofs.C14_Facts Proofs.C14_Nav Proofs.C14_Accept Proofs.C14_Mixed Proofs.C14_Threaded Proofs.C14_AnyKind.
Import ListNotations.
Open Scope Z_scope.

Definition b2z (b : bool) : Z := if b then 1 else 0.

(* number of indices a, a+1, ..., a+n-1 accepted by m *)
Fixpoint cntn (m : Z -> bool) (a : Z) (n : nat) : Z :=
  match n with O => 0 | S k => b2z (m a) + cntn m (a + 1) k end.
Definition cnt (m : Z -> bool) (a b : Z) : Z := cntn m a (Z.to_nat (b - a)).

Lemma b2z_nonneg b : 0 <= b2z b <= 1.
Proof. destruct b; cbn; lia. Qed.

Lemma cntn_nonneg m : forall n a, 0 <= cntn m a n.
Proof. induction n; intros a; cbn [cntn]; [lia|]. pose proof (IHn (a + 1)). pose proof (b2z_nonneg (m a)). lia. Qed.

Lemma cntn_snoc m : forall n a, cntn m a (S n) = cntn m a n + b2z (m (a + Z.of_nat n)).
Proof.
  induction n; intros a.
  - cbn [cntn]. replace (a + Z.of_nat 0) with a by lia. lia.
  - change (cntn m a (S (S n))) with (b2z (m a) + cntn m (a + 1) (S n)).
    rewrite IHn. cbn [cntn]. replace (a + 1 + Z.of_nat n) with (a + Z.of_nat (S n)) by lia. lia.
Qed.

Lemma cntn_shift m1 m d : forall n a,
  (forall i, a <= i < a + Z.of_nat n -> m1 (i + d) = m i) -> cntn m1 (a + d) n = cntn m a n.
Proof.
  induction n; intros a H; cbn [cntn]; [reflexivity|].
  rewrite (H a) by lia. replace (a + d + 1) with (a + 1 + d) by lia.
  rewrite IHn; [reflexivity|]. intros i Hi. apply H. lia.
Qed.

Lemma cnt_nonneg m a b : 0 <= cnt m a b.
Proof. apply cntn_nonneg. Qed.

Lemma cnt_nil m a b : b <= a -> cnt m a b = 0.
Proof. intros H. unfold cnt. replace (Z.to_nat (b - a)) with 0%nat by lia. reflexivity. Qed.

Lemma cnt_first m a b : a < b -> cnt m a b = b2z (m a) + cnt m (a + 1) b.
Proof.
  intros H. unfold cnt. replace (Z.to_nat (b - a)) with (S (Z.to_nat (b - (a + 1)))) by lia. reflexivity.
Qed.

Lemma cnt_last m a b : a <= b -> cnt m a (b + 1) = cnt m a b + b2z (m b).
Proof.
  intros H. unfold cnt. replace (Z.to_nat (b + 1 - a)) with (S (Z.to_nat (b - a))) by lia.
  rewrite cntn_snoc. replace (a + Z.of_nat (Z.to_nat (b - a))) with b by lia. reflexivity.
Qed.

Lemma cnt_shift m1 m d a b :
  (forall i, a <= i < b -> m1 (i + d) = m i) -> cnt m1 (a + d) (b + d) = cnt m a b.
Proof.
  intros H. unfold cnt. replace (b + d - (a + d)) with (b - a) by lia.
  apply cntn_shift. intros i Hi. apply H. lia.
Qed.

(* ranges *)
Lemma range_down_neg a : a < 0 -> range_down a = [].
Proof. intros H. unfold range_down. replace (Z.to_nat (a + 1)) with 0%nat by lia. reflexivity. Qed.

Lemma range_down_step a : 0 <= a -> range_down a = a :: range_down (a - 1).
Proof.
  intros H. unfold range_down. replace (Z.to_nat (a + 1)) with (S (Z.to_nat (a - 1 + 1))) by lia.
  cbn [seq map]. f_equal; [lia|]. rewrite <- seq_shift, map_map. apply map_ext. intros k. lia.
Qed.

Lemma range_up_nil a b : b <= a -> range_up a b = [].
Proof. intros H. unfold range_up. replace (Z.to_nat (b - a)) with 0%nat by lia. reflexivity. Qed.

Lemma range_up_step a b : a < b -> range_up a b = a :: range_up (a + 1) b.
Proof.
  intros H. unfold range_up. replace (Z.to_nat (b - a)) with (S (Z.to_nat (b - (a + 1)))) by lia.
  cbn [seq map]. f_equal; [lia|]. rewrite <- seq_shift, map_map. apply map_ext. intros k. lia.
Qed.

(* _history_matches with a captured prefix *)
Definition mt (w : list str) (p : str) (i : Z) : bool :=
  match index w i with Some l => startswith l p | None => false end.

Lemma history_matches_mt s p i : hst s = Some p -> history_matches s i = mt (wl s) p i.
Proof. intros H. unfold history_matches, mt. rewrite H. reflexivity. Qed.

Lemma set_wi_wl c s i : wl (set_wi c s i) = wl s.
Proof. destruct (set_wi_frame c s i) as (A & _). exact A. Qed.

(* the backward loop: lands on the k-th match below *)
Lemma loop_down c p : forall n a s k f,
  Z.to_nat (a + 1) = n -> hst s = Some p -> 1 <= k <= cnt (mt (wl s) p) 0 (a + 1) ->
  let r := nav_loop c (range_down a) s k f in
  snd r = true /\ frame s (fst r) /\ hst (fst r) = Some p /\ 0 <= wi (fst r) <= a /\
  mt (wl s) p (wi (fst r)) = true /\ cnt (mt (wl s) p) (wi (fst r) + 1) (a + 1) = k - 1.
Proof.
  induction n; intros a s k f Hn Hh Hk.
  - rewrite cnt_nil in Hk by lia. lia.
  - assert (Ha : 0 <= a) by lia. rewrite range_down_step by exact Ha. cbn [nav_loop].
    rewrite (history_matches_mt s p a Hh).
    rewrite cnt_last in Hk by lia.
    destruct (mt (wl s) p a) eqn:Em.
    + cbn [b2z] in Hk. destruct (k - 1 =? 0) eqn:Ek.
      * cbn [fst snd]. rewrite set_wi_wi, set_wi_hst.
        split; [reflexivity|]. split; [apply set_wi_frame|]. split; [exact Hh|]. split; [lia|].
        split; [exact Em|]. rewrite cnt_nil by lia. lia.
      * destruct (IHn (a - 1) (set_wi c s a) (k - 1) true) as (R1 & R2 & R3 & R4 & R5 & R6).
        -- lia.
        -- rewrite set_wi_hst. exact Hh.
        -- rewrite set_wi_wl. replace (a - 1 + 1) with a by lia. lia.
        -- rewrite set_wi_wl in R5, R6. replace (a - 1 + 1) with a in R6 by lia.
           split; [exact R1|]. split; [eapply frame_trans; [apply set_wi_frame | exact R2]|].
           split; [exact R3|]. split; [lia|]. split; [exact R5|].
           rewrite cnt_last by lia. rewrite Em. cbn [b2z]. lia.
    + cbn [b2z] in Hk. destruct (k =? 0) eqn:Ek; [lia|].
      destruct (IHn (a - 1) s k f) as (R1 & R2 & R3 & R4 & R5 & R6).
      * lia.
      * exact Hh.
      * replace (a - 1 + 1) with a by lia. lia.
      * replace (a - 1 + 1) with a in R6 by lia.
        split; [exact R1|]. split; [exact R2|]. split; [exact R3|]. split; [lia|]. split; [exact R5|].
        rewrite cnt_last by lia. rewrite Em. cbn [b2z]. lia.
Qed.

(* the forward loop: when exactly k-1 matches lie before the matching index w,
   it lands on w *)
Lemma loop_up c p : forall n a b s k f w,
  Z.to_nat (b - a) = n -> hst s = Some p -> a <= w < b -> mt (wl s) p w = true ->
  cnt (mt (wl s) p) a w = k - 1 ->
  let r := nav_loop c (range_up a b) s k f in
  snd r = true /\ frame s (fst r) /\ hst (fst r) = Some p /\ wi (fst r) = w.
Proof.
  induction n; intros a b s k f w Hn Hh Hw Hm Hc; [lia|].
  rewrite range_up_step by lia. cbn [nav_loop].
  rewrite (history_matches_mt s p a Hh).
  destruct (Z.eq_dec a w) as [->|Hne].
  - rewrite Hm. rewrite cnt_nil in Hc by lia.
    replace (k - 1 =? 0) with true by (symmetry; apply Z.eqb_eq; lia).
    cbn [fst snd]. rewrite set_wi_wi, set_wi_hst.
    split; [reflexivity|]. split; [apply set_wi_frame|]. split; [exact Hh | reflexivity].
  - rewrite cnt_first in Hc by lia. pose proof (cnt_nonneg (mt (wl s) p) (a + 1) w) as Hnn.
    destruct (mt (wl s) p a) eqn:Em; cbn [b2z] in Hc.
    + replace (k - 1 =? 0) with false by (symmetry; apply Z.eqb_neq; lia).
      destruct (IHn (a + 1) b (set_wi c s a) (k - 1) true w) as (R1 & R2 & R3 & R4).
      * lia.
      * rewrite set_wi_hst. exact Hh.
      * lia.
      * rewrite set_wi_wl. exact Hm.
      * rewrite set_wi_wl. lia.
      * split; [exact R1|]. split; [eapply frame_trans; [apply set_wi_frame | exact R2]|]. split; assumption.
    + replace (k =? 0) with false by (symmetry; apply Z.eqb_neq; lia).
      destruct (IHn (a + 1) b s k f w) as (R1 & R2 & R3 & R4); auto; lia.
Qed.

Lemma history_backward_pos_count c s k :
  ehs s = true ->
  let p := search_prefix s in let m := mt (wl s) p in
  1 <= k <= cnt m 0 (wi s) ->
  let r := history_backward_pos c s k in
  frame s r /\ hst r = Some p /\ 0 <= wi r < wi s /\ m (wi r) = true /\ cnt m (wi r + 1) (wi s) = k - 1.
Proof.
  intros He p m Hk r. unfold r, history_backward_pos.
  pose proof (set_history_search_frame s) as F0. pose proof (set_history_search_wi s) as W0.
  pose proof (set_history_search_on s He) as H0. fold p in H0.
  set (s0 := set_history_search s) in *.
  assert (L0 : wl s0 = wl s) by (destruct F0 as (A & _); exact A).
  destruct (loop_down c p (Z.to_nat (wi s0 - 1 + 1)) (wi s0 - 1) s0 k false eq_refl H0) as (R1 & R2 & R3 & R4 & R5 & R6).
  { rewrite L0, W0. replace (wi s - 1 + 1) with (wi s) by lia. exact Hk. }
  destruct (nav_loop _ _ _ _ _) as [s1 found]; cbn [fst snd] in *. subst found.
  rewrite L0, W0 in *. replace (wi s - 1 + 1) with (wi s) in R6 by lia.
  rewrite set_cursor_wi, set_cursor_hst.
  split; [eapply frame_trans; [exact F0|]; eapply frame_trans; [exact R2 | apply set_cursor_frame]|].
  split; [exact R3|]. split; [lia|]. split; [exact R5 | exact R6].
Qed.

Lemma set_history_search_captured s p : ehs s = true -> hst s = Some p -> set_history_search s = s.
Proof. intros He Hh. unfold set_history_search. rewrite He, Hh. reflexivity. Qed.

Lemma history_forward_pos_count c s k w p :
  ehs s = true -> hst s = Some p ->
  let m := mt (wl s) p in
  wi s < w < len (wl s) -> m w = true -> cnt m (wi s + 1) w = k - 1 ->
  let r := history_forward_pos c s k in
  frame s r /\ hst r = Some p /\ wi r = w.
Proof.
  intros He Hh m Hw Hm Hc r. unfold r, history_forward_pos.
  rewrite (set_history_search_captured s p He Hh).
  destruct (loop_up c p (Z.to_nat (len (wl s) - (wi s + 1))) (wi s + 1) (len (wl s)) s k false w eq_refl Hh)
    as (R1 & R2 & R3 & R4); auto; try lia.
  destruct (nav_loop _ _ _ _ _) as [s1 found]; cbn [fst snd] in *. subst found.
  rewrite !set_cursor_wi, !set_cursor_hst.
  split; [eapply frame_trans; [exact R2|]; eapply frame_trans; apply set_cursor_frame|]. split; assumption.
Qed.

Lemma index_some {T} (l : list T) i : 0 <= i < len l -> exists x, index l i = Some x.
Proof.
  intros H. unfold index.
  destruct (i <? 0) eqn:E1; [lia|]. destruct (i <? 0) eqn:E2; [lia|].
  destruct (len l <=? i) eqn:E3; [lia|]. cbn [orb].
  destruct (nth_error l (Z.to_nat i)) eqn:En; [eauto|].
  apply nth_error_None in En. unfold len in H. lia.
Qed.

Lemma mt_shift new w p i : 0 <= i < len w -> mt (new ++ w) p (i + len new) = mt w p i.
Proof. intros H. unfold mt. rewrite index_app_shift by exact H. reflexivity. Qed.

Lemma mt_current s p : Inv s -> mt (wl s) p (wi s) = startswith (text s) p.
Proof.
  intros HI. unfold mt, text. destruct (index_some (wl s) (wi s) HI) as (x & ->). reflexivity.
Qed.

(* the count in terms of the entries: how many of the first w working lines
   start with the prefix *)
Definition nmatch (p : str) (l : list str) : Z := len (filter (fun x => startswith x p) l).

Lemma cnt_nmatch p : forall (l : list str) (n : nat),
  (n <= length l)%nat -> cnt (mt l p) 0 (Z.of_nat n) = nmatch p (firstn n l).
Proof.
  induction l as [|x l IH]; intros n Hn.
  - cbn [length] in Hn. replace n with 0%nat by lia. reflexivity.
  - destruct n as [|n]; [reflexivity|]. cbn [length] in Hn.
    rewrite cnt_first by lia. cbn [firstn]. unfold nmatch. cbn [filter].
    assert (E0 : mt (x :: l) p 0 = startswith x p) by reflexivity.
    rewrite E0.
    assert (Es : cnt (mt (x :: l) p) (0 + 1) (Z.of_nat (S n)) = cnt (mt l p) 0 (Z.of_nat n)).
    { replace (Z.of_nat (S n)) with (Z.of_nat n + 1) by lia. apply cnt_shift.
      intros i Hi. unfold mt. rewrite index_cons_shift; [reflexivity|]. unfold len. lia. }
    rewrite Es, IH by lia. unfold nmatch.
    destruct (startswith x p); cbn [b2z]; [rewrite len_cons|]; lia.
Qed.

(* the typed text always starts with the prefix captured from it *)
Lemma startswith_firstn : forall (n : nat) (t : str), startswith t (firstn n t) = true.
Proof.
  induction n; intros [|x t]; cbn [firstn startswith]; auto.
  rewrite Z.eqb_refl. cbn. apply IHn.
Qed.

Lemma startswith_before_cursor d : startswith (dtext d) (text_before_cursor d) = true.
Proof.
  unfold text_before_cursor, slice_to, slice. cbv zeta.
  destruct (_ <? _); [|destruct (dtext d); reflexivity]. cbn [skipn Z.to_nat]. apply startswith_firstn.
Qed.

Lemma prefix_self s : hst s = None -> startswith (text s) (search_prefix s) = true.
Proof. intros H. unfold search_prefix. rewrite H. apply (startswith_before_cursor (sdoc s)). Qed.

(* ---------------------------------------------------------------------- *)
Theorem back_forth_prefix c s k :
  Inv s -> ehs s = true ->
  let p := search_prefix s in
  startswith (text s) p = true ->
  1 <= k <= nmatch p (firstn (Z.to_nat (wi s)) (wl s)) ->
  let s1 := step_state c s (OBack k) in
  let s2 := step_state c s1 (OFwd k) in
  exists new1 new2,
    wl s1 = new1 ++ wl s /\ wi s1 < wi s + len new1 /\ startswith (text s1) p = true /\
    hst s1 = Some p /\
    wl s2 = new2 ++ new1 ++ wl s /\ wi s2 = wi s + len new1 + len new2 /\
    text s2 = text s /\ hst s2 = Some p /\ sto (store s2) = sto (store s) /\
    (thr (th s) = false -> new1 = [] /\ new2 = []).
Proof.
  intros HI He p Hp Hk s1 s2.
  set (m := mt (wl s) p).
  assert (Hk' : 1 <= k <= cnt m 0 (wi s)).
  { assert (E : cnt m 0 (wi s) = nmatch p (firstn (Z.to_nat (wi s)) (wl s))).
    { unfold m. rewrite <- cnt_nmatch by (unfold Inv, len in HI; lia). f_equal. unfold Inv in HI. lia. }
    rewrite E. exact Hk. }
  (* back *)
  set (s1c := history_backward c s k).
  assert (E1c : s1c = history_backward_pos c s k).
  { unfold s1c, history_backward. destruct (k =? 0) eqn:E0; [lia|]. destruct (k <? 0) eqn:E1; [lia|]. reflexivity. }
  destruct (history_backward_pos_count c s k He Hk') as (F1 & H1 & W1 & M1 & C1).
  rewrite <- E1c in F1, H1, W1, M1, C1. fold p in H1. fold m in M1, C1.
  assert (E1 : s1 = post c s1c) by (unfold s1; rewrite step_state_post; reflexivity).
  destruct (post_spec c s1c) as (A1 & B1 & Ce1 & Hh1 & _ & new1 & P1 & Q1 & _ & G1).
  rewrite <- E1 in A1, B1, Ce1, Hh1, P1, Q1, G1.
  destruct F1 as (L1 & St1 & _ & _ & Eh1 & Th1).
  assert (HI1c : Inv s1c) by (unfold s1c; apply history_backward_inv, HI).
  assert (T1 : text s1 = text s1c) by (rewrite E1; apply post_text, HI1c).
  assert (HI1 : Inv s1) by (unfold s1; apply step_inv, HI).
  assert (He1 : ehs s1 = true) by congruence.
  assert (Hs1 : hst s1 = Some p) by congruence.
  assert (WL1 : wl s1 = new1 ++ wl s) by (rewrite P1, L1; reflexivity).
  (* forward *)
  set (s2c := history_forward c s1 k).
  assert (E2c : s2c = history_forward_pos c s1 k).
  { unfold s2c, history_forward. destruct (k =? 0) eqn:E0; [lia|]. destruct (k <? 0) eqn:E1'; [lia|]. reflexivity. }
  destruct (history_forward_pos_count c s1 k (wi s + len new1) p He1 Hs1) as (F2 & H2 & W2).
  { rewrite WL1, len_app. unfold Inv in HI. lia. }
  { rewrite WL1, mt_shift by exact HI. rewrite mt_current by exact HI. exact Hp. }
  { rewrite WL1. replace (wi s1 + 1) with ((wi s1c + 1) + len new1) by lia.
    rewrite (cnt_shift _ m); [exact C1|]. intros i Hi. apply mt_shift. unfold Inv in HI. lia. }
  rewrite <- E2c in F2, H2, W2.
  assert (E2 : s2 = post c s2c) by (unfold s2; rewrite step_state_post; reflexivity).
  destruct (post_spec c s2c) as (A2 & B2 & _ & Hh2 & _ & new2 & P2 & Q2 & _ & G2).
  rewrite <- E2 in A2, B2, Hh2, P2, Q2, G2.
  destruct F2 as (L2 & St2 & _ & _ & _ & Th2).
  exists new1, new2.
  assert (WL2 : wl s2 = new2 ++ new1 ++ wl s) by (rewrite P2, L2, WL1; reflexivity).
  assert (WI2 : wi s2 = wi s + len new1 + len new2) by lia.
  split; [exact WL1|]. split; [lia|]. split.
  { rewrite T1. rewrite <- mt_current by exact HI1c. rewrite L1. exact M1. }
  split; [exact Hs1|]. split; [exact WL2|]. split; [exact WI2|]. split.
  { unfold text. rewrite WL2, WI2, app_assoc.
    replace (wi s + len new1 + len new2) with (wi s + len (new2 ++ new1)) by (rewrite len_app; lia).
    rewrite index_app_shift by exact HI. reflexivity. }
  split; [congruence|]. split; [congruence|].
  intros Ht. assert (T1' : thr (th s1c) = false) by (rewrite Th1; exact Ht).
  destruct (G1 T1') as (N1 & _). split; [exact N1|].
  assert (T2 : thr (th s2c) = false) by (rewrite Th2, B1, Th1; exact Ht).
  destruct (G2 T2) as (N2 & _). exact N2.
Qed.

(* ... in particular at the first step of a browse (nothing captured yet) *)
Corollary back_forth_prefix_fresh c s k :
  Inv s -> ehs s = true -> hst s = None ->
  let p := text_before_cursor (sdoc s) in
  1 <= k <= nmatch p (firstn (Z.to_nat (wi s)) (wl s)) ->
  let s2 := step_state c (step_state c s (OBack k)) (OFwd k) in
  text s2 = text s /\ sto (store s2) = sto (store s) /\
  exists new, wl s2 = new ++ wl s /\ wi s2 = wi s + len new /\ (thr (th s) = false -> new = []).
Proof.
  intros HI He Hh p Hk s2.
  assert (Ep : search_prefix s = p) by (unfold search_prefix; rewrite Hh; reflexivity).
  destruct (back_forth_prefix c s k HI He) as (n1 & n2 & _ & _ & _ & _ & W & I & T & _ & S & G).
  { apply prefix_self, Hh. }
  { rewrite Ep. exact Hk. }
  fold s2 in W, I, T, S. split; [exact T|]. split; [exact S|].
  exists (n2 ++ n1). rewrite len_app, <- app_assoc. split; [exact W|]. split; [lia|].
  intros Ht. destruct (G Ht) as (-> & ->). reflexivity.
Qed.
