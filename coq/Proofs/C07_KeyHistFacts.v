(* C07 - the history theorems stated over the KEY-level ghost history (one
   entry per dispatched command, no mid-dispatch states), redo after an undo
   key, and repeated presses of an undo key. *)
From Coq Require Import ZArith List Bool Lia.
From PTK Require Import Lib.Sx Lib.Py Lib.C07_Lemmas Model.C07_Undo Model.C07_Keys
  Proofs.C07_UndoFacts Proofs.C07_KeysFacts.
Import ListNotations.
Open Scope Z_scope.

(* inside a dispatch: stack entries in order among the boundary states P, redo
   entries and the current state are boundary states of P *)
Definition mid_inv (x : ust) (P : list snap) : Prop :=
  subseq (ustack x) P /\ incl (rstack x) P /\ In (here x) P.

Lemma mid_inv_undo x P : wf x -> mid_inv x P -> mid_inv (undo x) P.
Proof.
  intros Hwf (Hu & Hr & Hh). destruct (undo_spec x) as [[_ Heq]|(pre & t & pos & r & Heff)].
  - rewrite Heq. unfold mid_inv, here; cbn [utext ucur ustack rstack]. repeat split; [constructor|exact Hr|exact Hh].
  - destruct (undo_effective_result x pre t pos r Hwf Heff) as (Heq & _ & _).
    destruct Heff as (Hst & _ & _ & _). rewrite Heq.
    unfold mid_inv, here; cbn [utext ucur ustack rstack]. repeat split.
    + rewrite Hst in Hu. apply subseq_drop_prefix in Hu. eapply subseq_tail. exact Hu.
    + intros e [<-|He]; [exact Hh|apply Hr; exact He].
    + eapply subseq_In; [exact Hu|]. rewrite Hst. apply in_or_app. right. left. reflexivity.
Qed.

Lemma mid_inv_iter_undo n : forall x P, wf x -> mid_inv x P -> mid_inv (iter_op Undo n x) P.
Proof.
  induction n as [|n IH]; intros x P Hwf H; [exact H|].
  cbn [iter_op ustep]. apply IH; [apply wf_undo; exact Hwf|apply mid_inv_undo; assumption].
Qed.

Lemma mid_inv_kbody tbl s h n P :
  r_act (lookup tbl h) <> 2 -> wf (kbuf s) ->
  subseq (ustack (kbuf s)) P -> incl (rstack (kbuf s)) P ->
  mid_inv (kbody tbl s h n) (here (kbuf s) :: P).
Proof.
  intros Ha Hwf Hu Hr. unfold kbody.
  set (b := kbuf s) in *.
  set (s1 := if save_before tbl (kprev s) h then save_to_undo_stack b true else b).
  assert (H1 : mid_inv s1 (here b :: P)).
  { subst s1. destruct (save_before tbl (kprev s) h).
    - unfold mid_inv. repeat split.
      + apply save_subseq. exact Hu.
      + rewrite save_rstack. intros e [].
      + left. reflexivity.
    - unfold mid_inv. repeat split.
      + apply subseq_skip. exact Hu.
      + intros e He. right. apply Hr. exact He.
      + left. reflexivity. }
  assert (W1 : wf s1) by (subst s1; destruct (save_before tbl (kprev s) h); [apply wf_save|]; exact Hwf).
  destruct (r_act (lookup tbl h) =? 1); [apply mid_inv_iter_undo; assumption|].
  destruct (r_act (lookup tbl h) =? 2) eqn:E2; [apply Z.eqb_eq in E2; contradiction|exact H1].
Qed.

Definition khist_inv (g : kst * list snap) : Prop :=
  subseq (ustack (kbuf (fst g))) (snd g) /\ incl (rstack (kbuf (fst g))) (snd g).

Lemma khist_inv_step tbl g e :
  tbl_no_redo_handler tbl -> wf (kbuf (fst g)) -> kev_ok e -> khist_inv g -> khist_inv (kgstep tbl g e).
Proof.
  intros Hno Hwf Hok [Hu Hr]. destruct g as [s P]. cbn [fst snd] in *.
  unfold khist_inv, kgstep; cbn [fst snd].
  destruct e as [h n t c| |h n nav| |t c]; cbn [kstep kbuf].
  - destruct (mid_inv_kbody tbl s h n P (Hno h) Hwf Hu Hr) as (A & B & _). split; assumption.
  - destruct (redo_spec (kbuf s)) as [[_ Heq]|(t & pos & r & Hrs & Heq)]; rewrite Heq.
    + split; [apply subseq_skip; exact Hu|intros e He; right; apply Hr; exact He].
    + rewrite set_document_ustack, set_document_rstack. cbn [ustack rstack]. split.
      * apply save_subseq. exact Hu.
      * intros e He. right. apply Hr. rewrite Hrs. right. exact He.
  - destruct (mid_inv_kbody tbl s h n P (Hno h) Hwf Hu Hr) as (A & B & _). split; assumption.
  - split; assumption.
  - cbn [ustep ustack rstack]. split; [constructor|intros e []].
Qed.

Lemma kgrun_fst tbl evs : forall g, fst (fold_left (kgstep tbl) evs g) = krun tbl (fst g) evs.
Proof.
  induction evs as [|e evs IH]; intros g; [reflexivity|].
  cbn [fold_left krun]. rewrite IH. reflexivity.
Qed.

Lemma khist_inv_run tbl evs : forall g,
  tbl_no_redo_handler tbl -> wf (kbuf (fst g)) -> Forall kev_ok evs -> khist_inv g ->
  khist_inv (fold_left (kgstep tbl) evs g).
Proof.
  induction evs as [|e evs IH]; intros g Hno Hwf Hok H; [exact H|].
  inversion Hok; subst. cbn [fold_left]. apply IH; try assumption.
  - destruct g as [s P]. cbn [kgstep fst]. apply wf_kstep; assumption.
  - apply khist_inv_step; assumption.
Qed.

(* Over the key-level history: undo-stack entries are dispatch-boundary states
   (text and cursor) in chronological order at distinct boundaries; redo-stack
   entries are dispatch-boundary states. *)
Theorem key_stack_is_history tbl t0 c0 evs :
  tbl_no_redo_handler tbl -> 0 <= c0 <= len t0 -> Forall kev_ok evs ->
  let g := kgrun tbl (kfresh t0 c0) evs in
  subseq (ustack (kbuf (fst g))) (snd g) /\ incl (rstack (kbuf (fst g))) (snd g).
Proof.
  intros Hno Hc Hok. cbn zeta. unfold kgrun.
  apply (khist_inv_run tbl evs (kfresh t0 c0, [])); try assumption.
  - apply wf_fresh. exact Hc.
  - split; [constructor|intros e []].
Qed.

Lemma kgrun_wf tbl t0 c0 evs :
  0 <= c0 <= len t0 -> Forall kev_ok evs -> wf (kbuf (fst (kgrun tbl (kfresh t0 c0) evs))).
Proof.
  intros Hc Hok. unfold kgrun. rewrite kgrun_fst. apply wf_krun; [apply wf_fresh; exact Hc|exact Hok].
Qed.

(* One Buffer.undo() after any key session: a no-op, or it lands exactly on
   the state the buffer had when an earlier command was dispatched, and what
   is left on the stack is older than that command. *)
Theorem key_undo_lands_in_history tbl t0 c0 evs :
  tbl_no_redo_handler tbl -> 0 <= c0 <= len t0 -> Forall kev_ok evs ->
  let g := kgrun tbl (kfresh t0 c0) evs in
  let s := kbuf (fst g) in
  let past := snd g in
  (utext (undo s) = utext s /\ ucur (undo s) = ucur s /\ ustack (undo s) = [] /\
   rstack (undo s) = rstack s /\ forall e, In e (ustack s) -> fst e = utext s)
  \/
  (exists newer older,
     past = newer ++ here (undo s) :: older /\
     utext (undo s) <> utext s /\
     subseq (ustack (undo s)) older /\
     rstack (undo s) = here s :: rstack s).
Proof.
  intros Hno Hc Hok. cbn zeta. apply undo_lands_gen.
  - apply kgrun_wf; assumption.
  - apply (key_stack_is_history tbl t0 c0 evs Hno Hc Hok).
Qed.

Theorem key_undo_run_reverse_chronological tbl t0 c0 evs k :
  tbl_no_redo_handler tbl -> 0 <= c0 <= len t0 -> Forall kev_ok evs ->
  let g := kgrun tbl (kfresh t0 c0) evs in
  subseq (undo_landings (kbuf (fst g)) k) (snd g).
Proof.
  intros Hno Hc Hok. cbn zeta.
  destruct (key_stack_is_history tbl t0 c0 evs Hno Hc Hok) as [Hu _].
  eapply subseq_trans; [|exact Hu]. apply undo_landings_subseq. apply kgrun_wf; assumption.
Qed.

(* ------------------------------------------------------------------ *)
(* Pressing an undo KEY k times visits the same texts and leaves the same
   undo stack as k calls of Buffer.undo(): the Vi cursor fix-up between the
   presses changes neither. *)

Lemma undo_loop_text_stack a b st :
  utext a = utext b ->
  utext (undo_loop a st) = utext (undo_loop b st) /\ ustack (undo_loop a st) = ustack (undo_loop b st).
Proof.
  intros Ht. induction st as [|[t pos] r IH]; cbn [undo_loop].
  - cbn [utext ustack]. split; [exact Ht|reflexivity].
  - rewrite Ht. destruct (str_eqb t (utext b)); [exact IH|].
    unfold set_document. cbn [utext ucur ustack rstack ubad].
    destruct (len t <? pos); cbn [utext ustack]; split; reflexivity.
Qed.

Lemma undo_text_stack a b :
  utext a = utext b -> ustack a = ustack b ->
  utext (undo a) = utext (undo b) /\ ustack (undo a) = ustack (undo b).
Proof. intros Ht Hs. unfold undo. rewrite Hs. apply undo_loop_text_stack. exact Ht. Qed.

Theorem undo_key_presses tbl h nav k : forall s,
  r_act (lookup tbl h) = 1 -> r_cls (lookup tbl h) = 0 ->
  let s' := krun tbl s (repeat (UndoKey h 1 nav) k) in
  utext (kbuf s') = utext (iter_op Undo k (kbuf s)) /\
  ustack (kbuf s') = ustack (iter_op Undo k (kbuf s)).
Proof.
  intros s Ha Hc. cbn zeta.
  assert (G : forall j a b, utext (kbuf a) = utext b -> ustack (kbuf a) = ustack b ->
              utext (kbuf (krun tbl a (repeat (UndoKey h 1 nav) j))) = utext (iter_op Undo j b) /\
              ustack (kbuf (krun tbl a (repeat (UndoKey h 1 nav) j))) = ustack (iter_op Undo j b)).
  { clear s. induction j as [|j IH]; intros a b Ht Hs; [split; assumption|].
    cbn [repeat krun fold_left iter_op ustep].
    change (fold_left (kstep tbl) ?l ?x) with (krun tbl x l).
    apply IH.
    - rewrite (undo_key_is_n_undos tbl a h 1 nav Ha Hc). cbn [Z.to_nat Pos.to_nat Pos.iter_op Nat.add iter_op ustep set_state utext].
      apply undo_text_stack; assumption.
    - rewrite (undo_key_is_n_undos tbl a h 1 nav Ha Hc). cbn [Z.to_nat Pos.to_nat Pos.iter_op Nat.add iter_op ustep set_state ustack].
      apply undo_text_stack; assumption. }
  apply G; reflexivity.
Qed.

(* ------------------------------------------------------------------ *)
(* Redo right after an undo KEY (n >= 1 effective undos inside one dispatch,
   then the Vi cursor fix-up): n redos restore text and cursor exactly. *)

Lemma rstack_undo_grows x : (length (rstack x) <= length (rstack (undo x)))%nat.
Proof.
  destruct (undo_spec x) as [[_ Heq]|(pre & t & pos & r & (_ & _ & _ & Heq))]; rewrite Heq.
  - cbn [rstack]. lia.
  - rewrite set_document_rstack. cbn [rstack length]. lia.
Qed.

Lemma rstack_iter_undo_grows k : forall x, (length (rstack x) <= length (rstack (iter_op Undo k x)))%nat.
Proof.
  induction k as [|k IH]; intros x; [cbn; lia|].
  cbn [iter_op ustep]. pose proof (rstack_undo_grows x). pose proof (IH (undo x)). lia.
Qed.

Lemma effective_undo_pushes x : wf x -> utext (undo x) <> utext x -> rstack (undo x) <> [].
Proof.
  intros Hwf Hne. destruct (undo_spec x) as [[_ Heq]|(pre & t & pos & r & Heff)].
  - exfalso. apply Hne. rewrite Heq. reflexivity.
  - destruct (undo_effective_result x pre t pos r Hwf Heff) as (Heq & _ & _). rewrite Heq. discriminate.
Qed.

(* redo only reads the current cursor to snapshot it: two states that differ
   in the cursor alone redo to the same text, cursor and redo stack *)
Lemma redo_ignores_cursor b c :
  wf b -> rstack b <> [] -> same_view (redo (set_state b (utext b) c)) (redo b).
Proof.
  intros Hwf Hne.
  destruct (redo_spec b) as [[He _]|(t & pos & r & Hr & Heq)]; [contradiction|].
  destruct (redo_spec (set_state b (utext b) c)) as [[He _]|(t' & pos' & r' & Hr' & Heq')].
  - cbn [set_state rstack] in He. contradiction.
  - cbn [set_state rstack] in Hr'. rewrite Hr in Hr'. injection Hr' as E1 E2 E3. subst t' pos' r'.
    destruct Hwf as (_ & _ & Hrs & _). rewrite Hr in Hrs. inversion Hrs as [|? ? Hok _]; subst.
    rewrite Heq, Heq'. rewrite !set_document_ok by exact Hok. repeat split.
Qed.

Lemma krun_dredo tbl k : forall s, kbuf (krun tbl s (repeat DRedo k)) = iter_op Redo k (kbuf s).
Proof.
  induction k as [|k IH]; intros s; [reflexivity|].
  cbn [repeat krun fold_left iter_op ustep]. change (fold_left (kstep tbl) ?l ?x) with (krun tbl x l).
  rewrite IH. reflexivity.
Qed.

Theorem redo_inverts_undo_key tbl s h n nav :
  r_act (lookup tbl h) = 1 -> r_cls (lookup tbl h) = 0 ->
  wf (kbuf s) -> 1 <= n -> all_effective (kbuf s) (Z.to_nat n) ->
  let s' := krun tbl s (UndoKey h n nav :: repeat DRedo (Z.to_nat n)) in
  here (kbuf s') = here (kbuf s) /\ rstack (kbuf s') = rstack (kbuf s).
Proof.
  intros Ha Hc Hwf Hn Heff. cbn zeta.
  cbn [krun fold_left]. change (fold_left (kstep tbl) ?l ?x) with (krun tbl x l).
  rewrite krun_dredo, (undo_key_is_n_undos tbl s h n nav Ha Hc).
  destruct (Z.to_nat n) as [|m] eqn:En; [lia|].
  set (b := iter_op Undo (S m) (kbuf s)).
  assert (Hb : rstack b <> []).
  { subst b. cbn [iter_op ustep]. destruct Heff as [Hne _].
    pose proof (effective_undo_pushes (kbuf s) Hwf Hne) as Hp.
    pose proof (rstack_iter_undo_grows m (undo (kbuf s))) as Hg.
    intros E. rewrite E in Hg. destruct (rstack (undo (kbuf s))); [congruence|cbn in Hg; lia]. }
  assert (V : same_view (iter_op Redo (S m) (set_state b (utext b) (fix_vi_cursor nav b))) (iter_op Redo (S m) b)).
  { cbn [iter_op ustep]. apply iter_redo_view. apply redo_ignores_cursor; [|exact Hb].
    subst b. apply wf_iter; [exact Hwf|exact I]. }
  pose proof (redo_inverts_undo_n (S m) (kbuf s) Hwf Heff) as W. fold b in W.
  destruct V as (V1 & V2 & V3 & _). destruct W as (W1 & W2 & W3 & _).
  unfold here. split; congruence.
Qed.
