(* A TORN file under the fine-grained threaded system (Model/C13_ThreadedFine.v):
   C13_torn composed with the simulation over the file's bytes. *)
From Coq Require Import ZArith List Bool Lia.
From PTK Require Import Lib.Sx Lib.Py Model.C13_Utf8 Model.C13_HistFile Model.C13_Threaded Model.C13_ThreadedEv
  Model.C13_ThreadedFine Proofs.C13_Utf8Facts Proofs.C13_HistFileFacts Proofs.C13_ThreadedFacts
  Proofs.C13_ThreadedEvFacts Proofs.C13_ComposeFacts Proofs.C13_ThreadedFineFacts.
Import ListNotations.
Open Scope Z_scope.

(* the storage only grows, and every load() starts on an extension of it *)
Definition GG (X : list str) (gs : gstate) : Prop :=
  pre X (t_store (g_st gs)) /\
  Forall (fun c => pre X (c_start c)) (t_cons (g_st gs)) /\
  Forall (fun p => pre X (c_start (snd p))) (g_hold gs).

Lemma pre_ext (X a b : list str) : pre X a -> pre X (a ++ b).
Proof. intros [t ->]. exists (t ++ b). now rewrite app_assoc. Qed.

Lemma gstep_GG X gs l : GG X gs -> GG X (gstep gs l).
Proof.
  intros (Hs & Hc & Hh). unfold GG. destruct l as [| |i|i|s|s|s]; cbn [gstep].
  - destruct (g_loop gs) as [| |[|j r]]; cbn [g_st g_hold set_cons t_store t_cons]; auto.
    + rewrite loader_action_store. split; [exact Hs|]. split; [|exact Hh].
      unfold loader_action, tstep. destruct (t_ph (g_st gs)) as [| |[|x q]|]; cbn [t_cons]; exact Hc.
    + split; [exact Hs|]. split; [|exact Hh]. apply Forall_upd_nth; [|exact Hc]. intros c Hp. exact Hp.
  - cbn [g_st g_hold]. unfold tstep. destruct (t_ph (g_st gs)); cbn [t_store t_cons];
      (split; [exact Hs|]); (split; [|exact Hh]); apply Forall_app; (split; [exact Hc|]);
      (constructor; [|constructor]); unfold new_cons; cbn [c_start]; now apply pre_ext.
  - destruct (nth_error (t_cons (g_st gs)) i) as [c|] eqn:En; [|auto].
    destruct (held (g_hold gs) i); [auto|]. destruct (c_fin c); [auto|].
    cbn [g_st g_hold tstep t_store t_cons]. split; [exact Hs|]. split.
    + apply Forall_upd_nth; [|exact Hc]. intros c0 Hp. unfold read. destruct (c_fin c0); exact Hp.
    + constructor; [|exact Hh]. cbn [snd]. apply nth_error_In in En. rewrite Forall_forall in Hc. now apply Hc.
  - cbn [g_st g_hold]. split; [exact Hs|]. split; [exact Hc|]. unfold unhold.
    apply Forall_forall. intros p Hp. apply filter_In in Hp as [Hp _]. rewrite Forall_forall in Hh. now apply Hh.
  - cbn [g_st g_hold tstep ains t_store t_cons]. auto.
  - cbn [g_st g_hold tstep asto t_store t_cons]. split; [now apply pre_ext|auto].
  - assert (Hm : Forall (fun c => pre X (c_start c)) (map (add_start s) (t_cons (g_st gs)))).
    { apply Forall_map. eapply Forall_impl; [|exact Hc]. intros c Hp. unfold add_start.
      destruct (c_fin c); [exact Hp|]. cbn [c_start]. now apply pre_ext. }
    destruct (t_ph (g_st gs)); cbn [g_st g_hold set_store t_store t_cons]; auto; (split; [now apply pre_ext|auto]).
Qed.

Lemma grun_GG X sched : forall gs, GG X gs -> GG X (grun gs sched).
Proof.
  induction sched as [|l r IH]; intros gs H; [exact H|].
  unfold grun. cbn [fold_left]. apply IH. now apply gstep_GG.
Qed.

Section FineTorn.
  Variable ts_of : str -> bytes.
  Hypothesis ts_ok : forall s, nolf (ts_of s).

  (* nothing is stored - by anybody - before the loader has read the file *)
  Definition g_no_early_store (gs : gstate) (l : glabel) : bool :=
    match l with
    | GSto _ | GOther _ => match t_ph (g_st gs) with P0 | P2 => false | _ => true end
    | _ => true
    end.
  Fixpoint gnes_sched (gs : gstate) (sched : list glabel) : bool :=
    match sched with
    | [] => true
    | l :: r => g_no_early_store gs l && gnes_sched (gstep gs l) r
    end.

  Definition GR2 (p : bytes) (sf : gstate * bytes) : Prop :=
    match t_ph (g_st (fst sf)) with
    | P0 | P2 => snd sf = p /\ t_store (g_st (fst sf)) = rev (load_bytes p)
    | _ => exists rs, Forall valid_rec rs /\ snd sf = p ++ file_of rs
    end.

  Lemma gcstep_sim2 p gs f l :
    GR2 p (gs, f) -> glabel_valid l -> g_no_early_store gs l = true ->
    fst (gcstep ts_of (gs, f) l) = gstep gs l /\ GR2 p (gcstep ts_of (gs, f) l).
  Proof.
    unfold GR2. cbn [fst snd]. intros HR Hl Hn.
    destruct l as [| |i|i|s|s|s]; cbn [gcstep].
    - destruct (g_loop gs) as [| |[|j r]] eqn:El.
      + destruct (t_ph (g_st gs)) as [| |[|x q]|] eqn:Ep; cbn [fst snd gstep]; rewrite ?El;
          unfold loader_action, tstep; rewrite ?Ep; cbn [g_st t_ph t_store].
        * rewrite Ep. auto.
        * destruct HR as (Hf & Hs). rewrite Hf, Hs, rev_involutive. split; [reflexivity|].
          exists []. cbn. rewrite app_nil_r. auto.
        * auto.
        * auto.
        * rewrite Ep. auto.
      + split; [reflexivity|]. cbn [fst snd gstep]. rewrite El. cbn [g_st]. exact HR.
      + split; [reflexivity|]. cbn [fst snd gstep]. rewrite El. cbn [g_st]. exact HR.
      + split; [reflexivity|]. cbn [fst snd gstep]. rewrite El. cbn [g_st set_cons t_ph t_store]. exact HR.
    - split; [reflexivity|]. cbn [fst snd gstep g_st]. unfold tstep.
      destruct (t_ph (g_st gs)); cbn [t_ph t_store]; exact HR.
    - split; [reflexivity|]. cbn [fst snd gstep].
      destruct (nth_error (t_cons (g_st gs)) i); [|exact HR]. destruct (held (g_hold gs) i); [exact HR|].
      destruct (c_fin c); [exact HR|]. cbn [g_st tstep t_ph t_store]. exact HR.
    - split; [reflexivity|]. cbn [fst snd gstep g_st]. exact HR.
    - split; [reflexivity|]. cbn [fst snd gstep g_st tstep ains t_ph t_store]. exact HR.
    - split; [reflexivity|]. cbn [g_no_early_store] in Hn. cbn [fst snd gstep g_st tstep asto t_ph t_store].
      destruct (t_ph (g_st gs)); try discriminate Hn;
        (destruct HR as (rs & Hv & Hf); exists (rs ++ [(ts_of s, s)]); split;
         [apply Forall_app; split; [exact Hv|]; constructor; [|constructor]; split; [apply ts_ok|exact Hl]
         |rewrite Hf, file_of_app, file_of_single, <- app_assoc; reflexivity]).
    - split; [reflexivity|]. cbn [g_no_early_store] in Hn. cbn [fst snd gstep].
      destruct (t_ph (g_st gs)) eqn:Ep; try discriminate Hn; cbn [g_st]; rewrite Ep;
        (destruct HR as (rs & Hv & Hf); exists (rs ++ [(ts_of s, s)]); split;
         [apply Forall_app; split; [exact Hv|]; constructor; [|constructor]; split; [apply ts_ok|exact Hl]
         |rewrite Hf, file_of_app, file_of_single, <- app_assoc; reflexivity]).
  Qed.

  Lemma gcrun_sim2 p sched : forall gs f,
    GR2 p (gs, f) -> Forall glabel_valid sched -> gnes_sched gs sched = true ->
    fst (gcrun ts_of (gs, f) sched) = grun gs sched /\ GR2 p (gcrun ts_of (gs, f) sched).
  Proof.
    induction sched as [|l r IH]; intros gs f HR Hv Hn; [split; [reflexivity|exact HR]|].
    inversion Hv as [|? ? Hl Hr]; subst. cbn [gnes_sched] in Hn. apply andb_true_iff in Hn as [Hn1 Hn2].
    unfold gcrun, grun. cbn [fold_left].
    destruct (gcstep_sim2 p gs f l HR Hl Hn1) as [E HR'].
    destruct (gcstep ts_of (gs, f) l) as [gs' f'] eqn:Ec. cbn [fst] in E. subst gs'.
    apply (IH _ _ HR' Hr Hn2).
  Qed.

  (* crash, restart, load in a background thread, keep appending (this object
     and others) - over the fine system: the file is cut at ANY byte, nothing is
     stored before the loader has read it.  The byte-level run is the abstract
     run over S0 = the k completed entries + at most one damaged string, the
     file stays (torn prefix ++ complete records), and every load() that has
     ended yielded: what was appended before it started (newest first), at
     most one damaged string, the k completed entries intact and in order. *)
  Theorem g_torn rs0 p sfx sched :
    Forall valid_rec rs0 -> p ++ sfx = file_of rs0 -> Forall glabel_valid sched ->
    let S0 := rev (load_bytes p) in
    gok_sched (ginit S0) sched = true -> gnes_sched (ginit S0) sched = true ->
    exists k d, complete_in rs0 p k /\ (length d <= 1)%nat /\
      (p = file_of (firstn k rs0) -> d = []) /\
      fst (gcrun ts_of (ginit S0, p) sched) = grun (ginit S0) sched /\
      (forall i c, vis (grun (ginit S0) sched) i = Some c -> c_fin c = true ->
         exists tail, c_start c = S0 ++ tail /\ c_out c = rev tail ++ d ++ rev (firstn k (map snd rs0))).
  Proof.
    intros Hv E Hlv S0 Hok Hnes.
    destruct (torn rs0 p sfx Hv E) as (k & d & Hc & Hd & Hl & Hz).
    exists k, d. split; [exact Hc|]. split; [exact Hd|]. split; [exact Hz|].
    assert (HR0 : GR2 p (ginit S0, p)) by (unfold GR2; cbn; auto).
    destruct (gcrun_sim2 p sched _ _ HR0 Hlv Hnes) as [Esim _]. split; [exact Esim|].
    intros i c Hvis Hfin.
    destruct (g_exactly_once S0 sched i c Hok Hvis) as (Hout & _).
    assert (HG : GG S0 (grun (ginit S0) sched)).
    { apply grun_GG. split; [apply pre_refl|]. split; constructor. }
    destruct HG as (_ & Hpc & Hph).
    assert (Hpre : pre S0 (c_start c)).
    { unfold vis in Hvis. destruct (held (g_hold (grun (ginit S0) sched)) i) eqn:Eh.
      - injection Hvis as <-. apply held_in in Eh. rewrite Forall_forall in Hph. exact (Hph _ Eh).
      - apply nth_error_In in Hvis. rewrite Forall_forall in Hpc. now apply Hpc. }
    destruct Hpre as [tail Ht]. exists tail. split; [exact Ht|].
    rewrite (Hout Hfin), Ht, rev_app_distr. unfold S0. rewrite rev_involutive, Hl. reflexivity.
  Qed.

  (* ---- ... and when somebody DOES store before the loader has read the torn file ----
     (crash, restart, an entry is accepted / another instance appends, then the
     background load): the record's leading "\n" closes the torn line, so what
     the loader reads is (the new entries) ++ load_bytes (p ++ "\n"). *)
  Definition is_store (l : glabel) : bool := match l with GSto _ | GOther _ => true | _ => false end.
  Definition pre_read (gs : gstate) : bool := match t_ph (g_st gs) with P0 | P2 => true | _ => false end.
  Definition is_snapshot (gs : gstate) (l : glabel) : bool :=
    match l, g_loop gs, t_ph (g_st gs) with GL, LNone, P2 => true | _, _, _ => false end.
  (* the loader's read comes after at least one store *)
  Fixpoint gearly (b : bool) (gs : gstate) (sched : list glabel) : bool :=
    match sched with
    | [] => true
    | l :: r => (if is_snapshot gs l then b else true) && gearly (b || (is_store l && pre_read gs)) (gstep gs l) r
    end.

  Definition GR3 (p : bytes) (b : bool) (sf : gstate * bytes) : Prop :=
    let S0 := rev (load_bytes (p ++ [NL])) in
    match t_ph (g_st (fst sf)) with
    | P0 | P2 =>
        if b then exists rs, rs <> [] /\ Forall valid_rec rs /\ snd sf = p ++ file_of rs /\
                             t_store (g_st (fst sf)) = S0 ++ map snd rs
        else snd sf = p /\ t_store (g_st (fst sf)) = S0
    | _ => exists rs, Forall valid_rec rs /\ snd sf = p ++ file_of rs
    end.

  Lemma GR3_store p b (gs gs' : gstate) f s :
    GR3 p b (gs, f) -> forallb is_scalar s = true ->
    t_ph (g_st gs') = t_ph (g_st gs) -> t_store (g_st gs') = t_store (g_st gs) ++ [s] ->
    GR3 p (b || pre_read gs) (gs', f ++ store_bytes (ts_of s) s).
  Proof.
    unfold GR3, pre_read. cbn [fst snd]. intros HR Hs Ep Es. rewrite Ep.
    assert (Hvr : valid_rec (ts_of s, s)) by (split; [apply ts_ok|exact Hs]).
    destruct (t_ph (g_st gs)); rewrite ?orb_true_r, ?orb_false_r.
    1,2: destruct b;
      [destruct HR as (rs & Hne & Hv & Hf & Hst); exists (rs ++ [(ts_of s, s)]); split; [destruct rs; discriminate|];
       split; [apply Forall_app; split; [exact Hv|]; constructor; [exact Hvr|constructor]|];
       split; [rewrite Hf, file_of_app, file_of_single, <- app_assoc; reflexivity|];
       rewrite Es, Hst, map_app, <- app_assoc; reflexivity
      |destruct HR as (Hf & Hst); exists [(ts_of s, s)]; split; [discriminate|];
       split; [constructor; [exact Hvr|constructor]|]; split; [rewrite Hf, file_of_single; reflexivity|];
       rewrite Es, Hst; reflexivity].
    1,2: destruct HR as (rs & Hv & Hf); exists (rs ++ [(ts_of s, s)]); split;
      [apply Forall_app; split; [exact Hv|]; constructor; [exact Hvr|constructor]
      |rewrite Hf, file_of_app, file_of_single, <- app_assoc; reflexivity].
  Qed.

  Lemma gcstep_sim3 p b gs f l :
    GR3 p b (gs, f) -> glabel_valid l -> (if is_snapshot gs l then b else true) = true ->
    fst (gcstep ts_of (gs, f) l) = gstep gs l /\
    GR3 p (b || (is_store l && pre_read gs)) (gcstep ts_of (gs, f) l).
  Proof.
    intros HR Hl Hsn.
    assert (Hkeep : forall gs', t_ph (g_st gs') = t_ph (g_st gs) -> t_store (g_st gs') = t_store (g_st gs) ->
                    GR3 p (b || false) (gs', f)).
    { intros gs' Ep Es. rewrite orb_false_r. unfold GR3 in *. cbn [fst snd] in *. rewrite Ep, Es. exact HR. }
    destruct l as [| |i|i|s|s|s]; cbn [gcstep is_store andb].
    - destruct (g_loop gs) as [| |[|j r]] eqn:El.
      + destruct (t_ph (g_st gs)) as [| |[|x q]|] eqn:Ep; cbn [fst snd gstep]; rewrite ?El.
        * split; [reflexivity|]. apply Hkeep; cbn [g_st]; unfold loader_action; rewrite Ep; cbn [t_ph t_store]; (exact Ep || reflexivity).
        * (* the loader's read *)
          unfold is_snapshot in Hsn. rewrite El, Ep in Hsn. subst b.
          unfold GR3 in HR. cbn [fst snd] in HR. rewrite Ep in HR.
          destruct HR as (rs & Hne & Hv & Hf & Hst).
          assert (Hlb : load_bytes f = rev (t_store (g_st gs))).
          { rewrite Hf, append_after_any, Hst, rev_app_distr, rev_involutive by assumption. reflexivity. }
          rewrite Hlb. split.
          -- unfold loader_action, tstep. rewrite Ep. reflexivity.
          -- unfold GR3. cbn [fst snd g_st t_ph]. exists rs. auto.
        * split; [reflexivity|]. unfold GR3 in *. cbn [fst snd] in *. unfold loader_action. rewrite Ep in *.
          cbn [g_st t_ph]. exact HR.
        * split; [reflexivity|]. unfold GR3 in *. cbn [fst snd] in *. unfold loader_action. rewrite Ep in *.
          cbn [g_st t_ph]. exact HR.
        * split; [reflexivity|]. apply Hkeep; cbn [g_st]; unfold loader_action; rewrite Ep; cbn [t_ph t_store]; (exact Ep || reflexivity).
      + split; [reflexivity|]. cbn [gstep]. rewrite El. apply Hkeep; reflexivity.
      + split; [reflexivity|]. cbn [gstep]. rewrite El. apply Hkeep; reflexivity.
      + split; [reflexivity|]. cbn [gstep]. rewrite El. apply Hkeep; reflexivity.
    - split; [reflexivity|]. cbn [fst snd gstep]. rewrite orb_false_r.
      unfold GR3 in *. cbn [fst snd g_st] in *. unfold tstep.
      destruct (t_ph (g_st gs)); cbn [t_ph t_store]; exact HR.
    - split; [reflexivity|]. cbn [gstep].
      destruct (nth_error (t_cons (g_st gs)) i); [|apply Hkeep; reflexivity].
      destruct (held (g_hold gs) i); [apply Hkeep; reflexivity|].
      destruct (c_fin c); apply Hkeep; reflexivity.
    - split; [reflexivity|]. apply Hkeep; reflexivity.
    - split; [reflexivity|]. apply Hkeep; reflexivity.
    - split; [reflexivity|]. cbn [gstep]. apply (GR3_store p b gs _ f s HR Hl); reflexivity.
    - split; [reflexivity|]. cbn [gstep]. unfold GR3, pre_read in *. cbn [fst snd] in *.
      destruct (t_ph (g_st gs)) eqn:Ep.
      1,2: pose proof (GR3_store p b gs (mkg (set_store (g_st gs) s) (g_loop gs) (g_hold gs) (g_real gs ++ [(false, s)])) f s) as H;
        unfold GR3, pre_read in H; cbn [fst snd g_st set_store t_ph t_store] in H; rewrite Ep in H;
        cbn [g_st set_store t_ph]; rewrite Ep; apply H; auto.
      1,2: rewrite orb_false_r; cbn [g_st]; rewrite Ep;
        destruct HR as (rs & Hv & Hf); exists (rs ++ [(ts_of s, s)]); split;
        [apply Forall_app; split; [exact Hv|]; constructor; [split; [apply ts_ok|exact Hl]|constructor]
        |rewrite Hf, file_of_app, file_of_single, <- app_assoc; reflexivity].
  Qed.

  Lemma gcrun_sim3 p sched : forall b gs f,
    GR3 p b (gs, f) -> Forall glabel_valid sched -> gearly b gs sched = true ->
    fst (gcrun ts_of (gs, f) sched) = grun gs sched.
  Proof.
    induction sched as [|l r IH]; intros b gs f HR Hv Hn; [reflexivity|].
    inversion Hv as [|? ? Hl Hr]; subst. cbn [gearly] in Hn. apply andb_true_iff in Hn as [Hn1 Hn2].
    unfold gcrun, grun. cbn [fold_left].
    destruct (gcstep_sim3 p b gs f l HR Hl Hn1) as [E HR'].
    destruct (gcstep ts_of (gs, f) l) as [gs' f'] eqn:Ec. cbn [fst] in E. subst gs'.
    apply (IH _ _ _ HR' Hr Hn2).
  Qed.

  Lemma torn_nl rs p sfx :
    Forall valid_rec rs -> p ++ sfx = file_of rs ->
    exists k d, complete_in rs p k /\ (length d <= 1)%nat /\
      load_bytes (p ++ [NL]) = d ++ rev (firstn k (map snd rs)) /\
      (p = file_of (firstn k rs) -> d = []).
  Proof.
    intros H E.
    assert (Hv1 : Forall valid_rec [(@nil Z, @nil Z)]).
    { constructor; [|constructor]. split; [intros []|reflexivity]. }
    destruct (torn_then_append rs [([], [])] p sfx H Hv1 E) as (k & d & Hc & Hd & Hl & Hz).
    exists k, d. split; [exact Hc|]. split; [exact Hd|]. split; [|exact Hz].
    rewrite append_after_any in Hl by (assumption || discriminate). cbn [map rev app snd] in Hl.
    injection Hl as Hl. exact Hl.
  Qed.

  Theorem g_torn_early rs0 p sfx sched :
    Forall valid_rec rs0 -> p ++ sfx = file_of rs0 -> Forall glabel_valid sched ->
    let S0 := rev (load_bytes (p ++ [NL])) in
    gok_sched (ginit S0) sched = true -> gearly false (ginit S0) sched = true ->
    exists k d, complete_in rs0 p k /\ (length d <= 1)%nat /\
      (p = file_of (firstn k rs0) -> d = []) /\
      fst (gcrun ts_of (ginit S0, p) sched) = grun (ginit S0) sched /\
      (forall i c, vis (grun (ginit S0) sched) i = Some c -> c_fin c = true ->
         exists tail, c_start c = S0 ++ tail /\ c_out c = rev tail ++ d ++ rev (firstn k (map snd rs0))).
  Proof.
    intros Hv E Hlv S0 Hok Hear.
    destruct (torn_nl rs0 p sfx Hv E) as (k & d & Hc & Hd & Hl & Hz).
    exists k, d. split; [exact Hc|]. split; [exact Hd|]. split; [exact Hz|].
    assert (HR0 : GR3 p false (ginit S0, p)) by (unfold GR3; cbn; auto).
    split; [exact (gcrun_sim3 p sched _ _ _ HR0 Hlv Hear)|].
    intros i c Hvis Hfin.
    destruct (g_exactly_once S0 sched i c Hok Hvis) as (Hout & _).
    assert (HG : GG S0 (grun (ginit S0) sched)).
    { apply grun_GG. split; [apply pre_refl|]. split; constructor. }
    destruct HG as (_ & Hpc & Hph).
    assert (Hpre : pre S0 (c_start c)).
    { unfold vis in Hvis. destruct (held (g_hold (grun (ginit S0) sched)) i) eqn:Eh.
      - injection Hvis as <-. apply held_in in Eh. rewrite Forall_forall in Hph. exact (Hph _ Eh).
      - apply nth_error_In in Hvis. rewrite Forall_forall in Hpc. now apply Hpc. }
    destruct Hpre as [tail Ht]. exists tail. split; [exact Ht|].
    rewrite (Hout Hfin), Ht, rev_app_distr. unfold S0. rewrite rev_involutive, Hl. reflexivity.
  Qed.
End FineTorn.
