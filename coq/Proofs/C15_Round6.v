(* C15 (round 6) - completion_does_nothing is exact for start positions inside
   the text before the cursor (0 included), and what it does outside. *)
From Coq Require Import ZArith List Bool Lia.
From PTK Require Import Lib.Sx Lib.Py Model.C15_Async Proofs.C15_Base Proofs.C15_User Proofs.C15_Rebase.
Import ListNotations.
Open Scope Z_scope.

Lemma before_in_range (tb : str) (st : Z) : - len tb <= st <= 0 ->
  (if st =? 0 then tb else slice_to tb st) = firstn (Z.to_nat (len tb + st)) tb.
Proof.
  intros H. destruct (st =? 0) eqn:E.
  - apply Z.eqb_eq in E. subst st. rewrite Z.add_0_r. unfold len. rewrite Nat2Z.id. symmetry. apply firstn_all.
  - apply Z.eqb_neq in E. unfold slice_to, slice, adj_index.
    destruct (st <? 0) eqn:E1; [|lia].
    rewrite Z.max_r by lia. rewrite (Z.add_comm st).
    destruct (0 <? len tb + st) eqn:E2.
    + rewrite Z.sub_0_r. reflexivity.
    + replace (len tb + st) with 0 by lia. reflexivity.
Qed.

(* completion_does_nothing(document, completion) is True exactly when applying
   the completion leaves text and cursor as they are - for every start
   position from -len(text_before_cursor) to 0 *)
Theorem does_nothing_exact d c : wf_doc d -> - len (tbc d) <= cstart c <= 0 ->
  (does_nothing d c = true <-> apply_comp d c = (dtext d, dcur d)).
Proof.
  intros Hw Hr. unfold does_nothing, apply_comp.
  rewrite (before_in_range (tbc d) (cstart c) Hr).
  pose proof (len_nonneg (tbc d)) as Hl.
  rewrite slice_from_in_range by lia.
  set (n := Z.to_nat (len (tbc d) + cstart c)).
  pose proof (firstn_skipn n (tbc d)) as Hsplit.
  split.
  - intros H. apply str_eqb_eq in H. rewrite <- H. rewrite app_assoc, Hsplit.
    rewrite <- len_app, Hsplit. rewrite tbc_tac by exact Hw. rewrite len_tbc by exact Hw. reflexivity.
  - intros H. inversion H as [[H1 H2]]. clear H2.
    assert (H3 : firstn n (tbc d) ++ ctext c ++ tac d = firstn n (tbc d) ++ skipn n (tbc d) ++ tac d).
    { rewrite H1. rewrite app_assoc, Hsplit. symmetry. apply tbc_tac. exact Hw. }
    apply app_inv_head in H3. apply app_inv_tail in H3. rewrite H3. apply str_eqb_refl.
Qed.
