(* C03 - feed(data) with its bracketed-paste fast path and recursive re-feed
   equals feeding one character at a time ([feed_spec]); hence the result
   does not depend on how the stream is cut into reads. *)
From Coq Require Import ZArith List Bool Lia.
From PTK Require Import Lib.Sx Lib.Py Lib.C03_Str Gen.C03_AnsiSequences Model.C03_Vt100Parser
  Proofs.C03_Table Proofs.C03_Process.
Import ListNotations.
Open Scope Z_scope.

(* ---------------------------------------------------------------------- *)
(* first occurrence of a mark, incrementally *)
Section Cut.
Variable m : str.
Hypothesis m_nonempty : m <> [].

Lemma startswith_nil_l : startswith [] m = false.
Proof. destruct m; [congruence|reflexivity]. Qed.

Lemma cut_nil : cut m [] = None.
Proof. cbn [cut]. now rewrite startswith_nil_l. Qed.

Lemma ends_with_nil : ends_with m [] = false.
Proof. cbn [ends_with]. destruct m; [congruence|reflexivity]. Qed.

Lemma ends_with_cons x s : ends_with m (x :: s) = str_eqb (x :: s) m || ends_with m s.
Proof. reflexivity. Qed.

Lemma cut_at_start s : startswith s m = true -> cut m s = Some ([], skipn (length m) s).
Proof. intros H. destruct s; cbn [cut]; now rewrite H. Qed.

Lemma skipn_app_exact t : skipn (length m) (m ++ t) = t.
Proof. clear. induction m; [reflexivity|]. cbn [app length skipn]. assumption. Qed.

Lemma startswith_snoc u c :
  startswith (u ++ [c]) m = true -> startswith u m = true \/ u ++ [c] = m.
Proof.
  clear m_nonempty. revert u. induction m as [|y m' IH]; intros u H.
  - left. apply startswith_nil.
  - destruct u as [|x u'].
    + cbn [app startswith] in H. apply andb_true_iff in H. destruct H as [H1 H2].
      apply Z.eqb_eq in H1. subst. destruct m'; [now right|discriminate].
    + cbn [app startswith] in H. apply andb_true_iff in H. destruct H as [H1 H2].
      apply Z.eqb_eq in H1. subst. destruct (IH u' H2) as [A|A].
      * left. cbn [startswith]. now rewrite Z.eqb_refl.
      * right. cbn [app]. now rewrite A.
Qed.

Lemma startswith_app_len u t :
  startswith (u ++ t) m = true -> (length m <= length u)%nat -> startswith u m = true.
Proof.
  clear m_nonempty. revert u. induction m as [|y m' IH]; intros u H Hl.
  - apply startswith_nil.
  - destruct u as [|x u']; [cbn [length] in Hl; lia|].
    cbn [app startswith] in *. apply andb_true_iff in H. destruct H as [H1 H2].
    rewrite H1. cbn [andb]. apply IH; [exact H2|cbn [length] in Hl; lia].
Qed.

Lemma ends_with_len s : ends_with m s = true -> (length m <= length s)%nat.
Proof.
  induction s as [|x s IH]; intros H.
  - rewrite ends_with_nil in H. discriminate.
  - rewrite ends_with_cons in H. apply orb_true_iff in H. destruct H as [H|H].
    + apply str_eqb_eq in H. subst. lia.
    + apply IH in H. cbn [length]. lia.
Qed.

Lemma cut_cons_none x r : cut m (x :: r) = None -> startswith (x :: r) m = false /\ cut m r = None.
Proof.
  cbn [cut]. destruct (startswith (x :: r) m); [discriminate|].
  destruct (cut m r) as [[a b]|]; [discriminate|]. auto.
Qed.

(* no occurrence so far and the buffer does not end with the mark: still none *)
Lemma cut_snoc_none pb c :
  cut m pb = None -> ends_with m (pb ++ [c]) = false -> cut m (pb ++ [c]) = None.
Proof.
  induction pb as [|x r IH]; intros Hc He.
  - cbn [app] in *. rewrite ends_with_cons in He. apply orb_false_iff in He. destruct He as [He _].
    cbn [cut]. destruct (startswith [c] m) eqn:Hsw.
    + destruct (startswith_snoc [] c Hsw) as [A|A].
      * rewrite startswith_nil_l in A. discriminate.
      * cbn [app] in A. apply str_eqb_neq in He. congruence.
    + now rewrite startswith_nil_l.
  - apply cut_cons_none in Hc. destruct Hc as [Hs Hc].
    cbn [app] in He. rewrite ends_with_cons in He. apply orb_false_iff in He. destruct He as [He1 He2].
    cbn [app cut]. destruct (startswith (x :: r ++ [c]) m) eqn:Hsw.
    + destruct (startswith_snoc (x :: r) c Hsw) as [A|A]; [congruence|].
      apply str_eqb_neq in He1. cbn [app] in A. congruence.
    + now rewrite IH.
Qed.

(* the buffer now ends with the mark: that is the first occurrence *)
Lemma cut_snoc_some pb c t :
  cut m pb = None -> ends_with m (pb ++ [c]) = true ->
  cut m ((pb ++ [c]) ++ t) = Some (firstn (length (pb ++ [c]) - length m) (pb ++ [c]), t).
Proof.
  induction pb as [|x r IH]; intros Hc He.
  - cbn [app] in *. rewrite ends_with_cons, ends_with_nil, orb_false_r in He.
    apply str_eqb_eq in He. change (c :: t) with ([c] ++ t). rewrite He.
    rewrite cut_at_start by apply startswith_app.
    now rewrite Nat.sub_diag, skipn_app_exact.
  - apply cut_cons_none in Hc. destruct Hc as [Hs Hc].
    cbn [app] in He. rewrite ends_with_cons in He. apply orb_true_iff in He. destruct He as [He|He].
    + apply str_eqb_eq in He. change ((x :: r) ++ [c]) with (x :: r ++ [c]). rewrite He.
      rewrite cut_at_start by apply startswith_app.
      now rewrite Nat.sub_diag, skipn_app_exact.
    + pose proof (ends_with_len _ He) as Hl.
      specialize (IH Hc He).
      change (((x :: r) ++ [c]) ++ t) with (x :: (r ++ [c]) ++ t). cbn [cut].
      destruct (startswith (x :: (r ++ [c]) ++ t) m) eqn:Hsw.
      * exfalso. rewrite app_length in Hl. cbn [length] in Hl.
        rewrite <- app_assoc in Hsw. change (x :: r ++ [c] ++ t) with ((x :: r) ++ [c] ++ t) in Hsw.
        apply startswith_app_len in Hsw; [congruence|cbn [length]; lia].
      * rewrite IH. f_equal. f_equal.
        change (length ((x :: r) ++ [c])) with (S (length (r ++ [c]))).
        rewrite Nat.sub_succ_l by exact Hl. reflexivity.
Qed.
End Cut.

Lemma end_mark_nonempty : end_mark <> [].
Proof. discriminate. Qed.

(* ---------------------------------------------------------------------- *)
(* paste mode: the batch search equals the character-wise search *)

Lemma set_paste_buf_idem b b' st : set_paste_buf b (set_paste_buf b' st) = set_paste_buf b st.
Proof. reflexivity. Qed.
Lemma set_paste_buf_same st : set_paste_buf (paste_buf st) st = st.
Proof. destruct st; reflexivity. Qed.

Lemma paste_fold d : forall st,
  in_paste st = true -> cut end_mark (paste_buf st) = None ->
  match cut end_mark (paste_buf st ++ d) with
  | None => fold_left step_char d st = set_paste_buf (paste_buf st ++ d) st
  | Some (content, rem) =>
      exists d1, d = d1 ++ rem /\ (length rem < length d)%nat /\
                 fold_left step_char d1 st = leave_paste (push (KKey key_BracketedPaste, content) st)
  end.
Proof.
  induction d as [|c d IH]; intros st Hin Hcut.
  - rewrite app_nil_r, Hcut. cbn [fold_left]. now rewrite set_paste_buf_same.
  - destruct (ends_with end_mark (paste_buf st ++ [c])) eqn:He.
    + replace (paste_buf st ++ c :: d) with ((paste_buf st ++ [c]) ++ d) by (now rewrite <- app_assoc).
      rewrite (cut_snoc_some end_mark end_mark_nonempty _ _ d Hcut He).
      exists [c]. repeat split; [cbn [length]; lia|].
      cbn [fold_left]. unfold step_char. rewrite Hin. unfold paste_char. now rewrite He.
    + pose proof (cut_snoc_none end_mark end_mark_nonempty _ _ Hcut He) as Hn.
      set (st' := set_paste_buf (paste_buf st ++ [c]) st).
      assert (Hstep : step_char st c = st').
      { unfold step_char. rewrite Hin. unfold paste_char. now rewrite He. }
      specialize (IH st'). cbn [st' set_paste_buf in_paste paste_buf] in IH.
      specialize (IH Hin Hn). rewrite <- app_assoc in IH. cbn [app] in IH.
      destruct (cut end_mark (paste_buf st ++ c :: d)) as [[content rem]|].
      * destruct IH as (d1 & Hd & Hl & Hf). exists (c :: d1). repeat split.
        -- cbn [app]. now rewrite Hd.
        -- cbn [length]. lia.
        -- cbn [fold_left]. rewrite Hstep. exact Hf.
      * cbn [fold_left]. rewrite Hstep. exact IH.
Qed.

(* ---------------------------------------------------------------------- *)
(* the invariant carried between reads: no complete end mark in the paste buffer *)
Definition Inv0 (st : pstate) : Prop := cut end_mark (paste_buf st) = None.

Lemma Inv0_init : Inv0 init.
Proof. reflexivity. Qed.

Lemma Inv0_of_same_or_nil st st' :
  Inv0 st -> (paste_buf st' = paste_buf st \/ paste_buf st' = []) -> Inv0 st'.
Proof. unfold Inv0. intros H [E|E]; rewrite E; [exact H|reflexivity]. Qed.

Lemma Inv0_step_char st c : Inv0 st -> Inv0 (step_char st c).
Proof.
  intros H. unfold step_char. destruct (in_paste st).
  - unfold paste_char. destruct (ends_with end_mark (paste_buf st ++ [c])) eqn:He.
    + reflexivity.
    + unfold Inv0. cbn [set_paste_buf paste_buf]. now apply cut_snoc_none.
  - eapply Inv0_of_same_or_nil; [exact H|apply send_char_paste_buf].
Qed.
Lemma Inv0_feed_spec d st : Inv0 st -> Inv0 (feed_spec d st).
Proof.
  unfold feed_spec. revert st. induction d as [|c d IH]; intros st H; [exact H|].
  cbn [fold_left]. apply IH. now apply Inv0_step_char.
Qed.
Lemma Inv0_flush st : Inv0 st -> Inv0 (flush st).
Proof. intros H. eapply Inv0_of_same_or_nil; [exact H|apply flush_paste_buf]. Qed.

(* ---------------------------------------------------------------------- *)
(* feed = feed_spec when the fuel exceeds mu *)

Lemma feed_chars_spec f :
  (forall d2 st2, (mu st2 d2 < f)%nat -> Inv0 st2 -> feed_fuel f d2 st2 = feed_spec d2 st2) ->
  forall d st, Inv0 st ->
    (if in_paste st then (mu st d < f)%nat else (mu st d <= f)%nat) ->
    feed_chars (feed_fuel f) d st = feed_spec d st.
Proof.
  intros IHf. induction d as [|c r IH]; intros st HI Hmu; [reflexivity|].
  cbn [feed_chars]. destruct (in_paste st) eqn:Hin.
  - now apply IHf.
  - unfold feed_spec. cbn [fold_left]. unfold step_char at 2. rewrite Hin.
    apply IH.
    + eapply Inv0_of_same_or_nil; [exact HI|apply send_char_paste_buf].
    + assert (mu (send_char c st) r < mu st (c :: r))%nat.
      { unfold mu. cbn [length]. destruct (send_char_paste_buf c st) as [E|E]; rewrite E; cbn [length]; lia. }
      destruct (in_paste (send_char c st)); lia.
Qed.

Lemma feed_fuel_spec fuel : forall data st,
  (mu st data < fuel)%nat -> Inv0 st -> feed_fuel fuel data st = feed_spec data st.
Proof.
  induction fuel as [|f IH]; intros data st Hmu HI; [lia|].
  cbn [feed_fuel]. destruct (in_paste st) eqn:Hin.
  - pose proof (paste_fold data st Hin HI) as P.
    destruct (cut end_mark (paste_buf st ++ data)) as [[content rem]|].
    + destruct P as (d1 & Hd & Hl & Hf).
      unfold feed_spec at 1. rewrite Hd, fold_left_app, Hf.
      apply IH; [|reflexivity].
      unfold mu in *. cbn [leave_paste paste_buf length]. lia.
    + symmetry. exact P.
  - apply feed_chars_spec; [exact IH|exact HI|]. rewrite Hin. lia.
Qed.

Lemma feed_eq_spec data st : Inv0 st -> feed data st = feed_spec data st.
Proof. intros H. unfold feed. apply feed_fuel_spec; [lia|exact H]. Qed.

Lemma Inv0_feed d st : Inv0 st -> Inv0 (feed d st).
Proof. intros H. rewrite feed_eq_spec by exact H. now apply Inv0_feed_spec. Qed.

Lemma Inv0_run_ops ops : forall st, Inv0 st -> Inv0 (run_ops ops st).
Proof.
  unfold run_ops. induction ops as [|o ops IH]; intros st H; [exact H|].
  cbn [fold_left]. apply IH. destruct o; cbn [apply_op]; [now apply Inv0_feed|now apply Inv0_flush].
Qed.

(* chunk independence *)
Lemma feed_app a b st : Inv0 st -> feed (a ++ b) st = feed b (feed a st).
Proof.
  intros H. rewrite (feed_eq_spec (a ++ b)) by exact H.
  rewrite (feed_eq_spec b) by (now apply Inv0_feed).
  rewrite (feed_eq_spec a) by exact H.
  unfold feed_spec. apply fold_left_app.
Qed.

Lemma feed_chunks chunks : forall st,
  Inv0 st -> fold_left (fun s d => feed d s) chunks st = feed (concat chunks) st.
Proof.
  induction chunks as [|d chunks IH]; intros st H.
  - cbn [fold_left concat]. rewrite feed_eq_spec by exact H. reflexivity.
  - cbn [fold_left concat]. rewrite IH by (now apply Inv0_feed). now rewrite feed_app.
Qed.

(* fuel *)
Lemma step_char_oof st c : oof (step_char st c) = oof st.
Proof.
  unfold step_char. destruct (in_paste st).
  - unfold paste_char. destruct (ends_with end_mark (paste_buf st ++ [c])); reflexivity.
  - apply send_char_oof.
Qed.
Lemma feed_spec_oof d st : oof (feed_spec d st) = oof st.
Proof.
  unfold feed_spec. revert st. induction d as [|c d IH]; intros st; [reflexivity|].
  cbn [fold_left]. rewrite IH. apply step_char_oof.
Qed.
Lemma run_ops_oof ops : forall st, Inv0 st -> oof (run_ops ops st) = oof st.
Proof.
  unfold run_ops. induction ops as [|o ops IH]; intros st H; [reflexivity|].
  cbn [fold_left]. destruct o; cbn [apply_op].
  - rewrite IH by (now apply Inv0_feed). rewrite feed_eq_spec by exact H. apply feed_spec_oof.
  - rewrite IH by (now apply Inv0_flush). apply flush_oof.
Qed.
