(* C11 - the render step itself for the WIDE sub-domain without wrapping
   (source width = display width >= 1): the same conclusion as C11_render_nowrap
   (cursor registered inside the body, on the cell showing the document
   character under the cursor, column maps consistent). *)
From Coq Require Import ZArith List Bool Lia.
From PTK Require Import Lib.Sx Lib.Py Model.C11_Scroll Model.C11_CopyBody
     Proofs.C11_ScrollFacts Proofs.C11_CopyFacts Proofs.C11_ColMapFacts
     Proofs.C11_WrapFacts Proofs.C11_VarPrefixFacts Proofs.C11_Main Proofs.C11_RenderFacts
     Proofs.C11_WideFacts Proofs.C11_NoWrapWide Proofs.C11_DocFacts.
Import ListNotations.
Open Scope Z_scope.

Section RenderWide.
  Variables (g : cfg) (W Hh xpos ypos : Z) (text : str) (cursor : Z) (st : sstate).

  (* every character: source width = display width >= 1 (1 or 2 cells) *)
  Hypothesis Hwide : forall c, tab_sw g c = tab_dw g c /\ 1 <= tab_dw g c.
  Hypothesis Htab : 0 <= g_tabstop g.
  Hypothesis Hoff : 0 <= g_top g /\ 0 <= g_bottom g /\ 0 <= g_left g /\ 0 <= g_right g.
  Hypothesis HW : 1 <= Hh.

  Local Notation r_src := (r_src text).
  Local Notation r_row := (r_row text cursor).
  Local Notation r_col := (r_col text cursor).
  Local Notation r_bwid := (r_bwid g W text).

  Variable line : str.
  Hypothesis Hdoc : 0 <= r_row /\ nth_error r_src (Z.to_nat r_row) = Some line /\ 0 <= r_col <= len line.

  Lemma render_nowrap_wide_cursor :
    g_wrap g = false ->
    (* the cursor line's prefix leaves one cell of the body *)
    1 <= r_bwid - (if g_haspfx g then strw (tab_sw g) (cfg_pfx g r_row 0) else 0) ->
    exists r ucol Y X,
      render g W Hh xpos ypos text cursor st = Some r /\ r_status r = 0 /\
      r_ui r = (r_row, ucol) /\
      pl_s2d (process_line (g_bflag g) (g_before g) (g_tabstop g) TABCH1 TABCH2 r_row line) r_col = Some ucol /\
      pl_d2s (process_line (g_bflag g) (g_before g) (g_tabstop g) TABCH1 TABCH2 r_row line) ucol = r_col /\
      r_cursor r = (Y, X) /\
      ypos <= Y < ypos + Hh /\
      xpos + r_mw r <= X < xpos + r_mw r + r_bw r /\ r_bw r = r_bwid /\
      (* the cursor IS registered in rowcol_to_yx (the verdict the _refuted theorems use) *)
      rendered_cursor_ok W Hh xpos ypos r = true /\
      (* and the body cell at the cursor shows the character of the processed line there *)
      exists c rowg,
        nth_error (pl_text (process_line (g_bflag g) (g_before g) (g_tabstop g) TABCH1 TABCH2 r_row line) ++ [SP])
                  (Z.to_nat ucol) = Some c /\
        nth_error (r_grid r) (Z.to_nat (Y - ypos)) = Some rowg /\
        nth_error rowg (Z.to_nat (X - xpos - r_mw r)) = Some (tab_disp g c).
  Proof.
    intros Hwrap Hfit. destruct Hdoc as (Hr0 & Hline & Hcol).
    set (pw := if g_haspfx g then strw (tab_sw g) (cfg_pfx g r_row 0) else 0) in *.
    assert (Hpw0 : 0 <= pw).
    { unfold pw. destruct (g_haspfx g); [|lia]. apply strw_nonneg. intros c. destruct (Hwide c). lia. }
    assert (HWpos : 1 <= W).
    { unfold r_bwid, margin_width, rmargin_width in Hfit. destruct (g_margin g); destruct (g_rmargin g); lia. }
    set (P := process_line (g_bflag g) (g_before g) (g_tabstop g) TABCH1 TABCH2).
    destruct (colmap_total (g_bflag g) (g_before g) (g_tabstop g) TABCH1 TABCH2 r_row line Htab r_col ltac:(lia))
      as [ucol Hu]. fold (P r_row line) in Hu.
    pose proof (s2d_bound _ _ _ _ _ _ _ _ _ Htab Hcol Hu) as Hub. fold (P r_row line) in Hub.
    pose proof (colmap_inverse (g_bflag g) (g_before g) (g_tabstop g) TABCH1 TABCH2 r_row line Htab r_col ucol ltac:(lia) Hu) as Hinv.
    set (pls := map_i P 0 r_src).
    set (lines := map (fun p => pl_text p ++ [SP]) pls).
    assert (Hpl : nth_error pls (Z.to_nat r_row) = Some (P r_row line)).
    { unfold pls. rewrite (map_i_nth P r_src 0 _ line Hline). do 2 f_equal. lia. }
    assert (Hln : nth_error lines (Z.to_nat r_row) = Some (pl_text (P r_row line) ++ [SP])).
    { unfold lines. exact (map_nth_error (fun p => pl_text p ++ [SP]) _ _ Hpl). }
    assert (Hlen : len lines = len r_src).
    { unfold lines, pls, len. now rewrite map_length, map_i_length. }
    assert (Hrow : 0 <= r_row < len lines).
    { split; [lia|]. unfold len. pose proof (proj1 (nth_error_Some lines (Z.to_nat r_row)) ltac:(congruence)). lia. }
    assert (Hnth : nth (Z.to_nat r_row) lines [] = pl_text (P r_row line) ++ [SP]).
    { now apply nth_error_nth. }
    assert (Hcx : 0 <= ucol < len (nth (Z.to_nat r_row) lines [])).
    { rewrite Hnth, len_app. change (len [SP]) with 1. lia. }
    pose proof (nowrap_wide_cursor (tab_sw g) (tab_dw g) (tab_disp g) (g_haspfx g) (cfg_pfx g)
                  r_bwid Hh (xpos + margin_width g (len lines)) ypos (g_top g) (g_bottom g) (g_left g) (g_right g)
                  lines r_row ucol st (g_allow g)
                  (fun c => proj1 (Hwide c)) (fun c => proj2 (Hwide c))
                  HW Hoff Hrow Hcx Hfit) as HT.
    cbv zeta in HT. destruct HT as (Hy & Hx & Hget & c & Hc & Hcell).
    rewrite Hnth in Hc, Hcx.
    unfold render, render_gen.
    destruct ((W <=? 0) || (Hh <=? 0)) eqn:E0; [lia|].
    fold r_src r_row r_col. fold P. fold pls. rewrite Hpl, Hu. fold lines.
    cbv zeta. rewrite Hwrap. unfold r_bwid in *. rewrite <- Hlen in *. fold pw in Hget, Hx, Hy, Hcell |- *.
    match type of Hget with _ = Some (?a + ypos, ?b + _) => set (yy := a) in *; set (xx := b) in * end.
    rewrite Hget.
    eexists. exists ucol. eexists. eexists.
    split; [reflexivity|]. cbn [r_status r_ui r_cursor r_mw r_bw r_grid].
    split; [reflexivity|]. split; [reflexivity|]. split; [first [exact Hu | reflexivity]|]. split; [exact Hinv|]. split; [reflexivity|].
    split; [lia|]. split; [lia|]. split; [lia|]. split.
    - eapply (look_verdict _ lines r_row ucol (pl_text (P r_row line) ++ [SP])); [lia | exact Hln | exact Hcx | exact Hget | lia | lia].
    - exists c.
      match goal with |- context [scr_get (cscr ?o) _ _] =>
        destruct (grid_cell (cscr o) Hh (W - margin_width g (len lines) - rmargin_width g) xpos ypos
                    (margin_width g (len lines)) yy xx Hy ltac:(lia)) as (rowg & G1 & G2) end.
      exists rowg. split; [exact Hc|].
      replace (yy + ypos - ypos) with yy by lia.
      replace (xx + (xpos + margin_width g (len lines)) - xpos - margin_width g (len lines)) with xx by lia.
      split; [exact G1|]. rewrite G2. f_equal.
      replace (xx + xpos + margin_width g (len lines)) with (xx + (xpos + margin_width g (len lines))) by lia.
      exact Hcell.
  Qed.
End RenderWide.

Lemma render_nowrap_wide_cursor_doc : forall g W Hh xpos ypos text cursor st,
  (forall c, tab_sw g c = tab_dw g c /\ 1 <= tab_dw g c) -> 0 <= g_tabstop g ->
  0 <= g_top g /\ 0 <= g_bottom g /\ 0 <= g_left g /\ 0 <= g_right g ->
  1 <= Hh -> 0 <= cursor <= len text ->
  g_wrap g = false ->
  1 <= r_bwid g W text - (if g_haspfx g then strw (tab_sw g) (cfg_pfx g (r_row text cursor) 0) else 0) ->
  render_conclusion g W Hh xpos ypos text cursor st.
Proof.
  intros g W Hh xpos ypos text cursor st Hn Ht Ho HW Hc Hw Hfit.
  destruct (doc_cursor_addresses_line text cursor Hc) as (line & Hdoc & Hin & Hend).
  destruct (render_nowrap_wide_cursor g W Hh xpos ypos text cursor st Hn Ht Ho HW line Hdoc Hw Hfit)
    as (r & ucol & Y & X & Hr & Hs & Hui & Hu & Hd & Hcur & HY & HX & Hbw & Hok & c & rowg & Hcc & G1 & G2).
  exists line, r, ucol, Y, X, rowg.
  rewrite (processed_char_is_doc_char g text cursor line ucol c Ht (proj2 (proj2 Hdoc)) Hin Hend Hu Hcc) in G2.
  repeat split; try assumption; try apply Hdoc; try lia.
  unfold render_cursor_ok, render_cursor_ok_gen. unfold render in Hr. rewrite Hr. exact Hok.
Qed.
