(* C06 - which rows a token stream visits and writes.  [okrun b1 b2 W t ks]:
   interpreting ks from t, the cursor row never exceeds b1 after any token, and
   every token that writes cells on the cursor row (text, erase-to-end-of-line)
   is executed on a row within 0..b2.  If b1 is the last row of a bounded
   terminal, the bounded terminal never scrolls and behaves like the unbounded
   one ([trunB_eq]). *)
From Coq Require Import ZArith List Bool Lia.
From PTK Require Import Lib.Sx Lib.Py Model.C06_Terminal Model.C06_Renderer Proofs.C06_TermFacts.
Import ListNotations.
Open Scope Z_scope.

Definition is_write (k : tok) : bool :=
  match k with TText (_ :: _) _ => true | TEL => true | _ => false end.

Fixpoint okrun (b1 b2 W : Z) (t : term) (ks : list tok) : Prop :=
  match ks with
  | [] => True
  | k :: r => cy (tstep W t k) <= b1 /\ (is_write k = true -> 0 <= cy t <= b2) /\
              okrun b1 b2 W (tstep W t k) r
  end.

Lemma okrun_app : forall b1 b2 W a b t,
  okrun b1 b2 W t (a ++ b) <-> okrun b1 b2 W t a /\ okrun b1 b2 W (trun W t a) b.
Proof.
  induction a as [|k a IH]; intros b t; cbn [app okrun trun fold_left].
  - tauto.
  - rewrite IH. unfold trun. tauto.
Qed.

Lemma okrun_mono : forall b1 b2 c1 c2 W ks t,
  b1 <= c1 -> b2 <= c2 -> okrun b1 b2 W t ks -> okrun c1 c2 W t ks.
Proof.
  induction ks as [|k ks IH]; intros t H1 H2 O; cbn [okrun] in *; [exact I|].
  destruct O as (A & B & C). split; [lia|]. split; [intros E; specialize (B E); lia|]. apply IH; auto.
Qed.

Lemma okrun_final : forall b1 b2 W ks t, cy t <= b1 -> okrun b1 b2 W t ks -> cy (trun W t ks) <= b1.
Proof.
  induction ks as [|k ks IH]; intros t H O; cbn [okrun trun fold_left] in *; [exact H|].
  destruct O as (A & _ & C). apply IH; auto.
Qed.

(* tokens that never move the cursor down and write nothing on its row *)
Definition nondesc (k : tok) : Prop :=
  match k with
  | TText [] _ | TCR | TCUF _ | TCUB _ | TBS | TED | TSGR _ | TAW _ | TCV _ | THome | TRaw _ => True
  | TCUU n => 0 <= n
  | _ => False
  end.

Lemma okrun_nondesc : forall b1 b2 W ks t,
  Forall nondesc ks -> cy t <= b1 -> 0 <= b1 -> okrun b1 b2 W t ks.
Proof.
  induction ks as [|k ks IH]; intros t F H H0; cbn [okrun]; [exact I|].
  inversion F as [|? ? N F']; subst.
  assert (S : cy (tstep W t k) <= b1 /\ is_write k = false).
  { destruct k as [g w| | |n|n|n|n| | | |p|b|b| |i]; cbn [nondesc] in N; try contradiction;
      cbn [tstep cy is_write]; try (split; [lia|reflexivity]).
    - destruct g; [split; [lia|reflexivity]|contradiction].
    - unfold pn. destruct (n =? 0); split; try lia; reflexivity. }
  destruct S as (S1 & S2). split; [exact S1|]. split; [rewrite S2; discriminate|]. apply IH; auto.
Qed.

Lemma nondesc_cuf : forall n, Forall nondesc (cuf n).
Proof. intros n. unfold cuf. destruct (n =? 0); repeat constructor. Qed.
Lemma nondesc_cub : forall n, Forall nondesc (cub n).
Proof. intros n. unfold cub. destruct (n =? 0); [constructor|]. destruct (n =? 1); repeat constructor. Qed.
Lemma nondesc_cuu : forall n, 0 <= n -> Forall nondesc (cuu n).
Proof. intros n H. unfold cuu. destruct (n =? 0); repeat constructor. exact H. Qed.

Lemma okrun_crlf : forall b2 W n t b1, cy t + Z.of_nat n <= b1 -> okrun b1 b2 W t (crlf n).
Proof.
  induction n as [|n IH]; intros t b1 H; cbn [crlf okrun]; [exact I|].
  cbn [tstep cy is_write]. split; [lia|]. split; [discriminate|].
  split; [lia|]. split; [discriminate|]. apply IH. cbn [cy]. lia.
Qed.

(* text on a terminal without pending wrap stays on the cursor row *)
Lemma put_cy : forall W t g w, pend t = false -> cy (put W t g w) = cy t.
Proof.
  intros W t g w P. unfold put. rewrite P. cbn [andb].
  destruct ((w <? 1) || (2 <? w)); [reflexivity|].
  destruct ((w =? 2) && (W - 1 <=? cx t)); [reflexivity|].
  destruct (cx t + w <=? W - 1); reflexivity.
Qed.

Lemma text_cy : forall W t g w, pend t = false -> cy (tstep W t (TText g w)) = cy t.
Proof. intros W t g w P. cbn [tstep]. destruct g; [reflexivity|apply put_cy; exact P]. Qed.

(* ---- the bounded terminal ---- *)
Lemma tstepB_eq : forall B W t n k,
  cy t <= B - 1 -> cy (tstep W t k) <= B - 1 -> tstepB B W (t, n) k = (tstep W t k, n).
Proof.
  intros B W t n k H1 H2. unfold tstepB. destruct k; try reflexivity.
  - cbn [tstep cy] in H2. destruct (cy t =? B - 1) eqn:E; [apply Z.eqb_eq in E; lia|reflexivity].
  - cbn [tstep cy] in H2. destruct (cy t <=? B - 1) eqn:E; [|reflexivity].
    cbn [tstep]. rewrite Z.min_r by lia. reflexivity.
Qed.

Lemma trunB_eq : forall B W b2 ks t n,
  cy t <= B - 1 -> okrun (B - 1) b2 W t ks -> trunB B W (t, n) ks = (trun W t ks, n).
Proof.
  induction ks as [|k ks IH]; intros t n H O; cbn [okrun trunB trun fold_left] in *; [reflexivity|].
  destruct O as (A & _ & C). rewrite tstepB_eq by assumption. apply IH; auto.
Qed.
