(* C19 - what the ENCODER emits at 8-bit and 4-bit depth for an RGB colour,
   and what the decoder reads back: the lower-depth clause at the level of
   escape codes (not only of the search helpers). *)
From Coq Require Import ZArith List Bool Lia String.
From PTK Require Import Lib.Py Lib.C19_Str Gen.Whitespace Gen.C19_Palette
     Model.C19_Palette Model.C19_Xterm Model.C19_Style Model.C19_Sgr
     Proofs.C19_PaletteFacts Proofs.C19_StrFacts Proofs.C19_StyleFacts Proofs.C19_SgrFacts
     Proofs.C19_XtermFacts.
Import ListNotations.
Open Scope Z_scope.

Local Strategy 1000 [color256 color256_in scan closest_ansi closest_ansi_in get16 colors_256 xterm_256].

(* six hexadecimal digits denote three bytes *)
Lemma hex6_rgb : forall s, hex6_b s = true ->
  exists r g b, color_name_to_rgb s = Some (r, g, b) /\ in_byte r /\ in_byte g /\ in_byte b.
Proof.
  intros s H. unfold hex6_b in H. apply andb_prop in H. destruct H as [Hlen Hhex]. apply Z.eqb_eq in Hlen.
  destruct s as [|c1 [|c2 [|c3 [|c4 [|c5 [|c6 [|c7 s']]]]]]];
    try (unfold len in Hlen; cbn [List.length] in Hlen; lia).
  cbn [forallb] in Hhex.
  repeat (apply andb_prop in Hhex; let H := fresh "Hx" in destruct Hhex as [H Hhex]).
  apply is_hex_b_val in Hx, Hx0, Hx1, Hx2, Hx3, Hx4.
  destruct Hx as [v1 V1], Hx0 as [v2 V2], Hx1 as [v3 V3], Hx2 as [v4 V4], Hx3 as [v5 V5], Hx4 as [v6 V6].
  pose proof (py_int16_hex6 _ _ _ _ _ _ _ _ _ _ _ _ V1 V2 V3 V4 V5 V6) as Hint.
  destruct (hex_byte _ _ _ _ V1 V2) as [OK1 _]. destruct (hex_byte _ _ _ _ V3 V4) as [OK2 _].
  destruct (hex_byte _ _ _ _ V5 V6) as [OK3 _].
  exists (v1 * 16 + v2), (v3 * 16 + v4), (v5 * 16 + v6). unfold in_byte. unfold code_ok in *.
  split; [|repeat split; lia].
  unfold color_name_to_rgb. rewrite Hint.
  set (v := ((((v1 * 16 + v2) * 16 + v3) * 16 + v4) * 16 + v5) * 16 + v6).
  set (r := v1 * 16 + v2) in *. set (g := v3 * 16 + v4) in *. set (b := v5 * 16 + v6) in *.
  assert (Ev : v = r * 65536 + g * 256 + b) by (unfold v, r, g, b; lia).
  assert (E1 : (v / 65536) mod 256 = r).
  { replace (v / 65536) with r by (apply Z.div_unique with (g * 256 + b); lia). apply Z.mod_small. lia. }
  assert (E2 : (v / 256) mod 256 = g).
  { replace (v / 256) with (r * 256 + g) by (apply Z.div_unique with b; lia).
    symmetry. apply Z.mod_unique with r; lia. }
  assert (E3 : v mod 256 = b) by (symmetry; apply Z.mod_unique with (r * 256 + g); lia).
  rewrite E1, E2, E3. reflexivity.
Qed.

Lemma hex6_not_coded : forall (s : str) (bg : bool), hex6_b s = true ->
  is_nil s = false /\ assoc s (if bg then bg_ansi_colors else fg_ansi_colors) = None.
Proof.
  intros s bg H. destruct key_lengths_table as [KF KB].
  assert (Hl : len s = 6) by (unfold hex6_b in H; apply andb_prop in H; destruct H as [H _]; apply Z.eqb_eq; exact H).
  split; [destruct s; [discriminate | reflexivity]|].
  destruct bg; apply assoc_len_none; rewrite Hl; assumption.
Qed.

(* ---------------------------------------------------------------------- *)
(* 8 bit *)

Lemma sgr_38_5 : forall m rest s,
  sgr_loop (38 :: 5 :: m :: rest) s = sgr_loop rest (st_color (assocZ m ansi_256_hex) s).
Proof. intros. reflexivity. Qed.
Lemma sgr_48_5 : forall m rest s,
  sgr_loop (48 :: 5 :: m :: rest) s = sgr_loop rest (st_bgcolor (assocZ m ansi_256_hex) s).
Proof. intros. reflexivity. Qed.

Lemma ansi_hex_of_xterm : forall i r g b,
  nth_error xterm_256 (Z.to_nat i) = Some (r, g, b) -> 0 <= i ->
  assocZ i ansi_256_hex = Some (color_str r g b).
Proof.
  intros i r g b Hn Hi.
  assert (Hin : In (0 + Z.of_nat (Z.to_nat i), (r, g, b)) (enumerate_from 0 xterm_256))
    by (apply enumerate_In; exact Hn).
  replace (0 + Z.of_nat (Z.to_nat i)) with i in Hin by lia.
  pose proof (proj1 (forallb_forall _ _) (proj1 ansi_256_hex_is_xterm) _ Hin) as H. cbn [fst snd] in H.
  destruct (assocZ i ansi_256_hex) as [h|]; [|discriminate].
  apply str_eqb_eq in H. subst h. reflexivity.
Qed.

(* At 8-bit depth an RGB colour (six hexadecimal digits) is emitted as
   38;5;n / 48;5;n with n = color256(r, g, b), the index of a nearest xterm
   colour (>= 16, lowest index on ties), and the decoder reads "#rrggbb" of
   exactly that xterm colour. *)
Theorem encode8_nearest : forall bg fgc bgc s fa,
  hex6_b s = true ->
  exists r g b c,
    color_name_to_rgb s = Some (r, g, b) /\
    get_codes 8 fgc bgc s bg fa = ([(if bg then 48 else 38); 5; color256 r g b], fa) /\
    16 <= color256 r g b < 256 /\
    nth_error xterm_256 (Z.to_nat (color256 r g b)) = Some c /\
    (forall j cj, 16 <= j -> nth_error xterm_256 (Z.to_nat j) = Some cj -> dist r g b c <= dist r g b cj) /\
    (forall j cj, 16 <= j < color256 r g b -> nth_error xterm_256 (Z.to_nat j) = Some cj ->
                  dist r g b c < dist r g b cj) /\
    (forall rest st,
        sgr_loop ([(if bg then 48 else 38); 5; color256 r g b] ++ rest) st =
        sgr_loop rest (set_col bg (Some (let '(r2, g2, b2) := c in color_str r2 g2 b2)) st)).
Proof.
  intros bg fgc bgc s fa Hs.
  destruct (hex6_rgb s Hs) as (r & g & b & Hrgb & Hr & Hg & Hb).
  destruct (hex6_not_coded s bg Hs) as [Hnil Hassoc].
  destruct (color256_nearest_xterm r g b Hr Hg Hb) as (c & H1 & H2 & H3 & H4).
  exists r, g, b, c. split; [exact Hrgb|]. split.
  { unfold get_codes. rewrite Hnil. change (8 =? 1) with false. cbn [orb].
    destruct bg; rewrite Hassoc, Hrgb; reflexivity. }
  split; [exact H1|]. split; [exact H2|]. split; [exact H3|]. split; [exact H4|].
  intros rest st. destruct c as [[r2 g2] b2].
  pose proof (ansi_hex_of_xterm _ _ _ _ H2 ltac:(lia)) as Hd.
  destruct bg; cbn [app].
  - rewrite sgr_48_5, Hd. reflexivity.
  - rewrite sgr_38_5, Hd. reflexivity.
Qed.

(* an exact xterm colour (index >= 16) is emitted as its own index *)
Theorem encode8_fixpoint : forall bg fgc bgc s fa i r g b,
  hex6_b s = true -> color_name_to_rgb s = Some (r, g, b) ->
  16 <= i -> nth_error xterm_256 (Z.to_nat i) = Some (r, g, b) ->
  get_codes 8 fgc bgc s bg fa = ([(if bg then 48 else 38); 5; i], fa).
Proof.
  intros bg fgc bgc s fa i r g b Hs Hrgb Hi Hn.
  destruct (hex6_not_coded s bg Hs) as [Hnil Hassoc].
  unfold get_codes. rewrite Hnil. change (8 =? 1) with false. cbn [orb].
  destruct bg; rewrite Hassoc, Hrgb; change (8 =? 4) with false; change (8 =? 24) with false; cbn iota;
    rewrite (color256_xterm_fixpoint i r g b Hi Hn); reflexivity.
Qed.

(* ---------------------------------------------------------------------- *)
(* 4 bit *)

Lemma rgb_names_table :
  forallb (fun nc : str * rgb => mem_str (fst nc) ansi_color_names) ansi_colors_to_rgb = true.
Proof. vm_compute. reflexivity. Qed.

(* the codes emitted at 4-bit depth for an RGB foreground and an RGB
   background: the foreground is the nearest palette name (no exclusion); the
   background is the nearest palette name EXCLUDING the foreground's name
   whenever the two colour strings differ *)
Theorem encode4_codes : forall fs bs rf gf bf rb gb bb,
  hex6_b fs = true -> hex6_b bs = true ->
  color_name_to_rgb fs = Some (rf, gf, bf) -> color_name_to_rgb bs = Some (rb, gb, bb) ->
  let nf := closest_ansi rf gf bf [] in
  let nb := closest_ansi rb gb bb (if negb (str_eqb fs bs) then [nf] else []) in
  colors_to_code 4 fs bs = [code_of false nf; code_of true nb].
Proof.
  intros fs bs rf gf bf rb gb bb Hf Hb Ef Eb nf nb.
  destruct (hex6_not_coded fs false Hf) as [Nf Af]. destruct (hex6_not_coded bs true Hb) as [Nb Ab].
  unfold colors_to_code, get_codes. rewrite Nf, Nb. change (4 =? 1) with false. cbn [orb].
  rewrite Af, Ef. change (4 =? 4) with true. cbn iota. rewrite Ab, Eb. cbn iota.
  unfold get16. cbn [fst snd app]. reflexivity.
Qed.

(* the decoder reads the palette name back (fg and bg code tables are mutually
   inverse and disjoint) *)
Lemma decode_name_codes : forall n, mem_str n ansi_color_names = true ->
  (forall rest st, sgr_loop (code_of false n :: rest) st = sgr_loop rest (st_color (Some n) st)) /\
  (forall rest st, sgr_loop (code_of true n :: rest) st = sgr_loop rest (st_bgcolor (Some n) st)).
Proof.
  intros n Hm. apply mem_str_In in Hm.
  pose proof (proj1 (forallb_forall _ _) name_codes_table _ Hm) as Hn. unfold name_codes_ok in Hn.
  apply andb_prop in Hn. destruct Hn as [_ Hcodes].
  unfold code_of.
  destruct (assoc n fg_ansi_colors) as [f|] eqn:Ef; [|discriminate].
  destruct (assoc n bg_ansi_colors) as [b|] eqn:Eb; [|discriminate].
  apply andb_prop in Hcodes. destruct Hcodes as [_ Hinv].
  destruct (assocZ f ansi_fg_inv) as [nf|] eqn:Eif; [|discriminate].
  destruct (assocZ b ansi_fg_inv) eqn:Eibf; [discriminate|].
  destruct (assocZ b ansi_bg_inv) as [nb|] eqn:Eib; [|discriminate].
  apply andb_prop in Hinv. destruct Hinv as [X1 X2]. apply str_eqb_eq in X1, X2. subst nf nb.
  split; intros rest st; cbn [sgr_loop].
  - rewrite Eif. reflexivity.
  - rewrite Eibf, Eib. reflexivity.
Qed.

(* with at most one excluded name the chosen name is a real palette name *)
Lemma closest_is_name : forall r g b ex, in_byte r -> in_byte g -> in_byte b ->
  (List.length ex <= 1)%nat -> mem_str (closest_ansi r g b ex) ansi_color_names = true.
Proof.
  intros r g b ex Hr Hg Hb Hex.
  destruct (closest_ansi_nearest r g b ex Hr Hg Hb (candidate_exists_small_exclude r g b ex Hex))
    as (l1 & c & l2 & Ht & _).
  assert (Hin : In (closest_ansi r g b ex, c) ansi_colors_to_rgb).
  { rewrite Ht. apply in_or_app. right. left. reflexivity. }
  exact (proj1 (forallb_forall _ _) rgb_names_table _ Hin).
Qed.

(* the documented exception to "palette colours map to themselves": a
   background that IS a palette colour is moved to another name when the
   foreground (a different colour string) already took that name *)
Definition w_fg : str := Eval vm_compute in zs "FE0000".
Definition w_bg : str := Eval vm_compute in zs "ff0000".
Definition w_brightred : str := Eval vm_compute in zs "ansibrightred".
Definition w_red : str := Eval vm_compute in zs "ansired".

Theorem encode4_exclusion_witness :
  exists fs bs,
    hex6_b fs = true /\ hex6_b bs = true /\
    (exists name, In (name, (255, 0, 0)) ansi_colors_to_rgb /\ color_name_to_rgb bs = Some (255, 0, 0) /\
                  colors_to_code 4 [] bs = [code_of true name] /\
                  colors_to_code 4 fs bs = [code_of false name; code_of true w_red]).
Proof.
  exists w_fg, w_bg.
  split; [vm_compute; reflexivity|]. split; [vm_compute; reflexivity|].
  exists w_brightred.
  split; [vm_compute; tauto|]. repeat split; vm_compute; reflexivity.
Qed.
