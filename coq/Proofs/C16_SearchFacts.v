(* C16: Document.find / find_backwards meet their specification; the
   entry-by-entry scan of Buffer._search; the count loop; apply_search,
   document_for_search and the incremental-search session. *)
From Coq Require Import ZArith List Bool Lia.
From PTK Require Import Lib.Sx Lib.Py Model.Document Model.C16_Search Model.C16_SearchSpec
  Proofs.C16_MatchFacts.
Import ListNotations.
Open Scope Z_scope.

Section Facts.
Variable ceq : Z -> Z -> bool.
Notation occurs_at := (occurs_at ceq).
Notation occurs := (occurs ceq).
Notation absent := (absent ceq).

(* ---------------------------------------------------------------------- *)
(* first match from offset a *)
Lemma find_from_spec ic sub t (a : nat) : (a <= length t)%nat ->
  match find_nth ceq ic sub (skipn a t) 0 O O with
  | Some j => 0 <= j /\ occurs_at ic sub t (a + Z.to_nat j) /\
              forall o, (a <= o < a + Z.to_nat j)%nat -> ~ occurs_at ic sub t o
  | None => forall o, (a <= o)%nat -> ~ occurs_at ic sub t o
  end.
Proof.
  intros Ha. pose proof (find_first_spec ceq ic sub (skipn a t) 0) as H.
  assert (Hlen : length (skipn a t) = (length t - a)%nat) by apply skipn_length.
  destruct (find_nth ceq ic sub (skipn a t) 0 0 0) as [j|].
  - destruct H as (off & -> & Hoff & Hm & Hmin). rewrite Z.add_0_l, Nat2Z.id.
    split; [lia|]. split.
    + rewrite skipn_skipn' in Hm. apply (match_skipn_iff ceq ic) in Hm; [exact Hm|lia].
    + intros o Ho Hocc. specialize (Hmin (o - a)%nat ltac:(lia)).
      rewrite skipn_skipn' in Hmin. replace (a + (o - a))%nat with o in Hmin by lia.
      pose proof (occurs_at_bound ceq ic _ _ _ Hocc) as Hb.
      apply (match_skipn_iff ceq ic) in Hocc; [congruence|lia].
  - intros o Ho Hocc. pose proof (occurs_at_bound ceq ic _ _ _ Hocc) as Hb.
    specialize (H (o - a)%nat ltac:(lia)). rewrite skipn_skipn' in H.
    replace (a + (o - a))%nat with o in H by lia.
    apply (match_skipn_iff ceq ic) in Hocc; [congruence|lia].
Qed.

Lemma occurs_bound ic sub t q : occurs ic sub t q -> 0 <= q /\ q + len sub <= len t.
Proof.
  intros [H0 H]. apply (occurs_at_bound ceq ic) in H. unfold len. split; lia.
Qed.

(* ---------------------------------------------------------------------- *)
(* Document.find, count = 1 *)
Lemma doc_find_spec (d : doc) (sub : str) (icp ic : bool) :
  0 <= dcur d <= len (dtext d) ->
  let lo := if icp then dcur d else dcur d + 1 in
  match doc_find ceq d sub icp ic 1 with
  | Some r => lo <= dcur d + r /\ occurs ic sub (dtext d) (dcur d + r) /\
              forall q, lo <= q < dcur d + r -> ~ occurs ic sub (dtext d) q
  | None => forall q, lo <= q -> ~ occurs ic sub (dtext d) q
  end.
Proof.
  intros Hc lo. destruct d as [t c]; cbn [dcur dtext] in *. pose proof (len_nonneg sub) as Hsub.
  assert (Hta : text_after_cursor (mkdoc t c) = skipn (Z.to_nat c) t).
  { unfold text_after_cursor; cbn [dtext dcur]. apply slice_from_in_range; lia. }
  assert (Hct : (Z.to_nat c <= length t)%nat) by (unfold len in Hc; lia).
  unfold doc_find. rewrite Hta. change (1 <? 1) with false. change (Z.to_nat (1 - 1)) with O.
  destruct icp; cbv iota.
  - pose proof (find_from_spec ic sub t (Z.to_nat c) Hct) as H.
    destruct (find_nth ceq ic sub (skipn (Z.to_nat c) t) 0 0 0) as [j|].
    + destruct H as (Hj & Hocc & Hmin). subst lo. split; [lia|]. split.
      * split; [lia|]. replace (Z.to_nat (c + j)) with (Z.to_nat c + Z.to_nat j)%nat by lia. exact Hocc.
      * intros q Hq [_ Hq']. apply (Hmin (Z.to_nat q)); [lia|exact Hq'].
    + subst lo. intros q Hq [_ Hq']. apply (H (Z.to_nat q)); [lia|exact Hq'].
  - destruct (len (skipn (Z.to_nat c) t) =? 0) eqn:E0.
    + subst lo. intros q Hq Hocc. apply occurs_bound in Hocc.
      apply Z.eqb_eq in E0. rewrite len_skipn in E0. lia.
    + apply Z.eqb_neq in E0. rewrite len_skipn in E0.
      assert (Hsl : slice_from (skipn (Z.to_nat c) t) 1 = skipn (S (Z.to_nat c)) t).
      { rewrite slice_from_in_range; [|lia|rewrite len_skipn; lia].
        rewrite skipn_skipn'. f_equal. change (Z.to_nat 1) with 1%nat. lia. }
      rewrite Hsl.
      assert (Hct' : (S (Z.to_nat c) <= length t)%nat) by (unfold len in *; lia).
      pose proof (find_from_spec ic sub t (S (Z.to_nat c)) Hct') as H.
      destruct (find_nth ceq ic sub (skipn (S (Z.to_nat c)) t) 0 0 0) as [j|].
      * destruct H as (Hj & Hocc & Hmin). subst lo. split; [lia|]. split.
        -- split; [lia|].
           replace (Z.to_nat (c + (j + 1))) with (S (Z.to_nat c) + Z.to_nat j)%nat by lia. exact Hocc.
        -- intros q Hq [_ Hq']. apply (Hmin (Z.to_nat q)); [lia|exact Hq'].
      * subst lo. intros q Hq [_ Hq']. apply (H (Z.to_nat q)); [lia|exact Hq'].
Qed.

(* Document.find_backwards, count = 1: the nearest occurrence that lies wholly
   before the cursor *)
Lemma doc_find_backwards_spec (d : doc) (sub : str) (ic : bool) :
  0 <= dcur d <= len (dtext d) ->
  match doc_find_backwards ceq d sub ic 1 with
  | Some r => 0 <= dcur d + r /\ dcur d + r + len sub <= dcur d /\
              occurs ic sub (dtext d) (dcur d + r) /\
              forall q, occurs ic sub (dtext d) q -> q + len sub <= dcur d -> q <= dcur d + r
  | None => forall q, occurs ic sub (dtext d) q -> ~ q + len sub <= dcur d
  end.
Proof.
  destruct d as [t c]; cbn [dcur dtext]. intros Hc.
  assert (Htb : text_before_cursor (mkdoc t c) = firstn (Z.to_nat c) t).
  { unfold text_before_cursor; cbn [dtext dcur]. apply slice_to_in_range; lia. }
  assert (Hct : (Z.to_nat c <= length t)%nat) by (unfold len in Hc; lia).
  unfold doc_find_backwards. rewrite Htb. change (1 <? 1) with false. change (Z.to_nat (1 - 1)) with O.
  set (B := firstn (Z.to_nat c) t).
  assert (HB : length B = Z.to_nat c) by (subst B; rewrite firstn_length; lia).
  pose proof (find_from_spec ic (rev sub) (rev B) O ltac:(lia)) as H. cbn [skipn] in H.
  (* occurrences wholly before the cursor <-> occurrences of the reversed needle in rev B *)
  assert (Hto : forall q : nat, occurs_at ic sub t q -> (q + length sub <= Z.to_nat c)%nat ->
                occurs_at ic (rev sub) (rev B) (Z.to_nat c - q - length sub)).
  { intros q Hq Hqc. assert (HqB : occurs_at ic sub B q) by (apply (occurs_at_firstn ceq ic); auto).
    apply (occurs_at_rev ceq ic) in HqB. now rewrite HB in HqB. }
  destruct (find_nth ceq ic (rev sub) (rev B) 0 0 0) as [j|].
  - destruct H as (Hj & Hocc & Hmin). cbn [Nat.add] in Hocc, Hmin.
    pose proof (occurs_at_bound ceq ic _ _ _ Hocc) as Hb. rewrite !rev_length, HB in Hb.
    apply (occurs_at_rev ceq ic) in Hocc. rewrite !rev_involutive, !rev_length, HB in Hocc.
    apply (occurs_at_firstn ceq ic) in Hocc; [|exact Hct]. destruct Hocc as [Hocc Hle].
    unfold len. split; [lia|]. split; [lia|]. split.
    + split; [lia|].
      replace (Z.to_nat (c + (- j - Z.of_nat (length sub)))) with (Z.to_nat c - Z.to_nat j - length sub)%nat by lia.
      exact Hocc.
    + intros q [Hq0 Hq] Hqc. specialize (Hto (Z.to_nat q) Hq ltac:(lia)).
      destruct (Z_lt_le_dec (c + (- j - Z.of_nat (length sub))) q) as [Hlt|]; [|lia].
      exfalso. apply (Hmin (Z.to_nat c - Z.to_nat q - length sub)%nat); [lia|exact Hto].
  - intros q [Hq0 Hq] Hqc. unfold len in Hqc.
    apply (H (Z.to_nat c - Z.to_nat q - length sub)%nat); [lia|]. apply Hto; [exact Hq|lia].
Qed.


(* ---------------------------------------------------------------------- *)
(* Document.find / find_backwards with a count: the count-th match of the
   non-overlapping scan *)
Lemma doc_find_nth (d : doc) (sub : str) (icp ic : bool) (count : Z) :
  0 <= dcur d <= len (dtext d) -> 1 <= count ->
  let lo := Z.to_nat (if icp then dcur d else dcur d + 1) in
  match doc_find ceq d sub icp ic count with
  | Some r => (if icp then 0 else 1) <= r /\
              nth_match ceq ic sub (dtext d) lo (Z.to_nat (count - 1)) (Z.to_nat (dcur d + r))
  | None => forall p, ~ nth_match ceq ic sub (dtext d) lo (Z.to_nat (count - 1)) p
  end.
Proof.
  intros Hc Hcount lo. destruct d as [t c]; cbn [dcur dtext] in *.
  assert (Hta : text_after_cursor (mkdoc t c) = skipn (Z.to_nat c) t).
  { unfold text_after_cursor; cbn [dtext dcur]. apply slice_from_in_range; lia. }
  assert (Hct : (Z.to_nat c <= length t)%nat) by (unfold len in Hc; lia).
  unfold doc_find. rewrite Hta.
  destruct (count <? 1) eqn:Ec; [apply Z.ltb_lt in Ec; lia|].
  destruct icp; cbv iota.
  - pose proof (find_nth_spec ceq ic sub t (Z.to_nat (count - 1)) (Z.to_nat c) 0 Hct) as H.
    destruct (find_nth ceq ic sub (skipn (Z.to_nat c) t) 0 0 (Z.to_nat (count - 1))) as [j|].
    + destruct H as [Hj Hn]. split; [exact Hj|]. subst lo.
      replace (Z.to_nat (c + j)) with (Z.to_nat c + Z.to_nat (j - 0))%nat by lia. exact Hn.
    + exact H.
  - destruct (len (skipn (Z.to_nat c) t) =? 0) eqn:E0.
    + apply Z.eqb_eq in E0. rewrite len_skipn in E0. intros p Hp.
      destruct (nth_match_occ ceq ic _ _ _ _ _ Hp) as [Hlo Hocc].
      apply (occurs_at_bound ceq ic) in Hocc. subst lo. unfold len in *. lia.
    + apply Z.eqb_neq in E0. rewrite len_skipn in E0.
      assert (Hsl : slice_from (skipn (Z.to_nat c) t) 1 = skipn (S (Z.to_nat c)) t).
      { rewrite slice_from_in_range; [|lia|rewrite len_skipn; lia].
        rewrite skipn_skipn'. f_equal. change (Z.to_nat 1) with 1%nat. lia. }
      rewrite Hsl.
      assert (Hct' : (S (Z.to_nat c) <= length t)%nat) by (unfold len in *; lia).
      pose proof (find_nth_spec ceq ic sub t (Z.to_nat (count - 1)) (S (Z.to_nat c)) 0 Hct') as H.
      assert (Elo : lo = S (Z.to_nat c)) by (subst lo; lia). rewrite Elo.
      destruct (find_nth ceq ic sub (skipn (S (Z.to_nat c)) t) 0 0 (Z.to_nat (count - 1))) as [j|].
      * destruct H as [Hj Hn]. split; [lia|].
        replace (Z.to_nat (c + (j + 1))) with (S (Z.to_nat c) + Z.to_nat (j - 0))%nat by lia. exact Hn.
      * exact H.
Qed.

Lemma doc_find_backwards_nth (d : doc) (sub : str) (ic : bool) (count : Z) :
  0 <= dcur d <= len (dtext d) -> 1 <= count ->
  let B := firstn (Z.to_nat (dcur d)) (dtext d) in
  match doc_find_backwards ceq d sub ic count with
  | Some r => 0 <= dcur d + r /\ dcur d + r + len sub <= dcur d /\
              nth_match ceq ic (rev sub) (rev B) 0 (Z.to_nat (count - 1)) (Z.to_nat (- r - len sub)) /\
              occurs ic sub (dtext d) (dcur d + r)
  | None => forall p, ~ nth_match ceq ic (rev sub) (rev B) 0 (Z.to_nat (count - 1)) p
  end.
Proof.
  intros Hc Hcount B. destruct d as [t c]; cbn [dcur dtext] in *.
  assert (Htb : text_before_cursor (mkdoc t c) = B).
  { unfold text_before_cursor; cbn [dtext dcur]. apply slice_to_in_range; lia. }
  assert (Hct : (Z.to_nat c <= length t)%nat) by (unfold len in Hc; lia).
  assert (HB : length B = Z.to_nat c) by (subst B; rewrite firstn_length; lia).
  unfold doc_find_backwards. rewrite Htb.
  destruct (count <? 1) eqn:Ec; [apply Z.ltb_lt in Ec; lia|].
  pose proof (find_nth_spec ceq ic (rev sub) (rev B) (Z.to_nat (count - 1)) O 0 ltac:(lia)) as H.
  cbn [skipn] in H.
  destruct (find_nth ceq ic (rev sub) (rev B) 0 0 (Z.to_nat (count - 1))) as [j|]; [|exact H].
  destruct H as [Hj Hn]. cbn [Nat.add] in Hn. rewrite Z.sub_0_r in Hn.
  destruct (nth_match_occ ceq ic _ _ _ _ _ Hn) as [_ Hocc].
  pose proof (occurs_at_bound ceq ic _ _ _ Hocc) as Hb. rewrite !rev_length, HB in Hb.
  apply (occurs_at_rev ceq ic) in Hocc. rewrite !rev_involutive, !rev_length, HB in Hocc.
  apply (occurs_at_firstn ceq ic) in Hocc; [|exact Hct]. destruct Hocc as [Hocc Hle].
  unfold len. split; [lia|]. split; [lia|]. split.
  - replace (Z.to_nat (- (- j - Z.of_nat (length sub)) - Z.of_nat (length sub))) with (Z.to_nat j) by lia. exact Hn.
  - split; [lia|].
    replace (Z.to_nat (c + (- j - Z.of_nat (length sub)))) with (Z.to_nat c - Z.to_nat j - length sub)%nat by lia.
    exact Hocc.
Qed.

(* ... and in forward coordinates: the count-th match of the backward
   non-overlapping scan that starts at the cursor *)
Lemma doc_find_backwards_nth_fwd (d : doc) (sub : str) (ic : bool) (count : Z) :
  0 <= dcur d <= len (dtext d) -> 1 <= count ->
  match doc_find_backwards ceq d sub ic count with
  | Some r => 0 <= dcur d + r /\
              nth_match_back ceq ic sub (dtext d) (Z.to_nat (dcur d)) (Z.to_nat (count - 1)) (Z.to_nat (dcur d + r))
  | None => forall p, ~ nth_match_back ceq ic sub (dtext d) (Z.to_nat (dcur d)) (Z.to_nat (count - 1)) p
  end.
Proof.
  intros Hc Hcount. pose proof (doc_find_backwards_nth d sub ic count Hc Hcount) as H. cbv zeta in H.
  destruct d as [t c]; cbn [dcur dtext] in *.
  assert (Hct : (Z.to_nat c <= length t)%nat) by (unfold len in Hc; lia).
  set (B := firstn (Z.to_nat c) t) in *.
  assert (HB : length B = Z.to_nat c) by (subst B; rewrite firstn_length; lia).
  destruct (doc_find_backwards ceq (mkdoc t c) sub ic count) as [r|].
  - destruct H as (H0 & Hle & Hn & _). split; [exact H0|].
    destruct (nth_to_back ceq ic sub B _ O _ (Nat.le_0_l _) Hn) as [Hb Hback].
    rewrite HB, Nat.sub_0_r in Hback. unfold len in *.
    replace (Z.to_nat c - Z.to_nat (- r - Z.of_nat (length sub)) - length sub)%nat with (Z.to_nat (c + r)) in Hback by lia.
    apply (nth_back_firstn ceq ic sub t (Z.to_nat c) Hct _ _ _ (Nat.le_refl _)). exact Hback.
  - intros p Hp. apply (nth_back_firstn ceq ic sub t (Z.to_nat c) Hct _ _ _ (Nat.le_refl _)) in Hp.
    fold B in Hp. apply (back_to_nth ceq ic sub B) in Hp; [|lia].
    rewrite HB, Nat.sub_diag in Hp. exact (H _ Hp).
Qed.

Lemma doc_find_count_below_1 (d : doc) (sub : str) (icp ic : bool) (count : Z) :
  count < 1 -> doc_find ceq d sub icp ic count = None /\ doc_find_backwards ceq d sub ic count = None.
Proof.
  intros Hc. unfold doc_find, doc_find_backwards.
  destruct (count <? 1) eqn:E; [|apply Z.ltb_ge in E; lia].
  split; [|reflexivity]. destruct icp; [reflexivity|]. destruct (len (text_after_cursor d) =? 0); reflexivity.
Qed.

(* ---------------------------------------------------------------------- *)
(* ranges, visiting orders, first_some *)

Lemma zrange_snoc a k : zrange a (S k) = zrange a k ++ [a + Z.of_nat k].
Proof.
  revert a; induction k as [|k IH]; intros a.
  - cbn. now rewrite Z.add_0_r.
  - change (zrange a (S (S k))) with (a :: zrange (a + 1) (S k)). rewrite IH.
    cbn [zrange app]. do 3 f_equal. lia.
Qed.

Lemma zrange_down_snoc a k : zrange_down a (S k) = zrange_down a k ++ [a - Z.of_nat k].
Proof.
  revert a; induction k as [|k IH]; intros a.
  - cbn. now rewrite Z.sub_0_r.
  - change (zrange_down a (S (S k))) with (a :: zrange_down (a - 1) (S k)). rewrite IH.
    cbn [zrange_down app]. do 3 f_equal. lia.
Qed.

Lemma In_zrange x a k : In x (zrange a k) <-> a <= x < a + Z.of_nat k.
Proof.
  revert a; induction k as [|k IH]; intros a.
  - cbn. lia.
  - cbn [zrange In]. rewrite IH. lia.
Qed.

Lemma In_zrange_down x a k : In x (zrange_down a k) <-> a - Z.of_nat k < x <= a.
Proof.
  revert a; induction k as [|k IH]; intros a.
  - cbn. lia.
  - cbn [zrange_down In]. rewrite IH. lia.
Qed.

Lemma map_mod_small n l : (forall x, In x l -> 0 <= x < n) -> map (fun i => i mod n) l = l.
Proof.
  induction l as [|x l IH]; intros H; [reflexivity|]. cbn [map]. f_equal.
  - apply Z.mod_small. apply H. now left.
  - apply IH. intros y Hy. apply H. now right.
Qed.

Lemma fwd_order_eq n w : 0 <= w < n ->
  map (fun i => i mod n) (py_range (w + 1) (n + 1)) = fwd_order n w.
Proof.
  intros H. unfold py_range, fwd_order.
  replace (Z.to_nat (n + 1 - (w + 1))) with (S (Z.to_nat (n - 1 - w))) by lia.
  rewrite zrange_snoc, map_app. f_equal.
  - apply map_mod_small. intros x Hx. apply In_zrange in Hx. lia.
  - cbn [map]. f_equal. replace (w + 1 + Z.of_nat (Z.to_nat (n - 1 - w))) with n by lia.
    apply Z_mod_same_full.
Qed.

Lemma bwd_order_eq n w : 0 <= w < n ->
  map (fun i => i mod n) (py_range_down (w - 1) (-2)) = bwd_order n w.
Proof.
  intros H. unfold py_range_down, bwd_order.
  replace (Z.to_nat (w - 1 - -2)) with (S (Z.to_nat w)) by lia.
  rewrite zrange_down_snoc, map_app. f_equal.
  - apply map_mod_small. intros x Hx. apply In_zrange_down in Hx. lia.
  - cbn [map]. f_equal. replace (w - 1 - Z.of_nat (Z.to_nat w)) with (-1) by lia.
    replace (-1) with (n - 1 + (-1) * n) by lia. rewrite Z.mod_add by lia. apply Z.mod_small. lia.
Qed.

Lemma In_fwd_order n w e : 0 <= w < n -> (In e (fwd_order n w) <-> w < e < n \/ e = 0).
Proof.
  intros H. unfold fwd_order. rewrite in_app_iff, In_zrange. cbn [In]. lia.
Qed.

Lemma In_bwd_order n w e : 0 <= w < n -> (In e (bwd_order n w) <-> 0 <= e < w \/ e = n - 1).
Proof.
  intros H. unfold bwd_order. rewrite in_app_iff, In_zrange_down. cbn [In]. lia.
Qed.

Lemma first_some_map {T U V} (f : T -> U) (g : U -> option V) l :
  first_some (fun x => g (f x)) l = first_some g (map f l).
Proof. induction l as [|x l IH]; [reflexivity|]. cbn [first_some map]. now rewrite IH. Qed.

Lemma first_some_spec {T U} (g : T -> option U) l :
  match first_some g l with
  | Some y => exists l1 x l2, l = l1 ++ x :: l2 /\ g x = Some y /\ forall x', In x' l1 -> g x' = None
  | None => forall x, In x l -> g x = None
  end.
Proof.
  induction l as [|x l IH]; [intros x []|]. cbn [first_some]. destruct (g x) as [y|] eqn:E.
  - exists [], x, l. split; [reflexivity|]. split; [exact E|]. intros x' [].
  - destruct (first_some g l) as [y|].
    + destruct IH as (l1 & x0 & l2 & -> & Hg & Hn). exists (x :: l1), x0, l2.
      split; [reflexivity|]. split; [exact Hg|]. intros x' [<-|Hx]; auto.
    + intros x' [<-|Hx]; auto.
Qed.

(* ---------------------------------------------------------------------- *)
(* search_once *)

Definition SInv (l : list str) (w : Z) (d : doc) : Prop :=
  0 <= w < len l /\ dtext d = entry l w /\ 0 <= dcur d <= len (dtext d).

Lemma search_once_fwd l st (icp : bool) w d :
  SInv l w d -> sdir st = 0 ->
  let lo := if icp then dcur d else dcur d + 1 in
  match search_once ceq l st icp w d with
  | Some (w', d') =>
      SInv l w' d' /\ occurs (sic st) (stext st) (entry l w') (dcur d') /\
      ((w' = w /\ lo <= dcur d' /\
        forall q, lo <= q < dcur d' -> ~ occurs (sic st) (stext st) (entry l w) q)
       \/
       ((forall q, lo <= q -> ~ occurs (sic st) (stext st) (entry l w) q) /\
        (exists before after, fwd_order (len l) w = before ++ w' :: after /\
           forall e, In e before -> absent (sic st) (stext st) (entry l e)) /\
        (forall q, q < dcur d' -> ~ occurs (sic st) (stext st) (entry l w') q)))
  | None =>
      (forall q, lo <= q -> ~ occurs (sic st) (stext st) (entry l w) q) /\
      forall e, In e (fwd_order (len l) w) -> absent (sic st) (stext st) (entry l e)
  end.
Proof.
  intros (Hw & Ht & Hc) Hdir lo. unfold search_once. rewrite Hdir. change (0 =? 0) with true. cbv iota.
  pose proof (doc_find_spec d (stext st) icp (sic st) Hc) as H. cbv zeta in H. fold lo in H.
  destruct (doc_find ceq d (stext st) icp (sic st) 1) as [r|].
  - destruct H as (Hlo & Hocc & Hmin). rewrite Ht in Hocc, Hmin. cbn [dcur dtext].
    pose proof (occurs_bound _ _ _ _ Hocc) as Hb. pose proof (len_nonneg (stext st)) as Hn.
    split; [|split; [exact Hocc|left; auto]].
    split; [exact Hw|]. cbn [dtext dcur]. split; [exact Ht|]. rewrite Ht. lia.
  - rewrite Ht in H.
    set (G := fun i => match doc_find ceq (mkdoc (entry l i) 0) (stext st) true (sic st) 1 with
                       | Some r => Some (i, mkdoc (entry l i) r) | None => None end).
    change (first_some _ (py_range (w + 1) (len l + 1)))
      with (first_some (fun i0 => G (i0 mod len l)) (py_range (w + 1) (len l + 1))).
    rewrite first_some_map, (fwd_order_eq _ _ Hw).
    pose proof (first_some_spec G (fwd_order (len l) w)) as HF.
    assert (HG : forall e,
      match G e with
      | Some (e', d') => e' = e /\ dtext d' = entry l e /\ occurs (sic st) (stext st) (entry l e) (dcur d') /\
                         forall q, q < dcur d' -> ~ occurs (sic st) (stext st) (entry l e) q
      | None => absent (sic st) (stext st) (entry l e)
      end).
    { intros e. unfold G.
      pose proof (doc_find_spec (mkdoc (entry l e) 0) (stext st) true (sic st)) as He.
      cbn [dcur dtext] in He. specialize (He (conj (Z.le_refl 0) (len_nonneg _))). cbv zeta iota in He.
      destruct (doc_find ceq (mkdoc (entry l e) 0) (stext st) true (sic st) 1) as [r|].
      - destruct He as (Hr & Hocc & Hmin). rewrite Z.add_0_l in *. cbn [dcur dtext].
        split; [reflexivity|]. split; [reflexivity|]. split; [exact Hocc|].
        intros q Hq Hoc. destruct (Z_lt_le_dec q 0) as [Hneg|Hpos].
        + destruct Hoc as [Hoc _]. lia.
        + apply (Hmin q); [lia|exact Hoc].
      - intros q Hoc. destruct (Z_lt_le_dec q 0) as [Hneg|Hpos].
        + destruct Hoc as [Hoc _]. lia.
        + apply (He q); [lia|exact Hoc]. }
    destruct (first_some G (fwd_order (len l) w)) as [[w' d']|].
    + destruct HF as (l1 & x & l2 & Hord & Hgx & Hnone).
      pose proof (HG x) as Hx. rewrite Hgx in Hx. destruct Hx as (-> & Htd & Hocc & Hmin).
      assert (Hin : In x (fwd_order (len l) w)) by (rewrite Hord; apply in_or_app; right; now left).
      apply (In_fwd_order _ _ _ Hw) in Hin.
      pose proof (occurs_bound _ _ _ _ Hocc) as Hb. pose proof (len_nonneg (stext st)) as Hn.
      split; [|split; [exact Hocc|right]].
      * split; [lia|]. split; [exact Htd|]. rewrite Htd. lia.
      * split; [exact H|]. split; [|exact Hmin].
        exists l1, l2. split; [exact Hord|]. intros e He. specialize (Hnone e He).
        pose proof (HG e) as Hge. now rewrite Hnone in Hge.
    + split; [exact H|]. intros e He. specialize (HF e He). pose proof (HG e) as Hge. now rewrite HF in Hge.
Qed.

Lemma search_once_bwd l st (icp : bool) w d :
  SInv l w d -> sdir st <> 0 ->
  match search_once ceq l st icp w d with
  | Some (w', d') =>
      SInv l w' d' /\ occurs (sic st) (stext st) (entry l w') (dcur d') /\
      ((w' = w /\ dcur d' + len (stext st) <= dcur d /\
        forall q, occurs (sic st) (stext st) (entry l w) q -> q + len (stext st) <= dcur d -> q <= dcur d')
       \/
       ((forall q, occurs (sic st) (stext st) (entry l w) q -> ~ q + len (stext st) <= dcur d) /\
        (exists before after, bwd_order (len l) w = before ++ w' :: after /\
           forall e, In e before -> absent (sic st) (stext st) (entry l e)) /\
        (forall q, occurs (sic st) (stext st) (entry l w') q -> q <= dcur d')))
  | None =>
      (forall q, occurs (sic st) (stext st) (entry l w) q -> ~ q + len (stext st) <= dcur d) /\
      forall e, In e (bwd_order (len l) w) -> absent (sic st) (stext st) (entry l e)
  end.
Proof.
  intros (Hw & Ht & Hc) Hdir. unfold search_once.
  destruct (sdir st =? 0) eqn:Ed; [apply Z.eqb_eq in Ed; contradiction|].
  pose proof (doc_find_backwards_spec d (stext st) (sic st) Hc) as H.
  destruct (doc_find_backwards ceq d (stext st) (sic st) 1) as [r|].
  - destruct H as (H0 & Hle & Hocc & Hmax). rewrite Ht in Hocc, Hmax. cbn [dcur dtext].
    pose proof (occurs_bound _ _ _ _ Hocc) as Hb. pose proof (len_nonneg (stext st)) as Hn.
    split; [|split; [exact Hocc|left; auto]].
    split; [exact Hw|]. cbn [dtext dcur]. split; [exact Ht|]. rewrite Ht. lia.
  - rewrite Ht in H.
    set (G := fun i => match doc_find_backwards ceq (mkdoc (entry l i) (len (entry l i))) (stext st) (sic st) 1 with
                       | Some r => Some (i, mkdoc (entry l i) (len (entry l i) + r)) | None => None end).
    change (first_some _ (py_range_down (w - 1) (-2)))
      with (first_some (fun i0 => G (i0 mod len l)) (py_range_down (w - 1) (-2))).
    rewrite first_some_map, (bwd_order_eq _ _ Hw).
    pose proof (first_some_spec G (bwd_order (len l) w)) as HF.
    assert (HG : forall e,
      match G e with
      | Some (e', d') => e' = e /\ dtext d' = entry l e /\ occurs (sic st) (stext st) (entry l e) (dcur d') /\
                         forall q, occurs (sic st) (stext st) (entry l e) q -> q <= dcur d'
      | None => absent (sic st) (stext st) (entry l e)
      end).
    { intros e. unfold G.
      pose proof (doc_find_backwards_spec (mkdoc (entry l e) (len (entry l e))) (stext st) (sic st)) as He.
      cbn [dcur dtext] in He. specialize (He (conj (len_nonneg _) (Z.le_refl _))).
      destruct (doc_find_backwards ceq (mkdoc (entry l e) (len (entry l e))) (stext st) (sic st) 1) as [r|].
      - destruct He as (Hr & Hle & Hocc & Hmax). cbn [dcur dtext].
        split; [reflexivity|]. split; [reflexivity|]. split; [exact Hocc|].
        intros q Hoc. apply Hmax; [exact Hoc|].
        apply occurs_bound in Hoc. lia.
      - intros q Hoc. apply (He q Hoc). apply occurs_bound in Hoc. lia. }
    destruct (first_some G (bwd_order (len l) w)) as [[w' d']|].
    + destruct HF as (l1 & x & l2 & Hord & Hgx & Hnone).
      pose proof (HG x) as Hx. rewrite Hgx in Hx. destruct Hx as (-> & Htd & Hocc & Hmax).
      assert (Hin : In x (bwd_order (len l) w)) by (rewrite Hord; apply in_or_app; right; now left).
      apply (In_bwd_order _ _ _ Hw) in Hin.
      pose proof (occurs_bound _ _ _ _ Hocc) as Hb. pose proof (len_nonneg (stext st)) as Hn.
      split; [|split; [exact Hocc|right]].
      * split; [lia|]. split; [exact Htd|]. rewrite Htd. lia.
      * split; [exact H|]. split; [|exact Hmax].
        exists l1, l2. split; [exact Hord|]. intros e He. specialize (Hnone e He).
        pose proof (HG e) as Hge. now rewrite Hnone in Hge.
    + split; [exact H|]. intros e He. specialize (HF e He). pose proof (HG e) as Hge. now rewrite HF in Hge.
Qed.

Lemma search_once_real l st icp w d w' d' :
  SInv l w d -> search_once ceq l st icp w d = Some (w', d') ->
  SInv l w' d' /\ occurs (sic st) (stext st) (entry l w') (dcur d').
Proof.
  intros HI E. destruct (Z.eq_dec (sdir st) 0) as [Hd|Hd].
  - pose proof (search_once_fwd l st icp w d HI Hd) as H. cbv zeta in H. rewrite E in H.
    destruct H as (H1 & H2 & _). now split.
  - pose proof (search_once_bwd l st icp w d HI Hd) as H. rewrite E in H.
    destruct H as (H1 & H2 & _). now split.
Qed.

(* ---------------------------------------------------------------------- *)
(* the count loop *)

Lemma search_iter_real l st icp k : forall w d,
  SInv l w d ->
  match search_iter ceq l st icp k w d with
  | Some (w', d') => SInv l w' d' /\ (k <> O -> occurs (sic st) (stext st) (entry l w') (dcur d'))
  | None => True
  end.
Proof.
  induction k as [|k IH]; intros w d HI.
  - cbn [search_iter]. split; [exact HI|congruence].
  - cbn [search_iter]. destruct (search_once ceq l st icp w d) as [[w1 d1]|] eqn:E; [|exact I].
    destruct (search_once_real _ _ _ _ _ _ _ HI E) as [HI1 Hocc1].
    specialize (IH w1 d1 HI1). destruct k as [|k].
    + cbn [search_iter] in *. split; [exact HI1|intros _; exact Hocc1].
    + destruct (search_iter ceq l st icp (S k) w1 d1) as [[w2 d2]|]; [|exact I].
      destruct IH as [HI2 Hocc2]. split; [exact HI2|intros _; apply Hocc2; congruence].
Qed.

Lemma search_iter_add l st icp a b : forall w d,
  search_iter ceq l st icp (a + b) w d =
  match search_iter ceq l st icp a w d with
  | Some (w', d') => search_iter ceq l st icp b w' d'
  | None => None
  end.
Proof.
  induction a as [|a IH]; intros w d; [reflexivity|].
  cbn [Nat.add search_iter]. destruct (search_once ceq l st icp w d) as [[w1 d1]|]; [apply IH|reflexivity].
Qed.

Lemma Inv_SInv b : Inv b -> SInv (wl b) (wi b) (bdoc b).
Proof. intros [H1 H2]. unfold SInv, bdoc; cbn [dtext dcur]. auto. Qed.

Lemma search_real b st icp count w c :
  Inv b -> search ceq b st icp count = SFound w c ->
  Inv (moved b w c) /\ occurs (sic st) (stext st) (entry (wl b) w) c.
Proof.
  intros HI. unfold search. destruct (count <? 1) eqn:Ec; [discriminate|].
  pose proof (search_iter_real (wl b) st icp (Z.to_nat count) _ _ (Inv_SInv _ HI)) as H.
  destruct (search_iter ceq (wl b) st icp (Z.to_nat count) (wi b) (bdoc b)) as [[w' d']|]; [|discriminate].
  intros E; injection E as -> <-. destruct H as [(Hw & Ht & Hc) Hocc].
  split.
  - unfold Inv, moved; cbn [wl wi cur]. rewrite <- Ht. auto.
  - apply Hocc. apply Z.ltb_ge in Ec. lia.
Qed.

Lemma search_count b st icp k1 k2 :
  Inv b -> 0 < k1 -> 0 < k2 ->
  search ceq b st icp (k1 + k2) =
  match search ceq b st icp k1 with
  | SFound w c => search ceq (moved b w c) st icp k2
  | r => r
  end.
Proof.
  intros HI H1 H2. unfold search.
  destruct (k1 + k2 <? 1) eqn:E12; [apply Z.ltb_lt in E12; lia|].
  destruct (k1 <? 1) eqn:E1; [apply Z.ltb_lt in E1; lia|].
  destruct (k2 <? 1) eqn:E2; [apply Z.ltb_lt in E2; lia|].
  replace (Z.to_nat (k1 + k2)) with (Z.to_nat k1 + Z.to_nat k2)%nat by lia.
  rewrite search_iter_add.
  pose proof (search_iter_real (wl b) st icp (Z.to_nat k1) _ _ (Inv_SInv _ HI)) as H.
  destruct (search_iter ceq (wl b) st icp (Z.to_nat k1) (wi b) (bdoc b)) as [[w' d']|]; [|reflexivity].
  destruct H as [(Hw & Ht & Hc) _]. cbv beta iota. unfold moved, bdoc. cbn [wl wi cur].
  rewrite <- Ht. now destruct d'.
Qed.

Lemma search_one b st icp :
  search ceq b st icp 1 =
  match search_once ceq (wl b) st icp (wi b) (bdoc b) with
  | Some (w, d) => SFound w (dcur d)
  | None => SNone
  end.
Proof.
  unfold search. change (1 <? 1) with false. change (Z.to_nat 1) with 1%nat. cbn [search_iter].
  destruct (search_once ceq (wl b) st icp (wi b) (bdoc b)) as [[w d]|]; reflexivity.
Qed.

Lemma SInv_moved b w d : SInv (wl b) w d -> Inv (moved b w (dcur d)).
Proof. intros (Hw & Ht & Hc). unfold Inv, moved; cbn [wl wi cur]. rewrite <- Ht. auto. Qed.

(* a single forward search from the buffer's position *)
Lemma search_fwd_spec b st (icp : bool) :
  Inv b -> sdir st = 0 ->
  let lo := if icp then cur b else cur b + 1 in
  let here := entry (wl b) (wi b) in
  match search ceq b st icp 1 with
  | SFound w' c' =>
      Inv (moved b w' c') /\ occurs (sic st) (stext st) (entry (wl b) w') c' /\
      ((w' = wi b /\ lo <= c' /\ forall q, lo <= q < c' -> ~ occurs (sic st) (stext st) here q)
       \/
       ((forall q, lo <= q -> ~ occurs (sic st) (stext st) here q) /\
        (exists before after, fwd_order (len (wl b)) (wi b) = before ++ w' :: after /\
           forall e, In e before -> absent (sic st) (stext st) (entry (wl b) e)) /\
        (forall q, q < c' -> ~ occurs (sic st) (stext st) (entry (wl b) w') q)))
  | SNone =>
      (forall q, lo <= q -> ~ occurs (sic st) (stext st) here q) /\
      forall e, In e (fwd_order (len (wl b)) (wi b)) -> absent (sic st) (stext st) (entry (wl b) e)
  end.
Proof.
  intros HI Hd lo here. rewrite search_one.
  pose proof (search_once_fwd (wl b) st icp (wi b) (bdoc b) (Inv_SInv _ HI) Hd) as H.
  cbv zeta in H. cbn [bdoc dcur dtext] in H. fold lo in H. fold here in H.
  destruct (search_once ceq (wl b) st icp (wi b) (bdoc b)) as [[w d]|]; [|exact H].
  destruct H as (HS & Hocc & Hcase). split; [exact (SInv_moved _ _ _ HS)|]. split; [exact Hocc|exact Hcase].
Qed.

(* a single backward search from the buffer's position *)
Lemma search_bwd_spec b st (icp : bool) :
  Inv b -> sdir st <> 0 ->
  let here := entry (wl b) (wi b) in
  let m := len (stext st) in
  match search ceq b st icp 1 with
  | SFound w' c' =>
      Inv (moved b w' c') /\ occurs (sic st) (stext st) (entry (wl b) w') c' /\
      ((w' = wi b /\ c' + m <= cur b /\
        forall q, occurs (sic st) (stext st) here q -> q + m <= cur b -> q <= c')
       \/
       ((forall q, occurs (sic st) (stext st) here q -> ~ q + m <= cur b) /\
        (exists before after, bwd_order (len (wl b)) (wi b) = before ++ w' :: after /\
           forall e, In e before -> absent (sic st) (stext st) (entry (wl b) e)) /\
        (forall q, occurs (sic st) (stext st) (entry (wl b) w') q -> q <= c')))
  | SNone =>
      (forall q, occurs (sic st) (stext st) here q -> ~ q + m <= cur b) /\
      forall e, In e (bwd_order (len (wl b)) (wi b)) -> absent (sic st) (stext st) (entry (wl b) e)
  end.
Proof.
  intros HI Hd here m. rewrite search_one.
  pose proof (search_once_bwd (wl b) st icp (wi b) (bdoc b) (Inv_SInv _ HI) Hd) as H.
  cbn [bdoc dcur dtext] in H. fold here in H. fold m in H.
  destruct (search_once ceq (wl b) st icp (wi b) (bdoc b)) as [[w d]|]; [|exact H].
  destruct H as (HS & Hocc & Hcase). split; [exact (SInv_moved _ _ _ HS)|]. split; [exact Hocc|exact Hcase].
Qed.

(* completeness with the visited lines spelled out *)
Lemma search_fwd_complete b st (icp : bool) :
  Inv b -> sdir st = 0 -> search ceq b st icp 1 = SNone ->
  (forall q, (if icp then cur b else cur b + 1) <= q -> ~ occurs (sic st) (stext st) (entry (wl b) (wi b)) q) /\
  (forall e, wi b < e < len (wl b) -> absent (sic st) (stext st) (entry (wl b) e)) /\
  absent (sic st) (stext st) (entry (wl b) 0).
Proof.
  intros HI Hd E. pose proof (search_fwd_spec b st icp HI Hd) as H. cbv zeta in H. rewrite E in H.
  destruct H as [H1 H2]. split; [exact H1|]. destruct HI as [Hw _]. split.
  - intros e He. apply H2. apply (In_fwd_order _ _ _ Hw). now left.
  - apply H2. apply (In_fwd_order _ _ _ Hw). now right.
Qed.

Lemma search_bwd_complete b st (icp : bool) :
  Inv b -> sdir st <> 0 -> search ceq b st icp 1 = SNone ->
  (forall q, occurs (sic st) (stext st) (entry (wl b) (wi b)) q -> ~ q + len (stext st) <= cur b) /\
  (forall e, 0 <= e < wi b -> absent (sic st) (stext st) (entry (wl b) e)) /\
  absent (sic st) (stext st) (entry (wl b) (len (wl b) - 1)).
Proof.
  intros HI Hd E. pose proof (search_bwd_spec b st icp HI Hd) as H. cbv zeta in H. rewrite E in H.
  destruct H as [H1 H2]. split; [exact H1|]. destruct HI as [Hw _]. split.
  - intros e He. apply H2. apply (In_bwd_order _ _ _ Hw). now left.
  - apply H2. apply (In_bwd_order _ _ _ Hw). now right.
Qed.

(* ---------------------------------------------------------------------- *)
(* apply_search, get_search_position, document_for_search *)

Lemma set_pos_moved b w c :
  0 <= c <= len (entry (wl b) w) ->
  set_cursor_position (set_working_index b w) c = moved b w c.
Proof.
  intros Hc. unfold set_working_index, set_cursor_position, moved.
  destruct (wi b =? w) eqn:E.
  - apply Z.eqb_eq in E. subst w.
    destruct (len (entry (wl b) (wi b)) <? c) eqn:E1; [apply Z.ltb_lt in E1; lia|].
    destruct (c <? 0) eqn:E2; [apply Z.ltb_lt in E2; lia|]. f_equal. lia.
  - cbn [wl wi cur].
    destruct (len (entry (wl b) w) <? c) eqn:E1; [apply Z.ltb_lt in E1; lia|].
    destruct (c <? 0) eqn:E2; [apply Z.ltb_lt in E2; lia|]. f_equal. lia.
Qed.

Lemma apply_search_spec b st icp count :
  Inv b ->
  apply_search ceq b st icp count =
  match search ceq b st icp count with
  | SNone => b
  | SFound w c => moved b w c
  end.
Proof.
  intros HI. unfold apply_search. destruct (search ceq b st icp count) as [|w c] eqn:E; try reflexivity.
  destruct (search_real _ _ _ _ _ _ HI E) as [[_ Hc] _]. cbn [moved wl wi cur] in Hc.
  now rewrite set_pos_moved.
Qed.

Lemma apply_search_inv b st icp count :
  Inv b -> Inv (apply_search ceq b st icp count) /\ wl (apply_search ceq b st icp count) = wl b.
Proof.
  intros HI. rewrite (apply_search_spec _ _ _ _ HI).
  destruct (search ceq b st icp count) as [|w c] eqn:E.
  - now split.
  - split; [|reflexivity]. apply (search_real _ _ _ _ _ _ HI E).
Qed.

(* a repeat count below 1: no search at all *)
Lemma search_count_below_1 b st icp count :
  count < 1 ->
  search ceq b st icp count = SNone /\ apply_search ceq b st icp count = b /\
  get_search_position ceq b st icp count = cur b.
Proof.
  intros Hc. assert (E : search ceq b st icp count = SNone).
  { unfold search. destruct (count <? 1) eqn:E; [reflexivity|apply Z.ltb_ge in E; lia]. }
  unfold apply_search, get_search_position. rewrite E. auto.
Qed.

(* get_search_position: the cursor of the landing position when the landing
   line is the current one, otherwise (other line, or nothing found) the
   current cursor; in every case a valid cursor of the current text, and when
   it differs from the current cursor the needle occurs there *)
Lemma get_search_position_spec b st icp count :
  Inv b ->
  get_search_position ceq b st icp count =
  match search ceq b st icp count with
  | SFound w c => if w =? wi b then c else cur b
  | SNone => cur b
  end /\
  0 <= get_search_position ceq b st icp count <= len (entry (wl b) (wi b)) /\
  (get_search_position ceq b st icp count <> cur b ->
   occurs (sic st) (stext st) (entry (wl b) (wi b)) (get_search_position ceq b st icp count)).
Proof.
  intros HI. split; [reflexivity|]. unfold get_search_position.
  destruct (search ceq b st icp count) as [|w c] eqn:E.
  - split; [apply HI|congruence].
  - destruct (search_real _ _ _ _ _ _ HI E) as [[_ Hc] Hocc]. cbn [moved wl wi cur] in Hc.
    destruct (w =? wi b) eqn:Ew.
    + apply Z.eqb_eq in Ew. subst w. split; [exact Hc|intros _; exact Hocc].
    + split; [apply HI|congruence].
Qed.

Lemma moved_self b : moved b (wi b) (cur b) = b.
Proof. now destruct b. Qed.

(* the preview document is the document of the buffer apply_search(include_current_position=True) produces *)
Lemma preview_is_apply b st :
  Inv b -> bdoc (apply_search ceq b st true 1) = document_for_search ceq b st.
Proof.
  intros HI. rewrite (apply_search_spec _ _ _ _ HI). unfold document_for_search.
  destruct (search ceq b st true 1) as [|w c] eqn:E; reflexivity.
Qed.

(* ---------------------------------------------------------------------- *)
(* the session *)

Lemma len_pos_nonnil (f : str) : f <> [] -> (len f =? 0) = false.
Proof.
  intros Hf. apply Z.eqb_neq. destruct f as [|x0 l0]; [congruence|].
  rewrite len_cons. pose proof (len_nonneg l0). lia.
Qed.

Lemma accept_preview s :
  Inv (main s) -> searching s = true -> field s <> [] ->
  bdoc (main (accept_search ceq s)) = preview ceq s /\
  searching (accept_search ceq s) = false /\ Inv (main (accept_search ceq s)).
Proof.
  intros HI Hs Hf. unfold accept_search, preview. rewrite Hs, (len_pos_nonnil _ Hf).
  unfold the_state, with_state. cbn [negb andb main field ss_text ss_dir ign].
  pose proof (preview_is_apply (main s) (mkss (field s) (ss_dir s) (ign s)) HI) as H.
  unfold stop_search, with_main. cbn [main searching]. split; [exact H|]. split; [reflexivity|].
  apply (apply_search_inv _ _ _ _ HI).
Qed.

Lemma enter_preview s :
  Inv (main s) -> searching s = true -> field s <> [] ->
  exists s', key_step ceq s KEnter = Some s' /\ searching s' = false /\
    main s' = (if vi s then fix_vi (main (accept_search ceq s)) else main (accept_search ceq s)) /\
    bdoc (main (accept_search ceq s)) = preview ceq s.
Proof.
  intros HI Hs Hf. destruct (accept_preview s HI Hs Hf) as (Hp & Hs' & _).
  unfold key_step. rewrite Hs. eexists. split; [reflexivity|].
  assert (Hv : vi (accept_search ceq s) = vi s).
  { unfold accept_search. destruct (len (field s) =? 0); reflexivity. }
  unfold post. rewrite Hv, Hs'. destruct (vi s); cbn [andb negb with_main main searching]; auto.
Qed.

(* the preview and the landing position of accept are functions of the same
   inputs: (working lines, index, cursor), field text, direction, ignore-case *)
Lemma preview_accept_inputs s1 s2 :
  main s1 = main s2 -> field s1 = field s2 -> ss_dir s1 = ss_dir s2 -> ign s1 = ign s2 ->
  searching s1 = searching s2 ->
  preview ceq s1 = preview ceq s2 /\
  (field s1 <> [] -> main (accept_search ceq s1) = main (accept_search ceq s2)).
Proof.
  intros Hm Hf Hd Hi Hs. split.
  - unfold preview. now rewrite Hm, Hf, Hd, Hi, Hs.
  - intros Hne. unfold accept_search. rewrite <- Hf, (len_pos_nonnil _ Hne).
    unfold stop_search, with_main, with_state, the_state. cbn [main field ss_text ss_dir ign].
    now rewrite Hm, Hd, Hi.
Qed.

(* with the preview-side repair the preview IS where accept goes, whatever the field *)
Lemma accept_preview_repaired s :
  Inv (main s) -> searching s = true ->
  bdoc (main (accept_search ceq s)) = preview_repaired ceq s.
Proof.
  intros HI Hs. unfold accept_search, preview_repaired. rewrite Hs.
  destruct (len (field s) =? 0) eqn:Ef.
  - unfold stop_search, with_main, the_state. cbn [main andb].
    destruct (len (ss_text s) =? 0) eqn:Et; cbn [negb].
    + (* empty needle, include_current_position: found at the cursor itself *)
      unfold the_state. rewrite (apply_search_spec _ _ _ _ HI).
      assert (E : search ceq (main s) (mkss (ss_text s) (ss_dir s) (ign s)) true 1 = SFound (wi (main s)) (cur (main s))).
      { apply Z.eqb_eq in Et. assert (Hnil : ss_text s = []).
        { destruct (ss_text s) as [|x l]; [reflexivity|]. rewrite len_cons in Et. pose proof (len_nonneg l). lia. }
        rewrite Hnil. rewrite search_one. unfold search_once. cbn [sdir stext sic].
        destruct HI as [Hw Hc].
        assert (Hta : text_after_cursor (bdoc (main s)) = skipn (Z.to_nat (cur (main s))) (entry (wl (main s)) (wi (main s)))).
        { unfold text_after_cursor, bdoc; cbn [dtext dcur]. apply slice_from_in_range; lia. }
        assert (Htb : text_before_cursor (bdoc (main s)) = firstn (Z.to_nat (cur (main s))) (entry (wl (main s)) (wi (main s)))).
        { unfold text_before_cursor, bdoc; cbn [dtext dcur]. apply slice_to_in_range; lia. }
        destruct (ss_dir s =? 0).
        - unfold doc_find. rewrite Hta. change (1 <? 1) with false. change (Z.to_nat (1 - 1)) with O. cbv iota.
          assert (Hf0 : forall t i, find_nth ceq (ign s) [] t i 0 0 = Some i) by (intros [|? ?] i; reflexivity).
          rewrite Hf0. cbn [bdoc dcur dtext]. now rewrite Z.add_0_r.
        - unfold doc_find_backwards. rewrite Htb. change (1 <? 1) with false. change (Z.to_nat (1 - 1)) with O. cbv iota.
          assert (Hf0 : forall t i, find_nth ceq (ign s) [] t i 0 0 = Some i) by (intros [|? ?] i; reflexivity).
          change (rev []) with (@nil Z). rewrite Hf0. cbn [bdoc dcur dtext]. f_equal. f_equal. change (len (@nil Z)) with 0. lia. }
      rewrite E. now rewrite moved_self.
    + apply (preview_is_apply (main s) (the_state s) HI).
  - unfold stop_search, with_main, with_state, the_state. cbn [main field ss_text ss_dir ign andb]. rewrite Ef. cbn [negb].
    apply (preview_is_apply (main s) (mkss (field s) (ss_dir s) (ign s)) HI).
Qed.

(* field edits keep everything but the field *)
Definition same_but_field (s s' : sess) : Prop :=
  main s' = main s /\ searching s' = searching s /\ ss_text s' = ss_text s /\
  ss_dir s' = ss_dir s /\ vi s' = vi s /\ ign s' = ign s.

Lemma with_field_same s f c : same_but_field s (with_field s f c).
Proof. unfold same_but_field, with_field; cbn. repeat split. Qed.

Lemma same_refl s : same_but_field s s.
Proof. unfold same_but_field. repeat split. Qed.

Lemma post_searching s : searching s = true -> post s = s.
Proof. intros H. unfold post. rewrite H. now rewrite andb_false_r. Qed.

Lemma typing_pure s k s' :
  searching s = true -> typing_key k ->
  (vi s = false \/ k <> KBackspace \/ field s <> []) ->
  key_step ceq s k = Some s' ->
  main s' = main s /\ searching s' = true /\ ss_text s' = ss_text s /\ ss_dir s' = ss_dir s /\ vi s' = vi s.
Proof.
  intros Hs Hk Hv. unfold key_step. rewrite Hs.
  assert (Hgen : forall t, same_but_field s t -> Some (post t) = Some s' ->
     main s' = main s /\ searching s' = true /\ ss_text s' = ss_text s /\ ss_dir s' = ss_dir s /\ vi s' = vi s).
  { intros t (H1 & H2 & H3 & H4 & H5 & H6). rewrite post_searching by congruence.
    intros [= <-]. repeat split; congruence. }
  destruct k; try contradiction.
  - apply Hgen. apply with_field_same.
  - assert (E : vi s && (len (field s) =? 0) = false).
    { destruct Hv as [Hv|[Hv|Hv]]; [now rewrite Hv|congruence|].
      apply andb_false_iff; right. now apply len_pos_nonnil. }
    rewrite E. apply Hgen. unfold field_backspace. destruct (0 <? fcur s); [apply with_field_same|apply same_refl].
  - apply Hgen. apply with_field_same.
  - apply Hgen. apply with_field_same.
  - apply Hgen. apply with_field_same.
  - apply Hgen. apply with_field_same.
  - apply Hgen. apply with_field_same.
  - apply Hgen. apply with_field_same.
  - apply Hgen. unfold field_delete. destruct (fcur s <? len (field s)); [apply with_field_same|apply same_refl].
Qed.

Lemma typing_pure_seq ks : forall s s',
  searching s = true -> (vi s = false \/ ~ In KBackspace ks) -> Forall typing_key ks ->
  keys_run ceq s ks = Some s' ->
  main s' = main s /\ searching s' = true /\ ss_text s' = ss_text s /\ ss_dir s' = ss_dir s /\ vi s' = vi s.
Proof.
  induction ks as [|k ks IH]; intros s s' Hs Hv Hk.
  - cbn. intros [= <-]. auto.
  - cbn [keys_run]. destruct (key_step ceq s k) as [s1|] eqn:E; [|discriminate].
    inversion Hk as [|? ? Hk1 Hk2]; subst.
    assert (Hv' : vi s = false \/ k <> KBackspace \/ field s <> []).
    { destruct Hv as [Hv|Hv]; [now left|]. right; left. intros ->. apply Hv. now left. }
    destruct (typing_pure _ _ _ Hs Hk1 Hv' E) as (Hm & Hs1 & Ht & Hd & Hv1).
    intros E2.
    assert (Hv2 : vi s1 = false \/ ~ In KBackspace ks).
    { destruct Hv as [Hv|Hv]; [left; congruence|right]. intros Hin. apply Hv. now right. }
    destruct (IH _ _ Hs1 Hv2 Hk2 E2) as (Hm2 & Hs2 & Ht2 & Hd2 & Hv3).
    repeat split; congruence.
Qed.

Lemma start_pure s k s' :
  searching s = false -> (k = KCr \/ k = KCs \/ k = KSlash \/ k = KQuestion) ->
  (vi s = true -> k = KSlash \/ k = KQuestion) ->
  (vi s = false -> k = KCr \/ k = KCs) ->
  key_step ceq s k = Some s' -> main s' = main s /\ searching s' = true /\ vi s' = vi s.
Proof.
  intros Hs Hk Hv1 Hv0. unfold key_step. rewrite Hs.
  destruct (vi s) eqn:Ev.
  - destruct (Hv1 eq_refl) as [-> | ->]; unfold post, start_search; cbn [vi searching andb negb];
      rewrite Ev; cbn [andb]; intros [= <-]; cbn [main searching vi]; auto.
  - destruct (Hv0 eq_refl) as [-> | ->]; unfold post, start_search; cbn [vi searching andb negb];
      rewrite Ev; cbn [andb]; intros [= <-]; cbn [main searching vi]; auto.
Qed.

(* abort (C-g): the key itself touches nothing of the main buffer (a Vi
   session re-applies its end-of-line cursor rule) *)
Lemma abort_pure s s' :
  searching s = true -> key_step ceq s KCg = Some s' ->
  searching s' = false /\ main s' = (if vi s then fix_vi (main s) else main s).
Proof.
  intros Hs. unfold key_step. rewrite Hs. unfold post, stop_search. cbn [vi searching negb andb main with_main].
  rewrite andb_true_r. destruct (vi s); intros [= <-]; cbn [main searching]; auto.
Qed.

(* a session that only starts, edits the field and aborts: the main buffer is
   exactly as it was before the session started *)
Lemma start_typing_abort s k0 ks s1 s2 s3 :
  searching s = false -> vi s = false -> (k0 = KCr \/ k0 = KCs) ->
  key_step ceq s k0 = Some s1 -> Forall typing_key ks -> keys_run ceq s1 ks = Some s2 ->
  key_step ceq s2 KCg = Some s3 ->
  main s3 = main s /\ searching s3 = false.
Proof.
  intros Hs Hv Hk0 E1 Hks E2 E3.
  destruct (start_pure s k0 s1 Hs) as (Hm1 & Hs1 & Hv1); auto.
  { destruct Hk0; auto. } { congruence. }
  rewrite Hv in Hv1.
  destruct (typing_pure_seq ks s1 s2 Hs1 (or_introl Hv1) Hks E2) as (Hm2 & Hs2 & _ & _ & Hv2).
  destruct (abort_pure s2 s3 Hs2 E3) as (Hs3 & Hm3). rewrite Hv2, Hv1 in Hm3.
  split; congruence.
Qed.

(* Vi: Backspace on an empty search field is abort *)
Lemma vi_backspace_abort s s' :
  searching s = true -> vi s = true -> field s = [] -> key_step ceq s KBackspace = Some s' ->
  searching s' = false /\ main s' = fix_vi (main s).
Proof.
  intros Hs Hv Hf. unfold key_step. rewrite Hs, Hv, Hf. change (len (@nil Z) =? 0) with true. cbn [andb].
  unfold post, stop_search. cbn [vi searching negb andb main with_main]. rewrite Hv. cbn [andb].
  intros [= <-]. cbn [main searching]. auto.
Qed.

(* a Vi session that starts a search ('/' or '?'), edits the field without
   Backspace and aborts (C-g): the main buffer is as before, up to the
   end-of-line rule of navigation mode (the identity on every state navigation
   mode can be in) *)
Lemma start_typing_abort_vi s k0 ks s1 s2 s3 :
  searching s = false -> vi s = true -> (k0 = KSlash \/ k0 = KQuestion) ->
  key_step ceq s k0 = Some s1 -> Forall typing_key ks -> ~ In KBackspace ks ->
  keys_run ceq s1 ks = Some s2 -> key_step ceq s2 KCg = Some s3 ->
  main s3 = fix_vi (main s) /\ searching s3 = false.
Proof.
  intros Hs Hv Hk0 E1 Hks Hnb E2 E3.
  assert (H4 : k0 = KCr \/ k0 = KCs \/ k0 = KSlash \/ k0 = KQuestion) by (destruct Hk0; auto).
  assert (Hf : vi s = false -> k0 = KCr \/ k0 = KCs) by congruence.
  destruct (start_pure s k0 s1 Hs H4 (fun _ => Hk0) Hf E1) as (Hm1 & Hs1 & Hv1).
  destruct (typing_pure_seq ks s1 s2 Hs1 (or_intror Hnb) Hks E2) as (Hm2 & Hs2 & _ & _ & Hv2).
  destruct (abort_pure s2 s3 Hs2 E3) as (Hs3 & Hm3). rewrite Hv2, Hv1, Hv in Hm3.
  split; congruence.
Qed.

(* next / previous while searching (C-r, C-s; emacs also Up, Down) are
   do_incremental_search: a direction change only turns the search around,
   otherwise apply_search(include_current_position=False, count=1) for the
   field text in that direction *)
Definition nav_dir (k : key) : option Z :=
  match k with KCr | KUp => Some 1 | KCs | KDown => Some 0 | _ => None end.

Lemma next_is_search s k dir s' :
  searching s = true -> nav_dir k = Some dir -> (vi s = true -> k = KCr \/ k = KCs) ->
  key_step ceq s k = Some s' ->
  searching s' = true /\ ss_text s' = field s /\ ss_dir s' = dir /\ field s' = field s /\
  main s' = (if ss_dir s =? dir then apply_search ceq (main s) (mkss (field s) dir (ign s)) false 1
             else main s).
Proof.
  intros Hs Hd Hv. unfold key_step. rewrite Hs.
  assert (Hgen : Some (post (do_incremental_search ceq s dir 1)) = Some s' ->
    searching s' = true /\ ss_text s' = field s /\ ss_dir s' = dir /\ field s' = field s /\
    main s' = (if ss_dir s =? dir then apply_search ceq (main s) (mkss (field s) dir (ign s)) false 1 else main s)).
  { unfold do_incremental_search, with_state, with_main, the_state.
    destruct (ss_dir s =? dir) eqn:Ed; cbn [negb main field fcur ss_text ss_dir ign searching vi];
      (rewrite post_searching by (cbn [searching]; exact Hs)); intros [= <-];
      cbn [main field ss_text ss_dir searching]; repeat split; try reflexivity; exact Hs. }
  destruct k; try discriminate; injection Hd as <-.
  - exact Hgen.
  - exact Hgen.
  - destruct (vi s) eqn:Ev; [destruct (Hv eq_refl); discriminate|exact Hgen].
  - destruct (vi s) eqn:Ev; [destruct (Hv eq_refl); discriminate|exact Hgen].
Qed.

(* Vi n / N in navigation mode: apply_search(include_current_position=False,
   count) with the stored state resp. its inversion *)
Lemma n_is_search s k c s' :
  vi s = true -> searching s = false -> (k = Kn c \/ k = KN c) ->
  key_step ceq s k = Some s' ->
  let st := match k with Kn _ => the_state s | _ => invert (the_state s) end in
  main s' = fix_vi (apply_search ceq (main s) st false c) /\
  ss_text s' = ss_text s /\ ss_dir s' = ss_dir s /\ searching s' = false.
Proof.
  intros Hv Hs Hk. unfold key_step. rewrite Hs, Hv.
  destruct Hk as [-> | ->]; cbv zeta; unfold post, with_main;
    cbn [vi searching main ss_text ss_dir andb negb]; rewrite ?Hv, ?Hs; cbn [andb negb];
    intros [= <-]; cbn [main ss_text ss_dir searching]; repeat split; try reflexivity; exact Hs.
Qed.

(* Vi '*' / '#' are apply_search(include_current_position=False, count) for the
   word under the cursor, FORWARD / BACKWARD: every search theorem applies
   with st := mkss word dir (ign s) *)
Lemma star_is_search s k c w s' :
  vi s = true -> searching s = false -> (k = KStar c w \/ k = KHash c w) ->
  key_step ceq s k = Some s' ->
  let dir := match k with KStar _ _ => 0 | _ => 1 end in
  main s' = fix_vi (apply_search ceq (main s) (mkss w dir (ign s)) false c) /\
  ss_text s' = w /\ ss_dir s' = dir /\ searching s' = false.
Proof.
  intros Hv Hs Hk. unfold key_step. rewrite Hs, Hv.
  destruct Hk as [-> | ->]; cbv zeta; unfold star_search, post, with_main, with_state, the_state;
    cbn [vi searching main ss_text ss_dir ign field fcur andb negb]; rewrite ?Hv, ?Hs; cbn [andb negb];
    intros [= <-]; cbn [main ss_text ss_dir searching]; repeat split; try reflexivity; exact Hs.
Qed.

Lemma star_lands s c w :
  Inv (main s) ->
  forall dir, match search ceq (main s) (mkss w dir (ign s)) false c with
  | SFound w' c' =>
      apply_search ceq (main s) (mkss w dir (ign s)) false c = moved (main s) w' c' /\
      occurs (ign s) w (entry (wl (main s)) w') c'
  | SNone => apply_search ceq (main s) (mkss w dir (ign s)) false c = main s
  end.
Proof.
  intros HI dir. rewrite (apply_search_spec _ _ _ _ HI).
  destruct (search ceq (main s) (mkss w dir (ign s)) false c) as [|w' c'] eqn:E; [reflexivity|].
  split; [reflexivity|]. exact (proj2 (search_real _ _ _ _ _ _ HI E)).
Qed.

(* ---------------------------------------------------------------------- *)
(* two controls sharing one search field *)

(* no search key ever touches the buffer of the other control, whatever is
   remembered in the shared search state *)
Lemma shared_other_untouched s k s' :
  key_step2 ceq s (K2 k) = Some s' ->
  other s' = other s /\ focus_a s' = focus_a s /\ preview_other s' = preview_other s.
Proof.
  unfold key_step2. destruct (key_step ceq (cs s) k); [|discriminate].
  intros [= <-]. cbn. auto.
Qed.

(* moving the focus swaps the buffers and keeps the (shared) search state *)
Lemma shared_switch s s' :
  key_step2 ceq s KSwitch = Some s' ->
  searching (cs s) = false /\ main (cs s') = other s /\ other s' = main (cs s) /\
  ss_text (cs s') = ss_text (cs s) /\ ss_dir (cs s') = ss_dir (cs s) /\ searching (cs s') = false.
Proof.
  unfold key_step2. destruct (searching (cs s)) eqn:E; [discriminate|].
  intros [= <-]. cbn [cs other main with_main ss_text ss_dir searching].
  repeat split; try reflexivity. exact E.
Qed.

End Facts.

(* The witness for the empty-field accept (finding C16-F1): two working lines
   "ba" and "a", the buffer on the second one, a remembered backward search
   for "a", nothing typed in the search field.  What is displayed is the
   current line; Enter moves to the first line. *)
Definition f1_witness : sess :=
  mksess (mksbuf [[98; 97]; [97]] 1 0) [] 0 [97] 1 false true false.

Lemma accept_empty_field_refuted :
  exists s, Inv (main s) /\ searching s = true /\ field s = [] /\
    bdoc (main (accept_search ceq_tab s)) <> preview ceq_tab s.
Proof.
  exists f1_witness. split; [|split; [reflexivity|split; [reflexivity|]]].
  - unfold Inv. vm_compute. repeat split; try reflexivity; intro; discriminate.
  - vm_compute. discriminate.
Qed.

(* abort does NOT undo what C-r / C-s pressed again during the session did
   (the docstring of abort_search says "restore the original line"): lines "a"
   and "b", buffer on "b"; C-r, a, C-r moves to line 0; C-g leaves it there. *)
Lemma abort_does_not_restore :
  exists s ks s', Inv (main s) /\ searching s = false /\
    keys_run ceq_tab s (ks ++ [KCg]) = Some s' /\ searching s' = false /\ main s' <> main s.
Proof.
  exists (mksess (mksbuf [[97]; [98]] 1 0) [] 0 [] 0 false false false), [KCr; KChar 97; KCr].
  eexists. split; [|split; [reflexivity|split; [vm_compute; reflexivity|split; [reflexivity|]]]].
  - unfold Inv. vm_compute. repeat split; try reflexivity; intro; discriminate.
  - vm_compute. discriminate.
Qed.

(* The direction is a genuine input of the preview: two sessions that differ
   in nothing but the direction show different documents ("a" before and after
   the cursor of "aba", cursor 1: backward lands on 0, forward on 2). *)
Lemma preview_needs_direction :
  exists s1 s2, main s1 = main s2 /\ field s1 = field s2 /\ ign s1 = ign s2 /\ searching s1 = true /\
    searching s2 = true /\ ss_text s1 = ss_text s2 /\ ss_dir s1 <> ss_dir s2 /\
    preview ceq_tab s1 <> preview ceq_tab s2.
Proof.
  exists (mksess (mksbuf [[97; 98; 97]] 0 1) [97] 1 [] 0 false true false),
         (mksess (mksbuf [[97; 98; 97]] 0 1) [97] 1 [] 1 false true false).
  split; [reflexivity|]. split; [reflexivity|]. split; [reflexivity|]. split; [reflexivity|].
  split; [reflexivity|]. split; [reflexivity|]. split; [cbn; discriminate|]. vm_compute. discriminate.
Qed.
