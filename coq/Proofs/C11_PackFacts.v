(* C11 - the display-width-aware layout of a wrapped line: [pack] lays the
   DISPLAYED cells of a line out the way copy_line does (greedy: a character
   that does not fit the rest of the row starts a new row after that row's
   prefix).  For every displayed width >= 1 (wide sub-domain) copy_line draws
   character i exactly where [pack] puts it, a line uses exactly [prows] screen
   rows, and therefore: WHENEVER get_height_for_line's estimate equals [prows]
   (for the lines) and the packed row of the cursor (for the slice), the
   cursor is registered, inside the window, on its character. *)
From Coq Require Import ZArith List Bool Lia.
From PTK Require Import Lib.Sx Lib.Py Model.C11_Scroll Model.C11_CopyBody
     Proofs.C11_ScrollFacts Proofs.C11_CopyFacts Proofs.C11_WideFacts Proofs.C11_SeqFacts Proofs.C11_Main.
Import ListNotations.
Open Scope Z_scope.

Section Pack.
  Variables (sw dw : Z -> Z) (disp : Z -> str).
  Variables (haspfx : bool) (pfx : Z -> Z -> str).
  Variables (width height xpos ypos : Z).

  (* cells of the prefix of row k of line l *)
  Definition pfxw (l k : Z) : Z := if haspfx then strw dw (pfx l k) else 0.

  (* (row inside the line, column) of every character of [cs], continuing on
     row [wc] at column [x] *)
  Fixpoint pack (l : Z) (cs : str) (wc x : Z) : list (Z * Z) :=
    match cs with
    | [] => []
    | c :: r =>
        if width <? x + dw c
        then (wc + 1, pfxw l (wc + 1)) :: pack l r (wc + 1) (pfxw l (wc + 1) + dw c)
        else (wc, x) :: pack l r wc (x + dw c)
    end.
  (* the row on which the layout ends *)
  Fixpoint pack_end (l : Z) (cs : str) (wc x : Z) : Z :=
    match cs with
    | [] => wc
    | c :: r =>
        if width <? x + dw c then pack_end l r (wc + 1) (pfxw l (wc + 1) + dw c)
        else pack_end l r wc (x + dw c)
    end.
  Definition pack_line (l : Z) (line : str) : list (Z * Z) := pack l line 0 (pfxw l 0).
  (* the display-width-aware height of a line *)
  Definition prows (l : Z) (line : str) : Z := pack_end l line 0 (pfxw l 0) + 1.

  Hypothesis Hdw : forall c, 1 <= dw c.
  (* the window holds every prefix plus the widest character *)
  Hypothesis Hfit : forall l k c, pfxw l k + dw c <= width.

  Local Notation put' := (put sw dw disp width xpos ypos).
  Local Notation copy_plain' := (copy_plain sw dw disp true width height xpos ypos).
  Local Notation copy_input' := (copy_input sw dw disp true haspfx pfx width height xpos ypos).
  Local Notation copy_line' := (copy_line sw dw disp true haspfx pfx width height xpos ypos).
  Local Notation copy_lines' := (copy_lines sw dw disp true haspfx pfx width height xpos ypos).

  Lemma pfxw_nonneg : forall l k, 0 <= pfxw l k.
  Proof.
    intros. unfold pfxw. destruct haspfx; [|lia]. apply strw_nonneg. intros c. pose proof (Hdw c). lia.
  Qed.

  Lemma pack_wc_ge : forall cs l wc x i k x', nth_error (pack l cs wc x) i = Some (k, x') -> wc <= k.
  Proof.
    induction cs as [|c r IH]; intros l wc x i k x' H; [destruct i; discriminate|].
    cbn [pack] in H. destruct (width <? x + dw c).
    - destruct i as [|i']; cbn [nth_error] in H; [inversion H; lia|]. apply IH in H. lia.
    - destruct i as [|i']; cbn [nth_error] in H; [inversion H; lia|]. now apply IH in H.
  Qed.

  Lemma pack_end_ge : forall cs l wc x, wc <= pack_end l cs wc x.
  Proof.
    induction cs as [|c r IH]; intros l wc x; cbn [pack_end]; [lia|].
    destruct (width <? x + dw c); [specialize (IH l (wc + 1) (pfxw l (wc + 1) + dw c)); lia | apply IH].
  Qed.

  Lemma pack_le_end : forall cs l wc x i k x', nth_error (pack l cs wc x) i = Some (k, x') ->
    k <= pack_end l cs wc x.
  Proof.
    induction cs as [|c r IH]; intros l wc x i k x' H; [destruct i; discriminate|].
    cbn [pack pack_end] in *. destruct (width <? x + dw c).
    - destruct i as [|i']; cbn [nth_error] in H; [inversion H; subst; apply pack_end_ge | eapply IH; eauto].
    - destruct i as [|i']; cbn [nth_error] in H; [inversion H; subst; apply pack_end_ge | eapply IH; eauto].
  Qed.

  Lemma prows_pos : forall l line, 1 <= prows l line.
  Proof. intros. unfold prows. pose proof (pack_end_ge line l 0 (pfxw l 0)). lia. Qed.

  (* the state after "wrap + continuation prefix" *)
  Definition after_wrap_w (l wc : Z) (s : cst) : cst :=
    if haspfx then copy_plain' (pfx l (wc + 1)) l (wrap_row l s) else wrap_row l s.

  Lemma after_wrap_w_state : forall l wc s,
    cx (after_wrap_w l wc s) = pfxw l (wc + 1) /\ cy (after_wrap_w l wc s) = cy s + 1 /\
    cr2 (after_wrap_w l wc s) = cr2 s.
  Proof.
    intros l wc s.
    assert (F : pfxw l (wc + 1) + 1 <= width) by (pose proof (Hfit l (wc + 1) 0); pose proof (Hdw 0); lia).
    unfold after_wrap_w, pfxw in *. destruct haspfx.
    - destruct (wcopy_plain_cy sw dw disp true width height xpos ypos Hdw (pfx l (wc + 1)) l (wrap_row l s)) as (A & B & _).
      { right. unfold wrap_row. cbn [cx]. lia. }
      destruct (wcopy_plain_adv sw dw disp true width height xpos ypos Hdw (pfx l (wc + 1)) l (wrap_row l s)) as (_ & _ & C).
      rewrite A, B, C. cbn [wrap_row cx cy cr2]. repeat split; lia.
    - cbn [wrap_row cx cy cr2]. repeat split; lia.
  Qed.

  Lemma pput_cr2_other : forall isin l kc c s key,
    isin = false \/ key <> (l, kc) ->
    alist_get (cr2 (put' isin l kc c s)) key = alist_get (cr2 s) key.
  Proof.
    intros isin l kc c s key H. rewrite (put_wide sw dw disp width xpos ypos Hdw).
    destruct (_ && _); cbn [cr2]; [|reflexivity].
    destruct isin; [|reflexivity]. destruct H as [H | H]; [discriminate|].
    cbn [alist_get]. destruct (pos_eqb (l, kc) key) eqn:E; [|reflexivity].
    apply pos_eqb_eq in E. congruence.
  Qed.

  Lemma pci_keys : forall cs l col sk wc s key,
    fst key <> l \/ snd key < col + sk ->
    alist_get (cr2 (copy_input' cs l col sk wc s)) key = alist_get (cr2 s) key.
  Proof.
    induction cs as [|c r IH]; intros l col sk wc s key Hk; cbn [copy_input andb]; [reflexivity|].
    destruct (width <? cx s + dw c).
    - fold (after_wrap_w l wc s). destruct (after_wrap_w_state l wc s) as (_ & _ & C).
      destruct (height <=? cy (after_wrap_w l wc s)); [now rewrite C|].
      rewrite IH by (destruct Hk; [now left | right; lia]).
      rewrite pput_cr2_other; [now rewrite C|]. right. intros ->. cbn [fst snd] in Hk. lia.
    - rewrite IH by (destruct Hk; [now left | right; lia]).
      apply pput_cr2_other. right. intros ->. cbn [fst snd] in Hk. lia.
  Qed.

  (* character i of the input is drawn where [pack] puts it *)
  Lemma pci_reg : forall cs l col sk wc s i c k x,
    nth_error cs i = Some c -> nth_error (pack l cs wc (cx s)) i = Some (k, x) ->
    0 <= cx s -> 0 <= cy s + (k - wc) < height ->
    alist_get (cr2 (copy_input' cs l col sk wc s)) (l, col + sk + Z.of_nat i)
    = Some (cy s + (k - wc) + ypos, x + xpos).
  Proof.
    induction cs as [|c0 r IH]; intros l col sk wc s i c k x Hn Hp Hx Hy; [destruct i; discriminate|].
    pose proof (pack_wc_ge _ _ _ _ _ _ _ Hp) as Hge.
    cbn [copy_input andb]. cbn [pack] in Hp. pose proof (Hdw c0) as Hc0.
    destruct (width <? cx s + dw c0) eqn:Ew.
    - fold (after_wrap_w l wc s). destruct (after_wrap_w_state l wc s) as (A & B & C).
      pose proof (pfxw_nonneg l (wc + 1)) as Hp0. pose proof (Hfit l (wc + 1) c0) as Hf0.
      assert (Hk1 : wc + 1 <= k).
      { destruct i as [|i']; cbn [nth_error] in Hp; [inversion Hp; lia | apply pack_wc_ge in Hp; lia]. }
      destruct (height <=? cy (after_wrap_w l wc s)) eqn:Eh; [lia|].
      destruct i as [|i'].
      + cbn [nth_error] in Hp. inversion Hp; subst k x; clear Hp.
        cbn [Z.of_nat]. rewrite Z.add_0_r.
        rewrite pci_keys by (right; cbn [snd]; lia).
        rewrite (put_wide sw dw disp width xpos ypos Hdw). rewrite A, B.
        destruct ((0 <=? pfxw l (wc + 1)) && (0 <=? cy s + 1) && (pfxw l (wc + 1) <? width)) eqn:E; [|lia].
        cbn [cr2 alist_get]. rewrite pos_eqb_refl. do 2 f_equal; lia.
      + cbn [nth_error] in Hn, Hp.
        replace (col + sk + Z.of_nat (S i')) with (col + 1 + sk + Z.of_nat i') by lia.
        rewrite (IH l (col + 1) sk (wc + 1) _ i' c k x Hn);
          rewrite ?(wput_cx sw dw disp width xpos ypos Hdw), ?(wput_cy sw dw disp width xpos ypos Hdw), ?A, ?B;
          try lia; try exact Hp.
        do 2 f_equal; lia.
    - destruct i as [|i'].
      + cbn [nth_error] in Hp. inversion Hp; subst k x; clear Hp.
        cbn [Z.of_nat]. rewrite Z.add_0_r.
        rewrite pci_keys by (right; cbn [snd]; lia).
        rewrite (put_wide sw dw disp width xpos ypos Hdw).
        destruct ((0 <=? cx s) && (0 <=? cy s) && (cx s <? width)) eqn:E; [|lia].
        cbn [cr2 alist_get]. rewrite pos_eqb_refl. do 2 f_equal; lia.
      + cbn [nth_error] in Hn, Hp.
        replace (col + sk + Z.of_nat (S i')) with (col + 1 + sk + Z.of_nat i') by lia.
        rewrite (IH l (col + 1) sk wc _ i' c k x Hn);
          rewrite ?(wput_cx sw dw disp width xpos ypos Hdw), ?(wput_cy sw dw disp width xpos ypos Hdw);
          try lia; try exact Hp.
        reflexivity.
  Qed.

  (* a line that stays above the window bottom uses exactly the packed rows *)
  Lemma pci_end : forall cs l col sk wc s,
    0 <= cx s -> cy s + (pack_end l cs wc (cx s) - wc) < height ->
    cy (copy_input' cs l col sk wc s) = cy s + (pack_end l cs wc (cx s) - wc).
  Proof.
    induction cs as [|c0 r IH]; intros l col sk wc s Hx Hy; cbn [copy_input andb pack_end] in *; [lia|].
    pose proof (Hdw c0) as Hc0.
    destruct (width <? cx s + dw c0) eqn:Ew.
    - fold (after_wrap_w l wc s). destruct (after_wrap_w_state l wc s) as (A & B & C).
      pose proof (pfxw_nonneg l (wc + 1)) as Hp0.
      pose proof (pack_end_ge r l (wc + 1) (pfxw l (wc + 1) + dw c0)) as Hge.
      destruct (height <=? cy (after_wrap_w l wc s)) eqn:Eh; [lia|].
      rewrite IH; rewrite ?(wput_cx sw dw disp width xpos ypos Hdw), ?(wput_cy sw dw disp width xpos ypos Hdw), ?A, ?B; lia.
    - rewrite IH; rewrite ?(wput_cx sw dw disp width xpos ypos Hdw), ?(wput_cy sw dw disp width xpos ypos Hdw); lia.
  Qed.

  Definition pline_start (l : Z) (s : cst) : cst :=
    if haspfx then copy_plain' (pfx l 0) l s else s.

  Lemma pline_start_state : forall l s, cx s = 0 ->
    cx (pline_start l s) = pfxw l 0 /\ cy (pline_start l s) = cy s /\ cr2 (pline_start l s) = cr2 s.
  Proof.
    intros l s Hx.
    assert (F : pfxw l 0 + 1 <= width) by (pose proof (Hfit l 0 0); pose proof (Hdw 0); lia).
    unfold pline_start, pfxw in *. destruct haspfx; [|repeat split; lia].
    destruct (wcopy_plain_cy sw dw disp true width height xpos ypos Hdw (pfx l 0) l s) as (A & B & _).
    { right. lia. }
    destruct (wcopy_plain_adv sw dw disp true width height xpos ypos Hdw (pfx l 0) l s) as (_ & _ & C).
    rewrite A, B, C. repeat split; lia.
  Qed.

  Lemma pcl_unfold : forall line l s, copy_line' 0 line l s = copy_input' line l 0 0 0 (pline_start l s).
  Proof. intros. unfold copy_line, pline_start. reflexivity. Qed.

  Lemma pcl_reg : forall line l s i c k x,
    cx s = 0 -> nth_error line i = Some c -> nth_error (pack_line l line) i = Some (k, x) ->
    0 <= cy s + k < height ->
    alist_get (cr2 (copy_line' 0 line l s)) (l, Z.of_nat i) = Some (cy s + k + ypos, x + xpos).
  Proof.
    intros line l s i c k x Hx Hn Hp Hy. rewrite pcl_unfold.
    destruct (pline_start_state l s Hx) as (A & B & C). unfold pack_line in Hp. rewrite <- A in Hp.
    pose proof (pfxw_nonneg l 0).
    rewrite <- (Z.add_0_l (Z.of_nat i)). rewrite <- (Z.add_0_l (0 + Z.of_nat i)). rewrite Z.add_assoc.
    rewrite (pci_reg line l 0 0 0 _ i c k x Hn Hp); rewrite ?A, ?B; try lia. do 2 f_equal; lia.
  Qed.

  Lemma pcl_keys : forall line l s key, cx s = 0 -> fst key <> l ->
    alist_get (cr2 (copy_line' 0 line l s)) key = alist_get (cr2 s) key.
  Proof.
    intros line l s key Hx Hk. rewrite pcl_unfold. rewrite pci_keys by (now left).
    now destruct (pline_start_state l s Hx) as (_ & _ & ->).
  Qed.

  Lemma pcl_end : forall line l s, cx s = 0 -> cy s + prows l line - 1 < height ->
    cy (copy_line' 0 line l s) = cy s + prows l line - 1.
  Proof.
    intros line l s Hx Hy. rewrite pcl_unfold. destruct (pline_start_state l s Hx) as (A & B & _).
    unfold prows in *. pose proof (pfxw_nonneg l 0).
    rewrite pci_end; rewrite ?A, ?B; lia.
  Qed.

  Lemma pcls_keys : forall rest lineno s key, fst key < lineno ->
    alist_get (cr2 (copy_lines' 0 rest lineno s)) key = alist_get (cr2 s) key.
  Proof.
    induction rest as [|ln r IH]; intros lineno s key Hk; cbn [copy_lines]; [reflexivity|].
    destruct (cy s <? height); [|reflexivity].
    rewrite IH by lia. cbn [cr2]. rewrite pcl_keys by (cbn [cx]; lia || reflexivity). reflexivity.
  Qed.

  (* copy(): character i of line (lineno + j), which [pack] puts on row k of its
     line, is drawn on screen row cy + (packed rows of the lines before) + k *)
  Lemma pcls_reg : forall (R : Z -> Z), (forall l, 0 <= R l) ->
    forall rest lineno s j line i c k x,
    0 <= lineno ->
    (forall m ln, nth_error rest m = Some ln -> R (lineno + Z.of_nat m) = prows (lineno + Z.of_nat m) ln) ->
    nth_error rest j = Some line -> nth_error line i = Some c ->
    nth_error (pack_line (lineno + Z.of_nat j) line) i = Some (k, x) ->
    0 <= cy s + sumH R lineno (Z.to_nat (lineno + Z.of_nat j)) + k < height ->
    alist_get (cr2 (copy_lines' 0 rest lineno s)) (lineno + Z.of_nat j, Z.of_nat i)
    = Some (cy s + sumH R lineno (Z.to_nat (lineno + Z.of_nat j)) + k + ypos, x + xpos).
  Proof.
    intros R HR. induction rest as [|ln0 r IH]; intros lineno s j line i c k x Hl HRr Hj Hi Hp Hrow;
      [destruct j; discriminate|].
    assert (Hk0 : 0 <= k) by (unfold pack_line in Hp; apply pack_wc_ge in Hp; exact Hp).
    destruct j as [|j'].
    - cbn [nth_error] in Hj. inversion Hj; subst ln0; clear Hj.
      cbn [Z.of_nat] in *. rewrite Z.add_0_r in *.
      rewrite sumH_empty in * by lia. rewrite Z.add_0_r in *.
      cbn [copy_lines]. destruct (cy s <? height) eqn:Ey; [|lia].
      rewrite pcls_keys by (cbn [fst]; lia). cbn [cr2].
      rewrite (pcl_reg line lineno _ i c k x); cbn [cx cy]; try reflexivity; try assumption; lia.
    - cbn [nth_error] in Hj.
      pose proof (HRr O ln0 eq_refl) as HR0. cbn [Z.of_nat] in HR0. rewrite Z.add_0_r in HR0.
      assert (Hstep : sumH R lineno (Z.to_nat (lineno + Z.of_nat (S j')))
                      = R lineno + sumH R (lineno + 1) (Z.to_nat (lineno + 1 + Z.of_nat j'))).
      { rewrite sumH_step by lia. f_equal. f_equal. lia. }
      rewrite Hstep in *.
      pose proof (sumH_nonneg R (lineno + 1) (Z.to_nat (lineno + 1 + Z.of_nat j')) HR) as Hnn.
      pose proof (prows_pos lineno ln0) as Hp0.
      cbn [copy_lines]. destruct (cy s <? height) eqn:Ey; [|lia].
      set (s0 := mkcst 0 (cy s) (cscr s) (cr2 s) ((cy s, (lineno, 0)) :: cvl s)).
      assert (Hend : cy (copy_line' 0 ln0 lineno s0) = cy s + prows lineno ln0 - 1).
      { apply (pcl_end ln0 lineno s0); unfold s0; cbn [cx cy]; lia. }
      replace (lineno + Z.of_nat (S j')) with (lineno + 1 + Z.of_nat j') in * by lia.
      rewrite (IH (lineno + 1) _ j' line i c k x); cbn [cy]; try rewrite Hend; try assumption; try lia.
      + do 2 f_equal. lia.
      + intros m ln Hm. specialize (HRr (S m) ln Hm).
        replace (lineno + 1 + Z.of_nat m) with (lineno + Z.of_nat (S m)) by lia. exact HRr.
  Qed.
End Pack.

(* ---------------------------------------------------------------------- *)
(* get_height_for_line never returns a negative number (fuel of the prefix loop suffices) *)
Lemma hfl_loop_nonneg : forall fuel pfxw width h tw, (forall k, 0 <= pfxw k) -> 0 <= h -> 0 <= tw < Z.of_nat fuel ->
  0 <= hfl_loop fuel pfxw width h tw.
Proof.
  induction fuel as [|f IH]; intros pfxw width h tw Hp Hh Hf; [lia|].
  cbn [hfl_loop]. destruct (width <? tw) eqn:E; [|lia].
  destruct (width <=? pfxw (h + 1 - 1)) eqn:E2; [unfold BIG; lia|].
  pose proof (Hp (h + 1 - 1)). apply IH; try assumption; lia.
Qed.

Lemma height_for_line_nonneg : forall sw haspfx pfx line l width stop, (forall c, 0 <= sw c) ->
  0 <= height_for_line sw haspfx pfx line l width stop.
Proof.
  intros sw haspfx pfx line l width stop Hsw. unfold height_for_line. cbv zeta. destruct (width =? 0); [unfold BIG; lia|].
  destruct haspfx; [|lia].
  match goal with |- context [hfl_loop _ _ _ _ (strw sw ?t + strw sw ?p)] =>
    pose proof (strw_nonneg sw t Hsw) as Ha; pose proof (strw_nonneg sw p Hsw) as Hb;
    generalize dependent (strw sw t); generalize dependent (strw sw p) end.
  intros b Hb a Ha.
  apply hfl_loop_nonneg; [intros k; now apply strw_nonneg | lia | lia].
Qed.

(* ---------------------------------------------------------------------- *)
(* "Visible if the estimate is exact": wrapping, every displayed width >= 1
   (ANY source widths), any prefixes that leave room for the widest character,
   any previous scroll state with vertical_scroll >= 0. *)
Section WrapExact.
  Variables (sw dw : Z -> Z) (disp : Z -> str).
  Variables (haspfx : bool) (pfx : Z -> Z -> str).
  Variables (width height xpos ypos top bottom : Z).
  Variables (lines : list str) (cyr cxc : Z) (st : sstate) (allow : bool).

  Hypothesis Hsw0 : forall c, 0 <= sw c.
  Hypothesis Hdw : forall c, 1 <= dw c.
  Hypothesis Hfit : forall l k c, pfxw dw haspfx pfx l k + dw c <= width.
  Hypothesis Hh : 1 <= height.
  Hypothesis Htop : 0 <= top.
  Hypothesis Hbottom : 0 <= bottom.
  Hypothesis Hvs : 0 <= vs st.
  Hypothesis Hcy : 0 <= cyr < len lines.

  Definition xline_of (l : Z) : str := nth (Z.to_nat l) lines [].
  Definition xHf (l : Z) : Z := height_for_line sw haspfx pfx (xline_of l) l width None.
  Definition xtbh (s : Z) : Z := height_for_line sw haspfx pfx (xline_of cyr) cyr width (Some s).
  Definition xst' : sstate := scroll_wrap allow xHf xtbh width height top bottom cyr cxc (len lines) st.
  Definition xout : cst := copy_body sw dw disp true haspfx pfx width height xpos ypos lines xst'.

  Hypothesis Hcx : 0 <= cxc < len (xline_of cyr).

  (* where the display-width-aware layout puts the cursor: row kc of its line, column xc *)
  Variables (kc xc : Z).
  Hypothesis Hpk : nth_error (pack_line dw haspfx pfx width cyr (xline_of cyr)) (Z.to_nat cxc) = Some (kc, xc).

  (* the estimate of get_height_for_line is exact: for every line it is the
     number of rows of the display-width-aware layout, and for the slice up to
     and including the cursor cell it is the cursor's row + 1 *)
  Hypothesis Hexact : forall l, 0 <= l < len lines ->
    xHf l = prows dw haspfx pfx width l (xline_of l).
  Hypothesis Hexact_c : xtbh (cxc + 1) = kc + 1.

  Lemma xHf_pos : forall l, 0 <= xHf l.
  Proof. intros. apply height_for_line_nonneg. exact Hsw0. Qed.

  Lemma xline_nth : forall l, 0 <= l < len lines -> nth_error lines (Z.to_nat l) = Some (xline_of l).
  Proof. intros l Hl. unfold xline_of. apply nth_error_nth'. unfold len in Hl. lia. Qed.

  Theorem wrap_visible_if_exact :
    let y := sumH xHf (vs xst') (Z.to_nat cyr) - vs2 xst' + kc in
    0 <= y < height /\ 0 <= xc < width /\
    alist_get (cr2 xout) (cyr, cxc) = Some (y + ypos, xc + xpos) /\
    exists c, nth_error (xline_of cyr) (Z.to_nat cxc) = Some c /\
              cstr (scr_get (cscr xout) (y + ypos) (xc + xpos)) = disp c.
  Proof.
    cbv zeta.
    pose proof (pack_wc_ge dw haspfx pfx width _ _ _ _ _ _ _ Hpk) as Hkc0.
    pose proof (pack_le_end dw haspfx pfx width _ _ _ _ _ _ _ Hpk) as Hkc1.
    assert (Hrow : kc < xHf cyr) by (rewrite Hexact by exact Hcy; unfold prows; lia).
    pose proof (xline_nth cyr Hcy) as Eline.
    assert (Hwidth : 1 <= width).
    { pose proof (Hfit 0 0 0). pose proof (pfxw_nonneg dw haspfx pfx Hdw 0 0). pose proof (Hdw 0). lia. }
    destruct (nth_error (xline_of cyr) (Z.to_nat cxc)) as [c|] eqn:Ec.
    2:{ apply nth_error_None in Ec. unfold len in Hcx. lia. }
    assert (Hkey : forall v y0,
      0 <= v <= cyr -> vs xst' = v -> vs2 xst' = - y0 -> hs xst' = 0 ->
      0 <= y0 + sumH xHf v (Z.to_nat cyr) + kc < height ->
      alist_get (cr2 xout) (cyr, cxc) = Some (y0 + sumH xHf v (Z.to_nat cyr) + kc + ypos, xc + xpos)).
    { intros v y0 Hv E1 E2 E3 Hr. unfold xout, copy_body. rewrite E1, E2, E3, Z.opp_involutive.
      pose proof (pcls_reg sw dw disp haspfx pfx width height xpos ypos Hdw Hfit xHf xHf_pos
                    (skipn (Z.to_nat v) lines) v (mkcst 0 y0 [] [] [])
                    (Z.to_nat (cyr - v)) (xline_of cyr) (Z.to_nat cxc) c kc xc) as HR.
      cbn [cy] in HR. rewrite !Z2Nat.id in HR by lia.
      replace (v + (cyr - v)) with cyr in HR by lia.
      apply HR; try assumption; try lia.
      - intros m ln Hm. rewrite nth_error_skipn in Hm.
        assert (Hr' : 0 <= v + Z.of_nat m < len lines).
        { unfold len. pose proof (proj1 (nth_error_Some lines (Z.to_nat v + m)%nat) ltac:(congruence)). lia. }
        rewrite Hexact by exact Hr'. f_equal.
        pose proof (xline_nth _ Hr') as E. replace (Z.to_nat (v + Z.of_nat m)) with (Z.to_nat v + m)%nat in E by lia.
        congruence.
      - rewrite nth_error_skipn. replace (Z.to_nat v + Z.to_nat (cyr - v))%nat with (Z.to_nat cyr) by lia. exact Eline. }
    assert (Hx : 0 <= xc < width).
    { unfold pack_line in Hpk. clear - Hpk Hdw Hfit.
      assert (G : forall cs l wc x i k x', 0 <= x -> nth_error (pack dw haspfx pfx width l cs wc x) i = Some (k, x') ->
                  0 <= x' < width).
      { induction cs as [|c r IH]; intros l wc x i k x' Hx0 H; [destruct i; discriminate|].
        cbn [pack] in H. pose proof (Hdw c). pose proof (pfxw_nonneg dw haspfx pfx Hdw l (wc + 1)). pose proof (Hfit l (wc + 1) c).
        destruct (width <? x + dw c) eqn:E.
        - destruct i as [|i']; cbn [nth_error] in H; [inversion H; subst; lia | eapply IH; [|exact H]; lia].
        - destruct i as [|i']; cbn [nth_error] in H; [inversion H; subst; lia | eapply IH; [|exact H]; lia]. }
      eapply G; [|exact Hpk]. apply pfxw_nonneg. exact Hdw. }
    assert (Hreg : let y := sumH xHf (vs xst') (Z.to_nat cyr) - vs2 xst' + kc in
                   0 <= y < height /\ alist_get (cr2 xout) (cyr, cxc) = Some (y + ypos, xc + xpos)).
    { cbv zeta. destruct (height - top <? xHf cyr) eqn:Ecase.
      - destruct (scroll_wrap_tall xHf xtbh width height top bottom cyr cxc (len lines) Hwidth
                    true allow st Hh ltac:(lia)) as (E1 & E3 & E20 & Eup & Elow).
        fold (scroll_wrap allow xHf xtbh width height top bottom cyr cxc (len lines) st) in E1, E3, E20, Eup, Elow.
        fold xst' in E1, E3, E20, Eup, Elow. cbv zeta in Eup, Elow.
        assert (Hr1 : vs2 xst' <= kc) by (apply Eup; lia).
        assert (Hr2 : kc - vs2 xst' < height) by (apply Elow; lia).
        rewrite E1. rewrite (sumH_empty xHf cyr (Z.to_nat cyr)) by lia.
        split; [lia|].
        rewrite (Hkey cyr (- vs2 xst')); try lia.
        + rewrite (sumH_empty xHf cyr (Z.to_nat cyr)) by lia. do 2 f_equal. lia.
        + rewrite (sumH_empty xHf cyr (Z.to_nat cyr)) by lia. lia.
      - destruct (scroll_wrap_fits xHf xtbh width height top bottom cyr cxc (len lines)
                    xHf_pos Hwidth Hcy Htop Hbottom true allow st ltac:(lia)) as (E2 & E3 & E0 & E1 & Efit).
        fold (scroll_wrap allow xHf xtbh width height top bottom cyr cxc (len lines) st) in E2, E3, E0, E1, Efit.
        fold xst' in E2, E3, E0, E1, Efit. specialize (E0 Hvs).
        replace (Z.to_nat (cyr + 1)) with (S (Z.to_nat cyr)) in Efit by lia.
        rewrite sumH_succ in Efit by lia. rewrite Z2Nat.id in Efit by lia.
        pose proof (sumH_nonneg xHf (vs xst') (Z.to_nat cyr) xHf_pos) as Hnn.
        rewrite E2. split; [lia|].
        rewrite (Hkey (vs xst') 0); try lia.
        do 2 f_equal. lia. }
    cbv zeta in Hreg. destruct Hreg as (Hy & Hget).
    split; [exact Hy|]. split; [exact Hx|]. split; [exact Hget|].
    assert (Hv' : 0 <= vs xst') by (unfold xst', scroll_wrap; apply scroll_wrap_vs_ge0; assumption).
    assert (Hpf : forall l, true = false \/ haspfx = false \/ strw dw (pfx l 0) <= width).
    { intros l. destruct haspfx eqn:Eh; [|now right; left]. right. right.
      pose proof (Hfit l 0 0) as F. unfold pfxw in F. try rewrite Eh in F. pose proof (Hdw 0). lia. }
    pose proof (registered_is_right_wide sw dw disp true haspfx pfx width height xpos ypos lines xst' Hdw Hpf Hv') as HR.
    cbv zeta in HR. fold xout in HR. destruct (HR (cyr, cxc) _ Hget) as (_ & c' & Hc' & Hcell).
    exists c'. split; [|exact Hcell].
    pose proof (char_at_nth _ _ _ _ Hc') as Hn. fold (xline_of cyr) in Hn. congruence.
  Qed.
End WrapExact.

(* non-vacuity: W W a (W = U+754C, 2 cells) in a 4x2 window, cursor on 'a': the
   estimate is exact (2 rows; slice up to the cursor: 2 rows), the cursor is on
   row 1 of its line *)
Definition ex_sw (c : Z) : Z := if c =? 30028 then 2 else 1.
Example wrap_exact_example :
  let lines := [[30028; 30028; 97; 32]] in
  let st' := xst' ex_sw false (fun _ _ => []) 4 2 0 0 lines 0 2 (mkss 0 0 0) false in
  let o := xout ex_sw ex_sw (fun c => [c]) false (fun _ _ => []) 4 2 0 0 0 0 lines 0 2 (mkss 0 0 0) false in
  alist_get (cr2 o) (0, 2) = Some (1, 0) /\ cstr (scr_get (cscr o) 1 0) = [97].
Proof.
  intros lines st' o.
  pose proof (wrap_visible_if_exact ex_sw ex_sw (fun c => [c]) false (fun _ _ => []) 4 2 0 0 0 0 lines 0 2 (mkss 0 0 0) false) as H.
  assert (Hw : forall c, 1 <= ex_sw c) by (intros c; unfold ex_sw; destruct (c =? 30028); lia).
  specialize (H ltac:(intros c; pose proof (Hw c); lia) Hw).
  specialize (H ltac:(intros l k c; unfold pfxw, ex_sw; destruct (c =? 30028); lia)).
  specialize (H ltac:(lia) ltac:(lia) ltac:(lia) ltac:(cbn; lia) ltac:(vm_compute; split; congruence) ltac:(vm_compute; split; congruence)).
  specialize (H 1 0 eq_refl).
  assert (Hex : forall l, 0 <= l < len lines ->
            xHf ex_sw false (fun _ _ => []) 4 lines l = prows ex_sw false (fun _ _ => []) 4 l (xline_of lines l)).
  { intros l Hl. assert (l = 0) by (unfold lines, len in Hl; cbn in Hl; lia). subst l. vm_compute. reflexivity. }
  specialize (H Hex eq_refl). cbv zeta in H.
  destruct H as (_ & _ & Hget & c & Hc & Hcell).
  vm_compute in Hc. inversion Hc; subst c.
  split; [exact Hget | exact Hcell].
Qed.

(* ... and the F14 witness is exactly an input on which the estimate is NOT
   exact: 'WWWWz' + blank needs 3 rows of 5 cells (the third wide character does
   not fit the last cell of row 0), the estimate says ceil(10 / 5) = 2 *)
Example wrap_wide_witness_not_exact :
  let lines := [[97; 98; 32]; [99; 100; 32]; [30028; 30028; 30028; 30028; 122; 32]] in
  xHf ex_sw false (fun _ _ => []) 5 lines 2 = 2 /\
  prows ex_sw false (fun _ _ => []) 5 2 (xline_of lines 2) = 3.
Proof. vm_compute. split; reflexivity. Qed.
