(* C06 - when the Screen default style "[transparent]" carries an attribute
   that is visible on a blank (a root style rule with a background, or
   SetDefaultColorStyleTransformation), incremental rendering and drawing from
   scratch differ: the diff paints a cell that became the default char, a full
   redraw skips it (finding C06-F1). *)
From Coq Require Import ZArith List Bool Lia.
From PTK Require Import Lib.Sx Lib.Py Model.C06_Terminal Model.C06_Renderer
  Proofs.C06_TermFacts Proofs.C06_DiffFacts Proofs.C06_SyncFacts.
Import ListNotations.
Open Scope Z_scope.

(* every style has its own attrs and pen; every attrs but 0 is "has style" *)
Definition tb_bad : tabs := mkt (fun s => s) (fun a => a) (fun a => negb (a =? 0)).
Definition scr_x : screen := mks 1 true 0 0 [(0, [(0, mkc [120] 2 1)])] [].
Definition scr_empty_row : screen := mks 1 true 0 0 [] [].

Lemma wf_scr_x : wf_screen 1 1 scr_x.
Proof.
  unfold wf_screen, scr_x, nscreen, nrow, ncell; cbn [srows sh scx scy].
  split; [repeat constructor; discriminate|]. split; [lia|]. split; [|lia].
  intros y Hy. cbn [sget]. destruct (0 =? y) eqn:E; [apply Z.eqb_eq in E; lia|reflexivity].
Qed.

Lemma wf_scr_empty_row : wf_screen 1 1 scr_empty_row.
Proof.
  unfold wf_screen, scr_empty_row, nscreen; cbn [srows sh scx scy].
  split; [constructor|]. split; [lia|]. split; [reflexivity|lia].
Qed.

Lemma default_style_visible_refuted :
  exists (tbs : Z -> tabs) (pvis : Z -> Z) ops cfg scr,
    (forall c a, ahs (tbs c) a = false -> pvis (apen (tbs c) a) = pvis 0) /\
    Forall (okop 1 1) ops /\ wf_screen 1 1 scr /\
    ~ visible_eq 1 pvis
        (snd (run_seq 1 false tbs (fst r_new) (trun 1 term0 (snd r_new)) (ops ++ [ORender cfg false 1 1 scr])))
        (snd (run_seq 1 false tbs (fst r_new) (trun 1 term0 (snd r_new)) [ORender cfg false 1 1 scr])).
Proof.
  exists (fun _ => tb_bad), (fun p => p), [ORender 0 false 1 1 scr_x], 0, scr_empty_row.
  split; [|split; [|split]].
  - intros c a E. cbn in *. apply negb_false_iff in E. apply Z.eqb_eq in E. subst. reflexivity.
  - constructor; [|constructor]. cbn [okop]. split; [reflexivity|]. split; [reflexivity|apply wf_scr_x].
  - apply wf_scr_empty_row.
  - intros (HC & _). specialize (HC 0 0 ltac:(lia) ltac:(lia)).
    vm_compute in HC. destruct HC as (_ & _ & HC). discriminate.
Qed.
