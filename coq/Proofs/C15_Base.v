(* C15 - basic facts: string/document equality tests, Python indexing,
   new_text_and_position bounds, the invariant and its pieces. *)
From Coq Require Import ZArith List Bool Lia.
From PTK Require Import Lib.Sx Lib.Py Model.C15_Async.
Import ListNotations.
Open Scope Z_scope.

Lemma str_eqb_eq : forall a b, str_eqb a b = true -> a = b.
Proof.
  induction a as [|x a IH]; destruct b as [|y b]; cbn [str_eqb]; intros H; try discriminate; auto.
  apply andb_true_iff in H. destruct H as [H1 H2]. apply Z.eqb_eq in H1. subst. f_equal. auto.
Qed.

Lemma str_eqb_refl : forall a, str_eqb a a = true.
Proof. induction a as [|x a IH]; cbn [str_eqb]; auto. rewrite Z.eqb_refl, IH. reflexivity. Qed.

Lemma doc_eqb_eq : forall a b, doc_eqb a b = true -> a = b.
Proof.
  intros [t1 c1] [t2 c2] H. unfold doc_eqb in H. cbn [dtext dcur] in H.
  apply andb_true_iff in H. destruct H as [H1 H2]. apply str_eqb_eq in H1. apply Z.eqb_eq in H2. subst. reflexivity.
Qed.

(* --- Python indexing -------------------------------------------------- *)
Lemma index_in_range {T} (l : list T) (i : Z) :
  0 <= i < len l -> exists x, index l i = Some x.
Proof.
  intros H. unfold index. destruct (i <? 0) eqn:E; [lia|].
  destruct ((i <? 0) || (len l <=? i)) eqn:E2.
  - apply orb_true_iff in E2. destruct E2 as [E2|E2]; lia.
  - destruct (nth_error l (Z.to_nat i)) eqn:E3; eauto.
    apply nth_error_None in E3. unfold len in H. lia.
Qed.

Lemma index_app_l {T} (l : list T) (x : T) (i : Z) :
  0 <= i < len l -> index (l ++ [x]) i = index l i.
Proof.
  intros H. unfold index. rewrite len_app. destruct (i <? 0) eqn:E; [lia|].
  replace ((i <? 0) || (len l + len [x] <=? i)) with false.
  2:{ symmetry. apply orb_false_iff. split; [lia|]. pose proof (len_nonneg [x]). lia. }
  replace ((i <? 0) || (len l <=? i)) with false.
  2:{ symmetry. apply orb_false_iff. split; lia. }
  apply nth_error_app1. unfold len in H. lia.
Qed.

Lemma index_nil {T} (i : Z) : index (@nil T) i = None.
Proof.
  unfold index. change (len (@nil T)) with 0.
  destruct (i <? 0) eqn:E.
  - replace ((i + 0 <? 0) || (0 <=? i + 0)) with true; [reflexivity|].
    symmetry. apply orb_true_iff. left. lia.
  - replace ((i <? 0) || (0 <=? i)) with true; [reflexivity|].
    symmetry. apply orb_true_iff. right. lia.
Qed.

Lemma get_nth_single {T} (l : list T) (k : Z) (x : T) :
  (length l <= 1)%nat -> get_nth l k = Some x -> l = [x] /\ k = 0.
Proof.
  intros Hl H. unfold get_nth in H. destruct (k <? 0) eqn:E; [discriminate|].
  destruct l as [|y [|z r]]; cbn [length] in Hl; try lia.
  - destruct (Z.to_nat k); discriminate.
  - destruct (Z.to_nat k) eqn:E2.
    + cbn in H. inversion H. subst. split; [reflexivity|lia].
    + cbn in H. destruct n; discriminate.
Qed.

(* --- documents ---------------------------------------------------------- *)
Definition wf_doc (d : doc) : Prop := 0 <= dcur d <= len (dtext d).

(* the document after typing [p] at the cursor *)
Definition doc_insert (d : doc) (p : str) : doc :=
  mkdoc (tbc d ++ p ++ tac d) (dcur d + len p).

Lemma tbc_tac (d : doc) : wf_doc d -> tbc d ++ tac d = dtext d.
Proof.
  intros [H0 H1]. unfold tbc, tac.
  rewrite slice_to_in_range, slice_from_in_range by lia. apply firstn_skipn.
Qed.

Lemma len_tbc (d : doc) : wf_doc d -> len (tbc d) = dcur d.
Proof.
  intros [H0 H1]. unfold tbc. rewrite slice_to_in_range by lia. rewrite len_firstn. lia.
Qed.

Lemma wf_doc_insert (d : doc) (p : str) : wf_doc d -> wf_doc (doc_insert d p).
Proof.
  intros H. unfold wf_doc, doc_insert. cbn [dtext dcur].
  rewrite !len_app, (len_tbc d H). pose proof (len_nonneg p). pose proof (len_nonneg (tac d)).
  destruct H. lia.
Qed.

(* --- CompletionState ---------------------------------------------------- *)
Definition idx_ok (cs : cstate) : Prop :=
  match cs_idx cs with None => True | Some i => 0 <= i < len (cs_comps cs) end.

(* the state finding C15-F1 produces: an index but nothing to select *)
Definition broken (cs : cstate) : Prop := cs_comps cs = [] /\ cs_idx cs <> None.

(* where a completion of the menu was computed: from the menu's original
   document, or (menu re-based by insert_common_part) from the document the
   common part [cs_shift] was then typed into *)
Definition fresh (orig : doc) (shift : str) (c : completion) : Prop :=
  (shift = [] /\ csrc c = orig) \/ (shift <> [] /\ orig = doc_insert (csrc c) shift).

Lemma ntp_bounds (cs : cstate) (t : str) (p : Z) :
  wf_doc (cs_orig cs) -> ntp cs = Some (t, p) -> 0 <= p <= len t.
Proof.
  intros Hw H. unfold ntp in H. destruct (cs_idx cs) as [i|].
  - destruct (index (cs_comps cs) i) as [c|]; [|discriminate].
    inversion H; subst; clear H. rewrite !len_app.
    match goal with |- context [len ?b + len (ctext c)] => pose proof (len_nonneg b) end.
    pose proof (len_nonneg (ctext c)). pose proof (len_nonneg (tac (cs_orig cs))). lia.
  - inversion H; subst. exact Hw.
Qed.

Lemma ntp_none_idx (cs : cstate) : cs_idx cs = None ->
  ntp cs = Some (dtext (cs_orig cs), dcur (cs_orig cs)).
Proof. intros H. unfold ntp. rewrite H. reflexivity. Qed.

Lemma ntp_some_not_broken (cs : cstate) tp : ntp cs = Some tp -> ~ broken cs.
Proof.
  intros H [Hc Hi]. unfold ntp in H. destruct (cs_idx cs) as [i|]; [|congruence].
  rewrite Hc, index_nil in H. discriminate.
Qed.

Lemma ntp_idx_ok_some (cs : cstate) : idx_ok cs -> exists tp, ntp cs = Some tp.
Proof.
  intros H. unfold idx_ok in H. unfold ntp. destruct (cs_idx cs) as [i|]; [|eauto].
  destruct (index_in_range (cs_comps cs) i H) as [c Hc]. rewrite Hc. eauto.
Qed.

(* --- the invariant ------------------------------------------------------- *)
Definition cs_static (nid : Z) (cos : list ccoro) (cs : cstate) : Prop :=
  cs_id cs < nid /\ wf_doc (cs_orig cs) /\
  Forall (fresh (cs_orig cs) (cs_shift cs)) (cs_comps cs) /\
  (forall co, In co cos -> cs_id cs = cc_id co ->
     cs_orig cs = cc_doc co /\ cs_shift cs = [] /\ ~ broken cs).

Definition cs_dyn (f : bool) (t : str) (c : Z) (cs : cstate) : Prop :=
  (idx_ok cs /\ ntp cs = Some (t, c)) \/ (f = false /\ broken cs).

Definition CsOk (s : state) : Prop :=
  forall cs, cst s = Some cs ->
    cs_static (next_id s) (ccos s) cs /\ cs_dyn (fx (cfg s)) (text s) (cur s) cs.

(* text-related facts *)
Definition Wf (s : state) : Prop :=
  0 <= cur s <= len (text s) /\
  (vst s <> 0 -> exists d, vsrc s = Some d /\ dtext d = text s) /\
  (forall t d, sug s = Some (t, d) -> dtext d = text s).

(* `running` <-> a coroutine of that kind is past its guard *)
Definition Cnt (s : state) : Prop :=
  length (ccos s) = (if crun s then 1 else 0)%nat /\
  length (vcos s) = (if vrun s then 1 else 0)%nat /\
  length (scos s) = (if srun s then 1 else 0)%nat.

Definition Ids (s : state) : Prop := forall co, In co (ccos s) -> cc_id co < next_id s.

Definition Inv (s : state) : Prop := Wf s /\ Cnt s /\ Ids s /\ CsOk s.

(* what the user-level operations leave alone *)
Definition Frame (s s' : state) : Prop :=
  cfg s' = cfg s /\ next_id s' = next_id s /\
  crun s' = crun s /\ vrun s' = vrun s /\ srun s' = srun s /\
  ccos s' = ccos s /\ vcos s' = vcos s /\ scos s' = scos s.

Lemma Frame_refl s : Frame s s.
Proof. unfold Frame; intuition. Qed.

Lemma Frame_trans a b c : Frame a b -> Frame b c -> Frame a c.
Proof. unfold Frame; intuition congruence. Qed.

Lemma Frame_Cnt s s' : Frame s s' -> Cnt s -> Cnt s'.
Proof.
  unfold Frame, Cnt. intros (_ & _ & A & B & C & D & E & F) H.
  rewrite A, B, C, D, E, F. exact H.
Qed.

Lemma Frame_Ids s s' : Frame s s' -> Ids s -> Ids s'.
Proof.
  unfold Frame, Ids. intros (_ & A & _ & _ & _ & D & _) H co Hin. rewrite A. rewrite D in Hin. auto.
Qed.

Lemma init_Inv c t p : 0 <= p <= len t -> Inv (init c t p).
Proof.
  intros H. unfold Inv, Wf, Cnt, Ids, CsOk, init; cbn. repeat split; try tauto; try lia.
  all: try (intros; discriminate).

Qed.
