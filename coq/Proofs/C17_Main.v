(* C17 - the statements of Props/C17.v assembled from the invariants. *)
From Coq Require Import ZArith List Bool Lia.
From PTK Require Import Lib.Py Model.C03_Vt100Parser Model.C17_Typeahead
  Proofs.C17_Core Proofs.C17_Conserve Proofs.C17_Accept Proofs.C17_Silent.
Import ListNotations.

Section P.
Variables E bid res PS : Type.
Variable lookup : E -> list kp -> option bid.
Variable lookup_scan : E -> list kp -> option bid.
Variable waits : E -> list kp -> bool.
Variable eff : bid -> list kp -> E -> E * option res.
Variable is_cprh : bid -> bool.
Variable cpr_lookup : E -> option bid.
Variable feeds : bid -> list kp -> E -> list kp.
Variable restart : E -> E.
Variable pfeed : str -> PS -> PS * list kp.
Variable pflush : PS -> PS * list kp.
Variable res_eof : res.

Notation sys := (sys E bid res PS).
Notation run := (@run E bid res PS lookup lookup_scan waits eff is_cprh cpr_lookup feeds restart pfeed pflush res_eof).
Notation inv_run0 := (@inv_run E bid res PS lookup lookup_scan waits eff is_cprh cpr_lookup feeds restart pfeed pflush res_eof).
Definition no_feeds : Prop := forall b ks e, feeds b ks e = [].

Lemma conservation (Hnf : no_feeds) ls e p r :
  let s := run ls (@init E bid res PS e p r) in
  nc (logged (co s)) ++ nc (kbuf (co s)) ++ nc (ikeys (store s)) ++ nc (ikeys (queue s)) = nc (decoded s).
Proof.
  intros s. destruct (inv_run0 Hnf ls (@init E bid res PS e p r) (inv_init E bid res PS e p r)) as (H & _ & _ & _ & P).
  fold s in H, P. unfold acc in H. rewrite P, app_nil_r, nc_app, <- app_assoc in H. exact H.
Qed.

Lemma cpr_never_stored ls e p r :
  let s := run ls (@init E bid res PS e p r) in Forall (fun i => item_is_cpr i = false) (store s).
Proof.
  exact (@C17_Silent.cpr_never_stored_all E bid res PS lookup lookup_scan waits eff is_cprh cpr_lookup feeds restart pfeed pflush res_eof ls e p r).
Qed.

Lemma fuel_suffices ls e p r : oof (co (run ls (@init E bid res PS e p r))) = false.
Proof.
  rewrite (@run_oof E bid res PS lookup lookup_scan waits eff is_cprh cpr_lookup feeds restart pfeed pflush res_eof). reflexivity.
Qed.

Lemma nothing_after_accept :
  cpr_silent eff cpr_lookup feeds ->
  forall ls e p r, ~ In LClose ls ->
  let s := run ls (@init E bid res PS e p r) in
  Forall ok_ev (rlog (co s)) /\ cph (co s) <> CBroken res /\
  (late (co s) = true -> kbuf (co s) = []) /\
  Forall nf (store s) /\ Forall nf (queue s).
Proof.
  intros HS ls e p r NI s.
  destruct (@Js_run E bid res PS lookup lookup_scan waits eff is_cprh cpr_lookup feeds restart pfeed pflush res_eof HS ls
              (@init E bid res PS e p r) NI (Js_init E bid res PS e p r)) as (((NB & LK & OK) & _) & _ & _ & F & G & _).
  auto.
Qed.

(* delivering a report changes nothing the dispatch or the handlers look at *)
Lemma cpr_transparent :
  cpr_silent eff cpr_lookup feeds ->
  forall (c : core E bid res) k, is_cpr k = true ->
  let c' := deliver lookup lookup_scan waits eff is_cprh cpr_lookup feeds (IKey k) c in
  est c' = est c /\ kbuf c' = kbuf c /\ cph c' = cph c /\ pb c' = pb c.
Proof.
  intros HS c k CK. cbn [deliver]. rewrite CK.
  destruct (@handle_cpr_eq E bid res eff is_cprh cpr_lookup feeds HS k c) as (A & B & C & D & _). auto.
Qed.

Lemma cpr_silent_log ls e p r :
  let s := run ls (@init E bid res PS e p r) in
  Forall (sil_ev cpr_lookup) (rlog (co s)) /\ noc (kbuf (co s)).
Proof.
  exact (@C17_Silent.cpr_silent_log E bid res PS lookup lookup_scan waits eff is_cprh cpr_lookup feeds restart pfeed pflush res_eof ls e p r).
Qed.

End P.
Arguments no_feeds {E bid} feeds.
