(* C17 - the statements of Props/C17.v assembled from the invariants. *)
From Coq Require Import ZArith List Bool Lia.
From PTK Require Import Lib.Py Model.C03_Vt100Parser Model.C17_Typeahead
  Proofs.C17_Core Proofs.C17_Conserve Proofs.C17_Accept.
Import ListNotations.

Section P.
Variables E bid res PS : Type.
Variable lookup : E -> list kp -> option bid.
Variable lookup_scan : E -> list kp -> option bid.
Variable waits : E -> list kp -> bool.
Variable eff : bid -> list kp -> E -> E * option res.
Variable is_cprh : bid -> bool.
Variable restart : E -> E.
Variable pfeed : str -> PS -> PS * list kp.
Variable pflush : PS -> PS * list kp.
Variable res_eof : res.

Notation sys := (sys E bid res PS).
Notation run := (@run E bid res PS lookup lookup_scan waits eff is_cprh restart pfeed pflush res_eof).

Lemma conservation ls e p r :
  let s := run ls (@init E bid res PS e p r) in
  nc (logged (co s)) ++ nc (kbuf (co s)) ++ nc (ikeys (store s)) ++ nc (ikeys (queue s)) = nc (decoded s).
Proof.
  intros s. destruct (@inv_run E bid res PS lookup lookup_scan waits eff is_cprh restart pfeed pflush res_eof ls
                        (@init E bid res PS e p r) (inv_init E bid res PS e p r)) as (H & _).
  fold s in H. unfold acc in H. rewrite nc_app, <- app_assoc in H. exact H.
Qed.

Lemma detached_queue_empty ls e p r :
  let s := run ls (@init E bid res PS e p r) in at_ s = Detached -> queue s = [].
Proof.
  intros s. destruct (@inv_run E bid res PS lookup lookup_scan waits eff is_cprh restart pfeed pflush res_eof ls
                        (@init E bid res PS e p r) (inv_init E bid res PS e p r)) as (_ & H & _). exact H.
Qed.

Lemma cpr_never_stored ls e p r :
  let s := run ls (@init E bid res PS e p r) in Forall (fun i => item_is_cpr i = false) (store s).
Proof.
  intros s. destruct (@inv_run E bid res PS lookup lookup_scan waits eff is_cprh restart pfeed pflush res_eof ls
                        (@init E bid res PS e p r) (inv_init E bid res PS e p r)) as (_ & _ & _ & H). exact H.
Qed.

Lemma fuel_suffices ls e p r : oof (co (run ls (@init E bid res PS e p r))) = false.
Proof.
  rewrite (@run_oof E bid res PS lookup lookup_scan waits eff is_cprh restart pfeed pflush res_eof). reflexivity.
Qed.

Lemma nothing_after_accept :
  exit_clean lookup lookup_scan waits eff is_cprh -> cpr_fires lookup waits eff ->
  forall ls e p r, ~ In LClose ls ->
  let s := run ls (@init E bid res PS e p r) in
  Forall ok_ev (rlog (co s)) /\ cph (co s) <> CBroken res /\
  (late (co s) = true -> kbuf (co s) = []) /\
  Forall nf (store s) /\ Forall nf (queue s).
Proof.
  intros HX HC ls e p r NI s.
  destruct (@Js_run E bid res PS lookup lookup_scan waits eff is_cprh restart pfeed pflush res_eof HX HC ls
              (@init E bid res PS e p r) NI (Js_init E bid res PS waits e p r)) as ((NB & LK & _ & OK) & _ & _ & F & G & _).
  auto.
Qed.

End P.
