(* C02 - find_previous_word_ending, exact target for EVERY valid cursor.

   Proofs/C02_WordsExact.v pins the result of find_previous_word_ending only
   for a cursor strictly inside the text.  With the cursor at the end of the
   text, text_after_cursor[:1] is empty, the scanned string is just the
   reversed text, the word that ends exactly at the cursor is the run at
   index 0 and is skipped, and every other answer is one too large (finding
   C02-F2; the model follows the code as it is).  Here: what the function
   returns in that case, and one statement for all valid cursors. *)
From Coq Require Import ZArith List Bool Lia Sorted.
From PTK Require Import Lib.Sx Lib.Py Gen.Whitespace Model.Document Model.C02_DocQueries Proofs.C02_Base Proofs.C02_Words Proofs.C02_WordsExact.
Import ListNotations.
Open Scope Z_scope.

(* an enumeration only depends on the extension of the predicate *)
Lemma enumerates_ext (P Q : Z -> Prop) l :
  (forall j, P j <-> Q j) -> enumerates P l -> enumerates Q l.
Proof.
  intros HPQ [S M]. split; [exact S|].
  intros j. split; intros H.
  - apply HPQ. apply M. exact H.
  - apply M. apply HPQ. exact H.
Qed.

(* the scanned string when the cursor is at the end of the text *)
Lemma prev_end_text_at_end (t : str) :
  firstn 1 (skipn (Z.to_nat (len t)) t) ++ rev (firstn (Z.to_nat (len t)) t) = rev t.
Proof.
  rewrite Z2N_len. rewrite skipn_all, firstn_all. reflexivity.
Qed.

(* word ends strictly before the end of the text, nearest first
   = len t - (starts of the runs of rev t other than 0) *)
Lemma ends_before_end_enum cls (t : str) :
  enumerates (fun j => j < len t /\ word_end cls t j)
    (rev (map (fun j => len t - j) (drop0 (map fst (runs cls (rev t)))))).
Proof.
  apply (enumerates_mirror (fun j => 1 <= j /\ word_start cls (rev t) j)).
  - apply enumerates_drop0; [apply C02x_run_starts|]. intros j Hw.
    exact (word_start_nonneg _ _ _ Hw).
  - intros j. split.
    + intros [H1 Hw]. split; [lia|]. apply C02x_word_start_rev in Hw. exact Hw.
    + intros [H1 Hw]. split; [lia|]. apply C02x_word_start_rev. exact Hw.
Qed.

Lemma prev_end_at_end_core cls (t : str) count l :
  1 <= count ->
  enumerates (fun j => j < len t /\ word_end cls t j) l ->
  option_map (fun st => - st + 1)
    (option_map fst (nth_match (runs cls (rev t)) (bump (runs cls (rev t)) count))) =
  option_map (fun j => j + 1 - len t) (pick (rev l) count).
Proof.
  intros Hcount Hl.
  rewrite (enumerates_unique _ _ _ Hl (ends_before_end_enum cls t)).
  rewrite rev_involutive. rewrite (nth_match_bump _ count Hcount).
  rewrite pick_map, option_map_comp.
  destruct (pick (drop0 (map fst (runs cls (rev t)))) count) as [x|];
    cbn [option_map]; [f_equal; lia|reflexivity].
Qed.

(* T1: cursor at the end of the text: the count-th word end STRICTLY before
   the cursor, counted backwards, PLUS ONE *)
Theorem C02x_previous_word_ending_at_end d count WORD :
  valid d -> 1 <= count -> dcur d = len (dtext d) ->
  forall l,
    enumerates (fun j => j < dcur d /\ word_end (word_cls WORD) (dtext d) j) l ->
    find_previous_word_ending d count WORD =
    option_map (fun j => j + 1 - dcur d) (pick (rev l) count).
Proof.
  intros Hv Hc He l Hl. unfold find_previous_word_ending.
  destruct (count <? 0) eqn:E; [lia|].
  unfold previous_word_ending_core. cbv zeta.
  rewrite w_slice_to_1, (ta_skipn d Hv), (tb_firstn d Hv).
  rewrite He in *. rewrite prev_end_text_at_end.
  rewrite (opt_fst_match_g (fun st => - st + 1)).
  apply prev_end_at_end_core; [exact Hc|exact Hl].
Qed.

(* T2: every valid cursor *)
Theorem C02x_previous_word_ending_exact d count WORD :
  valid d -> 1 <= count ->
  let off := if dcur d =? len (dtext d) then 1 else 0 in
  forall l,
    enumerates (fun j => j <= dcur d - off /\ word_end (word_cls WORD) (dtext d) j) l ->
    find_previous_word_ending d count WORD =
    option_map (fun j => j + off - dcur d) (pick (rev l) count).
Proof.
  intros Hv Hc off l Hl. subst off.
  destruct (dcur d =? len (dtext d)) eqn:E.
  - assert (He : dcur d = len (dtext d)) by lia.
    apply (C02x_previous_word_ending_at_end d count WORD Hv Hc He l).
    apply (enumerates_ext _ _ l) with (2 := Hl).
    intros j. split; intros [H1 H2]; (split; [lia|exact H2]).
  - assert (Hlt : dcur d < len (dtext d)) by (destruct Hv as [Hv0 Hv1]; lia).
    assert (Hl' : enumerates (fun j => j <= dcur d /\ word_end (word_cls WORD) (dtext d) j) l).
    { apply (enumerates_ext _ _ l) with (2 := Hl).
      intros j. split; intros [H1 H2]; (split; [lia|exact H2]). }
    rewrite (C02x_previous_word_ending_exact_partial d count WORD Hv Hc Hlt l Hl').
    apply option_map_ext. intros x. lia.
Qed.

(* T3: None exactly when there are fewer than count of them *)
Corollary C02x_previous_word_ending_none d count WORD l :
  valid d -> 1 <= count ->
  let off := if dcur d =? len (dtext d) then 1 else 0 in
  enumerates (fun j => j <= dcur d - off /\ word_end (word_cls WORD) (dtext d) j) l ->
  (find_previous_word_ending d count WORD = None <-> len l < count).
Proof.
  intros Hv Hc off Hl.
  rewrite (C02x_previous_word_ending_exact d count WORD Hv Hc l Hl).
  rewrite option_map_none_iff. rewrite <- (len_rev l). apply pick_none_iff. exact Hc.
Qed.

Corollary C02x_previous_word_ending_none_at_end d count WORD l :
  valid d -> 1 <= count -> dcur d = len (dtext d) ->
  enumerates (fun j => j < dcur d /\ word_end (word_cls WORD) (dtext d) j) l ->
  (find_previous_word_ending d count WORD = None <-> len l < count).
Proof.
  intros Hv Hc He Hl.
  rewrite (C02x_previous_word_ending_at_end d count WORD Hv Hc He l Hl).
  rewrite option_map_none_iff. rewrite <- (len_rev l). apply pick_none_iff. exact Hc.
Qed.

(* T4: the defect made explicit: at the end of the text the position one
   BEFORE the reported target is a word end strictly before the cursor *)
Theorem C02x_previous_word_ending_at_end_off_by_one d count WORD r :
  valid d -> 1 <= count -> dcur d = len (dtext d) ->
  find_previous_word_ending d count WORD = Some r ->
  word_end (word_cls WORD) (dtext d) (dcur d + r - 1) /\ dcur d + r - 1 < dcur d.
Proof.
  intros Hv Hc He Hr.
  assert (Hl : enumerates (fun j => j < dcur d /\ word_end (word_cls WORD) (dtext d) j)
                 (rev (map (fun j => len (dtext d) - j)
                         (drop0 (map fst (runs (word_cls WORD) (rev (dtext d)))))))).
  { apply (enumerates_ext (fun j => j < len (dtext d) /\ word_end (word_cls WORD) (dtext d) j)).
    - intros j. rewrite He. apply iff_refl.
    - apply ends_before_end_enum. }
  rewrite (C02x_previous_word_ending_at_end d count WORD Hv Hc He _ Hl) in Hr.
  rewrite rev_involutive in Hr.
  destruct (pick (map (fun j => len (dtext d) - j)
                    (drop0 (map fst (runs (word_cls WORD) (rev (dtext d)))))) count)
    as [x|] eqn:Ep; [|discriminate].
  cbn [option_map] in Hr. inversion Hr as [Hr']. clear Hr.
  apply pick_some_in in Ep.
  destruct Hl as [_ M]. apply in_rev in Ep. apply M in Ep. destruct Ep as [Hx Hw].
  replace (dcur d + (x + 1 - dcur d) - 1) with x by lia. split; [exact Hw|exact Hx].
Qed.
