(* C19 - get_opposite_color's float kernel evaluated on the kernel's binary64
   primitives for EVERY colour with red value in 192 .. 255 (vm_compute over
   64 x 256 x 256 colours): every channel of the result passes [chan_ok]. *)
From Coq Require Import ZArith List Bool.
From PTK Require Import Proofs.C19_FloatChk.
Open Scope Z_scope.

Lemma opp_planes_ok_3 : opp_planes_ok 192 64 = true.
Proof. vm_cast_no_check (eq_refl true). Qed.
