(* Facts about the FileHistory byte-level model: framing round trip, torn
   writes, appends after a torn tail, several instances on one file. *)
From Coq Require Import ZArith List Bool Lia.
From PTK Require Import Lib.Sx Lib.Py Model.C13_Utf8 Model.C13_HistFile Proofs.C13_Utf8Facts.
Import ListNotations.
Open Scope Z_scope.

Definition nolf (x : bytes) : Prop := ~ In NL x.

(* an entry the encoder accepts / a timestamp without line feed *)
Definition valid_rec (r : bytes * str) : Prop :=
  nolf (fst r) /\ forallb is_scalar (snd r) = true.

Definition file_of (rs : list (bytes * str)) : bytes :=
  flat_map (fun r => store_bytes (fst r) (snd r)) rs.

Definition elines (s : str) : list str := map (fun l => l ++ [NL]) (split_on NL s).

(* ---- lines_of ---------------------------------------------------------- *)
Lemma nolf_cons a x : nolf (a :: x) -> a <> NL /\ nolf x.
Proof. unfold nolf. intros H. split; intro; apply H; [left; congruence|now right]. Qed.

Lemma lines_of_nolf x : nolf x -> lines_of x = match x with [] => [] | _ => [x] end.
Proof.
  induction x as [|a x IH]; intros H; [reflexivity|].
  apply nolf_cons in H as [Ha Hx]. cbn [lines_of].
  destruct (a =? NL) eqn:E; [apply Z.eqb_eq in E; contradiction|].
  rewrite IH by assumption. destruct x; reflexivity.
Qed.

Lemma lines_of_app_lf x Y : nolf x -> lines_of (x ++ NL :: Y) = (x ++ [NL]) :: lines_of Y.
Proof.
  induction x as [|a x IH]; intros H.
  - cbn [app lines_of]. now rewrite Z.eqb_refl.
  - apply nolf_cons in H as [Ha Hx]. cbn [app lines_of].
    destruct (a =? NL) eqn:E; [apply Z.eqb_eq in E; contradiction|].
    now rewrite IH.
Qed.

Lemma lines_of_nonempty Z0 : Z0 <> [] -> lines_of Z0 <> [].
Proof.
  destruct Z0 as [|a r]; [congruence|]. intros _. cbn [lines_of].
  destruct (a =? NL); [discriminate|]. destruct (lines_of r); discriminate.
Qed.

Lemma lines_of_snoc_app X Y :
  lines_of ((X ++ [NL]) ++ Y) = lines_of (X ++ [NL]) ++ lines_of Y.
Proof.
  induction X as [|a X IH].
  - cbn [app lines_of]. now rewrite Z.eqb_refl.
  - cbn [app lines_of]. destruct (a =? NL).
    + cbn [app]. now rewrite <- IH.
    + cbn [app] in IH. rewrite IH.
      destruct (lines_of (X ++ [NL])) as [|l ls] eqn:E.
      * exfalso. revert E. apply lines_of_nonempty. now destruct X.
      * reflexivity.
Qed.

(* ---- one loop step ------------------------------------------------------ *)
Lemma startswith_cons1 x t c : startswith (x :: t) [c] = (x =? c).
Proof. cbn [startswith]. destruct t; now rewrite andb_true_r. Qed.

Lemma slice_from_1 (x : Z) (t : str) : slice_from (x :: t) 1 = t.
Proof.
  rewrite slice_from_in_range; [reflexivity|lia|]. rewrite len_cons. pose proof (len_nonneg t). lia.
Qed.

Lemma slice_to_m1 (x : str) : slice_to (x ++ [NL]) (-1) = x.
Proof.
  unfold slice_to, slice, adj_index. rewrite len_app.
  change (len [NL]) with 1. change (-1 <? 0) with true. cbv iota.
  pose proof (len_nonneg x) as Hx.
  rewrite Z.max_r by lia.
  destruct (0 <? -1 + (len x + 1)) eqn:E.
  - cbn [skipn Z.to_nat]. replace (-1 + (len x + 1) - 0) with (len x) by lia.
    unfold len. rewrite Nat2Z.id. rewrite firstn_app, Nat.sub_diag, firstn_all. cbn [firstn].
    apply app_nil_r.
  - assert (len x = 0) by lia. destruct x; [reflexivity|]. rewrite len_cons in *.
    pose proof (len_nonneg x). lia.
Qed.

Lemma add_nil st : add st [] = st.
Proof. reflexivity. Qed.

Lemma add_shape st ln : exists d, add st ln = st ++ d /\ (length d <= 1)%nat.
Proof.
  destruct ln as [|l r].
  - exists []. split; [now rewrite app_nil_r|auto].
  - eexists [_]. split; [reflexivity|auto].
Qed.

Lemma loop_nonplus lb r st ln :
  startswith (utf8_dec lb) [PLUS] = false ->
  load_loop (lb :: r) st ln = load_loop r (add st ln) [].
Proof. intros H. cbn [load_loop]. cbv zeta. now rewrite H. Qed.

Lemma loop_plus t r st ln :
  load_loop ((PLUS :: t) :: r) st ln = load_loop r st (ln ++ [utf8_dec t]).
Proof.
  cbn [load_loop]. cbv zeta. rewrite (dec_head_ascii PLUS t) by (unfold PLUS; lia).
  rewrite startswith_cons1, Z.eqb_refl, slice_from_1. reflexivity.
Qed.

Lemma dec_lf : utf8_dec [NL] = [NL].
Proof. rewrite dec_head_ascii by (unfold NL; lia). reflexivity. Qed.

Lemma nonplus_lf : startswith (utf8_dec [NL]) [PLUS] = false.
Proof. rewrite dec_lf. reflexivity. Qed.

Lemma nonplus_head b t : b <> PLUS -> startswith (utf8_dec (b :: t)) [PLUS] = false.
Proof.
  intros Hb. pose proof (dec_head_not_plus b t Hb) as H.
  destruct (utf8_dec (b :: t)) as [|x u]; [contradiction|].
  rewrite startswith_cons1. apply Z.eqb_neq. exact H.
Qed.

Lemma loop_app l1 st ln :
  exists st' ln', forall l2, load_loop (l1 ++ l2) st ln = load_loop l2 st' ln'.
Proof.
  revert st ln. induction l1 as [|lb l1 IH]; intros st ln.
  - exists st, ln. reflexivity.
  - cbn [app load_loop]. cbv zeta.
    destruct (startswith (utf8_dec lb) [PLUS]); apply IH.
Qed.

(* ---- split / join -------------------------------------------------------- *)
Lemma split_aux_concat c s cur :
  concat (map (fun l => l ++ [c]) (split_on_aux c s cur)) = rev cur ++ s ++ [c].
Proof.
  revert cur. induction s as [|x s IH]; intros cur.
  - cbn [split_on_aux map concat app]. now rewrite app_nil_r.
  - cbn [split_on_aux]. destruct (x =? c) eqn:E.
    + apply Z.eqb_eq in E. subst x. cbn [map concat]. rewrite IH. cbn [rev app].
      now rewrite <- app_assoc.
    + rewrite IH. cbn [rev]. rewrite <- app_assoc. reflexivity.
Qed.

Lemma split_aux_forall (P : Z -> Prop) c s cur :
  Forall P cur -> Forall P s ->
  Forall (fun l => Forall P l /\ ~ In c l) (split_on_aux c s cur) \/ In c cur.
Proof.
  revert cur. induction s as [|x s IH]; intros cur Hc Hs.
  - destruct (in_dec Z.eq_dec c cur) as [Hin|Hn]; [now right|left].
    cbn [split_on_aux]. constructor; [|constructor]. split.
    + apply Forall_rev. exact Hc.
    + intro H. apply Hn. now apply in_rev.
  - destruct (in_dec Z.eq_dec c cur) as [Hin|Hn]; [now right|left].
    inversion Hs as [|? ? Hx Hs']; subst. cbn [split_on_aux]. destruct (x =? c) eqn:E.
    + constructor.
      * split; [now apply Forall_rev|]. intro H. apply Hn. now apply in_rev.
      * destruct (IH [] (Forall_nil _) Hs') as [H|[]]. exact H.
    + destruct (IH (x :: cur)) as [H|H]; try assumption.
      * now constructor.
      * destruct H as [H|H]; [|contradiction]. apply Z.eqb_neq in E. congruence.
Qed.

Lemma split_lines_ok s :
  forallb is_scalar s = true ->
  Forall (fun l => forallb is_scalar l = true /\ nolf l) (split_on NL s).
Proof.
  intros H. unfold split_on.
  destruct (split_aux_forall (fun c => is_scalar c = true) NL s []) as [H1|[]].
  - constructor.
  - apply Forall_forall. now apply forallb_forall.
  - eapply Forall_impl; [|exact H1]. intros l [Hl Hn]. split; [|exact Hn].
    apply forallb_forall. now apply Forall_forall.
Qed.

Lemma split_nonempty c s : split_on c s <> [].
Proof.
  unfold split_on. generalize (@nil Z). induction s as [|x s IH]; intros cur; cbn [split_on_aux].
  - discriminate.
  - destruct (x =? c); [discriminate|apply IH].
Qed.

Lemma add_elines st s : add st (elines s) = st ++ [s].
Proof.
  unfold add, elines. destruct (map (fun l : list Z => l ++ [NL]) (split_on NL s)) as [|l r] eqn:E.
  - apply map_eq_nil in E. now apply split_nonempty in E.
  - rewrite <- E. unfold split_on. rewrite split_aux_concat. cbn [rev app].
    now rewrite slice_to_m1.
Qed.

(* ---- store --------------------------------------------------------------- *)
Definition hashline (ts : bytes) : bytes := HASH :: SP :: ts.

Lemma store_bytes_eq ts s : store_bytes ts s = NL :: (hashline ts ++ NL :: store_body s).
Proof.
  unfold store_bytes, store_head, hashline. cbn [app]. now rewrite <- app_assoc.
Qed.

Lemma hashline_nolf ts : nolf ts -> nolf (hashline ts).
Proof.
  unfold nolf, hashline. intros H [E|[E|E]]; [discriminate E|discriminate E|contradiction].
Qed.

Lemma plus_enc_nolf l :
  forallb is_scalar l = true -> nolf l -> nolf (PLUS :: utf8_enc_raw l).
Proof.
  intros Hs Hn [E|E]; [discriminate E|]. revert E. now apply enc_no_lf.
Qed.

Lemma store_lines_exec_ok ls :
  Forall (fun l => forallb is_scalar l = true /\ nolf l) ls ->
  store_lines_exec ls = (flat_map plus_line ls, true).
Proof.
  induction ls as [|l r IH]; intros H; [reflexivity|].
  inversion H as [|? ? [Hl _] Hr]; subst. cbn [store_lines_exec flat_map].
  rewrite Hl, IH by assumption. reflexivity.
Qed.

Lemma store_exec_ok ts s :
  forallb is_scalar s = true -> store_exec ts s = (store_bytes ts s, true).
Proof.
  intros H. unfold store_exec. rewrite store_lines_exec_ok by now apply split_lines_ok.
  reflexivity.
Qed.

(* ---- the loop over one complete record ----------------------------------- *)
Lemma loop_body ls rest st ln :
  Forall (fun l => forallb is_scalar l = true /\ nolf l) ls ->
  load_loop (lines_of (flat_map plus_line ls ++ rest)) st ln =
  load_loop (lines_of rest) st (ln ++ map (fun l => l ++ [NL]) ls).
Proof.
  revert ln. induction ls as [|l ls IH]; intros ln H.
  - cbn [flat_map map app]. now rewrite app_nil_r.
  - inversion H as [|? ? [Hl Hn] Hr]; subst. cbn [flat_map map]. unfold plus_line at 1.
    replace (((PLUS :: utf8_enc_raw l ++ [NL]) ++ flat_map plus_line ls) ++ rest)
      with ((PLUS :: utf8_enc_raw l) ++ NL :: (flat_map plus_line ls ++ rest))
      by (cbn [app]; rewrite <- !app_assoc; reflexivity).
    rewrite lines_of_app_lf by now apply plus_enc_nolf.
    cbn [app]. rewrite loop_plus. rewrite dec_enc by assumption. rewrite dec_lf.
    rewrite IH by assumption. now rewrite <- app_assoc.
Qed.

Lemma loop_store' ts s Y st ln :
  nolf ts -> forallb is_scalar s = true ->
  load_loop (lines_of (hashline ts ++ NL :: store_body s ++ Y)) st ln =
  load_loop (lines_of Y) (add st ln) (elines s).
Proof.
  intros Hts Hs. rewrite lines_of_app_lf by now apply hashline_nolf.
  rewrite loop_nonplus by (apply nonplus_head; discriminate).
  unfold store_body. rewrite loop_body by now apply split_lines_ok. reflexivity.
Qed.

Lemma loop_store ts s Y st ln :
  nolf ts -> forallb is_scalar s = true ->
  load_loop (lines_of (store_bytes ts s ++ Y)) st ln =
  load_loop (lines_of Y) (add st ln) (elines s).
Proof.
  intros Hts Hs. rewrite store_bytes_eq. cbn [app lines_of]. rewrite Z.eqb_refl.
  rewrite loop_nonplus by exact nonplus_lf. rewrite <- app_assoc. cbn [app].
  rewrite loop_store' by assumption. reflexivity.
Qed.

Lemma loop_file rs st ln :
  Forall valid_rec rs ->
  exists st' ln',
    (forall Y, load_loop (lines_of (file_of rs ++ Y)) st ln = load_loop (lines_of Y) st' ln')
    /\ add st' ln' = add st ln ++ map snd rs.
Proof.
  revert st ln. induction rs as [|r rs IH]; intros st ln H.
  - exists st, ln. split; [reflexivity|]. now rewrite app_nil_r.
  - inversion H as [|? ? [Hts Hs] Hr]; subst.
    destruct (IH (add st ln) (elines (snd r)) Hr) as (st' & ln' & HY & Hadd).
    exists st', ln'. split.
    + intros Y. unfold file_of. cbn [flat_map]. rewrite <- app_assoc.
      rewrite loop_store by assumption. apply HY.
    + rewrite Hadd, add_elines. cbn [map]. now rewrite <- app_assoc.
Qed.

(* Round trip: whatever was appended is read back, newest first. *)
Theorem roundtrip rs :
  Forall valid_rec rs -> load_bytes (file_of rs) = rev (map snd rs).
Proof.
  intros H. unfold load_bytes. destruct (loop_file rs [] [] H) as (st' & ln' & HY & Hadd).
  specialize (HY []). rewrite app_nil_r in HY. rewrite HY. cbn [lines_of load_loop].
  rewrite Hadd. reflexivity.
Qed.

(* Complete records appended after ANY file content: everything that was
   readable before (with the dangling last line closed by the record's
   leading "\n") is kept, the new entries come first. *)
Theorem append_after_any X rs2 :
  Forall valid_rec rs2 -> rs2 <> [] ->
  load_bytes (X ++ file_of rs2) = rev (map snd rs2) ++ load_bytes (X ++ [NL]).
Proof.
  intros H Hne. destruct rs2 as [|r rs2]; [congruence|].
  inversion H as [|? ? [Hts Hs] Hr]; subst.
  unfold load_bytes. unfold file_of. cbn [flat_map]. rewrite store_bytes_eq.
  replace (X ++ (NL :: hashline (fst r) ++ NL :: store_body (snd r)) ++ flat_map (fun r0 => store_bytes (fst r0) (snd r0)) rs2)
    with ((X ++ [NL]) ++ (hashline (fst r) ++ NL :: store_body (snd r) ++ file_of rs2)).
  2:{ unfold file_of. rewrite <- !app_assoc. cbn [app]. rewrite <- !app_assoc. reflexivity. }
  rewrite lines_of_snoc_app.
  destruct (loop_app (lines_of (X ++ [NL])) [] []) as (st1 & ln1 & H1).
  rewrite H1. pose proof (H1 []) as H1'. rewrite app_nil_r in H1'. rewrite H1'.
  cbn [load_loop]. rewrite loop_store' by assumption.
  destruct (loop_file rs2 (add st1 ln1) (elines (snd r)) Hr) as (st' & ln' & HY & Hadd).
  specialize (HY []). rewrite app_nil_r in HY. rewrite HY. cbn [lines_of load_loop].
  rewrite Hadd, add_elines. cbn [map rev]. rewrite !rev_app_distr. cbn [rev app].
  rewrite <- app_assoc. reflexivity.
Qed.

(* ---- prefixes (torn writes) ------------------------------------------------ *)
Lemma split_at_lf x Y q q' :
  nolf x -> q ++ q' = x ++ NL :: Y ->
  (exists x2, x = q ++ x2) \/ (exists q2, q = x ++ NL :: q2 /\ q2 ++ q' = Y).
Proof.
  intros Hx E. apply app_eq_app in E as [l [[E1 E2]|[E1 E2]]].
  - destruct l as [|b l].
    + left. exists []. rewrite E1. now rewrite !app_nil_r.
    + cbn [app] in E2. injection E2 as <- E2. right. exists l. split; [exact E1|now symmetry].
  - left. exists l. exact E1.
Qed.

Lemma nolf_prefix q x2 : nolf (q ++ x2) -> nolf q.
Proof. unfold nolf. intros H Hin. apply H. apply in_or_app. now left. Qed.

Definition hp (lb : bytes) : Prop := exists t, lb = PLUS :: t.

Lemma loop_plus_then pl r st ln :
  Forall hp pl ->
  load_loop (pl ++ r) st ln = load_loop r st (ln ++ map (fun lb => utf8_dec (tl lb)) pl).
Proof.
  revert ln. induction pl as [|lb pl IH]; intros ln H.
  - cbn [app map]. now rewrite app_nil_r.
  - inversion H as [|? ? [t ->] Hr]; subst. cbn [app map tl]. rewrite loop_plus.
    rewrite IH by assumption. now rewrite <- app_assoc.
Qed.

Lemma add_shape' ln : exists d, (length d <= 1)%nat /\ forall st, add st ln = st ++ d.
Proof.
  destruct ln as [|l r].
  - exists []. split; [auto|]. intros st. now rewrite app_nil_r.
  - eexists [_]. split; [auto|]. intros st. reflexivity.
Qed.

Lemma body_prefix ls :
  Forall (fun l => forallb is_scalar l = true /\ nolf l) ls ->
  forall q q', q ++ q' = flat_map plus_line ls ->
  Forall hp (lines_of q) /\
  exists pl tail, lines_of (q ++ [NL]) = pl ++ tail /\ Forall hp pl /\ (tail = [] \/ tail = [[NL]]).
Proof.
  assert (Hnil : Forall hp (lines_of []) /\
     exists pl tail, lines_of ([] ++ [NL]) = pl ++ tail /\ Forall hp pl /\ (tail = [] \/ tail = [[NL]])).
  { split; [constructor|]. exists [], [[NL]]. cbn [app lines_of]. rewrite Z.eqb_refl.
    repeat split; auto. }
  induction ls as [|l ls IH]; intros H q q' E.
  - cbn [flat_map] in E. apply app_eq_nil in E as [-> _]. exact Hnil.
  - inversion H as [|? ? [Hl Hn] Hr]; subst. cbn [flat_map] in E. unfold plus_line at 1 in E.
    replace ((PLUS :: utf8_enc_raw l ++ [NL]) ++ flat_map plus_line ls)
      with ((PLUS :: utf8_enc_raw l) ++ NL :: flat_map plus_line ls) in E
      by (cbn [app]; rewrite <- !app_assoc; reflexivity).
    pose proof (plus_enc_nolf l Hl Hn) as Hx.
    destruct (split_at_lf _ _ _ _ Hx E) as [[x2 Ex]|[q2 [Eq E2]]].
    + destruct q as [|b q0]; [exact Hnil|].
      cbn [app] in Ex. injection Ex as <- Ex.
      assert (Hq : nolf (PLUS :: q0)).
      { intros [F|F]; [discriminate F|]. apply Hx. right. rewrite Ex. apply in_or_app. now left. }
      split.
      * rewrite lines_of_nolf by exact Hq. constructor; [now exists q0|constructor].
      * exists [(PLUS :: q0) ++ [NL]], []. rewrite (lines_of_app_lf (PLUS :: q0) []) by exact Hq.
        cbn [lines_of app]. repeat split; auto. constructor; [|constructor].
        now exists (q0 ++ [NL]).
    + destruct (IH Hr q2 q' E2) as [H1 (pl & tail & H2 & H3 & H4)]. subst q. split.
      * rewrite lines_of_app_lf by exact Hx. constructor; [|exact H1].
        now exists (utf8_enc_raw l ++ [NL]).
      * exists (((PLUS :: utf8_enc_raw l) ++ [NL]) :: pl), tail.
        replace (((PLUS :: utf8_enc_raw l) ++ NL :: q2) ++ [NL])
          with ((PLUS :: utf8_enc_raw l) ++ NL :: (q2 ++ [NL])) by (rewrite <- app_assoc; reflexivity).
        rewrite (lines_of_app_lf (PLUS :: utf8_enc_raw l)) by exact Hx.
        rewrite H2. cbn [app]. repeat split; auto. constructor; [|exact H3].
        now exists (utf8_enc_raw l ++ [NL]).
Qed.

(* what the loader makes of a prefix of one record (with and without a line
   feed put after it): it flushes the pending entry and adds at most one string *)
Definition shape (X : bytes) : Prop :=
  exists d, (length d <= 1)%nat /\ forall st ln, load_loop (lines_of X) st ln = add st ln ++ d.

Lemma shape_nil : shape [].
Proof. exists []. split; [auto|]. intros. cbn [lines_of load_loop]. now rewrite app_nil_r. Qed.

Lemma shape_lf : shape [NL].
Proof.
  exists []. split; [auto|]. intros. cbn [lines_of]. rewrite Z.eqb_refl.
  rewrite loop_nonplus by exact nonplus_lf. cbn [load_loop]. rewrite add_nil. now rewrite app_nil_r.
Qed.

Lemma rec_prefix_shape ts s q q' :
  nolf ts -> forallb is_scalar s = true -> q ++ q' = store_bytes ts s ->
  shape q /\ shape (q ++ [NL]).
Proof.
  intros Hts Hs E. rewrite store_bytes_eq in E.
  destruct q as [|b q1]; [split; [exact shape_nil|exact shape_lf]|].
  cbn [app] in E. injection E as -> E.
  pose proof (hashline_nolf ts Hts) as Hh.
  destruct (split_at_lf _ _ _ _ Hh E) as [[x2 Ex]|[q2 [Eq E2]]].
  - (* inside the "# timestamp" line *)
    assert (Hq1 : nolf q1) by (apply (nolf_prefix q1 x2); now rewrite <- Ex).
    assert (Hnp : forall t, startswith (utf8_dec (q1 ++ t)) [PLUS] = false \/ q1 = []).
    { intros t. destruct q1 as [|c q1']; [now right|left].
      unfold hashline in Ex. cbn [app] in Ex. injection Ex as <- _.
      cbn [app]. apply nonplus_head. discriminate. }
    split.
    + exists []. split; [auto|]. intros st ln. cbn [lines_of]. rewrite Z.eqb_refl.
      rewrite loop_nonplus by exact nonplus_lf. rewrite lines_of_nolf by exact Hq1.
      destruct q1 as [|c q1'].
      * cbn [load_loop]. rewrite add_nil. now rewrite app_nil_r.
      * destruct (Hnp []) as [Hp|Hp]; [|discriminate Hp]. rewrite app_nil_r in Hp.
        rewrite loop_nonplus by exact Hp. cbn [load_loop]. rewrite !add_nil. now rewrite app_nil_r.
    + exists []. split; [auto|]. intros st ln. cbn [app lines_of]. rewrite Z.eqb_refl.
      rewrite loop_nonplus by exact nonplus_lf.
      rewrite (lines_of_app_lf q1 []) by exact Hq1. cbn [lines_of].
      destruct (Hnp [NL]) as [Hp|Hp].
      * rewrite loop_nonplus by exact Hp. cbn [load_loop]. rewrite !add_nil. now rewrite app_nil_r.
      * subst q1. cbn [app]. rewrite loop_nonplus by exact nonplus_lf. cbn [load_loop].
        rewrite !add_nil. now rewrite app_nil_r.
  - (* inside the '+' lines *)
    subst q1. unfold store_body in E2.
    destruct (body_prefix _ (split_lines_ok s Hs) q2 q' E2) as [H1 (pl & tail & H2 & H3 & H4)].
    split.
    + destruct (add_shape' ([] ++ map (fun lb => utf8_dec (tl lb)) (lines_of q2))) as (d & Hd & Hadd).
      exists d. split; [exact Hd|]. intros st ln. cbn [lines_of]. rewrite Z.eqb_refl.
      rewrite loop_nonplus by exact nonplus_lf. rewrite lines_of_app_lf by exact Hh.
      rewrite loop_nonplus by (apply nonplus_head; discriminate). rewrite add_nil.
      rewrite <- (app_nil_r (lines_of q2)). rewrite loop_plus_then by exact H1.
      cbn [load_loop]. apply Hadd.
    + destruct (add_shape' ([] ++ map (fun lb => utf8_dec (tl lb)) pl)) as (d & Hd & Hadd).
      exists d. split; [exact Hd|]. intros st ln. cbn [app lines_of]. rewrite Z.eqb_refl.
      rewrite loop_nonplus by exact nonplus_lf. rewrite <- app_assoc. cbn [app].
      rewrite lines_of_app_lf by exact Hh.
      rewrite loop_nonplus by (apply nonplus_head; discriminate). rewrite add_nil.
      rewrite H2. rewrite loop_plus_then by exact H3.
      destruct H4 as [->| ->].
      * cbn [load_loop]. apply Hadd.
      * rewrite loop_nonplus by exact nonplus_lf. cbn [load_loop]. rewrite add_nil. apply Hadd.
Qed.

Lemma firstn_S_nth {T} (l : list T) k r :
  nth_error l k = Some r -> firstn (S k) l = firstn k l ++ [r].
Proof.
  revert k. induction l as [|x l IH]; intros [|k] H; cbn in H; try discriminate.
  - injection H as ->. reflexivity.
  - cbn [firstn app]. f_equal. now apply IH.
Qed.

Lemma file_of_app a b : file_of (a ++ b) = file_of a ++ file_of b.
Proof. apply flat_map_app. Qed.

Lemma store_bytes_len ts s : (1 <= length (store_bytes ts s))%nat.
Proof. rewrite store_bytes_eq. cbn [length]. lia. Qed.

(* k = the number of records lying wholly inside the prefix p *)
Definition complete_in (rs : list (bytes * str)) (p : bytes) (k : nat) : Prop :=
  (k <= length rs)%nat /\
  (exists q, p = file_of (firstn k rs) ++ q) /\
  ((k < length rs)%nat -> (length p < length (file_of (firstn (S k) rs)))%nat).

Lemma file_prefix rs :
  forall p sfx, p ++ sfx = file_of rs ->
  exists k q, (k <= length rs)%nat /\ p = file_of (firstn k rs) ++ q /\
    (q = [] \/ exists r q', nth_error rs k = Some r /\ q ++ q' = store_bytes (fst r) (snd r) /\ q' <> []).
Proof.
  induction rs as [|r rs IH]; intros p sfx E.
  - cbn in E. apply app_eq_nil in E as [-> _]. exists 0%nat, []. repeat split; auto.
  - unfold file_of in E. cbn [flat_map] in E. fold (file_of rs) in E.
    apply app_eq_app in E as [l [[E1 E2]|[E1 E2]]].
    + destruct (IH l sfx (eq_sym E2)) as (k & q & Hk & Hp & Hq).
      exists (S k), q. split; [cbn [length]; lia|]. split.
      * cbn [firstn]. unfold file_of. cbn [flat_map]. fold (file_of (firstn k rs)).
        rewrite <- app_assoc. rewrite <- Hp. exact E1.
      * destruct Hq as [->|(r' & q' & Hn & Hs & Hne)]; [now left|right].
        exists r', q'. cbn [nth_error]. auto.
    + destruct l as [|b l].
      * exists 1%nat, []. split; [cbn [length]; lia|]. split; [|now left].
        cbn [firstn]. unfold file_of. cbn [flat_map]. rewrite !app_nil_r in *. now symmetry.
      * exists 0%nat, p. split; [lia|]. split; [reflexivity|]. right.
        exists r, (b :: l). cbn [nth_error]. split; [reflexivity|]. split; [now symmetry|discriminate].
Qed.

Lemma Forall_firstn' {T} (P : T -> Prop) (l : list T) k : Forall P l -> Forall P (firstn k l).
Proof.
  intros H. rewrite <- (firstn_skipn k l) in H. now apply Forall_app in H as [H _].
Qed.

Lemma load_after_complete rs X :
  Forall valid_rec rs -> shape X ->
  exists d, (length d <= 1)%nat /\ load_bytes (file_of rs ++ X) = d ++ rev (map snd rs).
Proof.
  intros H (d & Hd & HX). unfold load_bytes.
  destruct (loop_file rs [] [] H) as (st' & ln' & HY & Hadd).
  rewrite HY, HX, Hadd. cbn [add app]. exists (rev d). split; [now rewrite rev_length|].
  now rewrite rev_app_distr.
Qed.

Lemma complete_in_of rs p k q :
  (k <= length rs)%nat -> p = file_of (firstn k rs) ++ q ->
  (q = [] \/ exists r q', nth_error rs k = Some r /\ q ++ q' = store_bytes (fst r) (snd r) /\ q' <> []) ->
  complete_in rs p k.
Proof.
  intros Hk Hp Hq. split; [exact Hk|]. split; [now exists q|]. intros Hlt.
  destruct (nth_error rs k) as [r|] eqn:En.
  2:{ apply nth_error_None in En. lia. }
  rewrite (firstn_S_nth rs k r En), file_of_app, app_length. subst p. rewrite app_length.
  unfold file_of at 3. cbn [flat_map]. rewrite app_nil_r.
  destruct Hq as [->|(r' & q' & Hn & Hs & Hne)].
  - cbn [length]. pose proof (store_bytes_len (fst r) (snd r)). lia.
  - injection Hn as <-. rewrite <- Hs, app_length.
    destruct q'; [congruence|]. cbn [length]. lia.
Qed.

(* Torn write: cut the file anywhere. *)
Theorem torn rs p sfx :
  Forall valid_rec rs -> p ++ sfx = file_of rs ->
  exists k d, complete_in rs p k /\ (length d <= 1)%nat /\
    load_bytes p = d ++ rev (firstn k (map snd rs)) /\
    (p = file_of (firstn k rs) -> d = []).
Proof.
  intros H E. destruct (file_prefix rs p sfx E) as (k & q & Hk & Hp & Hq).
  pose proof (complete_in_of rs p k q Hk Hp Hq) as Hc.
  pose proof (Forall_firstn' _ _ k H) as Hv.
  destruct Hq as [->|(r & q' & Hn & Hs & Hne)].
  - exists k, []. rewrite app_nil_r in Hp. subst p.
    rewrite roundtrip by exact Hv. rewrite firstn_map. auto.
  - assert (Hr : valid_rec r).
    { apply nth_error_In in Hn. revert Hn. now apply Forall_forall. }
    destruct Hr as [Hts Hsc].
    destruct (rec_prefix_shape _ _ q q' Hts Hsc Hs) as [Hsh _].
    destruct (load_after_complete _ q Hv Hsh) as (d & Hd & Hl).
    exists k. destruct q as [|b q0].
    + exists []. rewrite app_nil_r in Hp. subst p. rewrite roundtrip by exact Hv.
      rewrite firstn_map. auto.
    + exists d. subst p. rewrite Hl, firstn_map.
      split; [exact Hc|]. split; [exact Hd|]. split; [reflexivity|].
      intros Ep. rewrite <- (app_nil_r (file_of (firstn k rs))) in Ep at 2.
      apply app_inv_head in Ep. discriminate Ep.
Qed.

(* ... and keep appending afterwards. *)
Theorem torn_then_append rs rs2 p sfx :
  Forall valid_rec rs -> Forall valid_rec rs2 -> p ++ sfx = file_of rs ->
  exists k d, complete_in rs p k /\ (length d <= 1)%nat /\
    load_bytes (p ++ file_of rs2) = rev (map snd rs2) ++ d ++ rev (firstn k (map snd rs)) /\
    (p = file_of (firstn k rs) -> d = []).
Proof.
  intros H H2 E. destruct rs2 as [|r2 rs2].
  { destruct (torn rs p sfx H E) as (k & d & Hc & Hd & Hl & Hz).
    exists k, d. cbn [file_of flat_map map rev app]. rewrite app_nil_r. auto. }
  destruct (file_prefix rs p sfx E) as (k & q & Hk & Hp & Hq).
  pose proof (complete_in_of rs p k q Hk Hp Hq) as Hc.
  pose proof (Forall_firstn' _ _ k H) as Hv.
  rewrite append_after_any by (assumption || discriminate).
  assert (Hsh : shape (q ++ [NL]) /\ (q = [] -> True)).
  { destruct Hq as [->|(r & q' & Hn & Hs & Hne)]; [split; [exact shape_lf|auto]|].
    assert (Hr : valid_rec r).
    { apply nth_error_In in Hn. revert Hn. now apply Forall_forall. }
    destruct Hr as [Hts Hsc]. split; [|auto]. now apply (rec_prefix_shape _ _ q q' Hts Hsc Hs). }
  destruct Hsh as [Hsh _].
  destruct q as [|b q0].
  - exists k, []. rewrite app_nil_r in Hp. subst p. split; [exact Hc|]. split; [auto|]. split; [|auto].
    destruct (load_after_complete _ [NL] Hv shape_lf) as (d & Hd & Hl).
    (* the lone "\n" adds nothing *)
    unfold load_bytes in *. destruct (loop_file (firstn k rs) [] [] Hv) as (st' & ln' & HY & Hadd).
    rewrite HY. cbn [lines_of]. rewrite Z.eqb_refl. rewrite loop_nonplus by exact nonplus_lf.
    cbn [load_loop]. rewrite add_nil, Hadd. cbn [add app]. now rewrite firstn_map.
  - destruct (load_after_complete _ _ Hv Hsh) as (d & Hd & Hl).
    exists k, d. subst p. rewrite <- app_assoc, Hl, firstn_map.
    split; [exact Hc|]. split; [exact Hd|]. split; [reflexivity|].
    intros Ep. rewrite <- (app_nil_r (file_of (firstn k rs))) in Ep at 2.
    apply app_inv_head in Ep. discriminate Ep.
Qed.

(* ---- several instances on one file ----------------------------------------- *)
Definition appends (ops : list fop) : list (bytes * str) :=
  flat_map (fun o => match o with OAppend _ ts s => [(ts, s)] | _ => [] end) ops.
Definition no_damage (ops : list fop) : bool :=
  forallb (fun o => match o with OTrunc _ | ORaw _ => false | _ => true end) ops.

Lemma fexec_file ops st :
  Forall valid_rec (appends ops) -> no_damage ops = true ->
  f_file (fexec st ops) = f_file st ++ file_of (appends ops).
Proof.
  revert st. induction ops as [|o ops IH]; intros st Hv Hd.
  - cbn. now rewrite app_nil_r.
  - cbn [no_damage forallb] in Hd. apply andb_true_iff in Hd as [Ho Hd].
    cbn [fexec]. destruct o as [i ts s| |n|i|i|b|i|i]; try discriminate Ho.
    + unfold appends in Hv. cbn [flat_map app] in Hv. inversion Hv as [|? ? [Hts Hs] Hv']; subst.
      cbn [fst snd] in *. rewrite IH by assumption.
      unfold fstep. rewrite store_exec_ok by exact Hs. cbn [fst f_file].
      unfold appends at 2. cbn [flat_map app]. unfold file_of at 2. cbn [flat_map fst snd].
      now rewrite <- app_assoc.
    + rewrite IH by assumption. reflexivity.
    + rewrite IH by assumption. reflexivity.
    + rewrite IH by assumption. reflexivity.
    + rewrite IH by assumption. reflexivity.
    + rewrite IH by assumption. f_equal. unfold fstep.
      destruct (i_it match i_it (nth i (f_insts st) fresh_inst) with
                     | ItFresh => _ | _ => _ end) as [| |n|]; try reflexivity.
      destruct (nth_error _ n); reflexivity.
Qed.

(* Whatever instances did the appends, in whatever alternation, with loads and
   get_strings in between: a fresh instance reads all entries, newest first. *)
Theorem instances_roundtrip ops :
  Forall valid_rec (appends ops) -> no_damage ops = true ->
  load_bytes (f_file (fexec finit ops)) = rev (map snd (appends ops)).
Proof.
  intros Hv Hd. rewrite fexec_file by assumption. cbn [finit f_file app].
  now apply roundtrip.
Qed.
