From Coq Require Import ZArith List Bool Lia.
From PTK Require Import Lib.Sx Lib.Py Model.C13_Inline Model.C13_Threaded Proofs.C13_ThreadedFacts.
Import ListNotations.
Open Scope Z_scope.

(* without appends: k steps yield the first k entries, newest first *)
Lemma inline_nexts k : forall st,
  i_done st = false -> i_out st = firstn (i_idx st) (i_ls st) -> (i_idx st <= length (i_ls st))%nat ->
  let st' := irun st (repeat INext k) in
  i_ls st' = i_ls st /\ i_out st' = firstn (i_idx st + k) (i_ls st) /\
  (i_done st' = true <-> (length (i_ls st) < i_idx st + k)%nat).
Proof.
  induction k as [|k IH]; intros st Hd Ho Hi.
  - cbn. rewrite Nat.add_0_r, Hd. repeat split; auto; [discriminate|lia].
  - cbn [repeat].
    change (irun st (INext :: repeat INext k)) with (irun (istep st INext) (repeat INext k)).
    destruct (nth_error (i_ls st) (i_idx st)) as [x|] eqn:En.
    + assert (E1 : istep st INext = mki (i_ls st) (i_store st) (S (i_idx st)) (i_out st ++ [x]) false (i_copy st))
        by (unfold istep; rewrite Hd, En; reflexivity).
      rewrite E1.
      assert (Hlt : (i_idx st < length (i_ls st))%nat) by (apply nth_error_Some; congruence).
      specialize (IH (mki (i_ls st) (i_store st) (S (i_idx st)) (i_out st ++ [x]) false (i_copy st))).
      cbn [i_done i_out i_idx i_ls] in IH.
      destruct IH as (H1 & H2 & H3); [reflexivity| |lia|].
      * rewrite Ho. clear -En. revert En. generalize (i_idx st) as n. generalize (i_ls st) as l.
        induction l as [|y l IHl]; intros [|n] E; cbn in E; try discriminate.
        -- injection E as ->. reflexivity.
        -- cbn [firstn app]. f_equal. now apply IHl.
      * rewrite H1, H2. replace (S (i_idx st) + k)%nat with (i_idx st + S k)%nat by lia.
        repeat split; auto; intros; [apply H3 in H|apply H3]; lia.
    + assert (Hge : (length (i_ls st) <= i_idx st)%nat) by now apply nth_error_None.
      assert (Hstay : forall n s, i_done s = true -> irun s (repeat INext n) = s).
      { induction n as [|n IHn]; intros s Hs; [reflexivity|].
        cbn [repeat]. unfold irun. cbn [fold_left]. unfold istep at 2. rewrite Hs. apply IHn, Hs. }
      assert (E1 : istep st INext = mki (i_ls st) (i_store st) (i_idx st) (i_out st) true (i_copy st))
        by (unfold istep; rewrite Hd, En; reflexivity).
      rewrite E1, Hstay by reflexivity. cbn [i_ls i_out i_done]. rewrite Ho.
      rewrite !firstn_all2 by lia. repeat split; auto. intros _. lia.
Qed.

(* Inline loading with no append in between = the storage, newest first - the
   reference sequence of the property.  (A finished threaded load() yields
   [rev (c_start c)], C13_threaded_exactly_once: the same list when it started
   on the same storage.) *)
Theorem inline_no_append S0 k :
  let st := irun (iinit S0) (repeat INext k) in
  i_out st = firstn k (rev S0) /\ (i_done st = true <-> (length S0 < k)%nat).
Proof.
  destruct (inline_nexts k (iinit S0)) as (_ & H2 & H3); cbn; auto; [lia|].
  cbn in H2, H3. rewrite rev_length in H3. auto.
Qed.

(* An append during the iteration makes the iterator yield AGAIN the entry it
   yielded last - for every state, not just in an example. *)
Theorem inline_append_duplicates st s x :
  i_done st = false -> nth_error (i_ls st) (Nat.pred (i_idx st)) = Some x -> (1 <= i_idx st)%nat ->
  i_out (irun st [IAppend s; INext]) = i_out st ++ [x].
Proof.
  intros Hd Hx Hi. unfold irun. cbn [fold_left istep i_done i_ls i_idx i_out]. rewrite Hd.
  destruct (i_idx st) as [|n]; [lia|]. cbn [Nat.pred] in Hx. cbn [nth_error]. now rewrite Hx.
Qed.

Definition str_dec' : forall a b : str, {a = b} + {a <> b} := list_eq_dec Z.eq_dec.

(* hence exactly-once fails for inline loading too (observation C13-F3) *)
Theorem inline_exactly_once_refuted :
  ~ (forall S0 sched, NoDup (i_store (irun (iinit S0) sched)) -> NoDup (i_out (irun (iinit S0) sched))).
Proof.
  intros H. specialize (H [sa; sb; sc] [INext; INext; IAppend snew; INext; INext; INext]).
  assert (E : i_out (irun (iinit [sa; sb; sc]) [INext; INext; IAppend snew; INext; INext; INext]) = [sc; sb; sb; sa])
    by (vm_compute; reflexivity).
  rewrite E in H.
  assert (Hnd : NoDup [sa; sb; sc; snew]) by (repeat constructor; cbn; intuition discriminate).
  specialize (H Hnd). inversion H as [|? ? _ H1]; subst. inversion H1 as [|? ? Hin _]; subst.
  apply Hin. cbn. auto.
Qed.

(* The one-word repair: every schedule yields a prefix of the cache as it was
   when load() started; all of it once the iterator is done. *)
Lemma fixed_inv sched : forall st,
  (i_idx st <= length (i_copy st))%nat -> i_out st = firstn (i_idx st) (i_copy st) ->
  (i_done st = true -> i_idx st = length (i_copy st)) ->
  let st' := irun_fixed st sched in
  i_copy st' = i_copy st /\ i_out st' = firstn (i_idx st') (i_copy st) /\
  (i_done st' = true -> i_out st' = i_copy st).
Proof.
  induction sched as [|l r IH]; intros st Hi Ho Hd.
  - cbn. repeat split; auto. intros E. rewrite Ho, (Hd E). apply firstn_all.
  - unfold irun_fixed. cbn [fold_left]. fold (irun_fixed (istep_fixed st l) r).
    destruct l as [|s].
    + unfold istep_fixed. destruct (i_done st) eqn:Ed; [apply IH; auto; rewrite Ed; auto|].
      destruct (nth_error (i_copy st) (i_idx st)) as [x|] eqn:En.
      * assert (Hlt : (i_idx st < length (i_copy st))%nat) by (apply nth_error_Some; congruence).
        specialize (IH (mki (i_ls st) (i_store st) (S (i_idx st)) (i_out st ++ [x]) false (i_copy st))).
        cbn [i_copy i_idx i_out i_done] in IH. apply IH; [lia| |discriminate].
        rewrite Ho. clear -En. revert En. generalize (i_idx st) as n. generalize (i_copy st) as l.
        induction l as [|y l IHl]; intros [|n] E; cbn in E; try discriminate.
        -- injection E as ->. reflexivity.
        -- cbn [firstn app]. f_equal. now apply IHl.
      * assert (Hge : (length (i_copy st) <= i_idx st)%nat) by now apply nth_error_None.
        specialize (IH (mki (i_ls st) (i_store st) (i_idx st) (i_out st) true (i_copy st))).
        cbn [i_copy i_idx i_out i_done] in IH. apply IH; auto. intros _. lia.
    + specialize (IH (istep st (IAppend s))). cbn [istep i_copy i_idx i_out i_done] in IH.
      cbn [istep_fixed]. apply IH; auto.
Qed.

Theorem inline_fixed_exactly_once S0 sched :
  let st := irun_fixed (iinit S0) sched in
  pre (i_out st) (rev S0) /\ (i_done st = true -> i_out st = rev S0).
Proof.
  destruct (fixed_inv sched (iinit S0)) as (_ & H2 & H3); cbn; auto; [lia|discriminate|].
  cbn in H2, H3. split; [|exact H3]. rewrite H2.
  exists (skipn (i_idx (irun_fixed (iinit S0) sched)) (rev S0)). now rewrite firstn_skipn.
Qed.
