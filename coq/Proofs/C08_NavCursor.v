(* C08 - KeyProcessor._fix_vi_cursor_position is idempotent on every valid
   cursor (0 <= cursor <= len text), and therefore the count theorems of
   Proofs/C08_SessionFacts.v hold from ANY valid cursor, not only from a
   navigation cursor: the first digit handler moves a cursor that stands
   after the last character of a non-empty line onto that character, every
   later handler leaves it there. *)
From Coq Require Import ZArith List Bool Lia.
From PTK Require Import Lib.Sx Lib.Py Model.Document Model.BufferEdit Model.C02_DocQueries
  Model.C08_ViOps Model.C08_TextObjects Model.C08_Session
  Proofs.C02_Base Proofs.C02_Coords Proofs.C08_ViFacts Proofs.C08_Failed Proofs.C08_SessionFacts
  Proofs.C08_Commands.
Import ListNotations.
Open Scope Z_scope.

Definition at_eol (d : doc) : bool :=
  match current_char d with Some c => c =? NL | None => true end.

Lemma index_of_nth (s : str) i x :
  0 <= i -> nth_error s (Z.to_nat i) = Some x -> index s i = Some x.
Proof.
  intros Hi Hn. unfold index. cbv zeta.
  assert (Hlt : (Z.to_nat i < length s)%nat) by (apply nth_error_Some; congruence).
  destruct (i <? 0) eqn:E; [lia|]. rewrite E. cbn [orb].
  destruct (len s <=? i) eqn:E2; [unfold len in E2; lia|]. exact Hn.
Qed.

(* at a line ending / the end of the text nothing of the cursor line follows the cursor *)
Lemma eol_after_empty d : valid d -> at_eol d = true -> current_line_after_cursor d = [].
Proof.
  intros Hv He. destruct (C02c_line_parts d Hv) as (_ & Hno & _ & (q & Hq & _)).
  destruct (current_line_after_cursor d) as [|x r] eqn:Ec; [reflexivity|exfalso].
  rewrite (ta_skipn d Hv) in Hq.
  assert (Hn : nth_error (dtext d) (Z.to_nat (dcur d)) = Some x).
  { pose proof (c08_nth_error_skipn (dtext d) (Z.to_nat (dcur d)) 0) as H.
    rewrite Hq in H. cbn [app nth_error] in H. rewrite Nat.add_0_r in H. symmetry. exact H. }
  destruct Hv as [Hv0 Hv1].
  unfold at_eol, current_char in He. rewrite (index_of_nth _ _ _ Hv0 Hn) in He.
  apply Z.eqb_eq in He. subst x. cbn [mem_Z] in Hno. rewrite Z.eqb_refl in Hno. discriminate.
Qed.

(* when something of the cursor line precedes the cursor, the character before
   the cursor is not a line ending *)
Lemma before_last d :
  valid d -> 0 < len (current_line_before_cursor d) ->
  1 <= dcur d /\ exists x, nth_error (dtext d) (Z.to_nat (dcur d - 1)) = Some x /\ x <> NL.
Proof.
  intros Hv Hk. destruct (C02c_line_parts d Hv) as (Hno & _ & (p & Hp & _) & _).
  destruct (exists_last (l := current_line_before_cursor d)) as (r & x & Hr).
  { intros E. rewrite E in Hk. cbn in Hk. lia. }
  pose proof (len_tb d Hv) as Hl. rewrite Hp, Hr, !len_app in Hl. cbn [len length] in Hl.
  pose proof (len_nonneg p) as Hp0. pose proof (len_nonneg r) as Hr0.
  change (len [x]) with 1 in Hl.
  split; [lia|]. exists x. split.
  - pose proof (tb_firstn d Hv) as Hf.
    rewrite <- (c08_nth_error_firstn (dtext d) (Z.to_nat (dcur d)) (Z.to_nat (dcur d - 1))) by lia.
    rewrite <- Hf, Hp, Hr, app_assoc.
    rewrite nth_error_app2 by (rewrite app_length; unfold len in *; lia).
    replace (Z.to_nat (dcur d - 1) - length (p ++ r))%nat with 0%nat
      by (rewrite app_length; unfold len in *; lia).
    reflexivity.
  - intros ->. rewrite Hr in Hno.
    assert (Hm : mem_Z NL (r ++ [NL]) = true).
    { apply (c08_mem_Z_nth NL (r ++ [NL]) (length r)). rewrite nth_error_app2 by lia.
      rewrite Nat.sub_diag. reflexivity. }
    congruence.
Qed.

(* the two cases of the cursor fix-up *)
Lemma fix_vi_cursor_cases b :
  valid (bdoc b) ->
  fix_vi_cursor b = b \/
  (1 <= bcur b /\ fix_vi_cursor b = mkbuf (btext b) (bcur b - 1) /\
   exists x, nth_error (btext b) (Z.to_nat (bcur b - 1)) = Some x /\ x <> NL).
Proof.
  intros Hv. unfold fix_vi_cursor. cbv zeta. fold (at_eol (bdoc b)).
  destruct (at_eol (bdoc b)) eqn:Ee; [|left; reflexivity].
  destruct (0 <? len (current_line (bdoc b))) eqn:El; [|left; reflexivity].
  right. cbn [andb].
  assert (Hk : 0 < len (current_line_before_cursor (bdoc b))).
  { unfold current_line in El. rewrite (eol_after_empty _ Hv Ee), app_nil_r in El. lia. }
  destruct (before_last _ Hv Hk) as (H1 & x & Hn & Hx). cbn [bdoc dcur dtext] in H1, Hn.
  split; [exact H1|]. split; [|exists x; split; assumption].
  destruct Hv as [Hv0 Hv1]. cbn [bdoc dcur dtext] in Hv0, Hv1.
  unfold set_cursor. destruct (len (btext b) <? bcur b - 1) eqn:E1; [lia|].
  destruct (bcur b - 1 <? 0) eqn:E2; [lia|]. rewrite Z.max_r by lia. reflexivity.
Qed.

Theorem fix_vi_cursor_idem b :
  valid (bdoc b) -> fix_vi_cursor (fix_vi_cursor b) = fix_vi_cursor b.
Proof.
  intros Hv. destruct (fix_vi_cursor_cases b Hv) as [H|(H1 & H & x & Hn & Hx)]; rewrite H; [exact H|].
  unfold fix_vi_cursor. cbv zeta. unfold current_char. cbn [bdoc dtext dcur btext bcur].
  assert (H0 : 0 <= bcur b - 1) by lia.
  rewrite (index_of_nth (btext b) (bcur b - 1) x H0 Hn).
  destruct (x =? NL) eqn:E; [lia|]. reflexivity.
Qed.

Lemma fix_vi_cursor_valid b : valid (bdoc b) -> valid (bdoc (fix_vi_cursor b)).
Proof.
  intros Hv. destruct (fix_vi_cursor_cases b Hv) as [H|(H1 & H & _)]; rewrite H; [exact Hv|].
  unfold valid in *. cbn [bdoc dcur dtext btext bcur] in *. lia.
Qed.

(* after any navigation-mode handler the cursor is a navigation cursor *)
Lemma fix_vi_cursor_nav b : valid (bdoc b) -> nav_cursor (fix_vi_cursor b).
Proof. exact (fix_vi_cursor_idem b). Qed.

(* ---------------------------------------------------------------------- *)
(* Digits from any valid cursor *)

(* the state the digit handlers leave: in navigation mode (no operator
   pending) the first digit typed runs the cursor fix-up *)
Definition after_digits (s : kst) (ds : list Z) : kst :=
  match ds, ks_op s with
  | _ :: _, None =>
      mkks (with_buf (ks_vst s) (fix_vi_cursor (vbuf (ks_vst s)))) (ks_arg s) (ks_oparg s) (ks_op s) (ks_last s) (ks_find s)
  | _, _ => s
  end.

Lemma vins_with_buf st b : vins (with_buf st b) = vins st.
Proof. reflexivity. Qed.

Lemma run_digits_any p ds s rest :
  is_count (ks_arg s) ds -> vins (ks_vst s) = false -> valid (bdoc (vbuf (ks_vst s))) ->
  run_keys_gen p s (map KD ds ++ rest) =
  run_keys_gen p (with_arg (after_digits s ds) (typed (ks_arg s) ds)) rest.
Proof.
  intros Hc Hi Hv. destruct (ks_op s) as [op|] eqn:Eop.
  - replace (after_digits s ds) with s by (unfold after_digits; rewrite Eop; destruct ds; reflexivity).
    apply run_digits; [exact Hc|exact Hi|left; congruence].
  - destruct ds as [|d ds].
    + cbn [map app typed after_digits]. rewrite with_arg_same. reflexivity.
    + pose proof (fix_vi_cursor_nav _ Hv) as Hnav.
      cbn [map app run_keys_gen]. unfold key_step_gen at 1. cbv zeta. rewrite Eop.
      unfold after_digits. rewrite Eop.
      destruct (ks_arg s) as [a|] eqn:Ea.
      * cbn [fst snd ks_vst with_buf vins]. change (0 =? 0) with true. rewrite Hi. cbn [negb andb].
        rewrite run_digits;
          [|exact I|exact Hi|right; cbn [ks_vst with_buf vbuf]; exact Hnav].
        cbn [ks_arg typed with_arg ks_vst ks_oparg ks_op ks_last ks_find]. reflexivity.
      * cbn [is_count] in Hc. destruct (d =? 0) eqn:Ed; [lia|].
        cbn [fst snd ks_vst with_buf vins]. change (0 =? 0) with true. rewrite Hi. cbn [negb andb].
        rewrite run_digits;
          [|exact I|exact Hi|right; cbn [ks_vst with_buf vbuf]; exact Hnav].
        cbn [ks_arg typed with_arg ks_vst ks_oparg ks_op ks_last ks_find]. reflexivity.
Qed.

(* <count> operator <count> Esc from any valid cursor: only the cursor fix-up
   remains (cleared = nothing pending + fix-up), whatever was typed *)
Lemma cancelled_operator_any p s ds1 k keys ds2 rest :
  ks_op s = None -> vins (ks_vst s) = false -> valid (bdoc (vbuf (ks_vst s))) ->
  is_count (ks_arg s) ds1 -> is_count None ds2 ->
  run_keys_gen p s (map KD ds1 ++ KO k keys :: map KD ds2 ++ KE :: rest) =
  run_keys_gen p (cleared s) rest.
Proof.
  intros Hop Hi Hv H1 H2.
  rewrite run_digits_any by assumption.
  set (s1 := after_digits s ds1).
  assert (Hfd : ks_find s1 = ks_find s).
  { unfold s1, after_digits. rewrite Hop. destruct ds1; reflexivity. }
  assert (Hs1 : ks_op s1 = None /\ vins (ks_vst s1) = false /\ ks_last s1 = ks_last s /\
                fix_vi_cursor (vbuf (ks_vst s1)) = fix_vi_cursor (vbuf (ks_vst s)) /\
                with_buf (ks_vst s1) (fix_vi_cursor (vbuf (ks_vst s))) =
                with_buf (ks_vst s) (fix_vi_cursor (vbuf (ks_vst s)))).
  { unfold s1, after_digits. rewrite Hop. destruct ds1 as [|d r]; cbn [ks_op ks_vst ks_last with_buf vbuf vins].
    - repeat split; assumption.
    - repeat split; try assumption. apply fix_vi_cursor_idem. exact Hv. }
  destruct Hs1 as (Hop1 & Hi1 & Hl1 & Hf1 & Hw1).
  cbn [run_keys_gen]. unfold key_step_gen at 1. cbn [with_arg ks_op ks_vst ks_arg ks_oparg ks_last ks_find].
  rewrite Hop1. cbn [fst snd ks_vst]. change (0 =? 0) with true. rewrite Hi1. cbn [negb andb].
  rewrite run_digits by (cbn [ks_arg ks_vst ks_op]; try assumption; left; discriminate).
  cbn [run_keys_gen]. unfold key_step_gen at 1. cbn [with_arg ks_vst ks_last ks_find with_buf vins].
  change (0 =? 0) with true. rewrite Hi1. cbn [negb andb].
  unfold cleared. rewrite Hf1, Hl1, Hfd.
  change (mkvst (fix_vi_cursor (vbuf (ks_vst s))) (vclip (ks_vst s1)) (vreg (ks_vst s1)) (vins (ks_vst s1)))
    with (with_buf (ks_vst s1) (fix_vi_cursor (vbuf (ks_vst s)))).
  rewrite Hw1. reflexivity.
Qed.
