(* C15 - (a) what a coroutine of the previous prompt can still do after
   reset(); (b) complete_next / complete_previous with an arbitrary count. *)
From Coq Require Import ZArith List Bool Lia.
From PTK Require Import Lib.Sx Lib.Py Model.C15_Async Proofs.C15_Base Proofs.C15_User Proofs.C15_Sched
  Proofs.C15_Cfg Proofs.C15_Theorems.
Import ListNotations.
Open Scope Z_scope.

(* --- late results --------------------------------------------------------- *)
(* a validator whose document is not the buffer's any more publishes nothing:
   it validates again (or gives up when a verdict exists) *)
Lemma late_validator s k ok d :
  get_nth (vcos s) k = Some d -> doc_eqb (cur_doc s) d = false ->
  let s' := fst (vreturn s k ok) in
  vst s' = vst s /\ vsrc s' = vsrc s /\ sug s' = sug s /\ cst s' = cst s /\ text s' = text s /\ cur s' = cur s /\
  (vst s = 0 -> vcos s' = replace_nth (vcos s) k (cur_doc s)).
Proof.
  intros Hg Hd. unfold vreturn. rewrite Hg, Hd. destruct (vst s =? 0) eqn:E; cbn [fst]; simp.
  - repeat split; auto.
  - repeat split; auto. intros A. rewrite A in E. discriminate.
Qed.

(* the same for a suggester: it asks again for the new document (_Retry) *)
Lemma late_suggester s k v d :
  get_nth (scos s) k = Some d -> doc_eqb (cur_doc s) d = false ->
  let s' := fst (sreturn s k v) in
  sug s' = sug s /\ vst s' = vst s /\ cst s' = cst s /\ text s' = text s /\ cur s' = cur s /\
  (sug s = None -> scos s' = remove_nth (scos s) k ++ [cur_doc s]).
Proof.
  intros Hg Hd. unfold sreturn. rewrite Hg. change (cur_doc (set_scos s (remove_nth (scos s) k))) with (cur_doc s).
  rewrite Hd. cbn [fst]. unfold suggester_body; simp. destruct (sug s) eqn:E; simp.
  - repeat split; auto. intros A; discriminate.
  - repeat split; auto.
Qed.

(* a completer whose menu is gone (reset, or any edit) installs none of its
   results: afterwards there is no menu, or (text only grew: _Retry) a new,
   empty menu for the document as it is now *)
Definition no_menu_or_fresh_empty (s' : state) : Prop :=
  cst s' = None \/
  exists cs, cst s' = Some cs /\ cs_comps cs = [] /\ cs_idx cs = None /\ cs_orig cs = cur_doc s'.

Lemma late_cpost s k co s' e : cst s = None -> cpost s k co = (s', e) ->
  no_menu_or_fresh_empty s' /\ text s' = text s /\ cur s' = cur s /\ vst s' = vst s /\ sug s' = sug s.
Proof.
  intros Hc H. unfold cpost in H. unfold attached in H. simp. rewrite Hc in H.
  destruct (str_eqb _ _); [inversion H; subst; simp; split; [left; auto|auto]|].
  destruct (startswith _ _); inversion H; subst; simp.
  2:{ split; [left; auto|auto]. }
  unfold completer_body; simp. rewrite Hc. simp. split; [|auto].
  right. eexists. split; [reflexivity|]. simp. auto.
Qed.

Lemma late_completer_yield s k t st s' e : cst s = None -> cyield s k t st = (s', e) ->
  no_menu_or_fresh_empty s' /\ text s' = text s /\ cur s' = cur s /\ vst s' = vst s /\ sug s' = sug s.
Proof.
  intros Hc H. unfold cyield in H. destruct (0 <? st); [inversion H; subst; split; [left; auto|auto]|].
  destruct (get_nth (ccos s) k) as [co|]; [|inversion H; subst; split; [left; auto|auto]].
  unfold attached in H. rewrite Hc in H. eapply late_cpost; eauto.
Qed.

Lemma late_completer_end s k s' e : cst s = None -> cend s k = (s', e) ->
  no_menu_or_fresh_empty s' /\ text s' = text s /\ cur s' = cur s /\ vst s' = vst s /\ sug s' = sug s.
Proof.
  intros Hc H. unfold cend in H. destruct (get_nth (ccos s) k) as [co|]; [|inversion H; subst; split; [left; auto|auto]].
  eapply late_cpost; eauto.
Qed.

(* --- complete_next / complete_previous with any count ------------------------- *)
Definition clamp (n x : Z) : Z := Z.max 0 (Z.min (n - 1) x).

Lemma clamp_range n x : 1 <= n -> 0 <= clamp n x < n.
Proof. unfold clamp. lia. Qed.

Lemma complete_next_count s cs i count w :
  Inv s -> menu s cs -> cs_idx cs = Some i -> i <> len (cs_comps cs) - 1 ->
  exists s', step s (CompleteNext count w) = (s', 0) /\ Inv s' /\
    menu s' (cs_with_idx cs (Some (clamp (len (cs_comps cs)) (i + count)))) /\
    ntp (cs_with_idx cs (Some (clamp (len (cs_comps cs)) (i + count)))) = Some (text s', cur s').
Proof.
  intros HI M Hi Hl. pose proof M as (Hcs & Hok & Hn). cbn [step]. unfold complete_next. rewrite Hcs, Hi.
  destruct (i =? len (cs_comps cs) - 1) eqn:E; [lia|].
  apply gtc_menu; auto. apply clamp_range. exact Hn.
Qed.

Lemma complete_prev_count s cs i count w :
  Inv s -> menu s cs -> cs_idx cs = Some i -> i <> 0 ->
  exists s', step s (CompletePrev count w) = (s', 0) /\ Inv s' /\
    menu s' (cs_with_idx cs (Some (clamp (len (cs_comps cs)) (i - count)))) /\
    ntp (cs_with_idx cs (Some (clamp (len (cs_comps cs)) (i - count)))) = Some (text s', cur s').
Proof.
  intros HI M Hi Hl. pose proof M as (Hcs & Hok & Hn). cbn [step]. unfold complete_prev. rewrite Hcs, Hi.
  destruct (i =? 0) eqn:E; [lia|].
  replace (Z.min (len (cs_comps cs) - 1) (Z.max 0 (i - count))) with (clamp (len (cs_comps cs)) (i - count))
    by (unfold clamp; lia).
  apply gtc_menu; auto. apply clamp_range. exact Hn.
Qed.

(* before c676c2a: menu of two, first selected, complete_next(count=-1) raised *)
Lemma negative_count_pinned_raises :
  exists c t p ls count, 0 <= p <= len t /\
    (exists cs, cst (reach c t p ls) = Some cs /\ ntp cs = Some (text (reach c t p ls), cur (reach c t p ls))) /\
    complete_next_pinned (reach c t p ls) count false = (reach c t p ls, 1).
Proof.
  exists w_cfg, [97], 1, [InstallMenu [([97; 98], -1); ([97; 99], -1)]], (-1).
  split; [unfold len; cbn; lia|]. split; [vm_compute; eexists; split; reflexivity|vm_compute; reflexivity].
Qed.

(* --- the same over reachable states of the current code ------------------------ *)
Lemma reach_menu c t p ls cs i : 0 <= p <= len t ->
  cst (reach c t p ls) = Some cs -> cs_idx cs = Some i -> Inv (reach c t p ls) /\ menu (reach c t p ls) cs.
Proof.
  intros H Hc Hi. pose proof (reachc_Inv (current c) t p ls H) as HI. split; [exact HI|].
  destruct (Inv_fixed_menu _ cs HI) as (Ok & _); [rewrite reachc_cfg; reflexivity|exact Hc|].
  split; [exact Hc|]. split; [exact Ok|]. unfold idx_ok in Ok. rewrite Hi in Ok. lia.
Qed.

Lemma reach_next_count c t p ls cs i count w : 0 <= p <= len t ->
  cst (reach c t p ls) = Some cs -> cs_idx cs = Some i -> i <> len (cs_comps cs) - 1 ->
  exists s', step (reach c t p ls) (CompleteNext count w) = (s', 0) /\
    cst s' = Some (cs_with_idx cs (Some (clamp (len (cs_comps cs)) (i + count)))) /\
    ntp (cs_with_idx cs (Some (clamp (len (cs_comps cs)) (i + count)))) = Some (text s', cur s').
Proof.
  intros H Hc Hi Hl. destruct (reach_menu c t p ls cs i H Hc Hi) as (HI & M).
  destruct (complete_next_count _ cs i count w HI M Hi Hl) as (s' & A & _ & (B & _) & C). eauto.
Qed.

Lemma reach_prev_count c t p ls cs i count w : 0 <= p <= len t ->
  cst (reach c t p ls) = Some cs -> cs_idx cs = Some i -> i <> 0 ->
  exists s', step (reach c t p ls) (CompletePrev count w) = (s', 0) /\
    cst s' = Some (cs_with_idx cs (Some (clamp (len (cs_comps cs)) (i - count)))) /\
    ntp (cs_with_idx cs (Some (clamp (len (cs_comps cs)) (i - count)))) = Some (text s', cur s').
Proof.
  intros H Hc Hi Hl. destruct (reach_menu c t p ls cs i H Hc Hi) as (HI & M).
  destruct (complete_prev_count _ cs i count w HI M Hi Hl) as (s' & A & _ & (B & _) & C). eauto.
Qed.

Lemma reach_reset c t p ls t' p' : 0 <= p' <= len t' ->
  let s := reach c t p ls in let s' := apply s (Reset t' p') in
  text s' = t' /\ cur s' = p' /\ cst s' = None /\ vst s' = 0 /\ sug s' = None /\
  ccos s' = ccos s /\ vcos s' = vcos s /\ scos s' = scos s.
Proof.
  intros H s s'. unfold s', apply. cbn [step]. destruct (reset_buf s t' p') as [s2 e] eqn:E. cbn [fst].
  assert (e = 0).
  { unfold reset_buf in E. destruct ((len t' <? p') || (p' <? 0)) eqn:A; [|inversion E; reflexivity].
    apply orb_true_iff in A. destruct A; lia. }
  subst e. apply (reset_buf_clears s t' p' s2 E).
Qed.

(* --- from the ends, and from "nothing selected": the count plays no role ------- *)
Lemma reach_next_from_last c t p ls cs count : 0 <= p <= len t ->
  cst (reach c t p ls) = Some cs -> cs_idx cs = Some (len (cs_comps cs) - 1) ->
  step (reach c t p ls) (CompleteNext count true) = (reach c t p ls, 0) /\
  exists s', step (reach c t p ls) (CompleteNext count false) = (s', 0) /\
    cst s' = Some (cs_with_idx cs None) /\ text s' = dtext (cs_orig cs) /\ cur s' = dcur (cs_orig cs).
Proof.
  intros H Hc Hi. destruct (reach_menu c t p ls cs _ H Hc Hi) as (HI & M).
  cbn [step]. unfold complete_next. rewrite Hc, Hi, Z.eqb_refl. split; [reflexivity|].
  destruct (gtc_menu _ cs None HI M Logic.I) as (s' & A & _ & (B & _) & C).
  exists s'. split; [exact A|]. split; [exact B|].
  rewrite (ntp_none_idx (cs_with_idx cs None) eq_refl) in C. inversion C. auto.
Qed.

Lemma reach_prev_from_first c t p ls cs count : 0 <= p <= len t ->
  cst (reach c t p ls) = Some cs -> cs_idx cs = Some 0 ->
  step (reach c t p ls) (CompletePrev count true) = (reach c t p ls, 0) /\
  exists s', step (reach c t p ls) (CompletePrev count false) = (s', 0) /\
    cst s' = Some (cs_with_idx cs None) /\ text s' = dtext (cs_orig cs) /\ cur s' = dcur (cs_orig cs).
Proof.
  intros H Hc Hi. destruct (reach_menu c t p ls cs _ H Hc Hi) as (HI & M).
  cbn [step]. unfold complete_prev. rewrite Hc, Hi. cbn [Z.eqb]. split; [reflexivity|].
  destruct (gtc_menu _ cs None HI M Logic.I) as (s' & A & _ & (B & _) & C).
  exists s'. split; [exact A|]. split; [exact B|].
  rewrite (ntp_none_idx (cs_with_idx cs None) eq_refl) in C. inversion C. auto.
Qed.

Lemma reach_from_none c t p ls cs count w : 0 <= p <= len t ->
  cst (reach c t p ls) = Some cs -> cs_idx cs = None -> 1 <= len (cs_comps cs) ->
  (exists s', step (reach c t p ls) (CompleteNext count w) = (s', 0) /\
     cst s' = Some (cs_with_idx cs (Some 0)) /\ ntp (cs_with_idx cs (Some 0)) = Some (text s', cur s')) /\
  (exists s', step (reach c t p ls) (CompletePrev count w) = (s', 0) /\
     cst s' = Some (cs_with_idx cs (Some (len (cs_comps cs) - 1))) /\
     ntp (cs_with_idx cs (Some (len (cs_comps cs) - 1))) = Some (text s', cur s')).
Proof.
  intros H Hc Hi Hn. pose proof (reachc_Inv (current c) t p ls H) as HI.
  assert (M : menu (reach c t p ls) cs).
  { split; [exact Hc|]. split; [unfold idx_ok; rewrite Hi; exact Logic.I|exact Hn]. }
  split; cbn [step]; [unfold complete_next|unfold complete_prev]; rewrite Hc, Hi.
  - destruct (gtc_menu _ cs (Some 0) HI M) as (s' & A & _ & (B & _) & C); [lia|]. eauto.
  - destruct (gtc_menu _ cs (Some (len (cs_comps cs) - 1)) HI M) as (s' & A & _ & (B & _) & C); [lia|]. eauto.
Qed.
