(* C17 - cursor position reports are consumed silently: a report never enters
   the key buffer, is never pushed back, dropped or thrown away by a reset, and
   the only handler it ever reaches is the report binding, alone.  No
   hypothesis on the binding set. *)
From Coq Require Import ZArith List Bool Lia.
From PTK Require Import Lib.Py Model.C03_Vt100Parser Model.C17_Typeahead Proofs.C17_Core.
Import ListNotations.

Definition noc (l : list kp) : Prop := Forall (fun k => is_cpr k = false) l.

Section P.
Variables E bid res PS : Type.
Variable lookup : E -> list kp -> option bid.
Variable lookup_scan : E -> list kp -> option bid.
Variable waits : E -> list kp -> bool.
Variable eff : bid -> list kp -> E -> E * option res.
Variable is_cprh : bid -> bool.
Variable cpr_lookup : E -> option bid.
Variable feeds : bid -> list kp -> E -> list kp.
Variable restart : E -> E.
Variable pfeed : str -> PS -> PS * list kp.
Variable pflush : PS -> PS * list kp.
Variable res_eof : res.

Notation core := (core E bid res).
Notation sys := (sys E bid res PS).
Notation call := (call eff is_cprh feeds).
Notation scan := (@scan E bid res lookup_scan).
Notation loop := (loop lookup lookup_scan waits eff is_cprh feeds).
Notation send := (send lookup lookup_scan waits eff is_cprh feeds).
Notation handle_cpr := (handle_cpr eff is_cprh cpr_lookup feeds).
Notation deliver := (deliver lookup lookup_scan waits eff is_cprh cpr_lookup feeds).
Notation drain := (drain lookup lookup_scan waits eff is_cprh cpr_lookup feeds).
Notation deliver_d := (deliver_d lookup lookup_scan waits eff is_cprh cpr_lookup feeds).
Notation process_q := (process_q lookup lookup_scan waits eff is_cprh cpr_lookup feeds).
Notation pk := (@pk E bid res PS lookup lookup_scan waits eff is_cprh cpr_lookup feeds).
Notation step := (@step E bid res PS lookup lookup_scan waits eff is_cprh cpr_lookup feeds restart pfeed pflush res_eof).
Notation run := (@run E bid res PS lookup lookup_scan waits eff is_cprh cpr_lookup feeds restart pfeed pflush res_eof).

Definition sil_ev (e : ev bid) : Prop :=
  match e with
  | EStart _ => True
  | EInvoke _ b ks => noc ks \/ exists k e0, ks = [k] /\ is_cpr k = true /\ cpr_lookup e0 = Some b
  | EDrop _ _ k => is_cpr k = false
  | ELost _ ks _ => noc ks
  end.

(* (keys fed by handlers and pushed-back keys wait in [pb]; whatever they are,
   they go through [deliver], which hands reports to the report binding) *)
Definition Sc (c : core) : Prop := noc (kbuf c) /\ Forall sil_ev (rlog c).

Lemma noc_split i (l : list kp) : noc l -> noc (firstn i l) /\ noc (skipn i l).
Proof. unfold noc. intros H. rewrite <- (firstn_skipn i l) in H. apply Forall_app in H. exact H. Qed.

Lemma Sc_call b ks (c : core) : noc ks -> Sc c -> Sc (call b ks c).
Proof.
  intros N (A & C). unfold Sc, C17_Typeahead.call; cbn [kbuf rlog]. split; [exact A|].
  constructor; [left; exact N|exact C].
Qed.

Lemma Sc_set_kbuf l (c : core) : noc l -> Sc c -> Sc (set_kbuf l c).
Proof. intros N (A & C). unfold Sc; cbn [kbuf rlog set_kbuf]. auto. Qed.

Lemma Sc_retry (k : core -> core) (c1 : core) : (forall c, Sc c -> Sc (k c)) -> Sc c1 -> Sc (retry k c1).
Proof.
  intros HK H. unfold retry. destruct (late c1); [|apply HK; exact H].
  destruct H as (A & C). unfold Sc; cbn [kbuf rlog push_back]. split; [apply Forall_nil|exact C].
Qed.

Lemma Sc_loop fuel : forall fl (c : core), Sc c -> Sc (loop fuel fl c).
Proof.
  induction fuel as [|f IH]; intros fl c H; cbn [C17_Typeahead.loop].
  - destruct (kbuf c); [exact H|]. exact H.
  - destruct (kbuf c) as [|k0 tl0] eqn:KB; [exact H|].
    pose proof H as (A & C). rewrite KB in A.
    assert (X : forall b, Sc (set_kbuf [] (call b (k0 :: tl0) c))).
    { intros b. apply Sc_set_kbuf; [apply Forall_nil|]. apply Sc_call; assumption. }
    assert (Y : forall b i, Sc (retry (loop f false) (set_kbuf (skipn i (k0 :: tl0)) (call b (firstn i (k0 :: tl0)) c)))).
    { intros b i. destruct (noc_split i _ A) as [N1 N2]. apply Sc_retry; [intros; apply IH; assumption|].
      apply Sc_set_kbuf; [exact N2|]. apply Sc_call; assumption. }
    assert (Z : Sc (retry (loop f false) (set_kbuf tl0 (add_ev (@EDrop bid (late c) k0) c)))).
    { apply Sc_retry; [intros; apply IH; assumption|]. inversion A as [|? ? A1 A2]; subst.
      unfold Sc; cbn [kbuf rlog set_kbuf add_ev]. split; [exact A2|apply Forall_cons; [exact A1|exact C]]. }
    destruct (cph c); [| |exact H].
    + destruct (negb fl && waits (est c) (k0 :: tl0)); [exact H|].
      destruct (lookup (est c) (k0 :: tl0)) as [b|]; [apply X|].
      destruct (scan (length (k0 :: tl0)) c) as [[b i]|]; [apply Y|apply Z].
    + destruct (negb fl && waits (est c) (k0 :: tl0)); [exact H|].
      destruct (lookup (est c) (k0 :: tl0)) as [b|]; [apply X|].
      destruct (scan (length (k0 :: tl0)) c) as [[b i]|]; [apply Y|apply Z].
Qed.

Lemma Sc_deliver it (c : core) : Sc c -> Sc (deliver it c).
Proof.
  intros H. destruct it as [k|]; cbn [C17_Typeahead.deliver].
  - destruct (is_cpr k) eqn:CK.
    + unfold C17_Typeahead.handle_cpr. destruct (cpr_lookup (est c)) as [b|] eqn:L; [|exact H].
      destruct H as (A & C). unfold Sc, C17_Typeahead.call; cbn [kbuf rlog]. split; [exact A|].
      apply Forall_cons; [|exact C]. right. exists k, (est c). auto.
    + unfold C17_Typeahead.send. apply Sc_loop. destruct H as (A & C).
      unfold Sc; cbn [kbuf rlog set_kbuf]. split; [|exact C].
      apply Forall_app; split; [exact A|]. apply Forall_cons; [exact CK|apply Forall_nil].
  - unfold C17_Typeahead.send. apply Sc_loop. exact H.
Qed.

Lemma Sc_same (c c' : core) : kbuf c' = kbuf c -> rlog c' = rlog c -> Sc c -> Sc c'.
Proof. intros H1 H2. unfold Sc. rewrite H1, H2. auto. Qed.

Lemma Sc_drain l : forall c : core, Sc c -> Sc (drain l c).
Proof.
  induction l as [|k l IH]; intros c H; cbn [C17_Typeahead.drain]; [exact H|].
  pose proof (Sc_deliver (IKey k) c H) as H'.
  destruct (cph (deliver (IKey k) c)); [|exact H'|exact H'].
  destruct (pb (deliver (IKey k) c)); [apply IH; exact H'|exact H'].
Qed.

Lemma Sc_deliver_d it (c : core) : Sc c -> Sc (deliver_d it c).
Proof.
  intros H. unfold C17_Typeahead.deliver_d. pose proof (Sc_deliver it c H) as H'.
  destruct (cph (deliver it c)); [|exact H'|exact H']. apply Sc_drain. exact H'.
Qed.

Lemma Sc_pop it (c : core) : Sc c -> Sc (pop it c).
Proof. destruct it; intros H; exact H. Qed.

Lemma Sc_process_q q : forall c : core, Sc c -> Sc (fst (process_q q c)).
Proof.
  induction q as [|it q IH]; intros c H; cbn [C17_Typeahead.process_q]; [exact H|].
  destruct (cph c); [| |exact H].
  - cbn [fst]. apply IH. apply (Sc_deliver_d it). apply Sc_pop. exact H.
  - destruct (item_is_cpr it); cbn [fst]; apply IH; [|exact H]. apply (Sc_deliver it). apply Sc_pop. exact H.
Qed.

Lemma Sc_pk (s : sys) : Sc (co s) -> Sc (co (pk s)).
Proof. intros H. unfold C17_Typeahead.pk; cbn [co with_co]. apply Sc_process_q. exact H. Qed.

Lemma Sc_step (s : sys) l : Sc (co s) -> Sc (co (step s l)).
Proof.
  intros H. unfold C17_Typeahead.step.
  destruct (cph (co s)) eqn:PH; destruct l; try exact H.
  all: try (destruct (wclosed s); exact H).
  all: try (destruct (at_ s); try exact H;
            try (destruct (wcpr (co s)); try exact H);
            try (unfold C17_Typeahead.do_read; cbv zeta; destruct (pipe s);
                 [destruct (wclosed s); [destruct (cph (co (pk s))) eqn:P2|]; try (apply Sc_pk; exact H);
                  pose proof (Sc_pk s H) as H'; exact H'
                 |unfold C17_Typeahead.feed_keys; apply Sc_pk; exact H]);
            try (unfold C17_Typeahead.feed_keys; apply Sc_pk; exact H);
            try (destruct (kbuf (co s)); [exact H|apply Sc_pk; exact H]);
            try (destruct (rcpr s && negb (Nat.eqb (wcpr (co s)) 0)); exact H); fail).
  (* LStart *)
  1, 2: destruct (at_ s); try exact H; apply Sc_pk; cbn [co];
        destruct H as (A & C); unfold Sc; cbn [kbuf rlog];
        (split; [apply Forall_nil|]); (apply Forall_cons; [exact I|]);
        destruct (kbuf (co s)) eqn:KB;
        [destruct (queue s); [exact C|apply Forall_cons; [cbn; apply Forall_nil|exact C]]
        |apply Forall_cons; [cbn; exact A|exact C]].
  destruct (at_ s); try exact H. destruct (rcpr s && negb (Nat.eqb (wcpr (co s)) 0)); exact H.
Qed.

Lemma Sc_run ls : forall s : sys, Sc (co s) -> Sc (co (run ls s)).
Proof.
  induction ls as [|l ls IH]; intros s H; [exact H|]. cbn [C17_Typeahead.run fold_left].
  apply IH. apply Sc_step. exact H.
Qed.

Lemma cpr_silent_log ls e p r :
  let s := run ls (@init E bid res PS e p r) in
  Forall sil_ev (rlog (co s)) /\ noc (kbuf (co s)).
Proof.
  intros s. destruct (Sc_run ls (@init E bid res PS e p r)) as (A & C).
  - unfold Sc, init, init_core; cbn. split; constructor.
  - auto.
Qed.

(* the type-ahead store never holds a report (empty_queue filters them), for every binding set *)
Definition St (s : sys) : Prop := Forall (fun i => item_is_cpr i = false) (store s).

Lemma St_pk (s : sys) : St s -> St (pk s).
Proof. intros H. exact H. Qed.

Lemma St_finish r (s : sys) : St s -> St (finish r s).
Proof.
  intros H. unfold St, C17_Typeahead.finish; cbn [store]. apply Forall_app; split; [exact H|].
  apply Forall_forall. intros i Hi. apply filter_In in Hi. destruct Hi as [_ Hi].
  destruct (item_is_cpr i); [discriminate|reflexivity].
Qed.

Lemma St_step (s : sys) l : St s -> St (step s l).
Proof.
  intros H. unfold C17_Typeahead.step.
  destruct (cph (co s)) eqn:PH; destruct l; try exact H.
  all: try (destruct (wclosed s); exact H).
  all: try (destruct (at_ s); try exact H;
            try (destruct (wcpr (co s)); try exact H);
            try (unfold C17_Typeahead.do_read; cbv zeta; destruct (pipe s);
                 [destruct (wclosed s); [destruct (cph (co (pk s)))|]; exact H|exact H]);
            try (destruct (kbuf (co s)); exact H);
            try (destruct (rcpr s && negb (Nat.eqb (wcpr (co s)) 0)); [exact H|apply St_finish; exact H]);
            try (apply St_finish; exact H);
            try exact H; try (apply Forall_nil); fail).
  destruct (at_ s); try exact H. destruct (rcpr s && negb (Nat.eqb (wcpr (co s)) 0)); [exact H|apply St_finish; exact H].
Qed.

Lemma St_run ls : forall s : sys, St s -> St (run ls s).
Proof.
  induction ls as [|l ls IH]; intros s H; [exact H|]. cbn [C17_Typeahead.run fold_left].
  apply IH. apply St_step. exact H.
Qed.

Lemma cpr_never_stored_all ls e p r :
  Forall (fun i => item_is_cpr i = false) (store (run ls (@init E bid res PS e p r))).
Proof. apply St_run. apply Forall_nil. Qed.

End P.
Arguments sil_ev {E bid} cpr_lookup e.
