(* C05: KeyPressEvent.arg (finding C05-F14).  The conversion of the typed
   argument string raises ValueError beyond 4300 digits; below that limit it is
   total; the proposed repair is total for every string the key bindings can
   build, and a handler run through _call_handler with the argument as typed
   then raises nothing. *)
From Coq Require Import ZArith List Bool Lia.
From PTK Require Import Lib.Sx Lib.Py Model.Document Model.C05_Editor Proofs.C05_EditorFacts.
Import ListNotations.
Open Scope Z_scope.

(* witness: 4301 times the digit 1 *)
Definition long_arg : str := repeat 49 (Z.to_nat 4301).

Lemma event_arg_pinned_refuted :
  arg_string long_arg = true /\ event_arg_pinned (Some long_arg) = None.
Proof. split; vm_compute; reflexivity. Qed.

Lemma step_long_arg_pinned_refuted :
  exists h s data, EInv s /\ MInv s /\ arg_string long_arg = true /\
    call_handler_str event_arg_pinned h s (Some long_arg) data = EErr E_VALUE s.
Proof.
  exists HForwardChar, (mkE [104; 105] 0 None [] false None [[104; 105]] 0 true M_NAVIGATION false None false false), [].
  split; [split; [unfold CInv; cbn; lia|intros a t E; discriminate]|].
  split; [intros p []|]. split; [vm_compute; reflexivity|]. vm_compute. reflexivity.
Qed.

Lemma py_int_some ds : ds <> [] -> forallb is_digit ds = true -> len ds <= MAX_STR_DIGITS ->
  (match ds with c :: _ => c =? C_MINUS | [] => false end) = false ->
  py_int ds = Some (dec_value ds 0).
Proof.
  intros Hne Hd Hl Hm. unfold py_int. destruct ds as [|c r]; [congruence|]. rewrite Hm.
  rewrite Hd. cbn [negb orb].
  assert (E1 : (len (c :: r) =? 0) = false).
  { apply Z.eqb_neq. unfold len. cbn [length]. lia. }
  assert (E2 : (MAX_STR_DIGITS <? len (c :: r)) = false) by (apply Z.ltb_ge; exact Hl).
  rewrite E1, E2. reflexivity.
Qed.

Lemma digit_not_minus c : is_digit c = true -> (c =? C_MINUS) = false.
Proof. unfold is_digit, C_MINUS. intros H. apply andb_true_iff in H as [H _]. apply Z.eqb_neq. lia. Qed.

(* below the limit the conversion succeeds *)
Lemma event_arg_pinned_below_limit s : arg_string s = true -> len s <= MAX_STR_DIGITS ->
  exists n, event_arg_pinned (Some s) = Some n.
Proof.
  intros Ha Hl. unfold event_arg_pinned. destruct (str_eqb s [C_MINUS]) eqn:Es; [eauto|].
  destruct s as [|c r]; [discriminate|]. unfold arg_string in Ha.
  destruct (c =? C_MINUS) eqn:Ec.
  - (* "-" digits *)
    destruct r as [|d r'].
    + apply Z.eqb_eq in Ec. subst c. cbn in Es. discriminate.
    + unfold py_int. rewrite Ec. rewrite Ha. cbn [negb orb].
      assert (E1 : (len (d :: r') =? 0) = false) by (apply Z.eqb_neq; unfold len; cbn [length]; lia).
      assert (E2 : (MAX_STR_DIGITS <? len (d :: r')) = false).
      { apply Z.ltb_ge. unfold len in *. cbn [length] in *. lia. }
      rewrite E1, E2. cbn [orb]. eauto.
  - rewrite (py_int_some (c :: r)); [eauto|discriminate|exact Ha|exact Hl|exact Ec].
Qed.

(* the repair: total on every string append_to_arg_count can build, result below a million *)
Lemma lstrip_digits c s : forallb is_digit s = true -> forallb is_digit (lstrip_c c s) = true.
Proof.
  induction s as [|x r IH]; cbn [lstrip_c forallb]; [reflexivity|]. intros H.
  destruct (x =? c); [apply IH; apply andb_true_iff in H; tauto|exact H].
Qed.

Lemma lstrip_minus_digits s : forallb is_digit s = true -> lstrip_c C_MINUS s = s.
Proof.
  destruct s as [|x r]; cbn [lstrip_c forallb]; [reflexivity|]. intros H.
  apply andb_true_iff in H as [H _]. now rewrite (digit_not_minus x H).
Qed.

Lemma event_arg_total a :
  (forall s, a = Some s -> arg_string s = true) ->
  exists n, event_arg a = Some n /\ n < 1000000.
Proof.
  intros Ha. destruct a as [s|]; [|exists 1; split; [reflexivity|lia]].
  specialize (Ha s eq_refl). unfold event_arg.
  destruct (str_eqb s [C_MINUS]); [exists (-1); split; [reflexivity|lia]|].
  destruct s as [|c r]; [discriminate|]. cbv zeta.
  set (negative := c =? C_MINUS).
  assert (Hd : forallb is_digit (lstrip_c 48 (lstrip_c C_MINUS (c :: r))) = true).
  { apply lstrip_digits. unfold arg_string in Ha. cbn [lstrip_c]. destruct (c =? C_MINUS) eqn:En.
    - apply lstrip_digits. exact Ha.
    - exact Ha. }
  remember (lstrip_c 48 (lstrip_c C_MINUS (c :: r))) as d0 eqn:Ed0. clear Ed0.
  assert (Hex : exists digits, digits = match d0 with [] => [48] | z :: l => z :: l end /\
                 forallb is_digit digits = true /\ digits <> []).
  { destruct d0 as [|z l]; eexists; (split; [reflexivity|]); (split; [|discriminate]); [reflexivity|exact Hd]. }
  destruct Hex as (digits & Edig & Hdd & Hne). rewrite <- Edig.
  destruct (7 <? len digits) eqn:E7.
  - exists (if negative then -1 else 1). split; [reflexivity|destruct negative; lia].
  - apply Z.ltb_ge in E7.
    rewrite (py_int_some digits Hne Hdd).
    + eexists. split; [reflexivity|]. unfold clamp_million.
      match goal with |- context [if ?c then _ else _] => destruct c eqn:E end; [lia|apply Z.leb_gt in E; exact E].
    + unfold MAX_STR_DIGITS. lia.
    + destruct digits as [|x t]; [congruence|]. cbn [forallb] in Hdd. apply andb_true_iff in Hdd as [Hx _].
      now apply digit_not_minus.
Qed.

(* with the repaired conversion no exception leaves _call_handler for a
   modelled handler, whatever argument string was typed *)
Lemma call_handler_str_total h s a data :
  EInv s -> MInv s -> (forall x, a = Some x -> arg_string x = true) ->
  exists s', call_handler_str event_arg h s a data = EOk s' /\ EInv s'.
Proof.
  intros H HM Ha. unfold call_handler_str. destruct (reads_arg h).
  - destruct (event_arg_total a Ha) as (n & -> & _). now apply call_handler_total.
  - now apply call_handler_total.
Qed.

(* the invariant survives the ValueError of the present code *)
Lemma call_handler_str_inv ea h s a data : EInv s -> EInv (eres_st (call_handler_str ea h s a data)).
Proof.
  intros H. unfold call_handler_str. destruct (reads_arg h); [destruct (ea a)|];
    [now apply call_handler_inv| |now apply call_handler_inv].
  destruct h; cbn [eres_st]; exact H.
Qed.
