(* C12 - the _all_children cache is transparent; the dimension a split
   reports to its parent; Window._merge_dimensions. *)
From Coq Require Import ZArith List Bool Lia.
From PTK Require Import Lib.Sx Model.C12_Divide Proofs.C12_Safety Proofs.C12_Gen
     Proofs.C12_Termination Proofs.C12_Fixed.
Import ListNotations.
Open Scope Z_scope.

(* ------------------------------------------------------------------ *)
(* cache *)

Lemma zlist_eqb_eq : forall a b, zlist_eqb a b = true -> a = b.
Proof.
  induction a as [|x a IH]; intros [|y b] H; simpl in H; try discriminate; [reflexivity|].
  apply andb_true_iff in H. destruct H as [H1 H2]. apply Z.eqb_eq in H1. subst. f_equal. auto.
Qed.

Lemma zlist_eqb_refl : forall a, zlist_eqb a a = true.
Proof. induction a; simpl; [reflexivity|]. rewrite Z.eqb_refl. assumption. Qed.

(* the stored value is what a recomputation for the stored key gives *)
Definition cache_ok (align : Z) (c : cache) : Prop :=
  match c with Some (k, v) => v = entries align k | None => True end.

Lemma cache_get_spec : forall align c ids,
  cache_ok align c ->
  fst (cache_get align c ids) = entries align ids /\ cache_ok align (snd (cache_get align c ids)).
Proof.
  intros align [[k v]|] ids H; simpl in *.
  - destruct (zlist_eqb k ids) eqn:E; simpl.
    + apply zlist_eqb_eq in E. subst. auto.
    + auto.
  - auto.
Qed.

(* the cache after any history of renders (each with the children list of that moment) *)
Definition cache_after (align : Z) (c : cache) (history : list (list Z)) : cache :=
  fold_left (fun c ids => snd (cache_get align c ids)) history c.

Lemma cache_after_ok : forall align history c, cache_ok align c -> cache_ok align (cache_after align c history).
Proof.
  intros align history; induction history as [|ids r IH]; intros c H; simpl; [assumption|].
  apply IH. apply (cache_get_spec align c ids H).
Qed.

Theorem cache_transparent : forall align history ids,
  fst (cache_get align (cache_after align None history) ids) = entries align ids.
Proof.
  intros. apply cache_get_spec. apply cache_after_ok. exact I.
Qed.

(* the entries are _all_children of the current children *)
Lemma map_removelast : forall (A B : Type) (f : A -> B) l, map f (removelast l) = removelast (map f l).
Proof.
  intros A B f l; induction l as [|x r IH]; simpl; [reflexivity|].
  destruct r; simpl in *; [reflexivity|]. f_equal. exact IH.
Qed.

Lemma entries_all_children : forall pool pad align ids,
  map (entry_dim pool pad) (entries align ids) = all_children align pad (map (lookup pool) ids).
Proof.
  intros. unfold entries, all_children.
  rewrite map_app, map_removelast, map_app. f_equal; [f_equal; f_equal|].
  - destruct ((align =? 1) || (align =? 2)); reflexivity.
  - induction ids; simpl; [reflexivity|]. rewrite IHids. reflexivity.
  - destruct ((align =? 1) || (align =? 0)); reflexivity.
Qed.

(* ... and the children among them are exactly the listed ones, in order *)
Definition children_of (l : list entry) : list Z :=
  flat_map (fun e => match e with EChild i => [i] | _ => [] end) l.

Lemma children_of_app : forall a b, children_of (a ++ b) = children_of a ++ children_of b.
Proof. intros. unfold children_of. apply flat_map_app. Qed.

Lemma children_of_cons : forall x r,
  children_of (x :: r) = (match x with EChild i => [i] | _ => [] end) ++ children_of r.
Proof. reflexivity. Qed.

Definition not_child (e : entry) : Prop := match e with EChild _ => False | _ => True end.

Lemma removelast_children : forall l, not_child (last l EPad) -> children_of (removelast l) = children_of l.
Proof.
  induction l as [|x r IH]; intro H; [reflexivity|].
  destruct r as [|y r'].
  - simpl in *. destruct x; [contradiction|reflexivity|reflexivity].
  - change (removelast (x :: y :: r')) with (x :: removelast (y :: r')).
    rewrite !(children_of_cons x). f_equal. apply IH. exact H.
Qed.

Lemma last_body : forall pre ids, (forall e, In e pre -> not_child e) ->
  not_child (last (pre ++ flat_map (fun c => [EChild c; EPad]) ids) EPad).
Proof.
  intros pre ids Hpre. induction ids as [|c r IH] using rev_ind.
  - cbn [flat_map]. rewrite (app_nil_r pre). destruct pre as [|x p] using rev_ind; [exact I|].
    rewrite last_last. apply Hpre. apply in_or_app. right. left. reflexivity.
  - rewrite flat_map_app. cbn [flat_map]. rewrite (app_nil_r [EChild c; EPad]).
    replace (pre ++ flat_map (fun c0 => [EChild c0; EPad]) r ++ [EChild c; EPad])
      with ((pre ++ flat_map (fun c0 => [EChild c0; EPad]) r ++ [EChild c]) ++ [EPad])
      by (rewrite <- !app_assoc; reflexivity).
    rewrite last_last. exact I.
Qed.

Theorem entries_children : forall align ids, children_of (entries align ids) = ids.
Proof.
  intros. unfold entries. rewrite children_of_app.
  rewrite removelast_children.
  - rewrite children_of_app.
    assert (H1 : children_of (if (align =? 1) || (align =? 2) then [EFlex] else []) = [])
      by (destruct ((align =? 1) || (align =? 2)); reflexivity).
    assert (H2 : children_of (if (align =? 1) || (align =? 0) then [EFlex] else []) = [])
      by (destruct ((align =? 1) || (align =? 0)); reflexivity).
    rewrite H1, H2, app_nil_r. simpl.
    induction ids; simpl; [reflexivity|]. f_equal. exact IHids.
  - apply last_body. intros e He. destruct ((align =? 1) || (align =? 2)); simpl in He; [|contradiction].
    destruct He as [<-|[]]. exact I.
Qed.

(* ------------------------------------------------------------------ *)
(* the dimension a split reports *)

Lemma py_max_ge_head : forall x r, x <= py_max (x :: r).
Proof. intros. simpl. apply fold_max_ge. Qed.

Lemma dimension_ok : forall mn mx p,
  0 <= mn -> mn <= mx -> 0 <= p ->
  exists d, dimension (Some mn) (Some mx) None (Some p) = COk d /\ dmin d = mn /\ dmax d = mx.
Proof.
  intros mn mx p H0 H1 H2. unfold dimension. cbn [oneg odef orb].
  assert (E0 : mn <? 0 = false) by (apply Z.ltb_ge; lia).
  assert (E1 : mx <? 0 = false) by (apply Z.ltb_ge; lia).
  assert (E2 : p <? 0 = false) by (apply Z.ltb_ge; lia).
  rewrite E0, E1, E2. cbn [orb].
  assert (E3 : mx <? mn = false) by (apply Z.ltb_ge; lia). rewrite E3.
  eexists. split; [reflexivity|]. split; reflexivity.
Qed.

Lemma default_dim_ok : exists d, dimension None None None None = COk d /\ valid d.
Proof. eexists. split; [reflexivity|]. apply (dimension_valid None None None None). reflexivity. Qed.

Lemma Forall_filter : forall (A : Type) (P : A -> Prop) f (l : list A), Forall P l -> Forall P (filter f l).
Proof. intros A P f l H; induction H; simpl; [constructor|]. destruct (f x); [constructor|]; assumption. Qed.

(* max_layout_dimensions of well-formed requirements never raises and is well-formed *)
Theorem max_layout_valid : forall ds, Forall valid ds ->
  exists d, max_layout_dimensions ds = COk d /\ valid d.
Proof.
  intros ds Hv. unfold max_layout_dimensions.
  destruct ds as [|d0 dr].
  - destruct (dimension_ok 0 0 0) as (d & Hd & _); try lia. exists d. split; [exact Hd|]. eapply dimension_valid; exact Hd.
  - destruct (forallb is_zero (d0 :: dr)).
    + exists d0. split; [reflexivity|]. inversion Hv; assumption.
    + pose proof (Forall_filter _ _ (fun d => negb (is_zero d)) _ Hv) as Hnz.
      destruct (filter (fun d => negb (is_zero d)) (d0 :: dr)) as [|n0 nr] eqn:En.
      * exact default_dim_ok.
      * set (nz := n0 :: nr) in *.
        assert (Hn0 : valid n0) by (inversion Hnz; assumption).
        destruct Hn0 as (A0 & A1 & A2 & A3).
        assert (Hmin : 0 <= py_max (map dmin nz)) by (pose proof (py_max_ge_head (dmin n0) (map dmin nr)); simpl in *; lia).
        assert (Hpref : 0 <= py_max (map dpref nz)) by (pose proof (py_max_ge_head (dpref n0) (map dpref nr)); simpl in *; lia).
        set (min_ := py_max (map dmin nz)) in *.
        set (max1 := Z.max (py_min (map dmax nz)) (py_max (map dpref nz))).
        destruct (dimension_ok min_ (if min_ >? max1 then min_ else max1) (py_max (map dpref nz))) as (d & Hd & _); try lia.
        { destruct (min_ >? max1) eqn:E; [lia|]. rewrite Z.gtb_ltb in E. apply Z.ltb_ge in E. lia. }
        exists d. split; [exact Hd|]. eapply dimension_valid; exact Hd.
Qed.

(* what a split reports along its own axis: the sums over _all_children *)
Theorem report_sum : forall align pad cs,
  valid pad -> Forall valid cs ->
  let ds := all_children align pad cs in
  sum_layout_dimensions ds = COk (mkdim (zsum (mins ds)) (zsum (maxs ds)) (zsum (prefs ds)) 1)
  /\ valid (mkdim (zsum (mins ds)) (zsum (maxs ds)) (zsum (prefs ds)) 1).
Proof.
  intros align pad cs Hp Hc ds.
  pose proof (all_children_valid align pad cs Hp Hc) as Hv. fold ds in Hv.
  split; [apply sum_layout_valid; exact Hv|].
  destruct (valid_sums ds Hv) as (A & B & C). unfold valid, mins, prefs, maxs. cbn [dmin dmax dpref dweight]. lia.
Qed.

Theorem split_report_valid : forall fuel orient axis align pad cs width r,
  valid pad -> Forall valid (map fst cs) -> Forall valid (map snd cs) ->
  split_report fuel orient axis align pad cs width = inl r ->
  exists d, r = COk d /\ valid d.
Proof.
  intros fuel orient axis align pad cs width r Hp Hw Hh H. unfold split_report in H.
  pose proof default_dim_ok as Hdef.
  destruct (orient =? 0).
  - destruct (axis =? 0).
    + destruct cs as [|c0 cr] eqn:Ecs; [injection H as <-; exact Hdef|].
      rewrite <- Ecs in *. assert (Hr : r = max_layout_dimensions (map fst cs)) by congruence.
      rewrite Hr. apply max_layout_valid. exact Hw.
    + injection H as <-. destruct (report_sum align pad (map snd cs) Hp Hh) as (E & V). eexists; split; eassumption.
  - destruct (axis =? 0).
    + injection H as <-. destruct (report_sum align pad (map fst cs) Hp Hw) as (E & V). eexists; split; eassumption.
    + destruct (divide fuel false (all_children align pad (map fst cs)) width); try discriminate; injection H as <-.
      * apply max_layout_valid. apply all_children_valid; [apply flex_valid|exact Hh].
      * exact Hdef.
Qed.

(* Nested splits along the same axis: when the k-th child of the outer split
   is itself a split reporting the sum of its own children, the size the
   outer division hands to it is enough for the inner division, which
   therefore keeps every leaf within its own bounds. *)
Theorem nested_same_axis : forall fuel fuel' done done' outer inner k avail l,
  Forall valid outer -> Forall valid inner -> inner <> [] -> (k < length outer)%nat ->
  sum_layout_dimensions inner = COk (nth k outer flex) ->
  (divide_fuel outer avail <= fuel)%nat -> divide fuel done outer avail = Sizes l ->
  (divide_fuel inner (nth k l 0%Z) <= fuel')%nat ->
  dmin (nth k outer flex) <= nth k l 0 <= dmax (nth k outer flex) /\
  exists l', divide fuel' done' inner (nth k l 0) = Sizes l' /\
             length l' = length inner /\ le_all (mins inner) l' /\ le_all l' (maxs inner) /\
             zsum l' <= nth k l 0.
Proof.
  intros fuel fuel' done done' outer inner k avail l Hvo Hvi Hne Hk Hrep Hf Hd Hf'.
  assert (Hneo : outer <> []) by (intro; subst; simpl in Hk; lia).
  destruct (divide_sizes_good fuel done outer avail l Hvo Hf Hneo Hd) as [_ _ Hmin Hmax _ _ _ _ _ _].
  pose proof (le_all_nth _ _ k Hmin) as H1. pose proof (le_all_nth _ _ k Hmax) as H2.
  unfold mins in H1. unfold maxs in H2.
  change 0 with (dmin flex) in H1 at 1. rewrite map_nth in H1.
  assert (Hmx : nth k (map dmax outer) 0 = dmax (nth k outer flex)).
  { rewrite <- (map_nth dmax outer flex k). apply nth_indep. rewrite map_length. exact Hk. }
  rewrite Hmx in H2.
  split; [lia|].
  rewrite (sum_layout_valid inner Hvi) in Hrep. injection Hrep as Hrep.
  rewrite <- Hrep in H1. cbn [dmin] in H1.
  destruct (divide_total done' inner (nth k l 0) fuel' Hvi Hf') as [(_ & _ & Hs)|(l' & Hl' & [(E & _)|(_ & G)])].
  - unfold mins in Hs. lia.
  - congruence.
  - exists l'. split; [exact Hl'|]. destruct G. auto.
Qed.

(* ------------------------------------------------------------------ *)
(* Window._merge_dimensions *)

Theorem merge_valid : forall mn mx w p cp de d,
  merge_dimensions mn mx w p cp de = COk d -> valid d.
Proof.
  intros mn mx w p cp de d H. unfold merge_dimensions in H.
  destruct (dimension mn mx w p); try discriminate. eapply dimension_valid; exact H.
Qed.

(* it never raises when the Window's own dimension is constructible and the
   content reports a non-negative size; min and weight are the Window's, the
   max is never widened, and preferred is inside the Window's min..max *)
Theorem merge_total : forall mn mx w p cp de d0,
  dimension mn mx w p = COk d0 ->
  (forall v, cp = Some v -> 0 <= v) ->
  exists d, merge_dimensions mn mx w p cp de = COk d /\
            dmin d = dmin d0 /\ dweight d = dweight d0 /\ dmax d <= dmax d0 /\
            (de = false -> dmax d = dmax d0).
Proof.
  intros mn mx w p cp de d0 H0 Hcp. unfold merge_dimensions. rewrite H0.
  destruct (dimension_valid _ _ _ _ _ H0) as (V0 & V1 & V2 & V3).
  assert (Emn : odef 0 mn = dmin d0 /\ odef HUGE mx = dmax d0 /\ odef 1 w = dweight d0).
  { unfold dimension in H0.
    destruct (oneg w || oneg mn || oneg mx || oneg p); [discriminate|].
    destruct (odef HUGE mx <? odef 0 mn); [discriminate|]. injection H0 as <-. cbn [dmin dmax dweight]. auto. }
  destruct Emn as (Emn & Emx & Ew).
  pose proof HUGE_pos as HH.
  set (pref0 := match p with Some _ => Some (dpref d0) | None => cp end).
  assert (Hp0 : forall v, pref0 = Some v -> 0 <= v).
  { intros v Hv. unfold pref0 in Hv. destruct p; [injection Hv as <-; lia|apply Hcp; exact Hv]. }
  destruct pref0 as [v|] eqn:Ep.
  - specialize (Hp0 v eq_refl).
    set (v1 := match mx with Some _ => Z.min v (dmax d0) | None => v end).
    set (v2 := match mn with Some _ => Z.max v1 (dmin d0) | None => v1 end).
    assert (Hv1 : 0 <= v1) by (unfold v1; destruct mx; lia).
    assert (Hv2 : 0 <= v2 /\ v2 <= Z.max v (dmax d0)) by (unfold v2, v1; destruct mn, mx; lia).
    assert (Hv2hi : v2 <= dmax d0 \/ mx = None).
    { unfold v2, v1. destruct mx; [left|right; reflexivity]. destruct mn; lia. }
    assert (Hv2lo : dmin d0 <= v2).
    { unfold v2. destruct mn; [lia|]. cbn [odef] in Emn. lia. }
    unfold dimension. cbn [oneg odef].
    assert (Ew0 : dweight d0 <? 0 = false) by (apply Z.ltb_ge; lia). rewrite Ew0.
    assert (Ev2 : v2 <? 0 = false) by (apply Z.ltb_ge; lia). rewrite Ev2.
    assert (Hmnn : oneg (match mn with Some _ => Some (dmin d0) | None => None end) = false).
    { destruct mn; cbn [oneg]; [apply Z.ltb_ge; lia|reflexivity]. }
    rewrite Hmnn.
    assert (Hmin_eq : odef 0 (match mn with Some _ => Some (dmin d0) | None => None end) = dmin d0).
    { destruct mn; cbn [odef] in *; [reflexivity|lia]. }
    rewrite Hmin_eq.
    destruct de.
    + cbn [oneg odef orb].
      assert (Em : Z.min (dmax d0) v2 <? 0 = false) by (apply Z.ltb_ge; lia). rewrite Em. cbn [orb].
      assert (E3 : Z.min (dmax d0) v2 <? dmin d0 = false) by (apply Z.ltb_ge; lia). rewrite E3.
      eexists. split; [reflexivity|]. cbn [dmin dmax dweight]. repeat split; try lia; try discriminate.
    + assert (Hmxn : oneg (match mx with Some _ => Some (dmax d0) | None => None end) = false).
      { destruct mx; cbn [oneg]; [apply Z.ltb_ge; lia|reflexivity]. }
      rewrite Hmxn. cbn [orb].
      assert (Hmax_eq : odef HUGE (match mx with Some _ => Some (dmax d0) | None => None end) = dmax d0).
      { destruct mx; cbn [odef] in *; [reflexivity|lia]. }
      rewrite Hmax_eq.
      assert (E3 : dmax d0 <? dmin d0 = false) by (apply Z.ltb_ge; lia). rewrite E3.
      eexists. split; [reflexivity|]. cbn [dmin dmax dweight]. repeat split; lia.
  - unfold dimension. cbn [oneg odef].
    assert (Ew0 : dweight d0 <? 0 = false) by (apply Z.ltb_ge; lia). rewrite Ew0.
    assert (Hmnn : oneg (match mn with Some _ => Some (dmin d0) | None => None end) = false).
    { destruct mn; cbn [oneg]; [apply Z.ltb_ge; lia|reflexivity]. }
    assert (Hmxn : oneg (match mx with Some _ => Some (dmax d0) | None => None end) = false).
    { destruct mx; cbn [oneg]; [apply Z.ltb_ge; lia|reflexivity]. }
    assert (Hmin_eq : odef 0 (match mn with Some _ => Some (dmin d0) | None => None end) = dmin d0).
    { destruct mn; cbn [odef] in *; [reflexivity|lia]. }
    assert (Hmax_eq : odef HUGE (match mx with Some _ => Some (dmax d0) | None => None end) = dmax d0).
    { destruct mx; cbn [odef] in *; [reflexivity|lia]. }
    destruct de; rewrite Hmnn, Hmxn; cbn [orb]; rewrite Hmin_eq, Hmax_eq;
      assert (E3 : dmax d0 <? dmin d0 = false) by (apply Z.ltb_ge; lia); rewrite E3;
      (eexists; split; [reflexivity|]; cbn [dmin dmax dweight]; repeat split; lia).
Qed.

(* ------------------------------------------------------------------ *)
(* several renders of one split: the cache never shows *)

(* the same renders by a split that never caches *)
Fixpoint render_fresh (fuel : nat) (orient : Z) (done : bool) (align : Z) (pad : dim)
         (pool : list dim) (avail start : Z)
         (steps : list (list (Z * dim) * list Z)) : list sx :=
  match steps with
  | [] => []
  | (chg, ids) :: rest =>
      let pool' := apply_changes pool chg in
      render_with fuel orient done pad pool' avail start ids (entries align ids)
      :: render_fresh fuel orient done align pad pool' avail start rest
  end.

Theorem render_steps_nocache : forall fuel orient done align pad avail start steps pool c,
  cache_ok align c ->
  render_steps fuel orient done align pad pool avail start c steps =
  render_fresh fuel orient done align pad pool avail start steps.
Proof.
  intros fuel orient done align pad avail start steps.
  induction steps as [|[chg ids] r IH]; intros pool c Hc; [reflexivity|].
  cbn [render_steps render_fresh].
  destruct (cache_get_spec align c ids Hc) as (E & Hc').
  destruct (cache_get align c ids) as [es c'] eqn:Eg. simpl in E, Hc'. subst es.
  f_equal. apply IH. exact Hc'.
Qed.

Lemma split_on_eq : forall fuel orient done align pad cs avail,
  split_on fuel orient done (match cs with [] => true | _ => false end) (all_children align pad cs) avail
  = split_divide fuel orient done align pad cs avail.
Proof.
  intros. unfold split_on, split_divide, split_divide_with. destruct (orient =? 0); [|reflexivity].
  destruct cs; reflexivity.
Qed.

(* explicit width= / height= on the split *)
Lemma split_report_ov_valid : forall ov fuel orient axis align pad cs width r,
  valid pad -> Forall valid (map fst cs) -> Forall valid (map snd cs) ->
  (forall o, ov = Some o -> exists d, o = COk d /\ valid d) ->
  split_report_ov ov fuel orient axis align pad cs width = inl r ->
  exists d, r = COk d /\ valid d.
Proof.
  intros ov fuel orient axis align pad cs width r Hp Hw Hh Hov H. unfold split_report_ov in H.
  destruct ov as [o|].
  - injection H as <-. apply Hov. reflexivity.
  - eapply split_report_valid; eassumption.
Qed.

(* across the split axis every child gets the full extent of the split *)
Lemma cross_extent_full : forall orient cross prefs, cross_extent orient cross prefs = cross.
Proof. intros. unfold cross_extent. destruct (orient =? 0); lia. Qed.

Lemma window_preferred_total : forall axis mn mx w p cp de margin ignore d0,
  dimension mn mx w p = COk d0 ->
  (forall v, cp = Some v -> 0 <= v) -> 0 <= margin ->
  exists d, window_preferred axis mn mx w p cp de margin ignore = COk d /\ valid d /\
            dmin d = dmin d0 /\ dweight d = dweight d0 /\ dmax d <= dmax d0.
Proof.
  intros axis mn mx w p cp de margin ignore d0 H0 Hcp Hm. unfold window_preferred.
  set (cp' := if ignore then None else match cp with Some v => Some (if axis =? 0 then v + margin else v) | None => None end).
  assert (Hcp' : forall v, cp' = Some v -> 0 <= v).
  { intros v Hv. unfold cp' in Hv. destruct ignore; [discriminate|]. destruct cp as [c|]; [|discriminate].
    specialize (Hcp c eq_refl). injection Hv as <-. destruct (axis =? 0); lia. }
  destruct (merge_total mn mx w p cp' de d0 H0 Hcp') as (d & Hd & A & B & C & _).
  exists d. split; [exact Hd|]. split; [eapply merge_valid; exact Hd|]. auto.
Qed.

(* with enough fuel a split always reports (VSplit.preferred_height divides the widths first) *)
Lemma split_report_total : forall fuel orient axis align pad cs width,
  valid pad -> Forall valid (map fst cs) -> Forall valid (map snd cs) ->
  (divide_fuel (all_children align pad (map fst cs)) width <= fuel)%nat ->
  exists d, split_report fuel orient axis align pad cs width = inl (COk d) /\ valid d.
Proof.
  intros fuel orient axis align pad cs width Hp Hw Hh Hf.
  assert (Hinl : exists r, split_report fuel orient axis align pad cs width = inl r).
  { unfold split_report. destruct (orient =? 0).
    - destruct (axis =? 0); [destruct cs|]; eauto.
    - destruct (axis =? 0); [eauto|].
      destruct (divide_total false (all_children align pad (map fst cs)) width fuel
                  (all_children_valid align pad _ Hp Hw) Hf) as [(E & _)|(l & E & _)]; rewrite E; eauto. }
  destruct Hinl as (r & Hr).
  destruct (split_report_valid _ _ _ _ _ _ _ _ Hp Hw Hh Hr) as (d & -> & Hv).
  exists d. auto.
Qed.

(* an explicit width= / height= built by the Dimension constructor *)
Lemma split_report_ov_ctor_valid : forall mn mx w p fuel orient axis align pad cs width d,
  split_report_ov (Some (dimension mn mx w p)) fuel orient axis align pad cs width = inl (COk d) ->
  valid d /\ dimension mn mx w p = COk d.
Proof.
  intros mn mx w p fuel orient axis align pad cs width d H. unfold split_report_ov in H.
  injection H as H. split; [eapply dimension_valid; exact H|exact H].
Qed.
