(* C08 - "if the motion fails or spans nothing, the operator changes nothing":
   per text-object family, refuted on the code as it is (vm_compute witnesses,
   replayed on the real code by the harness), and proved where it holds
   (case operators on a failed exclusive motion). *)
From Coq Require Import ZArith List Bool Lia.
From PTK Require Import Lib.Sx Lib.Py Model.Document Model.BufferEdit Model.C02_DocQueries
  Model.C08_ViOps Model.C08_TextObjects Proofs.C08_ViFacts.
Import ListNotations.
Open Scope Z_scope.

(* the statement of the property for one text object and one operator: when
   the text-object function reports failure, text, cursor, clipboard and
   named registers stay as they were and nothing is raised *)
Definition failed_noop (m : tok) (k : opk) : Prop :=
  forall text cur n keys o,
    0 <= cur <= len text -> 1 <= n ->
    text_object m (mkdoc text cur) n = TO o true ->
    let r := run_op k (st_of text cur) o (mkev n keys) in
    fst r = 0 /\ vbuf (snd r) = mkbuf text cur /\ vclip (snd r) = None /\ vreg (snd r) = None.

Ltac refute text cur n o :=
  let H := fresh "H" in
  intro H;
  specialize (H text cur n (@nil Z) o
                ltac:(vm_compute; split; intro; discriminate)
                ltac:(vm_compute; intro; discriminate)
                ltac:(vm_compute; reflexivity));
  vm_compute in H;
  destruct H as (H1 & H2 & H3 & H4);
  first [discriminate H1 | discriminate H2 | discriminate H3 | discriminate H4].

Definition abc_def : str := [97; 98; 99; 32; 100; 101; 102].      (* "abc def" *)
Definition a_nl_nl_b : str := [97; 10; 10; 98].                    (* "a\n\nb" *)
Definition ab_nl_cd : str := [97; 98; 10; 99; 100].                (* "ab\ncd" *)
Definition del : opk := OpDelete true false.

(* F x with no x before the cursor: "abc def" -> "abc dbc def" *)
Lemma failed_backward_find_refuted : ~ failed_noop (T_F 120) del.
Proof. refute abc_def 0 1 (mk1 0). Qed.
Lemma failed_backward_till_refuted : ~ failed_noop (T_T 120) del.
Proof. refute abc_def 0 1 (mk1 0). Qed.
(* f x / t x with no x after the cursor: deletes "ef" *)
Lemma failed_forward_find_refuted : ~ failed_noop (T_f 120) del.
Proof. refute abc_def 6 1 (mk1 0). Qed.
Lemma failed_forward_till_refuted : ~ failed_noop (T_t 120) del.
Proof. refute abc_def 6 1 (mk1 0). Qed.
(* ; and , with no previous character find, or no further occurrence *)
Lemma failed_repeat_find_refuted : ~ failed_noop (T_repeat false false 120 false) del.
Proof. refute abc_def 6 1 (mk1 0). Qed.
Lemma failed_repeat_find_rev_refuted : ~ failed_noop (T_repeat true true 120 false) del.
Proof. refute abc_def 0 1 (mk1 0). Qed.
(* b / B at the start of the buffer *)
Lemma backward_word_at_start_refuted : ~ failed_noop (T_b false) del.
Proof. refute abc_def 0 1 (mk1 0). Qed.
Lemma backward_WORD_at_start_refuted : ~ failed_noop (T_b true) del.
Proof. refute abc_def 0 1 (mk1 0). Qed.
(* h in column 0: "ab cd" -> "ab b cd" *)
Lemma left_at_line_start_refuted : ~ failed_noop T_h del.
Proof. refute [97; 98; 32; 99; 100] 0 1 (mk1 0). Qed.
(* l / $ / w on an empty line: deletes "a\n\n" *)
Lemma right_on_empty_line_refuted : ~ failed_noop T_l del.
Proof. refute a_nl_nl_b 2 1 (mk1 0). Qed.
Lemma end_of_line_on_empty_line_refuted : ~ failed_noop T_dollar del.
Proof. refute a_nl_nl_b 2 1 (mk1 0). Qed.
Lemma word_forward_at_end_refuted : ~ failed_noop (T_w false) del.
Proof. refute [97; 10] 2 1 (mk1 0). Qed.
(* 0 / ^ / | already in that column: "ab\ncd" at 'c' deletes "b\nc" *)
Lemma start_of_line_at_col0_refuted : ~ failed_noop T_zero del.
Proof. refute ab_nl_cd 3 1 (mk1 0). Qed.
Lemma soft_start_of_line_refuted : ~ failed_noop T_caret del.
Proof. refute ab_nl_cd 3 1 (mk1 0). Qed.
Lemma column_same_refuted : ~ failed_noop T_bar del.
Proof. refute ab_nl_cd 3 1 (mk1 0). Qed.
(* e / E / ge / gE with no such word end: the inclusive default removes one character *)
Lemma word_end_failed_refuted : ~ failed_noop (T_e false) del.
Proof. refute [97; 98] 1 1 (mkto 0 0 INCL). Qed.
Lemma word_end_backward_failed_refuted : ~ failed_noop (T_ge false) del.
Proof. refute [97; 98] 0 1 (mkto 0 0 INCL). Qed.
(* g_ on a blank line reaches back over the previous line ending *)
Lemma last_non_blank_on_blank_line_refuted : ~ failed_noop T_g_ del.
Proof. refute a_nl_nl_b 2 1 (mkto (-1) 0 INCL). Qed.
(* j on the last line / k on the first line: the current line is deleted *)
Lemma down_on_last_line_refuted : ~ failed_noop T_j del.
Proof. refute [97; 98] 0 1 (mkto 0 0 LINEW). Qed.
Lemma up_on_first_line_refuted : ~ failed_noop T_k del.
Proof. refute [97; 98] 0 1 (mkto 0 0 LINEW). Qed.
(* text objects that are not there: iw on a blank, i( outside brackets, a quote object without quotes *)
Lemma word_object_on_blank_refuted : ~ failed_noop (T_word false false) del.
Proof. refute [32] 0 1 (mkto 0 0 EXCL). Qed.
Lemma bracket_object_absent_refuted : ~ failed_noop (T_ci 40 41 true) del.
Proof. refute [97] 0 1 (mk1 0). Qed.
Lemma quote_object_absent_refuted : ~ failed_noop (T_ci 34 34 false) del.
Proof. refute [97] 0 1 (mk1 0). Qed.
(* di( on "()" : the empty inner object deletes the brackets *)
Lemma empty_inner_bracket_refuted : ~ failed_noop (T_ci 40 41 true) del.
Proof. refute [40; 41] 0 1 (mkto 1 1 EXCL). Qed.
(* { at the start, } at the end, ap on an empty buffer line *)
Lemma paragraph_back_at_start_refuted : ~ failed_noop T_lbrace del.
Proof. refute [97] 0 1 (mk1 0). Qed.
Lemma paragraph_forward_at_end_refuted : ~ failed_noop T_rbrace del.
Proof. refute [97; 10] 2 1 (mk1 0). Qed.
(* % with a count above 100 *)
Lemma percent_out_of_range_refuted : ~ failed_noop T_percent del.
Proof. refute [97; 98] 0 101 (mk1 0). Qed.

(* the other operators on a failed motion *)
Lemma failed_find_yank_refuted : ~ failed_noop (T_f 120) OpYank.        (* clipboard := "ef" *)
Proof. refute abc_def 6 1 (mk1 0). Qed.
Lemma failed_find_change_refuted : ~ failed_noop (T_F 120) (OpDelete false false).
Proof. refute abc_def 0 1 (mk1 0). Qed.
Lemma failed_find_indent_refuted : ~ failed_noop (T_F 120) OpIndent.    (* the cursor line is indented *)
Proof. refute abc_def 0 1 (mk1 0). Qed.
Lemma failed_find_unindent_refuted : ~ failed_noop (T_F 120) OpUnindent.
Proof. refute [32; 97] 1 1 (mk1 0). Qed.
Lemma failed_find_reshape_refuted : ~ failed_noop (T_F 120) OpReshape.  (* a newline is appended *)
Proof. refute abc_def 6 1 (mk1 0). Qed.
Lemma failed_word_end_transform_refuted : ~ failed_noop (T_e false) (OpTransform 3).
Proof. refute [97; 98] 1 1 (mkto 0 0 INCL). Qed.
Lemma failed_down_transform_refuted : ~ failed_noop T_j (OpTransform 3).
Proof. refute [97; 98] 0 1 (mkto 0 0 LINEW). Qed.

(* what does hold: the case operators ignore a failed EXCLUSIVE motion *)
Lemma excl0_failed v o : excl0 v = TO o true -> o = mk1 0.
Proof.
  unfold excl0. intros H.
  assert (Hv : (v =? 0) = true) by congruence.
  assert (Ho : mk1 v = o) by congruence.
  rewrite <- Ho. f_equal. lia.
Qed.

Lemma if_match_failed m g t o : if_match m g t = TO o true -> o = mk1 0.
Proof.
  unfold if_match. destruct m as [v|].
  - destruct (v =? 0); intros H; [congruence|discriminate].
  - intros H; congruence.
Qed.

Lemma transform_noop_of_excl m :
  (forall d n o, text_object m d n = TO o true -> o = mk1 0) ->
  forall f, failed_noop m (OpTransform f).
Proof.
  intros Hm f text cur n keys o _ _ Ht. rewrite (Hm _ _ _ Ht).
  cbn [run_op]. rewrite op_transform_failed_excl. cbn [fst snd st_of vbuf vclip vreg].
  repeat split; reflexivity.
Qed.

Lemma transform_failed_find_noop ch f :
  failed_noop (T_f ch) (OpTransform f) /\ failed_noop (T_F ch) (OpTransform f) /\
  failed_noop (T_t ch) (OpTransform f) /\ failed_noop (T_b false) (OpTransform f) /\
  failed_noop (T_b true) (OpTransform f) /\ failed_noop T_h (OpTransform f) /\
  failed_noop T_l (OpTransform f) /\ failed_noop T_dollar (OpTransform f) /\
  failed_noop T_zero (OpTransform f) /\ failed_noop T_caret (OpTransform f) /\
  failed_noop T_bar (OpTransform f) /\ failed_noop (T_w false) (OpTransform f) /\
  failed_noop (T_w true) (OpTransform f).
Proof.
  repeat apply conj; apply transform_noop_of_excl; intros d n o; cbn [text_object];
    first [apply excl0_failed | apply if_match_failed].
Qed.
