(* C08 - "if the motion fails or spans nothing, the operator changes nothing"
   at the level of the operator BODIES: d, c, y and the case operators do
   nothing on the empty exclusive object that a failing text-object function
   returns (per family, from the text-object functions of the model).  The
   full statement for all operators and text objects is at the wrapper
   (Proofs/C08_SessionFacts.v: wrapper_cancels). *)
From Coq Require Import ZArith List Bool Lia.
From PTK Require Import Lib.Sx Lib.Py Model.Document Model.BufferEdit Model.C02_DocQueries
  Model.C08_ViOps Model.C08_TextObjects Proofs.C08_ViFacts.
Import ListNotations.
Open Scope Z_scope.

(* the statement of the property for one text object and one operator: when
   the text-object function reports failure, text, cursor, clipboard and
   named registers stay as they were and nothing is raised *)
Definition failed_noop (m : tok) (k : opk) : Prop :=
  forall text cur n hc keys o,
    0 <= cur <= len text -> 1 <= n ->
    text_object m (mkdoc text cur) n hc = TO o true ->
    let r := run_op k (st_of text cur) o (mkev n keys) in
    fst r = 0 /\ vbuf (snd r) = mkbuf text cur /\ vclip (snd r) = None /\ vreg (snd r) = None.

(* operators that go through TextObject.cut or through the range guard *)
Definition cut_or_case (k : opk) : Prop :=
  match k with OpDelete _ _ | OpYank | OpTransform _ => True | _ => False end.

(* an exclusive object with equal ends has an empty range *)
Lemma operator_range_equal_ends d o :
  ttype o = EXCL -> tstart o = tend o -> operator_range d o = (tstart o, tstart o).
Proof.
  intros Ht He. unfold operator_range, to_sorted. rewrite Ht, <- He.
  rewrite !Z.ltb_irrefl. cbn [is_excl is_incl is_linew andb]. reflexivity.
Qed.

Lemma noop_of_empty_excl m :
  (forall d n hc o, text_object m d n hc = TO o true -> ttype o = EXCL /\ tstart o = tend o) ->
  forall k, cut_or_case k -> failed_noop m k.
Proof.
  intros Hm k Hk text cur n hc keys o Hc _ Ht.
  destruct (Hm _ _ _ _ Ht) as [Hty Heq].
  assert (Hl : is_linew (ttype o) = false) by (rewrite Hty; reflexivity).
  assert (Hb : is_block (ttype o) = false) by (rewrite Hty; reflexivity).
  assert (Hr : snd (operator_range (bdoc (vbuf (st_of text cur))) o)
               <= fst (operator_range (bdoc (vbuf (st_of text cur))) o)).
  { rewrite operator_range_equal_ends by assumption. cbn [fst snd]. lia. }
  destruct k as [dl wr| | |f| | |]; try contradiction; cbn [run_op].
  - rewrite op_delete_empty by (try assumption; cbn [st_of vbuf bcur]; lia).
    cbn [fst snd st_of vbuf vclip vreg]. repeat split; reflexivity.
  - rewrite op_yank_empty by assumption.
    cbn [fst snd st_of vbuf vclip vreg]. repeat split; reflexivity.
  - rewrite op_transform_empty by exact Hr.
    cbn [fst snd st_of vbuf vclip vreg]. repeat split; reflexivity.
Qed.

Lemma excl0_failed v o : excl0 v = TO o true -> ttype o = EXCL /\ tstart o = tend o.
Proof.
  unfold excl0. intros H.
  assert (Hv : (v =? 0) = true) by congruence.
  assert (Ho : mk1 v = o) by congruence.
  rewrite <- Ho. cbn [mk1 ttype tstart tend]. split; [reflexivity|lia].
Qed.

Lemma mk1_0_failed (o : tobj) : TO (mk1 0) true = TO o true -> ttype o = EXCL /\ tstart o = tend o.
Proof. intros H. assert (Ho : mk1 0 = o) by congruence. rewrite <- Ho. split; reflexivity. Qed.

Lemma if_match_failed m g t o : if_match m g t = TO o true -> ttype o = EXCL /\ tstart o = tend o.
Proof.
  unfold if_match. destruct m as [v|].
  - destruct (v =? 0); intros H; [apply mk1_0_failed; exact H|discriminate].
  - apply mk1_0_failed.
Qed.

Ltac fam := apply noop_of_empty_excl; intros d n hc o; cbn [text_object].

Lemma fam_f ch : forall k, cut_or_case k -> failed_noop (T_f ch) k.
Proof. fam. apply if_match_failed. Qed.
Lemma fam_t ch : forall k, cut_or_case k -> failed_noop (T_t ch) k.
Proof. fam. apply if_match_failed. Qed.
Lemma fam_F ch : forall k, cut_or_case k -> failed_noop (T_F ch) k.
Proof. fam. apply excl0_failed. Qed.
Lemma fam_T ch : forall k, cut_or_case k -> failed_noop (T_T ch) k.
Proof.
  fam. destruct (dfind_backwards ceq_exact d [ch] true n) as [v|]; [|apply mk1_0_failed].
  destruct (v =? 0); [apply mk1_0_failed|apply excl0_failed].
Qed.
Lemma fam_repeat rev has ch bw : forall k, cut_or_case k -> failed_noop (T_repeat rev has ch bw) k.
Proof.
  fam. destruct has; [|apply mk1_0_failed]. destruct (xorb bw rev); apply if_match_failed.
Qed.
Lemma fam_b W : forall k, cut_or_case k -> failed_noop (T_b W) k.
Proof. fam. apply excl0_failed. Qed.
Lemma fam_w W : forall k, cut_or_case k -> failed_noop (T_w W) k.
Proof. fam. apply excl0_failed. Qed.
Lemma fam_h : forall k, cut_or_case k -> failed_noop T_h k.
Proof. fam. apply excl0_failed. Qed.
Lemma fam_l : forall k, cut_or_case k -> failed_noop T_l k.
Proof. fam. apply excl0_failed. Qed.
Lemma fam_dollar : forall k, cut_or_case k -> failed_noop T_dollar k.
Proof. fam. apply excl0_failed. Qed.
Lemma fam_zero : forall k, cut_or_case k -> failed_noop T_zero k.
Proof. fam. apply excl0_failed. Qed.
Lemma fam_caret : forall k, cut_or_case k -> failed_noop T_caret k.
Proof. fam. apply excl0_failed. Qed.
Lemma fam_bar : forall k, cut_or_case k -> failed_noop T_bar k.
Proof. fam. apply excl0_failed. Qed.
Lemma fam_lbrace : forall k, cut_or_case k -> failed_noop T_lbrace k.
Proof. fam. destruct (start_of_paragraph d n true); [apply excl0_failed|discriminate]. Qed.
Lemma fam_rbrace : forall k, cut_or_case k -> failed_noop T_rbrace k.
Proof. fam. destruct (end_of_paragraph d n true); [apply excl0_failed|discriminate]. Qed.
Lemma fam_percent : forall k, cut_or_case k -> failed_noop T_percent k.
Proof.
  fam. destruct hc.
  - destruct ((0 <? n) && (n <=? 100)); [discriminate|apply mk1_0_failed].
  - destruct (find_matching_bracket_position d None None =? 0); [apply mk1_0_failed|discriminate].
Qed.
Lemma fam_gm : forall k, cut_or_case k -> failed_noop T_gm k.
Proof. fam. apply mk1_0_failed. Qed.
Lemma fam_word W tr : forall k, cut_or_case k -> failed_noop (T_word W tr) k.
Proof.
  fam. destruct (find_boundaries_of_current_word d W false tr) as [s e]. intros H.
  assert (Hf : (s =? 0) && (e =? 0) = true) by congruence.
  assert (Ho : mkto s e EXCL = o) by congruence.
  rewrite <- Ho. cbn [ttype tstart tend]. split; [reflexivity|].
  apply andb_true_iff in Hf. lia.
Qed.
Lemma fam_ap : forall k, cut_or_case k -> failed_noop T_ap k.
Proof.
  fam. destruct (start_of_paragraph d 1 false) as [s|]; [|discriminate].
  destruct (end_of_paragraph d n false) as [e|]; [|discriminate]. intros H.
  assert (Hf : (s =? e) = true) by congruence.
  assert (Ho : mkto s e EXCL = o) by congruence.
  rewrite <- Ho. cbn [ttype tstart tend]. split; [reflexivity|lia].
Qed.
Lemma fam_ci l r inner : forall k, cut_or_case k -> failed_noop (T_ci l r inner) k.
Proof.
  fam.
  destruct (if l =? r
            then (dfind_backwards ceq_exact d [l] false 1, dfind ceq_exact d [r] false false 1)
            else (find_enclosing_bracket_left d l r None, find_enclosing_bracket_right d l r None))
    as [[s|] [e|]]; try apply mk1_0_failed.
  intros H.
  assert (Hf : (e + (if inner then 0 else 1) =? s + 1 - (if inner then 0 else 1)) = true) by congruence.
  assert (Ho : mkto (s + 1 - (if inner then 0 else 1)) (e + (if inner then 0 else 1)) EXCL = o) by congruence.
  rewrite <- Ho. cbn [ttype tstart tend]. split; [reflexivity|lia].
Qed.


(* ---------------------------------------------------------------------- *)
(* The ghost flag [failed] only marks what /repo cancels: the text-object
   functions that return None when they fail (e E ge gE g_ j k), or an
   exclusive object with equal ends - the two tests of the wrapper
   _apply_operator_to_text_object. *)
Definition none_family (m : tok) : bool :=
  match m with T_e _ | T_ge _ | T_g_ | T_j | T_k => true | _ => false end.

Lemma failed_flag_sound m d n hc o :
  text_object m d n hc = TO o true ->
  none_family m = true \/ (ttype o = EXCL /\ tstart o = tend o).
Proof.
  destruct m; cbn [none_family]; try (left; reflexivity); right; revert H; cbn [text_object].
  - apply excl0_failed.
  - apply excl0_failed.
  - apply excl0_failed.
  - destruct (find_boundaries_of_current_word d WORD false trail) as [s e]. intros H.
    assert (Hf : (s =? 0) && (e =? 0) = true) by congruence.
    assert (Ho : mkto s e EXCL = o) by congruence.
    rewrite <- Ho. cbn [ttype tstart tend]. split; [reflexivity|]. apply andb_true_iff in Hf. lia.
  - destruct (start_of_paragraph d 1 false) as [s|]; [|discriminate].
    destruct (end_of_paragraph d n false) as [e|]; [|discriminate]. intros H.
    assert (Hf : (s =? e) = true) by congruence.
    assert (Ho : mkto s e EXCL = o) by congruence.
    rewrite <- Ho. cbn [ttype tstart tend]. split; [reflexivity|lia].
  - apply excl0_failed.
  - apply excl0_failed.
  - destruct (if l =? r
              then (dfind_backwards ceq_exact d [l] false 1, dfind ceq_exact d [r] false false 1)
              else (find_enclosing_bracket_left d l r None, find_enclosing_bracket_right d l r None))
      as [[s|] [e|]]; try apply mk1_0_failed.
    intros H.
    assert (Hf : (e + (if inner then 0 else 1) =? s + 1 - (if inner then 0 else 1)) = true) by congruence.
    assert (Ho : mkto (s + 1 - (if inner then 0 else 1)) (e + (if inner then 0 else 1)) EXCL = o) by congruence.
    rewrite <- Ho. cbn [ttype tstart tend]. split; [reflexivity|lia].
  - destruct (start_of_paragraph d n true); [apply excl0_failed|discriminate].
  - destruct (end_of_paragraph d n true); [apply excl0_failed|discriminate].
  - apply if_match_failed.
  - apply excl0_failed.
  - apply if_match_failed.
  - destruct (dfind_backwards ceq_exact d [ch] true n) as [v|]; [|apply mk1_0_failed].
    destruct (v =? 0); [apply mk1_0_failed|apply excl0_failed].
  - destruct has; [|apply mk1_0_failed]. destruct (xorb backwards reverse); apply if_match_failed.
  - apply excl0_failed.
  - apply excl0_failed.
  - discriminate.
  - discriminate.
  - discriminate.
  - destruct hc.
    + destruct ((0 <? n) && (n <=? 100)); [discriminate|apply mk1_0_failed].
    + destruct (find_matching_bracket_position d None None =? 0); [apply mk1_0_failed|discriminate].
  - apply excl0_failed.
  - destruct hc; discriminate.
  - apply mk1_0_failed.
  - discriminate.
  - discriminate.
  - apply mk1_0_failed.
Qed.
