(* C09 - registers holding data of ANY type (CHARACTERS / LINES / BLOCK): what
   the visual reg-y / reg-d operators store is exactly the data TextObject.cut
   produced, and reg-p hands exactly the stored data to the paste; s / C. *)
From Coq Require Import ZArith List Bool Lia PeanoNat.
From PTK Require Import Lib.Sx Lib.Py Model.Document Model.BufferEdit Proofs.BufferEditFacts
  Proofs.C02_Base
  Model.C09_Kill Proofs.C09_Ring Proofs.C09_KillFacts Proofs.C09_YankFacts Proofs.C09_CutFacts
  Proofs.C09_LinesFacts.
Import ListNotations.
Open Scope Z_scope.

Definition visual_tt (ty : Z) : Z :=
  if ty =? LINES then LINEWISE else if ty =? BLOCK then TBLOCK else INCLUSIVE.

(* reg-y on a visual selection of any type: register r receives, unchanged, the
   data (text AND type) that TextObject.cut computed; nothing else changes *)
Lemma visual_register_yank_any s orig ty r nd data :
  is_register_name r = true ->
  tobj_cut (mkdoc (btext (sb s)) (bcur (sb s))) (orig - bcur (sb s)) 0 (visual_tt ty) = Some (Some nd, data) ->
  ctext data <> [] ->
  exists s', vi_visual s (orig, ty) 4 r = (0, s') /\
    sb s' = sb s /\ sring s' = sring s /\
    reg_get (sregs s') r = Some data /\
    (forall r', r' <> r -> reg_get (sregs s') r' = reg_get (sregs s) r').
Proof.
  intros Hr Hcut Hne. unfold vi_visual. cbn [fst snd].
  change (4 =? 2) with false. cbv iota.
  unfold cur_doc, bdoc. cbn [with_sel sb dcur dtext].
  fold (visual_tt ty). rewrite Hcut.
  change ((4 =? 0) || (4 =? 3)) with false. change (4 =? 1) with false. cbv iota.
  rewrite Hr. destruct (ctext data) as [|c0 cs] eqn:Ec; [congruence|].
  eexists. split; [reflexivity|].
  cbn [with_sel with_regs sb sring sregs]. repeat split.
  - apply reg_get_set.
  - intros r' Hne'. now apply reg_get_set_other.
Qed.

(* reg-p / reg-P: the paste receives exactly what the register holds *)
Lemma register_paste_any s r data mode n :
  is_register_name r = true -> reg_get (sregs s) r = Some data ->
  vi_paste_reg s r mode n = buf_paste s data mode n.
Proof. intros Hr Hg. unfold vi_paste_reg. now rewrite Hr, Hg. Qed.

(* a register holding LINES data, pasted n >= 1 times: n whole lines below / above *)
Lemma register_lines_paste s r data (before : bool) n :
  Inv (sb s) -> is_register_name r = true -> reg_get (sregs s) r = Some data ->
  ctype data = LINES -> 1 <= n ->
  let d := cur_doc s in
  let at_ := if before then cursor_position_row d else cursor_position_row d + 1 in
  exists s', vi_paste_reg s r (if before then VI_BEFORE else VI_AFTER) n = (0, s') /\
    btext (sb s') = join [NL] (firstn (Z.to_nat at_) (lines d)
                               ++ repeat_list (ctext data) (Z.to_nat n)
                               ++ skipn (Z.to_nat at_) (lines d)) /\
    sregs s' = sregs s /\ sring s' = sring s.
Proof.
  intros Hi Hr Hg Hty Hn d at_.
  rewrite (register_paste_any s r data _ n Hr Hg). unfold buf_paste.
  assert (Hv : valid (cur_doc s)) by exact Hi.
  destruct (doc_paste_lines (cur_doc s) data (if before then VI_BEFORE else VI_AFTER) n Hv Hty Hn)
    as [c' Hd]; [destruct before; [right; now left|right; now right]|].
  rewrite Hd. eexists. split; [reflexivity|].
  cbn [with_dbp set_doc upd with_buf sb sring sregs btext]. repeat split.
  unfold at_, d. destruct before; reflexivity.
Qed.

(* s and C (the part before the Escape): exact kills *)
Lemma vi_s_exact s arg : Inv (sb s) -> killed true s (vi_subst_core s arg) (fun x => x).
Proof. intros Hi. unfold vi_subst_core. now apply kill_with_fwd. Qed.
Lemma vi_C_exact s : Inv (sb s) -> killed true s (vi_bigC_core s) (fun x => x).
Proof. intros Hi. unfold vi_bigC_core. now apply kill_with_fwd. Qed.

(* S / cc stores the whole current line, line-wise *)
Lemma vi_S_register s :
  ring_get (sring (snd (vi_bigS_core s))) = mkclip (current_line (cur_doc s)) LINES.
Proof.
  unfold vi_bigS_core. cbv zeta. destruct (delete _ _); reflexivity.
Qed.
