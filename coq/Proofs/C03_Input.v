(* C03 - byte level: the incremental UTF-8 decoder is chunk independent, and
   Vt100Input.read_keys/flush_keys hand every key press over exactly once. *)
From Coq Require Import ZArith List Bool Lia.
From PTK Require Import Lib.Sx Lib.Py Lib.C03_Str Gen.C03_AnsiSequences Model.C03_Vt100Parser
  Model.C03_Vt100Input Proofs.C03_Table Proofs.C03_Process Proofs.C03_Feed Proofs.C03_Lossless Proofs.C03_Main.
Import ListNotations.
Open Scope Z_scope.

(* ---------------------------------------------------------------------- *)
(* one decoding step *)

Ltac split_ifs :=
  repeat match goal with
         | |- context [if ?c then _ else _] => destruct c
         end.

Lemma step_emit_bounds bs cp n : step bs = Emit cp n -> (1 <= n <= length bs)%nat.
Proof.
  destruct bs as [|b1 [|b2 [|b3 [|b4 r]]]]; unfold step; cbv zeta; cbn [length];
    split_ifs; intros H; try discriminate H; injection H as _ <-; lia.
Qed.

(* a decision taken with the bytes at hand is not changed by later bytes *)
Lemma step_emit_app a b cp n : step a = Emit cp n -> step (a ++ b) = Emit cp n.
Proof.
  destruct a as [|b1 [|b2 [|b3 [|b4 r]]]]; unfold step; cbv zeta; cbn [app].
  - intros H; discriminate H.
  - destruct b as [|c1 [|c2 r']]; split_ifs; intros H; try discriminate H; exact H.
  - destruct b as [|c1 r']; split_ifs; intros H; try discriminate H; exact H.
  - destruct b as [|c1 r']; split_ifs; intros H; try discriminate H; exact H.
  - split_ifs; intros H; try discriminate H; exact H.
Qed.

(* ---------------------------------------------------------------------- *)
(* fuel *)

Lemma dec_fuel_irrel f1 : forall f2 bs,
  (length bs < f1)%nat -> (length bs < f2)%nat -> dec_fuel f1 bs = dec_fuel f2 bs.
Proof.
  induction f1 as [|f1 IH]; intros f2 bs H1 H2; [lia|].
  destruct f2 as [|f2]; [lia|]. cbn [dec_fuel].
  destruct (step bs) as [cp n| |] eqn:E; try reflexivity.
  apply step_emit_bounds in E. f_equal. apply IH; rewrite skipn_length; lia.
Qed.

Lemma dec_fuel_oof f : forall bs, (length bs < f)%nat -> doof (dec_fuel f bs) = false.
Proof.
  induction f as [|f IH]; intros bs H; [lia|]. cbn [dec_fuel].
  destruct (step bs) as [cp n| |] eqn:E; try reflexivity.
  apply step_emit_bounds in E. cbn [dcons doof]. apply IH. rewrite skipn_length. lia.
Qed.

Lemma dec_oof bs : doof (dec bs) = false.
Proof. unfold dec. apply dec_fuel_oof. lia. Qed.

(* what is left undecoded is left undecoded again when decoded on its own *)
Lemma dec_unfold bs :
  dec bs = match step bs with
           | Stop => mkd [] [] false
           | Pend => mkd [] bs false
           | Emit cp n => dcons cp (dec (skipn n bs))
           end.
Proof.
  unfold dec at 1. cbn [dec_fuel]. destruct (step bs) as [cp n| |] eqn:E; try reflexivity.
  apply step_emit_bounds in E. f_equal. unfold dec. apply dec_fuel_irrel; rewrite skipn_length; lia.
Qed.

Lemma dcombine_nil_l p r : doof r = false \/ True -> dcombine (mkd [] p false) r = r.
Proof. intros _. destruct r; reflexivity. Qed.

Lemma dcombine_dcons cp r1 r2 : dcombine (dcons cp r1) r2 = dcons cp (dcombine r1 r2).
Proof. reflexivity. Qed.

(* BYTE-LEVEL chunk independence of the decoder:
   decoding a ++ b at once = decoding a, then (undecoded tail of a) ++ b *)
Lemma dec_app_aux k : forall a b, (length a <= k)%nat ->
  dec (a ++ b) = dcombine (dec a) (dec (dpend (dec a) ++ b)).
Proof.
  induction k as [|k IH]; intros a b Hk.
  - destruct a; [|cbn [length] in Hk; lia]. cbn [app].
    rewrite (dec_unfold []). cbn [step dpend app]. now rewrite dcombine_nil_l by auto.
  - rewrite (dec_unfold a). destruct (step a) as [cp n| |] eqn:E.
    + pose proof (step_emit_bounds _ _ _ E) as B.
      rewrite (dec_unfold (a ++ b)), (step_emit_app a b cp n E).
      rewrite skipn_app. replace (n - length a)%nat with 0%nat by lia. cbn [skipn].
      rewrite IH by (rewrite skipn_length; lia).
      cbn [dcons dpend]. now rewrite dcombine_dcons.
    + cbn [dpend]. now rewrite dcombine_nil_l by auto.
    + destruct a as [|x a']; [|unfold step in E; split_ifs; destruct a' as [|? [|? [|? ?]]]; cbv zeta in E; unfold in_rng in E;
                                 repeat match type of E with context [if ?c then _ else _] => destruct c end; discriminate E].
      cbn [app dpend]. now rewrite dcombine_nil_l by auto.
Qed.

Lemma dec_app a b : dec (a ++ b) = dcombine (dec a) (dec (dpend (dec a) ++ b)).
Proof. apply (dec_app_aux (length a)). lia. Qed.

(* the undecoded tail decodes to nothing on its own *)
Lemma dec_pend_aux k : forall bs, (length bs <= k)%nat ->
  dec (dpend (dec bs)) = mkd [] (dpend (dec bs)) false.
Proof.
  induction k as [|k IH]; intros bs Hk.
  - destruct bs; [|cbn [length] in Hk; lia]. reflexivity.
  - rewrite (dec_unfold bs). destruct (step bs) as [cp n| |] eqn:E.
    + pose proof (step_emit_bounds _ _ _ E) as B. cbn [dcons dpend].
      apply IH. rewrite skipn_length. lia.
    + cbn [dpend]. rewrite (dec_unfold bs), E. reflexivity.
    + reflexivity.
Qed.
Lemma dec_pend bs : dec (dpend (dec bs)) = mkd [] (dpend (dec bs)) false.
Proof. apply (dec_pend_aux (length bs)). lia. Qed.

(* ---------------------------------------------------------------------- *)
(* the parser's output only grows *)

Lemma step_char_out st c : exists later, out (step_char st c) = out st ++ later.
Proof.
  unfold step_char. destruct (in_paste st).
  - unfold paste_char. destruct (ends_with end_mark (paste_buf st ++ [c])).
    + eexists. unfold out. cbn [leave_paste push rout rev]. reflexivity.
    + exists []. unfold out. cbn [set_paste_buf rout]. now rewrite app_nil_r.
  - destruct (star_out _ _ (send_char_star c st)) as [l E]. exists l. rewrite E. reflexivity.
Qed.

Lemma feed_spec_out d : forall st, exists later, out (feed_spec d st) = out st ++ later.
Proof.
  unfold feed_spec. induction d as [|c d IH]; intros st.
  - exists []. cbn [fold_left]. now rewrite app_nil_r.
  - cbn [fold_left]. destruct (step_char_out st c) as [l1 E1]. destruct (IH (step_char st c)) as [l2 E2].
    exists (l1 ++ l2). now rewrite E2, E1, app_assoc.
Qed.

Lemma new_events_spec old new later : out new = out old ++ later -> new_events old new = later.
Proof.
  intros E. unfold new_events. rewrite E.
  replace (length (rout old)) with (length (out old)) by (unfold out; apply rev_length).
  rewrite skipn_app, skipn_all, Nat.sub_diag. reflexivity.
Qed.

Lemma feed_new_events d st : Inv0 st -> out (feed d st) = out st ++ new_events st (feed d st).
Proof.
  intros HI. rewrite feed_eq_spec by exact HI. destruct (feed_spec_out d st) as [l E].
  now rewrite (new_events_spec _ _ _ E).
Qed.
Lemma flush_new_events st : out (flush st) = out st ++ new_events st (flush st).
Proof. destruct (star_out _ _ (flush_star st)) as [l E]. now rewrite (new_events_spec _ _ _ E). Qed.

(* ---------------------------------------------------------------------- *)
(* Vt100Input: conservation *)

Definition VInv (acc : vstate * list (list event)) : Prop :=
  Inv0 (vpar (fst acc)) /\ vbuf (fst acc) = [] /\ concat (snd acc) = out (vpar (fst acc)) /\
  dec (vpend (fst acc)) = mkd [] (vpend (fst acc)) false.

Lemma VInv_init : VInv (vinit, []).
Proof. repeat split. Qed.

Lemma apply_vop_inv acc o : VInv acc -> VInv (apply_vop acc o).
Proof.
  intros (HI & HB & HC & HP). destruct acc as [v rets]. cbn [fst snd] in *.
  unfold VInv, apply_vop. destruct o as [b|]; cbn [fst snd read_keys flush_keys vpar vbuf vpend].
  - repeat split.
    + now apply Inv0_feed.
    + rewrite concat_app. cbn [concat]. rewrite app_nil_r, HB, HC. cbn [app].
      symmetry. now apply feed_new_events.
    + apply dec_pend.
  - repeat split.
    + now apply Inv0_flush.
    + rewrite concat_app. cbn [concat]. rewrite app_nil_r, HB, HC. cbn [app].
      symmetry. apply flush_new_events.
    + exact HP.
Qed.

Lemma run_vops_from_inv ops : forall acc, VInv acc -> VInv (fold_left apply_vop ops acc).
Proof.
  induction ops as [|o ops IH]; intros acc H; [exact H|]. cbn [fold_left]. apply IH. now apply apply_vop_inv.
Qed.

Lemma run_vops_inv ops : VInv (run_vops ops vinit).
Proof. unfold run_vops. apply run_vops_from_inv. exact VInv_init. Qed.

(* the parser inside Vt100Input runs the incrementally decoded text schedule *)
Lemma vpar_text_ops ops : forall acc,
  vpar (fst (fold_left apply_vop ops acc)) = run_ops (text_ops (vpend (fst acc)) ops) (vpar (fst acc)) /\
  voof (fst (fold_left apply_vop ops acc)) = voof (fst acc).
Proof.
  induction ops as [|o ops IH]; intros acc; [split; reflexivity|].
  cbn [fold_left]. destruct (IH (apply_vop acc o)) as [A B]. rewrite A, B.
  destruct acc as [v rets]. destruct o as [b|]; unfold apply_vop; cbn [fst snd read_keys flush_keys vpar vpend voof text_ops].
  - unfold run_ops. cbn [fold_left apply_op]. split; [reflexivity|]. now rewrite dec_oof, orb_false_r.
  - unfold run_ops. cbn [fold_left apply_op]. split; reflexivity.
Qed.

(* ---------------------------------------------------------------------- *)
(* byte-level chunk independence of the whole input path *)

(* the part of the state that matters between calls *)
Definition vcore (v : vstate) := (vpend v, vpar v).

Lemma read_keys_app a b v :
  Inv0 (vpar v) ->
  vcore (fst (read_keys b (fst (read_keys a v)))) = vcore (fst (read_keys (a ++ b) v)).
Proof.
  intros HI. unfold vcore, read_keys. cbn [fst vpend vpar].
  rewrite app_assoc, (dec_app (vpend v ++ a) b). cbn [dcombine dout dpend].
  now rewrite feed_app by exact HI.
Qed.

Lemma read_keys_core_congr bytes v v' :
  vcore v = vcore v' -> vcore (fst (read_keys bytes v)) = vcore (fst (read_keys bytes v')).
Proof. unfold vcore, read_keys. intros H. injection H as H1 H2. cbn [fst vpend vpar]. now rewrite H1, H2. Qed.
Lemma flush_keys_core_congr v v' :
  vcore v = vcore v' -> vcore (fst (flush_keys v)) = vcore (fst (flush_keys v')).
Proof. unfold vcore, flush_keys. intros H. injection H as H1 H2. cbn [fst vpend vpar]. now rewrite H1, H2. Qed.

Lemma fold_core_congr ops : forall acc acc',
  vcore (fst acc) = vcore (fst acc') ->
  vcore (fst (fold_left apply_vop ops acc)) = vcore (fst (fold_left apply_vop ops acc')).
Proof.
  induction ops as [|o ops IH]; intros acc acc' H; [exact H|]. cbn [fold_left]. apply IH.
  unfold apply_vop. destruct o; cbn [fst]; [now apply read_keys_core_congr|now apply flush_keys_core_congr].
Qed.

Lemma feed_nil st : Inv0 st -> feed [] st = st.
Proof. intros H. now rewrite feed_eq_spec by exact H. Qed.

Lemma reads_core chunks : forall acc,
  VInv acc ->
  vcore (fst (fold_left apply_vop (map Read chunks) acc)) =
  vcore (fst (read_keys (concat chunks) (fst acc))).
Proof.
  induction chunks as [|c chunks IH]; intros acc HV.
  - destruct HV as (HI & _ & _ & HP).
    cbn [map fold_left concat]. unfold vcore, read_keys. cbn [fst vpend vpar].
    rewrite app_nil_r, HP. cbn [dout dpend]. now rewrite feed_nil by exact HI.
  - cbn [map fold_left concat]. rewrite IH by (now apply apply_vop_inv).
    unfold apply_vop at 1. cbn [fst]. apply read_keys_app. apply HV.
Qed.

Lemma bytes_chunk_independent before chunks after :
  let r1 := run_vops (before ++ map Read chunks ++ after) vinit in
  let r2 := run_vops (before ++ [Read (concat chunks)] ++ after) vinit in
  vcore (fst r1) = vcore (fst r2) /\ concat (snd r1) = concat (snd r2).
Proof.
  cbv zeta.
  assert (C : vcore (fst (run_vops (before ++ map Read chunks ++ after) vinit)) =
              vcore (fst (run_vops (before ++ [Read (concat chunks)] ++ after) vinit))).
  { unfold run_vops. rewrite !fold_left_app. apply fold_core_congr.
    set (acc0 := fold_left apply_vop before (vinit, [])).
    assert (HV : VInv acc0) by (apply run_vops_from_inv; exact VInv_init).
    rewrite reads_core by exact HV. cbn [fold_left]. unfold apply_vop at 1. cbn [fst]. reflexivity. }
  split; [exact C|].
  destruct (run_vops_inv (before ++ map Read chunks ++ after)) as (_ & _ & E1 & _).
  destruct (run_vops_inv (before ++ [Read (concat chunks)] ++ after)) as (_ & _ & E2 & _).
  rewrite E1, E2. unfold vcore in C. injection C as _ C. now rewrite C.
Qed.

(* conservation, stated for schedules *)
Lemma input_conservation ops :
  let r := run_vops ops vinit in
  concat (snd r) = out (run_ops (text_ops [] ops) init) /\
  vbuf (fst r) = [] /\
  vpar (fst r) = run_ops (text_ops [] ops) init /\
  voof (fst r) = false.
Proof.
  cbv zeta. destruct (run_vops_inv ops) as (_ & HB & HC & _).
  destruct (vpar_text_ops ops (vinit, [])) as [A B]. cbn [fst vinit vpend vpar voof] in A, B.
  unfold run_vops. rewrite <- A. repeat split; try assumption.
Qed.
