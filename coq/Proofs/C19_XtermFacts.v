(* C19 - the regenerated 256-colour table IS the fixed xterm palette; the
   nearest/fixpoint theorems restated against that palette; the table as it
   stood before the fix 9cc52db kept as a refuted witness. *)
From Coq Require Import ZArith List Bool Lia String.
From PTK Require Import Lib.Py Lib.C19_Str Gen.C19_Palette Model.C19_Palette Model.C19_Xterm
     Proofs.C19_PaletteFacts.
Import ListNotations.
Open Scope Z_scope.

Theorem colors_256_is_xterm : colors_256 = xterm_256.
Proof. vm_compute. reflexivity. Qed.

(* formatted_text/ansi.py decodes `38;5;n` to "#rrggbb" of xterm colour n, for
   every n in 0..255 *)
Theorem ansi_256_hex_is_xterm :
  forallb (fun ic : Z * rgb =>
             let '(r, g, b) := snd ic in
             match assocZ (fst ic) ansi_256_hex with
             | Some h => str_eqb h (35 :: hex02 r ++ hex02 g ++ hex02 b)
             | None => false
             end) (enumerate_from 0 xterm_256) = true
  /\ List.length ansi_256_hex = 256%nat.
Proof. vm_compute. split; reflexivity. Qed.

Theorem color256_nearest_xterm : forall r g b,
  in_byte r -> in_byte g -> in_byte b ->
  exists c,
    16 <= color256 r g b < 256 /\
    nth_error xterm_256 (Z.to_nat (color256 r g b)) = Some c /\
    (forall j cj, 16 <= j -> nth_error xterm_256 (Z.to_nat j) = Some cj ->
                  dist r g b c <= dist r g b cj) /\
    (forall j cj, 16 <= j < color256 r g b ->
                  nth_error xterm_256 (Z.to_nat j) = Some cj ->
                  dist r g b c < dist r g b cj).
Proof.
  intros r g b Hr Hg Hb. destruct (color256_nearest r g b Hr Hg Hb) as (c & H1 & H2 & H3 & H4).
  rewrite colors_256_is_xterm in H1, H2, H3, H4. exists c.
  split; [|split; [exact H2 | split; assumption]].
  change (len xterm_256) with 256 in H1. exact H1.
Qed.

(* every xterm colour with index >= 16 maps to ITS OWN index (the palette has
   no duplicates there) *)
Lemma xterm_fixpoint_table :
  forallb (fun ic : Z * rgb =>
             let '(r, g, b) := snd ic in
             if 16 <=? fst ic then color256 r g b =? fst ic else true)
          (enumerate_from 0 xterm_256) = true.
Proof. vm_compute. reflexivity. Qed.

Theorem color256_xterm_fixpoint : forall i r g b,
  16 <= i -> nth_error xterm_256 (Z.to_nat i) = Some (r, g, b) -> color256 r g b = i.
Proof.
  intros i r g b Hi Hn.
  assert (Hin : In (0 + Z.of_nat (Z.to_nat i), (r, g, b)) (enumerate_from 0 xterm_256))
    by (apply enumerate_In; exact Hn).
  replace (0 + Z.of_nat (Z.to_nat i)) with i in Hin by lia.
  pose proof (proj1 (forallb_forall _ _) xterm_fixpoint_table _ Hin) as H. cbn [fst snd] in H.
  destruct (16 <=? i) eqn:E; [apply Z.eqb_eq; exact H | apply Z.leb_gt in E; lia].
Qed.

(* the table as coded before 9cc52db: range(217) cube entries (one (0,0,0) too
   many) and 21 grays 18..218 - 254 entries *)
Definition colors_256_pinned : list rgb :=
  xterm_system ++ xterm_cube ++ [(0, 0, 0)]
  ++ map (fun i => let v := 8 + 10 * Z.of_nat i in (v, v, v)) (seq 1 21).

Theorem colors_256_pinned_refuted :
  List.length colors_256_pinned = 254%nat /\
  nth_error colors_256_pinned 232 = Some (0, 0, 0) /\ nth_error xterm_256 232 = Some (8, 8, 8) /\
  color256_in colors_256_pinned 238 238 238 = 231 /\ color256_in xterm_256 238 238 238 = 255 /\
  nth_error xterm_256 255 = Some (238, 238, 238) /\
  color256_in colors_256_pinned 8 8 8 = 16 /\ color256_in xterm_256 8 8 8 = 232.
Proof. vm_compute. repeat split; reflexivity. Qed.
