(* C04 round 7 - facts about the processor with registry-mutating handlers. *)
From Coq Require Import ZArith List Bool Lia.
From PTK Require Import Lib.Sx Model.C04_KeyProc Model.C04_Registry Model.C04_KeyProcMut Proofs.C04_KeyProcFacts.
Import ListNotations.
Open Scope Z_scope.

Definition lift (bs : list binding) (r : lres) : mres :=
  match r with
  | LDone b e q d evs => MDone bs b e q d evs
  | LRaised e d evs => MRaised bs e d evs
  | LFuel => MFuel
  end.

Lemma lift_lapp bs pre r : lift bs (lapp pre r) = mapp pre (lift bs r).
Proof. destruct r; reflexivity. Qed.

Lemma call_nomut bs m e q d : call [] bs m e q d = (bs, run_actions (bacts (snd m)) e q d).
Proof. reflexivity. Qed.

(* With no registry-mutating handler the threaded processor IS the processor of
   Model/C04_KeyProc.v (same events, buffer, queue, conditions; registry unchanged): every
   theorem about [loop] / [send] holds for it. *)
Theorem loop_m_nomut : forall fuel bs b flush e q d,
  loop_m fuel [] bs b flush e q d = lift bs (loop fuel (index_from 0 bs) b flush e q d).
Proof.
  induction fuel as [|f IH]; intros bs b flush e q d; [reflexivity|].
  cbn [loop_m loop]. destruct b as [|k b']; [reflexivity|].
  set (b := k :: b'). cbv zeta.
  destruct (match filter (eager e) (get_matches (index_from 0 bs) e b) with
            | [] => if flush then false else is_prefix (index_from 0 bs) e b
            | _ :: _ => false end); [reflexivity|].
  destruct (last_opt _) as [m|].
  - rewrite call_nomut. destruct (hraised _); reflexivity.
  - destruct (scan _ e b (length b)) as [[i m]|].
    + rewrite call_nomut. destruct (hraised _); [reflexivity|].
      rewrite lift_lapp. f_equal. destruct (hdone _); [reflexivity|apply IH].
    + unfold lcons. rewrite lift_lapp. f_equal. destruct d; [reflexivity|apply IH].
Qed.

Theorem send_m_nomut bs b e q d it :
  send_m [] bs b e q d it = lift bs (send (index_from 0 bs) b e q d it).
Proof. apply loop_m_nomut. Qed.

(* The pass uses the registry that is current at each lookup: when the retry scan dispatches a
   prefix and the handler returns normally (application not finished), the keys left in the
   buffer are re-examined against the registry AS THE HANDLER LEFT IT ([fst (call ..)]), not
   against the one the pass started with. *)
Theorem loop_m_retry_sees_mutation fuel t (bs : list binding) (b : list Z) (flush : bool) (e : env) q d (i : nat) (m : ib) :
  b <> [] ->
  (match filter (eager e) (get_matches (index_from 0 bs) e b) with
   | [] => if flush then false else is_prefix (index_from 0 bs) e b
   | _ :: _ => false end) = false ->
  last_opt (match filter (eager e) (get_matches (index_from 0 bs) e b) with
            | [] => get_matches (index_from 0 bs) e b
            | _ :: _ => filter (eager e) (get_matches (index_from 0 bs) e b) end) = None ->
  scan (index_from 0 bs) e b (length b) = Some (i, m) ->
  hraised (snd (call t bs m e q d)) = false ->
  hdone (snd (call t bs m e q d)) = false ->
  loop_m (S fuel) t bs b flush e q d =
  mapp (EInvoke (fst m) (firstn i b) :: hevs (snd (call t bs m e q d)))
       (loop_m fuel t (fst (call t bs m e q d)) (skipn i b) false
               (he (snd (call t bs m e q d))) (hq (snd (call t bs m e q d))) false).
Proof.
  intros NE P L S HR HD. cbn [loop_m]. destruct b as [|k b']; [congruence|].
  cbv zeta. rewrite P.
  rewrite L, S. destruct (call t bs m e q d) as [bs' r]. cbn [fst snd] in *. rewrite HR, HD. reflexivity.
Qed.

(* a mutation is visible at once: after MAdd of a live binding the registry ends with it *)
Lemma apply_add b bs : cls (bfilter b) <> CNever -> apply_muts [MAdd b] bs = (bs ++ [b], true).
Proof. intros H. cbn. destruct (cls (bfilter b)); try reflexivity. congruence. Qed.

(* a failing remove raises and leaves the registry as the earlier mutations made it *)
Lemma apply_remove_missing h bs : snd (rm_loop (fun b => bhandler b =? h) bs) = false ->
  apply_muts [MRemove h] bs = (bs, false).
Proof. intros H. cbn. destruct (rm_loop _ bs) as [l fd]. cbn in H. subst fd. reflexivity. Qed.

(* ------------------------------------------------------------ conservation, with mutating handlers *)
Definition mconserved (b : list Z) (r : mres) : Prop :=
  match r with
  | MDone _ b' _ _ _ evs => b = evs_keys evs ++ b'
  | MRaised _ _ _ evs => b = evs_keys evs
  | MFuel => True
  end.

Lemma mconserved_mapp pre b r : mconserved b r -> mconserved (evs_keys pre ++ b) (mapp pre r).
Proof.
  destruct r as [bs b' e q d evs|bs e d evs|]; cbn; intros H; try exact I; rewrite H, evs_keys_app.
  - rewrite app_assoc. reflexivity.
  - reflexivity.
Qed.

Lemma call_quiet t bs m e q d : quiet (hevs (snd (call t bs m e q d))).
Proof.
  unfold call. destruct (apply_muts _ bs) as [bs' ok]. destruct ok; cbn [snd hevs]; [apply run_actions_quiet|reflexivity].
Qed.

(* whatever the handlers do to the registry, one pass accounts for every pending key exactly
   once, in order: delivered / dropped / discarded by the reset / handed back / still pending *)
Lemma loop_m_conserved fuel t : forall bs b flush e q d, mconserved b (loop_m fuel t bs b flush e q d).
Proof.
  induction fuel as [|fuel IH]; intros bs b flush e q d; cbn [loop_m]; [exact I|].
  destruct b as [|k b0]; [reflexivity|].
  set (b := k :: b0). cbv zeta.
  destruct (match filter (eager e) (get_matches (index_from 0 bs) e b) with [] => _ | _ :: _ => false end); [reflexivity|].
  destruct (last_opt _) as [m|].
  - pose proof (call_quiet t bs m e q d) as Q. destruct (call t bs m e q d) as [bs' r]. cbn [snd] in Q.
    destruct (hraised r).
    + cbn [mconserved]. change (EInvoke (fst m) b :: ?x ++ ?y) with ((EInvoke (fst m) b :: x) ++ y).
      rewrite evs_keys_app, (invoke_keys _ _ _ Q). cbn. rewrite app_nil_r. reflexivity.
    + cbn [mconserved]. rewrite (invoke_keys _ _ _ Q), app_nil_r. reflexivity.
  - destruct (scan (index_from 0 bs) e b (length b)) as [[i m]|] eqn:ES.
    + pose proof (call_quiet t bs m e q d) as Q. destruct (call t bs m e q d) as [bs' r]. cbn [snd] in Q.
      destruct (hraised r).
      * cbn [mconserved]. change (EInvoke (fst m) ?z :: ?x ++ ?y) with ((EInvoke (fst m) z :: x) ++ y).
        rewrite evs_keys_app, (invoke_keys _ _ _ Q). cbn. rewrite app_nil_r. symmetry. apply firstn_skipn.
      * pose proof (mconserved_mapp (EInvoke (fst m) (firstn i b) :: hevs r) (skipn i b)) as X.
        rewrite (invoke_keys _ _ _ Q), firstn_skipn in X. apply X.
        destruct (hdone r); [cbn; rewrite !app_nil_r; reflexivity|apply IH].
    + change b with (evs_keys [EDrop k] ++ b0). apply mconserved_mapp.
      destruct d; [cbn; rewrite !app_nil_r; reflexivity|apply IH].
Qed.

Lemma loop_m_fuel fuel t : forall bs b flush e q d, (length b < fuel)%nat -> loop_m fuel t bs b flush e q d <> MFuel.
Proof.
  induction fuel as [|fuel IH]; intros bs b flush e q d HL; [lia|]. cbn [loop_m].
  destruct b as [|k b0]; [discriminate|].
  set (b := k :: b0) in *. cbv zeta.
  destruct (match filter (eager e) (get_matches (index_from 0 bs) e b) with [] => _ | _ :: _ => false end); [discriminate|].
  destruct (last_opt _) as [m|].
  - destruct (call t bs m e q d) as [bs' r]. destruct (hraised r); discriminate.
  - destruct (scan (index_from 0 bs) e b (length b)) as [[i m]|] eqn:ES.
    + destruct (call t bs m e q d) as [bs' r]. destruct (hraised r); [discriminate|]. apply scan_range in ES.
      destruct (hdone r); [discriminate|].
      assert (HH : (length (skipn i b) < fuel)%nat) by (rewrite skipn_length; lia).
      specialize (IH bs' (skipn i b) false (he r) (hq r) false HH).
      destruct (loop_m fuel t bs' (skipn i b) false _ _ false); cbn; congruence.
    + destruct d; [discriminate|].
      assert (HH : (length b0 < fuel)%nat) by (cbn in HL; lia).
      specialize (IH bs b0 false e q false HH). cbn [tl b]. destruct (loop_m fuel t bs b0 false e q false); cbn; congruence.
Qed.

Lemma send_m_fuel t bs b e q d it : send_m t bs b e q d it <> MFuel.
Proof. unfold send_m. apply loop_m_fuel. lia. Qed.

Lemma send_m_conserved t bs b e q d it : mconserved (b ++ item_keys it) (send_m t bs b e q d it).
Proof.
  unfold send_m. replace (b ++ item_keys it) with (push b it); [apply loop_m_conserved|].
  destruct it; cbn; [reflexivity|rewrite app_nil_r; reflexivity].
Qed.

(* over a whole process_keys run with registry-mutating handlers (any table, any fuel):
   pending-before ++ popped keys = keys accounted for by the events ++ pending-after *)
Theorem process_keys_m_conserved fuel t : forall bs s,
  let '(bs', s', evs, pop, stt) := process_keys_m fuel t bs s in
  buf s ++ items_keys pop = evs_keys evs ++ buf s'.
Proof.
  induction fuel as [|fuel IH]; intros bs s; cbn [process_keys_m].
  - destruct (sdone s); [cbn; rewrite app_nil_r; reflexivity|].
    destruct (queue s); cbn; rewrite app_nil_r; reflexivity.
  - destruct (sdone s); [cbn; rewrite app_nil_r; reflexivity|].
    destruct (queue s) as [|it q]; [cbn; rewrite app_nil_r; reflexivity|].
    pose proof (send_m_conserved t bs (buf s) (cenv s) q false it) as HC.
    destruct (send_m t bs (buf s) (cenv s) q false it) as [bs1 b e q' d evs|bs1 e d evs|].
    + specialize (IH bs1 (mkst b q' e d (upd_prev (sprev s) evs))).
      destruct (process_keys_m fuel t bs1 _) as [[[[bs2 s'] evs'] pop] stt].
      cbn in HC, IH. change (items_keys (it :: pop)) with (item_keys it ++ items_keys pop).
      change (evs_keys (EPop it :: evs ++ evs')) with (evs_keys (evs ++ evs')).
      rewrite evs_keys_app, app_assoc, HC, <- !app_assoc. f_equal. exact IH.
    + cbn in HC. change (items_keys [it]) with (item_keys it ++ []).
      change (evs_keys (EPop it :: evs)) with (evs_keys evs).
      rewrite !app_nil_r, HC. reflexivity.
    + cbn. rewrite app_nil_r. reflexivity.
Qed.

(* an exception (a raising handler, a failing remove) leaves the processor in the fresh state *)
Theorem process_keys_m_raised fuel t : forall bs s bs' s' evs pop,
  process_keys_m fuel t bs s = (bs', s', evs, pop, SRaised) -> s' = mkst [] [] (cenv s') (sdone s') None.
Proof.
  induction fuel as [|fuel IH]; intros bs s bs' s' evs pop; cbn [process_keys_m].
  - destruct (sdone s); [intros [= ]|]. destruct (queue s); intros [= ].
  - destruct (sdone s); [intros [= ]|]. destruct (queue s) as [|it q]; [intros [= ]|].
    destruct (send_m t bs (buf s) (cenv s) q false it) as [bs1 b e q' d evs0|bs1 e d evs0|].
    + destruct (process_keys_m fuel t bs1 _) as [[[[bs2 s2] evs2] pop2] stt] eqn:E.
      intros [= <- <- <- <- ->]. exact (IH _ _ _ _ _ _ E).
    + intros [= <- <- <- <-]. reflexivity.
    + intros [= ].
Qed.
