(* C06 - the Sync invariant between Renderer state and terminal is preserved by
   render (done or not) and erase, for every style/depth configuration; hence
   incremental rendering equals drawing the last screen from scratch. *)
From Coq Require Import ZArith List Bool Lia.
From PTK Require Import Lib.Sx Lib.Py Model.C06_Terminal Model.C06_Renderer
  Proofs.C06_TermFacts Proofs.C06_RowFacts Proofs.C06_DiffFacts.
Import ListNotations.
Open Scope Z_scope.

Section Sync.
Variable W H : Z.
Variable fs : bool.
Variable tbs : Z -> tabs.
Variable pvis : Z -> Z.
Variable wof : list Z -> Z.
Hypothesis HW : 1 <= W.
Hypothesis HH : 0 <= H.
Hypothesis Hpv : forall c a, ahs (tbs c) a = false -> pvis (apen (tbs c) a) = pvis 0.
Hypothesis Hw32 : wof [32] = 1.

Definition Sync (r : rst) (t : term) : Prop :=
  cx t = fst (rpos r) /\ cy t = snd (rpos r) /\ 0 <= fst (rpos r) <= W - 1 /\ 0 <= snd (rpos r) < Z.max H 1 /\
  pend t = false /\ undef t = false /\ cvrel (rcv r) t /\
  (fs = true -> ralt r = false -> rpos r = (0, 0)) /\
  match rlast r with
  | None => True
  | Some s => exists cfg, rcfg r = Some cfg /\ rsize r = Some (W, H) /\ wf_screen W wof H s /\
                          Shows W (tbs cfg) pvis H t s /\ pen t = 0 /\ aw t = negb fs
  end.

Definition okop (o : op) : Prop :=
  match o with
  | ORender _ _ W' H' scr => W' = W /\ H' = H /\ wf_screen W wof H scr
  | OErase => True
  | OReset => False
  end.

(* tokens that neither move the cursor nor draw *)
Definition inert (t t' : term) : Prop :=
  tgrid t' = tgrid t /\ cx t' = cx t /\ cy t' = cy t /\ pen t' = pen t /\ aw t' = aw t /\
  pend t' = pend t /\ undef t' = undef t.

Lemma reset_run : forall r t r2 ks,
  r_reset r = (r2, ks) -> cvrel (rcv r) t ->
  inert t (trun W t ks) /\ cvis (trun W t ks) = true /\ rcv r2 = Some true /\
  rpos r2 = (0, 0) /\ rlast r2 = None /\ ralt r2 = false.
Proof.
  intros r t r2 ks R CV. unfold r_reset in R.
  destruct (show_cursor (rcv r)) as [cv k3] eqn:SC. inversion R; subst r2 ks; clear R.
  cbn [rcv rpos rlast ralt].
  assert (A : forall tt, trun W tt ((if ralt r then [TRaw 5] else []) ++ (if rbp r then [TRaw 2] else [])) = tt).
  { intros tt. destruct (ralt r), (rbp r); reflexivity. }
  rewrite app_assoc, trun_app, A.
  unfold show_cursor in SC. unfold cvrel in CV.
  destruct (rcv r) as [[|]|]; inversion SC; subst cv k3; cbn [trun fold_left tstep];
    unfold inert; cbn [tgrid cx cy pen aw pend undef cvis]; auto 12.
Qed.

Lemma zsize_eqb_true : forall a, size_eqb a W H = true -> a = Some (W, H).
Proof.
  intros [[w h]|] E; cbn in E; [|discriminate]. apply andb_true_iff in E. destruct E as [E1 E2].
  apply Z.eqb_eq in E1. apply Z.eqb_eq in E2. subst. reflexivity.
Qed.

Lemma cfg_eqb_true : forall a c, cfg_eqb a c = true -> a = Some c.
Proof. intros [x|] c E; cbn in E; [|discriminate]. apply Z.eqb_eq in E. subst. reflexivity. Qed.

(* the render prologue in Renderer.render: alternate screen (with cursor
   home), bracketed paste, cursor key mode *)
Lemma prologue_run : forall r t,
  Sync r t ->
  let ks := (if fs && negb (ralt r) then [TRaw 4; THome] else []) ++
            (if rbp r then [] else [TRaw 1]) ++ (if rckm r then [] else [TRaw 3]) in
  inert t (trun W t ks) /\ cvis (trun W t ks) = cvis t.
Proof.
  intros r t (Cx & Cy & Cxr & Cyr & Cp & U & CV & ALT & _). cbv zeta.
  rewrite !trun_app.
  assert (B : forall tt, trun W (trun W tt (if rbp r then [] else [TRaw 1])) (if rckm r then [] else [TRaw 3]) = tt).
  { intros tt. destruct (rbp r), (rckm r); reflexivity. }
  rewrite B.
  destruct (fs && negb (ralt r)) eqn:E.
  - apply andb_true_iff in E. destruct E as [E1 E2]. apply negb_true_iff in E2.
    rewrite (ALT E1 E2) in *. cbn [fst snd] in *.
    cbn [trun fold_left tstep]. unfold inert; cbn [tgrid cx cy pen aw pend undef cvis].
    split; [|reflexivity].
    repeat (split; [first [reflexivity|congruence]|]). reflexivity.
  - cbn [trun fold_left]. unfold inert. auto 10.
Qed.

Definition prologue (r : rst) : list tok :=
  (if fs && negb (ralt r) then [TRaw 4; THome] else []) ++
  (if rbp r then [] else [TRaw 1]) ++ (if rckm r then [] else [TRaw 3]).

Definition prevh (r : rst) : Z := match rlast r with Some p => sh p | None => 0 end.

Definition last2_of (r : rst) (cfg : Z) : option screen :=
  if cfg_eqb (rcfg r) cfg then (if size_eqb (rsize r) W H then rlast r else None) else None.

Lemma render_diff_part : forall r t cfg done scr pos cv td,
  Sync r t -> wf_screen W wof H scr ->
  screen_diff (tbs cfg) W H fs done scr (last2_of r cfg) (rpos r) None
              (match rsize r with Some (w, _) => w | None => 0 end) (rcv r) = (pos, cv, td) ->
  undef (trun W (trun W t (prologue r)) td) = false /\
  Rendered W (tbs cfg) pvis H fs done scr (trun W (trun W t (prologue r)) td) pos cv /\
  (forall p, last2_of r cfg = Some p -> done = false -> rsize r = Some (W, H) ->
     forall y x, Z.max (sh scr) (sh p) <= y ->
     tgrid (trun W (trun W t (prologue r)) td) y x = tgrid t y x) /\
  (1 <= H ->
   okrun (if done then Z.max (H - 1) (Z.min (sh scr) H) else H - 1)
         (Z.min (Z.max (sh scr) (prevh r)) H - 1) W t (prologue r ++ td)) /\
  (forall y x, y < 0 -> tgrid (trun W (trun W t (prologue r)) td) y x = tgrid t y x).
Proof.
  intros r t cfg done scr pos cv td S Ws D.
  pose proof (prologue_run r t S) as P. cbv zeta in P. fold (prologue r) in P.
  destruct P as ((G & X & Y & N & A & P & U) & V).
  destruct S as (Cx & Cy & Cxr & Cyr & Cp & Uf & CV & ALT & L).
  set (tp := trun W t (prologue r)) in *.
  assert (HP : match last2_of r cfg with
               | None => True
               | Some p => wf_screen W wof H p /\ Shows W (tbs cfg) pvis H tp p /\ pen tp = 0 /\ (fs = true -> aw tp = false)
               end).
  { unfold last2_of. destruct (cfg_eqb (rcfg r) cfg) eqn:E1; [|exact I].
    destruct (size_eqb (rsize r) W H) eqn:E2; [|exact I].
    destruct (rlast r) as [p|]; [|exact I].
    destruct L as (cfg0 & C0 & _ & Wp & Sp & Np & Ap).
    apply cfg_eqb_true in E1. assert (cfg0 = cfg) by congruence. subst cfg0.
    split; [exact Wp|]. split.
    - intros y x Hy Hx. rewrite G. apply Sp; auto.
    - split; [congruence|]. intros F. rewrite A, Ap, F. reflexivity. }
  destruct (screen_diff_ok W (tbs cfg) pvis wof HW (Hpv cfg) Hw32 H fs done scr (last2_of r cfg) (rpos r) _ (rcv r)
              tp pos cv td HH Ws ltac:(congruence) ltac:(congruence) Cxr (proj1 Cyr) ltac:(congruence)
              ltac:(unfold cvrel in *; destruct (rcv r); congruence) HP D) as (U2 & R & FR & AB & OKD).
  split; [congruence|]. split; [exact R|]. split.
  { intros p EP ED ES y x Hy. rewrite (FR p EP ED ltac:(rewrite ES; reflexivity) y x Hy). rewrite G. reflexivity. }
  split; [|intros y x Hy; rewrite AB by exact Hy; rewrite G; reflexivity].
  intros H1. pose proof Ws as (_ & Hs0 & _ & _ & Cys).
  assert (PH : 0 <= match last2_of r cfg with Some p => sh p | None => 0 end <= prevh r).
  { unfold last2_of, prevh. destruct (cfg_eqb (rcfg r) cfg); [|destruct (rlast r) as [p|]; [|lia]].
    - destruct (size_eqb (rsize r) W H); destruct (rlast r) as [p|]; try lia;
        destruct L as (c0 & _ & _ & (_ & Hp0 & _) & _); lia.
    - destruct L as (c0 & _ & _ & (_ & Hp0 & _) & _); lia. }
  apply okrun_app. split.
  - apply okrun_nondesc; [|destruct done; lia|destruct done; lia].
    unfold prologue. apply Forall_app. split; [destruct (fs && negb (ralt r)); repeat constructor|].
    apply Forall_app. split; [destruct (rbp r); repeat constructor|destruct (rckm r); repeat constructor].
  - fold tp. eapply okrun_mono; [apply Z.le_refl| |apply OKD]; destruct done; lia.
Qed.

Lemma r_render_unfold : forall r cfg done scr,
  r_render tbs fs r cfg done W H scr =
  let '(pos, cv, td) := screen_diff (tbs cfg) W H fs done scr (last2_of r cfg) (rpos r) None
                          (match rsize r with Some (w, _) => w | None => 0 end) (rcv r) in
  let r1 := mkr pos (Some scr) (Some (W, H)) (Some cfg) cv (ralt r || fs) true true in
  if done then let '(r2, te) := r_reset r1 in (r2, prologue r ++ td ++ te)
  else (r1, prologue r ++ td).
Proof.
  intros. unfold r_render, last2_of, prologue.
  destruct (screen_diff _ _ _ _ _ _ _ _ _ _ _) as [[pos cv] td].
  destruct done; [destruct (r_reset _) as [r2 te]|]; rewrite <- !app_assoc; reflexivity.
Qed.

(* what the terminal looks like after a normal render of [scr] under [cfg] *)
Definition Final (cfg : Z) (scr : screen) (t : term) : Prop :=
  pen t = 0 /\ pend t = false /\ undef t = false /\ aw t = negb fs /\ cvis t = sshow scr /\
  cx t = scx scr /\ cy t = scy scr /\ Shows W (tbs cfg) pvis H t scr.

Lemma render_notdone : forall r t cfg scr r' ks,
  Sync r t -> wf_screen W wof H scr ->
  r_render tbs fs r cfg false W H scr = (r', ks) ->
  Sync r' (trun W t ks) /\ Final cfg scr (trun W t ks).
Proof.
  intros r t cfg scr r' ks S Ws R. rewrite r_render_unfold in R.
  destruct (screen_diff _ _ _ _ _ _ _ _ _ _ _) as [[pos cv] td] eqn:D.
  inversion R; subst r' ks; clear R. rewrite trun_app.
  destruct (render_diff_part r t cfg false scr pos cv td S Ws D) as (U & (N & P & A & V & CVE & X & Y & ND & _) & _ & _ & _).
  destruct (ND eq_refl) as (EP & SH). subst pos. cbn [fst snd orb] in *.
  pose proof Ws as (_ & _ & _ & Cxs & Cys).
  split.
  - unfold Sync; cbn [rpos rcv ralt rlast rcfg rsize fst snd].
    split; [exact X|]. split; [exact Y|]. split; [exact Cxs|]. split; [exact Cys|].
    split; [exact P|]. split; [exact U|]. split; [subst cv; exact V|]. split.
    + intros F1 F2. rewrite F1, orb_true_r in F2. discriminate.
    + exists cfg. auto 10.
  - unfold Final. auto 10.
Qed.

(* an incremental render (same size, same configuration, previous screen p
   known) leaves every cell below the owned rows untouched *)
Lemma render_frame : forall r t cfg scr p r' ks,
  Sync r t -> wf_screen W wof H scr -> rlast r = Some p -> rcfg r = Some cfg ->
  r_render tbs fs r cfg false W H scr = (r', ks) ->
  forall y x, Z.max (sh scr) (sh p) <= y -> tgrid (trun W t ks) y x = tgrid t y x.
Proof.
  intros r t cfg scr p r' ks S Ws EL EC R y x Hy. rewrite r_render_unfold in R.
  destruct (screen_diff _ _ _ _ _ _ _ _ _ _ _) as [[pos cv] td] eqn:D.
  inversion R; subst r' ks; clear R. rewrite trun_app.
  destruct (render_diff_part r t cfg false scr pos cv td S Ws D) as (_ & _ & FR & _ & _).
  assert (ES : rsize r = Some (W, H)).
  { destruct S as (_ & _ & _ & _ & _ & _ & _ & _ & L). rewrite EL in L. destruct L as (c0 & _ & E & _). exact E. }
  apply (FR p); auto.
  unfold last2_of. rewrite EC, ES. cbn [cfg_eqb size_eqb]. rewrite !Z.eqb_refl. cbn [andb]. exact EL.
Qed.

(* the state right after the done render's tokens, in the old coordinates *)
Definition DoneState (cfg : Z) (scr : screen) (t : term) : Prop :=
  let cur_h := Z.min (sh scr) H in
  cx t = 0 /\ cy t = cur_h /\ pen t = 0 /\ aw t = true /\ cvis t = true /\ pend t = false /\ undef t = false /\
  (forall y x, 0 <= y < cur_h -> 0 <= x < W -> showsx (tbs cfg) pvis (tgrid t y x) (scell scr y) x) /\
  (forall y x, cur_h <= y -> 0 <= x -> tgrid t y x = blank 0).

Lemma render_done : forall r t cfg scr r' ks,
  Sync r t -> wf_screen W wof H scr ->
  r_render tbs fs r cfg true W H scr = (r', ks) ->
  DoneState cfg scr (trun W t ks) /\ Sync r' (tshift (trun W t ks) (cy (trun W t ks))).
Proof.
  intros r t cfg scr r' ks S Ws R. rewrite r_render_unfold in R.
  destruct (screen_diff _ _ _ _ _ _ _ _ _ _ _) as [[pos cv] td] eqn:D.
  cbv zeta in R.
  match type of R with context [r_reset ?x] => destruct (r_reset x) as [r2 te] eqn:RS end.
  inversion R; subst r' ks; clear R. rewrite !trun_app.
  destruct (render_diff_part r t cfg true scr pos cv td S Ws D) as (U & (N & P & A & V & CVE & X & Y & _ & DN) & _ & _ & _).
  destruct (DN eq_refl) as (EP & SH & BL). subst pos. cbn [fst snd orb] in *.
  set (td' := trun W (trun W t (prologue r)) td) in *.
  destruct (reset_run _ td' r2 te RS ltac:(cbn [rcv]; subst cv; exact V))
    as ((G & X2 & Y2 & N2 & A2 & P2 & U2) & V2 & CV2 & PS2 & L2 & AL2).
  set (tf := trun W td' te) in *.
  pose proof Ws as (_ & Hs & _).
  split.
  - unfold DoneState. cbv zeta.
    split; [congruence|]. split; [congruence|]. split; [congruence|]. split; [congruence|].
    split; [exact V2|]. split; [congruence|]. split; [congruence|]. split.
    + intros y x Hy Hx. rewrite G. apply SH; auto.
    + intros y x Hy Hx. rewrite G. apply BL; auto.
  - unfold Sync. rewrite PS2, L2, CV2. cbn [tshift cx cy pend undef cvis fst snd].
    split; [congruence|]. split; [lia|]. split; [lia|]. split; [lia|].
    split; [congruence|]. split; [congruence|]. split; [exact V2|]. split; [auto|exact I].
Qed.

Lemma erase_sync : forall r t r' ks,
  Sync r t -> r_erase r = (r', ks) ->
  let t' := trun W t ks in
  Sync r' t' /\ pen t' = 0 /\ aw t' = true /\ cvis t' = true /\
  (forall y x, 0 <= y -> 0 <= x -> tgrid t' y x = blank (pen t)) /\
  (forall y x, y < 0 -> tgrid t' y x = tgrid t y x).
Proof.
  intros r t r' ks (Cx & Cy & Cxr & Cyr & Cp & U & CV & ALT & L) E.
  unfold r_erase in E. destruct (rpos r) as [x y] eqn:RP. cbn [fst snd] in *.
  destruct (r_reset r) as [r2 te] eqn:RS. inversion E; subst r' ks; clear E.
  cbv zeta. rewrite !trun_app.
  destruct (cub_run W x t ltac:(lia) Cp) as ((G1 & N1 & A1 & V1 & U1) & X1 & Y1 & P1).
  set (t1 := trun W t (cub x)) in *.
  destruct (cuu_run W y t1 ltac:(lia) P1) as ((G2 & N2 & A2 & V2 & U2) & X2 & Y2 & P2).
  set (t2 := trun W t1 (cuu y)) in *.
  change (TED :: TSGR 0 :: TAW true :: te) with ([TED; TSGR 0; TAW true] ++ te). rewrite trun_app.
  set (t3 := trun W t2 [TED; TSGR 0; TAW true]) in *.
  assert (T3 : tgrid t3 = erase_down t2 /\ cx t3 = 0 /\ cy t3 = 0 /\ pen t3 = 0 /\ aw t3 = true /\
               pend t3 = false /\ undef t3 = false /\ cvis t3 = cvis t).
  { subst t3. cbn [trun fold_left tstep tgrid cx cy pen aw pend undef cvis].
    split; [reflexivity|]. split; [lia|]. split; [lia|]. split; [reflexivity|]. split; [reflexivity|].
    split; [exact P2|]. split; congruence. }
  destruct T3 as (G3 & X3 & Y3 & N3 & A3 & P3 & U3 & V3).
  destruct (reset_run r t3 r2 te RS ltac:(unfold cvrel in *; destruct (rcv r); congruence))
    as ((G & X4 & Y4 & N4 & A4 & P4 & U4) & V4 & CV4 & PS4 & L4 & AL4).
  split; [|split; [congruence|split; [congruence|split; [exact V4|split]]]]; cycle 2.
  { intros y0 x0 Hy0. rewrite G, G3. rewrite erase_down_above by lia. rewrite G2, G1. reflexivity. }
  - unfold Sync. rewrite PS4, L4, CV4. cbn [fst snd].
    split; [congruence|]. split; [congruence|]. split; [lia|]. split; [lia|].
    split; [congruence|]. split; [congruence|]. split; [exact V4|]. split; [auto|exact I].
  - intros y0 x0 Hy0 Hx0. rewrite G, G3. unfold erase_down, erase_line.
    assert (CY2 : cy t2 = 0) by lia. assert (CX2 : cx t2 = 0) by lia. rewrite CY2, CX2.
    assert (PN : pen t2 = pen t) by congruence. rewrite PN.
    destruct (0 <? y0) eqn:B; [reflexivity|]. assert (y0 = 0) by lia. subst y0.
    rewrite Z.eqb_refl. destruct (0 <=? x0) eqn:B2; [reflexivity|lia].
Qed.

Lemma render_notdone_final : forall r t cfg scr r' ks,
  Sync r t -> wf_screen W wof H scr ->
  r_render tbs fs r cfg false W H scr = (r', ks) -> Final cfg scr (trun W t ks).
Proof. intros r t cfg scr r' ks S Ws R. exact (proj2 (render_notdone r t cfg scr r' ks S Ws R)). Qed.

Lemma render_done_state : forall r t cfg scr r' ks,
  Sync r t -> wf_screen W wof H scr ->
  r_render tbs fs r cfg true W H scr = (r', ks) -> DoneState cfg scr (trun W t ks).
Proof. intros r t cfg scr r' ks S Ws R. exact (proj1 (render_done r t cfg scr r' ks S Ws R)). Qed.

(* ---- rows visited and written; the bounded terminal ---- *)
Lemma reset_nondesc : forall r r2 ks, r_reset r = (r2, ks) -> Forall nondesc ks.
Proof.
  intros r r2 ks R. unfold r_reset in R. destruct (show_cursor (rcv r)) as [cv k3] eqn:SC.
  inversion R; subst. unfold show_cursor in SC.
  apply Forall_app. split; [destruct (ralt r); repeat constructor|].
  apply Forall_app. split; [destruct (rbp r); repeat constructor|].
  destruct (rcv r) as [[|]|]; inversion SC; subst; repeat constructor.
Qed.

(* a non-final render: the cursor never leaves rows 0..H-1, and text / erase-line
   only ever happen in the owned rows 0..max(previous height, new height)-1 *)
Lemma render_notdone_rows : forall r t cfg scr r' ks,
  Sync r t -> wf_screen W wof H scr -> 1 <= H ->
  r_render tbs fs r cfg false W H scr = (r', ks) ->
  okrun (H - 1) (Z.min (Z.max (sh scr) (prevh r)) H - 1) W t ks.
Proof.
  intros r t cfg scr r' ks S Ws H1 R. rewrite r_render_unfold in R.
  destruct (screen_diff _ _ _ _ _ _ _ _ _ _ _) as [[pos cv] td] eqn:D.
  inversion R; subst r' ks; clear R.
  destruct (render_diff_part r t cfg false scr pos cv td S Ws D) as (_ & _ & _ & OK & _). exact (OK H1).
Qed.

Lemma render_done_rows : forall r t cfg scr r' ks,
  Sync r t -> wf_screen W wof H scr -> 1 <= H ->
  r_render tbs fs r cfg true W H scr = (r', ks) ->
  okrun (Z.max (H - 1) (Z.min (sh scr) H)) (Z.min (Z.max (sh scr) (prevh r)) H - 1) W t ks.
Proof.
  intros r t cfg scr r' ks S Ws H1 R. rewrite r_render_unfold in R.
  destruct (screen_diff _ _ _ _ _ _ _ _ _ _ _) as [[pos cv] td] eqn:D.
  cbv zeta in R.
  match type of R with context [r_reset ?x] => destruct (r_reset x) as [r2 te] eqn:RS end.
  inversion R; subst r' ks; clear R.
  destruct (render_diff_part r t cfg true scr pos cv td S Ws D) as (_ & _ & _ & OK & _). specialize (OK H1).
  rewrite app_assoc. apply okrun_app. split; [exact OK|].
  apply okrun_nondesc; [eapply reset_nondesc; eauto| |lia].
  apply okrun_final with (b2 := Z.min (Z.max (sh scr) (prevh r)) H - 1); [|exact OK].
  destruct S as (_ & Cy & _ & Cyr & _). lia.
Qed.

(* nothing above the origin (the scrollback above an inline prompt) is ever changed *)
Lemma render_rows_above : forall r t cfg done scr r' ks,
  Sync r t -> wf_screen W wof H scr ->
  r_render tbs fs r cfg done W H scr = (r', ks) ->
  forall y x, y < 0 -> tgrid (trun W t ks) y x = tgrid t y x.
Proof.
  intros r t cfg done scr r' ks S Ws R y x Hy. rewrite r_render_unfold in R.
  destruct (screen_diff _ _ _ _ _ _ _ _ _ _ _) as [[pos cv] td] eqn:D.
  destruct (render_diff_part r t cfg done scr pos cv td S Ws D) as (_ & (_ & _ & _ & V & CVE & _) & _ & _ & AB).
  destruct done.
  - cbv zeta in R.
    match type of R with context [r_reset ?x] => destruct (r_reset x) as [r2 te] eqn:RS end.
    inversion R; subst r' ks; clear R. rewrite !trun_app.
    destruct (reset_run _ (trun W (trun W t (prologue r)) td) r2 te RS ltac:(cbn [rcv]; subst cv; exact V))
      as ((G & _) & _).
    rewrite G. apply AB. exact Hy.
  - inversion R; subst r' ks; clear R. rewrite trun_app. apply AB. exact Hy.
Qed.

(* the final render of an output that leaves at least one terminal row free
   does not scroll either (an output filling all H rows ends with one newline
   on the last row: that one scroll is the intended "line below the output") *)
Lemma render_done_bounded : forall r t cfg scr r' ks n,
  Sync r t -> wf_screen W wof H scr -> 1 <= H -> Z.min (sh scr) H <= H - 1 ->
  r_render tbs fs r cfg true W H scr = (r', ks) ->
  trunB H W (t, n) ks = (trun W t ks, n).
Proof.
  intros r t cfg scr r' ks n S Ws H1 HL R.
  eapply trunB_eq; [destruct S as (_ & Cy & _ & Cyr & _); lia|].
  eapply okrun_mono; [| |eapply render_done_rows; eauto]; [lia|apply Z.le_refl].
Qed.

Lemma erase_rows : forall r t r' ks b2,
  Sync r t -> 1 <= H -> r_erase r = (r', ks) -> okrun (H - 1) b2 W t ks.
Proof.
  intros r t r' ks b2 (Cx & Cy & Cxr & Cyr & _) H1 E.
  unfold r_erase in E. destruct (rpos r) as [x y] eqn:RP. cbn [fst snd] in *.
  destruct (r_reset r) as [r2 te] eqn:RS. inversion E; subst r' ks; clear E.
  apply okrun_nondesc; [|lia|lia].
  apply Forall_app. split; [apply nondesc_cub|].
  apply Forall_app. split; [apply nondesc_cuu; lia|].
  constructor; [exact I|]. constructor; [exact I|]. constructor; [exact I|]. eapply reset_nondesc; eauto.
Qed.

(* histories of non-final renders and erases on the bounded terminal *)
Definition okop_nd (o : op) : Prop :=
  okop o /\ match o with ORender _ d _ _ _ => d = false | _ => True end.

Fixpoint run_seqB (r : rst) (s : term * Z) (ops : list op) : rst * (term * Z) :=
  match ops with
  | [] => (r, s)
  | o :: rest => let '(r', ks) := r_step tbs fs r o in run_seqB r' (trunB H W s ks) rest
  end.

(* ---- sequences ---- *)
Fixpoint run_seq (r : rst) (t : term) (ops : list op) : rst * term :=
  match ops with
  | [] => (r, t)
  | o :: rest => let '(r', ks) := r_step tbs fs r o in run_seq r' (t_step W t o ks) rest
  end.

Lemma step_sync : forall r t o r' ks,
  Sync r t -> okop o -> r_step tbs fs r o = (r', ks) -> Sync r' (t_step W t o ks).
Proof.
  intros r t o r' ks S OK R. destruct o as [cfg done W' H' scr| |]; cbn [okop] in OK.
  - destruct OK as (-> & -> & Ws). cbn [r_step] in R. unfold t_step; cbn [op_shifts].
    destruct done.
    + apply (render_done r t cfg scr r' ks S Ws R).
    + apply (render_notdone r t cfg scr r' ks S Ws R).
  - cbn [r_step] in R. unfold t_step; cbn [op_shifts].
    apply (erase_sync r t r' ks S R).
  - contradiction.
Qed.

Lemma seq_sync : forall ops r t, Sync r t -> Forall okop ops ->
  Sync (fst (run_seq r t ops)) (snd (run_seq r t ops)).
Proof.
  induction ops as [|o ops IH]; intros r t S F; cbn [run_seq]; [exact S|].
  inversion F; subst. destruct (r_step tbs fs r o) as [r' ks] eqn:R.
  apply IH; [|assumption]. eapply step_sync; eauto.
Qed.

Lemma run_seq_app : forall a b r t,
  run_seq r t (a ++ b) = run_seq (fst (run_seq r t a)) (snd (run_seq r t a)) b.
Proof.
  induction a as [|o a IH]; intros b r t; cbn [run_seq app fst snd]; [reflexivity|].
  destruct (r_step tbs fs r o) as [r' ks]. apply IH.
Qed.

(* No scroll: on a terminal with exactly H rows below the origin, a history of
   non-final renders and erases never scrolls, and the bounded terminal ends in
   the very state of the unbounded one (so every theorem above applies to it). *)
Lemma seq_noscroll : forall ops r t n,
  Sync r t -> 1 <= H -> Forall okop_nd ops ->
  run_seqB r (t, n) ops = (fst (run_seq r t ops), (snd (run_seq r t ops), n)).
Proof.
  induction ops as [|o ops IH]; intros r t n S H1 F; cbn [run_seqB run_seq fst snd]; [reflexivity|].
  inversion F as [|? ? (OK & ND) F']; subst.
  destruct (r_step tbs fs r o) as [r' ks] eqn:R.
  assert (CY : cy t <= H - 1) by (destruct S as (_ & Cy & _ & Cyr & _); lia).
  assert (E : trunB H W (t, n) ks = (t_step W t o ks, n)).
  { destruct o as [cfg done W' H' scr| |]; cbn [okop] in OK.
    - destruct OK as (-> & -> & Ws). subst done. cbn [r_step] in R. unfold t_step; cbn [op_shifts].
      eapply trunB_eq; [exact CY|]. eapply render_notdone_rows; eauto.
    - cbn [r_step] in R. unfold t_step; cbn [op_shifts].
      eapply trunB_eq with (b2 := 0); [exact CY|]. eapply erase_rows; eauto.
    - contradiction. }
  rewrite E. apply IH; auto. eapply step_sync; eauto.
Qed.

(* visible equality of two terminals *)
Definition vcell_eq (a b : tcell) : Prop :=
  tk a = tk b /\ tg a = tg b /\
  (if str_eqb (tg a) [32] then pvis (tp a) = pvis (tp b) else tp a = tp b).

Definition visible_eq (t1 t2 : term) : Prop :=
  (forall y x, 0 <= y -> 0 <= x < W -> vcell_eq (tgrid t1 y x) (tgrid t2 y x)) /\
  cx t1 = cx t2 /\ cy t1 = cy t2 /\ cvis t1 = cvis t2 /\ pen t1 = pen t2 /\ aw t1 = aw t2 /\
  pend t1 = pend t2 /\ undef t1 = false /\ undef t2 = false.

Lemma final_visible_eq : forall cfg scr t1 t2, Final cfg scr t1 -> Final cfg scr t2 -> visible_eq t1 t2.
Proof.
  intros cfg scr t1 t2 (N1 & P1 & U1 & A1 & V1 & X1 & Y1 & S1) (N2 & P2 & U2 & A2 & V2 & X2 & Y2 & S2).
  unfold visible_eq. split; [|repeat (split; [congruence|]); exact U2].
  intros y x Hy Hx. pose proof (S1 y x Hy Hx) as A. pose proof (S2 y x Hy Hx) as B.
  unfold showsx in A, B. unfold vcell_eq.
  destruct (wd (vcell H scr y x) =? 0).
  - destruct A as (K1 & G1 & Q1). destruct B as (K2 & G2 & Q2).
    split; [congruence|]. split; [congruence|]. rewrite G1. cbn [str_eqb]. congruence.
  - destruct A as (K1 & G1 & Q1). destruct B as (K2 & G2 & Q2).
    split; [congruence|]. split; [congruence|].
    rewrite G1. destruct (str_eqb (ch (vcell H scr y x)) [32]); congruence.
Qed.

Theorem equiv_scratch : forall ops cfg scr r0 t0 r0' t0',
  Sync r0 t0 -> Sync r0' t0' -> rlast r0' = None ->
  Forall okop ops -> wf_screen W wof H scr ->
  visible_eq (snd (run_seq r0 t0 (ops ++ [ORender cfg false W H scr])))
             (snd (run_seq r0' t0' [ORender cfg false W H scr])).
Proof.
  intros ops cfg scr r0 t0 r0' t0' S0 S0' _ F Ws.
  rewrite run_seq_app.
  pose proof (seq_sync ops r0 t0 S0 F) as S1.
  destruct (run_seq r0 t0 ops) as [r1 t1]. cbn [fst snd] in *.
  cbn [run_seq r_step].
  destruct (r_render tbs fs r1 cfg false W H scr) as [ra ka] eqn:Ra.
  destruct (r_render tbs fs r0' cfg false W H scr) as [rb kb] eqn:Rb.
  cbn [snd]. unfold t_step; cbn [op_shifts].
  destruct (render_notdone r1 t1 cfg scr ra ka S1 Ws Ra) as (_ & Fa).
  destruct (render_notdone r0' t0' cfg scr rb kb S0' Ws Rb) as (_ & Fb).
  eapply final_visible_eq; eauto.
Qed.

(* ---- bare reset(): allowed where the renderer is fresh (right after a final
   render, an erase, another reset, or construction): there the cursor is at the
   origin and nothing is remembered, so reset only re-emits mode tokens ---- *)
Definition Fresh (r : rst) : Prop := rlast r = None /\ rpos r = (0, 0).

Lemma reset_fresh : forall r r2 ks, r_reset r = (r2, ks) -> Fresh r2.
Proof.
  intros r r2 ks R. unfold r_reset in R. destruct (show_cursor (rcv r)) as [cv k3].
  inversion R; subst. split; reflexivity.
Qed.

Lemma reset_sync : forall r t r' ks,
  Sync r t -> Fresh r -> r_reset r = (r', ks) -> Sync r' (t_step W t OReset ks) /\ Fresh r'.
Proof.
  intros r t r' ks (Cx & Cy & Cxr & Cyr & Cp & U & CV & ALT & L) (FL & FP) R.
  split; [|eapply reset_fresh; eauto].
  destruct (reset_run r t r' ks R CV) as ((G & X2 & Y2 & N2 & A2 & P2 & U2) & V2 & CV2 & PS2 & L2 & AL2).
  rewrite FP in *. cbn [fst snd] in *.
  unfold t_step; cbn [op_shifts]. unfold Sync. rewrite PS2, L2, CV2.
  cbn [tshift cx cy pend undef cvis fst snd].
  split; [congruence|]. split; [lia|]. split; [lia|]. split; [lia|].
  split; [congruence|]. split; [congruence|]. split; [exact V2|]. split; [auto|exact I].
Qed.

Lemma render_done_fresh : forall r cfg scr r' ks,
  r_render tbs fs r cfg true W H scr = (r', ks) -> Fresh r'.
Proof.
  intros r cfg scr r' ks R. rewrite r_render_unfold in R.
  destruct (screen_diff _ _ _ _ _ _ _ _ _ _ _) as [[pos cv] td]. cbv zeta in R.
  match type of R with context [r_reset ?x] => destruct (r_reset x) as [r2 te] eqn:RS end.
  inversion R; subst. eapply reset_fresh; eauto.
Qed.

Lemma erase_fresh : forall r r' ks, r_erase r = (r', ks) -> Fresh r'.
Proof.
  intros r r' ks E. unfold r_erase in E. destruct (rpos r) as [x y].
  destruct (r_reset r) as [r2 te] eqn:RS. inversion E; subst. eapply reset_fresh; eauto.
Qed.

(* histories with resets: a reset may only follow a final render, an erase or a reset *)
Fixpoint okseq (fresh : bool) (ops : list op) : Prop :=
  match ops with
  | [] => True
  | o :: rest =>
      match o with
      | ORender _ d _ _ _ => okop o /\ okseq d rest
      | OErase => okseq true rest
      | OReset => fresh = true /\ okseq true rest
      end
  end.

Lemma seq_sync_reset : forall ops fresh r t,
  Sync r t -> (fresh = true -> Fresh r) -> okseq fresh ops ->
  Sync (fst (run_seq r t ops)) (snd (run_seq r t ops)).
Proof.
  induction ops as [|o ops IH]; intros fresh r t S F O; cbn [run_seq]; [exact S|].
  destruct (r_step tbs fs r o) as [r' ks] eqn:R. cbn [okseq] in O.
  destruct o as [cfg done W' H' scr| |].
  - destruct O as (OK & O'). apply (IH done); [eapply step_sync; eauto| |exact O'].
    intros ->. cbn [okop] in OK. destruct OK as (-> & -> & _). cbn [r_step] in R. eapply render_done_fresh; eauto.
  - apply (IH true); [eapply step_sync; eauto; exact I| |exact O].
    intros _. cbn [r_step] in R. eapply erase_fresh; eauto.
  - destruct O as (-> & O'). cbn [r_step] in R.
    destruct (reset_sync r t r' ks S (F eq_refl) R) as (S' & F').
    apply (IH true); auto.
Qed.

Theorem equiv_scratch_reset : forall ops fresh cfg scr r0 t0 r0' t0',
  Sync r0 t0 -> (fresh = true -> Fresh r0) -> Sync r0' t0' -> rlast r0' = None ->
  okseq fresh ops -> wf_screen W wof H scr ->
  visible_eq (snd (run_seq r0 t0 (ops ++ [ORender cfg false W H scr])))
             (snd (run_seq r0' t0' [ORender cfg false W H scr])).
Proof.
  intros ops fresh cfg scr r0 t0 r0' t0' S0 F0 S0' _ O Ws.
  rewrite run_seq_app.
  pose proof (seq_sync_reset ops fresh r0 t0 S0 F0 O) as S1.
  destruct (run_seq r0 t0 ops) as [r1 t1]. cbn [fst snd] in *.
  cbn [run_seq r_step].
  destruct (r_render tbs fs r1 cfg false W H scr) as [ra ka] eqn:Ra.
  destruct (r_render tbs fs r0' cfg false W H scr) as [rb kb] eqn:Rb.
  cbn [snd]. unfold t_step; cbn [op_shifts].
  destruct (render_notdone r1 t1 cfg scr ra ka S1 Ws Ra) as (_ & Fa).
  destruct (render_notdone r0' t0' cfg scr rb kb S0' Ws Rb) as (_ & Fb).
  eapply final_visible_eq; eauto.
Qed.

(* ---- bare reset() away from a fresh state: reset() forgets the last screen
   and DECLARES the cursor position to be the new origin without moving the
   cursor.  It keeps renderer and terminal in sync exactly when the cursor is in
   column 0 (any row: the rows above become scrollback the renderer no longer
   owns).  With the cursor in another column the next render draws from that
   column on - the caller's business (run_in_terminal prints a newline first). ---- *)
Lemma reset_sync_col0 : forall r t r' ks,
  Sync r t -> fst (rpos r) = 0 -> r_reset r = (r', ks) -> Sync r' (t_step W t OReset ks) /\ Fresh r'.
Proof.
  intros r t r' ks (Cx & Cy & Cxr & Cyr & Cp & U & CV & ALT & L) FP R.
  split; [|eapply reset_fresh; eauto].
  destruct (reset_run r t r' ks R CV) as ((G & X2 & Y2 & N2 & A2 & P2 & U2) & V2 & CV2 & PS2 & L2 & AL2).
  unfold t_step; cbn [op_shifts]. unfold Sync. rewrite PS2, L2, CV2.
  cbn [tshift cx cy pend undef cvis fst snd].
  split; [congruence|]. split; [lia|]. split; [lia|]. split; [lia|].
  split; [congruence|]. split; [congruence|]. split; [exact V2|]. split; [auto|exact I].
Qed.

(* histories where reset() may follow anything that left the cursor in column 0:
   a final render, an erase, a reset, or a render whose cursor column is 0 *)
Fixpoint okseq0 (col0 : bool) (ops : list op) : Prop :=
  match ops with
  | [] => True
  | o :: rest =>
      match o with
      | ORender _ d _ _ scr => okop o /\ okseq0 (d || (scx scr =? 0)) rest
      | OErase => okseq0 true rest
      | OReset => col0 = true /\ okseq0 true rest
      end
  end.

Lemma seq_sync_reset0 : forall ops col0 r t,
  Sync r t -> (col0 = true -> fst (rpos r) = 0) -> okseq0 col0 ops ->
  Sync (fst (run_seq r t ops)) (snd (run_seq r t ops)).
Proof.
  induction ops as [|o ops IH]; intros col0 r t S F O; cbn [run_seq]; [exact S|].
  destruct (r_step tbs fs r o) as [r' ks] eqn:R. cbn [okseq0] in O.
  destruct o as [cfg done W' H' scr| |].
  - destruct O as (OK & O'). pose proof (step_sync r t _ r' ks S OK R) as S'.
    apply (IH (done || (scx scr =? 0))); [exact S'| |exact O'].
    intros E. cbn [okop] in OK. destruct OK as (-> & -> & Ws). cbn [r_step] in R.
    destruct done.
    + destruct (render_done_fresh r cfg scr r' ks R) as (_ & P). rewrite P. reflexivity.
    + cbn [orb] in E. apply Z.eqb_eq in E.
      destruct (render_notdone r t cfg scr r' ks S Ws R) as (S2 & (_ & _ & _ & _ & _ & X & _)).
      destruct S2 as (Cx & _). congruence.
  - apply (IH true); [eapply step_sync; eauto; exact I| |exact O].
    intros _. cbn [r_step] in R. destruct (erase_fresh r r' ks R) as (_ & P). rewrite P. reflexivity.
  - destruct O as (-> & O'). cbn [r_step] in R.
    destruct (reset_sync_col0 r t r' ks S (F eq_refl) R) as (S' & (_ & P)).
    apply (IH true); auto. intros _. rewrite P. reflexivity.
Qed.

Theorem equiv_scratch_reset0 : forall ops col0 cfg scr r0 t0 r0' t0',
  Sync r0 t0 -> (col0 = true -> fst (rpos r0) = 0) -> Sync r0' t0' -> rlast r0' = None ->
  okseq0 col0 ops -> wf_screen W wof H scr ->
  visible_eq (snd (run_seq r0 t0 (ops ++ [ORender cfg false W H scr])))
             (snd (run_seq r0' t0' [ORender cfg false W H scr])).
Proof.
  intros ops col0 cfg scr r0 t0 r0' t0' S0 F0 S0' _ O Ws.
  rewrite run_seq_app.
  pose proof (seq_sync_reset0 ops col0 r0 t0 S0 F0 O) as S1.
  destruct (run_seq r0 t0 ops) as [r1 t1]. cbn [fst snd] in *.
  cbn [run_seq r_step].
  destruct (r_render tbs fs r1 cfg false W H scr) as [ra ka] eqn:Ra.
  destruct (r_render tbs fs r0' cfg false W H scr) as [rb kb] eqn:Rb.
  cbn [snd]. unfold t_step; cbn [op_shifts].
  destruct (render_notdone r1 t1 cfg scr ra ka S1 Ws Ra) as (_ & Fa).
  destruct (render_notdone r0' t0' cfg scr rb kb S0' Ws Rb) as (_ & Fb).
  eapply final_visible_eq; eauto.
Qed.

(* a fresh Renderer on a terminal whose cursor is at the origin is in sync *)
Lemma sync_new : forall t, cx t = 0 -> cy t = 0 -> pend t = false -> undef t = false ->
  Sync (fst r_new) (trun W t (snd r_new)).
Proof.
  intros t X Y P U. unfold r_new.
  destruct (r_reset (mkr (0, 0) None None None None false false false)) as [r2 ks] eqn:R.
  destruct (reset_run _ t r2 ks R I) as ((G & X2 & Y2 & N2 & A2 & P2 & U2) & V2 & CV2 & PS2 & L2 & AL2).
  cbn [fst snd]. unfold Sync. rewrite PS2, L2, CV2. cbn [fst snd].
  split; [congruence|]. split; [congruence|]. split; [lia|]. split; [lia|].
  split; [congruence|]. split; [congruence|]. split; [exact V2|]. split; [auto|exact I].
Qed.

End Sync.

(* a width function for the examples: "" has width 0, U+754C is wide *)
Definition wof_ex (g : list Z) : Z :=
  match g with [] => 0 | [x] => if x =? 30028 then 2 else 1 | _ => 1 end.

(* columns 0..W-1 of concrete rows, case by case *)
Ltac wrow_cases W1 :=
  let x := fresh "x" in let Hx := fresh "Hx" in
  intros x Hx; unfold kind_ok;
  let rec go k :=
    (destruct (Z.eq_dec x k) as [->|];
       [vm_compute; split; [reflexivity|];
        first [left; split; [reflexivity|discriminate]
              |right; left; repeat split; first [reflexivity|discriminate|intros Q; discriminate Q]
              |right; right; repeat split; first [reflexivity|discriminate|intros Q; discriminate Q]]
       |]) in
  go 0; try go 1; try go 2; try go 3; try lia.

Ltac wscreen_rows ys :=
  let y := fresh "y" in
  intros y; cbn [sget srows];
  repeat match goal with |- context [?k =? y] => destruct (k =? y) end.

Lemma wf_example :
  wf_screen 4 wof_ex 2 (mks 2 true 1 1 [(0, [(0, mkc [97] 2 1); (1, mkc [32] 3 1); (2, mkc [32] 0 1)]); (1, [])] []).
Proof.
  unfold wf_screen; cbn [sh scx scy].
  split; [|split; [lia|split; [|lia]]].
  - unfold wscreen, wrow, wrowf. wscreen_rows tt; wrow_cases 4.
  - intros y Hy. cbn [sget srows].
    destruct (0 =? y) eqn:E0; [apply Z.eqb_eq in E0; lia|].
    destruct (1 =? y) eqn:E1; [apply Z.eqb_eq in E1; lia|reflexivity].
Qed.

(* wide cells: U+754C at columns 1-2 (with its "" shadow cell, whose own style
   is arbitrary), a narrow cell after it *)
Lemma wf_example_wide :
  wf_screen 4 wof_ex 2 (mks 1 true 3 0 [(0, [(0, mkc [97] 2 1); (1, mkc [30028] 3 2); (2, mkc [] 0 0); (3, mkc [98] 2 1)])] []).
Proof.
  unfold wf_screen; cbn [sh scx scy].
  split; [|split; [lia|split; [|lia]]].
  - unfold wscreen, wrow, wrowf. wscreen_rows tt; wrow_cases 4.
  - intros y Hy. cbn [sget srows]. destruct (0 =? y) eqn:E0; [apply Z.eqb_eq in E0; lia|reflexivity].
Qed.

(* a screen taller than the terminal (a float reaching below the last row) is well formed too *)
Lemma wf_example_tall :
  wf_screen 4 wof_ex 2 (mks 5 true 0 1 [(0, [(0, mkc [97] 2 1)]); (3, [(1, mkc [98] 0 1)])] []).
Proof.
  unfold wf_screen; cbn [sh scx scy].
  split; [|split; [lia|split; [|lia]]].
  - unfold wscreen, wrow, wrowf. wscreen_rows tt; wrow_cases 4.
  - intros y Hy. cbn [sget srows].
    destruct (0 =? y) eqn:E0; [apply Z.eqb_eq in E0; lia|].
    destruct (3 =? y) eqn:E1; [apply Z.eqb_eq in E1; lia|reflexivity].
Qed.

(* cells at column indices >= the terminal width (a float overhanging the right
   edge) are allowed: wf_screen constrains the visible columns 0..W-1 only *)
Lemma wf_example_overhang :
  wf_screen 2 wof_ex 2 (mks 1 true 1 0 [(0, [(0, mkc [97] 0 1); (1, mkc [98] 0 1); (2, mkc [99] 2 1); (5, mkc [100] 3 1)])] []).
Proof.
  unfold wf_screen; cbn [sh scx scy].
  split; [|split; [lia|split; [|lia]]].
  - unfold wscreen, wrow, wrowf. wscreen_rows tt; wrow_cases 2.
  - intros y Hy. cbn [sget srows]. destruct (0 =? y) eqn:E0; [apply Z.eqb_eq in E0; lia|reflexivity].
Qed.
