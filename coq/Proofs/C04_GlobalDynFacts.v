(* C04 - what GlobalOnlyKeyBindings shows when is_global is a dynamic filter. *)
From Coq Require Import ZArith List Bool Lia.
From PTK Require Import Lib.Sx Model.C04_KeyProc Model.C04_GlobalDyn.
Import ListNotations.
Open Scope Z_scope.

(* the wrapper's copy, when its recorded version is current, is the current
   list filtered by is_global AS IT WAS when the version last changed *)
Definition ginv (s : gst) : Prop :=
  match glast s with
  | None => True
  | Some v => v <= gver s /\ (v = gver s -> gshown s = filter (is_glob (grebuilt s)) (gbs s))
  end.

Lemma gstep_inv s o : ginv s -> ginv (gstep s o).
Proof.
  unfold ginv. destruct o; cbn [gstep].
  - cbn. destruct (glast s) as [v|]; [|exact id]. intros [H1 H2]. split; lia.
  - cbn. exact id.
  - destruct (glast s) as [v|] eqn:EL.
    + destruct (v =? gver s) eqn:EV; [rewrite EL; exact id|]. cbn. intros _. split; [lia|reflexivity].
    + cbn. intros _. split; [lia|reflexivity].
Qed.

Lemma ginv0 e : ginv (gst0 e).
Proof. exact I. Qed.

Lemma grun_inv ops : forall s, ginv s -> ginv (fold_left gstep ops s).
Proof. induction ops as [|o ops IH]; intros s H; [exact H|]. cbn. apply IH, gstep_inv, H. Qed.

(* After any history, a lookup through the wrapper shows the bindings whose
   is_global was true under the condition values of the last rebuild - and it
   rebuilds exactly when the KeyBindings' version changed since the last look. *)
Theorem global_only_shows e ops :
  let s := fold_left gstep ops (gst0 e) in
  let s' := gstep s GLook in
  gshown s' = filter (is_glob (grebuilt s')) (gbs s') /\
  gbs s' = gbs s /\
  (glast s = Some (gver s) -> grebuilt s' = grebuilt s) /\
  (glast s <> Some (gver s) -> grebuilt s' = genv s).
Proof.
  intros s s'. pose proof (grun_inv ops (gst0 e) (ginv0 e)) as HI. fold s in HI.
  unfold s'. cbn [gstep]. unfold ginv in HI. destruct (glast s) as [v|] eqn:EL.
  - destruct (v =? gver s) eqn:EV.
    + apply Z.eqb_eq in EV. destruct HI as [_ H2]. split; [exact (H2 EV)|]. split; [reflexivity|]. split; [reflexivity|].
      intros H. congruence.
    + apply Z.eqb_neq in EV. cbn. split; [reflexivity|]. split; [reflexivity|]. split; [|reflexivity]. intros [= H]. contradiction.
  - cbn. split; [reflexivity|]. split; [reflexivity|]. split; [discriminate|reflexivity].
Qed.

(* hence it does NOT follow the current value of is_global: with no add or
   remove in between, a binding that became global stays hidden *)
Theorem global_only_stale : exists e ops,
  let s := gstep (fold_left gstep ops (gst0 e)) GLook in
  gshown s <> filter (is_glob (genv s)) (gbs s).
Proof.
  exists [false], [GAdd (mkgb [1] 0 (FCond 0)); GLook; GFlip 0]. cbn. discriminate.
Qed.
