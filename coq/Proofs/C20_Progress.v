(* C20 - progress of the flush thread: from every state in which the flush
   thread is alive, its own steps alone (at most length queue + 3 of them)
   take everything out of the queue: it ends idle on an empty queue, or it has
   met the _Done sentinel and returned.  Together with queue_order (nothing is
   lost up to the hand-over) this is the liveness half of "after a flush every
   written character appears": flush()/close() only have to put their item. *)
From Coq Require Import ZArith List Bool Lia Arith.
From PTK Require Import Lib.Sx Model.C20_StdoutProxy.
Import ListNotations.
Open Scope nat_scope.

(* the one step the flush thread can take *)
Definition fnext (s : st) : st :=
  match fth (px s) with
  | FIdle => step s LFGet
  | FCollect _ _ => step s LFNowait
  | FDrained _ _ => step s LFChoose
  | FChosen _ _ _ => step s LFDeliver
  | FExit | FCrash => s
  end.

Fixpoint fiter (n : nat) (s : st) : st :=
  match n with O => s | S m => fiter m (fnext s) end.

Definition settled (s : st) : Prop :=
  fth (px s) = FExit \/ (fth (px s) = FIdle /\ queue (px s) = []).

Lemma settled_stays : forall n s, settled s -> settled (fiter n s).
Proof.
  induction n as [|n IH]; intros s H; [exact H|]. cbn [fiter]. apply IH.
  destruct H as [H|[H1 H2]]; unfold fnext.
  - rewrite H. left. exact H.
  - rewrite H1. cbn [step px]. unfold do_fget. rewrite H1, H2. right. split; assumption.
Qed.

Lemma fiter_add : forall n m s, fiter (n + m) s = fiter m (fiter n s).
Proof. induction n as [|n IH]; intros m s; [reflexivity|]. cbn [Nat.add fiter]. apply IH. Qed.

Lemma from_chosen : forall s a d p, fth (px s) = FChosen a d p -> queue (px s) = [] ->
  settled (fiter 1 s).
Proof.
  intros s a d p F Q. cbn [fiter]. unfold fnext. rewrite F. cbn [step]. rewrite F.
  destruct p as [k|].
  - destruct (Nat.eqb k (lid (en s)) && negb (lclosed (en s))); cbn [px set_fth fth queue];
      (destruct d; [left; reflexivity|right; split; [reflexivity|exact Q]]).
  - cbn [px set_fth fth queue]. destruct d; [left; reflexivity|right; split; [reflexivity|exact Q]].
Qed.

Lemma from_drained : forall s a d, fth (px s) = FDrained a d -> queue (px s) = [] ->
  settled (fiter 2 s).
Proof.
  intros s a d F Q. change (fiter 2 s) with (fiter 1 (fnext s)).
  apply (from_chosen _ a d (if app (en s) then Some (lid (en s)) else None)).
  - unfold fnext. rewrite F. cbn [step px]. unfold do_fchoose. rewrite F. reflexivity.
  - unfold fnext. rewrite F. cbn [step px]. unfold do_fchoose. rewrite F. exact Q.
Qed.

Lemma from_collect : forall q s a d, fth (px s) = FCollect a d -> queue (px s) = q ->
  settled (fiter (length q + 3) s).
Proof.
  induction q as [|x q IH]; intros s a d F Q.
  - change (fiter (length (@nil item) + 3) s) with (fiter 2 (fnext s)).
    apply (from_drained _ a d).
    + unfold fnext. rewrite F. cbn [step px]. unfold do_fnowait. rewrite F, Q. reflexivity.
    + unfold fnext. rewrite F. cbn [step px]. unfold do_fnowait. rewrite F, Q. reflexivity.
  - change (length (x :: q) + 3) with (S (length q + 3)). cbn [fiter].
    assert (H : exists a' d', fth (px (fnext s)) = FCollect a' d' /\ queue (px (fnext s)) = q).
    { unfold fnext. rewrite F. cbn [step px]. unfold do_fnowait. rewrite F, Q.
      destruct x; cbn [fth queue]; eexists; eexists; split; reflexivity. }
    destruct H as [a' [d' [F' Q']]]. exact (IH _ a' d' F' Q').
Qed.

Lemma from_idle : forall q s, fth (px s) = FIdle -> queue (px s) = q ->
  settled (fiter (length q + 3) s).
Proof.
  induction q as [|x q IH]; intros s F Q.
  - apply settled_stays. right. split; assumption.
  - change (length (x :: q) + 3) with (S (length q + 3)). cbn [fiter].
    destruct x as [t|].
    + destruct t as [|c t].
      * apply IH; unfold fnext; rewrite F; cbn [step px]; unfold do_fget; rewrite F, Q; reflexivity.
      * apply (from_collect q _ (c :: t) false);
          unfold fnext; rewrite F; cbn [step px]; unfold do_fget; rewrite F, Q; reflexivity.
    + apply settled_stays. left. unfold fnext. rewrite F. cbn [step px]. unfold do_fget. rewrite F, Q. reflexivity.
Qed.

Lemma settled_more : forall n m s, settled (fiter n s) -> settled (fiter (n + m) s).
Proof. intros n m s H. rewrite fiter_add. now apply settled_stays. Qed.

Lemma chosen_step : forall s a d p, fth (px s) = FChosen a d p ->
  (fth (px (fnext s)) = FIdle \/ fth (px (fnext s)) = FExit) /\ queue (px (fnext s)) = queue (px s).
Proof.
  intros s a d p F. unfold fnext. rewrite F. cbn [step]. rewrite F. destruct p as [k|].
  - destruct (Nat.eqb k (lid (en s)) && negb (lclosed (en s))); cbn [px set_fth fth queue];
      (split; [destruct d; [right|left]; reflexivity|reflexivity]).
  - cbn [px set_fth fth queue]. split; [destruct d; [right|left]; reflexivity|reflexivity].
Qed.

Lemma drained_step : forall s a d, fth (px s) = FDrained a d ->
  (exists p, fth (px (fnext s)) = FChosen a d p) /\ queue (px (fnext s)) = queue (px s).
Proof.
  intros s a d F. unfold fnext. rewrite F. cbn [step px]. unfold do_fchoose. rewrite F. cbn [fth queue].
  split; [eexists; reflexivity|reflexivity].
Qed.

Lemma after_handover : forall s, fth (px s) = FIdle \/ fth (px s) = FExit ->
  settled (fiter (length (queue (px s)) + 3) s).
Proof.
  intros s [H|H]; [now apply from_idle|]. apply settled_stays. now left.
Qed.

(* from every state with the flush thread alive *)
Lemma flush_thread_progress : forall s,
  fth (px s) <> FCrash ->
  settled (fiter (length (queue (px s)) + 5) s).
Proof.
  intros s NC. destruct (fth (px s)) as [|a d|a d|a d p| |] eqn:F.
  - replace (length (queue (px s)) + 5) with ((length (queue (px s)) + 3) + 2) by lia.
    apply settled_more. now apply from_idle.
  - replace (length (queue (px s)) + 5) with ((length (queue (px s)) + 3) + 2) by lia.
    apply settled_more. now apply (from_collect _ s a d).
  - destruct (drained_step s a d F) as [[p F1] Q1].
    destruct (chosen_step (fnext s) a d p F1) as [F2 Q2].
    replace (length (queue (px s)) + 5) with (2 + (length (queue (px s)) + 3)) by lia.
    rewrite fiter_add. change (fiter 2 s) with (fnext (fnext s)). rewrite <- Q1, <- Q2. now apply after_handover.
  - destruct (chosen_step s a d p F) as [F2 Q2].
    replace (length (queue (px s)) + 5) with (1 + ((length (queue (px s)) + 3) + 1)) by lia.
    rewrite fiter_add. change (fiter 1 s) with (fnext s). apply settled_more. rewrite <- Q2. now apply after_handover.
  - apply settled_stays. now left.
  - contradiction.
Qed.

(* every step of [fiter] is a step of the model taken by an enabled label or
   nothing: the progress run is a schedule of the LTS *)
Lemma fnext_is_step : forall s, fnext s = s \/ exists l, enabled s l = true /\ fnext s = step s l.
Proof.
  intros s. unfold fnext. destruct (fth (px s)) eqn:F.
  - destruct (queue (px s)) eqn:Q.
    + left. cbn [step]. unfold do_fget. rewrite F, Q. destruct s as [[b q f h] e c o lo k]. cbn in *. now subst.
    + right. exists LFGet. split; [|reflexivity]. cbn [enabled]. now rewrite F, Q.
  - right. exists LFNowait. split; [|reflexivity]. cbn [enabled]. now rewrite F.
  - right. exists LFChoose. split; [|reflexivity]. cbn [enabled]. now rewrite F.
  - right. exists LFDeliver. split; [|reflexivity]. cbn [enabled]. now rewrite F.
  - now left.
  - now left.
Qed.
