(* Round 7: the copied margin of newline / insert_line_above / insert_line_below
   is EXACTLY the leading blanks of the current line (the whole line when it
   is all blanks). *)
From Coq Require Import ZArith List Bool Lia.
From PTK Require Import Lib.Sx Lib.Py Model.Document Model.BufferEdit
  Proofs.BufferEditFacts Proofs.BufferEditLines.
Import ListNotations.
Open Scope Z_scope.

Lemma current_line_is_line b pre line post :
  line_split b pre line post -> current_line (bdoc b) = line.
Proof.
  intros S. unfold current_line. rewrite (ls_before _ _ _ _ S), (ls_after _ _ _ _ S).
  apply firstn_skipn.
Qed.

Lemma lstrip_head p s :
  lstrip_by p s = [] \/ exists x r, lstrip_by p s = x :: r /\ p x = false.
Proof.
  induction s as [|x s IH]; cbn [lstrip_by]; [now left|].
  destruct (p x) eqn:E; [exact IH|]. right. now exists x, s.
Qed.

(* the margin is the maximal prefix of blanks of the cursor's line *)
Lemma margin_exact b pre line post :
  line_split b pre line post ->
  let m := leading_whitespace_in_current_line (bdoc b) in
  line = m ++ lstrip_by is_space line /\ forallb is_space m = true /\
  (lstrip_by is_space line = [] \/
   exists x r, lstrip_by is_space line = x :: r /\ is_space x = false).
Proof.
  intros S m. unfold m, leading_whitespace_in_current_line.
  rewrite (current_line_is_line b pre line post S).
  destruct (lstrip_prefix is_space line) as [m' [H1 H2]].
  assert (Hl : len line - len (lstrip_by is_space line) = len m').
  { rewrite H1 at 1. rewrite len_app. lia. }
  rewrite Hl. pose proof (len_nonneg m'). pose proof (len_nonneg (lstrip_by is_space line)).
  assert (len line = len m' + len (lstrip_by is_space line)) by (rewrite H1 at 1; apply len_app).
  rewrite slice_to_in_range by lia.
  assert (Hf : firstn (Z.to_nat (len m')) line = m') by (rewrite H1; apply firstn_len_app).
  rewrite Hf. split; [exact H1|]. split; [exact H2|apply lstrip_head].
Qed.

Definition margin (b : buf) (cm : bool) : str :=
  if cm then leading_whitespace_in_current_line (bdoc b) else [].

Lemma newline_exact b cm :
  Inv b ->
  newline b cm =
  Ok (mkbuf (firstn (Z.to_nat (bcur b)) (btext b) ++ NL :: margin b cm
             ++ skipn (Z.to_nat (bcur b)) (btext b))
            (bcur b + 1 + len (margin b cm))) [].
Proof.
  intros H. unfold newline, margin. destruct cm; rewrite (insert_text_spec b _ true H).
  - cbn [app]. rewrite len_cons. f_equal. f_equal. lia.
  - cbn [app]. change (len [NL]) with 1. change (len (@nil Z)) with 0. f_equal. f_equal. lia.
Qed.

Lemma insert_line_above_exact b cm pre line post :
  Inv b -> line_split b pre line post ->
  insert_line_above b cm =
  Ok (mkbuf (pre ++ margin b cm ++ NL :: line ++ post) (len pre + len (margin b cm))) [].
Proof.
  intros HI S. pose proof HI as [H0 H1]. destruct S as [Ht Hl _ _ Hc Hb _].
  pose proof (len_nonneg pre). pose proof (len_nonneg line). pose proof (len_nonneg post).
  assert (Hlt : len (btext b) = len pre + len line + len post) by (rewrite Ht, !len_app; lia).
  unfold insert_line_above, get_start_of_line_position. rewrite Hb, len_firstn.
  replace (bcur b + - Z.min (Z.of_nat (Z.to_nat (bcur b - len pre))) (len line)) with (len pre) by lia.
  rewrite set_cursor_in_range by lia.
  set (ins := if cm then _ ++ [NL] else [NL]).
  set (m := margin b cm).
  assert (Hins : ins = m ++ [NL]) by (unfold ins, m, margin; destruct cm; reflexivity).
  set (b1 := mkbuf (btext b) (len pre)).
  assert (HI1 : Inv b1) by (unfold Inv, b1; cbn [btext bcur]; lia).
  rewrite (insert_text_spec b1 ins true HI1). cbn [bind]. unfold b1; cbn [btext bcur].
  rewrite Ht, firstn_len_app, skipn_len_app, Hins.
  pose proof (len_nonneg m).
  rewrite set_cursor_in_range.
  2:{ cbn [btext bcur]. rewrite !len_app. change (len [NL]) with 1. lia. }
  cbn [btext bcur]. f_equal. f_equal.
  - rewrite <- !app_assoc. reflexivity.
  - rewrite len_app. change (len [NL]) with 1. lia.
Qed.

Lemma insert_line_below_exact b cm pre line post :
  Inv b -> line_split b pre line post ->
  insert_line_below b cm =
  Ok (mkbuf (pre ++ line ++ NL :: margin b cm ++ post)
            (len pre + len line + 1 + len (margin b cm))) [].
Proof.
  intros HI S. pose proof HI as [H0 H1]. destruct S as [Ht Hl _ _ Hc _ Ha].
  pose proof (len_nonneg pre). pose proof (len_nonneg line). pose proof (len_nonneg post).
  assert (Hlt : len (btext b) = len pre + len line + len post) by (rewrite Ht, !len_app; lia).
  unfold insert_line_below, get_end_of_line_position. rewrite Ha, len_skipn.
  replace (bcur b + Z.max 0 (len line - Z.of_nat (Z.to_nat (bcur b - len pre))))
    with (len pre + len line) by lia.
  rewrite set_cursor_in_range by lia.
  set (ins := if cm then NL :: _ else [NL]).
  set (m := margin b cm).
  assert (Hins : ins = NL :: m) by (unfold ins, m, margin; destruct cm; reflexivity).
  set (b1 := mkbuf (btext b) (len pre + len line)).
  assert (HI1 : Inv b1) by (unfold Inv, b1; cbn [btext bcur]; lia).
  rewrite (insert_text_spec b1 ins true HI1). unfold b1; cbn [btext bcur].
  replace (len pre + len line) with (len (pre ++ line)) by (rewrite len_app; lia).
  rewrite Ht, (app_assoc pre line post), firstn_len_app, skipn_len_app, Hins.
  f_equal. f_equal.
  - rewrite <- !app_assoc. reflexivity.
  - rewrite len_app, len_cons. lia.
Qed.
