(* C03 - the incremental UTF-8 decoder ([step]/[dec], Model/C03_Vt100Input.v)
   against the declarative specification Model/C03_Utf8Spec.v, for all byte
   strings and all ways of cutting them into reads. *)
From Coq Require Import ZArith List Bool Lia.
From PTK Require Import Model.C03_Vt100Input Model.C03_Utf8Spec Proofs.C03_Input.
Import ListNotations.
Open Scope Z_scope.

Ltac bool_facts := repeat match goal with
  | H : (_ && _) = true |- _ => apply andb_true_iff in H; destruct H
  | H : (_ && _) = false |- _ => apply andb_false_iff in H; destruct H
  | H : (_ || _) = true |- _ => apply orb_true_iff in H; destruct H
  | H : (_ || _) = false |- _ => apply orb_false_iff in H; destruct H
  | H : (_ <? _) = true |- _ => apply Z.ltb_lt in H
  | H : (_ <? _) = false |- _ => apply Z.ltb_ge in H
  | H : (_ <=? _) = true |- _ => apply Z.leb_le in H
  | H : (_ <=? _) = false |- _ => apply Z.leb_gt in H
  | H : (_ =? _) = true |- _ => apply Z.eqb_eq in H
  | H : (_ =? _) = false |- _ => apply Z.eqb_neq in H
  end.

(* decide the head test of the goal by arithmetic *)
Ltac kill_if :=
  match goal with
  | |- context [if ?c then _ else _] =>
      let E := fresh "E" in destruct c eqn:E; bool_facts; try (exfalso; lia)
  end.
Ltac kill_ifs := repeat kill_if.

(* ---------------------------------------------------------------------- *)
(* the encoder on values assembled from bytes *)

Lemma enc1 b : 0 <= b < 128 -> encode1 b = [b] /\ scalar b = true.
Proof.
  intros H. split.
  - unfold encode1. kill_ifs. reflexivity.
  - unfold scalar. apply orb_true_iff. left. apply andb_true_iff. split; [apply Z.leb_le|apply Z.ltb_lt]; lia.
Qed.

Lemma enc2 b b2 : 194 <= b <= 223 -> 128 <= b2 <= 191 ->
  encode1 ((b - 192) * 64 + (b2 - 128)) = [b; b2] /\ scalar ((b - 192) * 64 + (b2 - 128)) = true.
Proof.
  intros H1 H2. split.
  - unfold encode1. kill_ifs. f_equal; [|f_equal]; Z.div_mod_to_equations; lia.
  - unfold scalar. apply orb_true_iff. left. apply andb_true_iff. split; [apply Z.leb_le|apply Z.ltb_lt]; lia.
Qed.

Definition lo3 (b : Z) : Z := if b =? 224 then 160 else 128.
Definition hi3 (b : Z) : Z := if b =? 237 then 159 else 191.
Definition lo4 (b : Z) : Z := if b =? 240 then 144 else 128.
Definition hi4 (b : Z) : Z := if b =? 244 then 143 else 191.

Lemma enc3 b b2 b3 : 224 <= b <= 239 -> lo3 b <= b2 <= hi3 b -> 128 <= b3 <= 191 ->
  encode1 ((b - 224) * 4096 + (b2 - 128) * 64 + (b3 - 128)) = [b; b2; b3] /\
  scalar ((b - 224) * 4096 + (b2 - 128) * 64 + (b3 - 128)) = true.
Proof.
  unfold lo3, hi3. intros H1 H2 H3.
  destruct (b =? 224) eqn:E1; destruct (b =? 237) eqn:E2; bool_facts; try lia; split.
  all: try (unfold encode1; kill_ifs; f_equal; [|f_equal; [|f_equal]]; Z.div_mod_to_equations; lia).
  all: unfold scalar; apply orb_true_iff.
  - left. apply andb_true_iff. split; [apply Z.leb_le|apply Z.ltb_lt]; lia.
  - left. apply andb_true_iff. split; [apply Z.leb_le|apply Z.ltb_lt]; lia.
  - destruct (Z.lt_ge_cases b 237).
    + left. apply andb_true_iff. split; [apply Z.leb_le|apply Z.ltb_lt]; lia.
    + right. apply andb_true_iff. split; apply Z.leb_le; lia.
Qed.

Lemma enc4 b b2 b3 b4 : 240 <= b <= 244 -> lo4 b <= b2 <= hi4 b -> 128 <= b3 <= 191 -> 128 <= b4 <= 191 ->
  encode1 ((b - 240) * 262144 + (b2 - 128) * 4096 + (b3 - 128) * 64 + (b4 - 128)) = [b; b2; b3; b4] /\
  scalar ((b - 240) * 262144 + (b2 - 128) * 4096 + (b3 - 128) * 64 + (b4 - 128)) = true.
Proof.
  unfold lo4, hi4. intros H1 H2 H3 H4.
  destruct (b =? 240) eqn:E1; destruct (b =? 244) eqn:E2; bool_facts; try lia; split.
  all: try (unfold encode1; kill_ifs; f_equal; [|f_equal; [|f_equal; [|f_equal]]]; Z.div_mod_to_equations; lia).
  all: unfold scalar; apply orb_true_iff; right; apply andb_true_iff; split; apply Z.leb_le; lia.
Qed.

(* ... and on any scalar value: the bytes are in the ranges of table 3-7 and
   carry the value *)
Lemma val2 cp : 128 <= cp < 2048 ->
  exists b b2, encode1 cp = [b; b2] /\ 194 <= b <= 223 /\ 128 <= b2 <= 191 /\ (b - 192) * 64 + (b2 - 128) = cp.
Proof.
  intros H. exists (192 + cp / 64), (128 + cp mod 64). split.
  - unfold encode1. kill_ifs. reflexivity.
  - Z.div_mod_to_equations. lia.
Qed.

Lemma val3 cp : 2048 <= cp < 65536 -> scalar cp = true ->
  exists b b2 b3, encode1 cp = [b; b2; b3] /\ 224 <= b <= 239 /\ lo3 b <= b2 <= hi3 b /\ 128 <= b3 <= 191 /\
                  (b - 224) * 4096 + (b2 - 128) * 64 + (b3 - 128) = cp.
Proof.
  intros H S. exists (224 + cp / 4096), (128 + (cp / 64) mod 64), (128 + cp mod 64). split.
  - unfold encode1. kill_ifs. reflexivity.
  - unfold scalar in S. unfold lo3, hi3.
    destruct (224 + cp / 4096 =? 224) eqn:E1; destruct (224 + cp / 4096 =? 237) eqn:E2; bool_facts;
      Z.div_mod_to_equations; lia.
Qed.

Lemma val4 cp : 65536 <= cp <= 1114111 ->
  exists b b2 b3 b4, encode1 cp = [b; b2; b3; b4] /\ 240 <= b <= 244 /\ lo4 b <= b2 <= hi4 b /\
                     128 <= b3 <= 191 /\ 128 <= b4 <= 191 /\
                     (b - 240) * 262144 + (b2 - 128) * 4096 + (b3 - 128) * 64 + (b4 - 128) = cp.
Proof.
  intros H. exists (240 + cp / 262144), (128 + (cp / 4096) mod 64), (128 + (cp / 64) mod 64), (128 + cp mod 64). split.
  - unfold encode1. kill_ifs. reflexivity.
  - unfold lo4, hi4.
    destruct (240 + cp / 262144 =? 240) eqn:E1; destruct (240 + cp / 262144 =? 244) eqn:E2; bool_facts;
      Z.div_mod_to_equations; lia.
Qed.

(* ---------------------------------------------------------------------- *)
(* the decoder's step on bytes in the ranges of table 3-7 *)

Ltac open_step := unfold step, cont, in_rng; cbv beta iota zeta.

Lemma step1 b r : 0 <= b < 128 -> step (b :: r) = Emit b 1.
Proof. intros H. open_step. kill_ifs. reflexivity. Qed.

Lemma step2 b b2 r : 194 <= b <= 223 -> 128 <= b2 <= 191 ->
  step (b :: b2 :: r) = Emit ((b - 192) * 64 + (b2 - 128)) 2.
Proof. intros H1 H2. open_step. kill_ifs. reflexivity. Qed.

Lemma step3 b b2 b3 r : 224 <= b <= 239 -> lo3 b <= b2 <= hi3 b -> 128 <= b3 <= 191 ->
  step (b :: b2 :: b3 :: r) = Emit ((b - 224) * 4096 + (b2 - 128) * 64 + (b3 - 128)) 3.
Proof.
  unfold lo3, hi3. intros H1 H2 H3. open_step.
  destruct (b =? 224) eqn:E1; destruct (b =? 237) eqn:E2; bool_facts; kill_ifs; reflexivity.
Qed.

Lemma step4 b b2 b3 b4 r : 240 <= b <= 244 -> lo4 b <= b2 <= hi4 b -> 128 <= b3 <= 191 -> 128 <= b4 <= 191 ->
  step (b :: b2 :: b3 :: b4 :: r) =
  Emit ((b - 240) * 262144 + (b2 - 128) * 4096 + (b3 - 128) * 64 + (b4 - 128)) 4.
Proof.
  unfold lo4, hi4. intros H1 H2 H3 H4. open_step.
  destruct (b =? 240) eqn:E1; destruct (b =? 244) eqn:E2; bool_facts; kill_ifs; reflexivity.
Qed.

Lemma pend_2_1 b : 194 <= b <= 223 -> step [b] = Pend.
Proof. intros H. open_step. kill_ifs. reflexivity. Qed.
Lemma pend_3_1 b : 224 <= b <= 239 -> step [b] = Pend.
Proof. intros H. open_step. kill_ifs. reflexivity. Qed.
Lemma pend_3_2 b b2 : 224 <= b <= 239 -> lo3 b <= b2 <= hi3 b -> step [b; b2] = Pend.
Proof.
  unfold lo3, hi3. intros H1 H2. open_step.
  destruct (b =? 224) eqn:E1; destruct (b =? 237) eqn:E2; bool_facts; kill_ifs; reflexivity.
Qed.
Lemma pend_sur b2 : 160 <= b2 <= 191 -> step [237; b2] = Pend.
Proof. intros H. open_step. change (237 =? 224) with false. change (237 =? 237) with true. cbv iota. kill_ifs; reflexivity. Qed.
Lemma pend_4_1 b : 240 <= b <= 244 -> step [b] = Pend.
Proof. intros H. open_step. kill_ifs. reflexivity. Qed.
Lemma pend_4_2 b b2 : 240 <= b <= 244 -> lo4 b <= b2 <= hi4 b -> step [b; b2] = Pend.
Proof.
  unfold lo4, hi4. intros H1 H2. open_step.
  destruct (b =? 240) eqn:E1; destruct (b =? 244) eqn:E2; bool_facts; kill_ifs; reflexivity.
Qed.
Lemma pend_4_3 b b2 b3 : 240 <= b <= 244 -> lo4 b <= b2 <= hi4 b -> 128 <= b3 <= 191 -> step [b; b2; b3] = Pend.
Proof.
  unfold lo4, hi4. intros H1 H2 H3. open_step.
  destruct (b =? 240) eqn:E1; destruct (b =? 244) eqn:E2; bool_facts; kill_ifs; reflexivity.
Qed.

(* ---------------------------------------------------------------------- *)
(* the four facts that characterise [step] *)

Lemma scalar_range cp : scalar cp = true -> 0 <= cp <= 1114111.
Proof. unfold scalar. intros H. bool_facts; lia. Qed.

(* a well-formed sequence is decoded, whatever follows *)
Lemma step_wf cp rest : scalar cp = true -> step (encode1 cp ++ rest) = Emit cp (length (encode1 cp)).
Proof.
  intros S. pose proof (scalar_range cp S) as R.
  destruct (Z.lt_ge_cases cp 128); [|destruct (Z.lt_ge_cases cp 2048); [|destruct (Z.lt_ge_cases cp 65536)]].
  - destruct (enc1 cp) as [E _]; [lia|]. rewrite E. cbn [app length]. apply step1. lia.
  - destruct (val2 cp) as (b & b2 & E & B1 & B2 & V); [lia|]. rewrite E. cbn [app length].
    rewrite step2 by assumption. now rewrite V.
  - destruct (val3 cp) as (b & b2 & b3 & E & B1 & B2 & B3 & V); [lia|exact S|]. rewrite E. cbn [app length].
    rewrite step3 by assumption. now rewrite V.
  - destruct (val4 cp) as (b & b2 & b3 & b4 & E & B1 & B2 & B3 & B4 & V); [lia|]. rewrite E. cbn [app length].
    rewrite step4 by assumption. now rewrite V.
Qed.

(* what can still be completed is kept *)
Lemma step_incomplete bs : Incomplete bs -> step bs = Pend.
Proof.
  intros [cp ext S Hne Hext E|b2 -> Hb]; [|now apply pend_sur].
  pose proof (scalar_range cp S) as R.
  destruct (Z.lt_ge_cases cp 128); [|destruct (Z.lt_ge_cases cp 2048); [|destruct (Z.lt_ge_cases cp 65536)]].
  - destruct (enc1 cp) as [E1 _]; [lia|]. rewrite E1 in E.
    destruct bs as [|x [|y bs]]; try congruence; destruct ext; try congruence; discriminate E.
  - destruct (val2 cp) as (b & b2 & E1 & B1 & B2 & V); [lia|]. rewrite E1 in E.
    destruct bs as [|x [|y [|z bs]]]; try congruence; cbn [app] in E.
    + injection E as -> _. now apply pend_2_1.
    + injection E as _ _ E. destruct ext; [congruence|discriminate E].
    + injection E as _ _ E. discriminate E.
  - destruct (val3 cp) as (b & b2 & b3 & E1 & B1 & B2 & B3 & V); [lia|exact S|]. rewrite E1 in E.
    destruct bs as [|x [|y [|z [|u bs]]]]; try congruence; cbn [app] in E.
    + injection E as -> _. now apply pend_3_1.
    + injection E as -> -> _. now apply pend_3_2.
    + injection E as _ _ _ E. destruct ext; [congruence|discriminate E].
    + injection E as _ _ _ E. discriminate E.
  - destruct (val4 cp) as (b & b2 & b3 & b4 & E1 & B1 & B2 & B3 & B4 & V); [lia|]. rewrite E1 in E.
    destruct bs as [|x [|y [|z [|u [|v bs]]]]]; try congruence; cbn [app] in E.
    + injection E as -> _. now apply pend_4_1.
    + injection E as -> -> _. now apply pend_4_2.
    + injection E as -> -> -> _. now apply pend_4_3.
    + injection E as _ _ _ _ E. destruct ext; [congruence|discriminate E].
    + injection E as _ _ _ _ E. discriminate E.
Qed.

Lemma bytes_head b r : forallb is_byte (b :: r) = true -> 0 <= b <= 255.
Proof. cbn [forallb]. unfold is_byte. intros H. bool_facts. lia. Qed.

(* whatever is emitted is either a well-formed sequence with its value, or the
   escape of one byte >= 0x80 *)
Lemma step_emit bs cp n :
  forallb is_byte bs = true -> step bs = Emit cp n ->
  (exists b r, bs = b :: r /\ cp = esc b /\ n = 1%nat /\ 128 <= b) \/
  (scalar cp = true /\ n = length (encode1 cp) /\ exists rest, bs = encode1 cp ++ rest).
Proof.
  intros HB H. destruct bs as [|b r]; [discriminate H|]. pose proof (bytes_head _ _ HB) as B0.
  assert (ESC : forall x, 128 <= b -> Emit (esc b) 1 = Emit cp n ->
     (exists b' r', b :: r = b' :: r' /\ cp = esc b' /\ n = 1%nat /\ 128 <= b') \/ x).
  { intros x Hb E. injection E as <- <-. left. now exists b, r. }
  revert H. open_step.
  destruct (b <? 128) eqn:T1; bool_facts.
  { intros HE. injection HE as <- <-. right. destruct (enc1 b) as [E S]; [lia|].
    rewrite E. repeat split; auto. now exists r. }
  destruct ((b <? 194) || (244 <? b)) eqn:T2; [intros HE; apply ESC; [lia|exact HE]|]. bool_facts.
  destruct (b <? 224) eqn:T3; bool_facts.
  { destruct r as [|b2 r2]; [discriminate|].
    destruct ((128 <=? b2) && (b2 <=? 191)) eqn:T4; [|intros HE; apply ESC; [lia|exact HE]]. bool_facts.
    intros HE. injection HE as <- <-. right. destruct (enc2 b b2) as [E S]; try lia.
    rewrite E. repeat split; auto. now exists r2. }
  destruct (b <? 240) eqn:T4; bool_facts.
  { destruct r as [|b2 [|b3 r3]]; [discriminate| |].
    - repeat match goal with |- context [if ?c then _ else _] => destruct c end;
        intros HE; try discriminate HE; apply ESC; [lia|exact HE].
    - destruct (((if b =? 224 then 160 else 128) <=? b2) && (b2 <=? (if b =? 237 then 159 else 191))) eqn:T5;
        [|intros HE; apply ESC; [lia|exact HE]].
      destruct ((128 <=? b3) && (b3 <=? 191)) eqn:T6; [|intros HE; apply ESC; [lia|exact HE]]. bool_facts.
      intros HE. injection HE as <- <-. right. destruct (enc3 b b2 b3) as [E S]; try lia; [unfold lo3, hi3; lia|].
      rewrite E. repeat split; auto. now exists r3. }
  destruct r as [|b2 r2]; [discriminate|].
  destruct (((if b =? 240 then 144 else 128) <=? b2) && (b2 <=? (if b =? 244 then 143 else 191))) eqn:T5;
    [|intros HE; apply ESC; [lia|exact HE]].
  destruct r2 as [|b3 r3]; [discriminate|].
  destruct ((128 <=? b3) && (b3 <=? 191)) eqn:T6; [|intros HE; apply ESC; [lia|exact HE]].
  destruct r3 as [|b4 r4]; [discriminate|].
  destruct ((128 <=? b4) && (b4 <=? 191)) eqn:T7; [|intros HE; apply ESC; [lia|exact HE]]. bool_facts.
  intros HE. injection HE as <- <-. right. destruct (enc4 b b2 b3 b4) as [E S]; try lia; [unfold lo4, hi4; lia|].
  rewrite E. repeat split; auto. now exists r4.
Qed.

(* what is kept can still be completed (or is CPython's truncated surrogate) *)
Lemma step_pend bs : forallb is_byte bs = true -> step bs = Pend -> Incomplete bs.
Proof.
  intros HB. destruct bs as [|b r]; [discriminate|]. open_step.
  destruct (b <? 128) eqn:T1; [discriminate|].
  destruct ((b <? 194) || (244 <? b)) eqn:T2; [discriminate|]. bool_facts.
  destruct (b <? 224) eqn:T3; bool_facts.
  { destruct r as [|b2 r2]; [|destruct ((128 <=? b2) && (b2 <=? 191)); discriminate].
    intros _. destruct (enc2 b 128) as [E S]; try lia.
    apply (Inc_prefix [b] _ [128] S); [discriminate|discriminate|now rewrite E]. }
  destruct (b <? 240) eqn:T4; bool_facts.
  { destruct r as [|b2 [|b3 r3]].
    - intros _. destruct (enc3 b (lo3 b) 128) as [E S]; try lia; [unfold lo3, hi3; repeat kill_if; lia|].
      apply (Inc_prefix [b] _ [lo3 b; 128] S); [discriminate|discriminate|now rewrite E].
    - destruct (((if b =? 224 then 160 else 128) <=? b2) && (b2 <=? (if b =? 237 then 159 else 191))) eqn:T5.
      + intros _. bool_facts. destruct (enc3 b b2 128) as [E S]; try lia; [unfold lo3, hi3; lia|].
        apply (Inc_prefix [b; b2] _ [128] S); [discriminate|discriminate|now rewrite E].
      + destruct ((b =? 237) && ((160 <=? b2) && (b2 <=? 191))) eqn:T6; [|discriminate].
        intros _; bool_facts; subst b; (apply (Inc_surrogate _ b2); [reflexivity|lia]).
    - repeat match goal with |- context [if ?c then _ else _] => destruct c end; discriminate. }
  destruct r as [|b2 r2].
  { intros _. destruct (enc4 b (lo4 b) 128 128) as [E S]; try lia; [unfold lo4, hi4; repeat kill_if; lia|].
    apply (Inc_prefix [b] _ [lo4 b; 128; 128] S); [discriminate|discriminate|now rewrite E]. }
  destruct (((if b =? 240 then 144 else 128) <=? b2) && (b2 <=? (if b =? 244 then 143 else 191))) eqn:T5; [|discriminate].
  bool_facts. destruct r2 as [|b3 r3].
  { intros _. destruct (enc4 b b2 128 128) as [E S]; try lia; [unfold lo4, hi4; lia|].
    apply (Inc_prefix [b; b2] _ [128; 128] S); [discriminate|discriminate|now rewrite E]. }
  destruct ((128 <=? b3) && (b3 <=? 191)) eqn:T6; [|discriminate]. bool_facts.
  destruct r3 as [|b4 r4]; [|destruct ((128 <=? b4) && (b4 <=? 191)); discriminate].
  intros _. destruct (enc4 b b2 b3 128) as [E S]; try lia; [unfold lo4, hi4; lia|].
  apply (Inc_prefix [b; b2; b3] _ [128] S); [discriminate|discriminate|now rewrite E].
Qed.

(* ---------------------------------------------------------------------- *)
(* the decoder is the declarative decoding *)

Lemma step_stop bs : step bs = Stop -> bs = [].
Proof.
  destruct bs as [|b r]; [reflexivity|]. open_step.
  destruct r as [|b2 [|b3 [|b4 r4]]];
    repeat match goal with |- context [if ?c then _ else _] => destruct c end; discriminate.
Qed.

Lemma esc_not_scalar b : 128 <= b <= 255 -> scalar (esc b) = false.
Proof.
  intros H. unfold scalar, esc. apply orb_false_iff. split; apply andb_false_iff;
    [right; apply Z.ltb_ge|left; apply Z.leb_gt]; lia.
Qed.

Lemma skipn_app_exact {T} (a b : list T) : skipn (length a) (a ++ b) = b.
Proof. induction a as [|x a IH]; [reflexivity|exact IH]. Qed.

Lemma dec_nil : dec [] = mkd [] [] false.
Proof. reflexivity. Qed.

Lemma bytes_app a b : forallb is_byte (a ++ b) = true -> forallb is_byte a = true /\ forallb is_byte b = true.
Proof. rewrite forallb_app. apply andb_true_iff. Qed.

(* soundness: whatever the specification derives is what the decoder returns
   (hence the specification is functional) *)
Lemma dec_sound bs t p : Utf8Dec bs t p -> forallb is_byte bs = true -> dec bs = mkd t p false.
Proof.
  induction 1 as [|cp rest t p S D IH|bs I|b rest t p NW NI D IH]; intros HB.
  - reflexivity.
  - rewrite dec_unfold, (step_wf cp rest S), skipn_app_exact.
    rewrite IH by (now apply bytes_app in HB). reflexivity.
  - now rewrite dec_unfold, (step_incomplete bs I).
  - rewrite dec_unfold. destruct (step (b :: rest)) as [cp n| |] eqn:E.
    + destruct (step_emit _ _ _ HB E) as [(b' & r' & Eb & -> & -> & Hb)|(S & _ & rest' & Er)].
      * injection Eb as <- <-. cbn [skipn]. rewrite IH; [reflexivity|].
        cbn [forallb] in HB. now apply andb_true_iff in HB.
      * exfalso. apply NW. now exists cp, rest'.
    + exfalso. apply NI. now apply step_pend.
    + apply step_stop in E. discriminate E.
Qed.

(* completeness: the decoder's result is derivable, for every byte string *)
Lemma dec_complete_aux k : forall bs, (length bs <= k)%nat -> forallb is_byte bs = true ->
  Utf8Dec bs (dout (dec bs)) (dpend (dec bs)).
Proof.
  induction k as [|k IH]; intros bs Hk HB.
  - destruct bs; [|cbn [length] in Hk; lia]. apply UD_nil.
  - rewrite dec_unfold. destruct (step bs) as [cp n| |] eqn:E.
    + pose proof (step_emit_bounds _ _ _ E) as Bn.
      destruct (step_emit _ _ _ HB E) as [(b & r & -> & -> & -> & Hb)|(S & -> & rest & ->)].
      * cbn [skipn dcons dout dpend]. pose proof (bytes_head _ _ HB) as B0. apply UD_esc.
        -- intros (cp' & rest' & S' & Er). rewrite Er, (step_wf cp' rest' S') in E.
           injection E as E _. rewrite E, esc_not_scalar in S' by lia. discriminate.
        -- intros I. rewrite (step_incomplete _ I) in E. discriminate.
        -- apply IH; [cbn [length] in Hk; lia|]. cbn [forallb] in HB. now apply andb_true_iff in HB.
      * rewrite skipn_app_exact. cbn [dcons dout dpend]. apply UD_char; [exact S|].
        apply IH; [|now apply bytes_app in HB].
        rewrite app_length in Hk, Bn. lia.
    + cbn [dout dpend]. apply UD_pend. now apply step_pend.
    + apply step_stop in E. subst. apply UD_nil.
Qed.

Lemma dec_complete bs : forallb is_byte bs = true -> Utf8Dec bs (dout (dec bs)) (dpend (dec bs)).
Proof. apply (dec_complete_aux (length bs)). lia. Qed.

Lemma utf8_dec_functional bs t p t' p' :
  forallb is_byte bs = true -> Utf8Dec bs t p -> Utf8Dec bs t' p' -> t = t' /\ p = p'.
Proof.
  intros HB D1 D2. pose proof (dec_sound _ _ _ D1 HB) as E1. pose proof (dec_sound _ _ _ D2 HB) as E2.
  rewrite E1 in E2. injection E2 as -> ->. now split.
Qed.

(* round trip: every text of scalar values, encoded, decodes to itself with nothing pending *)
Lemma utf8_roundtrip t : forallb scalar t = true -> dec (encode t) = mkd t [] false.
Proof.
  induction t as [|cp t IH]; intros H; [reflexivity|].
  cbn [forallb] in H. apply andb_true_iff in H. destruct H as [S H].
  unfold encode. cbn [flat_map]. rewrite dec_unfold, (step_wf cp _ S), skipn_app_exact.
  fold (encode t). now rewrite IH.
Qed.

(* byte-level losslessness: re-encoding the text (escapes back to their bytes)
   and appending the undecoded tail gives the bytes read *)
Lemma scalar_not_esc cp : scalar cp = true -> is_esc cp = false.
Proof.
  unfold scalar, is_esc. intros H. apply andb_false_iff. bool_facts.
  - left. apply Z.leb_gt. lia.
  - right. apply Z.leb_gt. lia.
Qed.

Lemma utf8dec_lossless bs t p : Utf8Dec bs t p -> forallb is_byte bs = true -> encode_se t ++ p = bs.
Proof.
  induction 1 as [|cp rest t p S D IH|bs I|b rest t p NW NI D IH]; intros HB.
  - reflexivity.
  - unfold encode_se. cbn [flat_map]. fold (encode_se t). unfold encode_se1.
    rewrite (scalar_not_esc cp S), <- app_assoc, IH; [reflexivity|now apply bytes_app in HB].
  - reflexivity.
  - pose proof (bytes_head _ _ HB) as B0.
    assert (Hb : 128 <= b).
    { destruct (Z.lt_ge_cases b 128) as [L|L]; [|exact L]. exfalso. apply NW.
      destruct (enc1 b) as [E S]; [lia|]. exists b, rest. split; [exact S|now rewrite E]. }
    unfold encode_se. cbn [flat_map]. fold (encode_se t). unfold encode_se1, is_esc, esc.
    replace ((56448 <=? 56320 + b) && (56320 + b <=? 56575)) with true
      by (symmetry; apply andb_true_iff; split; apply Z.leb_le; lia).
    replace (56320 + b - 56320) with b by lia. cbn [app]. f_equal.
    apply IH. cbn [forallb] in HB. now apply andb_true_iff in HB.
Qed.

Lemma utf8_bytes_lossless bs :
  forallb is_byte bs = true -> encode_se (dout (dec bs)) ++ dpend (dec bs) = bs.
Proof. intros HB. apply (utf8dec_lossless bs); [now apply dec_complete|exact HB]. Qed.

(* ---------------------------------------------------------------------- *)
(* all chunkings *)

Lemma dec_reads_whole reads : forall pend,
  dec pend = mkd [] pend false ->
  dec_reads pend reads = (dout (dec (pend ++ concat reads)), dpend (dec (pend ++ concat reads))).
Proof.
  induction reads as [|r rest IH]; intros pend Hp.
  - cbn [dec_reads concat]. now rewrite app_nil_r, Hp.
  - cbn [dec_reads concat]. rewrite (IH (dpend (dec (pend ++ r)))) by apply dec_pend.
    rewrite (app_assoc pend r), (dec_app (pend ++ r) (concat rest)). reflexivity.
Qed.

Lemma utf8_any_chunking reads :
  forallb is_byte (concat reads) = true ->
  Utf8Dec (concat reads) (fst (dec_reads [] reads)) (snd (dec_reads [] reads)).
Proof.
  intros HB. rewrite (dec_reads_whole reads []) by reflexivity. cbn [app fst snd]. now apply dec_complete.
Qed.

Lemma utf8_text_any_chunking t reads :
  forallb scalar t = true -> concat reads = encode t -> dec_reads [] reads = (t, []).
Proof.
  intros S E. rewrite (dec_reads_whole reads []) by reflexivity. cbn [app]. now rewrite E, utf8_roundtrip.
Qed.

(* the truncated-surrogate clause is a real deviation from table 3-7: ED A0 is
   kept although no completion is well formed, and all three bytes are escaped
   once the third arrives *)
Lemma utf8_truncated_surrogate_kept :
  dec [237; 160] = mkd [] [237; 160] false /\
  dec [237; 160; 128] = mkd [esc 237; esc 160; esc 128] [] false /\
  ~ (exists cp ext, scalar cp = true /\ [237; 160] ++ ext = encode1 cp).
Proof.
  split; [vm_compute; reflexivity|]. split; [vm_compute; reflexivity|].
  intros (cp & ext & S & E).
  assert (I : Incomplete [237; 160] -> step [237; 160; 128] = Pend \/ True) by auto.
  pose proof (scalar_range cp S) as R.
  destruct (Z.lt_ge_cases cp 128); [|destruct (Z.lt_ge_cases cp 2048); [|destruct (Z.lt_ge_cases cp 65536)]].
  - destruct (enc1 cp) as [E1 _]; [lia|]. rewrite E1 in E. discriminate E.
  - destruct (val2 cp) as (b & b2 & E1 & B1 & B2 & V); [lia|]. rewrite E1 in E. cbn [app] in E.
    injection E as Eb _. lia.
  - destruct (val3 cp) as (b & b2 & b3 & E1 & B1 & B2 & B3 & V); [lia|exact S|]. rewrite E1 in E. cbn [app] in E.
    injection E as Eb Eb2 _. subst b b2. unfold hi3 in B2. change (237 =? 237) with true in B2. cbv iota in B2. lia.
  - destruct (val4 cp) as (b & b2 & b3 & b4 & E1 & B1 & B2 & B3 & B4 & V); [lia|]. rewrite E1 in E. cbn [app] in E.
    injection E as Eb _. lia.
Qed.
