(* ThreadedHistory LTS: with no append concurrent with loading, every schedule
   gives every consumer the inline sequence; with one, it does not. *)
From Coq Require Import ZArith List Bool Lia.
From PTK Require Import Lib.Sx Lib.Py Model.C13_Threaded.
Import ListNotations.
Open Scope Z_scope.

Definition pre (a b : list str) : Prop := exists t, b = a ++ t.

(* consumer invariant against the inline sequence R = reversed storage *)
Definition cinv (R : list str) (c : consumer) : Prop :=
  if c_fin c then c_out c = rev (c_snap c)
  else pre (c_out c) R /\ length (c_out c) = c_iy c.

Definition phinv (st : tstate) : Prop :=
  let R := rev (t_store st) in
  match t_ph st with
  | P0 => t_cons st = [] /\ pre (t_ls st) R /\ t_loaded st = false
  | P1 => pre (t_ls st) R /\ t_loaded st = false
  | P2 => t_ls st = [] /\ t_loaded st = false
  | P3 pend => t_ls st ++ pend = R /\ t_loaded st = false
  | P4 => t_ls st = R /\ t_loaded st = true
  end.

Definition Inv (st : tstate) : Prop :=
  t_fly st = [] /\ phinv st /\ Forall (cinv (rev (t_store st))) (t_cons st).

Lemma pre_nil b : pre [] b.
Proof. now exists b. Qed.

Lemma pre_refl b : pre b b.
Proof. exists []. now rewrite app_nil_r. Qed.

Lemma pre_length a b : pre a b -> (length a <= length b)%nat.
Proof. intros [t ->]. rewrite app_length. lia. Qed.

(* two prefixes of one list: appending the rest of the longer to the shorter *)
Lemma pre_join (a l R : list str) :
  pre a R -> pre l R ->
  (length a <= length l)%nat -> a ++ skipn (length a) l = l.
Proof.
  intros [t1 E1] [t2 E2] Hlen.
  assert (Ha : a = firstn (length a) l).
  { assert (H : firstn (length a) R = a) by (rewrite E1, firstn_app, Nat.sub_diag, firstn_all; cbn; apply app_nil_r).
    rewrite E2 in H. rewrite firstn_app in H.
    replace (length a - length l)%nat with 0%nat in H by lia. cbn [firstn] in H.
    rewrite app_nil_r in H. now symmetry. }
  rewrite Ha at 1. apply firstn_skipn.
Qed.

Lemma ls_pre st : phinv st -> pre (t_ls st) (rev (t_store st)).
Proof.
  unfold phinv. destruct (t_ph st) as [| | |pend|].
  - intros (_ & H & _). exact H.
  - intros (H & _). exact H.
  - intros (-> & _). apply pre_nil.
  - intros (H & _). now exists pend.
  - intros (-> & _). apply pre_refl.
Qed.

Lemma loaded_P4 st : phinv st -> t_loaded st = true -> t_ls st = rev (t_store st).
Proof.
  unfold phinv. destruct (t_ph st) as [| | |pend|]; intros H E.
  - destruct H as (_ & _ & H). congruence.
  - destruct H as (_ & H). congruence.
  - destruct H as (_ & H). congruence.
  - destruct H as (_ & H). congruence.
  - destruct H as (H & _). exact H.
Qed.

Lemma cinv_set_ev R c : cinv R c -> cinv R (set_ev c).
Proof.
  unfold cinv, set_ev. destruct (c_fin c) eqn:E; [now rewrite E|]. cbn. auto.
Qed.

Lemma cinv_read st c :
  phinv st -> cinv (rev (t_store st)) c -> cinv (rev (t_store st)) (read st c).
Proof.
  intros Hp Hc. unfold read. destruct (c_fin c) eqn:Ef; [exact Hc|].
  unfold cinv in *. rewrite Ef in Hc. destruct Hc as [Hpre Hlen]. cbn [c_fin c_out c_iy c_snap].
  pose proof (ls_pre st Hp) as Hls.
  assert (Hout : (length (c_out c) <= length (t_ls st))%nat ->
                 c_out c ++ skipn (c_iy c) (t_ls st) = t_ls st).
  { intros H. rewrite <- Hlen. now apply (pre_join _ _ (rev (t_store st))). }
  destruct (t_loaded st) eqn:El.
  - pose proof (loaded_P4 st Hp El) as E. rewrite Hout; [exact E|].
    rewrite E. now apply pre_length.
  - destruct (Nat.le_gt_cases (length (c_out c)) (length (t_ls st))) as [H|H].
    + rewrite Hout by exact H. split; [exact Hls|].
      rewrite skipn_length. lia.
    + rewrite skipn_all2 by lia. rewrite app_nil_r. cbn [length]. split; [exact Hpre|lia].
Qed.

Lemma Forall_upd_nth {T} (P : T -> Prop) (f : T -> T) l i :
  (forall x, P x -> P (f x)) -> Forall P l -> Forall P (upd_nth l i f).
Proof.
  intros Hf. revert i. induction l as [|x l IH]; intros i H; [constructor|].
  inversion H; subst. destruct i; cbn [upd_nth]; constructor; auto.
Qed.

Lemma str_eqb_refl s : str_eqb s s = true.
Proof. induction s as [|x s IH]; [reflexivity|]. cbn [str_eqb]. now rewrite Z.eqb_refl. Qed.

Lemma cinv_fin_any R R' c : c_fin c = true -> cinv R c -> cinv R' c.
Proof. unfold cinv. now intros ->. Qed.

Lemma step1_inv st l : l <> CStartL -> Inv st -> ok_label st l = true -> Inv (tstep1 st l).
Proof.
  intros Hnl (Hfly & Hp & Hc) Hok. destruct l as [| |i|s|s|s|]; try discriminate Hok; try congruence.
  - (* LStep *)
    unfold tstep1. unfold Inv, phinv in *. destruct (t_ph st) as [| | |[|x r]|] eqn:Eph.
    + rewrite Eph. auto.
    + cbn. repeat split; auto. tauto.
    + cbn. destruct Hp as (E & Hl). rewrite E. repeat split; auto.
    + cbn. destruct Hp as (E & Hl). rewrite app_nil_r in E. repeat split; auto.
      apply Forall_map. eapply Forall_impl; [|exact Hc]. intros c. apply cinv_set_ev.
    + cbn. destruct Hp as (E & Hl). rewrite <- app_assoc. repeat split; auto.
      apply Forall_map. eapply Forall_impl; [|exact Hc]. intros c. apply cinv_set_ev.
    + rewrite Eph. auto.
  - (* CStart *)
    unfold tstep1, Inv, phinv in *. cbn [t_fly t_ph t_ls t_store t_loaded t_cons].
    split; [exact Hfly|]. split.
    + destruct (t_ph st); tauto.
    + apply Forall_app. split; [exact Hc|]. constructor; [|constructor].
      unfold cinv. cbn. split; [apply pre_nil|reflexivity].
  - (* CRead *)
    unfold tstep1, Inv in *. cbn [t_fly t_ph t_ls t_store t_loaded t_cons].
    split; [exact Hfly|]. split.
    + unfold phinv in *. cbn [t_ph t_ls t_store t_loaded t_cons].
      destruct (t_ph st); try tauto. destruct Hp as (E & H). rewrite E. cbn. auto.
    + apply Forall_upd_nth; [|exact Hc]. intros c. now apply cinv_read.
  - (* atomic Append in a quiescent state *)
    cbn [ok_label] in Hok. unfold quiescent in Hok.
    unfold tstep1, asto, ains, Inv, phinv in *.
    cbn [t_fly t_ph t_ls t_store t_loaded t_cons].
    rewrite Hfly. cbn [app remove_first]. rewrite str_eqb_refl.
    rewrite rev_app_distr. cbn [rev app].
    destruct (t_ph st) eqn:Eph; try discriminate Hok.
    + destruct Hp as (E & [t Hpre] & Hl). rewrite E. repeat split; auto.
      exists t. cbn [app]. now rewrite Hpre.
    + destruct Hp as (E & Hl). rewrite E. repeat split; auto.
      rewrite forallb_forall in Hok. apply Forall_forall. intros c Hin.
      rewrite Forall_forall in Hc. eapply cinv_fin_any; [now apply Hok|now apply Hc].
Qed.

Lemma step_inv st l : Inv st -> ok_label st l = true -> Inv (tstep st l).
Proof.
  intros Hi Hok. destruct l; try (apply step1_inv; [discriminate|assumption|assumption]).
  unfold tstep. apply step1_inv; [discriminate| |reflexivity].
  apply step1_inv; [discriminate|assumption|reflexivity].
Qed.

Lemma sched_inv sched : forall st, Inv st -> ok_sched st sched = true -> Inv (trun st sched).
Proof.
  induction sched as [|l r IH]; intros st Hi Hok; [exact Hi|].
  cbn [ok_sched] in Hok. apply andb_true_iff in Hok as [H1 H2].
  unfold trun. cbn [fold_left]. apply IH; [now apply step_inv|exact H2].
Qed.

Lemma init_inv S0 : Inv (tinit S0).
Proof.
  unfold Inv, tinit, phinv. cbn. repeat split; auto. apply pre_nil.
Qed.

(* Every schedule without an append concurrent with loading: a consumer that
   has finished has yielded exactly the inline sequence (the storage, newest
   first, as it was when it finished); one that has not has yielded a prefix of it. *)
Theorem threaded_no_concurrent_append S0 sched c :
  ok_sched (tinit S0) sched = true ->
  let st := trun (tinit S0) sched in
  In c (t_cons st) ->
  (c_fin c = true -> c_out c = rev (c_snap c)) /\
  (c_fin c = false -> pre (c_out c) (rev (t_store st))) /\
  pre (t_ls st) (rev (t_store st)) /\
  (t_loaded st = true -> t_ls st = rev (t_store st)).
Proof.
  intros Hok st Hin. destruct (sched_inv sched _ (init_inv S0) Hok) as (Hfly & Hp & Hc).
  fold st in Hfly, Hp, Hc. rewrite Forall_forall in Hc. specialize (Hc c Hin). unfold cinv in Hc.
  repeat split.
  - intros E. now rewrite E in Hc.
  - intros E. rewrite E in Hc. tauto.
  - now apply ls_pre.
  - now apply loaded_P4.
Qed.

(* ---- progress: let the loader run, then one read finishes the consumer -- *)
Definition togo (st : tstate) : nat :=
  match t_ph st with
  | P0 => 0 | P1 => length (t_store st) + 3 | P2 => length (t_store st) + 2
  | P3 pend => length pend + 1 | P4 => 0
  end.

Lemma lstep_togo st :
  t_ph st <> P0 -> togo (tstep st LStep) = Nat.pred (togo st) /\ t_ph (tstep st LStep) <> P0.
Proof.
  unfold togo, tstep, tstep1. destruct (t_ph st) as [| | |[|x r]|] eqn:E; intros H; cbn; try rewrite E;
    try rewrite rev_length; split; try congruence; try lia.
Qed.

Lemma lsteps_cons n : forall st, length (t_cons (trun st (repeat LStep n))) = length (t_cons st)
  /\ forall i c, nth_error (t_cons st) i = Some c -> c_fin c = false ->
     exists c', nth_error (t_cons (trun st (repeat LStep n))) i = Some c' /\ c_fin c' = false.
Proof.
  induction n as [|n IH]; intros st.
  - cbn. split; [reflexivity|]. intros i c H1 H2. now exists c.
  - cbn [repeat]. unfold trun. cbn [fold_left]. fold (trun (tstep st LStep) (repeat LStep n)).
    destruct (IH (tstep st LStep)) as [IH1 IH2]. split.
    + rewrite IH1. unfold tstep, tstep1. destruct (t_ph st) as [| | |[|x r]|]; cbn; try rewrite map_length; reflexivity.
    + intros i c H1 H2.
      assert (H : exists c1, nth_error (t_cons (tstep st LStep)) i = Some c1 /\ c_fin c1 = false).
      { unfold tstep, tstep1. destruct (t_ph st) as [| | |[|x r]|]; cbn; try (now exists c);
          rewrite nth_error_map, H1; cbn; exists (set_ev c); unfold set_ev; rewrite H2; auto. }
      destruct H as (c1 & Hc1 & Hf1). now apply (IH2 i c1).
Qed.

Lemma nth_error_upd_nth {T} (l : list T) i f x :
  nth_error l i = Some x -> nth_error (upd_nth l i f) i = Some (f x).
Proof.
  revert i. induction l as [|y l IH]; intros [|i] H; cbn in H; try discriminate.
  - injection H as ->. reflexivity.
  - cbn. now apply IH.
Qed.

(* invariants of EVERY schedule, appends included *)
Definition weak_inv (st : tstate) : Prop :=
  (t_ph st = P4 -> t_loaded st = true) /\ (t_ph st = P0 -> t_cons st = []).

Lemma weak_inv_step1 st l : weak_inv st -> weak_inv (tstep1 st l).
Proof.
  intros [H4 H0]. unfold weak_inv. destruct l as [| |i|s|s|s|]; cbn [tstep1]; unfold asto, ains;
    cbn [t_ph t_loaded t_cons]; auto.
  - destruct (t_ph st) as [| | |[|x r]|] eqn:E; cbn; try rewrite E; split; auto; try congruence.
  - destruct (t_ph st) eqn:E; split; intros; try congruence; auto.
  - split; [exact H4|]. intros E. rewrite (H0 E). reflexivity.
Qed.

Lemma weak_inv_step st l : weak_inv st -> weak_inv (tstep st l).
Proof.
  intros H. destruct l; try (now apply weak_inv_step1).
  unfold tstep. now apply weak_inv_step1, weak_inv_step1.
Qed.

Lemma weak_inv_run sched : forall st, weak_inv st -> weak_inv (trun st sched).
Proof.
  induction sched as [|l r IH]; intros st H; [exact H|].
  unfold trun. cbn [fold_left]. apply IH. now apply weak_inv_step.
Qed.

Lemma loaded_after_drain st :
  t_ph st <> P0 -> (t_ph st = P4 -> t_loaded st = true) ->
  t_loaded (trun st (repeat LStep (togo st))) = true.
Proof.
  remember (togo st) as n eqn:En. revert st En. induction n as [|n IH]; intros st En Hne H4.
  - cbn. unfold togo in En. destruct (t_ph st) eqn:E; try congruence; try lia. now apply H4.
  - cbn [repeat]. unfold trun. cbn [fold_left]. fold (trun (tstep st LStep) (repeat LStep n)).
    destruct (lstep_togo st Hne) as [E Hne']. apply IH; [lia|exact Hne'|].
    unfold tstep, tstep1. destruct (t_ph st) as [| | |[|x r]|] eqn:Eph; cbn; try rewrite Eph; try congruence.
    unfold togo in En. rewrite Eph in En. lia.
Qed.

(* From every reachable state (whatever appends happened): once the loader
   thread has been given its remaining steps, one more read finishes any
   unfinished consumer. *)
Theorem consumer_finishes S0 sched i c :
  let st := trun (tinit S0) sched in
  nth_error (t_cons st) i = Some c -> c_fin c = false ->
  exists c', nth_error (t_cons (trun st (repeat LStep (togo st) ++ [CRead i]))) i = Some c'
             /\ c_fin c' = true.
Proof.
  intros st Hn Hf.
  assert (Hw : weak_inv st) by (apply weak_inv_run; split; cbn; intros; congruence).
  destruct Hw as [H4 H0].
  assert (Hne : t_ph st <> P0).
  { intros E. rewrite (H0 E) in Hn. destruct i; discriminate Hn. }
  unfold trun. rewrite fold_left_app. fold (trun st (repeat LStep (togo st))).
  destruct (lsteps_cons (togo st) st) as [_ H]. destruct (H i c Hn Hf) as (c1 & Hc1 & Hf1).
  cbn [fold_left tstep tstep1 t_cons]. exists (read (trun st (repeat LStep (togo st))) c1).
  split; [now apply nth_error_upd_nth|].
  unfold read. rewrite Hf1. cbn. now apply loaded_after_drain.
Qed.

(* ---- refutations (finding F5) --------------------------------------------- *)
Definition str_dec : forall a b : str, {a = b} + {a <> b} := list_eq_dec Z.eq_dec.

Definition sa : str := [97]. Definition sb : str := [98]. Definition sc : str := [99].
Definition snew : str := [78; 69; 87].

(* consume two items, append, let the loader go on *)
Definition witness_sched : list label :=
  [CStart; LStep; LStep; LStep; LStep; CRead 0; AIns snew; ASto snew; LStep; LStep; CRead 0].

Lemma append_during_load_witness :
  let st := trun (tinit [sa; sb; sc]) witness_sched in
  t_store st = [sa; sb; sc; snew] /\ t_fly st = [] /\ t_loaded st = true /\
  t_ls st = [snew; sc; sb; sa] /\
  exists c, t_cons st = [c] /\ c_fin c = true /\ c_out c = [sc; sb; sb; sa].
Proof. vm_compute. repeat split. eexists. repeat split. Qed.

Theorem append_during_load_refuted :
  ~ (forall S0 sched c,
       let st := trun (tinit S0) sched in
       NoDup (t_store st) -> t_fly st = [] -> In c (t_cons st) -> c_fin c = true ->
       forall s, In s (c_out c) -> count_occ str_dec (c_out c) s = 1%nat).
Proof.
  intros H.
  destruct append_during_load_witness as (Hs & Hf & _ & _ & c & Hc & Hfin & Hout).
  specialize (H [sa; sb; sc] witness_sched c). cbv zeta in H.
  rewrite Hs, Hc, Hout in H.
  assert (Hnd : NoDup [sa; sb; sc; snew]).
  { repeat constructor; cbn; intuition discriminate. }
  specialize (H Hnd Hf (or_introl eq_refl) Hfin sb (or_intror (or_introl eq_refl))).
  vm_compute in H. discriminate H.
Qed.

(* append between the loader's `_loaded_strings = []` and its reading of the
   storage: the entry is in the cache twice for good *)
Definition witness_sched2 : list label :=
  [CStart; LStep; AIns snew; ASto snew; LStep; LStep; LStep; LStep; LStep; CRead 0].

Theorem append_before_snapshot_refuted :
  ~ (forall S0 sched,
       let st := trun (tinit S0) sched in
       NoDup (t_store st) -> t_fly st = [] -> t_loaded st = true ->
       t_ls st = rev (t_store st)).
Proof.
  intros H. specialize (H [sa; sb] witness_sched2). cbv zeta in H.
  assert (E : trun (tinit [sa; sb]) witness_sched2 =
              mkt [sa; sb; snew] [snew; snew; sb; sa] true P4
                  [mkc 4 [snew; snew; sb; sa] true false [sa; sb; snew]] []) by (vm_compute; reflexivity).
  rewrite E in H. cbn [t_store t_fly t_loaded t_ls] in H.
  assert (Hnd : NoDup [sa; sb; snew]) by (repeat constructor; cbn; intuition discriminate).
  specialize (H Hnd eq_refl eq_refl). vm_compute in H. discriminate H.
Qed.
