(* ThreadedHistory LTS (patched code): whatever appends interleave - outside
   the window between the first load()'s cache reset and the loader's reading
   of the storage - every load() yields exactly the entries that were stored
   (or being stored) when it started, newest first, each once; inside that
   window the property is still false. *)
From Coq Require Import ZArith List Bool Lia.
From PTK Require Import Lib.Sx Lib.Py Model.C13_Threaded.
Import ListNotations.
Open Scope Z_scope.

Definition pre (a b : list str) : Prop := exists t, b = a ++ t.

Lemma pre_nil b : pre [] b.
Proof. now exists b. Qed.

Lemma pre_refl b : pre b b.
Proof. exists []. now rewrite app_nil_r. Qed.

Lemma pre_length a b : pre a b -> (length a <= length b)%nat.
Proof. intros [t ->]. rewrite app_length. lia. Qed.

Lemma pre_app_l x a b : pre a b -> pre (x ++ a) (x ++ b).
Proof. intros [t ->]. exists t. now rewrite app_assoc. Qed.

(* two prefixes of one list: appending the rest of the longer to the shorter *)
Lemma pre_join (a l R : list str) :
  pre a R -> pre l R ->
  (length a <= length l)%nat -> a ++ skipn (length a) l = l.
Proof.
  intros [t1 E1] [t2 E2] Hlen.
  assert (Ha : a = firstn (length a) l).
  { assert (H : firstn (length a) R = a) by (rewrite E1, firstn_app, Nat.sub_diag, firstn_all; cbn; apply app_nil_r).
    rewrite E2 in H. rewrite firstn_app in H.
    replace (length a - length l)%nat with 0%nat in H by lia. cbn [firstn] in H.
    rewrite app_nil_r in H. now symmetry. }
  rewrite Ha at 1. apply firstn_skipn.
Qed.

Lemma str_eqb_refl s : str_eqb s s = true.
Proof. induction s as [|x s IH]; [reflexivity|]. cbn [str_eqb]. now rewrite Z.eqb_refl. Qed.

Lemma str_eqb_eq a : forall b, str_eqb a b = true -> a = b.
Proof.
  induction a as [|x a IH]; intros [|y b] H; cbn [str_eqb] in H; try discriminate; [reflexivity|].
  apply andb_true_iff in H as [H1 H2]. apply Z.eqb_eq in H1. subst. f_equal. now apply IH.
Qed.

(* the part of the cache a consumer looks at: ls = rev (A ++ fly) ++ T *)
Definition view_ok (st : tstate) (T : list str) : Prop :=
  exists A, t_store st = t_base st ++ A /\ t_ls st = rev (A ++ t_fly st) ++ T /\
            pre T (rev (t_base st)) /\ (t_loaded st = true -> T = rev (t_base st)).

Definition phinv (st : tstate) : Prop :=
  (length (t_fly st) <= 1)%nat /\
  match t_ph st with
  | P0 => t_cons st = [] /\ t_loaded st = false
  | P2 => t_ls st = [] /\ t_fly st = [] /\ t_loaded st = false
  | P3 pend => exists A T, t_store st = t_base st ++ A /\ t_ls st = rev (A ++ t_fly st) ++ T /\
                           T ++ pend = rev (t_base st) /\ t_loaded st = false
  | P4 => exists A, t_store st = t_base st ++ A /\
                    t_ls st = rev (A ++ t_fly st) ++ rev (t_base st) /\ t_loaded st = true
  end.

Definition cinv (st : tstate) (c : consumer) : Prop :=
  if c_fin c then c_out c = rev (c_start c)
  else match t_ph st with
       | P0 => False
       | P2 => c_out c = [] /\ c_iy c = 0%nat /\ c_start c = t_store st /\ c_p0 c = t_np st
       | _ => exists V0 V1,
                t_store st ++ t_fly st = t_base st ++ V0 ++ V1 /\
                c_start c = t_base st ++ V0 /\
                t_np st = (c_p0 c + length V1)%nat /\
                pre (c_out c) (rev (c_start c)) /\ length (c_out c) = c_iy c
       end.

Definition Inv (st : tstate) : Prop := phinv st /\ Forall (cinv st) (t_cons st).

Lemma view_of_phinv st :
  phinv st -> (match t_ph st with P3 _ | P4 => True | _ => False end) -> exists T, view_ok st T.
Proof.
  intros [_ H] Hp. destruct (t_ph st) as [| |pend|] eqn:E; try contradiction.
  - destruct H as (A & T & H1 & H2 & H3 & H4). exists T, A. repeat split; auto.
    + now exists pend.
    + congruence.
  - destruct H as (A & H1 & H2 & H3). exists (rev (t_base st)), A. repeat split; auto. apply pre_refl.
Qed.

Lemma cinv_set_ev st c : cinv st c -> cinv st (set_ev c).
Proof.
  unfold cinv, set_ev. destruct (c_fin c) eqn:E; [now rewrite E|]. cbn. auto.
Qed.

Lemma skipn_add {T} (a b : nat) : forall l : list T, skipn (a + b) l = skipn b (skipn a l).
Proof.
  induction a as [|a IH]; intros l; [reflexivity|].
  destruct l as [|x l]; cbn [Nat.add skipn]; [now rewrite skipn_nil|apply IH].
Qed.

Lemma skipn_rev_app (V1 rest : list str) : skipn (length V1) (rev V1 ++ rest) = rest.
Proof.
  rewrite skipn_app, rev_length, Nat.sub_diag. rewrite <- (rev_length V1), skipn_all. reflexivity.
Qed.

Lemma cinv_read st c : phinv st -> cinv st c -> cinv st (read st c).
Proof.
  intros Hp Hc. unfold read. destruct (c_fin c) eqn:Ef; [exact Hc|].
  unfold cinv in *. rewrite Ef in Hc. cbn [c_fin c_out c_iy c_start c_p0].
  destruct (t_ph st) as [| |pend|] eqn:Eph.
  - contradiction.
  - destruct Hp as [_ Hp]. rewrite Eph in Hp. destruct Hp as (Hls & Hfly & Hl).
    destruct Hc as (Ho & Hi & Hs & Hn). rewrite Hl, Hls, skipn_nil, Ho, Hi. cbn. auto.
  - (* P3 *)
    destruct (view_of_phinv st Hp) as (T & A & HS & HL & HT & HD); [now rewrite Eph|].
    destruct Hc as (V0 & V1 & E1 & E2 & E3 & Hpre & Hlen).
    assert (EA : A ++ t_fly st = V0 ++ V1).
    { rewrite HS in E1. rewrite <- app_assoc in E1. now apply app_inv_head in E1. }
    assert (Hview : skipn (t_np st - c_p0 c + c_iy c) (t_ls st) = skipn (c_iy c) (rev V0 ++ T)).
    { rewrite skipn_add. f_equal.
      replace (t_np st - c_p0 c)%nat with (length V1) by lia.
      rewrite HL, EA, rev_app_distr, <- app_assoc. apply skipn_rev_app. }
    rewrite Hview.
    assert (Hvpre : pre (rev V0 ++ T) (rev (c_start c))).
    { rewrite E2, rev_app_distr. now apply pre_app_l. }
    destruct (t_loaded st) eqn:El.
    + rewrite (HD eq_refl) in *. rewrite <- Hlen.
      rewrite (pre_join _ _ _ Hpre Hvpre).
      * rewrite E2, rev_app_distr. reflexivity.
      * apply pre_length. rewrite E2, rev_app_distr in Hpre. exact Hpre.
    + exists V0, V1. split; [exact E1|]. split; [exact E2|]. split; [exact E3|].
      destruct (Nat.le_gt_cases (length (c_out c)) (length (rev V0 ++ T))) as [H|H].
      * rewrite <- Hlen. rewrite (pre_join _ _ _ Hpre Hvpre H). split; [exact Hvpre|].
        rewrite skipn_length. lia.
      * rewrite skipn_all2 by lia. rewrite app_nil_r. cbn [length]. split; [exact Hpre|lia].
  - (* P4 *)
    destruct (view_of_phinv st Hp) as (T & A & HS & HL & HT & HD); [now rewrite Eph|].
    destruct Hc as (V0 & V1 & E1 & E2 & E3 & Hpre & Hlen).
    assert (EA : A ++ t_fly st = V0 ++ V1).
    { rewrite HS in E1. rewrite <- app_assoc in E1. now apply app_inv_head in E1. }
    assert (Hview : skipn (t_np st - c_p0 c + c_iy c) (t_ls st) = skipn (c_iy c) (rev V0 ++ T)).
    { rewrite skipn_add. f_equal.
      replace (t_np st - c_p0 c)%nat with (length V1) by lia.
      rewrite HL, EA, rev_app_distr, <- app_assoc. apply skipn_rev_app. }
    rewrite Hview.
    assert (Hvpre : pre (rev V0 ++ T) (rev (c_start c))).
    { rewrite E2, rev_app_distr. now apply pre_app_l. }
    destruct (t_loaded st) eqn:El.
    + rewrite (HD eq_refl) in *. rewrite <- Hlen.
      rewrite (pre_join _ _ _ Hpre Hvpre).
      * rewrite E2, rev_app_distr. reflexivity.
      * apply pre_length. rewrite E2, rev_app_distr in Hpre. exact Hpre.
    + exists V0, V1. split; [exact E1|]. split; [exact E2|]. split; [exact E3|].
      destruct (Nat.le_gt_cases (length (c_out c)) (length (rev V0 ++ T))) as [H|H].
      * rewrite <- Hlen. rewrite (pre_join _ _ _ Hpre Hvpre H). split; [exact Hvpre|].
        rewrite skipn_length. lia.
      * rewrite skipn_all2 by lia. rewrite app_nil_r. cbn [length]. split; [exact Hpre|lia].
Qed.

Lemma Forall_upd_nth {T} (P : T -> Prop) (f : T -> T) l i :
  (forall x, P x -> P (f x)) -> Forall P l -> Forall P (upd_nth l i f).
Proof.
  intros Hf. revert i. induction l as [|x l IH]; intros i H; [constructor|].
  inversion H; subst. destruct i; cbn [upd_nth]; constructor; auto.
Qed.

(* cinv only looks at these parts of the state *)
Lemma cinv_ext st st' c :
  t_ph st' = t_ph st -> t_store st' = t_store st -> t_fly st' = t_fly st ->
  t_base st' = t_base st -> t_np st' = t_np st -> cinv st c -> cinv st' c.
Proof. unfold cinv. intros -> -> -> -> ->. auto. Qed.

Lemma step_inv_prim st l :
  (forall s, l <> Append s) -> Inv st -> ok_label st l = true -> Inv (tstep st l).
Proof.
  intros Hna [Hp Hc] Hok. destruct l as [| |i|s|s|s]; [| | | | |now destruct (Hna s)].
  - (* LStep *)
    pose proof Hp as [Hfl Hph]. unfold Inv, tstep. destruct (t_ph st) as [| |[|x r]|] eqn:Eph.
    + split; [exact Hp|exact Hc].
    + (* snapshot *)
      destruct Hph as (Hls & Hfly & Hl). split.
      * split; [exact Hfl|]. cbn. exists [], []. rewrite Hfly, Hls. cbn. rewrite app_nil_r. auto.
      * eapply Forall_impl; [|exact Hc]. intros c Hci. unfold cinv in *. cbn [t_ph t_store t_fly t_base t_np].
        rewrite Eph in Hci. destruct (c_fin c); [exact Hci|].
        destruct Hci as (Ho & Hi & Hs & Hn). exists [], []. rewrite Hfly, Ho, Hi, Hs, Hn. cbn.
        rewrite !app_nil_r. repeat split; auto. apply pre_nil.
    + destruct Hph as (A & T & H1 & H2 & H3 & H4). rewrite app_nil_r in H3. split.
      * split; [exact Hfl|]. cbn. exists A. subst T. auto.
      * apply Forall_map. eapply Forall_impl; [|exact Hc]. intros c Hci. apply cinv_set_ev.
        unfold cinv in *. cbn [t_ph t_store t_fly t_base t_np]. rewrite Eph in Hci. exact Hci.
    + destruct Hph as (A & T & H1 & H2 & H3 & H4). split.
      * split; [exact Hfl|]. cbn. exists A, (T ++ [x]). rewrite H2, <- !app_assoc. auto.
      * apply Forall_map. eapply Forall_impl; [|exact Hc]. intros c Hci. apply cinv_set_ev.
        unfold cinv in *. cbn [t_ph t_store t_fly t_base t_np]. rewrite Eph in Hci. exact Hci.
    + split; [exact Hp|exact Hc].
  - (* CStart *)
    pose proof Hp as [Hfl Hph]. cbn [ok_label] in Hok. unfold Inv, tstep.
    destruct (t_ph st) as [| |pend|] eqn:Eph.
    + cbn in Hok. unfold fly_nil in Hok. destruct (t_fly st) eqn:Ef; [|discriminate].
      destruct Hph as (Hcons & Hl). split.
      * split; [cbn; lia|]. cbn. auto.
      * rewrite Hcons. cbn [app]. constructor; [|constructor].
        unfold cinv, new_cons. cbn. rewrite ?Ef, ?app_nil_r. auto.
    + destruct Hph as (Hls & Hfly & Hl). split.
      * split; [exact Hfl|]. cbn. auto.
      * apply Forall_app. split.
        -- eapply Forall_impl; [|exact Hc]. intros c. apply cinv_ext; cbn; auto.
        -- constructor; [|constructor]. unfold cinv, new_cons. cbn. rewrite Hfly, app_nil_r. auto.
    + split.
      * split; [exact Hfl|]. cbn. exact Hph.
      * apply Forall_app. split.
        -- eapply Forall_impl; [|exact Hc]. intros c. apply cinv_ext; cbn; auto.
        -- constructor; [|constructor]. destruct Hph as (A & T & H1 & H2 & H3 & H4).
           unfold cinv, new_cons. cbn. exists (A ++ t_fly st), [].
           rewrite H1, app_nil_r, <- !app_assoc. cbn. repeat split; auto. apply pre_nil.
    + split.
      * split; [exact Hfl|]. cbn. exact Hph.
      * apply Forall_app. split.
        -- eapply Forall_impl; [|exact Hc]. intros c. apply cinv_ext; cbn; auto.
        -- constructor; [|constructor]. destruct Hph as (A & H1 & H2 & H3).
           unfold cinv, new_cons. cbn. exists (A ++ t_fly st), [].
           rewrite H1, app_nil_r, <- !app_assoc. cbn. repeat split; auto. apply pre_nil.
  - (* CRead *)
    unfold Inv, tstep. split.
    + destruct Hp as [Hfl Hph]. split; [exact Hfl|]. cbn. destruct (t_ph st); try exact Hph.
      destruct Hph as (E & Hl). rewrite E. cbn. auto.
    + cbn [t_cons]. apply Forall_upd_nth.
      * intros c Hci. eapply cinv_ext; [..|apply (cinv_read st c Hp Hci)]; reflexivity.
      * exact Hc.
  - (* AIns *)
    cbn [ok_label] in Hok. apply andb_true_iff in Hok as [Hf Hn2]. unfold fly_nil in Hf.
    destruct (t_fly st) eqn:Ef; [|discriminate]. destruct Hp as [Hfl Hph].
    unfold Inv, tstep, ains. rewrite Ef. cbn [app]. split.
    + split; [cbn; lia|]. cbn [t_ph t_ls t_fly t_loaded t_cons t_store t_base].
      destruct (t_ph st) as [| |pend|]; try discriminate Hn2.
      * exact Hph.
      * destruct Hph as (A & T & H1 & H2 & H3 & H4). exists A, T. rewrite Ef, app_nil_r in H2.
        rewrite rev_app_distr. cbn. rewrite H2. auto.
      * destruct Hph as (A & H1 & H2 & H3). exists A. rewrite Ef, app_nil_r in H2.
        rewrite rev_app_distr. cbn. rewrite H2. auto.
    + eapply Forall_impl; [|exact Hc]. intros c Hci. unfold cinv in *.
      cbn [t_ph t_store t_fly t_base t_np]. destruct (c_fin c); [exact Hci|].
      destruct (t_ph st) as [| |pend|]; try discriminate Hn2; try exact Hci.
      * destruct Hci as (V0 & V1 & E1 & E2 & E3 & E4 & E5). exists V0, (V1 ++ [s]).
        rewrite Ef, app_nil_r in E1. rewrite E1, app_length, <- !app_assoc. cbn. repeat split; auto. lia.
      * destruct Hci as (V0 & V1 & E1 & E2 & E3 & E4 & E5). exists V0, (V1 ++ [s]).
        rewrite Ef, app_nil_r in E1. rewrite E1, app_length, <- !app_assoc. cbn. repeat split; auto. lia.
  - (* ASto *)
    cbn [ok_label] in Hok. apply andb_true_iff in Hok as [Hf Hn2].
    destruct (t_fly st) as [|x [|y r]] eqn:Ef; try discriminate Hf.
    apply str_eqb_eq in Hf. subst x. destruct Hp as [Hfl Hph].
    unfold Inv, tstep, asto. rewrite Ef. cbn [remove_first]. rewrite str_eqb_refl. split.
    + split; [cbn; lia|]. cbn [t_ph t_ls t_fly t_loaded t_cons t_store t_base].
      destruct (t_ph st) as [| |pend|]; try discriminate Hn2.
      * exact Hph.
      * destruct Hph as (A & T & H1 & H2 & H3 & H4). exists (A ++ [s]), T. rewrite Ef in H2.
        rewrite H1, app_nil_r, <- app_assoc. auto.
      * destruct Hph as (A & H1 & H2 & H3). exists (A ++ [s]). rewrite Ef in H2.
        rewrite H1, app_nil_r, <- app_assoc. auto.
    + eapply Forall_impl; [|exact Hc]. intros c Hci. unfold cinv in *.
      cbn [t_ph t_store t_fly t_base t_np]. destruct (c_fin c); [exact Hci|].
      destruct (t_ph st) as [| |pend|]; try discriminate Hn2; try exact Hci.
      * rewrite Ef in Hci. rewrite app_nil_r. exact Hci.
      * rewrite Ef in Hci. rewrite app_nil_r. exact Hci.
Qed.

Lemma step_inv st l : Inv st -> ok_label st l = true -> Inv (tstep st l).
Proof.
  intros Hi Hok. destruct l as [| |i|s|s|s]; try (apply step_inv_prim; [intros; discriminate|assumption|assumption]).
  (* Append = AIns; ASto *)
  cbn [ok_label] in Hok. pose proof Hok as Hok'. apply andb_true_iff in Hok' as [Hf Hn2].
  unfold fly_nil in Hf. destruct (t_fly st) eqn:Ef; [|discriminate].
  change (tstep st (Append s)) with (tstep (tstep st (AIns s)) (ASto s)).
  apply step_inv_prim; [intros; discriminate| |].
  - apply step_inv_prim; [intros; discriminate|exact Hi|exact Hok].
  - cbn [ok_label tstep]. unfold ains. cbn [t_fly t_ph]. rewrite Ef. cbn [app].
    now rewrite str_eqb_refl, Hn2.
Qed.

Lemma sched_inv sched : forall st, Inv st -> ok_sched st sched = true -> Inv (trun st sched).
Proof.
  induction sched as [|l r IH]; intros st Hi Hok; [exact Hi|].
  cbn [ok_sched] in Hok. apply andb_true_iff in Hok as [H1 H2].
  unfold trun. cbn [fold_left]. apply IH; [now apply step_inv|exact H2].
Qed.

Lemma init_inv S0 : Inv (tinit S0).
Proof. unfold Inv, tinit, phinv. cbn. repeat split; auto. Qed.

(* Every schedule the repair covers - appends at ANY other moment, also while
   the loader pushes and while consumers are half way: a load() that has
   finished has yielded exactly the entries stored or being stored when it
   started, newest first (hence each exactly once when they are distinct); one
   that has not has yielded a prefix; once loading is complete the cache is the
   storage (plus the string being stored), newest first. *)
Theorem threaded_exactly_once S0 sched c :
  ok_sched (tinit S0) sched = true ->
  let st := trun (tinit S0) sched in
  In c (t_cons st) ->
  (c_fin c = true -> c_out c = rev (c_start c)) /\
  (c_fin c = false -> pre (c_out c) (rev (c_start c))) /\
  (t_loaded st = true -> t_ls st = rev (t_store st ++ t_fly st)).
Proof.
  intros Hok st Hin. destruct (sched_inv sched _ (init_inv S0) Hok) as [Hp Hc].
  fold st in Hp, Hc. rewrite Forall_forall in Hc. specialize (Hc c Hin). unfold cinv in Hc.
  repeat split.
  - intros E. now rewrite E in Hc.
  - intros E. rewrite E in Hc. destruct (t_ph st) as [| |pend|].
    + contradiction.
    + destruct Hc as (-> & _). apply pre_nil.
    + destruct Hc as (V0 & V1 & _ & _ & _ & H & _). exact H.
    + destruct Hc as (V0 & V1 & _ & _ & _ & H & _). exact H.
  - intros El. destruct Hp as [_ Hp]. destruct (t_ph st) as [| |pend|].
    + destruct Hp as (_ & H). congruence.
    + destruct Hp as (_ & _ & H). congruence.
    + destruct Hp as (A & T & _ & _ & _ & H). congruence.
    + destruct Hp as (A & H1 & H2 & _). rewrite H2, H1, <- app_assoc.
      rewrite (rev_app_distr (t_base st)). reflexivity.
Qed.

Corollary threaded_no_duplicates S0 sched c :
  ok_sched (tinit S0) sched = true ->
  In c (t_cons (trun (tinit S0) sched)) -> c_fin c = true ->
  NoDup (c_start c) -> NoDup (c_out c).
Proof.
  intros Hok Hin Hf Hnd. destruct (threaded_exactly_once S0 sched c Hok Hin) as (H & _).
  rewrite (H Hf). now apply NoDup_rev.
Qed.

(* ---- progress: let the loader run, then one read finishes the consumer -- *)
Definition togo (st : tstate) : nat :=
  match t_ph st with
  | P0 => 0 | P2 => length (t_store st) + 2
  | P3 pend => length pend + 1 | P4 => 0
  end.

Lemma lstep_togo st :
  t_ph st <> P0 -> togo (tstep st LStep) = Nat.pred (togo st) /\ t_ph (tstep st LStep) <> P0.
Proof.
  unfold togo, tstep. destruct (t_ph st) as [| |[|x r]|] eqn:E; intros H; cbn; try rewrite E;
    try rewrite rev_length; split; try congruence; try lia.
Qed.

Lemma lsteps_cons n : forall st, length (t_cons (trun st (repeat LStep n))) = length (t_cons st)
  /\ forall i c, nth_error (t_cons st) i = Some c -> c_fin c = false ->
     exists c', nth_error (t_cons (trun st (repeat LStep n))) i = Some c' /\ c_fin c' = false.
Proof.
  induction n as [|n IH]; intros st.
  - cbn. split; [reflexivity|]. intros i c H1 H2. now exists c.
  - cbn [repeat]. unfold trun. cbn [fold_left]. fold (trun (tstep st LStep) (repeat LStep n)).
    destruct (IH (tstep st LStep)) as [IH1 IH2]. split.
    + rewrite IH1. unfold tstep. destruct (t_ph st) as [| |[|x r]|]; cbn; try rewrite map_length; reflexivity.
    + intros i c H1 H2.
      assert (H : exists c1, nth_error (t_cons (tstep st LStep)) i = Some c1 /\ c_fin c1 = false).
      { unfold tstep. destruct (t_ph st) as [| |[|x r]|]; cbn; try (now exists c);
          rewrite nth_error_map, H1; cbn; exists (set_ev c); unfold set_ev; rewrite H2; auto. }
      destruct H as (c1 & Hc1 & Hf1). now apply (IH2 i c1).
Qed.

Lemma nth_error_upd_nth {T} (l : list T) i f x :
  nth_error l i = Some x -> nth_error (upd_nth l i f) i = Some (f x).
Proof.
  revert i. induction l as [|y l IH]; intros [|i] H; cbn in H; try discriminate.
  - injection H as ->. reflexivity.
  - cbn. now apply IH.
Qed.

(* invariants of EVERY schedule, whatever the appends *)
Definition weak_inv (st : tstate) : Prop :=
  (t_ph st = P4 -> t_loaded st = true) /\ (t_ph st = P0 -> t_cons st = []).

Lemma weak_inv_step st l : weak_inv st -> weak_inv (tstep st l).
Proof.
  intros [H4 H0]. unfold weak_inv. destruct l as [| |i|s|s|s]; cbn [tstep]; unfold asto, ains;
    cbn [t_ph t_loaded t_cons]; auto.
  - destruct (t_ph st) as [| |[|x r]|] eqn:E; cbn; try rewrite E; split; auto; try congruence.
  - destruct (t_ph st) eqn:E; cbn; split; intros; try congruence; auto.
  - split; [exact H4|]. intros E. rewrite (H0 E). reflexivity.
Qed.

Lemma weak_inv_run sched : forall st, weak_inv st -> weak_inv (trun st sched).
Proof.
  induction sched as [|l r IH]; intros st H; [exact H|].
  unfold trun. cbn [fold_left]. apply IH. now apply weak_inv_step.
Qed.

Lemma loaded_after_drain st :
  t_ph st <> P0 -> (t_ph st = P4 -> t_loaded st = true) ->
  t_loaded (trun st (repeat LStep (togo st))) = true.
Proof.
  remember (togo st) as n eqn:En. revert st En. induction n as [|n IH]; intros st En Hne H4.
  - cbn. unfold togo in En. destruct (t_ph st) eqn:E; try congruence; try lia. now apply H4.
  - cbn [repeat]. unfold trun. cbn [fold_left]. fold (trun (tstep st LStep) (repeat LStep n)).
    destruct (lstep_togo st Hne) as [E Hne']. apply IH; [lia|exact Hne'|].
    unfold tstep. destruct (t_ph st) as [| |[|x r]|] eqn:Eph; cbn; try rewrite Eph; try congruence.
    unfold togo in En. rewrite Eph in En. lia.
Qed.

(* From every reachable state (whatever appends happened): once the loader
   thread has been given its remaining steps, one more read finishes any
   unfinished consumer. *)
Theorem consumer_finishes S0 sched i c :
  let st := trun (tinit S0) sched in
  nth_error (t_cons st) i = Some c -> c_fin c = false ->
  exists c', nth_error (t_cons (trun st (repeat LStep (togo st) ++ [CRead i]))) i = Some c'
             /\ c_fin c' = true.
Proof.
  intros st Hn Hf.
  assert (Hw : weak_inv st) by (apply weak_inv_run; split; cbn; intros; congruence).
  destruct Hw as [H4 H0].
  assert (Hne : t_ph st <> P0).
  { intros E. rewrite (H0 E) in Hn. destruct i; discriminate Hn. }
  unfold trun. rewrite fold_left_app. fold (trun st (repeat LStep (togo st))).
  destruct (lsteps_cons (togo st) st) as [_ H]. destruct (H i c Hn Hf) as (c1 & Hc1 & Hf1).
  cbn [fold_left tstep t_cons]. exists (read (trun st (repeat LStep (togo st))) c1).
  split; [now apply nth_error_upd_nth|].
  unfold read. rewrite Hf1. cbn. now apply loaded_after_drain.
Qed.

(* ---- what the repair does not cover (findings C13-F2, C13-F2b) ------------ *)
Definition str_dec : forall a b : str, {a = b} + {a <> b} := list_eq_dec Z.eq_dec.

Definition sa : str := [97]. Definition sb : str := [98]. Definition sc : str := [99].
Definition snew : str := [78; 69; 87].

(* the schedule that used to yield c,b,b,a is in the covered set now *)
Definition old_witness_sched : list label :=
  [CStart; LStep; LStep; LStep; CRead 0; AIns snew; ASto snew; LStep; LStep; CRead 0].

Lemma old_witness_now_fine :
  ok_sched (tinit [sa; sb; sc]) old_witness_sched = true /\
  let st := trun (tinit [sa; sb; sc]) old_witness_sched in
  t_ls st = [snew; sc; sb; sa] /\ map c_out (t_cons st) = [[sc; sb; sa]].
Proof. vm_compute. auto. Qed.

(* append_string between the first load()'s cache reset and the loader's
   reading of the storage, then a second load(): it yields NEW twice *)
Definition window_sched : list label :=
  [CStart; AIns snew; ASto snew; CStart; LStep; LStep; LStep; LStep; LStep; CRead 1].

Theorem append_in_window_refuted :
  ~ (forall S0 sched c,
       let st := trun (tinit S0) sched in
       NoDup (t_store st) -> t_fly st = [] -> In c (t_cons st) -> c_fin c = true ->
       forall s, In s (c_out c) -> count_occ str_dec (c_out c) s = 1%nat).
Proof.
  intros H.
  assert (E : trun (tinit [sa; sb]) window_sched =
              mkt [sa; sb; snew] [snew; snew; sb; sa] true 1 P4
                  [mkc 0 0 [] false true [sa; sb]; mkc 4 1 [snew; snew; sb; sa] true false [sa; sb; snew]]
                  [] [sa; sb; snew]) by (vm_compute; reflexivity).
  specialize (H [sa; sb] window_sched (mkc 4 1 [snew; snew; sb; sa] true false [sa; sb; snew])).
  cbv zeta in H. rewrite E in H. cbn [t_store t_fly t_cons c_fin c_out] in H.
  assert (Hnd : NoDup [sa; sb; snew]) by (repeat constructor; cbn; intuition discriminate).
  specialize (H Hnd eq_refl (or_intror (or_introl eq_refl)) eq_refl snew (or_introl eq_refl)).
  vm_compute in H. discriminate H.
Qed.

(* ... and the cache keeps the entry twice *)
Theorem cache_in_window_refuted :
  ~ (forall S0 sched,
       let st := trun (tinit S0) sched in
       NoDup (t_store st) -> t_fly st = [] -> t_loaded st = true ->
       t_ls st = rev (t_store st)).
Proof.
  intros H. specialize (H [sa; sb] window_sched). cbv zeta in H.
  assert (E : trun (tinit [sa; sb]) window_sched =
              mkt [sa; sb; snew] [snew; snew; sb; sa] true 1 P4
                  [mkc 0 0 [] false true [sa; sb]; mkc 4 1 [snew; snew; sb; sa] true false [sa; sb; snew]]
                  [] [sa; sb; snew]) by (vm_compute; reflexivity).
  rewrite E in H. cbn [t_store t_fly t_loaded t_ls] in H.
  assert (Hnd : NoDup [sa; sb; snew]) by (repeat constructor; cbn; intuition discriminate).
  specialize (H Hnd eq_refl eq_refl). vm_compute in H. discriminate H.
Qed.
