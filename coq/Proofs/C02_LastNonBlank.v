(* C02 - last_non_blank_of_current_line_position lands on THE last non-blank
   character of the current line; get_word_before_cursor is the text from the
   start of the previous word to the cursor. *)
From Coq Require Import ZArith List Bool Lia.
From PTK Require Import Lib.Sx Lib.Py Gen.Whitespace Model.Document Model.C02_DocQueries
  Proofs.C02_Base Proofs.C02_Coords Proofs.C02_Lines Proofs.C02_Words.
Import ListNotations.
Open Scope Z_scope.

Lemma lstrip_by_spec p s :
  exists a, s = a ++ lstrip_by p s /\ forallb p a = true /\
            match lstrip_by p s with [] => True | x :: _ => p x = false end.
Proof.
  induction s as [|x s IH]; cbn [lstrip_by].
  - exists []. repeat split.
  - destruct (p x) eqn:E.
    + destruct IH as (a & Ha & Hf & Hh). exists (x :: a). cbn [app forallb]. rewrite E, Hf.
      split; [now rewrite <- Ha|]. split; [reflexivity|exact Hh].
    + exists []. cbn [app forallb]. repeat split. exact E.
Qed.

Lemma forallb_rev {T} (p : T -> bool) l : forallb p (rev l) = forallb p l.
Proof.
  induction l as [|x l IH]; [reflexivity|]. cbn [rev forallb].
  rewrite forallb_app, IH. cbn [forallb]. rewrite andb_true_r. apply andb_comm.
Qed.

(* s = (stripped part, ending in a non-p character unless empty) ++ (all-p tail) *)
Lemma rstrip_by_spec p s :
  exists b, s = rstrip_by p s ++ b /\ forallb p b = true /\
            (rstrip_by p s = [] \/ exists r' x, rstrip_by p s = r' ++ [x] /\ p x = false).
Proof.
  unfold rstrip_by. destruct (lstrip_by_spec p (rev s)) as (a & Ha & Hf & Hh).
  exists (rev a). split.
  - rewrite <- rev_app_distr, <- Ha. now rewrite rev_involutive.
  - split; [now rewrite forallb_rev|].
    destruct (lstrip_by p (rev s)) as [|x l]; [now left|]. right.
    exists (rev l), x. split; [reflexivity|exact Hh].
Qed.

(* On a line with a non-blank character: column L = col + offset of the
   current line holds a non-blank character and everything after it on the
   line is blank. *)
Theorem last_non_blank_lands d :
  valid d -> rstrip_by is_space (current_line d) <> [] ->
  let L := cursor_position_col d + last_non_blank_of_current_line_position d in
  0 <= L < len (current_line d) /\
  (exists x, nth_error (current_line d) (Z.to_nat L) = Some x /\ is_space x = false) /\
  forallb is_space (skipn (Z.to_nat (L + 1)) (current_line d)) = true.
Proof.
  intros Hv Hne. cbv zeta. unfold last_non_blank_of_current_line_position.
  destruct (rstrip_by_spec is_space (current_line d)) as (b & Hs & Hb & Hr).
  destruct Hr as [Hnil|(r' & x & Hr & Hx)]; [congruence|].
  set (rs := rstrip_by is_space (current_line d)) in *.
  assert (Hlen : len rs = len r' + 1).
  { rewrite Hr, len_app. reflexivity. }
  pose proof (len_nonneg r') as Hr0. pose proof (len_nonneg b) as Hb0.
  assert (Hcl : len (current_line d) = len r' + 1 + len b).
  { rewrite Hs at 1. rewrite len_app. lia. }
  replace (cursor_position_col d + (Z.max 0 (len rs - 1) - cursor_position_col d)) with (len r') by lia.
  split; [lia|]. split.
  - exists x. split; [|exact Hx]. rewrite Hs, Hr, <- app_assoc. rewrite Z2N_len.
    rewrite nth_error_app2 by lia. rewrite Nat.sub_diag. reflexivity.
  - rewrite Hs, Hr, <- app_assoc. replace (Z.to_nat (len r' + 1)) with (length r' + 1)%nat
      by (unfold len; lia).
    rewrite skipn_app. rewrite skipn_all2 by lia. cbn [app].
    replace (length r' + 1 - length r')%nat with 1%nat by lia. cbn [app skipn]. exact Hb.
Qed.

(* get_word_before_cursor: empty, or exactly the characters between the start
   of the previous word (find_start_of_previous_word, count 1) and the cursor *)
Theorem word_before_cursor_spec d WORD :
  valid d ->
  get_word_before_cursor d WORD = [] \/
  exists r, find_start_of_previous_word d 1 WORD = Some r /\ r < 0 /\ 0 <= dcur d + r /\
    get_word_before_cursor d WORD =
    firstn (Z.to_nat (- r)) (skipn (Z.to_nat (dcur d + r)) (dtext d)).
Proof.
  intros Hv. unfold get_word_before_cursor. cbv zeta.
  destruct ((len (text_before_cursor d) =? 0) || forallb is_space (slice_from (text_before_cursor d) (-1)));
    [now left|].
  destruct (find_start_of_previous_word d 1 WORD) as [r|] eqn:E.
  - right. exists r.
    pose proof (C02w_start_of_previous_word_in_bounds d 1 WORD r Hv E) as Hb.
    pose proof (C02w_start_of_previous_word_backward d 1 WORD r Hv ltac:(lia) E) as Hneg.
    split; [reflexivity|]. split; [exact Hneg|]. split; [lia|].
    rewrite (len_tb d Hv).
    rewrite slice_from_in_range by (rewrite ?(len_tb d Hv); lia).
    rewrite (tb_firstn d Hv).
    destruct Hv as [Hv0 Hv1].
    rewrite skipn_firstn_comm. f_equal. lia.
  - left. rewrite Z.add_0_r. rewrite slice_from_in_range by (pose proof (len_nonneg (text_before_cursor d)); lia).
    rewrite Z2N_len. apply skipn_all.
Qed.

(* get_start_of_line_position(after_whitespace=True): column w = len(line) -
   len(line.lstrip()) of the current line: the first w characters are blank, the
   character at w (if any) is not *)
Theorem start_of_line_after_whitespace_lands d :
  let w := cursor_position_col d + get_start_of_line_position d true in
  0 <= w <= len (current_line d) /\
  forallb is_space (firstn (Z.to_nat w) (current_line d)) = true /\
  (forall x, nth_error (current_line d) (Z.to_nat w) = Some x -> is_space x = false) /\
  leading_whitespace_in_current_line d = firstn (Z.to_nat w) (current_line d).
Proof.
  cbv zeta. unfold get_start_of_line_position, leading_whitespace_in_current_line. cbv zeta.
  destruct (lstrip_by_spec is_space (current_line d)) as (a & Ha & Hf & Hh).
  set (cl := current_line d) in *. set (ls := lstrip_by is_space cl) in *.
  assert (Hlen : len cl = len a + len ls) by (rewrite Ha at 1; apply len_app).
  pose proof (len_nonneg a) as Ha0. pose proof (len_nonneg ls) as Hl0.
  replace (cursor_position_col d + (len cl - len ls - cursor_position_col d)) with (len a) by lia.
  replace (len cl - len ls) with (len a) by lia.
  rewrite Z2N_len.
  assert (Hfa : firstn (length a) cl = a).
  { rewrite Ha. rewrite firstn_app, Nat.sub_diag, firstn_all. cbn [firstn]. apply app_nil_r. }
  split; [lia|]. split; [now rewrite Hfa|]. split.
  - intros x Hx. rewrite Ha in Hx. rewrite nth_error_app2 in Hx by lia. rewrite Nat.sub_diag in Hx.
    destruct ls as [|y l]; [discriminate|]. cbn [nth_error] in Hx. injection Hx as <-. exact Hh.
  - rewrite slice_to_in_range by lia. now rewrite Z2N_len.
Qed.
