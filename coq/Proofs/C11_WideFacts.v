(* C11 - the wide-character sub-domain (every displayed character occupies at
   least one cell: dw c >= 1; double-width CJK characters, no zero-width marks).
   SAFETY for every scroll state and both modes: whatever (row, col) is
   registered in rowcol_to_yx lies inside the window body and its cell shows
   that character - the generalisation of C11_registered_is_right from dw = 1
   to dw >= 1.  (With a zero-width character the statement is false: the merge
   loop of copy_line rewrites the cell BEFORE the write head.) *)
From Coq Require Import ZArith List Bool Lia.
From PTK Require Import Lib.Sx Lib.Py Model.C11_Scroll Model.C11_CopyBody Proofs.C11_CopyFacts.
Import ListNotations.
Open Scope Z_scope.

Lemma strw_nonneg : forall w s, (forall c, 0 <= w c) -> 0 <= strw w s.
Proof. intros w s H. induction s as [|c r IH]; cbn [strw]; [lia|]. pose proof (H c). lia. Qed.

Lemma strw_app : forall w a b, strw w (a ++ b) = strw w a + strw w b.
Proof. intros w a b. induction a as [|c r IH]; cbn [app strw]; [reflexivity | rewrite IH; lia]. Qed.

(* the blanks after a wide character are written to the right of its cell *)
Lemma empties_get_left {T} : forall (dummy : T) y x n (s : screen) pos,
  (fst pos <> y \/ snd pos <= x) -> alist_get (empties y x n s) pos = alist_get s pos.
Proof.
  intros _ y x n. induction n as [|k IH]; intros s pos Hp; cbn [empties]; [reflexivity|].
  cbn [alist_get]. destruct (pos_eqb (y, x + Z.of_nat (S k)) pos) eqn:E.
  - apply pos_eqb_eq in E. subst pos. cbn [fst snd] in Hp. lia.
  - now apply IH.
Qed.

Section Wide.
  Variables (sw dw : Z -> Z) (disp : Z -> str).
  Variables (wrap haspfx : bool) (pfx : Z -> Z -> str).
  Variables (width height xpos ypos : Z).
  Variable K : Z * Z -> Z -> Prop.

  Hypothesis Hdw : forall c, 1 <= dw c.

  Local Notation put' := (put sw dw disp width xpos ypos).
  Local Notation copy_plain' := (copy_plain sw dw disp wrap width height xpos ypos).
  Local Notation copy_input' := (copy_input sw dw disp wrap haspfx pfx width height xpos ypos).
  Local Notation copy_line' := (copy_line sw dw disp wrap haspfx pfx width height xpos ypos).
  Local Notation copy_lines' := (copy_lines sw dw disp wrap haspfx pfx width height xpos ypos).
  Local Notation head := (head xpos ypos).
  Local Notation frame := (frame xpos ypos).
  Local Notation adv := (adv xpos ypos).
  Local Notation inwin := (inwin width height xpos ypos).
  Local Notation Inv := (Inv disp width height xpos ypos K).

  Lemma put_wide : forall isin l kc c s,
    put' isin l kc c s =
    if (0 <=? cx s) && (0 <=? cy s) && (cx s <? width) then
      mkcst (cx s + dw c) (cy s)
            (if 1 <? dw c
             then empties (cy s + ypos) (cx s + xpos) (Z.to_nat (dw c - 1))
                          (((cy s + ypos, cx s + xpos), mkcell (disp c) (dw c)) :: cscr s)
             else ((cy s + ypos, cx s + xpos), mkcell (disp c) (dw c)) :: cscr s)
            (if isin then ((l, kc), (cy s + ypos, cx s + xpos)) :: cr2 s else cr2 s) (cvl s)
    else mkcst (cx s + dw c) (cy s) (cscr s) (cr2 s) (cvl s).
  Proof.
    intros. unfold put. pose proof (Hdw c) as H. destruct (_ && _); [|reflexivity].
    destruct (1 <? dw c) eqn:E1; [reflexivity|].
    destruct (dw c =? 0) eqn:E0; [lia | reflexivity].
  Qed.

  Lemma wput_cx : forall isin l kc c s, cx (put' isin l kc c s) = cx s + dw c.
  Proof. intros. rewrite put_wide. destruct (_ && _); reflexivity. Qed.
  Lemma wput_cy : forall isin l kc c s, cy (put' isin l kc c s) = cy s.
  Proof. intros. rewrite put_wide. destruct (_ && _); reflexivity. Qed.
  Lemma wput_cvl : forall isin l kc c s, cvl (put' isin l kc c s) = cvl s.
  Proof. intros. rewrite put_wide. destruct (_ && _); reflexivity. Qed.

  (* the cells written by one put: nothing before the write head changes *)
  Lemma put_scr_before : forall isin l kc c s pos, lexlt pos (head s) ->
    alist_get (cscr (put' isin l kc c s)) pos = alist_get (cscr s) pos.
  Proof.
    intros isin l kc c s pos Hp. rewrite put_wide. destruct (_ && _); cbn [cscr]; [|reflexivity].
    unfold C11_CopyFacts.head in Hp. unfold lexlt in Hp. cbn [fst snd] in Hp.
    destruct (1 <? dw c).
    - rewrite (empties_get_left 0) by (destruct pos; cbn [fst snd] in *; lia).
      cbn [alist_get]. rewrite pos_eqb_lexlt; [reflexivity | unfold lexlt; cbn [fst snd]; lia].
    - cbn [alist_get]. rewrite pos_eqb_lexlt; [reflexivity | unfold lexlt; cbn [fst snd]; lia].
  Qed.

  Lemma wput_false_adv : forall l kc c s, adv s (put' false l kc c s).
  Proof.
    intros. split; [|split].
    - unfold C11_CopyFacts.head. rewrite wput_cx, wput_cy. pose proof (Hdw c).
      left. unfold lexlt. cbn [fst snd]. lia.
    - intros pos Hp. now apply put_scr_before.
    - rewrite put_wide. destruct (_ && _); reflexivity.
  Qed.

  Lemma wcopy_plain_adv : forall cs l s, adv s (copy_plain' cs l s).
  Proof.
    induction cs as [|c r IH]; intros l s; cbn [copy_plain]; [apply adv_refl|].
    destruct (wrap && _).
    - destruct (height <=? _).
      + apply wrap_row_adv.
      + eapply adv_trans; [apply wrap_row_adv|]. eapply adv_trans; [apply wput_false_adv|]. apply IH.
    - eapply adv_trans; [apply wput_false_adv|]. apply IH.
  Qed.

  Lemma wInv_put : forall l kc c s,
    Inv s -> cy s < height -> K (l, kc) c -> Inv (put' true l kc c s).
  Proof.
    intros l kc c s HI Hy Hk. pose proof (Hdw c) as Hc1.
    intros key pos Hget.
    assert (Hhead : C11_CopyFacts.head xpos ypos (put' true l kc c s) = (cy s + ypos, cx s + dw c + xpos)).
    { unfold C11_CopyFacts.head. now rewrite wput_cx, wput_cy. }
    rewrite Hhead.
    destruct ((0 <=? cx s) && (0 <=? cy s) && (cx s <? width)) eqn:E.
    - assert (Hr2 : cr2 (put' true l kc c s) = ((l, kc), (cy s + ypos, cx s + xpos)) :: cr2 s).
      { rewrite put_wide, E. reflexivity. }
      rewrite Hr2 in Hget. cbn [alist_get] in Hget.
      apply andb_true_iff in E. destruct E as [E E3]. apply andb_true_iff in E. destruct E as [E1 E2].
      destruct (pos_eqb (l, kc) key) eqn:Ek.
      + apply pos_eqb_eq in Ek. subst key. inversion Hget; subst pos; clear Hget.
        split; [unfold C11_CopyFacts.inwin; cbn [fst snd]; lia|].
        split; [right; cbn [fst snd]; lia|].
        exists c. split; [exact Hk|]. unfold scr_get. cbn [fst snd].
        rewrite put_wide. rewrite E1, E2, E3. cbn [andb cscr].
        destruct (1 <? dw c).
        * rewrite (empties_get_left 0) by (cbn [fst snd]; lia). cbn [alist_get]. now rewrite pos_eqb_refl.
        * cbn [alist_get]. now rewrite pos_eqb_refl.
      + destruct (HI key pos Hget) as (Hw & Hlt & c' & Hk' & Hc').
        split; [exact Hw|].
        split; [unfold C11_CopyFacts.head, lexlt in *; cbn [fst snd] in *; lia|].
        exists c'. split; [exact Hk'|]. unfold scr_get in *. destruct pos as [py px]. cbn [fst snd] in *.
        rewrite put_scr_before by exact Hlt. exact Hc'.
    - assert (Hr2 : cr2 (put' true l kc c s) = cr2 s) by (rewrite put_wide, E; reflexivity).
      assert (Hsc : cscr (put' true l kc c s) = cscr s) by (rewrite put_wide, E; reflexivity).
      rewrite Hr2 in Hget. destruct (HI key pos Hget) as (Hw & Hlt & c' & Hk' & Hc').
      split; [exact Hw|].
      split; [unfold C11_CopyFacts.head, lexlt in *; cbn [fst snd] in *; lia|].
      exists c'. split; [exact Hk'|]. now rewrite Hsc.
  Qed.

  Lemma wcopy_input_Inv : forall cs l col skipped wc s,
    Inv s -> cy s < height ->
    (forall i c, nth_error cs i = Some c -> K (l, col + skipped + Z.of_nat i) c) ->
    Inv (copy_input' cs l col skipped wc s).
  Proof.
    induction cs as [|c r IH]; intros l col skipped wc s HI Hy HK; cbn [copy_input]; [exact HI|].
    assert (Hk0 : K (l, col + skipped) c).
    { specialize (HK O c eq_refl). cbn [Z.of_nat] in HK. now rewrite Z.add_0_r in HK. }
    assert (HKr : forall i c0, nth_error r i = Some c0 -> K (l, col + 1 + skipped + Z.of_nat i) c0).
    { intros i c0 Hn. specialize (HK (S i) c0 Hn). rewrite Nat2Z.inj_succ in HK.
      replace (col + 1 + skipped + Z.of_nat i) with (col + skipped + Z.succ (Z.of_nat i)) by lia. exact HK. }
    destruct (wrap && _).
    - set (s2 := if haspfx then copy_plain' (pfx l (wc + 1)) l (wrap_row l s) else wrap_row l s).
      assert (A2 : adv s s2).
      { unfold s2. destruct haspfx; [eapply adv_trans; [apply wrap_row_adv | apply wcopy_plain_adv] | apply wrap_row_adv]. }
      destruct (height <=? cy s2) eqn:Eh.
      + eapply Inv_adv; eauto.
      + apply IH; [|rewrite wput_cy; lia|exact HKr].
        apply wInv_put; [eapply Inv_adv; eauto|lia|exact Hk0].
    - apply IH; [|rewrite wput_cy; lia|exact HKr]. apply wInv_put; auto.
  Qed.

  (* a prefix that fits (in CELLS), or no wrapping at all: it does not leave its row *)
  Lemma wcopy_plain_cy : forall cs l s,
    wrap = false \/ cx s + strw dw cs <= width ->
    cy (copy_plain' cs l s) = cy s /\ cx (copy_plain' cs l s) = cx s + strw dw cs /\
    cvl (copy_plain' cs l s) = cvl s.
  Proof.
    induction cs as [|c r IH]; intros l s Hf; cbn [copy_plain strw].
    - repeat split; lia.
    - pose proof (strw_nonneg dw r ltac:(intros c0; pose proof (Hdw c0); lia)) as Hr.
      assert (E : wrap && (width <? cx s + dw c) = false).
      { destruct Hf as [-> | Hf]; [reflexivity|]. cbn [strw] in Hf.
        destruct (width <? cx s + dw c) eqn:E; [lia|]. apply andb_false_r. }
      rewrite E.
      destruct (IH l (put' false l 0 c s)) as (A & B & C).
      { destruct Hf as [-> | Hf]; [now left|right]. rewrite wput_cx. cbn [strw] in Hf. lia. }
      rewrite A, B, C, wput_cy, wput_cx, wput_cvl. repeat split; lia.
  Qed.

  Lemma wcopy_line_InvN : forall hscroll line l s,
    Inv s -> cx s = 0 -> cy s < height ->
    (wrap = false \/ haspfx = false \/ strw dw (pfx l 0) <= width) ->
    (forall i c, nth_error line i = Some c -> K (l, Z.of_nat i) c) ->
    let s' := copy_line' hscroll line l s in
    Inv (mkcst 0 (cy s' + 1) (cscr s') (cr2 s') (cvl s')).
  Proof.
    intros hscroll line l s HI Hx Hy Hfit HK. unfold copy_line.
    set (s1 := if haspfx then copy_plain' (pfx l 0) l s else s).
    assert (H1 : Inv s1 /\ cy s1 = cy s).
    { unfold s1. destruct haspfx; [|now split]. split.
      - eapply Inv_adv; [exact HI | apply wcopy_plain_adv].
      - apply wcopy_plain_cy. destruct Hfit as [-> | [Hc | Hf]]; [now left | discriminate | right; lia]. }
    destruct H1 as [HI1 Hy1].
    destruct (hscroll =? 0).
    - apply Inv_nextrow. apply wcopy_input_Inv; [exact HI1 | lia|].
      intros i c Hn. replace (0 + 0 + Z.of_nat i) with (Z.of_nat i) by lia. now apply HK.
    - destruct (skip_loop_spec sw line hscroll 0) as (n & A & B & C).
      destruct (skip_loop sw line hscroll 0) as [[line' h] skipped]. cbn [fst snd] in A, B, C.
      subst line' skipped.
      destruct C as [C | C].
      + rewrite C. cbn [copy_input cx cy cscr cr2 cvl].
        apply Inv_nextrow with (s := s1). exact HI1.
      + apply Inv_nextrow. apply wcopy_input_Inv; [|cbn [cy]; lia|].
        * eapply Inv_adv; [exact HI1|]. unfold C11_CopyFacts.adv, C11_CopyFacts.head, C11_CopyFacts.frame; cbn [cx cy cscr cr2].
          split; [|split; [intros; reflexivity | reflexivity]].
          destruct (Z.eq_dec h 0) as [-> | Hne]; [right; f_equal; lia | left; unfold lexlt; cbn [fst snd]; lia].
        * intros i c Hn. rewrite nth_error_skipn in Hn.
          replace (0 + (0 + Z.of_nat n) + Z.of_nat i) with (Z.of_nat (n + i)) by lia. now apply HK.
  Qed.

  Lemma wcopy_lines_Inv0 : forall hscroll rest lineno s,
    Inv0 disp width height xpos ypos K s ->
    (forall l, wrap = false \/ haspfx = false \/ strw dw (pfx l 0) <= width) ->
    (forall j line, nth_error rest j = Some line ->
       forall i c, nth_error line i = Some c -> K (lineno + Z.of_nat j, Z.of_nat i) c) ->
    Inv0 disp width height xpos ypos K (copy_lines' hscroll rest lineno s).
  Proof.
    induction rest as [|line r IH]; intros lineno s HI Hfit HK; cbn [copy_lines]; [exact HI|].
    destruct (cy s <? height) eqn:Ey; [|exact HI].
    apply IH.
    - unfold Inv0. cbn [cx cy cscr cr2 cvl].
      apply (wcopy_line_InvN hscroll line lineno
               (mkcst 0 (cy s) (cscr s) (cr2 s) ((cy s, (lineno, hscroll)) :: cvl s))).
      + eapply Inv_rowstart. exact HI.
      + reflexivity.
      + cbn [cy]. lia.
      + apply Hfit.
      + intros i c Hn. specialize (HK O line eq_refl i c Hn). cbn [Z.of_nat] in HK.
        now rewrite Z.add_0_r in HK.
    - exact Hfit.
    - intros j line' Hn i c Hc. specialize (HK (S j) line' Hn i c Hc).
      rewrite Nat2Z.inj_succ in HK. replace (lineno + 1 + Z.of_nat j) with (lineno + Z.succ (Z.of_nat j)) by lia.
      exact HK.
  Qed.
End Wide.

(* SAFETY, wide sub-domain: every displayed character occupies >= 1 cell (any
   source widths), every scroll state with vertical_scroll >= 0, both modes *)
Lemma registered_is_right_wide : forall sw dw disp wrap haspfx pfx width height xpos ypos lines st,
  (forall c, 1 <= dw c) ->
  (forall l, wrap = false \/ haspfx = false \/ strw dw (pfx l 0) <= width) ->
  0 <= vs st ->
  let out := copy_body sw dw disp wrap haspfx pfx width height xpos ypos lines st in
  forall key pos, alist_get (cr2 out) key = Some pos ->
    (ypos <= fst pos < ypos + height /\ xpos <= snd pos < xpos + width) /\
    exists c, char_at lines key c /\
              cstr (scr_get (cscr out) (fst pos) (snd pos)) = disp c.
Proof.
  intros sw dw disp wrap haspfx pfx width height xpos ypos lines st Hdw Hfit Hvs out key pos Hget.
  assert (HI : Inv0 disp width height xpos ypos (char_at lines) out).
  { unfold out, copy_body. apply wcopy_lines_Inv0; try assumption.
    - intros k p Hk. discriminate Hk.
    - intros j line Hn i c Hc. unfold char_at. cbn [fst snd].
      rewrite nth_error_skipn in Hn.
      split; [lia|]. split; [lia|]. exists line.
      replace (Z.to_nat (vs st + Z.of_nat j)) with (Z.to_nat (vs st) + j)%nat by lia.
      rewrite Nat2Z.id. auto. }
  destruct (HI key pos Hget) as (Hw & _ & Hc). split; [exact Hw | exact Hc].
Qed.

(* the hypothesis dw >= 1 is needed: with a zero-width (combining) character the
   cell of the character BEFORE it is rewritten to the merged text, so that
   cell no longer shows "exactly that character": 'a' + U+0301 in a 3x1 window *)
Lemma registered_zero_width_merges :
  let out := copy_body (fun c => if c =? 769 then 0 else 1) (fun c => if c =? 769 then 0 else 1) (fun c => [c])
               true false (fun _ _ => []) 3 1 0 0 [[97; 769; 32]] (mkss 0 0 0) in
  alist_get (cr2 out) (0, 0) = Some (0, 0) /\ cstr (scr_get (cscr out) 0 0) = [97; 769].
Proof. vm_compute. split; reflexivity. Qed.
