(* C12 - nested splits: the regions drawn fill the region of the layout
   exactly (together with "inside" and "pairwise disjoint" this makes the
   drawing a tiling: adjacent regions, no gaps, no overlaps). *)
From Coq Require Import ZArith List Bool Lia.
From PTK Require Import Lib.Sx Model.C12_Divide Model.C12_Layout
     Proofs.C12_Safety Proofs.C12_Gen Proofs.C12_Termination Proofs.C12_Fixed Proofs.C12_Cache
     Proofs.C12_Layout Proofs.C12_LayoutDraw Proofs.C12_LayoutMore.
Import ListNotations.
Open Scope Z_scope.

Definition area (r : rect) : Z := rw r * rh r.
Definition area_sum (rs : list rect) : Z := zsum (map area rs).

Lemma area_sum_app : forall a b, area_sum (a ++ b) = area_sum a + area_sum b.
Proof.
  unfold area_sum. induction a as [|r a IH]; intro b; cbn [app map zsum]; [lia|]. rewrite IH. lia.
Qed.

(* a VSplit without children draws nothing at all (`if not self.children:
   return`): the only way a region can stay unpainted *)
Fixpoint full (t : tree) : Prop :=
  match t with
  | Leaf _ _ _ => True
  | Node o _ _ kids =>
      (o =? 0 = false -> kids <> []) /\
      (fix all (l : list tree) : Prop := match l with [] => True | k :: r => full k /\ all r end) kids
  | WLeaf _ _ _ => True
  | Over _ _ t' => full t'
  end.

Lemma full_node : forall o al pad kids,
  full (Node o al pad kids) <-> (o =? 0 = false -> kids <> []) /\ Forall full kids.
Proof.
  intros o al pad kids. cbn [full]. split; intros [Hp Hk]; split; try exact Hp.
  - clear Hp. induction kids as [|k r IH]; constructor; [apply Hk|apply IH, Hk].
  - clear Hp. induction Hk as [|k r Hk1 Hk2 IH]; [exact I|split; assumption].
Qed.

Definition cross (o w h : Z) : Z := if o =? 0 then w else h.

Lemma cross_avail : forall o w h, cross o w h * axis_avail o w h = w * h.
Proof. intros. unfold cross, axis_avail. destruct (o =? 0); lia. Qed.

Lemma entry_rect_area : forall o kind x y w h sizes e,
  area (entry_rect o kind x y w h sizes e) = cross o w h * nth e sizes 0 /\
  rw (entry_rect o kind x y w h sizes e) * rh (entry_rect o kind x y w h sizes e) = cross o w h * nth e sizes 0.
Proof.
  intros. unfold area, entry_rect, piece, cross. destruct (o =? 0); cbn [rw rh]; lia.
Qed.

Definition kid_fills (wr : tree -> Z -> Z -> Z -> Z -> list rect + Z) (k : tree) : Prop :=
  forall x y w h rs, 0 <= w -> 0 <= h -> wr k x y w h = inl rs -> area_sum rs = w * h.

Lemma write_kids_area : forall wr o al x y w h sizes,
  0 <= w -> 0 <= h -> nonneg sizes -> zsum sizes <= axis_avail o w h ->
  forall ks idx rs, Forall (kid_fills wr) ks -> ks <> [] ->
  (kid_entry al idx + 2 * length ks - 1 <= length sizes)%nat ->
  write_kids wr o al x y w h sizes ks idx = inl rs ->
  area_sum rs = cross o w h * (pre sizes (kid_entry al idx + 2 * length ks - 1) - pre sizes (kid_entry al idx)).
Proof.
  intros wr o al x y w h sizes Hw Hh Hn Hs ks.
  induction ks as [|k r IH]; intros idx rs Hk Hne Hlen Hg; [congruence|].
  inversion Hk as [|k' r' Hk1 Hk2]; subst k' r'. cbn [write_kids] in Hg. cbn [length] in Hlen.
  set (e := kid_entry al idx) in *.
  assert (El : (e < length sizes)%nat) by lia.
  destruct (Nat.ltb e (length sizes)) eqn:El'; [|apply Nat.ltb_ge in El'; lia].
  destruct (entry_rect_facts o 0 x y w h sizes e Hw Hh Hn Hs El) as (_ & _ & Hrw & Hrh & _).
  destruct (wr k _ _ _ _) as [rk_|c] eqn:Ewr; [|discriminate].
  pose proof (Hk1 _ _ _ _ _ Hrw Hrh Ewr) as Ak.
  rewrite (proj2 (entry_rect_area o 0 x y w h sizes e)) in Ak.
  pose proof (pre_S sizes e El) as PS.
  destruct r as [|k2 r2].
  - cbn [write_kids] in Hg. injection Hg as <-. cbn [app length]. rewrite app_nil_r.
    replace (e + 2 * 1 - 1)%nat with (S e) by lia. rewrite Ak, PS. f_equal. lia.
  - destruct (write_kids wr o al x y w h sizes (k2 :: r2) (S idx)) as [rr|c] eqn:Er; [|discriminate].
    injection Hg as <-.
    assert (Hlen2 : (kid_entry al (S idx) + 2 * length (k2 :: r2) - 1 <= length sizes)%nat)
      by (rewrite kid_entry_S; fold e; cbn [length] in *; lia).
    pose proof (IH (S idx) rr Hk2 ltac:(discriminate) Hlen2 Er) as Ar.
    rewrite kid_entry_S in Ar. fold e in Ar. cbn [length] in *.
    replace (S (S e) + 2 * S (length r2) - 1)%nat with (e + 2 * S (S (length r2)) - 1)%nat in Ar by lia.
    assert (El2 : (S e < length sizes)%nat) by lia.
    destruct (Nat.ltb (S e) (length sizes)) eqn:El2'; [|apply Nat.ltb_ge in El2'; lia].
    pose proof (pre_S sizes (S e) El2) as PS2.
    rewrite !area_sum_app, Ak, Ar. unfold area_sum at 1. cbn [map zsum].
    rewrite (proj1 (entry_rect_area o (-1) x y w h sizes (S e))).
    set (top := pre sizes (e + 2 * S (S (length r2)) - 1)) in *.
    rewrite PS2, PS in *. ring.
Qed.

Lemma place_area : forall wr o al x y w h sizes kids rs,
  0 <= w -> 0 <= h -> nonneg sizes -> zsum sizes <= axis_avail o w h ->
  Forall (kid_fills wr) kids ->
  length sizes = (match kids with [] => 0 | _ => lead al + 2 * length kids - 1 + (if trail al then 1 else 0) end)%nat ->
  place wr o al x y w h sizes kids = inl rs -> area_sum rs = w * h.
Proof.
  intros wr o al x y w h sizes kids rs Hw Hh Hn Hs Hk Hlen Hp. unfold place in Hp.
  destruct (write_kids wr o al x y w h sizes kids 0) as [mid|c] eqn:Em; [|discriminate].
  injection Hp as <-. rewrite <- cross_avail with (o := o).
  set (S0 := axis_start o x y) in *. set (C := cross o w h). set (AV := axis_avail o w h) in *.
  assert (Hrem : forall n, area_sum (if S0 + AV - (S0 + zsum (firstn n sizes)) >? 0
                                     then [piece o (-3) x y w h (S0 + zsum (firstn n sizes)) (S0 + AV - (S0 + zsum (firstn n sizes)))]
                                     else []) = C * (AV - pre sizes n)).
  { intro n. fold (pre sizes n). pose proof (pre_le sizes n Hn).
    destruct (_ >? 0) eqn:Er.
    - unfold area_sum, area, piece, C, cross. cbn [map zsum]. destruct (o =? 0); cbn [rw rh]; lia.
    - rewrite Z.gtb_ltb in Er. apply Z.ltb_ge in Er. unfold area_sum. cbn [map zsum].
      replace (AV - pre sizes n) with 0 by lia. lia. }
  destruct kids as [|k0 kr].
  - cbn [write_kids] in Em. injection Em as <-. cbn [app]. rewrite Hrem.
    destruct sizes; [|cbn [length] in Hlen; lia]. unfold pre. rewrite firstn_nil. cbn [zsum]. f_equal. lia.
  - remember (k0 :: kr) as kids eqn:Ek. set (nk := length kids) in *.
    assert (Hnk : (1 <= nk)%nat) by (unfold nk; rewrite Ek; cbn [length]; lia).
    assert (Hlen' : length sizes = (lead al + 2 * nk - 1 + (if trail al then 1 else 0))%nat) by (rewrite Hlen; unfold nk; rewrite Ek; reflexivity).
    assert (Hk0 : kid_entry al 0 = lead al) by (unfold kid_entry; lia).
    assert (Hmid : area_sum mid = C * (pre sizes (lead al + 2 * nk - 1) - pre sizes (lead al))).
    { rewrite <- Hk0. apply (write_kids_area wr o al x y w h sizes Hw Hh Hn Hs kids O mid Hk); [rewrite Ek; discriminate| |exact Em].
      rewrite Hk0. fold nk. lia. }
    set (e_t := (lead al + 2 * nk - 1)%nat) in *.
    rewrite !area_sum_app, Hmid, Hrem.
    (* leading and trailing alignment windows *)
    assert (Hlead : area_sum (if Nat.eqb (lead al) 1 && Nat.ltb 0 (length sizes) then [entry_rect o (-2) x y w h sizes 0] else [])
                    = C * (pre sizes (lead al) - pre sizes 0)).
    { destruct (lead_cases al) as [E|E]; rewrite E; cbn [Nat.eqb andb].
      - unfold area_sum. cbn [map zsum]. lia.
      - assert (H0 : (0 < length sizes)%nat) by lia. apply Nat.ltb_lt in H0. rewrite H0.
        unfold area_sum. cbn [map zsum]. rewrite (proj1 (entry_rect_area o (-2) x y w h sizes 0)).
        rewrite pre_S by lia. rewrite pre_0. fold C. lia. }
    assert (Htrail : area_sum (if trail al && Nat.ltb e_t (length sizes) then [entry_rect o (-2) x y w h sizes e_t] else [])
                     = C * (pre sizes (e_t + (if trail al then 1 else 0)) - pre sizes e_t)).
    { destruct (trail al) eqn:Et; cbn [andb].
      - assert (H0 : (e_t < length sizes)%nat) by lia. pose proof H0 as H0'. apply Nat.ltb_lt in H0. rewrite H0.
        unfold area_sum. cbn [map zsum]. rewrite (proj1 (entry_rect_area o (-2) x y w h sizes e_t)).
        replace (e_t + 1)%nat with (S e_t) by lia. rewrite pre_S by exact H0'. fold C. lia.
      - unfold area_sum. cbn [map zsum]. replace (e_t + 0)%nat with e_t by lia. lia. }
    change (lead al + (nk + (nk + 0)) - 1)%nat with e_t.
    rewrite Hlead, Htrail, pre_0. ring.
Qed.

Lemma collect_rep_length : forall l ds, collect_rep l = inl ds -> length ds = length l.
Proof.
  induction l as [|r l IH]; intros ds H; cbn [collect_rep] in H.
  - injection H as <-. reflexivity.
  - destruct r as [d| |]; try discriminate. destruct (collect_rep l) as [ds'|e]; [|discriminate].
    injection H as <-. cbn [length]. rewrite (IH ds' eq_refl). reflexivity.
Qed.

Theorem write_fills : forall fuel done t, wf t -> full t ->
  forall x y w h rs, 0 <= w -> 0 <= h -> write fuel done t x y w h = inl rs -> area_sum rs = w * h.
Proof.
  intros fuel done. induction t as [id wd hd|o al pad kids IH|id wd len|ow oh t IH] using tree_ind'; intros Hwf Hfull x y w h rs Hw Hh Hr;
    [| |cbn [write] in Hr; injection Hr as <-; unfold area_sum, area; cbn [map zsum rw rh]; lia
     |cbn [wf] in Hwf; cbn [full] in Hfull; cbn [write] in Hr; apply (IH (proj2 (proj2 Hwf)) Hfull x y w h rs Hw Hh Hr)].
  - cbn [write] in Hr. injection Hr as <-. unfold area_sum, area. cbn [map zsum rw rh]. lia.
  - apply wf_node in Hwf. destruct Hwf as [Hp Hk]. apply full_node in Hfull. destruct Hfull as [Hne Hfk].
    assert (Hkids : Forall (kid_fills (write fuel done)) kids).
    { rewrite Forall_forall in *. intros k Hin x' y' w' h' rs' Hw' Hh' E. apply (IH k Hin (Hk k Hin) (Hfk k Hin) x' y' w' h' rs' Hw' Hh' E). }
    assert (Hph : forall wd, Forall rep_good (map (fun k => ph fuel k wd) kids)).
    { intro wd. apply Forall_forall. intros r Hin. apply in_map_iff in Hin. destruct Hin as (k & <- & Hin).
      rewrite Forall_forall in Hk. apply ph_good; auto. }
    assert (Hpw : Forall rep_good (map pw kids)).
    { apply Forall_forall. intros r Hin. apply in_map_iff in Hin. destruct Hin as (k & <- & Hin).
      rewrite Forall_forall in Hk. right. apply pw_valid; auto. }
    assert (Hsmall : area_sum [mkrect (-4) x y w h] = w * h) by (unfold area_sum, area; cbn [map zsum rw rh]; lia).
    cbn [write] in Hr. destruct (o =? 0) eqn:Eo.
    + destruct kids as [|k0 kr].
      * apply (place_area (write fuel done) o al x y w h [] [] rs Hw Hh); try assumption; [constructor| |reflexivity].
        cbn [zsum]. unfold axis_avail. rewrite Eo. exact Hh.
      * remember (k0 :: kr) as kids eqn:Ek.
        destruct (collect_rep (map (fun k => ph fuel k w) kids)) as [hds|e] eqn:Ec; [|discriminate].
        pose proof (collect_rep_valid _ _ (Hph w) Ec) as Hv.
        pose proof (collect_rep_length _ _ Ec) as Hl. rewrite map_length in Hl.
        pose proof (all_children_valid al pad hds Hp Hv) as Hav.
        destruct (divide fuel done (all_children al pad hds) h) as [sizes| | | |] eqn:Ed; try discriminate.
        -- destruct (divide_safe _ _ _ _ _ Hav Ed) as (Hlen & Hnn & Hsum & _).
           apply (place_area (write fuel done) o al x y w h sizes kids rs Hw Hh); try assumption.
           ++ unfold axis_avail. rewrite Eo. lia.
           ++ rewrite Hlen, all_children_length by (destruct hds; [rewrite Ek in Hl; discriminate|discriminate]).
              rewrite Hl, Ek. reflexivity.
        -- injection Hr as <-. exact Hsmall.
    + destruct kids as [|k0 kr].
      * exfalso. apply (Hne eq_refl). reflexivity.
      * remember (k0 :: kr) as kids eqn:Ek.
        destruct (collect_rep (map pw kids)) as [wds|e] eqn:Ec; [|discriminate].
        pose proof (collect_rep_valid _ _ Hpw Ec) as Hv.
        pose proof (collect_rep_length _ _ Ec) as Hl. rewrite map_length in Hl.
        pose proof (all_children_valid al pad wds Hp Hv) as Hav.
        destruct (divide fuel false (all_children al pad wds) w) as [sizes| | | |] eqn:Ed; try discriminate.
        -- destruct (collect_rep (ph_kids (ph fuel) al sizes kids 0)) as [hds|e]; [|discriminate].
           destruct (divide_safe _ _ _ _ _ Hav Ed) as (Hlen & Hnn & Hsum & _).
           apply (place_area (write fuel done) o al x y w h sizes kids rs Hw Hh); try assumption.
           ++ unfold axis_avail. rewrite Eo. lia.
           ++ rewrite Hlen, all_children_length by (destruct wds; [rewrite Ek in Hl; discriminate|discriminate]).
              rewrite Hl, Ek. reflexivity.
        -- injection Hr as <-. exact Hsmall.
Qed.

(* without [full] the statement fails: an empty VSplit paints nothing *)
Theorem write_fills_needs_full :
  ~ (forall fuel done t x y w h rs, wf t -> 0 <= w -> 0 <= h -> write fuel done t x y w h = inl rs ->
       zsum (map (fun r => rw r * rh r) rs) = w * h).
Proof.
  intro H. specialize (H 10%nat false (Node 1 3 (mkdim 0 0 0 1) []) 0 0 3 2 []).
  assert (E : 0 = 3 * 2); [|discriminate E].
  apply H; try lia; [|reflexivity]. apply wf_node. split; [|constructor].
  unfold valid; cbn [dmin dmax dpref dweight]. lia.
Qed.

Theorem all_children_entries : forall al pad cs,
  (cs <> [] ->
   length (all_children al pad cs) = (lead al + 2 * length cs - 1 + (if trail al then 1 else 0))%nat) /\
  (forall idx d0, (idx < length cs)%nat -> nth (kid_entry al idx) (all_children al pad cs) d0 = nth idx cs d0) /\
  (forall idx d0, (S idx < length cs)%nat -> nth (S (kid_entry al idx)) (all_children al pad cs) d0 = pad).
Proof.
  intros al pad cs. split; [apply all_children_length|]. split; intros idx d0 H; [apply all_children_kid|apply all_children_pad]; exact H.
Qed.
